(* C16/Proofs.v -- the model meets the specification, for every input. *)
From Coq Require Import ZArith List Lia Bool ZifyBool.
From PV Require Import Base.PySlice Base.NpSearch C16.Model C16.Spec.
Import ListNotations.
Open Scope Z_scope.

(* ================= chunk_bounds ================= *)
Section CBProofs.
Context {A : Type}.
Variable data : list A.
Let n := zlen data.

Lemma cb_loop_spec cs ov : 0 <= ov < cs ->
  forall fuel s_end,
    0 <= s_end - ov ->
    n - s_end < Z.of_nat fuel ->
    exists l se,
      cb_loop fuel n cs ov s_end (s_end - ov / 2) = Some (mkcb l se (se - ov / 2)) /\
      s_end <= se /\
      n <= se - ov + cs /\
      concat (map (keep data) l) = slice data (s_end - ov / 2) (se - ov / 2) /\
      Forall (inside n) l /\
      Forall (fun c => zlen (whole data c) <= cs) l.
Proof.
  intros Hov.
  assert (Hd : 0 <= ov / 2 <= ov) by (split; [apply Z.div_pos; lia | apply Z.div_le_upper_bound; lia]).
  induction fuel as [|f IH]; intros s_end H1 Hf; cbn [cb_loop].
  - destruct (s_end - ov + cs <? n) eqn:E; [lia|].
    exists [], s_end. cbn [map concat].
    rewrite slice_empty by lia. repeat split; try lia; constructor.
  - destruct (s_end - ov + cs <? n) eqn:E.
    + set (ss' := s_end - ov). set (se' := ss' + cs).
      destruct (IH se') as (l & se & Hl & B1 & B2 & Hc & Hi & Hw);
        try (subst ss' se'; lia).
      rewrite Hl. cbn [cb_list cb_se cb_ke]. replace (ss' <? se') with true by (subst ss' se'; lia).
      exists (mk ss' se' (s_end - ov / 2) (se' - ov / 2) :: l), se. split; [reflexivity|].
      split; [subst ss' se'; lia|]. split; [lia|]. split; [|split].
      * rewrite map_cons, concat_cons, Hc. unfold keep at 1. cbn [c_ks c_ke].
        rewrite slice_app by (subst ss' se'; lia). f_equal. subst ss' se'; lia.
      * constructor; [|exact Hi]. unfold inside; cbn [c_ks c_ke c_ss c_se]. subst ss' se'. lia.
      * constructor; [|exact Hw]. unfold whole, zlen; cbn [c_ss c_se].
        rewrite slice_length by (subst ss'; lia). subst ss' se'. fold (zlen data). fold n. lia.
    + exists [], s_end. cbn [map concat].
      rewrite slice_empty by lia. repeat split; try lia; constructor.
Qed.

Theorem chunk_bounds_tile cs ov : 0 <= ov < cs ->
  exists chunks, chunk_bounds n cs ov = Some chunks /\ CB_Spec data cs chunks.
Proof.
  intros Hov. unfold chunk_bounds, CB_Spec. fold n.
  assert (Hd : 0 <= ov / 2 <= ov) by (split; [apply Z.div_pos; lia | apply Z.div_le_upper_bound; lia]).
  destruct (cb_loop_spec cs ov Hov (Z.to_nat n + 1) cs)
    as (l & se & Hl & B1 & B2 & Hc & Hi & Hw); try (subst n; unfold zlen; lia).
  rewrite Hl. cbn [cb_list cb_se cb_ke]. eexists; split; [reflexivity|].
  split; [|split].
  - rewrite map_cons, concat_cons, map_app, concat_app, Hc. unfold keep at 1; cbn [c_ks c_ke].
    rewrite app_assoc, slice_app by lia. replace (Z.max (cs - ov / 2) (se - ov / 2)) with (se - ov / 2) by lia.
    destruct (se - ov <? n) eqn:E; cbn [map concat].
    + unfold keep; cbn [c_ks c_ke]. rewrite app_nil_r, slice_app by lia.
      apply slice_all. fold (zlen data). fold n. lia.
    + rewrite app_nil_r. apply slice_all. fold (zlen data). fold n. lia.
  - constructor.
    + unfold inside; cbn [c_ks c_ke c_ss c_se]. lia.
    + apply Forall_app; split; [exact Hi|].
      destruct (se - ov <? n) eqn:E; constructor; [|constructor].
      unfold inside; cbn [c_ks c_ke c_ss c_se]. lia.
  - constructor.
    + unfold whole, zlen; cbn [c_ss c_se]. rewrite slice_length by lia. fold (zlen data). fold n. lia.
    + apply Forall_app; split; [exact Hw|].
      destruct (se - ov <? n) eqn:E; constructor; [|constructor].
      unfold whole, zlen; cbn [c_ss c_se]. rewrite slice_length by lia. fold (zlen data). fold n. lia.
Qed.
End CBProofs.

(* with overlap = chunk_size the loop never stops, whatever the fuel *)
Lemma cb_loop_diverges fuel ke : cb_loop fuel 10 2 2 2 ke = None.
Proof.
  revert ke; induction fuel as [|f IH]; intros ke; [reflexivity|].
  change (cb_loop (S f) 10 2 2 2 ke) with
    (match cb_loop f 10 2 2 2 (2 - 2 + 2 - 2 / 2) with
     | None => None
     | Some r => Some (mkcb ((if 2 - 2 <? 2 - 2 + 2 then [mk (2 - 2) (2 - 2 + 2) ke (2 - 2 + 2 - 2 / 2)] else []) ++ cb_list r) (cb_se r) (cb_ke r))
     end).
  now rewrite IH.
Qed.

(* ----- the boolean checker implies the statement for every data of that length ----- *)
Section SliceMap.
Context {A B : Type}.
Lemma slice_map (f : A -> B) l i j : slice (map f l) i j = map f (slice l i j).
Proof. unfold slice. now rewrite skipn_map, firstn_map. Qed.
End SliceMap.

Lemma inside_b_spec n c : inside_b n c = true <-> inside n c.
Proof.
  unfold inside_b, inside. cbv zeta.
  rewrite !andb_true_iff, orb_true_iff, andb_true_iff, !Z.leb_le. tauto.
Qed.

Lemma map_nth_zrange {A} (l : list A) (d : A) :
  map (fun i => nth (Z.to_nat i) l d) (zrange 0 (length l)) = l.
Proof.
  induction l as [|x l IH]; [reflexivity|]. cbn [length zrange map]. f_equal.
  rewrite (zrange_S 0), map_map. rewrite <- IH at 2. apply map_ext_in. intros i Hi.
  apply zrange_ge in Hi. replace (Z.to_nat (i + 1)) with (S (Z.to_nat i)) by lia. reflexivity.
Qed.

Theorem cb_spec_b_sound {A} (data : list A) cs chunks :
  cb_spec_b (zlen data) cs chunks = true -> CB_Spec data cs chunks.
Proof.
  unfold cb_spec_b, CB_Spec. rewrite !andb_true_iff, zlist_eqb_eq, !forallb_forall.
  intros [[H1 H2] H3].
  destruct data as [|d data'] eqn:Ed.
  { (* empty data *)
    split; [|split].
    - clear. induction chunks as [|c r IH]; [reflexivity|]. cbn [map concat]. rewrite IH.
      unfold keep, slice. now rewrite skipn_nil, firstn_nil.
    - apply Forall_forall. intros c Hc. apply inside_b_spec. now apply H2.
    - apply Forall_forall. intros c Hc. unfold whole, slice, zlen. rewrite skipn_nil, firstn_nil.
      specialize (H3 c Hc). unfold whole, slice, zlen in H3. cbn [Z.to_nat zrange] in H3.
      rewrite skipn_nil, firstn_nil in H3. cbn [length] in *. lia. }
  rewrite <- Ed in *. clear Ed data'.
  set (f := fun i => nth (Z.to_nat i) data d).
  assert (Hdata : data = map f (zrange 0 (Z.to_nat (zlen data)))).
  { unfold zlen. rewrite Nat2Z.id. symmetry. apply map_nth_zrange. }
  split; [|split].
  - rewrite Hdata at 1.
    rewrite (map_ext (keep (map f (zrange 0 (Z.to_nat (zlen data))))) (fun c => map f (keep (zrange 0 (Z.to_nat (zlen data))) c))).
    2:{ intros c. unfold keep. apply slice_map. }
    rewrite <- map_map, <- concat_map, H1. now rewrite <- Hdata.
  - apply Forall_forall. intros c Hc. apply inside_b_spec. now apply H2.
  - apply Forall_forall. intros c Hc. specialize (H3 c Hc).
    unfold whole, zlen in *. rewrite Hdata, slice_map, map_length. lia.
Qed.

(* ================= _get_chunk_bounds ================= *)
Lemma last_default {A} (l : list A) d d' : l <> [] -> last l d = last l d'.
Proof.
  induction l as [|x l IH]; intros H; [congruence|].
  destruct l as [|y l]; [reflexivity|].
  change (last (x :: y :: l) d) with (last (y :: l) d).
  change (last (x :: y :: l) d') with (last (y :: l) d'). apply IH. discriminate.
Qed.

Lemma last_cons_any {A} (x : A) l d d' : l <> [] -> last (x :: l) d = last l d'.
Proof.
  intros H. destruct l as [|y l]; [congruence|]. change (last (x :: y :: l) d) with (last (y :: l) d).
  apply last_default. discriminate.
Qed.

Lemma last_cons_shift {A} (x : A) l d : last (x :: l) d = last l x.
Proof.
  destruct l as [|y l]; [reflexivity|]. apply last_cons_any. discriminate.
Qed.

Lemma last_app_ne {A} (l1 l2 : list A) d : l2 <> [] -> last (l1 ++ l2) d = last l2 d.
Proof.
  intros H. induction l1 as [|x l1 IH]; [reflexivity|]. cbn [app].
  rewrite (last_cons_any x (l1 ++ l2) d d); [exact IH|].
  destruct l1; [exact H|discriminate].
Qed.

Lemma last_app_gen {A} (l1 l2 : list A) d : last (l1 ++ l2) d = last l2 (last l1 d).
Proof.
  destruct l2 as [|z l2]; [now rewrite app_nil_r|].
  rewrite last_app_ne by discriminate. apply last_default. discriminate.
Qed.

Lemma last_In {A} (l : list A) d : l <> [] -> In (last l d) l.
Proof.
  induction l as [|x l IH]; intros H; [congruence|].
  destruct l as [|y l]; [now left|]. right.
  change (last (x :: y :: l) d) with (last (y :: l) d). apply IH. discriminate.
Qed.

Lemma chainP_app cs lo l1 l2 :
  chainP cs lo (l1 ++ l2) <-> chainP cs lo l1 /\ chainP cs (last l1 lo) l2.
Proof.
  revert lo; induction l1 as [|x l1 IH]; intros lo; cbn [app chainP].
  - cbn [last]. tauto.
  - rewrite IH. replace (last (x :: l1) lo) with (last l1 x); [tauto|].
    destruct l1 as [|y l1']; [reflexivity|]. symmetry. apply last_cons_any. discriminate.
Qed.

Lemma chain_b_spec cs lo l : chain_b cs lo l = true <-> chainP cs lo l.
Proof.
  revert lo; induction l as [|x r IH]; intros lo; cbn [chain_b chainP]; [tauto|].
  rewrite !andb_true_iff, IH, Z.ltb_lt, Z.leb_le. tauto.
Qed.

(* the multiples part of range(n, n+size+1, cs) *)
Definition mults (n cs j : Z) (m : nat) : list Z := map (fun k => n + k * cs) (zrange (j + 1) m).

Lemma mults_chain n cs : 1 <= cs -> forall m j, chainP cs (n + j * cs) (mults n cs j m).
Proof.
  intros Hcs. induction m as [|m IH]; intros j; unfold mults; cbn [zrange map chainP]; [exact I|].
  split; [lia|]. split; [lia|]. apply IH.
Qed.

Lemma mults_last n cs m j : last (mults n cs j m) (n + j * cs) = n + (j + Z.of_nat m) * cs.
Proof.
  revert j; induction m as [|m IH]; intros j; unfold mults; cbn [zrange map].
  - cbn [last]. f_equal. lia.
  - fold (mults n cs (j + 1) m). rewrite last_cons_shift. rewrite IH. f_equal. lia.
Qed.

Lemma py_range_struct n size cs : 0 <= size -> 1 <= cs ->
  py_range n (n + size + 1) cs = n :: mults n cs 0 (Z.to_nat (size / cs)).
Proof.
  intros Hs Hcs. unfold py_range, mults.
  replace ((n + size + 1 - n + cs - 1) / cs) with (size / cs + 1).
  2:{ replace (n + size + 1 - n + cs - 1) with (size + 1 * cs) by lia. rewrite Z.div_add by lia. lia. }
  assert (0 <= size / cs) by (apply Z.div_pos; lia).
  replace (Z.to_nat (size / cs + 1)) with (S (Z.to_nat (size / cs))) by lia.
  cbn [zrange map]. f_equal. lia.
Qed.

Definition GInv (cs : Z) (b : list Z) (n : Z) : Prop :=
  (b = [] /\ n = 0) \/ (exists r, b = 0 :: r /\ chainP cs 0 r /\ last b 0 = n).

Lemma gcb_loop_spec cs : 1 <= cs -> forall sizes b n,
  (forall x, In x sizes -> 0 <= x) -> GInv cs b n -> (sizes <> [] \/ b <> []) ->
  exists b', gcb_loop sizes cs n b = Some b' /\
    (exists r', b' = 0 :: r' /\ chainP cs 0 r' /\ last b' 0 = n + zsum sizes) /\
    (forall x, In x b -> In x b') /\
    (forall x, In x (cumsum_from n sizes) -> In x b').
Proof.
  intros Hcs. induction sizes as [|size rest IH]; intros b n Hpos Hinv Hne.
  - cbn [gcb_loop zsum fold_right cumsum_from]. exists b. split; [reflexivity|].
    destruct Hinv as [[-> _]|(r & -> & Hc & Hl)]; [destruct Hne; congruence|].
    split; [exists r; repeat split; [exact Hc|lia]|]. split; [auto|intros x []].
  - assert (Hsz : 0 <= size) by (apply Hpos; now left).
    assert (Hrest : forall x, In x rest -> 0 <= x) by (intros x Hx; apply Hpos; now right).
    cbn [gcb_loop]. rewrite py_range_struct by lia.
    set (q := size / cs). set (T := mults n cs 0 (Z.to_nat q)).
    assert (Hq0 : 0 <= q) by (apply Z.div_pos; lia).
    assert (Hq1 : q * cs <= size < q * cs + cs).
    { pose proof (Z.div_mod size cs ltac:(lia)). pose proof (Z.mod_pos_bound size cs ltac:(lia)).
      fold q in H. lia. }
    assert (HTc : chainP cs n T) by (replace n with (n + 0 * cs) at 1 by lia; apply mults_chain; lia).
    assert (HTl : last T n = n + q * cs).
    { replace n with (n + 0 * cs) at 1 by lia. unfold T. rewrite mults_last. f_equal. lia. }
    (* the list after extend(), in both cases, is 0 :: r1 with a chain ending at n + q*cs *)
    assert (Hb1 : exists r1, (b ++ match b with
                                    | [] => n :: T
                                    | _ :: _ => if n =? last b 0 then T else n :: T
                                    end) = 0 :: r1 /\ chainP cs 0 r1 /\ last (0 :: r1) 0 = n + q * cs /\
                             (forall x, In x b -> In x (0 :: r1))).
    { destruct Hinv as [[-> ->]|(r & -> & Hc & Hl)].
      - exists T. cbn [app]. repeat split; [exact HTc| |intros x []].
        rewrite last_cons_shift. exact HTl.
      - rewrite Hl, Z.eqb_refl. exists (r ++ T). cbn [app]. split; [reflexivity|]. split; [|split].
        + apply chainP_app. split; [exact Hc|]. rewrite last_cons_shift in Hl. now rewrite Hl.
        + rewrite last_cons_shift, last_app_gen. rewrite last_cons_shift in Hl. now rewrite Hl.
        + intros x Hx. change (0 :: r ++ T) with ((0 :: r) ++ T). apply in_or_app. now left. }
    destruct Hb1 as (r1 & -> & Hc1 & Hl1 & Hsub1).
    rewrite Hl1.
    set (b2 := if n + q * cs =? n + size then 0 :: r1 else (0 :: r1) ++ [n + size]).
    assert (Hb2 : exists r2, b2 = 0 :: r2 /\ chainP cs 0 r2 /\ last b2 0 = n + size /\
                             (forall x, In x (0 :: r1) -> In x b2)).
    { unfold b2. destruct (n + q * cs =? n + size) eqn:E.
      - exists r1. repeat split; [exact Hc1|lia|auto].
      - exists (r1 ++ [n + size]). cbn [app]. split; [reflexivity|]. split; [|split].
        + apply chainP_app. split; [exact Hc1|]. rewrite last_cons_shift in Hl1. rewrite Hl1.
          cbn [chainP]. lia.
        + change (0 :: r1 ++ [n + size]) with ((0 :: r1) ++ [n + size]). apply last_last.
        + intros x Hx. change (0 :: r1 ++ [n + size]) with ((0 :: r1) ++ [n + size]).
          apply in_or_app. now left. }
    destruct Hb2 as (r2 & Eb2 & Hc2 & Hl2 & Hsub2).
    destruct (IH b2 (n + size) Hrest) as (b' & Hrun & Hfin & Hsub & Hcum).
    { right. exists r2. repeat split; assumption. }
    { right. rewrite Eb2. discriminate. }
    exists b'. split; [exact Hrun|]. split; [|split].
    + destruct Hfin as (r' & -> & Hc' & Hl'). exists r'. repeat split; [exact Hc'|].
      rewrite Hl'. cbn [zsum fold_right]. fold (zsum rest). lia.
    + intros x Hx. apply Hsub, Hsub2, Hsub1, Hx.
    + intros x Hx. cbn [cumsum_from] in Hx. destruct Hx as [<-|Hx]; [|now apply Hcum].
      apply Hsub. rewrite <- Hl2. rewrite Eb2. rewrite last_cons_shift.
      destruct r2 as [|y r2']; [now left|]. right. apply last_In. discriminate.
Qed.

Lemma cumsum_last acc l : last (acc :: cumsum_from acc l) 0 = acc + zsum l.
Proof.
  revert acc; induction l as [|x r IH]; intros acc; cbn [cumsum_from zsum fold_right].
  - cbn [last]. lia.
  - change (last (acc :: acc + x :: cumsum_from (acc + x) r) 0) with
      (last (acc + x :: cumsum_from (acc + x) r) 0). rewrite IH. fold (zsum r). lia.
Qed.

Theorem reader_bounds sizes cs :
  sizes <> [] -> (forall x, In x sizes -> 0 <= x) -> 1 <= cs ->
  exists b, get_chunk_bounds sizes cs = Some b /\ Bounds_Spec sizes cs b.
Proof.
  intros Hne Hpos Hcs. unfold get_chunk_bounds. replace (0 <? cs) with true by lia.
  destruct (gcb_loop_spec cs Hcs sizes [] 0 Hpos) as (b & Hrun & (r & -> & Hc & Hl) & _ & Hcum).
  { left. split; reflexivity. }
  { now left. }
  exists (0 :: r). split; [exact Hrun|]. exists r. repeat split; [exact Hc|lia|exact Hcum].
Qed.

Lemma bounds_spec_b_spec sizes cs b : bounds_spec_b sizes cs b = true <-> Bounds_Spec sizes cs b.
Proof.
  unfold bounds_spec_b, Bounds_Spec. split.
  - destruct b as [|[| |] r]; try discriminate.
    rewrite !andb_true_iff, chain_b_spec, forallb_forall. intros [[H1 H2] H3].
    exists r. repeat split; [exact H1|lia|]. intros x Hx. apply memZ_In. now apply H3.
  - intros (r & -> & H1 & H2 & H3).
    rewrite !andb_true_iff, chain_b_spec, forallb_forall. repeat split; [exact H1|lia|].
    intros x Hx. apply memZ_In. now apply H3.
Qed.

(* ================= iterators ================= *)
Lemma linked_app start l1 l2 mid : linked start l1 = Some mid -> linked start (l1 ++ l2) = linked mid l2.
Proof.
  revert start; induction l1 as [|i r IH]; intros start H; cbn [linked app] in *.
  - now injection H as ->.
  - destruct ((lo i =? start) && (lo i <=? hi i)); [|discriminate]. now apply IH.
Qed.

(* dropping empty intervals from a linked list keeps it linked *)
Lemma linked_filter start l n : linked start l = Some n -> linked start (filter nonempty l) = Some n.
Proof.
  revert start; induction l as [|i r IH]; intros start H; cbn [linked filter] in *; [exact H|].
  destruct ((lo i =? start) && (lo i <=? hi i)) eqn:E; [|discriminate].
  unfold nonempty at 1. destruct (lo i <? hi i) eqn:E2.
  - cbn [linked]. rewrite E. now apply IH.
  - replace start with (hi i) by lia. now apply IH.
Qed.

Lemma linked_mono start l n : linked start l = Some n -> start <= n.
Proof.
  revert start; induction l as [|i r IH]; intros start H; cbn [linked] in *; [injection H; lia|].
  destruct ((lo i =? start) && (lo i <=? hi i)) eqn:E; [|discriminate]. apply IH in H. lia.
Qed.

(* reading the intervals one after the other yields the data exactly once, in order *)
Theorem linked_tiles_data {A} (data : list A) l start n :
  0 <= start -> linked start l = Some n ->
  concat (map (iv_slice data) l) = slice data start n.
Proof.
  revert start; induction l as [|i r IH]; intros start H0 H; cbn [linked map concat] in *.
  - injection H as <-. now rewrite slice_empty by lia.
  - destruct ((lo i =? start) && (lo i <=? hi i)) eqn:E; [|discriminate].
    pose proof (linked_mono _ _ _ H) as Hm.
    rewrite (IH (hi i)) by (try exact H; lia). unfold iv_slice.
    replace (lo i) with start by lia.
    rewrite slice_app by lia. f_equal. lia.
Qed.

Corollary tiles_data {A} (data : list A) l :
  Tiles (zlen data) l -> concat (map (iv_slice data) (filter nonempty l)) = data.
Proof.
  unfold Tiles. intros H. rewrite (linked_tiles_data data _ 0 (zlen data)) by (try exact H; lia).
  apply slice_all. unfold zlen. lia.
Qed.

Lemma tiles_b_spec n l : tiles_b n l = true <-> Tiles n l.
Proof.
  unfold tiles_b, Tiles. destruct (linked 0 (filter nonempty l)) as [m|]; split; try discriminate.
  - intros H. f_equal. lia.
  - intros H. injection H as ->. lia.
Qed.

(* BaseEphysReader.iter_chunks *)
Lemma iter_base_linked x r : sortedZ (x :: r) -> linked x (iter_base (x :: r)) = Some (last (x :: r) 0).
Proof.
  revert x; induction r as [|y r IH]; intros x Hs; [reflexivity|].
  cbn [iter_base linked lo hi]. inversion Hs as [| |? ? ? Hxy Hs']; subst.
  rewrite Z.eqb_refl. replace (x <=? y) with true by lia. cbn [andb].
  rewrite IH by exact Hs'. reflexivity.
Qed.

Lemma chainP_sorted cs lo l : chainP cs lo l -> sortedZ (lo :: l).
Proof.
  revert lo; induction l as [|x r IH]; intros lo H; [constructor|].
  cbn [chainP] in H. destruct H as (H1 & _ & H3). constructor; [lia|now apply IH].
Qed.

Theorem iter_base_tiles b n : (exists r cs, b = 0 :: r /\ chainP cs 0 r) -> last b 0 = n ->
  Tiles n (iter_base b).
Proof.
  intros (r & cs & -> & Hc) Hl. unfold Tiles. apply linked_filter.
  rewrite iter_base_linked by (eapply chainP_sorted; exact Hc). now rewrite Hl.
Qed.

(* MtscompEphysReader.iter_chunks, chunk-index level *)
Lemma batches_linked n bs : 1 <= bs -> 1 <= n ->
  forall k j, 0 <= j -> (j + Z.of_nat k) = (n + bs - 1) / bs -> (1 <= k)%nat ->
  linked (Z.max (bs * j - 1) 0) (batches n bs j k) = Some (n - 1) /\
  hi (last (batches n bs j k) (mkiv 0 0)) = n - 1 /\
  Forall (fun i => 0 <= lo i /\ hi i < n) (batches n bs j k).
Proof.
  intros Hbs Hn.
  assert (Hnb1 : bs * ((n + bs - 1) / bs) >= n).
  { pose proof (Z.mul_succ_div_gt (n + bs - 1) bs ltac:(lia)). lia. }
  assert (Hnb2 : bs * ((n + bs - 1) / bs - 1) < n).
  { pose proof (Z.mul_div_le (n + bs - 1) bs ltac:(lia)). lia. }
  induction k as [|k IH]; intros j Hj Hjk Hk; [lia|].
  cbn [batches linked].
  assert (Hlo : lo (batch_iv n bs j) = Z.max (bs * j - 1) 0) by reflexivity.
  assert (Hhi : hi (batch_iv n bs j) = Z.max (Z.max (bs * j - 1) 0) (Z.min (bs * (j + 1)) n - 1)) by reflexivity.
  rewrite !Hlo, !Hhi.
  rewrite Z.eqb_refl. cbn [andb].
  replace (Z.max (bs * j - 1) 0 <=? Z.max (Z.max (bs * j - 1) 0) (Z.min (bs * (j + 1)) n - 1)) with true by lia.
  destruct k as [|k'].
  - cbn [batches linked last]. rewrite Hhi.
    assert (Hj1 : j + 1 = (n + bs - 1) / bs) by lia. rewrite <- Hj1 in *.
    replace (Z.min (bs * (j + 1)) n) with n by lia.
    split; [f_equal; nia|]. split; [nia|]. constructor; [|constructor]. rewrite Hlo, Hhi. nia.
  - assert (Hlt : bs * (j + 1) < n) by nia.
    replace (Z.max (Z.max (bs * j - 1) 0) (Z.min (bs * (j + 1)) n - 1)) with (Z.max (bs * (j + 1) - 1) 0) by nia.
    specialize (IH (j + 1) ltac:(lia) ltac:(lia) ltac:(lia)). destruct IH as (IH1 & IH2 & IH3).
    split; [exact IH1|]. split.
    + cbn [batches] in IH2 |- *. exact IH2.
    + constructor; [|exact IH3]. rewrite Hlo, Hhi. nia.
Qed.

Theorem iter_mtscomp_idx_linked n bs : 1 <= bs -> 1 <= n ->
  exists l, iter_mtscomp_idx n bs = Some l /\ linked 0 l = Some n /\
            Forall (fun i => 0 <= lo i /\ hi i <= n) l.
Proof.
  intros Hbs Hn. unfold iter_mtscomp_idx.
  assert (Hnb : 1 <= (n + bs - 1) / bs) by (apply Z.div_le_lower_bound; lia).
  destruct (batches_linked n bs Hbs Hn (Z.to_nat ((n + bs - 1) / bs)) 0 ltac:(lia) ltac:(lia) ltac:(lia))
    as (H1 & H2 & H3).
  replace (Z.max (bs * 0 - 1) 0) with 0 in H1 by lia.
  destruct (batches n bs 0 (Z.to_nat ((n + bs - 1) / bs))) as [|i0 bl'] eqn:Eb.
  { destruct (Z.to_nat ((n + bs - 1) / bs)) as [|k0] eqn:Ek; [lia|]. cbn [batches] in Eb. discriminate. }
  eexists. split; [reflexivity|]. split.
  - rewrite (linked_app _ _ _ _ H1), H2. cbn [linked lo hi].
    rewrite Z.eqb_refl. replace (n - 1 <=? n - 1 + 1) with true by lia. cbn [andb]. f_equal. lia.
  - apply Forall_app. split.
    + eapply Forall_impl; [|exact H3]. cbv beta. intros i Hi. lia.
    + constructor; [|constructor]. cbn [lo hi]. rewrite H2. lia.
Qed.

(* sorted lists are monotone in the index *)
Lemma sorted_nth_mono b i j : sortedZ b -> 0 <= i <= j -> j < zlen b -> nthZ b i <= nthZ b j.
Proof.
  revert i j; induction b as [|x r IH]; intros i j Hs Hij Hj; unfold zlen in Hj; cbn [length] in Hj; [lia|].
  destruct (Z.eq_dec i 0) as [->|Hi].
  - change (nthZ (x :: r) 0) with x. apply (sorted_head_le x r j Hs). unfold zlen; cbn [length]; lia.
  - unfold nthZ. replace (Z.to_nat i) with (S (Z.to_nat (i - 1))) by lia.
    replace (Z.to_nat j) with (S (Z.to_nat (j - 1))) by lia. cbn [nth].
    apply (IH (i - 1) (j - 1) (sorted_tail _ _ Hs)); unfold zlen; lia.
Qed.

Lemma linked_map_bounds cb l a b : sortedZ cb ->
  Forall (fun i => 0 <= lo i /\ hi i < zlen cb) l -> linked a l = Some b ->
  linked (nthZ cb a) (map (fun i => mkiv (nthZ cb (lo i)) (nthZ cb (hi i))) l) = Some (nthZ cb b).
Proof.
  intros Hs. revert a; induction l as [|i r IH]; intros a HF H; cbn [linked map] in *.
  - now injection H as ->.
  - destruct ((lo i =? a) && (lo i <=? hi i)) eqn:E; [|discriminate].
    inversion HF as [|? ? Hi HF']; subst. cbn [lo hi].
    replace (lo i) with a by lia. rewrite Z.eqb_refl.
    replace (nthZ cb a <=? nthZ cb (hi i)) with true.
    2:{ symmetry. apply Z.leb_le. apply sorted_nth_mono; [exact Hs|lia|lia]. }
    cbn [andb]. apply IH; assumption.
Qed.

Theorem iter_mtscomp_tiles cb bs n :
  (exists r cs, cb = 0 :: r /\ chainP cs 0 r) -> 2 <= zlen cb -> last cb 0 = n -> 1 <= bs ->
  exists l, iter_mtscomp cb bs = Some l /\ Tiles n l.
Proof.
  intros (r & cs & -> & Hc) Hlen Hl Hbs. unfold iter_mtscomp.
  destruct (iter_mtscomp_idx_linked (zlen (0 :: r) - 1) bs Hbs ltac:(lia)) as (l & -> & Hlk & HF).
  eexists. split; [reflexivity|]. unfold Tiles. apply linked_filter.
  pose proof (chainP_sorted _ _ _ Hc) as Hs.
  pose proof (linked_map_bounds (0 :: r) l 0 (zlen (0 :: r) - 1) Hs) as H.
  change (nthZ (0 :: r) 0) with 0 in H. rewrite H; [|eapply Forall_impl; [|exact HF]; cbv beta; intros; lia|exact Hlk].
  f_equal. rewrite <- Hl. unfold nthZ, zlen. cbn [length].
  replace (Z.to_nat (Z.of_nat (S (length r)) - 1)) with (length r) by lia.
  clear. generalize 0 at 1 3. induction r as [|y r IH]; intros x; [reflexivity|].
  cbn [length nth]. change (last (x :: y :: r) 0) with (last (y :: r) 0). apply IH.
Qed.

(* ================= excerpts ================= *)
Lemma excP_weaken n size p p' l : p' <= p -> excP n size p l -> excP n size p' l.
Proof.
  destruct l as [|i r]; cbn [excP]; [tauto|].
  intros Hp (H1 & H2 & H3 & H4 & H5). repeat split; try lia. exact H5.
Qed.

Lemma exc_b_spec n size p l : exc_b n size p l = true <-> excP n size p l.
Proof.
  revert p; induction l as [|i r IH]; intros p; cbn [exc_b excP]; [tauto|].
  rewrite !andb_true_iff, IH, !Z.leb_le. tauto.
Qed.

Lemma exc_loop_spec n step size : 0 <= size <= step ->
  forall fuel i, 0 <= i ->
    excP n size (i * step) (exc_loop fuel i n step size) /\
    (length (exc_loop fuel i n step size) <= fuel)%nat.
Proof.
  intros Hs. induction fuel as [|f IH]; intros i Hi; cbn [exc_loop]; [cbn [excP length]; split; [exact I|lia]|].
  destruct (i * step >=? n) eqn:E; [cbn [excP length]; split; [exact I|lia]|].
  destruct (IH (i + 1) ltac:(lia)) as [IH1 IH2].
  cbn [excP length lo hi]. split; [|lia].
  repeat split; try lia.
  eapply excP_weaken; [|exact IH1]. replace ((i + 1) * step) with (i * step + step) by ring. lia.
Qed.

Theorem excerpts_spec n k size : 2 <= k -> 0 <= size ->
  exists l, excerpts n k size = Some l /\ Exc_Spec n k size l.
Proof.
  intros Hk Hs. unfold excerpts. replace (2 <=? k) with true by lia.
  eexists. split; [reflexivity|]. unfold Exc_Spec, excerpt_step.
  destruct (exc_loop_spec n (Z.max ((n - size) / (k - 1)) size) size ltac:(lia) (Z.to_nat k) 0 ltac:(lia))
    as [H1 H2].
  split; [exact H1|]. unfold zlen. lia.
Qed.

(* get_excerpts: see Proofs2.v (its model goes through data_chunk and the final assert) *)

Lemma exc_spec_b_spec n k size l : exc_spec_b n k size l = true <-> Exc_Spec n k size l.
Proof. unfold exc_spec_b, Exc_Spec. rewrite andb_true_iff, exc_b_spec, Z.leb_le. tauto. Qed.
