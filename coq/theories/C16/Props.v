(* C16/Props.v -- the property theorems, and nothing else.  Each is closed by [exact] of a lemma of
   Proofs.v and followed by Print Assumptions. *)
From Coq Require Import ZArith List Lia Bool.
From PV Require Import Base.PySlice Base.NpSearch C16.Model C16.Spec C16.Proofs C16.Proofs2 C16.Rate.
Import ListNotations.
Open Scope Z_scope.

(* For every data array, chunk size and overlap smaller than the chunk size: the generator stops,
   the kept parts concatenate to exactly the data, each kept part lies inside its chunk's data,
   and no chunk holds more than chunk_size samples. *)
Theorem C16_chunk_bounds : forall (A : Type) (data : list A) (cs ov : Z), 0 <= ov < cs ->
  exists chunks, chunk_bounds (zlen data) cs ov = Some chunks /\ CB_Spec data cs chunks.
Proof. exact (@chunk_bounds_tile). Qed.
Print Assumptions C16_chunk_bounds.

(* overlap < chunk_size is needed: with overlap = chunk_size the loop never stops *)
Theorem C16_termination_needs_ov_lt_cs :
  exists n cs ov, cs <= ov /\ forall fuel ke, cb_loop fuel n cs ov cs ke = None.
Proof. exists 10, 2, 2. split; [lia|]. exact cb_loop_diverges. Qed.
Print Assumptions C16_termination_needs_ov_lt_cs.

(* the boolean checker run on the implementation's output implies the statement for every data
   array of that length *)
Theorem C16_checker_sound : forall (A : Type) (data : list A) (cs : Z) (chunks : list chunk),
  cb_spec_b (zlen data) cs chunks = true -> CB_Spec data cs chunks.
Proof. exact (@cb_spec_b_sound). Qed.
Print Assumptions C16_checker_sound.

(* a reader's chunk bounds: start at 0, strictly increasing by at most the chunk length, end at
   the sample count, contain every file boundary -- any number of files, files may be empty *)
Theorem C16_reader_bounds : forall (sizes : list Z) (cs : Z),
  sizes <> [] -> (forall x, In x sizes -> 0 <= x) -> 1 <= cs ->
  exists b, get_chunk_bounds sizes cs = Some b /\ Bounds_Spec sizes cs b.
Proof. exact reader_bounds. Qed.
Print Assumptions C16_reader_bounds.

(* the default chunk iterator tiles the recording *)
Theorem C16_iter_base : forall (sizes : list Z) (cs : Z),
  sizes <> [] -> (forall x, In x sizes -> 0 <= x) -> 1 <= cs ->
  exists b, get_chunk_bounds sizes cs = Some b /\ Tiles (zsum sizes) (iter_base b).
Proof.
  intros sizes cs H1 H2 H3. destruct (reader_bounds sizes cs H1 H2 H3) as (b & Hb & r & -> & Hc & Hl & _).
  exists (0 :: r). split; [exact Hb|]. apply iter_base_tiles; [exists r, cs; split; [reflexivity|exact Hc]|exact Hl].
Qed.
Print Assumptions C16_iter_base.

(* the compressed reader's iterator (look-behind batches) tiles the recording for every number of
   chunks >= 1 and every batch size >= 1 *)
Theorem C16_iter_mtscomp : forall (cb : list Z) (bs n : Z),
  (exists r cs, cb = 0 :: r /\ chainP cs 0 r) -> 2 <= zlen cb -> last cb 0 = n -> 1 <= bs ->
  exists l, iter_mtscomp cb bs = Some l /\ Tiles n l.
Proof. exact iter_mtscomp_tiles. Qed.
Print Assumptions C16_iter_mtscomp.

(* what "tiles" means on data: reading the non-empty intervals one after the other gives the
   recording exactly once, in order *)
Theorem C16_tiles_data : forall (A : Type) (data : list A) (l : list iv),
  Tiles (zlen data) l -> concat (map (iv_slice data) (filter nonempty l)) = data.
Proof. exact (@tiles_data). Qed.
Print Assumptions C16_tiles_data.

(* excerpts: in-bounds, increasing, pairwise disjoint, at most k of them, each at most size long *)
Theorem C16_excerpts : forall n k size : Z, 2 <= k -> 0 <= size ->
  exists l, excerpts n k size = Some l /\ Exc_Spec n k size l.
Proof. exact excerpts_spec. Qed.
Print Assumptions C16_excerpts.

(* get_excerpts: the whole data when shorter than requested, else a concatenation of such excerpts.
   (Stage 3: the model now goes through data_chunk for every excerpt and through the final
   `assert len(out) <= n_excerpts * excerpt_size`; [Some out] says that no exit is taken.) *)
Theorem C16_get_excerpts : forall (A : Type) (data : list A) (k size : Z), 0 <= k -> 1 <= size ->
  exists out, get_excerpts data k size = Some out /\ GetExc_Spec data k size out.
Proof. exact (@get_excerpts_spec). Qed.
Print Assumptions C16_get_excerpts.

(* ================= Stage 3 ================= *)

(* data_chunk on the tuples yielded by chunk_bounds -- the statement on the data a consumer receives:
   every call succeeds; with_overlap=True gives the chunk's rows, with_overlap=False the kept rows;
   the kept blocks concatenate to exactly the data; each kept block is a contiguous sub-block of its
   chunk's rows; no chunk has more than chunk_size rows *)
Theorem C16_data_chunk : forall (A : Type) (data : list A) (cs ov : Z), 0 <= ov < cs ->
  exists chunks ps, chunk_bounds (zlen data) cs ov = Some chunks /\
    chunked_data data cs ov = Some ps /\
    ps = map (fun c => mkpart (whole data c) (keep data c)) chunks /\
    DC_Spec data cs ps.
Proof. exact (@chunked_data_spec). Qed.
Print Assumptions C16_data_chunk.

(* data_chunk on any 4-tuple / 2-tuple of non-negative bounds: Python's slice is the clipped slice
   in which CB_Spec, Tiles and Exc_Spec are stated *)
Theorem C16_data_chunk_tuple : forall (A : Type) (data : list A) (c : chunk),
  0 <= c_ss c -> 0 <= c_se c -> 0 <= c_ks c -> 0 <= c_ke c ->
  data_chunk data true (tup c) true = DcOk (whole data c) /\
  data_chunk data true (tup c) false = DcOk (keep data c).
Proof. exact (@data_chunk_tup). Qed.
Print Assumptions C16_data_chunk_tuple.

Theorem C16_data_chunk_pair : forall (A : Type) (data : list A) (i : iv) (wo : bool),
  0 <= lo i -> 0 <= hi i -> data_chunk data true [lo i; hi i] wo = DcOk (iv_slice data i).
Proof. exact (@data_chunk_iv). Qed.
Print Assumptions C16_data_chunk_pair.

(* the exits of data_chunk: AssertionError iff not a tuple; ValueError iff a tuple of length other
   than 2 or 4; otherwise rows are returned *)
Theorem C16_data_chunk_exits : forall (A : Type) (data : list A) (is_tuple : bool) (t : list Z) (wo : bool),
  (is_tuple = false -> data_chunk data is_tuple t wo = DcAssertError) /\
  (is_tuple = true -> zlen t <> 2 -> zlen t <> 4 -> data_chunk data is_tuple t wo = DcValueError) /\
  (is_tuple = true -> zlen t = 2 \/ zlen t = 4 -> exists rows, data_chunk data is_tuple t wo = DcOk rows).
Proof. exact (@data_chunk_errors). Qed.
Print Assumptions C16_data_chunk_exits.

(* what [inside] (the clause "each kept part lies inside its chunk's data" of CB_Spec, stated on the
   four numbers) means on the data: the kept rows can be cut out of the chunk's rows alone, at
   offset keep_start - s_start *)
Theorem C16_kept_inside_chunk_data : forall (A : Type) (data : list A) (c : chunk),
  inside (zlen data) c ->
  keep data c = slice (whole data c) (c_ks c - c_ss c) (c_ke c - c_ss c) /\
  Infix (keep data c) (whole data c).
Proof. intros A data c H. split; [now apply inside_keep_of_whole|now apply inside_infix]. Qed.
Print Assumptions C16_kept_inside_chunk_data.

(* the data-level checker used on the observed blocks is exactly DC_Spec on the row numbers *)
Theorem C16_dc_checker : forall (n cs : Z) (ps : list (part Z)),
  dc_spec_b n cs ps = true <-> DC_Spec (zrange 0 (Z.to_nat n)) cs ps.
Proof. exact dc_spec_b_spec. Qed.
Print Assumptions C16_dc_checker.

(* completeness of the tiling checker: it accepts exactly the chunk lists that satisfy the statement
   for every data array of that length (soundness alone is C16_checker_sound) *)
Theorem C16_checker_complete : forall (n cs : Z) (chunks : list chunk), 0 <= n ->
  (cb_spec_b n cs chunks = true <->
   forall (A : Type) (data : list A), zlen data = n -> CB_Spec data cs chunks).
Proof. exact cb_spec_b_iff. Qed.
Print Assumptions C16_checker_complete.

(* the other boolean checkers of the comparator decide their specifications *)
Theorem C16_tiles_checker : forall (n : Z) (l : list iv), tiles_b n l = true <-> Tiles n l.
Proof. exact tiles_b_spec. Qed.
Print Assumptions C16_tiles_checker.

Theorem C16_bounds_checker : forall (sizes : list Z) (cs : Z) (b : list Z),
  bounds_spec_b sizes cs b = true <-> Bounds_Spec sizes cs b.
Proof. exact bounds_spec_b_spec. Qed.
Print Assumptions C16_bounds_checker.

Theorem C16_excerpts_checker : forall (n k size : Z) (l : list iv),
  exc_spec_b n k size l = true <-> Exc_Spec n k size l.
Proof. exact exc_spec_b_spec. Qed.
Print Assumptions C16_excerpts_checker.

(* the greedy checker run on get_excerpts' observed row numbers implies the statement (soundness;
   completeness = minimality of the greedy run decomposition is C16_getexc_checker below) *)
Theorem C16_getexc_checker_sound : forall (n size : Z), 0 <= n -> 1 <= size ->
  forall (k : Z) (out : list Z), 0 <= k ->
  getexc_b n k size out = true -> GetExc_Spec (zrange 0 (Z.to_nat n)) k size out.
Proof. exact getexc_b_sound. Qed.
Print Assumptions C16_getexc_checker_sound.

(* ... and accepts every output that satisfies the statement (the greedy decomposition into runs of
   consecutive row numbers of length <= size never needs more runs than any decomposition into
   excerpts): clause 26 of the comparator decides GetExc_Spec exactly, so it cannot raise a false alarm *)
Theorem C16_getexc_checker : forall (n size : Z), 0 <= n -> 1 <= size ->
  forall (k : Z) (out : list Z), 0 <= k ->
  (getexc_b n k size out = true <-> GetExc_Spec (zrange 0 (Z.to_nat n)) k size out).
Proof. exact getexc_b_iff. Qed.
Print Assumptions C16_getexc_checker.

(* chunk_bounds in closed form, the docstring's picture [ ceil(ov/2) | cs - ov | floor(ov/2) ]:
   1 + max(0, (n - cs - 1) div (cs - ov)) full chunks at stride cs - ov, each keeping up to
   s_end - ov div 2, and one last shorter chunk up to n when samples remain.  This fixes the keep
   points and the number of chunks, which the property statement (CB_Spec) deliberately does not. *)
Theorem C16_chunk_bounds_regular : forall n cs ov : Z, 0 <= ov < cs ->
  chunk_bounds n cs ov = Some (cb_regular n cs ov).
Proof. exact chunk_bounds_regular. Qed.
Print Assumptions C16_chunk_bounds_regular.

(* excerpts in closed form: exactly min(k, ceil(n / step)) excerpts (k if step = 0 < n), the i-th one
   (i * step, min(i * step + size, n)) with step = max((n - size) div (k - 1), size) *)
Theorem C16_excerpts_regular : forall n k size : Z, 2 <= k -> 0 <= size ->
  excerpts n k size = Some (exc_regular n k size).
Proof. exact excerpts_regular. Qed.
Print Assumptions C16_excerpts_regular.

(* when the data is at least as long as requested, get_excerpts returns exactly k * size samples:
   all k excerpts are produced and each is full (so the final assert is tight and never fires) *)
Theorem C16_get_excerpts_exact : forall (A : Type) (data : list A) (k size : Z),
  2 <= k -> 1 <= size -> k * size <= zlen data ->
  exists out, get_excerpts data k size = Some out /\ zlen out = k * size /\
    out = concat (map (iv_slice data) (exc_regular (zlen data) k size)) /\
    zlen (exc_regular (zlen data) k size) = k /\
    Forall (fun i => hi i - lo i = size) (exc_regular (zlen data) k size).
Proof. exact (@get_excerpts_exact). Qed.
Print Assumptions C16_get_excerpts_exact.

(* exactly when the generator terminates (generalises C16_termination_needs_ov_lt_cs): for a
   non-negative length and chunk size, chunk_bounds stops iff overlap < chunk_size or the data is so
   short that the loop is never entered; otherwise every amount of fuel runs out *)
Theorem C16_termination_iff : forall n cs ov : Z, 0 <= n -> 0 <= cs ->
  ((exists l, chunk_bounds n cs ov = Some l) <-> (ov < cs \/ n <= 2 * cs - ov)).
Proof. exact chunk_bounds_terminates_iff. Qed.
Print Assumptions C16_termination_iff.

(* the assert / NameError exits of the other helpers, outside the guards of the theorems above *)
Theorem C16_assert_exits :
  (forall sizes cs, cs <= 0 -> get_chunk_bounds sizes cs = None) /\
  (forall cs, 0 < cs -> get_chunk_bounds [] cs = Some []) /\
  (forall n k size, k < 2 -> excerpts n k size = None) /\
  (forall cb bs, 1 <= bs -> zlen cb <= 1 -> iter_mtscomp cb bs = None).
Proof. exact assert_exits. Qed.
Print Assumptions C16_assert_exits.

(* reading a flat / array reader chunk by chunk: the non-empty intervals of iter_chunks, read one
   after the other, give the recording exactly once; every interval is non-empty, in bounds and at
   most the chunk length long (C16_reader_bounds + C16_iter_base + C16_tiles_data composed) *)
Theorem C16_reader_chunks_data : forall (A : Type) (data : list A) (sizes : list Z) (cs : Z),
  sizes <> [] -> (forall x, In x sizes -> 0 <= x) -> 1 <= cs -> zlen data = zsum sizes ->
  exists b, get_chunk_bounds sizes cs = Some b /\
    concat (map (iv_slice data) (filter nonempty (iter_base b))) = data /\
    Forall (fun i => 0 <= lo i /\ lo i < hi i /\ hi i - lo i <= cs /\ hi i <= zlen data) (iter_base b).
Proof. exact (@reader_chunks_data). Qed.
Print Assumptions C16_reader_chunks_data.

(* ---- stage 5: the chunk length of a reader comes from its sample rate ---- *)
(* chunk_size = int(round(600.0 * sample_rate)), sample_rate = num / 2^k (every float / int is such
   a number): the chunk length is the integer nearest to the number of samples in 600 s, the even
   one on a tie, and it is the only such integer *)
Theorem C16_chunk_len_nearest : forall num k cs : Z, 0 <= k ->
  (Nearest (CHUNK_DURATION * num) (2 ^ k) cs <-> cs = chunk_len_of_rate num k).
Proof.
  intros num k cs Hk. split.
  - intro H. exact (nearest_unique _ _ _ _ (pow2_pos k Hk) H (chunk_len_nearest num k Hk)).
  - intros ->. exact (chunk_len_nearest num k Hk).
Qed.
Print Assumptions C16_chunk_len_nearest.

(* a flat / array / random reader built for any file sizes and any sample rate with at least half a
   sample in 600 s: its chunk bounds (computed from the rate) increase strictly from 0 to the sample
   count, contain every file boundary, are never further apart than the chunk length = the nearest
   integer to 600 * sample_rate, and the chunk iterator tiles the recording *)
Theorem C16_reader_rate : forall (sizes : list Z) (num k : Z),
  sizes <> [] -> (forall x, In x sizes -> 0 <= x) -> 0 <= k -> 1 <= chunk_len_of_rate num k ->
  Nearest (CHUNK_DURATION * num) (2 ^ k) (chunk_len_of_rate num k) /\
  exists b, reader_bounds_of_rate sizes num k = Some b /\
            Bounds_Spec sizes (chunk_len_of_rate num k) b /\
            Tiles (zsum sizes) (iter_base b).
Proof. exact reader_rate. Qed.
Print Assumptions C16_reader_rate.

(* sample rates of at most 1/1200 Hz: the chunk length rounds to 0 and the constructor stops at
   `assert chunk_size > 0` (no reader exists; the guard 1 <= chunk length above is needed) *)
Theorem C16_reader_rate_zero : forall (sizes : list Z) (num k : Z),
  0 <= k -> 0 <= num -> 2 * CHUNK_DURATION * num <= 2 ^ k -> reader_bounds_of_rate sizes num k = None.
Proof. exact reader_rate_zero. Qed.
Print Assumptions C16_reader_rate_zero.

(* ---- non-vacuity: concrete, non-trivial instances ---- *)
Example C16_ex_chunks :
  chunk_bounds 11 4 3 = Some [mk 0 4 0 3; mk 1 5 3 4; mk 2 6 4 5; mk 3 7 5 6; mk 4 8 6 7;
                              mk 5 9 7 8; mk 6 10 8 9; mk 7 11 9 11].
Proof. vm_compute. reflexivity. Qed.
Example C16_ex_bounds : get_chunk_bounds [3; 1; 5] 2 = Some [0; 2; 3; 4; 6; 8; 9].
Proof. vm_compute. reflexivity. Qed.
Example C16_ex_mtscomp : iter_mtscomp [0; 3; 6; 9; 10] 3 =
  Some [mkiv 0 6; mkiv 6 9; mkiv 9 10].
Proof. vm_compute. reflexivity. Qed.
Example C16_ex_excerpts : excerpts 20 3 4 = Some [mkiv 0 4; mkiv 8 12; mkiv 16 20].
Proof. vm_compute. reflexivity. Qed.
Example C16_ex_data_chunk :
  chunked_data [10; 11; 12; 13; 14; 15; 16] 4 1 =
  Some [mkpart [10; 11; 12; 13] [10; 11; 12; 13]; mkpart [13; 14; 15; 16] [14; 15; 16]].
Proof. vm_compute. reflexivity. Qed.
Example C16_ex_data_chunk_neg : data_chunk [10; 11; 12; 13; 14] true [-3; -1] false = DcOk [12; 13].
Proof. vm_compute. reflexivity. Qed.
Example C16_ex_data_chunk_exits :
  data_chunk [10; 11] true [0; 1; 2] false = DcValueError /\ data_chunk [10; 11] false [0; 1] false = DcAssertError.
Proof. vm_compute. split; reflexivity. Qed.
Example C16_ex_inside : inside 7 (mk 3 7 4 7) /\ keep [10; 11; 12; 13; 14; 15; 16] (mk 3 7 4 7) = [14; 15; 16].
Proof. vm_compute. repeat split; try discriminate; right; split; discriminate. Qed.
Example C16_ex_dc_checker : dc_spec_b 7 4 [mkpart [0; 1; 2; 3] [0; 1; 2; 3]; mkpart [3; 4; 5; 6] [4; 5; 6]] = true
  /\ dc_spec_b 7 4 [mkpart [0; 1; 2; 3] [0; 1; 2; 3]; mkpart [3; 4; 5; 6] [3; 4; 5; 6]] = false.
Proof. vm_compute. split; reflexivity. Qed.
Example C16_ex_checker_complete : cb_spec_b 11 4 [mk 0 4 0 3; mk 1 5 3 4; mk 2 11 4 11] = false
  /\ cb_spec_b 7 4 [mk 0 4 0 4; mk 3 7 4 7] = true.
Proof. vm_compute. split; reflexivity. Qed.
Example C16_ex_getexc_checker : getexc_b 20 3 4 [0; 1; 2; 3; 8; 9; 10; 11; 16; 17; 18; 19] = true
  /\ getexc_b 20 2 4 [0; 1; 2; 3; 8; 9; 10; 11; 16; 17; 18; 19] = false.
Proof. vm_compute. split; reflexivity. Qed.
Example C16_ex_regular : cb_regular 11 4 3 = [mk 0 4 0 3; mk 1 5 3 4; mk 2 6 4 5; mk 3 7 5 6; mk 4 8 6 7;
                              mk 5 9 7 8; mk 6 10 8 9; mk 7 11 9 11].
Proof. vm_compute. reflexivity. Qed.
Example C16_ex_exc_regular : exc_regular 20 3 4 = [mkiv 0 4; mkiv 8 12; mkiv 16 20]
  /\ exc_regular 9 5 4 = [mkiv 0 4; mkiv 4 8; mkiv 8 9].
Proof. vm_compute. split; reflexivity. Qed.
Example C16_ex_get_excerpts_exact : get_excerpts [0; 1; 2; 3; 4; 5; 6; 7; 8; 9] 3 2 = Some [0; 1; 4; 5; 8; 9].
Proof. vm_compute. reflexivity. Qed.
Example C16_ex_termination : chunk_bounds 10 2 2 = None /\ chunk_bounds 2 2 2 = Some [mk 0 2 0 1; mk 0 2 1 2].
Proof. vm_compute. split; reflexivity. Qed.
Example C16_ex_reader_chunks : option_map iter_base (get_chunk_bounds [3; 1; 5] 2) =
  Some [mkiv 0 2; mkiv 2 3; mkiv 3 4; mkiv 4 6; mkiv 6 8; mkiv 8 9].
Proof. vm_compute. reflexivity. Qed.
Example C16_ex_getexc_greedy_merges : getexc_b 8 2 4 [0; 1; 2; 3; 4; 5] = true /\ getexc_b 8 2 2 [0; 1; 2; 3; 4; 5] = false.
Proof. vm_compute. split; reflexivity. Qed.

(* stage 5: 21/600 as a float is 1261007895663739 / 2^55 (600 * it is 21.000000000000004 in floats): 21,
   not 22; 29999.954 Hz = 8246324563936281 / 2^38: 17999972; ties go to the even integer:
   3/16 Hz -> 112.5 -> 112, 1/16 Hz -> 37.5 -> 38 *)
Example C16_ex_chunk_len : chunk_len_of_rate 1261007895663739 55 = 21 /\
  chunk_len_of_rate 8246324563936281 38 = 17999972 /\ chunk_len_of_rate 3 4 = 112 /\ chunk_len_of_rate 1 4 = 38
  /\ chunk_len_of_rate 30000 0 = 18000000.
Proof. vm_compute. repeat split. Qed.
Example C16_ex_reader_rate : reader_bounds_of_rate [50] 1261007895663739 55 = Some [0; 21; 42; 50]
  /\ reader_bounds_of_rate [50] 1 11 = None.
Proof. vm_compute. split; reflexivity. Qed.
