(* C16/Props.v -- the property theorems, and nothing else.  Each is closed by [exact] of a lemma of
   Proofs.v and followed by Print Assumptions. *)
From Coq Require Import ZArith List Lia Bool.
From PV Require Import Base.PySlice Base.NpSearch C16.Model C16.Spec C16.Proofs.
Import ListNotations.
Open Scope Z_scope.

(* For every data array, chunk size and overlap smaller than the chunk size: the generator stops,
   the kept parts concatenate to exactly the data, each kept part lies inside its chunk's data,
   and no chunk holds more than chunk_size samples. *)
Theorem C16_chunk_bounds : forall (A : Type) (data : list A) (cs ov : Z), 0 <= ov < cs ->
  exists chunks, chunk_bounds (zlen data) cs ov = Some chunks /\ CB_Spec data cs chunks.
Proof. exact (@chunk_bounds_tile). Qed.
Print Assumptions C16_chunk_bounds.

(* overlap < chunk_size is needed: with overlap = chunk_size the loop never stops *)
Theorem C16_termination_needs_ov_lt_cs :
  exists n cs ov, cs <= ov /\ forall fuel ke, cb_loop fuel n cs ov cs ke = None.
Proof. exists 10, 2, 2. split; [lia|]. exact cb_loop_diverges. Qed.
Print Assumptions C16_termination_needs_ov_lt_cs.

(* the boolean checker run on the implementation's output implies the statement for every data
   array of that length *)
Theorem C16_checker_sound : forall (A : Type) (data : list A) (cs : Z) (chunks : list chunk),
  cb_spec_b (zlen data) cs chunks = true -> CB_Spec data cs chunks.
Proof. exact (@cb_spec_b_sound). Qed.
Print Assumptions C16_checker_sound.

(* a reader's chunk bounds: start at 0, strictly increasing by at most the chunk length, end at
   the sample count, contain every file boundary -- any number of files, files may be empty *)
Theorem C16_reader_bounds : forall (sizes : list Z) (cs : Z),
  sizes <> [] -> (forall x, In x sizes -> 0 <= x) -> 1 <= cs ->
  exists b, get_chunk_bounds sizes cs = Some b /\ Bounds_Spec sizes cs b.
Proof. exact reader_bounds. Qed.
Print Assumptions C16_reader_bounds.

(* the default chunk iterator tiles the recording *)
Theorem C16_iter_base : forall (sizes : list Z) (cs : Z),
  sizes <> [] -> (forall x, In x sizes -> 0 <= x) -> 1 <= cs ->
  exists b, get_chunk_bounds sizes cs = Some b /\ Tiles (zsum sizes) (iter_base b).
Proof.
  intros sizes cs H1 H2 H3. destruct (reader_bounds sizes cs H1 H2 H3) as (b & Hb & r & -> & Hc & Hl & _).
  exists (0 :: r). split; [exact Hb|]. apply iter_base_tiles; [exists r, cs; split; [reflexivity|exact Hc]|exact Hl].
Qed.
Print Assumptions C16_iter_base.

(* the compressed reader's iterator (look-behind batches) tiles the recording for every number of
   chunks >= 1 and every batch size >= 1 *)
Theorem C16_iter_mtscomp : forall (cb : list Z) (bs n : Z),
  (exists r cs, cb = 0 :: r /\ chainP cs 0 r) -> 2 <= zlen cb -> last cb 0 = n -> 1 <= bs ->
  exists l, iter_mtscomp cb bs = Some l /\ Tiles n l.
Proof. exact iter_mtscomp_tiles. Qed.
Print Assumptions C16_iter_mtscomp.

(* what "tiles" means on data: reading the non-empty intervals one after the other gives the
   recording exactly once, in order *)
Theorem C16_tiles_data : forall (A : Type) (data : list A) (l : list iv),
  Tiles (zlen data) l -> concat (map (iv_slice data) (filter nonempty l)) = data.
Proof. exact (@tiles_data). Qed.
Print Assumptions C16_tiles_data.

(* excerpts: in-bounds, increasing, pairwise disjoint, at most k of them, each at most size long *)
Theorem C16_excerpts : forall n k size : Z, 2 <= k -> 0 <= size ->
  exists l, excerpts n k size = Some l /\ Exc_Spec n k size l.
Proof. exact excerpts_spec. Qed.
Print Assumptions C16_excerpts.

(* get_excerpts: the whole data when shorter than requested, else a concatenation of such excerpts *)
Theorem C16_get_excerpts : forall (A : Type) (data : list A) (k size : Z), 0 <= k -> 1 <= size ->
  exists out, get_excerpts data k size = Some out /\ GetExc_Spec data k size out.
Proof. exact (@get_excerpts_spec). Qed.
Print Assumptions C16_get_excerpts.

(* ---- non-vacuity: concrete, non-trivial instances ---- *)
Example C16_ex_chunks :
  chunk_bounds 11 4 3 = Some [mk 0 4 0 3; mk 1 5 3 4; mk 2 6 4 5; mk 3 7 5 6; mk 4 8 6 7;
                              mk 5 9 7 8; mk 6 10 8 9; mk 7 11 9 11].
Proof. vm_compute. reflexivity. Qed.
Example C16_ex_bounds : get_chunk_bounds [3; 1; 5] 2 = Some [0; 2; 3; 4; 6; 8; 9].
Proof. vm_compute. reflexivity. Qed.
Example C16_ex_mtscomp : iter_mtscomp [0; 3; 6; 9; 10] 3 =
  Some [mkiv 0 6; mkiv 6 9; mkiv 9 10].
Proof. vm_compute. reflexivity. Qed.
Example C16_ex_excerpts : excerpts 20 3 4 = Some [mkiv 0 4; mkiv 8 12; mkiv 16 20].
Proof. vm_compute. reflexivity. Qed.
