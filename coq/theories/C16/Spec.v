(* C16/Spec.v -- the property, stated independently of the algorithm, with boolean checkers
   used by the correspondence (Corr.v) on the implementation's observed outputs. *)
From Coq Require Import ZArith List Lia Bool.
From PV Require Import Base.PySlice Base.NpSearch C16.Model.
Import ListNotations.
Open Scope Z_scope.

(* ---------- chunk_bounds ---------- *)
(* all four numbers are valid non-negative slice bounds, and the kept index range, clipped to the
   data, lies inside the chunk's clipped range *)
Definition inside (n : Z) (c : chunk) : Prop :=
  0 <= c_ss c /\ 0 <= c_ks c /\ 0 <= c_se c /\ 0 <= c_ke c /\
  let a := Z.min (c_ks c) n in let b := Z.min (c_ke c) n in
  b <= a \/ (c_ss c <= a /\ b <= Z.min (c_se c) n).

Definition inside_b (n : Z) (c : chunk) : bool :=
  (0 <=? c_ss c) && (0 <=? c_ks c) && (0 <=? c_se c) && (0 <=? c_ke c) &&
  (let a := Z.min (c_ks c) n in let b := Z.min (c_ke c) n in
   (b <=? a) || ((c_ss c <=? a) && (b <=? Z.min (c_se c) n))).

Section CB.
Context {A : Type}.
(* the statement of the property for one data array and one chunk size *)
Definition CB_Spec (data : list A) (cs : Z) (chunks : list chunk) : Prop :=
  concat (map (keep data) chunks) = data /\
  Forall (inside (zlen data)) chunks /\
  Forall (fun c => zlen (whole data c) <= cs) chunks.
End CB.

Fixpoint zlist_eqb (a b : list Z) : bool :=
  match a, b with
  | [], [] => true
  | x :: a', y :: b' => (x =? y) && zlist_eqb a' b'
  | _, _ => false
  end.

Lemma zlist_eqb_eq a b : zlist_eqb a b = true <-> a = b.
Proof.
  revert b; induction a as [|x a IH]; intros [|y b]; cbn [zlist_eqb]; split; try discriminate; try reflexivity.
  - rewrite andb_true_iff, IH. intros [H ->]. f_equal. lia.
  - intros H; injection H as -> ->. rewrite andb_true_iff, IH. split; [lia|reflexivity].
Qed.

(* checker: the statement instantiated at the data [0; 1; ...; n-1] (all positions distinct) *)
Definition cb_spec_b (n cs : Z) (chunks : list chunk) : bool :=
  let iota := zrange 0 (Z.to_nat n) in
  zlist_eqb (concat (map (keep iota) chunks)) iota &&
  forallb (inside_b n) chunks &&
  forallb (fun c => zlen (whole iota c) <=? cs) chunks.

(* ---------- intervals ---------- *)
(* consecutive: each interval starts where the previous one ended and is not reversed *)
Fixpoint linked (start : Z) (l : list iv) : option Z :=
  match l with
  | [] => Some start
  | i :: r => if (lo i =? start) && (lo i <=? hi i) then linked (hi i) r else None
  end.

Definition nonempty (i : iv) : bool := lo i <? hi i.

(* "the non-empty intervals tile [0, n) in order" *)
Definition Tiles (n : Z) (l : list iv) : Prop := linked 0 (filter nonempty l) = Some n.
Definition tiles_b (n : Z) (l : list iv) : bool :=
  match linked 0 (filter nonempty l) with Some m => m =? n | None => false end.

(* ---------- reader chunk bounds ---------- *)
(* from lo, strictly increasing, steps of at most cs *)
Fixpoint chainP (cs lo : Z) (l : list Z) : Prop :=
  match l with [] => True | x :: r => lo < x /\ x - lo <= cs /\ chainP cs x r end.
Fixpoint chain_b (cs lo : Z) (l : list Z) : bool :=
  match l with [] => true | x :: r => (lo <? x) && (x - lo <=? cs) && chain_b cs x r end.

Fixpoint memZ (x : Z) (l : list Z) : bool :=
  match l with [] => false | y :: r => (x =? y) || memZ x r end.

Lemma memZ_In x l : memZ x l = true <-> In x l.
Proof.
  induction l as [|y r IH]; cbn [memZ In]; [split; [discriminate|tauto]|].
  rewrite orb_true_iff, IH. split; (intros [H|H]; [left; lia|now right]).
Qed.

(* bounds start at 0, increase strictly by steps <= cs, end at the sample count, and contain
   every file boundary *)
Definition Bounds_Spec (sizes : list Z) (cs : Z) (b : list Z) : Prop :=
  exists r, b = 0 :: r /\ chainP cs 0 r /\ last b 0 = zsum sizes /\
            forall x, In x (cumsum_from 0 sizes) -> In x b.
Definition bounds_spec_b (sizes : list Z) (cs : Z) (b : list Z) : bool :=
  match b with
  | 0 :: r => chain_b cs 0 r && (last b 0 =? zsum sizes) &&
              forallb (fun x => memZ x b) (cumsum_from 0 sizes)
  | _ => false
  end.

(* ---------- excerpts ---------- *)
(* from position p on: in bounds, not reversed, at most size long, increasing and disjoint *)
Fixpoint excP (n size p : Z) (l : list iv) : Prop :=
  match l with
  | [] => True
  | i :: r => p <= lo i /\ lo i <= hi i /\ hi i <= n /\ hi i - lo i <= size /\ excP n size (hi i) r
  end.
Fixpoint exc_b (n size p : Z) (l : list iv) : bool :=
  match l with
  | [] => true
  | i :: r => (p <=? lo i) && (lo i <=? hi i) && (hi i <=? n) && (hi i - lo i <=? size) &&
              exc_b n size (hi i) r
  end.
Definition Exc_Spec (n k size : Z) (l : list iv) : Prop := excP n size 0 l /\ zlen l <= k.
Definition exc_spec_b (n k size : Z) (l : list iv) : bool := exc_b n size 0 l && (zlen l <=? k).

Section GE.
Context {A : Type}.
(* get_excerpts: the whole data when it is shorter than requested, else a concatenation of
   excerpts satisfying Exc_Spec *)
Definition GetExc_Spec (data : list A) (k size : Z) (out : list A) : Prop :=
  if zlen data <? k * size then out = data
  else exists l, Exc_Spec (zlen data) k size l /\ out = concat (map (iv_slice data) l).
End GE.

(* ---------- data_chunk on the yielded tuples: the statement on the data a consumer receives ---------- *)
Section DC.
Context {A : Type}.
(* k is a contiguous sub-block of w *)
Definition Infix (k w : list A) : Prop := exists a b, w = a ++ k ++ b.
(* the kept blocks concatenate to exactly the data; each kept block is a contiguous sub-block of its
   chunk's data; no chunk's data has more than cs rows *)
Definition DC_Spec (data : list A) (cs : Z) (ps : list (part A)) : Prop :=
  concat (map p_kept ps) = data /\
  Forall (fun p => Infix (p_kept p) (p_whole p) /\ zlen (p_whole p) <= cs) ps.
End DC.

Fixpoint prefix_b (k w : list Z) : bool :=
  match k, w with
  | [], _ => true
  | x :: k', y :: w' => (x =? y) && prefix_b k' w'
  | _ :: _, [] => false
  end.
Fixpoint infix_b (k w : list Z) : bool :=
  prefix_b k w || match w with [] => false | _ :: w' => infix_b k w' end.

(* checker: DC_Spec on observed row numbers (the data is [0; 1; ...; n-1]) *)
Definition dc_spec_b (n cs : Z) (ps : list (part Z)) : bool :=
  zlist_eqb (concat (map p_kept ps)) (zrange 0 (Z.to_nat n)) &&
  forallb (fun p => infix_b (p_kept p) (p_whole p) && (zlen (p_whole p) <=? cs)) ps.

(* ---------- the regular shapes the code computes (closed forms) ---------- *)
(* chunk_bounds: [ ceil(ov/2) | cs - ov | floor(ov/2) ] at stride cs - ov, except that the first chunk
   keeps its left margin and the last, shorter chunk runs and keeps up to n *)
Definition cb_full (cs ov i : Z) : chunk :=
  let s := i * (cs - ov) in
  mk s (s + cs) (if i =? 0 then 0 else s + (ov - ov / 2)) (s + cs - ov / 2).
Definition cb_nfull (n cs ov : Z) : Z := 1 + Z.max 0 ((n - cs - 1) / (cs - ov)).
Definition cb_regular (n cs ov : Z) : list chunk :=
  let m := cb_nfull n cs ov in
  let s := m * (cs - ov) in
  map (cb_full cs ov) (zrange 0 (Z.to_nat m)) ++
  (if s <? n then [mk s n (s + (ov - ov / 2)) n] else []).

(* excerpts: min(k, ceil(n / step)) excerpts (start i * step, end min(start + size, n)) *)
Definition exc_count (n k step : Z) : Z :=
  if step =? 0 then (if 0 <? n then k else 0) else Z.min k ((n + step - 1) / step).
Definition exc_regular (n k size : Z) : list iv :=
  let step := Z.max ((n - size) / (k - 1)) size in
  map (fun i => mkiv (i * step) (Z.min (i * step + size) n)) (zrange 0 (Z.to_nat (exc_count n k step))).

(* ---------- checker for get_excerpts on observed row numbers ---------- *)
(* greedy decomposition of an increasing index list into runs of consecutive indices of length at
   most size: the least number of excerpts that can produce it *)
Fixpoint ge_count (size prev cur : Z) (l : list Z) : option Z :=
  match l with
  | [] => Some 0
  | x :: r => if (x =? prev + 1) && (cur <? size) then ge_count size x (cur + 1) r
              else if prev <? x then option_map (Z.add 1) (ge_count size x 1 r) else None
  end.
Definition getexc_b (n k size : Z) (out : list Z) : bool :=
  if n <? k * size then zlist_eqb out (zrange 0 (Z.to_nat n))
  else forallb (fun x => (0 <=? x) && (x <? n)) out &&
       match out with
       | [] => true
       | x :: r => match ge_count size x 1 r with Some c => c + 1 <=? k | None => false end
       end.
