(* C16/Corr.v -- comparator evaluated by vm_compute on generated case files.
   codes: 1 = observed output differs from the model (determined observable)
          21 = C16_chunk_bounds clause fails on the observed chunks
          22 = C16_reader_bounds clause fails on the observed bounds
          23 = C16_iter_base / C16_iter_mtscomp: observed non-empty intervals do not tile
          24 = reader's sample count differs from the sum of the file sizes
          25 = C16_excerpts clause fails on the observed excerpts
          26 = C16_get_excerpts clause fails on the observed output
          27 = C16_data_chunk: the blocks returned by data_chunk on the tuples yielded by chunk_bounds
               do not satisfy DC_Spec (kept blocks concatenate to the data / each inside its chunk's
               block / chunk block <= chunk_size)
          28 = C16_data_chunk_tuple / _pair: data_chunk on a 4- or 2-tuple of non-negative bounds did
               not return the chunk's rows / the kept rows (the slices in which the property is stated)
          3  = input outside the stated regime (harness bug) *)
From Coq Require Import ZArith List Lia Bool.
From PV Require Export Base.PySlice Base.NpSearch C16.Model C16.Spec C16.Rate.
Import ListNotations.
Open Scope Z_scope.

Inductive input :=
| InChunkBounds (n cs ov : Z)
| InReaderBounds (sizes : list Z) (cs : Z)
| InReader (sizes : list Z) (cs : Z)
| InReaderRate (sizes : list Z) (num k : Z)      (* stage 5: reader built with sample_rate = num / 2^k *)
| InMtscomp (n : Z) (cb : list Z) (bs : Z)
| InExcerpts (n k size : Z)
| InGetExcerpts (n k size : Z)
| InDataChunk (n : Z) (is_tuple : bool) (t : list Z) (with_overlap : bool)
| InChunkedData (n cs ov : Z).

Inductive observed :=
| ObsChunks (l : list chunk)
| ObsBounds (l : list Z)
| ObsReader (bounds : list Z) (ivs : list iv) (nsamples : Z)
| ObsIvs (l : list iv)
| ObsData (l : list Z)
| ObsDc (r : dc_result Z)
| ObsParts (l : list (part Z))
| ObsCrash.

Record case := { cid : Z; cin : input; cobs : observed }.

Definition chunk_eqb (a b : chunk) : bool :=
  (c_ss a =? c_ss b) && (c_se a =? c_se b) && (c_ks a =? c_ks b) && (c_ke a =? c_ke b).
Definition iv_eqb (a b : iv) : bool := (lo a =? lo b) && (hi a =? hi b).
Fixpoint list_eqb {A} (eqb : A -> A -> bool) (a b : list A) : bool :=
  match a, b with
  | [], [] => true
  | x :: a', y :: b' => eqb x y && list_eqb eqb a' b'
  | _, _ => false
  end.
Definition opt_eqb {A} (eqb : A -> A -> bool) (m : option A) (o : A) : bool :=
  match m with Some x => eqb x o | None => false end.

Definition flag (code : Z) (ok : bool) : list Z := if ok then [] else [code].

Definition dc_eqb (a b : dc_result Z) : bool :=
  match a, b with
  | DcOk x, DcOk y => zlist_eqb x y
  | DcValueError, DcValueError => true
  | DcAssertError, DcAssertError => true
  | _, _ => false
  end.
Definition part_eqb (a b : part Z) : bool :=
  zlist_eqb (p_whole a) (p_whole b) && zlist_eqb (p_kept a) (p_kept b).

(* clause 28: on a tuple of non-negative bounds the result is stated with the specification's own
   slices (whole / keep / iv_slice), not with the model's pyslice; other inputs are judged by
   equality with the model only *)
Definition dc_tuple_b (n : Z) (is_tuple : bool) (t : list Z) (wo : bool) (r : dc_result Z) : bool :=
  let iota := zrange 0 (Z.to_nat n) in
  if negb is_tuple || negb (forallb (fun x => 0 <=? x) t) then true else
  match t with
  | [i; j] => dc_eqb r (DcOk (iv_slice iota (mkiv i j)))
  | [a; b; c; d] => dc_eqb r (DcOk (if wo then whole iota (mk a b c d) else keep iota (mk a b c d)))
  | _ => true
  end.

Definition check_reader (sizes : list Z) (cs : Z) (o : observed) : list Z :=
  match o with
  | ObsReader b ivs ns =>
      flag 1 (opt_eqb zlist_eqb (get_chunk_bounds sizes cs) b &&
              opt_eqb (list_eqb iv_eqb) (option_map iter_base (get_chunk_bounds sizes cs)) ivs) ++
      flag 22 (bounds_spec_b sizes cs b) ++
      flag 23 (tiles_b (zsum sizes) ivs) ++
      flag 24 (ns =? zsum sizes)
  | _ => [1; 22; 23; 24]
  end.

Definition check (c : case) : list Z :=
  match cin c, cobs c with
  | InChunkBounds n cs ov, o =>
      if negb ((0 <=? n) && (0 <=? ov) && (ov <? cs)) then [3] else
      match o with
      | ObsChunks l => flag 1 (opt_eqb (list_eqb chunk_eqb) (chunk_bounds n cs ov) l) ++
                       flag 21 (cb_spec_b n cs l)
      | _ => [1; 21]
      end
  | InReaderBounds sizes cs, o =>
      if negb ((1 <=? zlen sizes) && forallb (fun x => 0 <=? x) sizes && (1 <=? cs)) then [3] else
      match o with
      | ObsBounds l => flag 1 (opt_eqb zlist_eqb (get_chunk_bounds sizes cs) l) ++
                       flag 22 (bounds_spec_b sizes cs l)
      | _ => [1; 22]
      end
  | InReader sizes cs, o =>
      if negb ((1 <=? zlen sizes) && forallb (fun x => 0 <=? x) sizes && (1 <=? cs)) then [3] else
      check_reader sizes cs o
  | InReaderRate sizes num k, o =>
      (* the chunk length is computed by the model from the rate (C16_chunk_len_nearest); the regime
         also asks that the float product cannot change the rounding (Rate.v, rate_exact_b) *)
      let cs := chunk_len_of_rate num k in
      if negb ((1 <=? zlen sizes) && forallb (fun x => 0 <=? x) sizes && rate_exact_b num k && (1 <=? cs))
      then [3] else check_reader sizes cs o
  | InMtscomp n cb bs, o =>
      if negb (match cb with 0 :: r => chain_b n 0 r | _ => false end &&
               (2 <=? zlen cb) && (last cb 0 =? n) && (1 <=? bs)) then [3] else
      match o with
      | ObsIvs l => flag 1 (opt_eqb (list_eqb iv_eqb) (iter_mtscomp cb bs) l) ++ flag 23 (tiles_b n l)
      | _ => [1; 23]
      end
  | InExcerpts n k size, o =>
      if negb ((0 <=? n) && (2 <=? k) && (0 <=? size)) then [3] else
      match o with
      | ObsIvs l => flag 1 (opt_eqb (list_eqb iv_eqb) (excerpts n k size) l) ++
                    flag 25 (exc_spec_b n k size l)
      | _ => [1; 25]
      end
  | InGetExcerpts n k size, o =>
      if negb ((0 <=? n) && (0 <=? k) && (1 <=? size)) then [3] else
      match o with
      | ObsData l => flag 1 (opt_eqb zlist_eqb (get_excerpts (zrange 0 (Z.to_nat n)) k size) l) ++
                     flag 26 (getexc_b n k size l)
      | _ => [1; 26]
      end
  | InDataChunk n is_tuple t wo, o =>
      if negb (0 <=? n) then [3] else
      match o with
      | ObsDc r => flag 1 (dc_eqb (data_chunk (zrange 0 (Z.to_nat n)) is_tuple t wo) r) ++
                   flag 28 (dc_tuple_b n is_tuple t wo r)
      | _ => [1; 28]
      end
  | InChunkedData n cs ov, o =>
      if negb ((0 <=? n) && (0 <=? ov) && (ov <? cs)) then [3] else
      match o with
      | ObsParts l => flag 1 (opt_eqb (list_eqb part_eqb) (chunked_data (zrange 0 (Z.to_nat n)) cs ov) l) ++
                      flag 27 (dc_spec_b n cs l)
      | _ => [1; 27]
      end
  end.

Definition run (cases : list case) : list (Z * Z) :=
  flat_map (fun c => map (fun code => (cid c, code)) (check c)) cases.
