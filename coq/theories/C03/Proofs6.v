(* C03/Proofs6.v -- stage 3: totality of _extract_waveform on a spike inside the recording.
   The only failure is NumPy's IndexError on a channel that is not a valid column index (outside [-c, c));
   the padding arithmetic and the final shape assertion never fail, whatever the window length and the
   position of the spike.  (Channels in [-c, -2] are valid NumPy indices -- they wrap -- but are outside the
   property's channel lists; the result is then not the statement's window, only an array of the right shape.) *)
From Coq Require Import ZArith List Lia Bool.
From PV Require Import Base.PySlice Base.NpSearch Base.NpList C16.Model C16.Spec C03.Model C03.Spec C03.Proofs C03.Proofs2.
Import ListNotations.
Open Scope Z_scope.

Lemma mapM_length {X Y} (f : X -> option Y) l : forall ys, mapM f l = Some ys -> length ys = length l.
Proof.
  induction l as [|x r IH]; intros ys H; cbn [mapM] in H.
  - injection H as <-. reflexivity.
  - destruct (f x); [|discriminate]. destruct (mapM f r) as [zs|]; [|discriminate]. injection H as <-.
    cbn [length]. now rewrite (IH zs).
Qed.

Section ExtractTotal.
Context {A : Type}.
Variable zero : A.

Lemma take_cols_valid c (row : list A) chans : zlen row = c -> Forall (fun ch => - c <= ch < c) chans ->
  exists v, take_cols chans row = Some v.
Proof.
  intros Hrow Hok. unfold take_cols. apply mapM_Some_total. intros ch Hch.
  rewrite Forall_forall in Hok. specialize (Hok ch Hch). unfold py_col. rewrite Hrow. unfold zlen in Hrow.
  destruct ((0 <=? ch) && (ch <? c)) eqn:E1.
  - exists (nth (Z.to_nat ch) row zero). apply nth_error_nth'. lia.
  - replace ((- c <=? ch) && (ch <? 0)) with true by lia.
    exists (nth (Z.to_nat (ch + c)) row zero). apply nth_error_nth'. lia.
Qed.

Lemma take_cols_invalid c (row : list A) chans : zlen row = c ->
  Exists (fun ch => ~ (- c <= ch < c)) chans -> take_cols chans row = None.
Proof.
  intros Hrow Hex. unfold take_cols. induction Hex as [ch r Hbad|x r Hex IH]; cbn [mapM].
  - unfold py_col. rewrite Hrow. replace ((0 <=? ch) && (ch <? c)) with false by lia.
    now replace ((- c <=? ch) && (ch <? 0)) with false by lia.
  - destruct (py_col row x); [|reflexivity]. now rewrite IH.
Qed.

Theorem extract_total c (data : list (list A)) s n chans :
  rect c data -> 1 <= c -> 0 <= s < zlen data -> 1 <= n ->
  (Forall (fun ch => - c <= ch < c) chans ->
     exists w, extract zero data s n chans = Some w /\ zlen w = n) /\
  (Exists (fun ch => ~ (- c <= ch < c)) chans -> extract zero data s n chans = None).
Proof.
  intros Hr Hc Hs Hn.
  assert (Ha : 0 <= n / 2 < n).
  { split; [apply Z.div_pos; lia|apply Z.div_lt_upper_bound; lia]. }
  unfold extract. replace (negb (0 <? n)) with false by lia. replace (s <? 0) with false by lia.
  cbv zeta. set (a := n / 2) in *. set (dur := zlen data) in *.
  set (t0 := s - a). set (t1 := s + (n - a)).
  set (lo_ := Z.max 0 t0). set (hi_ := Z.min t1 dur).
  assert (Hsl : slice data lo_ t1 = slice data lo_ hi_).
  { unfold slice. subst hi_ lo_ dur. unfold zlen.
    destruct (Z.le_gt_cases t1 (Z.of_nat (length data))); [now rewrite Z.min_l by lia|].
    rewrite Z.min_r by lia. rewrite !firstn_all2; [reflexivity| |]; rewrite skipn_length; lia. }
  rewrite Hsl.
  rewrite (slice_as_map data [] lo_ hi_) by (subst lo_ hi_ t0 t1; fold dur; lia).
  set (ts := zrange lo_ (Z.to_nat (hi_ - lo_))).
  assert (Hts : forall t, In t ts -> zlen (nth (Z.to_nat t) data []) = c).
  { intros t Ht. unfold ts in Ht. apply zrange_ge in Ht. unfold rect in Hr. rewrite Forall_forall in Hr.
    apply Hr. apply nth_In. subst lo_ hi_ dur. unfold zlen in *. lia. }
  assert (Hne : In s ts).
  { unfold ts. apply zrange_in. subst lo_ hi_ t0 t1 dur. lia. }
  split.
  - intros Hok.
    destruct (mapM_Some_total (take_cols chans) (map (fun t => nth (Z.to_nat t) data []) ts)) as (w0 & Hw0).
    { intros row Hrow. apply in_map_iff in Hrow as (t & <- & Ht). apply (take_cols_valid c); auto. }
    rewrite Hw0. pose proof (mapM_length _ _ _ Hw0) as Hl0. rewrite map_length in Hl0. unfold ts in Hl0.
    rewrite zrange_length in Hl0.
    set (w1 := map (zero_neg1 zero chans) w0).
    assert (Hl1 : zlen w1 = hi_ - lo_).
    { unfold w1, zlen. rewrite map_length, Hl0. subst lo_ hi_ t0 t1 dur. lia. }
    destruct (t0 <? 0) eqn:E0.
    + unfold zeros_opt at 1. replace (- t0 <? 0) with false by lia. cbn [option_map].
      set (w2 := repeat (repeat zero (Z.to_nat (zlen chans))) (Z.to_nat (- t0)) ++ w1).
      assert (Hl2 : zlen w2 = hi_ - t0).
      { unfold w2, zlen. rewrite app_length, repeat_length. unfold zlen in Hl1. subst lo_. lia. }
      destruct (dur <? t1) eqn:E1.
      * unfold zeros_opt. rewrite Hl2. replace (n - (hi_ - t0) <? 0) with false by (subst hi_ t0 t1; lia).
        cbn [option_map].
        match goal with |- exists w, (if ?b then _ else _) = _ /\ _ => replace b with true end.
        -- eexists. split; [reflexivity|]. unfold zlen. rewrite app_length, repeat_length.
           unfold zlen in Hl2. subst hi_ t0 t1. lia.
        -- symmetry. apply Z.eqb_eq. unfold zlen. rewrite app_length, repeat_length.
           unfold zlen in Hl2. subst hi_ t0 t1. lia.
      * replace (zlen w2 =? n) with true by (subst hi_ t0 t1; lia). eexists. split; [reflexivity|].
        subst hi_ t0 t1. lia.
    + cbn [option_map].
      assert (Hl2 : zlen w1 = hi_ - t0) by (subst lo_; lia).
      destruct (dur <? t1) eqn:E1.
      * unfold zeros_opt. rewrite Hl2. replace (n - (hi_ - t0) <? 0) with false by (subst hi_ t0 t1; lia).
        cbn [option_map].
        match goal with |- exists w, (if ?b then _ else _) = _ /\ _ => replace b with true end.
        -- eexists. split; [reflexivity|]. unfold zlen. rewrite app_length, repeat_length.
           unfold zlen in Hl2. subst hi_ t0 t1. lia.
        -- symmetry. apply Z.eqb_eq. unfold zlen. rewrite app_length, repeat_length.
           unfold zlen in Hl2. subst hi_ t0 t1. lia.
      * replace (zlen w1 =? n) with true by (subst hi_ t0 t1; lia). eexists. split; [reflexivity|].
        subst hi_ t0 t1. lia.
  - intros Hex.
    assert (Hnone : mapM (take_cols chans) (map (fun t => nth (Z.to_nat t) data []) ts) = None).
    { clear -Hts Hne Hex. induction ts as [|t r IH]; [destruct Hne|]. cbn [map mapM].
      destruct Hne as [->|Hin].
      - now rewrite (take_cols_invalid c _ chans (Hts s (or_introl eq_refl)) Hex).
      - destruct (take_cols chans (nth (Z.to_nat t) data [])); [|reflexivity].
        rewrite IH; [reflexivity| |exact Hin]. intros t' Ht'. apply Hts. now right. }
    now rewrite Hnone.
Qed.
End ExtractTotal.
