(* C03/Spec.v -- the property, stated independently of the algorithm: the zero-padded window,
   and boolean checkers used by the correspondence (Corr.v) on the observed outputs. *)
From Coq Require Import ZArith List Lia Bool.
From PV Require Import Base.PySlice Base.NpSearch C16.Model C16.Spec C03.Model.
Import ListNotations.
Open Scope Z_scope.

Section Spec.
Context {A : Type}.
Variable zero : A.

(* the value of the waveform at absolute sample t on channel ch: zero outside the recording and
   for ch = -1, the recording's sample otherwise.  (The [nth] defaults are unreachable for
   0 <= t < dur and 0 <= ch < c on a rectangular recording: lemma cell_inside in Proofs.v.) *)
Definition cell (data : list (list A)) (t ch : Z) : A :=
  if (t <? 0) || (zlen data <=? t) || (ch =? -1) then zero
  else nth (Z.to_nat ch) (nth (Z.to_nat t) data []) zero.

(* rows [s - n//2, s - n//2 + n) on the listed channels *)
Definition window (data : list (list A)) (s n : Z) (chans : list Z) : list (list A) :=
  map (fun t => map (cell data t) chans) (zrange (s - n / 2) (Z.to_nat n)).

(* the same statement without any default value: cell by cell, through nth_error *)
Definition Window_Spec (data : list (list A)) (s n : Z) (chans : list Z) (w : list (list A)) : Prop :=
  zlen w = n /\
  forall i j ch, 0 <= i < n -> nth_error chans j = Some ch ->
    exists row, nth_error w (Z.to_nat i) = Some row /\ zlen row = zlen chans /\
      let t := s - n / 2 + i in
      nth_error row j =
        if (t <? 0) || (zlen data <=? t) || (ch =? -1) then Some zero
        else match nth_error data (Z.to_nat t) with
             | Some r => nth_error r (Z.to_nat ch)
             | None => None
             end.

(* a recording: every row has c channels *)
Definition rect (c : Z) (data : list (list A)) : Prop := Forall (fun row => zlen row = c) data.
(* a channel list: entries in {-1} u [0, c) *)
Definition chans_ok (c : Z) (chans : list Z) : Prop := Forall (fun ch => -1 <= ch < c) chans.
Definition chans_ok_b (c : Z) (chans : list Z) : bool := forallb (fun ch => (-1 <=? ch) && (ch <? c)) chans.

(* spikes: sorted samples inside the recording, valid channel rows of one width *)
Definition spikes_ok (dur c nc : Z) (spikes : list spike) : Prop :=
  sortedZ (map sp_s spikes) /\
  Forall (fun sp => 0 <= sp_s sp < dur /\ chans_ok c (sp_ch sp) /\ zlen (sp_ch sp) = nc) spikes.
Definition spikes_ok_b (dur c nc : Z) (spikes : list spike) : bool :=
  sortedZb (map sp_s spikes) &&
  forallb (fun sp => (0 <=? sp_s sp) && (sp_s sp <? dur) && chans_ok_b c (sp_ch sp) &&
                     (zlen (sp_ch sp) =? nc)) spikes.

Variable scale : A -> A.
(* what every route has to return for a spike, up to the unit factor *)
Definition spike_window (data : list (list A)) (n : Z) (sp : spike) : list (list A) :=
  window data (sp_s sp) n (sp_ch sp).
Definition scaled_windows (data : list (list A)) (n : Z) (spikes : list spike) : list (list (list A)) :=
  map (fun sp => map (map scale) (spike_window data n sp)) spikes.

(* store look-up: on the queried channels, the (scaled) window where the channel is stored for
   that spike, zero elsewhere (the property only claims the stored channels) *)
Definition masked_window (data : list (list A)) (n : Z) (sp : spike) (q_ch : list Z) : list (list A) :=
  map (fun t => map (fun ch => if memZ ch (sp_ch sp) then scale (cell data t ch) else zero) q_ch)
      (zrange (sp_s sp - n / 2) (Z.to_nat n)).
End Spec.

(* ---------- boolean checkers on observed integer-valued arrays ---------- *)
Fixpoint list_eqb {X} (eqb : X -> X -> bool) (a b : list X) : bool :=
  match a, b with
  | [], [] => true
  | x :: a', y :: b' => eqb x y && list_eqb eqb a' b'
  | _, _ => false
  end.
Definition rows_eqb : list (list Z) -> list (list Z) -> bool := list_eqb (list_eqb Z.eqb).
Definition waves_eqb : list (list (list Z)) -> list (list (list Z)) -> bool := list_eqb rows_eqb.

Lemma list_eqb_eq {X} (eqb : X -> X -> bool) :
  (forall x y, eqb x y = true <-> x = y) -> forall a b, list_eqb eqb a b = true <-> a = b.
Proof.
  intros H. induction a as [|x a IH]; intros [|y b]; cbn [list_eqb]; split; try discriminate; try reflexivity.
  - rewrite andb_true_iff, H, IH. intros [-> ->]. reflexivity.
  - intros E; injection E as -> ->. rewrite andb_true_iff, H, IH. split; reflexivity.
Qed.

Lemma waves_eqb_eq a b : waves_eqb a b = true <-> a = b.
Proof. apply list_eqb_eq. apply list_eqb_eq. apply list_eqb_eq. apply Z.eqb_eq. Qed.

(* direct extraction: the observed array is the list of windows *)
Definition extract_spec_b (data : list (list Z)) (samples : list Z) (n : Z) (chans : list Z)
                          (obs : list (list (list Z))) : bool :=
  waves_eqb obs (map (fun s => window 0 data s n chans) samples).

(* export: declared shape, and the loaded values are the scaled windows in spike order *)
Definition export_shape_b (spikes : list spike) (n nc : Z) (shape : list Z) : bool :=
  list_eqb Z.eqb shape [zlen spikes; n; nc].
Definition export_spec_b (scale : Z -> Z) (data : list (list Z)) (n : Z) (spikes : list spike)
                         (obs : list (list (list Z))) : bool :=
  waves_eqb obs (scaled_windows 0 scale data n spikes).

(* store: for each queried id (position p in the stored subset) the masked window *)
Definition store_spec_b (scale : Z -> Z) (data : list (list Z)) (n : Z) (spikes : list spike)
                        (q_pos : list Z) (q_ch : list Z) (obs : list (list (list Z))) : bool :=
  match mapM (fun p => nth_error spikes (Z.to_nat p)) q_pos with
  | None => false
  | Some sps => waves_eqb obs (map (fun sp => masked_window 0 scale data n sp q_ch) sps)
  end.

(* ================= stage 2: store look-up and the declarative clauses of the comparator ================= *)
Section Spec2.
Context {A : Type}.
Variable zero : A.
Variable scale : A -> A.

(* which columns of a look-up receive data: the queried channel is stored for the spike AND is not
   repeated later in the query (NumPy's fancy assignment out[i, :, cols0] = ... writes each stored channel
   once, at the position _index_of gives: the LAST occurrence in the query) *)
Fixpoint keep_flags (stored q : list Z) : list bool :=
  match q with
  | [] => []
  | ch :: r => (memZ ch stored && negb (memZ ch r)) :: keep_flags stored r
  end.

(* one row of a look-up: the scaled sample where the flag is set, zero elsewhere *)
Definition mask_row (flags : list bool) (row : list A) : list A :=
  map (fun p : bool * A => if fst p then scale (snd p) else zero) (combine flags row).

(* what a look-up returns for one stored spike: its window ON THE QUERIED CHANNELS, times the unit factor,
   restricted to the columns that receive data *)
Definition lookup_window (data : list (list A)) (n : Z) (sp : spike) (q_ch : list Z) : list (list A) :=
  map (mask_row (keep_flags (sp_ch sp) q_ch)) (window zero data (sp_s sp) n q_ch).

(* the stored-channel flags alone (what the property claims) *)
Definition stored_flags (stored q : list Z) : list bool := map (fun ch => memZ ch stored) q.

(* queried channels other than -1 are pairwise distinct *)
Definition distinct_real (q : list Z) : Prop := NoDup (filter (fun c => negb (c =? -1)) q).

(* ---- declarative clauses (cell-level meaning through Window_Spec: no default value involved) ---- *)
Definition Extract_Spec (data : list (list A)) (samples : list Z) (n : Z) (chans : list Z)
                        (obs : list (list (list A))) : Prop :=
  Forall2 (fun s w => Window_Spec zero data s n chans w) samples obs.

Definition Export_Spec (data : list (list A)) (n : Z) (spikes : list spike) (obs : list (list (list A))) : Prop :=
  Forall2 (fun sp W => exists w0, Window_Spec zero data (sp_s sp) n (sp_ch sp) w0 /\ W = map (map scale) w0)
          spikes obs.

(* q_pos = positions, in the store, of the queried ids *)
Definition Store_Spec (data : list (list A)) (n : Z) (spikes : list spike) (q_pos q_ch : list Z)
                      (obs : list (list (list A))) : Prop :=
  Forall2 (fun p W => exists sp w0, nth_error spikes (Z.to_nat p) = Some sp /\
                        Window_Spec zero data (sp_s sp) n q_ch w0 /\
                        W = map (mask_row (stored_flags (sp_ch sp) q_ch)) w0) q_pos obs.
End Spec2.
