(* C03/ModelNpy.v -- byte-level model of NpyWriter (phylib/io/traces.py:550-570) and of np.load on the
   file it writes.  No proofs here (stage 3; Model.v is left untouched because C10 builds on it).

   NpyWriter.__init__ : opens the file and writes the .npy header for the DECLARED shape and dtype
                        (numpy.lib.format._write_array_header) -- before any data exists;
   NpyWriter.append   : asserts chunk.shape[1:] == shape[1:] (or chunk.shape == shape[1:] for a chunk of
                        one dimension less) and writes chunk.tobytes(): the raw bytes of the chunk IN THE
                        CHUNK'S OWN dtype, C order -- nothing checks that dtype against the declared one,
                        nothing counts the rows;
   NpyWriter.close    : closes the file.
   export_waveforms   : open; one append per batch of iter_waveforms; close; assert prod(shape) == number of
                        elements appended (the file is on disk whether or not the assertion holds).
   np.load            : parses the header (shape, descr), needs prod(shape) * itemsize bytes after it and
                        decodes the FIRST prod(shape) items (fewer bytes: ValueError "Failed to read all data" /
                        with mmap_mode "mmap length is greater than file size"; surplus bytes are ignored --
                        observed on NumPy 2.5.3 for both modes).

   Trusted, as parameters: the byte encoding of one element [tobytes d a] (length = itemsize d, injective for
   a given dtype), its decoder [frombytes], the header encoder [hdr] and the header parser [parse_hdr]
   (parse (hdr shape d ++ rest) = (shape, d, rest): the header is self-delimiting).  Everything else -- the
   order of the writes, the concatenation of the chunks' bytes, the byte count np.load needs, the regrouping
   of the bytes into items -- is modelled. *)
From Coq Require Import ZArith List Lia Bool.
From PV Require Import Base.PySlice Base.NpSearch Base.NpList C16.Model C16.Spec C03.Model C03.Spec.
Import ListNotations.
Open Scope Z_scope.

(* an array as append receives it: shape, dtype, elements in C order *)
Record ndarr {A : Type} := mkarr { a_shape : list Z; a_dtype : dtype; a_flat : list A }.
Arguments ndarr A : clear implicits.
Arguments mkarr {A} _ _ _.

Section NpyBytes.
Context {A B : Type}.                                  (* A = element values, B = bytes *)
Variable itemsize : dtype -> Z.
Variable tobytes : dtype -> A -> list B.               (* one element of an array of dtype d *)
Variable frombytes : dtype -> list B -> option A.      (* one item of dtype d from its bytes *)
Variable hdr : list Z -> dtype -> list B.              (* magic, version, header dict, padding *)
Variable parse_hdr : list B -> option (list Z * dtype * list B).   (* shape, descr, rest of the file *)

(* the writer object: declared shape and dtype, and the bytes of the file so far *)
Record writer := mkw { w_shape : list Z; w_dtype : dtype; w_file : list B }.

(* NpyWriter(path, shape, dtype): the header goes first *)
Definition nw_open (shape : list Z) (d : dtype) : writer := mkw shape d (hdr shape d).

(* chunk.tobytes() *)
Definition arr_bytes (c : ndarr A) : list B := flat_map (tobytes (a_dtype c)) (a_flat c).

(* the assertion of append *)
Definition append_ok (shape : list Z) (c : ndarr A) : bool :=
  if zlen (a_shape c) =? zlen shape then list_eqb Z.eqb (tl (a_shape c)) (tl shape)
  else list_eqb Z.eqb (a_shape c) (tl shape).

(* writer.append(chunk); None = AssertionError *)
Definition nw_append (w : writer) (c : ndarr A) : option writer :=
  if append_ok (w_shape w) c then Some (mkw (w_shape w) (w_dtype w) (w_file w ++ arr_bytes c)) else None.

Fixpoint nw_appends (w : writer) (cs : list (ndarr A)) : option writer :=
  match cs with
  | [] => Some w
  | c :: r => match nw_append w c with Some w' => nw_appends w' r | None => None end
  end.

(* open, append every chunk, close: the bytes on disk (None = an append asserted) *)
Definition npy_file (shape : list Z) (d : dtype) (cs : list (ndarr A)) : option (list B) :=
  option_map w_file (nw_appends (nw_open shape d) cs).

(* size_written: waveforms.size summed over the chunks *)
Definition size_written (cs : list (ndarr A)) : Z := zsum (map (fun c => zlen (a_flat c)) cs).

(* export_waveforms' last line *)
Definition export_assert (shape : list Z) (cs : list (ndarr A)) : bool := zprod shape =? size_written cs.

(* np.load(path) / np.load(path, mmap_mode='r') on the bytes of a file *)
Definition np_load_bytes (file : list B) : option (list Z * dtype * list A) :=
  match parse_hdr file with
  | None => None
  | Some (shape, d, rest) =>
      let cnt := zprod shape in
      if negb (forallb (fun x => 0 <=? x) shape) then None else
      if zlen rest <? cnt * itemsize d then None
      else option_map (fun els => (shape, d, els))
             (mapM (frombytes d) (chunks_of (Z.to_nat cnt) (Z.to_nat (itemsize d)) rest))
  end.
End NpyBytes.

(* ---------------- export_waveforms at the byte level ---------------- *)
Section ExportBytes.
Context {A B : Type}.
Variable zero : A.
Variable scale : A -> A.
Variable tobytes : dtype -> A -> list B.
Variable hdr : list Z -> dtype -> list B.

(* one batch of iter_waveforms as export_waveforms appends it: waveforms.astype(float) * sample2unit, an array
   of shape (len(batch), n, nc) whose dtype is the promotion of the declared dtype by the factor *)
Definition batch_arr (n nc : Z) (k : fkind) (b : list (list (list A))) : ndarr A :=
  mkarr [zlen b; n; nc] (promote F64 k) (map scale (batch_flat b)).

(* export_waveforms: the bytes of the file (None = an exception before the file is closed) and whether
   the final assertion holds *)
Definition export_bytes (data : list (list A)) (n : Z) (chunks : list iv) (spikes : list spike)
                        (nc : Z) (k : fkind) : option (list B * bool) :=
  if negb (rectangular_b nc spikes) then None else
  let shape := [zlen spikes; n; nc] in
  match iter_wave zero data n chunks spikes with
  | None => None
  | Some batches =>
      let cs := map (batch_arr n nc k) batches in
      match npy_file tobytes hdr shape F64 cs with
      | None => None
      | Some file => Some (file, export_assert shape cs)
      end
  end.
End ExportBytes.

(* ---------------- a concrete byte layout ---------------- *)
(* Used by the Examples of Props.v (the premises of the byte-level theorems are satisfiable) and by the
   comparator (Corr.v, 'npy' cases: the outcome of np.load -- fails / loads, shape, the elements when every chunk
   has the declared dtype -- does not depend on the layout, by C03_npy_writer).  itemsize 2/4/8; an element =
   its value followed by zero bytes; the header = number of dimensions, the dimensions, a dtype code. *)
Definition lay_isz (d : dtype) : Z := match d with I16 => 2 | F32 => 4 | F64 => 8 end.
Definition lay_tob (d : dtype) (a : Z) : list Z := a :: repeat 0 (Z.to_nat (lay_isz d - 1)).
Definition lay_fromb (d : dtype) (b : list Z) : option Z := hd_error b.
Definition lay_code (d : dtype) : Z := match d with I16 => 2 | F32 => 4 | F64 => 8 end.
Definition lay_hdr (shape : list Z) (d : dtype) : list Z := zlen shape :: shape ++ [lay_code d].
Definition lay_parse (f : list Z) : option (list Z * dtype * list Z) :=
  match f with
  | [] => None
  | k :: r => match skipn (Z.to_nat k) r with
              | code :: rest =>
                  match (if code =? 2 then Some I16 else if code =? 4 then Some F32 else if code =? 8 then Some F64 else None) with
                  | Some d => Some (firstn (Z.to_nat k) r, d, rest)
                  | None => None
                  end
              | [] => None
              end
  end.
