(* C03/Proofs4.v -- stage 3: the byte-level NpyWriter / np.load model (ModelNpy.v).
   Whatever sequence of chunks is appended (none, empty ones, any row counts), the file is
   header ++ bytes of the chunks in order; np.load needs prod(shape) items and returns the first prod(shape)
   of them; hence the file holds exactly what was appended iff the element count equals the declared shape,
   which is export_waveforms' final assertion. *)
From Coq Require Import ZArith List Lia Bool.
From PV Require Import Base.PySlice Base.NpSearch Base.NpList C16.Model C16.Spec C16.Proofs C03.Model C03.Spec C03.Proofs
                       C03.ModelNpy.
Import ListNotations.
Open Scope Z_scope.

Lemma app_same_length_inj {X} (a b x y : list X) : length a = length b -> a ++ x = b ++ y -> a = b /\ x = y.
Proof.
  revert b. induction a as [|u a IH]; intros [|v b] Hl H; cbn [length] in Hl; try discriminate.
  - cbn [app] in H. auto.
  - cbn [app] in H. injection H as -> H. destruct (IH b ltac:(lia) H) as [-> ->]. auto.
Qed.

Lemma flat_map_app' {X Y} (f : X -> list Y) l1 l2 : flat_map f (l1 ++ l2) = flat_map f l1 ++ flat_map f l2.
Proof. induction l1 as [|x r IH]; [reflexivity|]. cbn [app flat_map]. now rewrite IH, app_assoc. Qed.

Lemma flat_map_concat_map' {X Y} (f : X -> list Y) l : flat_map f l = concat (map f l).
Proof. induction l as [|x r IH]; [reflexivity|]. cbn [flat_map map concat]. now rewrite IH. Qed.

(* regrouping: the first [length ll] groups of k items of  concat ll ++ extra  are ll *)
Lemma chunks_of_concat_app {X} (ll : list (list X)) k extra :
  Forall (fun x => length x = k) ll -> chunks_of (length ll) k (concat ll ++ extra) = ll.
Proof.
  induction 1 as [|x r Hx Hr IH]; [reflexivity|]. cbn [length chunks_of concat].
  rewrite <- app_assoc. rewrite firstn_app, skipn_app, Hx, Nat.sub_diag, firstn_all2, skipn_all2 by lia.
  cbn [firstn skipn app]. now rewrite app_nil_r, IH.
Qed.

Section NpyProofs.
Context {A B : Type}.
Variable itemsize : dtype -> Z.
Variable tobytes : dtype -> A -> list B.
Variable frombytes : dtype -> list B -> option A.
Variable hdr : list Z -> dtype -> list B.
Variable parse_hdr : list B -> option (list Z * dtype * list B).

(* the trusted facts about the byte layout *)
Hypothesis Hhdr : forall shape d rest, parse_hdr (hdr shape d ++ rest) = Some (shape, d, rest).
Hypothesis Hlen : forall d a, zlen (tobytes d a) = itemsize d.
Hypothesis Hpos : forall d, 1 <= itemsize d.

Lemma bytes_length d (l : list A) : zlen (flat_map (tobytes d) l) = zlen l * itemsize d.
Proof.
  induction l as [|x r IH]; [reflexivity|]. cbn [flat_map]. unfold zlen in *. rewrite app_length. cbn [length].
  specialize (Hlen d x). unfold zlen in Hlen. lia.
Qed.

(* what the appends leave in the file, whatever the chunks *)
Lemma nw_appends_file (cs : list (ndarr A)) : forall w,
  Forall (fun c => append_ok (w_shape w) c = true) cs ->
  nw_appends tobytes w cs = Some (mkw (w_shape w) (w_dtype w) (w_file w ++ flat_map (arr_bytes tobytes) cs)).
Proof.
  induction cs as [|c r IH]; intros w H.
  - cbn [nw_appends flat_map]. rewrite app_nil_r. now destruct w.
  - inversion H as [|? ? Hc Hr]; subst. cbn [nw_appends]. unfold nw_append. rewrite Hc.
    rewrite IH by exact Hr. cbn [w_shape w_dtype w_file flat_map]. now rewrite app_assoc.
Qed.

(* an append whose trailing dimensions differ from the declared ones stops the export *)
Lemma nw_appends_assert (cs1 cs2 : list (ndarr A)) c w :
  Forall (fun c => append_ok (w_shape w) c = true) cs1 -> append_ok (w_shape w) c = false ->
  nw_appends tobytes w (cs1 ++ c :: cs2) = None.
Proof.
  revert w. induction cs1 as [|x r IH]; intros w H Hc.
  - cbn [app nw_appends]. unfold nw_append. now rewrite Hc.
  - inversion H as [|? ? Hx Hr]; subst. cbn [app nw_appends]. unfold nw_append. rewrite Hx. apply IH; assumption.
Qed.

Lemma arr_bytes_same_dtype d (cs : list (ndarr A)) : Forall (fun c => a_dtype c = d) cs ->
  flat_map (arr_bytes tobytes) cs = flat_map (tobytes d) (flat_map (@a_flat A) cs).
Proof.
  induction 1 as [|c r Hc Hr IH]; [reflexivity|]. cbn [flat_map]. rewrite flat_map_app', IH. unfold arr_bytes.
  now rewrite Hc.
Qed.

Lemma size_written_flat (cs : list (ndarr A)) : size_written cs = zlen (flat_map (@a_flat A) cs).
Proof.
  unfold size_written. induction cs as [|c r IH]; [reflexivity|]. cbn [map flat_map].
  change (zsum (zlen (a_flat c) :: map (fun c0 => zlen (a_flat c0)) r))
    with (zlen (a_flat c) + zsum (map (fun c0 => zlen (a_flat c0)) r)).
  rewrite IH. unfold zlen. rewrite app_length. lia.
Qed.

Hypothesis Hdec : forall d a, frombytes d (tobytes d a) = Some a.

Lemma decode_all d (l : list A) : mapM (frombytes d) (map (tobytes d) l) = Some l.
Proof. induction l as [|x r IH]; [reflexivity|]. cbn [map mapM]. now rewrite Hdec, IH. Qed.

(* np.load on  header ++ bytes of [els] in dtype d' : needs prod(shape) items of the DECLARED dtype *)
Lemma load_prefix shape d (els : list A) :
  Forall (fun x => 0 <= x) shape ->
  np_load_bytes itemsize frombytes parse_hdr (hdr shape d ++ flat_map (tobytes d) els) =
  if zprod shape <=? zlen els then Some (shape, d, firstn (Z.to_nat (zprod shape)) els) else None.
Proof.
  intros Hsh. unfold np_load_bytes. rewrite Hhdr.
  replace (forallb (fun x => 0 <=? x) shape) with true.
  2:{ symmetry. apply forallb_forall. intros x Hx. rewrite Forall_forall in Hsh. specialize (Hsh x Hx). lia. }
  cbn [negb]. rewrite bytes_length. pose proof (Hpos d) as Hp.
  destruct (zprod shape <=? zlen els) eqn:E.
  - replace (zlen els * itemsize d <? zprod shape * itemsize d) with false by (symmetry; apply Z.ltb_ge; nia).
    set (cnt := Z.to_nat (zprod shape)).
    assert (Hc : (cnt <= length els)%nat) by (unfold cnt, zlen in *; lia).
    rewrite <- (firstn_skipn cnt els) at 1. rewrite flat_map_app', (flat_map_concat_map' _ (firstn cnt els)).
    replace cnt with (length (map (tobytes d) (firstn cnt els))) at 1 by (rewrite map_length, firstn_length; lia).
    rewrite chunks_of_concat_app.
    + rewrite decode_all. reflexivity.
    + apply Forall_forall. intros x Hx. apply in_map_iff in Hx as (a & <- & _). specialize (Hlen d a).
      unfold zlen in Hlen. lia.
  - replace (zlen els * itemsize d <? zprod shape * itemsize d) with true by (symmetry; apply Z.ltb_lt; nia).
    reflexivity.
Qed.

(* ---- the writer: ANY sequence of chunks of the declared dtype ---- *)
Theorem npy_writer_load shape d (cs : list (ndarr A)) :
  Forall (fun x => 0 <= x) shape ->
  Forall (fun c => append_ok shape c = true /\ a_dtype c = d) cs ->
  exists file, npy_file tobytes hdr shape d cs = Some file /\
    file = hdr shape d ++ flat_map (tobytes d) (flat_map (@a_flat A) cs) /\
    np_load_bytes itemsize frombytes parse_hdr file =
      if zprod shape <=? size_written cs
      then Some (shape, d, firstn (Z.to_nat (zprod shape)) (flat_map (@a_flat A) cs)) else None.
Proof.
  intros Hsh Hcs. unfold npy_file.
  rewrite nw_appends_file by (cbn [nw_open w_shape]; eapply Forall_impl; [|exact Hcs]; cbv beta; tauto).
  cbn [option_map w_file nw_open]. eexists. split; [reflexivity|].
  rewrite (arr_bytes_same_dtype d) by (eapply Forall_impl; [|exact Hcs]; cbv beta; tauto).
  split; [reflexivity|]. rewrite size_written_flat. now apply load_prefix.
Qed.

(* the element count equals the declared shape (export_waveforms' assertion) : the file parses back to
   exactly the appended elements, in order -- zero chunks and empty chunks included *)
Theorem npy_writer_exact shape d (cs : list (ndarr A)) :
  Forall (fun x => 0 <= x) shape ->
  Forall (fun c => append_ok shape c = true /\ a_dtype c = d) cs ->
  export_assert shape cs = true ->
  exists file, npy_file tobytes hdr shape d cs = Some file /\
    np_load_bytes itemsize frombytes parse_hdr file = Some (shape, d, flat_map (@a_flat A) cs).
Proof.
  intros Hsh Hcs Ha. destruct (npy_writer_load shape d cs Hsh Hcs) as (file & H1 & _ & H3).
  exists file. split; [exact H1|]. rewrite H3. unfold export_assert in Ha. apply Z.eqb_eq in Ha.
  replace (zprod shape <=? size_written cs) with true by lia.
  rewrite Ha, size_written_flat. unfold zlen. rewrite Nat2Z.id, firstn_all. reflexivity.
Qed.

(* ... and otherwise it does not: too few elements = np.load fails; too many = np.load succeeds but drops
   the surplus.  So: the file holds what was appended  <->  prod(shape) == size_written. *)
Theorem npy_writer_iff shape d (cs : list (ndarr A)) :
  Forall (fun x => 0 <= x) shape ->
  Forall (fun c => append_ok shape c = true /\ a_dtype c = d) cs ->
  exists file, npy_file tobytes hdr shape d cs = Some file /\
    (size_written cs < zprod shape -> np_load_bytes itemsize frombytes parse_hdr file = None) /\
    (zprod shape < size_written cs ->
       exists els, np_load_bytes itemsize frombytes parse_hdr file = Some (shape, d, els) /\
                   zlen els = zprod shape /\ els <> flat_map (@a_flat A) cs) /\
    (export_assert shape cs = true <->
       np_load_bytes itemsize frombytes parse_hdr file = Some (shape, d, flat_map (@a_flat A) cs)).
Proof.
  intros Hsh Hcs. destruct (npy_writer_load shape d cs Hsh Hcs) as (file & H1 & _ & H3).
  exists file. split; [exact H1|].
  assert (Hp : 0 <= zprod shape).
  { clear -Hsh. induction Hsh as [|x r Hx Hr IH]; unfold zprod in *; cbn [fold_right]; nia. }
  split; [|split].
  - intros Hlt. rewrite H3. now replace (zprod shape <=? size_written cs) with false by lia.
  - intros Hgt. rewrite H3. replace (zprod shape <=? size_written cs) with true by lia.
    eexists. split; [reflexivity|]. rewrite size_written_flat in Hgt. split.
    + unfold zlen in *. rewrite firstn_length. lia.
    + intros E. apply (f_equal (@length A)) in E. rewrite firstn_length in E. unfold zlen in Hgt. lia.
  - split.
    + intros Ha. destruct (npy_writer_exact shape d cs Hsh Hcs Ha) as (f' & Hf' & Hl).
      rewrite H1 in Hf'. injection Hf' as <-. exact Hl.
    + rewrite H3. destruct (zprod shape <=? size_written cs) eqn:E; [|discriminate].
      intros H. injection H as H. apply (f_equal (@length A)) in H. rewrite firstn_length in H.
      unfold export_assert. apply Z.eqb_eq. rewrite size_written_flat in *. unfold zlen in *. lia.
Qed.

(* the repaired defect 7bdfb3a at the byte level: chunks of a NARROWER dtype than the declared one (int16 or
   float32 payload under a float64 header), right element count, at least one element: np.load fails *)
Theorem npy_dtype_mismatch shape d d' (cs : list (ndarr A)) :
  Forall (fun x => 0 <= x) shape ->
  Forall (fun c => append_ok shape c = true /\ a_dtype c = d') cs ->
  itemsize d' < itemsize d -> export_assert shape cs = true -> 0 < zprod shape ->
  exists file, npy_file tobytes hdr shape d cs = Some file /\
    np_load_bytes itemsize frombytes parse_hdr file = None.
Proof.
  intros Hsh Hcs Hlt Ha Hp. unfold npy_file.
  rewrite nw_appends_file by (cbn [nw_open w_shape]; eapply Forall_impl; [|exact Hcs]; cbv beta; tauto).
  cbn [option_map w_file nw_open]. eexists. split; [reflexivity|].
  rewrite (arr_bytes_same_dtype d') by (eapply Forall_impl; [|exact Hcs]; cbv beta; tauto).
  unfold np_load_bytes. rewrite Hhdr.
  replace (forallb (fun x => 0 <=? x) shape) with true.
  2:{ symmetry. apply forallb_forall. intros x Hx. rewrite Forall_forall in Hsh. specialize (Hsh x Hx). lia. }
  cbn [negb]. rewrite bytes_length. unfold export_assert in Ha. apply Z.eqb_eq in Ha.
  rewrite size_written_flat in Ha. rewrite <- Ha. pose proof (Hpos d').
  now replace (zprod shape * itemsize d' <? zprod shape * itemsize d) with true by (symmetry; apply Z.ltb_lt; nia).
Qed.

(* injective + length-preserving: the payload bytes determine the elements (no decoder involved) *)
Hypothesis Hinj : forall d a b, tobytes d a = tobytes d b -> a = b.

Lemma payload_unique d (l1 l2 : list A) : flat_map (tobytes d) l1 = flat_map (tobytes d) l2 -> l1 = l2.
Proof.
  revert l2. induction l1 as [|x r IH]; intros [|y r2] H.
  - reflexivity.
  - exfalso. apply (f_equal (@length B)) in H. cbn [flat_map length] in H. rewrite app_length in H.
    pose proof (Hlen d y). pose proof (Hpos d). unfold zlen in *. lia.
  - exfalso. apply (f_equal (@length B)) in H. cbn [flat_map length] in H. rewrite app_length in H.
    pose proof (Hlen d x). pose proof (Hpos d). unfold zlen in *. lia.
  - cbn [flat_map] in H. apply app_same_length_inj in H.
    + destruct H as [H1 H2]. apply Hinj in H1. subst y. f_equal. now apply IH.
    + pose proof (Hlen d x). pose proof (Hlen d y). unfold zlen in *. lia.
Qed.

(* two runs of the writer that leave the same file appended the same elements *)
Theorem npy_file_unique shape d (cs1 cs2 : list (ndarr A)) file :
  Forall (fun c => append_ok shape c = true /\ a_dtype c = d) cs1 ->
  Forall (fun c => append_ok shape c = true /\ a_dtype c = d) cs2 ->
  npy_file tobytes hdr shape d cs1 = Some file -> npy_file tobytes hdr shape d cs2 = Some file ->
  flat_map (@a_flat A) cs1 = flat_map (@a_flat A) cs2.
Proof.
  intros H1 H2. unfold npy_file.
  rewrite !nw_appends_file by (cbn [nw_open w_shape]; eapply Forall_impl; [|eassumption]; cbv beta; tauto).
  cbn [option_map w_file nw_open]. intros E1 E2. injection E1 as <-. injection E2 as E.
  apply app_inv_head in E.
  rewrite (arr_bytes_same_dtype d cs1), (arr_bytes_same_dtype d cs2) in E
    by (eapply Forall_impl; [|eassumption]; cbv beta; tauto).
  symmetry. now apply (payload_unique d).
Qed.
End NpyProofs.

(* ================= export_waveforms at the byte level ================= *)
Lemma flat_map_batches {A} (scale : A -> A) (bs : list (list (list (list A)))) :
  flat_map (fun b => map scale (batch_flat b)) bs = map scale (concat (map batch_flat bs)).
Proof.
  induction bs as [|b r IH]; [reflexivity|]. cbn [flat_map map concat]. now rewrite map_app, IH.
Qed.

Section ExportBytesProofs.
Context {A B : Type}.
Variable zero : A.
Variable scale : A -> A.
Variable itemsize : dtype -> Z.
Variable tobytes : dtype -> A -> list B.
Variable frombytes : dtype -> list B -> option A.
Variable hdr : list Z -> dtype -> list B.
Variable parse_hdr : list B -> option (list Z * dtype * list B).
Hypothesis Hhdr : forall shape d rest, parse_hdr (hdr shape d ++ rest) = Some (shape, d, rest).
Hypothesis Hlen : forall d a, zlen (tobytes d a) = itemsize d.
Hypothesis Hpos : forall d, 1 <= itemsize d.
Hypothesis Hdec : forall d a, frombytes d (tobytes d a) = Some a.

(* C03_export down to the bytes: over any tiling chunking the file is written, the final assertion holds, and
   np.load of the BYTES gives the declared shape, float64, and -- regrouped in C order -- window x factor for
   every spike, in spike order.  The abstract file of Model.export is the same thing: same shape, same
   elements. *)
Theorem export_bytes_load c (data : list (list A)) n nc chunks spikes k :
  rect c data -> 1 <= c -> 1 <= n -> 0 <= nc -> spikes_ok (zlen data) c nc spikes ->
  Tiles (zlen data) chunks ->
  exists file els f,
    export_bytes zero scale tobytes hdr data n chunks spikes nc k = Some (file, true) /\
    np_load_bytes itemsize frombytes parse_hdr file = Some ([zlen spikes; n; nc], F64, els) /\
    reshape3 (zlen spikes) n nc els = scaled_windows zero scale data n spikes /\
    export zero scale data n chunks spikes nc k = Some f /\ npy_payload f = els /\
    npy_shape f = [zlen spikes; n; nc].
Proof.
  intros Hr Hc Hn Hnc Hsp Ht.
  destruct (export_load zero scale c data n nc chunks spikes k Hr Hc Hn Hnc Hsp Ht) as (f & Hf & Hshape & _ & Hload).
  unfold export in Hf |- *. unfold export_bytes.
  destruct (negb (rectangular_b nc spikes)); [discriminate|].
  destruct (iter_wave zero data n chunks spikes) as [batches|]; [|discriminate].
  set (payload := map scale (concat (map batch_flat batches))) in *.
  destruct (zprod [zlen spikes; n; nc] =? zlen payload) eqn:Ez; [|discriminate].
  injection Hf as <-. cbn [npy_shape npy_payload] in *.
  set (cs := map (batch_arr scale n nc k) batches).
  assert (Hflat : flat_map (@a_flat A) cs = payload).
  { unfold cs, payload. rewrite flat_map_concat_map', map_map. cbn [batch_arr a_flat].
    rewrite <- flat_map_concat_map'. apply flat_map_batches. }
  assert (Hcs : Forall (fun c0 => append_ok [zlen spikes; n; nc] c0 = true /\ a_dtype c0 = F64) cs).
  { apply Forall_forall. intros c0 Hc0. unfold cs in Hc0. apply in_map_iff in Hc0 as (b & <- & _).
    cbn [batch_arr a_dtype]. split; [|apply promote_declared].
    unfold append_ok. cbn [a_shape tl]. change (zlen [zlen b; n; nc] =? zlen [zlen spikes; n; nc]) with true.
    cbv iota. apply (list_eqb_eq Z.eqb Z.eqb_eq). reflexivity. }
  assert (Hsh : Forall (fun x => 0 <= x) [zlen spikes; n; nc]).
  { repeat constructor; unfold zlen; lia. }
  assert (Ha : export_assert [zlen spikes; n; nc] cs = true).
  { unfold export_assert. rewrite (size_written_flat cs), Hflat. exact Ez. }
  destruct (npy_writer_exact itemsize tobytes frombytes hdr parse_hdr Hhdr Hlen Hpos Hdec _ F64 cs Hsh Hcs Ha)
    as (file & Hfile & Hl).
  rewrite Hfile, Ha. exists file, payload. eexists. split; [reflexivity|]. rewrite Hflat in Hl.
  split; [exact Hl|]. split; [|split; [reflexivity|split; reflexivity]].
  unfold np_load in Hload. cbn [npy_shape npy_descr npy_pdtype npy_payload] in Hload.
  match type of Hload with (if ?b then _ else _) = _ => destruct b; [|discriminate] end.
  now injection Hload.
Qed.
End ExportBytesProofs.
