(* C03/Model.v -- executable model of phylib's spike-waveform routes.  No proofs here.
   phylib/io/traces.py (with the fix-c03 repairs): _extract_waveform, extract_waveforms,
   iter_waveforms, export_waveforms + NpyWriter (and np.load of the file it writes),
   get_spike_waveforms; phylib/io/array.py: _index_of (Base.NpList.index_of).

   A recording is [list (list A)]: rows = samples, columns = channels, [A] = the sample type
   (any: int16 / float32 / float64 in the correspondence).  [traces[i:j]] on a reader object is
   modelled as the slice of the concatenated recording (that multi-file readers implement exactly
   this slice is property C01, not re-modelled here; it is exercised by the correspondence).

   Repairs modelled (branch fix-c03): t0 = int(sample) - a (no unsigned wrap), channel list
   converted with np.asarray, top padding of -t0 rows, exported chunks cast to the declared dtype
   before the multiplication by the unit factor. *)
From Coq Require Import ZArith List Lia Bool.
From PV Require Import Base.PySlice Base.NpSearch Base.NpList C16.Model C16.Spec.   (* C16.Spec: memZ *)
Import ListNotations.
Open Scope Z_scope.

Fixpoint mapM {X Y : Type} (f : X -> option Y) (l : list X) : option (list Y) :=
  match l with
  | [] => Some []
  | x :: r => match f x with
              | None => None
              | Some y => match mapM f r with None => None | Some ys => Some (y :: ys) end
              end
  end.

(* one spike: its sample and its row of the per-spike channel table *)
Record spike := mkspike { sp_s : Z; sp_ch : list Z }.

(* dtype tags (the sample types of the property, and the dtype np.load has to agree on) *)
Inductive dtype := I16 | F32 | F64.
(* kinds of unit factor: Python int, Python float, NumPy float32 / float64 / int64 scalars *)
Inductive fkind := PyInt | PyFloat | NpF32 | NpF64 | NpI64.

Definition dtype_eqb (a b : dtype) : bool :=
  match a, b with I16, I16 | F32, F32 | F64, F64 => true | _, _ => false end.

(* dtype of  array(dtype d) * scalar(kind k)  under NumPy 2 (NEP 50), tabulated from observation
   and cross-checked by the correspondence on every export case *)
Definition promote (d : dtype) (k : fkind) : dtype :=
  match d, k with
  | I16, PyInt => I16 | I16, PyFloat => F64 | I16, NpF32 => F32 | I16, NpF64 => F64 | I16, NpI64 => I16
  | F32, NpF64 => F64 | F32, _ => F32
  | F64, _ => F64
  end.

Section Wave.
Context {A : Type}.
Variable zero : A.          (* the sample type's 0 (np.zeros) *)

(* ---------------- _extract_waveform ---------------- *)
(* row[ch] with NumPy's negative wrap; None = IndexError *)
Definition py_col (row : list A) (ch : Z) : option A :=
  let c := zlen row in
  if (0 <=? ch) && (ch <? c) then nth_error row (Z.to_nat ch)
  else if (- c <=? ch) && (ch <? 0) then nth_error row (Z.to_nat (ch + c))
  else None.

(* w = traces[..][:, channel_ids], one row *)
Definition take_cols (chans : list Z) (row : list A) : option (list A) := mapM (py_col row) chans.

(* w[:, channel_ids == -1] = 0, one row *)
Definition zero_neg1 (chans : list Z) (row : list A) : list A :=
  map (fun p => if fst p =? -1 then zero else snd p) (combine chans row).

(* np.zeros((r, nc)); None = ValueError (negative dimension) *)
Definition zeros_opt (r nc : Z) : option (list (list A)) :=
  if r <? 0 then None else Some (repeat (repeat zero (Z.to_nat nc)) (Z.to_nat r)).

(* _extract_waveform(traces, s, chans, n).  [0 <= s] is the regime of the model: for s < 0 the
   slice bounds may become negative and NumPy's wrap-around (different for arrays and readers)
   is not modelled; the result is then None and no theorem speaks about it. *)
Definition extract (data : list (list A)) (s n : Z) (chans : list Z) : option (list (list A)) :=
  if negb (0 <? n) then None else                                (* assert nsw > 0 *)
  if s <? 0 then None else
  let dur := zlen data in
  let a := n / 2 in
  let b := n - a in
  let t0 := s - a in
  let t1 := s + b in
  match mapM (take_cols chans) (slice data (Z.max 0 t0) t1) with
  | None => None                                                  (* IndexError on a channel *)
  | Some w0 =>
      let nc := zlen chans in
      let w1 := map (zero_neg1 chans) w0 in
      match (if t0 <? 0 then option_map (fun z => z ++ w1) (zeros_opt (- t0) nc) else Some w1) with
      | None => None
      | Some w2 =>
          match (if dur <? t1 then option_map (fun z => w2 ++ z) (zeros_opt (n - zlen w2) nc)
                 else Some w2) with
          | None => None
          | Some w3 => if zlen w3 =? n then Some w3 else None     (* assert w.shape == (nsw, nc) *)
          end
      end
  end.

(* extract_waveforms(traces, spike_samples, channel_ids, n): one channel list for all spikes *)
Definition extract_waveforms (data : list (list A)) (samples : list Z) (n : Z) (chans : list Z)
  : option (list (list (list A))) :=
  if negb (0 <? n) then None else mapM (fun s => extract data s n chans) samples.

(* ---------------- iter_waveforms ---------------- *)
(* _find_chunks([i0, i1], s) == 0, i.e. searchsorted([i0, i1], s, 'right') - 1 == 0 *)
Definition in_chunk (c : iv) (s : Z) : bool := ssr [lo c; hi c] s - 1 =? 0.

(* the batches yielded, in chunk order; chunks without spikes yield nothing ("continue") *)
Fixpoint iter_wave (data : list (list A)) (n : Z) (chunks : list iv) (spikes : list spike)
  : option (list (list (list (list A)))) :=
  match chunks with
  | [] => Some []
  | c :: rest =>
      let ss := filter (fun sp => in_chunk c (sp_s sp)) spikes in
      match ss with
      | [] => iter_wave data n rest spikes
      | _ :: _ =>
          match mapM (fun sp => extract data (sp_s sp) n (sp_ch sp)) ss with
          | None => None
          | Some batch => match iter_wave data n rest spikes with
                          | None => None
                          | Some bs => Some (batch :: bs)
                          end
          end
      end
  end.

(* ---------------- export_waveforms + NpyWriter, np.load ---------------- *)
Variable scale : A -> A.    (* elementwise: astype(declared dtype) * sample2unit *)

(* the file: header (shape, declared dtype) and the appended bytes seen as elements of the
   payload's dtype *)
Record npy := mknpy { npy_shape : list Z; npy_descr : dtype; npy_pdtype : dtype; npy_payload : list A }.

Definition zprod (l : list Z) : Z := fold_right Z.mul 1 l.

(* waveforms.size summed over the batches, and the flattened (C order) payload *)
Definition batch_flat (b : list (list (list A))) : list A := concat (map (@concat A) b).
Definition rectangular_b (nc : Z) (spikes : list spike) : bool :=
  forallb (fun sp => zlen (sp_ch sp) =? nc) spikes.

(* nc = spike_channels.shape[1]; the channel table must be a 2-D array (rectangular) *)
Definition export (data : list (list A)) (n : Z) (chunks : list iv) (spikes : list spike)
                  (nc : Z) (k : fkind) : option npy :=
  if negb (rectangular_b nc spikes) then None else
  let shape := [zlen spikes; n; nc] in
  let declared := F64 in                                   (* dtype = float (sample2unit given) *)
  match iter_wave data n chunks spikes with
  | None => None
  | Some batches =>
      let payload := map scale (concat (map batch_flat batches)) in
      if zprod shape =? zlen payload                       (* assert prod(shape) == size_written *)
      then Some (mknpy shape declared (promote declared k) payload) else None
  end.

(* reshape a flat C-order list *)
Fixpoint chunks_of (m k : nat) (l : list A) : list (list A) :=
  match m with O => [] | S m' => firstn k l :: chunks_of m' k (skipn k l) end.

Definition reshape3 (d0 d1 d2 : Z) (l : list A) : list (list (list A)) :=
  map (chunks_of (Z.to_nat d1) (Z.to_nat d2))
      (chunks_of (Z.to_nat d0) (Z.to_nat (d1 * d2)) l).

(* np.load: Some array iff the bytes are those of prod(shape) elements of the declared dtype *)
Definition np_load (f : npy) : option (list (list (list A))) :=
  match npy_shape f with
  | [d0; d1; d2] =>
      if dtype_eqb (npy_descr f) (npy_pdtype f) && (zlen (npy_payload f) =? d0 * d1 * d2)
         && (0 <=? d0) && (0 <=? d1) && (0 <=? d2)
      then Some (reshape3 d0 d1 d2 (npy_payload f)) else None
  | _ => None
  end.

(* ---------------- get_spike_waveforms ---------------- *)
Record store := mkstore { st_ids : list Z; st_ch : list (list Z); st_w : list (list (list A)) }.

(* np.unique: sorted, without duplicates *)
Fixpoint insert_u (x : Z) (l : list Z) : list Z :=
  match l with
  | [] => [x]
  | y :: r => if x <? y then x :: l else if x =? y then l else y :: insert_u x r
  end.
Definition unique (l : list Z) : list Z := fold_right insert_u [] l.
(* np.intersect1d(a, b): sorted unique common values *)
Definition intersect1d (a b : list Z) : list Z := filter (fun x => memZ x b) (unique a).

(* out[i, :, cols0] = waveforms[sid, :, cols1], one row of nc cells; None = IndexError *)
Definition assign_row (nc : Z) (cols0 cols1 : list Z) (wrow : list A) : option (list A) :=
  match mapM (py_col wrow) cols1 with
  | None => None
  | Some vals =>
      if forallb (fun c => (- nc <=? c) && (c <? nc)) cols0
      then Some (scatter (repeat zero (Z.to_nat nc)) (combine (map (pyidx nc) cols0) vals))
      else None
  end.

(* Python sequence indexing with negative wrap; None = IndexError *)
Definition py_nth {X : Type} (l : list X) (i : Z) : option X :=
  let len := zlen l in
  if (0 <=? i) && (i <? len) then nth_error l (Z.to_nat i)
  else if (- len <=? i) && (i <? 0) then nth_error l (Z.to_nat (i + len))
  else None.

Definition get_spike_waveforms (q_ids q_ch : list Z) (st : store) (n : Z)
  : option (list (list (list A))) :=
  if negb (forallb (fun x => memZ x (st_ids st)) q_ids) then None else   (* assert np.isin *)
  let rel := index_of q_ids (st_ids st) in
  if negb (0 <? n) then None else
  let nc := zlen q_ch in
  if negb (0 <? nc) then None else
  mapM (fun sid =>
          match py_nth (st_ch st) sid, py_nth (st_w st) sid with
          | Some ind, Some w =>
              let common := intersect1d q_ch ind in
              let cols0 := index_of common q_ch in
              let cols1 := index_of common ind in
              if negb (zlen w =? n) then None else            (* shapes must broadcast *)
              mapM (assign_row nc cols0 cols1) w
          | _, _ => None
          end) rel.
End Wave.

(* ---------------- TemplateModel.get_waveforms (phylib/io/model.py) ---------------- *)
(* The model object holds [traces] (None when there is no raw data file), [spike_waveforms] (None when
   one of the three _phy_spikes_subset.*.npy files is missing or unreadable), [spike_samples] and
   [n_samples_waveforms].  get_waveforms:
     - neither raw data nor a store: returns None;
     - a store: get_spike_waveforms on it -- whether or not raw data exist -- and ONLY when that raises an
       AssertionError (a queried id that the store does not hold, nsw <= 0, no channel) the raw route below;
       any other exception propagates;
     - no store: spike_samples[spike_ids] (NumPy fancy indexing), then extract_waveforms on the traces;
       in the fall-back with traces = None this raises (None has no dtype). *)
Section Route.
Context {A : Type}.
Variable zero : A.

Inductive gw_result := GwNone | GwOut (w : list (list (list A))) | GwError.

(* the three assertions of get_spike_waveforms *)
Definition gsw_asserts (q_ids q_ch : list Z) (st : store (A := A)) (n : Z) : bool :=
  forallb (fun x => memZ x (st_ids st)) q_ids && (0 <? n) && (0 <? zlen q_ch).

Definition gw_raw (traces : option (list (list A))) (spike_samples : list Z) (n : Z)
                  (spike_ids chans : list Z) : gw_result :=
  match mapM (py_nth spike_samples) spike_ids with
  | None => GwError                                              (* IndexError *)
  | Some ss =>
      match traces with
      | None => GwError                                          (* AttributeError: None.dtype *)
      | Some tr => match extract_waveforms zero tr ss n chans with
                   | Some w => GwOut w
                   | None => GwError
                   end
      end
  end.

Definition model_get_waveforms (traces : option (list (list A))) (st : option (store (A := A)))
    (spike_samples : list Z) (n n_channels : Z) (spike_ids : list Z) (channel_ids : option (list Z))
  : gw_result :=
  match traces, st with
  | None, None => GwNone
  | _, _ =>
      let chans := match channel_ids with Some l => l | None => zrange 0 (Z.to_nat n_channels) end in
      match st with
      | Some s =>
          if gsw_asserts spike_ids chans s n
          then match get_spike_waveforms zero spike_ids chans s n with
               | Some w => GwOut w
               | None => GwError
               end
          else gw_raw traces spike_samples n spike_ids chans
      | None => gw_raw traces spike_samples n spike_ids chans
      end
  end.
End Route.
