(* C03/Proofs2.v -- stage 2: the store look-up (get_spike_waveforms on the store built from an export),
   the TemplateModel.get_waveforms dispatch, and soundness of the comparator's boolean clauses. *)
From Coq Require Import ZArith List Lia Bool ZifyBool Sorted.
From PV Require Import Base.PySlice Base.NpSearch Base.NpList C16.Model C16.Spec C16.Proofs
                       C03.Model C03.Spec C03.Proofs.
Import ListNotations.
Open Scope Z_scope.

(* ================= generic facts ================= *)
Lemma mapM_map {X Y W} (f : Y -> option W) (h : X -> Y) l : mapM f (map h l) = mapM (fun x => f (h x)) l.
Proof. induction l as [|x r IH]; [reflexivity|]. cbn [map mapM]. now rewrite IH. Qed.

Lemma mapM_factor {X Y W} (f : X -> option W) (sel : X -> option Y) (g : Y -> W) l :
  (forall x, In x l -> exists y, sel x = Some y /\ f x = Some (g y)) ->
  exists ys, mapM sel l = Some ys /\ mapM f l = Some (map g ys).
Proof.
  induction l as [|x r IH]; intros H; [exists []; split; reflexivity|].
  destruct (H x (or_introl eq_refl)) as (y & Hy & Hf).
  destruct IH as (ys & Hs & Hm); [intros z Hz; apply H; now right|].
  exists (y :: ys). cbn [mapM map]. now rewrite Hy, Hs, Hf, Hm.
Qed.

Lemma mapM_Forall2 {X Y} (f : X -> option Y) l ys : mapM f l = Some ys -> Forall2 (fun x y => f x = Some y) l ys.
Proof.
  revert ys; induction l as [|x r IH]; intros ys H; cbn [mapM] in H.
  - injection H as <-. constructor.
  - destruct (f x) as [y|] eqn:E; [|discriminate]. destruct (mapM f r) as [zs|]; [|discriminate].
    injection H as <-. constructor; [exact E|now apply IH].
Qed.

Lemma Forall2_imp {X Y} (R1 R2 : X -> Y -> Prop) l1 l2 :
  (forall a b, R1 a b -> R2 a b) -> Forall2 R1 l1 l2 -> Forall2 R2 l1 l2.
Proof. intros H. induction 1; constructor; auto. Qed.

Lemma mapM_Some_total {X Y} (f : X -> option Y) l :
  (forall x, In x l -> exists y, f x = Some y) -> exists ys, mapM f l = Some ys.
Proof.
  induction l as [|x r IH]; intros H; [exists []; reflexivity|].
  destruct (H x (or_introl eq_refl)) as (y & Hy). destruct IH as (ys & Hs); [intros z Hz; apply H; now right|].
  exists (y :: ys). cbn [mapM]. now rewrite Hy, Hs.
Qed.

Lemma combine_map_map {X Y W} (a : X -> Y) (b : X -> W) l :
  combine (map a l) (map b l) = map (fun x => (a x, b x)) l.
Proof. induction l as [|x r IH]; [reflexivity|]. cbn [map combine]. now rewrite IH. Qed.

Lemma memZ_false x l : memZ x l = false <-> ~ In x l.
Proof.
  rewrite <- memZ_In. destruct (memZ x l); split; intros H; try reflexivity; try discriminate.
  exfalso. now apply H.
Qed.

(* ================= position of the last occurrence, and _index_of ================= *)
Fixpoint last_pos (x : Z) (l : list Z) : option nat :=
  match l with
  | [] => None
  | y :: r => match last_pos x r with
              | Some k => Some (S k)
              | None => if y =? x then Some O else None
              end
  end.

Lemma last_pos_none x l : last_pos x l = None -> ~ In x l.
Proof.
  induction l as [|y r IH]; intros H; [intros []|]. cbn [last_pos] in H.
  destruct (last_pos x r) as [k|]; [discriminate|]. destruct (y =? x) eqn:E; [discriminate|].
  intros [->|Hin]; [lia|]. now apply IH.
Qed.

Lemma last_pos_some x l : In x l -> exists k, last_pos x l = Some k.
Proof.
  intros H. destruct (last_pos x l) as [k|] eqn:E; [eauto|]. exfalso. now apply (last_pos_none x l).
Qed.

Lemma last_pos_nth x l k : last_pos x l = Some k -> nth_error l k = Some x /\ ~ In x (skipn (S k) l).
Proof.
  revert k; induction l as [|y r IH]; intros k H; cbn [last_pos] in H; [discriminate|].
  destruct (last_pos x r) as [k'|] eqn:E.
  - injection H as <-. destruct (IH k' eq_refl) as [H1 H2]. split; [exact H1|exact H2].
  - destruct (y =? x) eqn:E2; [|discriminate]. injection H as <-. split.
    + cbn [nth_error]. f_equal. lia.
    + cbn [skipn]. now apply last_pos_none.
Qed.

Lemma last_pos_of_nth l j x : nth_error l j = Some x -> ~ In x (skipn (S j) l) -> last_pos x l = Some j.
Proof.
  revert j; induction l as [|y r IH]; intros j Hj Hs; [destruct j; discriminate|].
  cbn [last_pos]. destruct j as [|j]; cbn [nth_error skipn] in *.
  - injection Hj as ->. destruct (last_pos x r) as [k|] eqn:E.
    + exfalso. apply Hs. destruct (last_pos_nth x r k E) as [H _]. eapply nth_error_In; eauto.
    + now rewrite Z.eqb_refl.
  - now rewrite (IH j Hj Hs).
Qed.

Lemma last_pos_lt x l k : last_pos x l = Some k -> (k < length l)%nat.
Proof. intros H. apply last_pos_nth in H as [H _]. apply nth_error_Some. congruence. Qed.

(* the position as an integer (0 for non-members: only used on members) *)
Definition lpz (l : list Z) (x : Z) : Z := match last_pos x l with Some k => Z.of_nat k | None => 0 end.

Lemma last_write_positions (f : Z -> nat) x lookup s :
  (forall y, In y lookup -> f y = f x -> y = x) ->
  last_write (f x) (combine (map f lookup) (map Z.of_nat (seq s (length lookup)))) =
  option_map (fun k => Z.of_nat (s + k)) (last_pos x lookup).
Proof.
  revert s; induction lookup as [|y r IH]; intros s Hinj; [reflexivity|].
  cbn [length seq map combine last_write last_pos].
  rewrite (IH (S s)) by (intros z Hz; apply Hinj; now right).
  destruct (last_pos x r) as [k|]; cbn [option_map].
  - do 2 f_equal. lia.
  - cbn [fst snd]. destruct (y =? x) eqn:E.
    + assert (y = x) as -> by lia. rewrite Nat.eqb_refl. cbn [option_map]. do 2 f_equal. lia.
    + destruct (Nat.eqb (f y) (f x)) eqn:E2; [|reflexivity].
      apply Nat.eqb_eq in E2. apply Hinj in E2; [lia|now left].
Qed.

Lemma fold_max_ge d l x : In x l -> x <= fold_right Z.max d l.
Proof.
  induction l as [|y r IH]; intros H; [destruct H|]. cbn [fold_right]. destruct H as [->|H]; [lia|].
  specialize (IH H). lia.
Qed.

(* _index_of's table maps every member of the lookup list (entries >= -1, repetitions allowed) to the
   position of its LAST occurrence *)
Lemma index_table_nth lookup x k :
  (forall y, In y lookup -> -1 <= y) -> last_pos x lookup = Some k ->
  nth (pyidx (Z.of_nat (length (index_table lookup))) x) (index_table lookup) 0 = Z.of_nat k.
Proof.
  intros Hge Hk. pose proof (last_pos_nth x lookup k Hk) as [Hnth _].
  assert (Hx : In x lookup) by (eapply nth_error_In; eauto).
  unfold index_table.
  set (M := match lookup with [] => 0 | _ :: _ => fold_right Z.max (hd 0 lookup) lookup end).
  assert (HM : forall y, In y lookup -> y <= M).
  { intros y Hy. unfold M. destruct lookup as [|a r]; [destruct Hy|]. now apply fold_max_ge. }
  set (len := M + 1 + 1).
  assert (Hlen : 1 <= len) by (pose proof (HM x Hx); pose proof (Hge x Hx); unfold len; lia).
  set (init := upd (repeat 0 (Z.to_nat len)) (pyidx len (-1)) (-1)).
  set (writes := combine (map (pyidx len) lookup) (map Z.of_nat (seq 0 (length lookup)))).
  assert (Hil : length init = Z.to_nat len) by (unfold init; now rewrite upd_length, repeat_length).
  rewrite scatter_length, Hil. replace (Z.of_nat (Z.to_nat len)) with len by lia.
  assert (Hrange : forall y, In y lookup -> (pyidx len y < Z.to_nat len)%nat).
  { intros y Hy. pose proof (HM y Hy). pose proof (Hge y Hy). unfold pyidx. destruct (y <? 0) eqn:E; lia. }
  assert (Hbound : forall w, In w writes -> (fst w < length init)%nat).
  { intros [p v] Hw. unfold writes in Hw. apply in_combine_l in Hw. apply in_map_iff in Hw as (y & <- & Hy).
    cbn [fst]. rewrite Hil. now apply Hrange. }
  rewrite (scatter_nth init writes _ 0 Hbound). unfold writes.
  rewrite (last_write_positions (pyidx len) x lookup 0).
  - rewrite Hk. cbn [option_map]. f_equal.
  - intros y Hy E. pose proof (HM y Hy). pose proof (Hge y Hy). pose proof (HM x Hx). pose proof (Hge x Hx).
    unfold pyidx, len in E. destruct (y <? 0) eqn:Ey; destruct (x <? 0) eqn:Ex; lia.
Qed.

Lemma index_of_members arr lookup :
  (forall y, In y lookup -> -1 <= y) -> (forall x, In x arr -> In x lookup) ->
  index_of arr lookup = map (lpz lookup) arr.
Proof.
  intros Hge Hsub. unfold index_of. apply map_ext_in. intros x Hx.
  destruct (last_pos_some x lookup (Hsub x Hx)) as (k & Hk). unfold lpz. rewrite Hk.
  now apply index_table_nth.
Qed.

(* ================= np.unique / np.intersect1d ================= *)
Lemma insert_u_In x y l : In y (insert_u x l) <-> y = x \/ In y l.
Proof.
  induction l as [|z r IH]; cbn [insert_u].
  - cbn. intuition.
  - destruct (x <? z) eqn:E1; [cbn; intuition|]. destruct (x =? z) eqn:E2.
    + assert (x = z) by lia. subst. cbn. intuition.
    + cbn [In]. rewrite IH. intuition.
Qed.

Lemma unique_In y l : In y (unique l) <-> In y l.
Proof.
  unfold unique. induction l as [|x r IH]; cbn [fold_right]; [reflexivity|].
  rewrite insert_u_In, IH. cbn. intuition.
Qed.

Lemma insert_u_ss x l : StronglySorted Z.lt l -> StronglySorted Z.lt (insert_u x l).
Proof.
  induction 1 as [|y r Hs IH Hall]; cbn [insert_u]; [repeat constructor|].
  destruct (x <? y) eqn:E1.
  - constructor; [now constructor|]. constructor; [lia|]. eapply Forall_impl; [|exact Hall].
    cbv beta. intros z Hz. lia.
  - destruct (x =? y) eqn:E2; [now constructor|]. constructor; [exact IH|].
    rewrite Forall_forall. intros z Hz. apply insert_u_In in Hz. destruct Hz as [->|Hz]; [lia|].
    rewrite Forall_forall in Hall. now apply Hall.
Qed.

Lemma ss_NoDup l : StronglySorted Z.lt l -> NoDup l.
Proof.
  induction 1 as [|y r Hs IH Hall]; constructor; [|exact IH].
  intros Hin. rewrite Forall_forall in Hall. specialize (Hall y Hin). lia.
Qed.

Lemma unique_NoDup l : NoDup (unique l).
Proof.
  apply ss_NoDup. unfold unique. induction l as [|x r IH]; cbn [fold_right]; [constructor|].
  now apply insert_u_ss.
Qed.

Lemma intersect1d_In a b y : In y (intersect1d a b) <-> In y a /\ In y b.
Proof. unfold intersect1d. rewrite filter_In, unique_In, memZ_In. reflexivity. Qed.

Lemma intersect1d_NoDup a b : NoDup (intersect1d a b).
Proof. unfold intersect1d. apply NoDup_filter. apply unique_NoDup. Qed.

(* ================= one row of a look-up ================= *)
Section Lookup.
Context {A : Type}.
Variable zero : A.

(* the closed form of one row: a queried channel receives its stored value iff it is stored for the spike
   and is not repeated later in the query *)
Fixpoint lookup_row (g : Z -> A) (stored q : list Z) : list A :=
  match q with
  | [] => []
  | ch :: r => (if memZ ch stored && negb (memZ ch r) then g ch else zero) :: lookup_row g stored r
  end.

Lemma lookup_row_length g stored q : length (lookup_row g stored q) = length q.
Proof. induction q as [|ch r IH]; cbn [lookup_row length]; [reflexivity|now rewrite IH]. Qed.

Lemma lookup_row_nth g stored q j ch : nth_error q j = Some ch ->
  nth j (lookup_row g stored q) zero =
  if memZ ch stored && negb (memZ ch (skipn (S j) q)) then g ch else zero.
Proof.
  revert j; induction q as [|c r IH]; intros j Hj; [destruct j; discriminate|].
  destruct j as [|j]; cbn [nth_error lookup_row nth skipn] in *.
  - now injection Hj as ->.
  - now apply IH.
Qed.

Lemma last_write_map_inj (a : Z -> nat) (b : Z -> A) l j v :
  (forall u w, In u l -> In w l -> a u = a w -> u = w) -> In v l -> a v = j ->
  last_write j (map (fun u => (a u, b u)) l) = Some (b v).
Proof.
  induction l as [|u r IH]; intros Hinj Hv Ha; [destruct Hv|]. cbn [map last_write].
  destruct (In_dec Z.eq_dec v r) as [Hr|Hr].
  - rewrite IH; auto. intros u' w' Hu Hw. apply Hinj; now right.
  - destruct Hv as [->|Hv]; [|contradiction].
    rewrite last_write_none.
    + cbn [fst snd]. rewrite Ha, Nat.eqb_refl. reflexivity.
    + rewrite map_map. cbn [fst]. rewrite in_map_iff. intros (w & Hw1 & Hw2).
      apply Hr. rewrite <- (Hinj w v); auto; [now right|now left|lia].
Qed.

Lemma py_col_nat (row : list A) k v : nth_error row k = Some v -> py_col row (Z.of_nat k) = Some v.
Proof.
  intros H. unfold py_col, zlen.
  assert (k < length row)%nat by (apply nth_error_Some; congruence).
  replace ((0 <=? Z.of_nat k) && (Z.of_nat k <? Z.of_nat (length row))) with true by lia.
  now rewrite Nat2Z.id.
Qed.

(* out[i, :, cols0] = waveforms[sid, :, cols1] for one time sample: the stored row holds g(channel) in
   the column of each stored channel (repetitions and -1 entries anywhere in the stored row allowed) *)
Lemma assign_row_closed (g : Z -> A) q_ch ind :
  (forall y, In y q_ch -> -1 <= y) -> (forall y, In y ind -> -1 <= y) ->
  assign_row zero (zlen q_ch) (index_of (intersect1d q_ch ind) q_ch) (index_of (intersect1d q_ch ind) ind)
             (map g ind) = Some (lookup_row g ind q_ch).
Proof.
  intros Hq Hi. set (common := intersect1d q_ch ind).
  assert (Hcq : forall v, In v common -> In v q_ch) by (intros v Hv; now apply intersect1d_In in Hv).
  assert (Hci : forall v, In v common -> In v ind) by (intros v Hv; now apply intersect1d_In in Hv).
  rewrite (index_of_members common q_ch Hq Hcq), (index_of_members common ind Hi Hci).
  unfold assign_row.
  (* the values read from the stored row *)
  assert (Hvals : mapM (py_col (map g ind)) (map (lpz ind) common) = Some (map g common)).
  { rewrite mapM_map. apply mapM_Some_map. intros v Hv.
    destruct (last_pos_some v ind (Hci v Hv)) as (k & Hk). unfold lpz. rewrite Hk.
    apply py_col_nat. destruct (last_pos_nth v ind k Hk) as [Hn _]. now rewrite nth_error_map, Hn. }
  rewrite Hvals.
  (* the target columns are inside the output row *)
  assert (Hpos : forall v, In v common -> exists k, last_pos v q_ch = Some k /\ lpz q_ch v = Z.of_nat k /\
                                                     (k < length q_ch)%nat /\ nth_error q_ch k = Some v).
  { intros v Hv. destruct (last_pos_some v q_ch (Hcq v Hv)) as (k & Hk). exists k. unfold lpz. rewrite Hk.
    destruct (last_pos_nth v q_ch k Hk) as [Hn _]. repeat split; auto. now apply (last_pos_lt v). }
  replace (forallb (fun c => (- zlen q_ch <=? c) && (c <? zlen q_ch)) (map (lpz q_ch) common)) with true.
  2:{ symmetry. apply forallb_forall. intros c Hc. apply in_map_iff in Hc as (v & <- & Hv).
      destruct (Hpos v Hv) as (k & _ & -> & Hlt & _). unfold zlen. lia. }
  f_equal. rewrite map_map, combine_map_map.
  set (a := fun v => pyidx (zlen q_ch) (lpz q_ch v)).
  change (map (fun x : Z => (pyidx (zlen q_ch) (lpz q_ch x), g x)) common)
    with (map (fun v => (a v, g v)) common).
  assert (Ha : forall v, In v common -> exists k, a v = k /\ last_pos v q_ch = Some k /\ nth_error q_ch k = Some v).
  { intros v Hv. destruct (Hpos v Hv) as (k & Hk & Hz & Hlt & Hn). exists k. split; [|auto].
    unfold a, pyidx. rewrite Hz. replace (Z.of_nat k <? 0) with false by lia. lia. }
  assert (Hinj : forall u w, In u common -> In w common -> a u = a w -> u = w).
  { intros u w Hu Hw E. destruct (Ha u Hu) as (k1 & E1 & _ & N1). destruct (Ha w Hw) as (k2 & E2 & _ & N2).
    congruence. }
  assert (Hb : forall w, In w (map (fun v => (a v, g v)) common) -> (fst w < length (repeat zero (Z.to_nat (zlen q_ch))))%nat).
  { intros w Hw. apply in_map_iff in Hw as (v & <- & Hv). cbn [fst]. rewrite repeat_length.
    destruct (Ha v Hv) as (k & -> & Hk & _). apply last_pos_lt in Hk. unfold zlen. lia. }
  apply nth_ext with (d := zero) (d' := zero).
  { rewrite scatter_length, repeat_length, lookup_row_length. unfold zlen. lia. }
  rewrite scatter_length, repeat_length. intros j Hj. unfold zlen in Hj. rewrite Nat2Z.id in Hj.
  destruct (nth_error q_ch j) as [ch|] eqn:Ech; [|apply nth_error_None in Ech; lia].
  rewrite (lookup_row_nth g ind q_ch j ch Ech), (scatter_nth _ _ j zero Hb).
  destruct (memZ ch ind && negb (memZ ch (skipn (S j) q_ch))) eqn:Ef.
  - apply andb_true_iff in Ef as [E1 E2]. apply memZ_In in E1. apply negb_true_iff, memZ_false in E2.
    assert (Hc : In ch common) by (apply intersect1d_In; split; [eapply nth_error_In; eauto|exact E1]).
    rewrite (last_write_map_inj a g common j ch Hinj Hc); [reflexivity|].
    destruct (Ha ch Hc) as (k & -> & Hk & _). rewrite (last_pos_of_nth q_ch j ch Ech E2) in Hk. congruence.
  - rewrite last_write_none.
    + clear. generalize (Z.to_nat (zlen q_ch)). intros m. revert j. induction m as [|m IH]; intros [|j]; cbn; auto.
    + rewrite map_map. cbn [fst]. rewrite in_map_iff. intros (v & Hv1 & Hv2).
      destruct (Ha v Hv2) as (k & E & Hk & Hn). assert (Hkj : k = j) by congruence. clear E. subst k.
      assert (v = ch) by congruence. subst v.
      destruct (last_pos_nth ch q_ch j Hk) as [_ Hs]. apply memZ_false in Hs.
      assert (memZ ch ind = true) by (apply memZ_In; now apply Hci). rewrite H, Hs in Ef. discriminate.
Qed.
End Lookup.

(* ================= the whole look-up ================= *)
Section Store.
Context {A : Type}.
Variable zero : A.
Variable scale : A -> A.

Lemma mask_row_lookup_row (h : Z -> A) stored q :
  mask_row zero scale (keep_flags stored q) (map h q) = lookup_row zero (fun ch => scale (h ch)) stored q.
Proof.
  unfold mask_row. induction q as [|ch r IH]; [reflexivity|].
  cbn [keep_flags map combine lookup_row fst snd]. now rewrite IH.
Qed.

Lemma py_nth_nat {X} (l : list X) k v : nth_error l k = Some v -> py_nth l (Z.of_nat k) = Some v.
Proof.
  intros H. unfold py_nth, zlen.
  assert (k < length l)%nat by (apply nth_error_Some; congruence).
  replace ((0 <=? Z.of_nat k) && (Z.of_nat k <? Z.of_nat (length l))) with true by lia.
  now rewrite Nat2Z.id.
Qed.

(* the spike a queried id refers to: the one at the LAST position of the id in the store's id vector
   (the only position when the ids are distinct) *)
Definition refers (ids : list Z) (spikes : list spike) (x : Z) (sp : spike) : Prop :=
  exists p, nth_error ids p = Some x /\ ~ In x (skipn (S p) ids) /\ nth_error spikes p = Some sp.

(* get_spike_waveforms on a store that holds, for each stored spike, its scaled window on its own
   channel row *)
Theorem store_lookup c (data : list (list A)) n spikes ids q_ids q_ch :
  1 <= n -> Forall (fun sp => chans_ok c (sp_ch sp)) spikes ->
  Forall (fun x => 0 <= x) ids -> zlen ids = zlen spikes ->
  Forall (fun x => In x ids) q_ids -> q_ch <> [] -> Forall (fun ch => -1 <= ch) q_ch ->
  exists sps, Forall2 (refers ids spikes) q_ids sps /\
    get_spike_waveforms zero q_ids q_ch
      (mkstore ids (map sp_ch spikes) (scaled_windows zero scale data n spikes)) n =
    Some (map (fun sp => lookup_window zero scale data n sp q_ch) sps).
Proof.
  intros Hn Hok Hids Hlen Hq Hne Hqc. unfold get_spike_waveforms. cbn [st_ids st_ch st_w].
  rewrite Forall_forall in Hq, Hids, Hqc, Hok.
  replace (forallb (fun x => memZ x ids) q_ids) with true.
  2:{ symmetry. apply forallb_forall. intros x Hx. apply memZ_In. now apply Hq. }
  cbn [negb]. replace (negb (0 <? n)) with false by lia.
  replace (negb (0 <? zlen q_ch)) with false.
  2:{ destruct q_ch; [contradiction|]. unfold zlen. cbn [length]. lia. }
  rewrite (index_of_members q_ids ids) by (auto; intros y Hy; specialize (Hids y Hy); lia).
  rewrite mapM_map.
  set (sel := fun x => match last_pos x ids with Some k => nth_error spikes k | None => None end).
  destruct (mapM_factor
              (fun x => match py_nth (map sp_ch spikes) (lpz ids x),
                              py_nth (scaled_windows zero scale data n spikes) (lpz ids x) with
                        | Some ind, Some w =>
                            if negb (zlen w =? n) then None
                            else mapM (assign_row zero (zlen q_ch) (index_of (intersect1d q_ch ind) q_ch)
                                                  (index_of (intersect1d q_ch ind) ind)) w
                        | _, _ => None
                        end)
              sel (fun sp => lookup_window zero scale data n sp q_ch) q_ids) as (sps & Hsel & Hres).
  { intros x Hx. destruct (last_pos_some x ids (Hq x Hx)) as (k & Hk).
    assert (Hklt : (k < length spikes)%nat) by (apply last_pos_lt in Hk; unfold zlen in Hlen; lia).
    destruct (nth_error spikes k) as [sp|] eqn:Esp; [|apply nth_error_None in Esp; lia].
    exists sp. split; [unfold sel; now rewrite Hk|].
    unfold lpz. rewrite Hk.
    rewrite (py_nth_nat (map sp_ch spikes) k (sp_ch sp)) by now rewrite nth_error_map, Esp.
    rewrite (py_nth_nat (scaled_windows zero scale data n spikes) k
               (map (map scale) (spike_window zero data n sp)))
      by (unfold scaled_windows; now rewrite nth_error_map, Esp).
    replace (zlen (map (map scale) (spike_window zero data n sp)) =? n) with true.
    2:{ symmetry. apply Z.eqb_eq. unfold zlen, spike_window, window. rewrite !map_length, zrange_length. lia. }
    cbn [negb]. unfold lookup_window, spike_window, window. rewrite !map_map, mapM_map.
    apply mapM_Some_map. intros t _.
    rewrite map_map. rewrite (mask_row_lookup_row (cell zero data t)).
    assert (Hsp : In sp spikes) by (eapply nth_error_In; eauto).
    apply (assign_row_closed zero (fun ch => scale (cell zero data t ch))).
    - exact Hqc.
    - intros y Hy. specialize (Hok sp Hsp). unfold chans_ok in Hok. rewrite Forall_forall in Hok.
      specialize (Hok y Hy). lia. }
  exists sps. split; [|exact Hres].
  apply mapM_Forall2 in Hsel. eapply Forall2_imp; [|exact Hsel]. cbv beta.
  intros x sp Hx. unfold sel in Hx. destruct (last_pos x ids) as [k|] eqn:Hk; [|discriminate].
  destruct (last_pos_nth x ids k Hk) as [H1 H2]. exists k. auto.
Qed.

(* C03_store: export -> np.load -> store -> look-up *)
Theorem export_store_lookup c (data : list (list A)) n nc chunks spikes k ids q_ids q_ch :
  rect c data -> 1 <= c -> 1 <= n -> 0 <= nc -> spikes_ok (zlen data) c nc spikes -> Tiles (zlen data) chunks ->
  Forall (fun x => 0 <= x) ids -> zlen ids = zlen spikes ->
  Forall (fun x => In x ids) q_ids -> q_ch <> [] -> Forall (fun ch => -1 <= ch) q_ch ->
  exists f stw sps,
    export zero scale data n chunks spikes nc k = Some f /\ np_load f = Some stw /\
    Forall2 (refers ids spikes) q_ids sps /\
    get_spike_waveforms zero q_ids q_ch (mkstore ids (map sp_ch spikes) stw) n =
    Some (map (fun sp => lookup_window zero scale data n sp q_ch) sps).
Proof.
  intros Hr Hc Hn Hnc Hsp Ht Hids Hlen Hq Hne Hqc.
  destruct (export_load zero scale c data n nc chunks spikes k Hr Hc Hn Hnc Hsp Ht) as (f & Hf & _ & _ & Hl).
  assert (Hok : Forall (fun sp => chans_ok c (sp_ch sp)) spikes).
  { destruct Hsp as [_ H]. eapply Forall_impl; [|exact H]. cbv beta. tauto. }
  destruct (store_lookup c data n spikes ids q_ids q_ch Hn Hok Hids Hlen Hq Hne Hqc) as (sps & H1 & H2).
  exists f, (scaled_windows zero scale data n spikes), sps. auto.
Qed.

(* ---- what the closed form means ---- *)
(* every queried channel stored for the spike and no channel queried twice: the look-up is the whole
   scaled window on the queried channels *)
Lemma mask_row_all_true flags (row : list A) :
  Forall (fun b => b = true) flags -> length flags = length row -> mask_row zero scale flags row = map scale row.
Proof.
  unfold mask_row. revert row; induction flags as [|b r IH]; intros [|x row] Hall Hl; cbn in *; try lia; [reflexivity|].
  inversion Hall as [|? ? Hb Hr]; subst. cbn. f_equal. apply IH; auto.
Qed.

Lemma keep_flags_length stored q : length (keep_flags stored q) = length q.
Proof. induction q as [|ch r IH]; cbn [keep_flags length]; [reflexivity|now rewrite IH]. Qed.

Lemma keep_flags_all_true stored q :
  NoDup q -> (forall ch, In ch q -> In ch stored) -> Forall (fun b => b = true) (keep_flags stored q).
Proof.
  induction 1 as [|ch r Hn Hd IH]; intros Hs; cbn [keep_flags]; constructor.
  - apply andb_true_iff. split; [apply memZ_In, Hs; now left|]. apply negb_true_iff. now apply memZ_false.
  - apply IH. intros x Hx. apply Hs. now right.
Qed.

Theorem lookup_window_full (data : list (list A)) n sp q_ch :
  NoDup q_ch -> (forall ch, In ch q_ch -> In ch (sp_ch sp)) ->
  lookup_window zero scale data n sp q_ch = map (map scale) (window zero data (sp_s sp) n q_ch).
Proof.
  intros Hnd Hs. unfold lookup_window. apply map_ext_in. intros row Hrow.
  apply mask_row_all_true; [now apply keep_flags_all_true|].
  rewrite keep_flags_length. unfold window in Hrow. apply in_map_iff in Hrow as (t & <- & _).
  now rewrite map_length.
Qed.

(* the stored-channel mask of the property (Spec.masked_window): always a mask of the window on the queried
   channels ... *)
Lemma masked_window_as_mask (data : list (list A)) n sp q_ch :
  masked_window zero scale data n sp q_ch =
  map (mask_row zero scale (stored_flags (sp_ch sp) q_ch)) (window zero data (sp_s sp) n q_ch).
Proof.
  unfold masked_window, window. rewrite map_map. apply map_ext. intros t.
  unfold mask_row, stored_flags. induction q_ch as [|ch r IH]; [reflexivity|].
  cbn [map combine fst snd]. now rewrite IH.
Qed.

(* ... and equal to the look-up as soon as no channel other than -1 is queried twice (0 x factor = 0) *)
Lemma lookup_row_masked (g : Z -> A) stored q :
  g (-1) = zero -> distinct_real q ->
  lookup_row zero g stored q = map (fun ch => if memZ ch stored then g ch else zero) q.
Proof.
  intros Hg. unfold distinct_real. induction q as [|ch r IH]; intros Hd; [reflexivity|].
  cbn [lookup_row map filter] in *. destruct (ch =? -1) eqn:E; cbn [negb] in Hd.
  - assert (ch = -1) as -> by lia. rewrite Hg, IH by exact Hd.
    f_equal. destruct (memZ (-1) stored); destruct (memZ (-1) r); reflexivity.
  - inversion Hd as [|? ? Hn Hd']; subst. rewrite IH by exact Hd'. f_equal.
    assert (Hnr : memZ ch r = false).
    { apply memZ_false. intros Hin. apply Hn. apply filter_In. split; [exact Hin|]. now rewrite E. }
    rewrite Hnr. cbn [negb]. now rewrite andb_true_r.
Qed.

Theorem lookup_window_masked (data : list (list A)) n sp q_ch :
  scale zero = zero -> distinct_real q_ch ->
  lookup_window zero scale data n sp q_ch = masked_window zero scale data n sp q_ch.
Proof.
  intros Hz Hd. unfold lookup_window, masked_window, window. rewrite map_map. apply map_ext. intros t.
  rewrite (mask_row_lookup_row (cell zero data t)).
  apply (lookup_row_masked (fun ch => scale (cell zero data t ch))); [|exact Hd].
  unfold cell. now rewrite orb_true_r.
Qed.
End Store.
