(* C03/Link.v -- stage 3: link to property C01 (reader indexing).
   C03's model reads [traces[max(0, t0):t1]] on a reader object as the slice of the concatenated recording and
   lists "multi-file readers return slices of the concatenation" as trusted.  Here the slice is taken by C01's
   line-by-line model of BaseEphysReader.__getitem__ on the list of per-file arrays ([getitem_rows parts], i.e.
   _get_subitems over part_bounds + one NumPy read per file + vstack) and C01's theorem C01_slice_clipped
   (a stop beyond the end is clipped, which _extract_waveform relies on for spikes near the end) shows that
   _extract_waveform on the reader is [extract] on the concatenation.  So C03_extract (and with it every chunked
   route, which extracts from the whole reader) holds for recordings split over any number of files. *)
From Coq Require Import ZArith List Lia Bool.
From PV Require Import Base.PySlice Base.NpSearch Base.NpList C16.Model C16.Spec C03.Model C03.Spec C03.Proofs.
From PV Require C01.Model C01.Spec C01.ModelE C01.Proofs5.
Import ListNotations.
Open Scope Z_scope.

Section ReaderLink.
Context {A : Type}.
Variable zero : A.

(* _extract_waveform(traces, s, chans, n) with traces = a reader over the per-file arrays [parts]:
   dur = traces.shape[0] = the length of the concatenation (C01_bounds_concat / C01_n_samples), the rows come
   from reader[max(0, t0):t1]; the rest is [extract] verbatim *)
Definition extract_reader (parts : list (list (list A))) (s n : Z) (chans : list Z) : option (list (list A)) :=
  if negb (0 <? n) then None else
  if s <? 0 then None else
  let dur := zlen (concat parts) in
  let a := n / 2 in
  let b := n - a in
  let t0 := s - a in
  let t1 := s + b in
  match C01.Model.getitem_rows parts (C01.Model.ISlice (Some (Z.max 0 t0)) (Some t1) None) with
  | None => None
  | Some rows =>
  match mapM (take_cols chans) rows with
  | None => None
  | Some w0 =>
      let nc := zlen chans in
      let w1 := map (zero_neg1 zero chans) w0 in
      match (if t0 <? 0 then option_map (fun z => z ++ w1) (zeros_opt zero (- t0) nc) else Some w1) with
      | None => None
      | Some w2 =>
          match (if dur <? t1 then option_map (fun z => w2 ++ z) (zeros_opt zero (n - zlen w2) nc)
                 else Some w2) with
          | None => None
          | Some w3 => if zlen w3 =? n then Some w3 else None
          end
      end
  end
  end.

Theorem extract_reader_concat (parts : list (list (list A))) s n chans :
  0 <= s < zlen (concat parts) -> 1 <= n ->
  extract_reader parts s n chans = extract zero (concat parts) s n chans.
Proof.
  intros Hs Hn. unfold extract_reader, extract.
  replace (negb (0 <? n)) with false by lia. replace (s <? 0) with false by lia. cbv zeta.
  assert (Ha : 0 <= n / 2 < n).
  { split; [apply Z.div_pos; lia|apply Z.div_lt_upper_bound; lia]. }
  set (a := n / 2) in *. set (dur := zlen (concat parts)) in *.
  set (t0 := s - a). set (t1 := s + (n - a)). set (lo_ := Z.max 0 t0).
  pose proof (C01.Proofs5.getitem_slice_clipped parts (Some lo_) (Some t1) None) as H. cbv zeta in H. fold dur in H.
  assert (Hlo : C01.Spec.np_bound dur 0 (Some lo_) = lo_).
  { unfold C01.Spec.np_bound. replace (lo_ <? 0) with false by (subst lo_; lia). subst lo_ t0. lia. }
  assert (Hhi : C01.Spec.np_bound dur dur (Some t1) = Z.min t1 dur).
  { unfold C01.Spec.np_bound. replace (t1 <? 0) with false by (subst t1; lia). reflexivity. }
  rewrite Hlo, Hhi in H.
  rewrite H.
  - replace (slice (concat parts) lo_ (Z.min t1 dur)) with (slice (concat parts) lo_ t1); [reflexivity|].
    unfold slice. subst dur. unfold zlen.
    destruct (Z.le_gt_cases t1 (Z.of_nat (length (concat parts)))); [now rewrite Z.min_l by lia|].
    rewrite Z.min_r by lia. rewrite !firstn_all2; [reflexivity| |]; rewrite skipn_length; lia.
  - lia.
  - now left.
  - cbn. subst lo_ t0. lia.
  - cbn. subst t1. lia.
  - subst lo_ t0 t1. lia.
Qed.

(* hence C03_extract on a recording split over files *)
Corollary extract_reader_window c (parts : list (list (list A))) s n chans :
  rect c (concat parts) -> 1 <= c -> chans_ok c chans -> 0 <= s < zlen (concat parts) -> 1 <= n ->
  extract_reader parts s n chans = Some (window zero (concat parts) s n chans).
Proof.
  intros Hr Hc Hok Hs Hn. rewrite extract_reader_concat by assumption. now apply (extract_window zero c).
Qed.

Theorem extract_reader_both c (parts : list (list (list A))) s n chans :
  rect c (concat parts) -> 1 <= c -> chans_ok c chans -> 0 <= s < zlen (concat parts) -> 1 <= n ->
  extract_reader parts s n chans = extract zero (concat parts) s n chans /\
  extract_reader parts s n chans = Some (window zero (concat parts) s n chans).
Proof.
  intros Hr Hc Hok Hs Hn. split; [now apply extract_reader_concat|now apply (extract_reader_window c)].
Qed.
End ReaderLink.
