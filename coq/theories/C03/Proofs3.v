(* C03/Proofs3.v -- stage 2: the TemplateModel.get_waveforms dispatch (store / raw traces / neither),
   and soundness of the boolean clauses the comparator evaluates on phylib's output. *)
From Coq Require Import ZArith List Lia Bool ZifyBool.
From PV Require Import Base.PySlice Base.NpSearch Base.NpList C16.Model C16.Spec C16.Proofs
                       C03.Model C03.Spec C03.Proofs C03.Proofs2.
Import ListNotations.
Open Scope Z_scope.

(* ================= generic facts ================= *)
Lemma Forall2_nth_error {X Y} (R : X -> Y -> Prop) l1 l2 p a b :
  Forall2 R l1 l2 -> nth_error l1 p = Some a -> nth_error l2 p = Some b -> R a b.
Proof.
  intros H. revert p. induction H as [|x y l1 l2 Hxy H IH]; intros [|p] Ha Hb; cbn [nth_error] in *; try discriminate.
  - injection Ha as <-. injection Hb as <-. exact Hxy.
  - eapply IH; eauto.
Qed.

Lemma Forall2_map_same {X Y} (R : X -> Y -> Prop) (f : X -> Y) l :
  (forall x, In x l -> R x (f x)) -> Forall2 R l (map f l).
Proof.
  induction l as [|x r IH]; intros H; cbn [map]; constructor; [apply H; now left|].
  apply IH. intros y Hy. apply H. now right.
Qed.

Lemma Forall2_map_right {X Y W} (R : X -> Y -> Prop) (R' : X -> W -> Prop) (f : Y -> W) l1 l2 :
  (forall a b, R a b -> R' a (f b)) -> Forall2 R l1 l2 -> Forall2 R' l1 (map f l2).
Proof. intros H. induction 1; cbn [map]; constructor; auto. Qed.

Lemma Forall2_two_maps {X Y1 Y2 W} (R1 : X -> Y1 -> Prop) (R2 : X -> Y2 -> Prop) (f1 : Y1 -> W) (f2 : Y2 -> W) l l1 l2 :
  (forall a b1 b2, R1 a b1 -> R2 a b2 -> f1 b1 = f2 b2) -> Forall2 R1 l l1 -> Forall2 R2 l l2 ->
  map f1 l1 = map f2 l2.
Proof.
  intros H H1. revert l2. induction H1 as [|x y l l1 Hxy H1 IH]; intros l2 H2; inversion H2; subst; cbn [map]; [reflexivity|].
  f_equal; [eapply H; eauto|now apply IH].
Qed.

Lemma py_nth_range {X} (l : list X) i :
  - zlen l <= i < zlen l -> exists v, py_nth l i = Some v /\ In v l.
Proof.
  intros H. unfold py_nth, zlen in *.
  destruct ((0 <=? i) && (i <? Z.of_nat (length l))) eqn:E1.
  - destruct (nth_error l (Z.to_nat i)) as [v|] eqn:E; [|apply nth_error_None in E; lia].
    exists v. split; [reflexivity|]. eapply nth_error_In; eauto.
  - replace ((- Z.of_nat (length l) <=? i) && (i <? 0)) with true by lia.
    destruct (nth_error l (Z.to_nat (i + Z.of_nat (length l)))) as [v|] eqn:E; [|apply nth_error_None in E; lia].
    exists v. split; [reflexivity|]. eapply nth_error_In; eauto.
Qed.

Lemma py_nth_Some_range {X} (l : list X) i v : py_nth l i = Some v -> - zlen l <= i < zlen l.
Proof.
  unfold py_nth. destruct ((0 <=? i) && (i <? zlen l)) eqn:E1; [lia|].
  destruct ((- zlen l <=? i) && (i <? 0)) eqn:E2; [lia|discriminate].
Qed.

(* ================= TemplateModel.get_waveforms ================= *)
Section RouteProofs.
Context {A : Type}.
Variable zero : A.

Definition route_chans (nch : Z) (channel_ids : option (list Z)) : list Z :=
  match channel_ids with Some l => l | None => zrange 0 (Z.to_nat nch) end.

(* channel_ids=None means all the model's channels *)
Lemma all_channels_ok c : chans_ok c (zrange 0 (Z.to_nat c)).
Proof.
  unfold chans_ok. apply Forall_forall. intros ch Hch. apply zrange_ge in Hch. lia.
Qed.

(* (a) raw data, no store: spike_samples[spike_ids] (NumPy indexing, negative ids wrap), then one window
   per queried spike, in query order *)
Theorem route_raw c (data : list (list A)) samples n nch q_ids channel_ids :
  rect c data -> 1 <= c -> 1 <= n ->
  Forall (fun s => 0 <= s < zlen data) samples ->
  Forall (fun i => - zlen samples <= i < zlen samples) q_ids ->
  chans_ok c (route_chans nch channel_ids) ->
  exists ss, Forall2 (fun i s => py_nth samples i = Some s) q_ids ss /\
    model_get_waveforms zero (Some data) None samples n nch q_ids channel_ids =
    GwOut (map (fun s => window zero data s n (route_chans nch channel_ids)) ss).
Proof.
  intros Hr Hc Hn Hs Hq Hch. rewrite Forall_forall in Hq.
  destruct (mapM_Some_total (py_nth samples) q_ids) as (ss & Hss).
  { intros i Hi. destruct (py_nth_range samples i (Hq i Hi)) as (v & Hv & _). eauto. }
  pose proof (mapM_Forall2 _ _ _ Hss) as HF. exists ss. split; [exact HF|].
  unfold model_get_waveforms, gw_raw. fold (route_chans nch channel_ids). rewrite Hss.
  rewrite (extract_waveforms_windows zero c data ss n _ Hr Hc Hch Hn); [reflexivity|].
  apply Forall_forall. intros s Hin. rewrite Forall_forall in Hs. apply Hs.
  clear -HF Hin. induction HF as [|i s' l l' Hi HF IH]; [destruct Hin|].
  destruct Hin as [->|Hin]; [|now apply IH].
  unfold py_nth in Hi. destruct ((0 <=? i) && (i <? zlen samples)).
  - eapply nth_error_In; eauto.
  - destruct ((- zlen samples <=? i) && (i <? 0)); [eapply nth_error_In; eauto|discriminate].
Qed.

(* (d) neither raw data nor a store: None *)
Theorem route_none samples n nch q_ids channel_ids :
  model_get_waveforms zero None None samples n nch q_ids channel_ids = GwNone.
Proof. reflexivity. Qed.

(* (c) a store that does not hold every queried id (or an empty channel list): the AssertionError is
   caught and the raw route is taken; without raw data that fails *)
Theorem route_fallback (data : list (list A)) st samples n nch q_ids channel_ids :
  gsw_asserts q_ids (route_chans nch channel_ids) st n = false ->
  model_get_waveforms zero (Some data) (Some st) samples n nch q_ids channel_ids =
  model_get_waveforms zero (Some data) None samples n nch q_ids channel_ids /\
  model_get_waveforms zero None (Some st) samples n nch q_ids channel_ids = GwError.
Proof.
  intros H. unfold model_get_waveforms. fold (route_chans nch channel_ids). rewrite H. split; [reflexivity|].
  unfold gw_raw. destruct (mapM (py_nth samples) q_ids); reflexivity.
Qed.

Lemma gsw_asserts_missing q_ids q_ch (st : store (A := A)) n x :
  In x q_ids -> ~ In x (st_ids st) -> gsw_asserts q_ids q_ch st n = false.
Proof.
  intros Hx Hn. unfold gsw_asserts.
  destruct (forallb (fun x0 => memZ x0 (st_ids st)) q_ids) eqn:E; [|reflexivity].
  exfalso. rewrite forallb_forall in E. apply Hn. apply memZ_In. now apply E.
Qed.

Theorem route_fallback_missing (data : list (list A)) (st : store) samples n nch q_ids channel_ids x :
  In x q_ids -> ~ In x (st_ids st) ->
  model_get_waveforms zero (Some data) (Some st) samples n nch q_ids channel_ids =
  model_get_waveforms zero (Some data) None samples n nch q_ids channel_ids /\
  model_get_waveforms zero None (Some st) samples n nch q_ids channel_ids = GwError /\
  model_get_waveforms zero None None samples n nch q_ids channel_ids = GwNone.
Proof.
  intros Hx Hn.
  destruct (route_fallback data st samples n nch q_ids channel_ids
              (gsw_asserts_missing q_ids _ st n x Hx Hn)) as [H1 H2].
  split; [exact H1|]. split; [exact H2|]. reflexivity.
Qed.

Variable scale : A -> A.

(* (b) a store holding every queried id: the store look-up is returned, whether raw data exist or not *)
Theorem route_store c (data : list (list A)) traces samples n nch spikes ids q_ids q_ch :
  1 <= n -> Forall (fun sp => chans_ok c (sp_ch sp)) spikes ->
  Forall (fun x => 0 <= x) ids -> zlen ids = zlen spikes ->
  Forall (fun x => In x ids) q_ids -> q_ch <> [] -> Forall (fun ch => -1 <= ch) q_ch ->
  exists sps, Forall2 (refers ids spikes) q_ids sps /\
    model_get_waveforms zero traces
      (Some (mkstore ids (map sp_ch spikes) (scaled_windows zero scale data n spikes)))
      samples n nch q_ids (Some q_ch) =
    GwOut (map (fun sp => lookup_window zero scale data n sp q_ch) sps).
Proof.
  intros Hn Hok Hids Hlen Hq Hne Hqc.
  destruct (store_lookup zero scale c data n spikes ids q_ids q_ch Hn Hok Hids Hlen Hq Hne Hqc) as (sps & H1 & H2).
  exists sps. split; [exact H1|].
  assert (Has : gsw_asserts q_ids q_ch (mkstore ids (map sp_ch spikes) (scaled_windows zero scale data n spikes)) n = true).
  { unfold gsw_asserts. cbn [st_ids]. rewrite Forall_forall in Hq.
    replace (forallb (fun x => memZ x ids) q_ids) with true.
    2:{ symmetry. apply forallb_forall. intros x Hx. apply memZ_In. now apply Hq. }
    destruct q_ch; [contradiction|]. unfold zlen. cbn [length]. lia. }
  unfold model_get_waveforms. destruct traces; rewrite Has, H2; reflexivity.
Qed.
End RouteProofs.

(* (e) both routes give the window: a store exported with unit factor 1 that describes the model's own
   spikes, queried on distinct channels all stored for the queried spikes, answers exactly what the raw
   route answers *)
Theorem route_agree {A} (zero : A) c (data : list (list A)) samples n nch spikes ids q_ids q_ch :
  rect c data -> 1 <= c -> 1 <= n ->
  Forall (fun s => 0 <= s < zlen data) samples ->
  Forall (fun sp => chans_ok c (sp_ch sp)) spikes ->
  Forall (fun x => 0 <= x) ids ->
  Forall2 (fun id sp => py_nth samples id = Some (sp_s sp)) ids spikes ->
  Forall (fun x => In x ids) q_ids -> q_ch <> [] -> chans_ok c q_ch -> NoDup q_ch ->
  (forall sp ch, In sp spikes -> In ch q_ch -> In ch (sp_ch sp)) ->
  exists ss, Forall2 (fun i s => py_nth samples i = Some s) q_ids ss /\
    model_get_waveforms zero (Some data)
      (Some (mkstore ids (map sp_ch spikes) (scaled_windows zero (fun a => a) data n spikes)))
      samples n nch q_ids (Some q_ch) = GwOut (map (fun s => window zero data s n q_ch) ss) /\
    model_get_waveforms zero (Some data) None samples n nch q_ids (Some q_ch) =
      GwOut (map (fun s => window zero data s n q_ch) ss).
Proof.
  intros Hr Hc Hn Hs Hok Hids HF Hq Hne Hqc Hnd Hstored.
  assert (Hlen : zlen ids = zlen spikes).
  { unfold zlen. f_equal. clear -HF. induction HF; cbn [length]; auto. }
  assert (Hidx : Forall (fun i => - zlen samples <= i < zlen samples) q_ids).
  { rewrite Forall_forall in *. intros x Hx. specialize (Hq x Hx).
    apply In_nth_error in Hq as (p & Hp).
    destruct (nth_error spikes p) as [sp|] eqn:Esp.
    - pose proof (Forall2_nth_error _ _ _ _ _ _ HF Hp Esp) as H. now apply py_nth_Some_range in H.
    - apply nth_error_None in Esp. assert (p < length ids)%nat by (apply nth_error_Some; congruence).
      unfold zlen in Hlen. lia. }
  destruct (route_raw zero c data samples n nch q_ids (Some q_ch) Hr Hc Hn Hs Hidx Hqc) as (ss & Hss & Hraw).
  assert (Hqc' : Forall (fun ch => -1 <= ch) q_ch).
  { unfold chans_ok in Hqc. eapply Forall_impl; [|exact Hqc]. cbv beta. intros; lia. }
  destruct (route_store zero (fun a => a) c data (Some data) samples n nch spikes ids q_ids q_ch
              Hn Hok Hids Hlen Hq Hne Hqc') as (sps & Hsps & Hst).
  exists ss. split; [exact Hss|]. split; [|exact Hraw]. rewrite Hst. f_equal.
  apply (Forall2_two_maps (refers ids spikes) (fun i s => py_nth samples i = Some s) _ _ q_ids); auto.
  intros x sp s (p & Hp & _ & Hsp) Hx.
  pose proof (Forall2_nth_error _ _ _ _ _ _ HF Hp Hsp) as H. cbv beta in H.
  assert (sp_s sp = s) by congruence. subst s.
  rewrite (lookup_window_full zero (fun a => a) data n sp q_ch Hnd).
  - rewrite <- (map_id (window zero data (sp_s sp) n q_ch)) at 2. apply map_ext. intros row. apply map_id.
  - intros ch Hch. apply (Hstored sp ch); [eapply nth_error_In; eauto|exact Hch].
Qed.

(* ================= the look-up meets the declarative clause ================= *)
Lemma Forall2_map_both {X Y X' Y'} (R : X -> Y -> Prop) (R' : X' -> Y' -> Prop) (f : X -> X') (g : Y -> Y') l1 l2 :
  (forall a b, R a b -> R' (f a) (g b)) -> Forall2 R l1 l2 -> Forall2 R' (map f l1) (map g l2).
Proof. intros H. induction 1; cbn [map]; constructor; auto. Qed.

(* Spec (model input): in the regime where the property claims the look-up (queried channels other than -1
   distinct, 0 x factor = 0) the model's answer satisfies Store_Spec at the positions [lpz ids x] (the last
   occurrence of each queried id) *)
Theorem store_meets_spec {A} (zero : A) (scale : A -> A) c (data : list (list A)) n spikes ids q_ids q_ch :
  rect c data -> 1 <= n -> Forall (fun sp => chans_ok c (sp_ch sp)) spikes ->
  Forall (fun x => 0 <= x) ids -> zlen ids = zlen spikes ->
  Forall (fun x => In x ids) q_ids -> q_ch <> [] -> chans_ok c q_ch -> distinct_real q_ch -> scale zero = zero ->
  exists out,
    get_spike_waveforms zero q_ids q_ch
      (mkstore ids (map sp_ch spikes) (scaled_windows zero scale data n spikes)) n = Some out /\
    Store_Spec zero scale data n spikes (map (lpz ids) q_ids) q_ch out.
Proof.
  intros Hr Hn Hok Hids Hlen Hq Hne Hqc Hd Hz.
  assert (Hqc' : Forall (fun ch => -1 <= ch) q_ch).
  { unfold chans_ok in Hqc. eapply Forall_impl; [|exact Hqc]. cbv beta. intros; lia. }
  destruct (store_lookup zero scale c data n spikes ids q_ids q_ch Hn Hok Hids Hlen Hq Hne Hqc') as (sps & H1 & H2).
  eexists. split; [exact H2|]. unfold Store_Spec.
  eapply Forall2_map_both; [|exact H1]. cbv beta.
  intros x sp (p & Hp & Hlast & Hsp).
  exists sp, (window zero data (sp_s sp) n q_ch). split; [|split].
  - unfold lpz. rewrite (last_pos_of_nth ids p x Hp Hlast). now rewrite Nat2Z.id.
  - apply (window_meets_spec zero c); auto. lia.
  - rewrite (lookup_window_masked zero scale data n sp q_ch Hz Hd). apply masked_window_as_mask.
Qed.

(* ================= soundness of the comparator's boolean clauses ================= *)
Section Sound.
Variable scale : Z -> Z.

Theorem checker_sound c (data : list (list Z)) samples n chans spikes q_pos q_ch nc shape
                      (obs : list (list (list Z))) :
  rect c data -> 0 <= n ->
  (extract_spec_b data samples n chans obs = true -> chans_ok c chans ->
     Extract_Spec 0 data samples n chans obs) /\
  (export_shape_b spikes n nc shape = true -> shape = [zlen spikes; n; nc]) /\
  (export_spec_b scale data n spikes obs = true -> Forall (fun sp => chans_ok c (sp_ch sp)) spikes ->
     Export_Spec 0 scale data n spikes obs) /\
  (store_spec_b scale data n spikes q_pos q_ch obs = true -> chans_ok c q_ch ->
     Store_Spec 0 scale data n spikes q_pos q_ch obs).
Proof.
  intros Hr Hn. repeat split.
  - intros H Hok. unfold extract_spec_b in H. apply waves_eqb_eq in H. subst obs.
    unfold Extract_Spec. apply Forall2_map_same. intros s _. now apply (window_meets_spec 0 c).
  - intros H. unfold export_shape_b in H. apply (list_eqb_eq Z.eqb Z.eqb_eq) in H. exact H.
  - intros H Hok. unfold export_spec_b in H. apply waves_eqb_eq in H. subst obs.
    unfold Export_Spec, scaled_windows. apply Forall2_map_same. intros sp Hsp.
    exists (spike_window 0 data n sp). split; [|reflexivity].
    rewrite Forall_forall in Hok. unfold spike_window. now apply (window_meets_spec 0 c); auto.
  - intros H Hok. unfold store_spec_b in H.
    destruct (mapM (fun p => nth_error spikes (Z.to_nat p)) q_pos) as [sps|] eqn:E; [|discriminate].
    apply waves_eqb_eq in H. subst obs. apply mapM_Forall2 in E.
    unfold Store_Spec. eapply Forall2_map_right; [|exact E]. cbv beta. intros p sp Hp.
    exists sp, (window 0 data (sp_s sp) n q_ch). split; [exact Hp|]. split.
    + now apply (window_meets_spec 0 c).
    + apply masked_window_as_mask.
Qed.
End Sound.
