(* C03/Proofs.v -- the model meets the specification, for every input (part 1: direct extraction,
   chunk-by-chunk iteration, export + np.load). *)
From Coq Require Import ZArith List Lia Bool ZifyBool.
From PV Require Import Base.PySlice Base.NpSearch Base.NpList C16.Model C16.Spec C16.Proofs C03.Model C03.Spec.
Import ListNotations.
Open Scope Z_scope.

(* ================= generic list facts ================= *)
Lemma mapM_Some_map {X Y} (f : X -> option Y) (g : X -> Y) l :
  (forall x, In x l -> f x = Some (g x)) -> mapM f l = Some (map g l).
Proof.
  induction l as [|x r IH]; intros H; cbn [mapM map]; [reflexivity|].
  rewrite (H x (or_introl eq_refl)), IH; [reflexivity|]. intros y Hy. apply H. now right.
Qed.

Lemma mapM_app {X Y} (f : X -> option Y) l1 l2 r1 r2 :
  mapM f l1 = Some r1 -> mapM f l2 = Some r2 -> mapM f (l1 ++ l2) = Some (r1 ++ r2).
Proof.
  revert r1; induction l1 as [|x l1 IH]; intros r1 H1 H2; cbn [mapM app] in *.
  - injection H1 as <-. exact H2.
  - destruct (f x) as [y|]; [|discriminate]. destruct (mapM f l1) as [ys|]; [|discriminate].
    injection H1 as <-. now rewrite (IH ys eq_refl H2).
Qed.

Lemma map_const_repeat {X Y} (f : X -> Y) (v : Y) l :
  (forall x, In x l -> f x = v) -> map f l = repeat v (length l).
Proof.
  induction l as [|x r IH]; intros H; cbn [map length repeat]; [reflexivity|].
  rewrite (H x (or_introl eq_refl)), IH; [reflexivity|]. intros y Hy. apply H. now right.
Qed.

Lemma slice_as_map {X} (l : list X) (d : X) i j : 0 <= i <= j -> j <= zlen l ->
  slice l i j = map (fun t => nth (Z.to_nat t) l d) (zrange i (Z.to_nat (j - i))).
Proof.
  unfold zlen, slice. intros Hij Hj.
  replace (Z.to_nat j - Z.to_nat i)%nat with (Z.to_nat (j - i)) by lia.
  remember (Z.to_nat (j - i)) as k eqn:Ek.
  assert (Hk : (Z.to_nat i + k <= length l)%nat) by lia. clear Ek Hj.
  assert (Hi : 0 <= i) by lia. clear Hij. revert i Hi Hk.
  induction k as [|k IH]; intros i Hi Hk; cbn [zrange map]; [apply firstn_O|].
  destruct (skipn (Z.to_nat i) l) as [|x r] eqn:Es.
  { pose proof (skipn_length (Z.to_nat i) l) as Hl. rewrite Es in Hl. cbn [length] in Hl. lia. }
  cbn [firstn]. f_equal.
  - pose proof (nth_skipn_0 := @app_nth2 X (firstn (Z.to_nat i) l) (skipn (Z.to_nat i) l) d (Z.to_nat i)).
    rewrite firstn_skipn in nth_skipn_0. rewrite nth_skipn_0 by (rewrite firstn_length; lia).
    rewrite firstn_length, Es. replace (Z.to_nat i - Nat.min (Z.to_nat i) (length l))%nat with 0%nat by lia.
    reflexivity.
  - rewrite <- (IH (i + 1)) by lia. f_equal.
    replace (Z.to_nat (i + 1)) with (Z.to_nat i + 1)%nat by lia.
    rewrite <- skipn_skipn'. rewrite Es. reflexivity.
Qed.

(* ================= direct extraction ================= *)
Section Extract.
Context {A : Type}.
Variable zero : A.

(* the defaults inside [cell] are never reached on a rectangular recording *)
Lemma cell_inside (data : list (list A)) c t ch : rect c data -> 0 <= t < zlen data -> 0 <= ch < c ->
  exists row, nth_error data (Z.to_nat t) = Some row /\
              nth_error row (Z.to_nat ch) = Some (cell zero data t ch).
Proof.
  intros Hr Ht Hc. unfold zlen in Ht.
  exists (nth (Z.to_nat t) data []). split; [apply nth_error_nth'; lia|].
  assert (Hrow : zlen (nth (Z.to_nat t) data []) = c).
  { unfold rect in Hr. rewrite Forall_forall in Hr. apply Hr. apply nth_In. lia. }
  unfold cell. unfold zlen.
  replace ((t <? 0) || (Z.of_nat (length data) <=? t) || (ch =? -1)) with false by lia.
  apply nth_error_nth'. unfold zlen in Hrow. lia.
Qed.

(* one row: fancy column selection then zeroing of the -1 columns *)
Lemma row_select c (row : list A) chans : zlen row = c -> 1 <= c -> chans_ok c chans ->
  exists vals, take_cols chans row = Some vals /\
    zero_neg1 zero chans vals =
      map (fun ch => if ch =? -1 then zero else nth (Z.to_nat ch) row zero) chans.
Proof.
  intros Hrow Hc. unfold chans_ok, take_cols. induction chans as [|ch r IH]; intros Hok.
  - exists []. split; reflexivity.
  - inversion Hok as [|? ? Hch Hr]; subst. destruct (IH Hr) as (vals & Hv & Hz).
    cbn [mapM]. unfold py_col at 1. unfold zlen in *.
    destruct ((0 <=? ch) && (ch <? Z.of_nat (length row))) eqn:E1.
    + rewrite (nth_error_nth' row zero) by lia. rewrite Hv.
      eexists. split; [reflexivity|]. unfold zero_neg1 in *. cbn [combine map fst snd]. rewrite Hz.
      reflexivity.
    + assert (ch = -1) as -> by lia.
      replace ((- Z.of_nat (length row) <=? -1) && (-1 <? 0)) with true by lia.
      rewrite (nth_error_nth' row zero) by lia. rewrite Hv.
      eexists. split; [reflexivity|]. unfold zero_neg1 in *. cbn [combine map fst snd]. rewrite Hz.
      reflexivity.
Qed.

(* the rows read from the recording *)
Lemma middle_rows c (data : list (list A)) chans i j :
  rect c data -> 1 <= c -> chans_ok c chans -> 0 <= i <= j -> j <= zlen data ->
  option_map (map (zero_neg1 zero chans)) (mapM (take_cols chans) (slice data i j)) =
  Some (map (fun t => map (cell zero data t) chans) (zrange i (Z.to_nat (j - i)))).
Proof.
  intros Hr Hc Hok Hij Hj. rewrite (slice_as_map data [] i j Hij Hj).
  remember (zrange i (Z.to_nat (j - i))) as ts eqn:Ets.
  assert (Hts : forall t, In t ts -> 0 <= t < zlen data).
  { intros t Ht. subst ts. apply zrange_ge in Ht. lia. }
  clear Ets. induction ts as [|t ts IH]; [reflexivity|].
  cbn [map mapM].
  assert (Ht : 0 <= t < zlen data) by (apply Hts; now left).
  assert (Hrow : zlen (nth (Z.to_nat t) data []) = c).
  { unfold rect in Hr. rewrite Forall_forall in Hr. apply Hr. apply nth_In. unfold zlen in Ht. lia. }
  destruct (row_select c _ chans Hrow Hc Hok) as (vals & Hv & Hz). rewrite Hv.
  specialize (IH (fun t' Ht' => Hts t' (or_intror Ht'))).
  destruct (mapM (take_cols chans) (map (fun t0 => nth (Z.to_nat t0) data []) ts)) as [ws|];
    cbn [option_map] in *; [|discriminate].
  injection IH as IH. cbn [map]. rewrite IH, Hz. do 2 f_equal.
  apply map_ext_in. intros ch Hch. unfold cell.
  destruct (ch =? -1) eqn:E.
  - now rewrite orb_true_r.
  - replace ((t <? 0) || (zlen data <=? t)) with false by lia. reflexivity.
Qed.

(* rows outside the recording are zero rows *)
Lemma outside_rows (data : list (list A)) chans a k :
  (forall t, a <= t < a + Z.of_nat k -> t < 0 \/ zlen data <= t) ->
  map (fun t => map (cell zero data t) chans) (zrange a k) =
  repeat (repeat zero (Z.to_nat (zlen chans))) k.
Proof.
  intros H.
  replace (repeat (repeat zero (Z.to_nat (zlen chans))) k)
    with (repeat (repeat zero (Z.to_nat (zlen chans))) (length (zrange a k))) by (now rewrite zrange_length).
  apply map_const_repeat.
  intros t Ht. apply zrange_ge in Ht.
  replace (Z.to_nat (zlen chans)) with (length chans) by (unfold zlen; lia).
  apply map_const_repeat. intros ch _. unfold cell.
  destruct (H t Ht); [replace (t <? 0) with true by lia|replace (zlen data <=? t) with true by lia];
    now rewrite ?orb_true_r.
Qed.

Theorem extract_window c (data : list (list A)) s n chans :
  rect c data -> 1 <= c -> chans_ok c chans -> 0 <= s < zlen data -> 1 <= n ->
  extract zero data s n chans = Some (window zero data s n chans).
Proof.
  intros Hr Hc Hok Hs Hn. unfold extract, window.
  replace (negb (0 <? n)) with false by lia. replace (s <? 0) with false by lia.
  assert (Ha : 0 <= n / 2 < n).
  { split; [apply Z.div_pos; lia|apply Z.div_lt_upper_bound; lia]. }
  set (a := n / 2) in *. set (dur := zlen data) in *.
  set (t0 := s - a). set (t1 := s + (n - a)).
  set (lo_ := Z.max 0 t0). set (hi_ := Z.min t1 dur).
  (* the slice only sees rows below dur *)
  assert (Hsl : slice data lo_ t1 = slice data lo_ hi_).
  { unfold slice. subst hi_ lo_ dur. unfold zlen.
    destruct (Z.le_gt_cases t1 (Z.of_nat (length data))); [now rewrite Z.min_l by lia|].
    rewrite Z.min_r by lia. rewrite !firstn_all2; [reflexivity| |]; rewrite skipn_length; lia. }
  rewrite Hsl.
  pose proof (middle_rows c data chans lo_ hi_ Hr Hc Hok ltac:(subst lo_ hi_ t0 t1; lia)
                ltac:(subst hi_; fold dur; lia)) as Hmid.
  destruct (mapM (take_cols chans) (slice data lo_ hi_)) as [w0|]; cbn [option_map] in Hmid; [|discriminate].
  injection Hmid as Hmid. rewrite Hmid.
  set (rowf := fun t => map (cell zero data t) chans) in *.
  set (zrow := repeat zero (Z.to_nat (zlen chans))).
  (* split the window's rows in three ranges *)
  assert (Hsplit : zrange t0 (Z.to_nat n) =
            zrange t0 (Z.to_nat (lo_ - t0)) ++ zrange lo_ (Z.to_nat (hi_ - lo_)) ++
            zrange hi_ (Z.to_nat (t1 - hi_))).
  { replace (Z.to_nat n) with (Z.to_nat (lo_ - t0) + (Z.to_nat (hi_ - lo_) + Z.to_nat (t1 - hi_)))%nat
      by (subst lo_ hi_ t0 t1; lia).
    rewrite !zrange_app.
    replace (t0 + Z.of_nat (Z.to_nat (lo_ - t0))) with lo_ by (subst lo_ hi_ t0 t1; lia).
    replace (lo_ + Z.of_nat (Z.to_nat (hi_ - lo_))) with hi_ by (subst lo_ hi_ t0 t1; lia).
    reflexivity. }
  assert (Htop : map rowf (zrange t0 (Z.to_nat (lo_ - t0))) = repeat zrow (Z.to_nat (lo_ - t0))).
  { apply outside_rows. intros t Ht. left. subst lo_ t0. lia. }
  assert (Hbot : map rowf (zrange hi_ (Z.to_nat (t1 - hi_))) = repeat zrow (Z.to_nat (t1 - hi_))).
  { apply outside_rows. intros t Ht. right. fold dur. subst hi_ t1. lia. }
  fold t0. rewrite Hsplit, !map_app, Htop, Hbot.
  set (mid := map rowf (zrange lo_ (Z.to_nat (hi_ - lo_)))).
  assert (Hmidlen : zlen mid = hi_ - lo_).
  { unfold mid, zlen. rewrite map_length, zrange_length. subst lo_ hi_ t0 t1. lia. }
  (* top padding *)
  assert (Htopeq : (if t0 <? 0 then option_map (fun z => z ++ mid) (zeros_opt zero (- t0) (zlen chans))
                    else Some mid) = Some (repeat zrow (Z.to_nat (lo_ - t0)) ++ mid)).
  { destruct (t0 <? 0) eqn:E.
    - unfold zeros_opt. replace (- t0 <? 0) with false by lia. cbn [option_map].
      do 3 f_equal. subst lo_. lia.
    - replace (Z.to_nat (lo_ - t0)) with 0%nat by (subst lo_; lia). reflexivity. }
  rewrite Htopeq.
  set (w2 := repeat zrow (Z.to_nat (lo_ - t0)) ++ mid).
  assert (Hw2len : zlen w2 = hi_ - t0).
  { unfold w2, zlen. rewrite app_length, repeat_length. unfold zlen in Hmidlen. subst lo_. lia. }
  assert (Hboteq : (if dur <? t1 then option_map (fun z => w2 ++ z) (zeros_opt zero (n - zlen w2) (zlen chans))
                    else Some w2) = Some (w2 ++ repeat zrow (Z.to_nat (t1 - hi_)))).
  { destruct (dur <? t1) eqn:E.
    - unfold zeros_opt. rewrite Hw2len. replace (n - (hi_ - t0) <? 0) with false by (subst hi_ t0 t1; lia).
      cbn [option_map]. do 3 f_equal. subst hi_ t0 t1. lia.
    - replace (Z.to_nat (t1 - hi_)) with 0%nat by (subst hi_; lia). cbn [repeat]. now rewrite app_nil_r. }
  rewrite Hboteq.
  replace (zlen (w2 ++ repeat zrow (Z.to_nat (t1 - hi_))) =? n) with true.
  2:{ symmetry. apply Z.eqb_eq. unfold zlen. rewrite app_length, repeat_length.
      unfold zlen in Hw2len. subst hi_ t0 t1. lia. }
  unfold w2. now rewrite <- app_assoc.
Qed.

Corollary extract_waveforms_windows c (data : list (list A)) samples n chans :
  rect c data -> 1 <= c -> chans_ok c chans -> 1 <= n ->
  Forall (fun s => 0 <= s < zlen data) samples ->
  extract_waveforms zero data samples n chans = Some (map (fun s => window zero data s n chans) samples).
Proof.
  intros Hr Hc Hok Hn Hs. unfold extract_waveforms. replace (negb (0 <? n)) with false by lia.
  apply mapM_Some_map. intros s Hin. rewrite Forall_forall in Hs.
  apply (extract_window c); auto.
Qed.
End Extract.

(* ================= chunk-by-chunk iteration ================= *)
Lemma in_chunk_spec c s : in_chunk c s = (lo c <=? s) && (s <? hi c) || false.
Proof.
  unfold in_chunk. cbn [ssr]. destruct (lo c <=? s) eqn:E1; destruct (hi c <=? s) eqn:E2; lia.
Qed.

Lemma sorted_all_ge x l : sortedZ (x :: l) -> forall y, In y l -> x <= y.
Proof.
  revert x; induction l as [|z l IH]; intros x Hs y Hy; [destruct Hy|].
  inversion Hs as [| |? ? ? Hxz Hs']; subst. destruct Hy as [<-|Hy]; [lia|].
  specialize (IH z Hs' y Hy). lia.
Qed.

Definition in_range (a b : Z) (sp : spike) : bool := (a <=? sp_s sp) && (sp_s sp <? b).

Lemma filter_none_above b a spikes :
  (forall sp, In sp spikes -> b <= sp_s sp) -> filter (in_range a b) spikes = [].
Proof.
  induction spikes as [|x r IH]; intros H; [reflexivity|]. cbn [filter].
  unfold in_range at 1. pose proof (H x (or_introl eq_refl)).
  replace ((a <=? sp_s x) && (sp_s x <? b)) with false by lia.
  apply IH. intros sp Hsp. apply H. now right.
Qed.

Lemma filter_range_empty a b spikes : b <= a -> filter (in_range a b) spikes = [].
Proof.
  intros H. induction spikes as [|x r IH]; [reflexivity|]. cbn [filter]. unfold in_range at 1.
  replace ((a <=? sp_s x) && (sp_s x <? b)) with false by lia. exact IH.
Qed.

(* consecutive ranges split a sorted spike list without reordering *)
Lemma filter_range_split a b c spikes : a <= b <= c -> sortedZ (map sp_s spikes) ->
  filter (in_range a b) spikes ++ filter (in_range b c) spikes = filter (in_range a c) spikes.
Proof.
  intros Habc. induction spikes as [|x r IH]; intros Hs; [reflexivity|].
  cbn [map] in Hs. pose proof (sorted_tail _ _ Hs) as Hs'. specialize (IH Hs').
  cbn [filter]. unfold in_range at 1 4 7.
  destruct ((a <=? sp_s x) && (sp_s x <? b)) eqn:E1; destruct ((b <=? sp_s x) && (sp_s x <? c)) eqn:E2;
    destruct ((a <=? sp_s x) && (sp_s x <? c)) eqn:E3; try lia.
  - cbn [app]. now rewrite IH.
  - assert (Hnone : filter (in_range a b) r = []).
    { apply filter_none_above. intros sp Hsp.
      pose proof (sorted_all_ge _ _ Hs (sp_s sp) (in_map sp_s _ _ Hsp)). lia. }
    rewrite Hnone in *. cbn [app] in *. now rewrite IH.
  - exact IH.
Qed.

Lemma filter_ext_in' {X} (f g : X -> bool) l : (forall x, In x l -> f x = g x) -> filter f l = filter g l.
Proof.
  induction l as [|x r IH]; intros H; [reflexivity|]. cbn [filter].
  rewrite (H x (or_introl eq_refl)), IH; [reflexivity|]. intros y Hy. apply H. now right.
Qed.

Section Iter.
Context {A : Type}.
Variable zero : A.

Lemma iter_wave_linked c (data : list (list A)) n nc spikes :
  rect c data -> 1 <= c -> 1 <= n -> spikes_ok (zlen data) c nc spikes ->
  forall chunks start stop, linked start (filter nonempty chunks) = Some stop ->
  exists batches, iter_wave zero data n chunks spikes = Some batches /\
    concat batches = map (spike_window zero data n) (filter (in_range start stop) spikes) /\
    Forall (fun b => b <> []) batches.
Proof.
  intros Hr Hc Hn [Hsort Hok]. induction chunks as [|ch rest IH]; intros start stop Hl.
  - cbn [filter linked] in Hl. injection Hl as <-. exists []. split; [reflexivity|]. split; [|constructor].
    rewrite filter_range_empty by lia. reflexivity.
  - cbn [iter_wave].
    assert (Hfe : filter (fun sp => in_chunk ch (sp_s sp)) spikes = filter (in_range (lo ch) (hi ch)) spikes).
    { apply filter_ext_in'. intros sp _. rewrite in_chunk_spec. unfold in_range. now rewrite orb_false_r. }
    rewrite Hfe. cbn [filter] in Hl. unfold nonempty at 1 in Hl.
    destruct (lo ch <? hi ch) eqn:Ene.
    + cbn [linked] in Hl. destruct ((lo ch =? start) && (lo ch <=? hi ch)) eqn:E; [|discriminate].
      pose proof (linked_mono _ _ _ Hl) as Hm.
      destruct (IH (hi ch) stop Hl) as (bs & Hbs & Hcat & Hne).
      assert (Hsplit := filter_range_split start (hi ch) stop spikes ltac:(lia) Hsort).
      replace (lo ch) with start in * by lia.
      set (ss := filter (in_range start (hi ch)) spikes) in *.
      assert (Hmap : mapM (fun sp => extract zero data (sp_s sp) n (sp_ch sp)) ss =
                     Some (map (spike_window zero data n) ss)).
      { apply mapM_Some_map. intros sp Hsp. unfold ss in Hsp. apply filter_In in Hsp as [Hsp _].
        rewrite Forall_forall in Hok. destruct (Hok sp Hsp) as (H1 & H2 & _).
        unfold spike_window. now apply (extract_window zero c). }
      destruct ss as [|sp0 ss'] eqn:Ess.
      * exists bs. split; [exact Hbs|]. split; [|exact Hne]. rewrite Hcat. now rewrite <- Hsplit.
      * rewrite Hmap, Hbs. eexists. split; [reflexivity|]. split.
        -- cbn [concat]. rewrite Hcat, <- Hsplit, map_app. reflexivity.
        -- constructor; [discriminate|exact Hne].
    + (* an empty (or reversed) interval holds no spike *)
      assert (Hnone : filter (in_range (lo ch) (hi ch)) spikes = []).
      { apply filter_range_empty. lia. }
      rewrite Hnone. apply IH. exact Hl.
Qed.

(* C03_iter: over any chunking whose non-empty intervals tile the recording, every spike is
   extracted exactly once, in spike order, and what is extracted is its window *)
Theorem iter_wave_windows c (data : list (list A)) n nc chunks spikes :
  rect c data -> 1 <= c -> 1 <= n -> spikes_ok (zlen data) c nc spikes -> Tiles (zlen data) chunks ->
  exists batches, iter_wave zero data n chunks spikes = Some batches /\
    concat batches = map (spike_window zero data n) spikes /\
    Forall (fun b => b <> []) batches.
Proof.
  intros Hr Hc Hn Hsp Ht. destruct (iter_wave_linked c data n nc spikes Hr Hc Hn Hsp chunks 0 (zlen data) Ht)
    as (bs & H1 & H2 & H3).
  exists bs. split; [exact H1|]. split; [|exact H3]. rewrite H2. f_equal.
  destruct Hsp as [_ Hok]. clear -Hok. induction spikes as [|x r IH]; [reflexivity|].
  inversion Hok as [|? ? Hx Hr]; subst. cbn [filter]. unfold in_range at 1.
  replace ((0 <=? sp_s x) && (sp_s x <? zlen data)) with true by lia. f_equal. now apply IH.
Qed.

(* the two real iterators, through C16's tiling theorems *)
Corollary iter_wave_flat c (data : list (list A)) n nc spikes sizes cs :
  rect c data -> 1 <= c -> 1 <= n -> spikes_ok (zlen data) c nc spikes ->
  sizes <> [] -> (forall x, In x sizes -> 0 <= x) -> 1 <= cs -> zsum sizes = zlen data ->
  exists b batches, get_chunk_bounds sizes cs = Some b /\
    iter_wave zero data n (iter_base b) spikes = Some batches /\
    concat batches = map (spike_window zero data n) spikes.
Proof.
  intros Hr Hc Hn Hsp H1 H2 H3 Hsum.
  destruct (reader_bounds sizes cs H1 H2 H3) as (b & Hb & r & -> & Hch & Hl & _).
  assert (Ht : Tiles (zlen data) (iter_base (0 :: r))).
  { apply iter_base_tiles; [exists r, cs; split; [reflexivity|exact Hch]|]. now rewrite Hl. }
  destruct (iter_wave_windows c data n nc _ spikes Hr Hc Hn Hsp Ht) as (bs & Hbs & Hcat & _).
  exists (0 :: r), bs. auto.
Qed.

Corollary iter_wave_mtscomp c (data : list (list A)) n nc spikes cb bs :
  rect c data -> 1 <= c -> 1 <= n -> spikes_ok (zlen data) c nc spikes ->
  (exists r cs, cb = 0 :: r /\ chainP cs 0 r) -> 2 <= zlen cb -> last cb 0 = zlen data -> 1 <= bs ->
  exists l batches, iter_mtscomp cb bs = Some l /\
    iter_wave zero data n l spikes = Some batches /\
    concat batches = map (spike_window zero data n) spikes.
Proof.
  intros Hr Hc Hn Hsp H1 H2 H3 H4.
  destruct (iter_mtscomp_tiles cb bs (zlen data) H1 H2 H3 H4) as (l & Hl & Ht).
  destruct (iter_wave_windows c data n nc l spikes Hr Hc Hn Hsp Ht) as (b & Hb & Hcat & _).
  exists l, b. auto.
Qed.
End Iter.

(* ================= export + np.load ================= *)
Lemma concat_concat_map {X Y} (g : X -> list Y) (bs : list (list X)) :
  concat (map (fun b => concat (map g b)) bs) = concat (map g (concat bs)).
Proof.
  induction bs as [|b r IH]; [reflexivity|]. cbn [map concat]. now rewrite map_app, concat_app, IH.
Qed.

Lemma concat_length_const {X} (ll : list (list X)) k :
  Forall (fun x => length x = k) ll -> length (concat ll) = (length ll * k)%nat.
Proof.
  induction 1 as [|x r Hx Hr IH]; [reflexivity|]. cbn [concat length]. rewrite app_length, IH, Hx. lia.
Qed.

Section Reshape.
Context {A : Type}.
Lemma chunks_of_concat (ll : list (list A)) k :
  Forall (fun x => length x = k) ll -> chunks_of (length ll) k (concat ll) = ll.
Proof.
  induction 1 as [|x r Hx Hr IH]; [reflexivity|]. cbn [length chunks_of concat].
  rewrite firstn_app, skipn_app, Hx, Nat.sub_diag, firstn_all2, skipn_all2 by lia.
  cbn [firstn skipn app]. now rewrite app_nil_r, IH.
Qed.
End Reshape.

Section Export.
Context {A : Type}.
Variable zero : A.
Variable scale : A -> A.

Lemma window_shape (data : list (list A)) s n chans :
  length (window zero data s n chans) = Z.to_nat n /\
  Forall (fun row => length row = length chans) (window zero data s n chans).
Proof.
  unfold window. split; [now rewrite map_length, zrange_length|].
  apply Forall_forall. intros row Hrow. apply in_map_iff in Hrow as (t & <- & _). apply map_length.
Qed.

Lemma promote_declared k : promote F64 k = F64.
Proof. destruct k; reflexivity. Qed.

(* C03_export *)
Theorem export_load c (data : list (list A)) n nc chunks spikes k :
  rect c data -> 1 <= c -> 1 <= n -> 0 <= nc -> spikes_ok (zlen data) c nc spikes ->
  Tiles (zlen data) chunks ->
  exists f, export zero scale data n chunks spikes nc k = Some f /\
    npy_shape f = [zlen spikes; n; nc] /\ npy_pdtype f = npy_descr f /\
    np_load f = Some (scaled_windows zero scale data n spikes).
Proof.
  intros Hr Hc Hn Hnc Hsp Ht. unfold export.
  assert (Hrect : rectangular_b nc spikes = true).
  { unfold rectangular_b. apply forallb_forall. intros sp Hin. destruct Hsp as [_ Hok].
    rewrite Forall_forall in Hok. destruct (Hok sp Hin) as (_ & _ & H). lia. }
  rewrite Hrect. cbn [negb].
  destruct (iter_wave_windows zero c data n nc chunks spikes Hr Hc Hn Hsp Ht) as (bs & -> & Hcat & _).
  unfold batch_flat. rewrite (concat_concat_map (@concat A) bs), Hcat.
  set (Ws := map (spike_window zero data n) spikes).
  (* shapes *)
  assert (HWs : Forall (fun W => length W = Z.to_nat n /\ Forall (fun row => length row = Z.to_nat nc) W) Ws).
  { apply Forall_forall. intros W HW. unfold Ws in HW. apply in_map_iff in HW as (sp & <- & Hin).
    destruct Hsp as [_ Hok]. rewrite Forall_forall in Hok. destruct (Hok sp Hin) as (_ & _ & Hl).
    destruct (window_shape data (sp_s sp) n (sp_ch sp)) as [H1 H2]. split; [exact H1|].
    eapply Forall_impl; [|exact H2]. cbv beta. intros row Hrow. unfold zlen in Hl. lia. }
  assert (Hflat : Forall (fun x => length x = Z.to_nat (n * nc)) (map (@concat A) Ws)).
  { apply Forall_forall. intros x Hx. apply in_map_iff in Hx as (W & <- & HW).
    rewrite Forall_forall in HWs. destruct (HWs W HW) as [H1 H2].
    rewrite (concat_length_const W (Z.to_nat nc) H2), H1. lia. }
  assert (Hlen : zlen (map scale (concat (map (@concat A) Ws))) = zlen spikes * (n * nc)).
  { unfold zlen. rewrite map_length, (concat_length_const _ _ Hflat), map_length. unfold Ws.
    rewrite map_length. lia. }
  replace (zprod [zlen spikes; n; nc] =? zlen (map scale (concat (map (@concat A) Ws)))) with true.
  2:{ symmetry. apply Z.eqb_eq. rewrite Hlen. unfold zprod. cbn [fold_right]. lia. }
  eexists. split; [reflexivity|]. cbn [npy_shape npy_descr npy_pdtype npy_payload].
  split; [reflexivity|]. split; [apply promote_declared|].
  unfold np_load. cbn [npy_shape npy_descr npy_pdtype npy_payload]. rewrite promote_declared.
  cbn [dtype_eqb andb].
  replace ((zlen (map scale (concat (map (@concat A) Ws))) =? zlen spikes * n * nc) && (0 <=? zlen spikes)
           && (0 <=? n) && (0 <=? nc)) with true by (unfold zlen in *; lia).
  f_equal. unfold reshape3, scaled_windows.
  (* push scale inside, then undo the two flattenings *)
  rewrite concat_map, map_map.
  set (Ws' := map (fun sp => map (map scale) (spike_window zero data n sp)) spikes).
  assert (HWs' : map (fun W => map scale (concat W)) Ws = map (@concat A) Ws').
  { unfold Ws, Ws'. rewrite !map_map. apply map_ext. intros sp. now rewrite concat_map. }
  rewrite HWs'.
  assert (HW' : Forall (fun W => length W = Z.to_nat n /\ Forall (fun row => length row = Z.to_nat nc) W) Ws').
  { apply Forall_forall. intros W HW. unfold Ws' in HW. apply in_map_iff in HW as (sp & <- & Hin).
    rewrite Forall_forall in HWs. destruct (HWs (spike_window zero data n sp)) as [H1 H2].
    { unfold Ws. now apply in_map. }
    split; [now rewrite map_length|]. apply Forall_forall. intros row Hrow.
    apply in_map_iff in Hrow as (r0 & <- & Hr0). rewrite map_length. rewrite Forall_forall in H2. now apply H2. }
  assert (Hflat' : Forall (fun x => length x = Z.to_nat (n * nc)) (map (@concat A) Ws')).
  { apply Forall_forall. intros x Hx. apply in_map_iff in Hx as (W & <- & HW).
    rewrite Forall_forall in HW'. destruct (HW' W HW) as [H1 H2].
    rewrite (concat_length_const W (Z.to_nat nc) H2), H1. lia. }
  replace (Z.to_nat (zlen spikes)) with (length (map (@concat A) Ws')).
  2:{ unfold Ws', zlen. rewrite !map_length. lia. }
  rewrite (chunks_of_concat _ _ Hflat'), map_map.
  rewrite <- (map_id Ws') at 2. apply map_ext_in. intros W HW.
  rewrite Forall_forall in HW'. destruct (HW' W HW) as [H1 H2]. rewrite <- H1.
  now apply chunks_of_concat.
Qed.
End Export.

(* ================= the window, cell by cell, without defaults ================= *)
Section Meaning.
Context {A : Type}.
Variable zero : A.

Theorem window_meets_spec c (data : list (list A)) s n chans :
  rect c data -> chans_ok c chans -> 0 <= n ->
  Window_Spec zero data s n chans (window zero data s n chans).
Proof.
  intros Hr Hok Hn. unfold Window_Spec. split.
  { unfold window, zlen. rewrite map_length, zrange_length. lia. }
  intros i j ch Hi Hj. cbv zeta. set (t := s - n / 2 + i).
  exists (map (cell zero data t) chans). split; [|split].
  - unfold window.
    apply (map_nth_error (fun t0 => map (cell zero data t0) chans) (Z.to_nat i) (zrange (s - n / 2) (Z.to_nat n))).
    rewrite (nth_error_nth' _ 0) by (rewrite zrange_length; lia).
    rewrite zrange_nth by lia. f_equal. subst t. lia.
  - unfold zlen. now rewrite map_length.
  - rewrite (map_nth_error _ _ _ Hj).
    destruct ((t <? 0) || (zlen data <=? t) || (ch =? -1)) eqn:E.
    + unfold cell. now rewrite E.
    + assert (Hch : 0 <= ch < c).
      { unfold chans_ok in Hok. rewrite Forall_forall in Hok. pose proof (Hok ch (nth_error_In _ _ Hj)). lia. }
      destruct (cell_inside zero data c t ch Hr ltac:(lia) Hch) as (row & H1 & H2).
      now rewrite H1, H2.
Qed.
End Meaning.
