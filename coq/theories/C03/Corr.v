(* C03/Corr.v -- comparator evaluated by vm_compute on generated case files.
   codes: 1  = observed output differs from the model (determined observable)
          21 = C03_extract: extract_waveforms' array is not the list of zero-padded windows
          22 = C03_export: the exported file does not load as a float64 array of the declared shape
          23 = C03_export / C03_iter: the loaded values are not the windows x factor in spike order
          24 = C03_store: a store look-up is not the (scaled) window on the stored channels
          25 = TemplateModel.get_waveforms is not the window (integration route): with a store holding the
               queried ids, the scaled window on the stored channels (as 24); otherwise, with raw data, the
               windows at spike_samples[spike_ids] (as 21)
          (stage 3: export_waveforms with a spike vector that is NOT sorted is outside the statement; such cases
           mark the boundary and are judged by equality with the model only -- code 1 --, like look-ups with a
           repeated channel: the file holds the windows chunk by chunk in the vector's order, C03_iter_any_order)
          27 = C03_npy_writer / C03_npy_writer_iff (stage 3; NpyWriter used directly with an arbitrary sequence of
               chunks): when the element count equals the declared shape and every chunk has the declared dtype,
               the file loads (np.load, plain and mmap) with the declared shape/dtype and holds the appended
               elements in order; everything else (too few elements: unloadable; too many: the first prod(shape);
               narrower dtype: unloadable; other trailing dimensions: append asserts) is judged by equality with
               the byte-level model (code 1)
          3  = input outside the stated regime (harness bug)
   Sample values are the integers 10*row + col + 1 (never 0, so padding is visible); exported and
   looked-up values are compared multiplied by 2 (the factors are multiples of 1/2), so everything
   is an exact integer. *)
From Coq Require Import ZArith List Lia Bool.
From PV Require Export Base.PySlice Base.NpSearch Base.NpList C16.Model C16.Spec C03.Model C03.Spec C03.ModelNpy.
From PV Require Import C03.Proofs C03.Proofs5.   (* in_range, by_chunk *)
Import ListNotations.
Open Scope Z_scope.

Definition gen_data (nr nc : Z) : list (list Z) :=
  map (fun r => map (fun c => 10 * r + c + 1) (zrange 0 (Z.to_nat nc))) (zrange 0 (Z.to_nat nr)).

(* how the chunks of the recording are produced: flat/array readers (file sizes, chunk length) or
   the compressed reader (its own chunk bounds, batch size) *)
Inductive chunking :=
| Flat (sizes : list Z) (cs : Z)
| Mts (cb : list Z) (bs : Z).

(* a spike-subset store as it is on disk: how its waveforms were exported, ids, channel table, factor *)
Record mstore := mkms { ms_ch : chunking; ms_ids : list Z; ms_table : list (list Z); ms_k : fkind; ms_f2 : Z }.

Inductive input :=
(* extract_waveforms(traces, samples, chans, n) *)
| InExtract (nr nc : Z) (samples : list Z) (n : Z) (chans : list Z)
(* export_waveforms(...) then np.load; w = width of the channel table, f2 = 2 * unit factor *)
| InExport (nr nc : Z) (ch : chunking) (spikes : list spike) (n w : Z) (k : fkind) (f2 : Z)
(* the same export used as a spike-subset store with ids [ids]; look-up of q_ids on q_ch *)
| InStore (nr nc : Z) (ch : chunking) (spikes : list spike) (n w : Z) (k : fkind) (f2 : Z)
          (ids q_ids q_ch : list Z)
(* TemplateModel.get_waveforms(spike_ids, channel_ids) on a dataset whose raw data is gen_data and
   whose spike samples are [samples]; with_store: answered from the exported subset store *)
| InModelRaw (nr nc : Z) (samples : list Z) (n : Z) (q_ids q_ch : list Z)
(* TemplateModel(dir).get_waveforms(q_ids, q_ch) on a dataset directory: spike samples [samples] (spike id =
   index), raw data gen_data given to the model iff has_raw, and optionally a spike-subset store
   (_phy_spikes_subset.*.npy) exported by phylib itself from the model's traces: ids, channel table, unit
   factor; [q_ch = None] = channel_ids omitted.  Values are compared multiplied by 2. *)
| InModel (nr nc : Z) (samples : list Z) (n : Z) (has_raw : bool) (st : option mstore)
          (q_ids : list Z) (q_ch : option (list Z))
(* stage 3: export_waveforms with a spike vector in ANY order (the statement says sorted) *)
| InExportAny (nr nc : Z) (ch : chunking) (spikes : list spike) (n w : Z) (k : fkind) (f2 : Z)
(* stage 3: NpyWriter(path, shape, d); append(c) for c in cs; close(); np.load(path) and np.load(path, mmap_mode='r') *)
| InNpy (shape : list Z) (d : dtype) (cs : list (ndarr Z)).

Inductive observed :=
| ObsWaves (shape : list Z) (w : list (list (list Z)))
| ObsFile (dt : dtype) (shape : list Z) (w : list (list (list Z)))
| ObsUnloadable
| ObsCrash
| ObsNone
| ObsAssert                                               (* AssertionError *)
| ObsLoad (dt : dtype) (shape : list Z) (flat : list Z)   (* a loaded array of any rank, flattened (C order) *)
| ObsMany (l : list observed).

Record case := { cid : Z; cin : input; cobs : observed }.

Definition flag (code : Z) (ok : bool) : list Z := if ok then [] else [code].
Definition zl_eqb : list Z -> list Z -> bool := list_eqb Z.eqb.
Definition opt_waves_eqb (m : option (list (list (list Z)))) (o : list (list (list Z))) : bool :=
  match m with Some x => waves_eqb x o | None => false end.

Definition chunks_of_input (nr : Z) (ch : chunking) : option (list iv) :=
  match ch with
  | Flat sizes cs => option_map iter_base (get_chunk_bounds sizes cs)
  | Mts cb bs => iter_mtscomp cb bs
  end.

Definition chunking_ok (nr : Z) (ch : chunking) : bool :=
  match ch with
  | Flat sizes cs => (1 <=? zlen sizes) && forallb (fun x => 1 <=? x) sizes && (1 <=? cs) &&
                     (zsum sizes =? nr)
  | Mts cb bs => match cb with 0 :: r => chain_b nr 0 r | _ => false end &&
                 (2 <=? zlen cb) && (last cb 0 =? nr) && (1 <=? bs)
  end.

Definition nodupb (l : list Z) : bool :=
  (fix go (l : list Z) := match l with [] => true | x :: r => negb (memZ x r) && go r end) l.

Definition distinct_real_b (q : list Z) : bool := nodupb (filter (fun c => negb (c =? -1)) q).

Fixpoint pos_of (x : Z) (l : list Z) (i : Z) : option Z :=
  match l with [] => None | y :: r => if x =? y then Some i else pos_of x r (i + 1) end.

Definition scaleZ (f2 : Z) (v : Z) : Z := v * f2.

Definition export_regime (nr nc : Z) (ch : chunking) (spikes : list spike) (n w f2 : Z) : bool :=
  (1 <=? nr) && (1 <=? nc) && chunking_ok nr ch && spikes_ok_b nr nc w spikes && (1 <=? n) &&
  (1 <=? w) && (1 <=? f2).

Definition model_export (nr nc : Z) (ch : chunking) (spikes : list spike) (n w : Z) (k : fkind) (f2 : Z)
  : option (npy (A := Z)) :=
  match chunks_of_input nr ch with
  | None => None
  | Some chunks => export 0 (scaleZ f2) (gen_data nr nc) n chunks spikes w k
  end.

(* ---- TemplateModel.get_waveforms on a dataset directory ---- *)
Definition gen_data2 (nr nc : Z) : list (list Z) := map (map (Z.mul 2)) (gen_data nr nc).
Definition ms_spikes (samples : list Z) (ms : mstore) : list spike :=
  map (fun p => mkspike (nthZ samples (fst p)) (snd p)) (combine (ms_ids ms) (ms_table ms)).
Definition ms_width (ms : mstore) : Z := match ms_table ms with r :: _ => zlen r | [] => 0 end.

Definition ms_regime (nr nc : Z) (samples : list Z) (n : Z) (ms : mstore) : bool :=
  (zlen (ms_ids ms) =? zlen (ms_table ms)) && (1 <=? zlen (ms_ids ms)) && (1 <=? ms_width ms) &&
  forallb (fun x => (0 <=? x) && (x <? zlen samples)) (ms_ids ms) && nodupb (ms_ids ms) &&
  export_regime nr nc (ms_ch ms) (ms_spikes samples ms) n (ms_width ms) (ms_f2 ms).

(* the store object the model finds on disk, as the model of export + np.load predicts it *)
Definition model_store (nr nc : Z) (samples : list Z) (n : Z) (ms : mstore) : option (store (A := Z)) :=
  match model_export nr nc (ms_ch ms) (ms_spikes samples ms) n (ms_width ms) (ms_k ms) (ms_f2 ms) with
  | Some f => option_map (mkstore (ms_ids ms) (ms_table ms)) (np_load f)
  | None => None
  end.

Definition route_chansZ (nc : Z) (q_ch : option (list Z)) : list Z :=
  match q_ch with Some l => l | None => zrange 0 (Z.to_nat nc) end.

(* clause 25 on an observed array *)
Definition model_spec_b (nr nc : Z) (samples : list Z) (n : Z) (has_raw : bool) (st : option mstore)
                        (q_ids : list Z) (q_ch : option (list Z)) (shape : list Z)
                        (arr : list (list (list Z))) : bool :=
  let chans := route_chansZ nc q_ch in
  let via_store := match st with
                   | Some ms => forallb (fun x => memZ x (ms_ids ms)) q_ids
                   | None => false
                   end in
  zl_eqb shape [zlen q_ids; n; zlen chans] &&
  (if via_store then
     match st with
     | Some ms => match mapM (fun x => pos_of x (ms_ids ms) 0) q_ids with
                  | Some q_pos => negb (distinct_real_b chans) ||
                                  store_spec_b (scaleZ (ms_f2 ms)) (gen_data nr nc) n (ms_spikes samples ms) q_pos chans arr
                  | None => false
                  end
     | None => false
     end
   else match mapM (py_nth samples) q_ids with
        | Some ss => extract_spec_b (gen_data2 nr nc) ss n chans arr
        | None => false
        end).

(* does the property claim an array for this input?  (otherwise None / an exception are the modelled
   outcomes and only equality with the model is judged) *)
Definition model_claims (samples : list Z) (has_raw : bool) (st : option mstore) (q_ids : list Z) : bool :=
  match st with
  | Some ms => forallb (fun x => memZ x (ms_ids ms)) q_ids
  | None => false
  end ||
  (has_raw && forallb (fun x => (- zlen samples <=? x) && (x <? zlen samples)) q_ids).

(* ---- stage 3 ---- *)
Definition spikes_in_b (dur c nc : Z) (spikes : list spike) : bool :=
  forallb (fun sp => (0 <=? sp_s sp) && (sp_s sp <? dur) && chans_ok_b c (sp_ch sp) &&
                     (zlen (sp_ch sp) =? nc)) spikes.
Definition export_any_regime (nr nc : Z) (ch : chunking) (spikes : list spike) (n w f2 : Z) : bool :=
  (1 <=? nr) && (1 <=? nc) && chunking_ok nr ch && spikes_in_b nr nc w spikes && (1 <=? n) &&
  (1 <=? w) && (1 <=? f2).

Definition arr_ok (c : ndarr Z) : bool :=
  forallb (fun x => 0 <=? x) (a_shape c) && (zlen (a_flat c) =? zprod (a_shape c)).
Definition all_dtype (d : dtype) (cs : list (ndarr Z)) : bool := forallb (fun c => dtype_eqb (a_dtype c) d) cs.
(* the case where the property's export claims the file: right element count, declared dtype everywhere *)
Definition npy_claims (shape : list Z) (d : dtype) (cs : list (ndarr Z)) : bool :=
  export_assert shape cs && all_dtype d cs.

(* codes of one observation *)
Fixpoint check_obs (i : input) (o : observed) : list Z :=
  match o with
  | ObsMany l => flat_map (check_obs i) l
  | _ =>
  match i with
  | InExtract nr nc samples n chans =>
      if negb ((1 <=? nr) && (1 <=? nc) && (1 <=? n) && forallb (fun s => (0 <=? s) && (s <? nr)) samples &&
               chans_ok_b nc chans && (1 <=? zlen chans)) then [3] else
      match o with
      | ObsWaves shape w =>
          flag 1 (opt_waves_eqb (extract_waveforms 0 (gen_data nr nc) samples n chans) w) ++
          flag 21 (extract_spec_b (gen_data nr nc) samples n chans w &&
                   zl_eqb shape [zlen samples; n; zlen chans])
      | _ => [1; 21]
      end
  | InExport nr nc ch spikes n w k f2 =>
      if negb (export_regime nr nc ch spikes n w f2) then [3] else
      match o with
      | ObsFile dt shape arr =>
          flag 1 (match model_export nr nc ch spikes n w k f2 with
                  | Some f => dtype_eqb (npy_descr f) dt && zl_eqb (npy_shape f) shape &&
                              opt_waves_eqb (np_load f) arr
                  | None => false
                  end) ++
          flag 22 (dtype_eqb dt F64 && export_shape_b spikes n w shape) ++
          flag 23 (export_spec_b (scaleZ f2) (gen_data nr nc) n spikes arr)
      | ObsUnloadable =>
          flag 1 (match model_export nr nc ch spikes n w k f2 with
                  | Some f => match np_load f with None => true | Some _ => false end
                  | None => false
                  end) ++ [22]
      | _ => [1; 22; 23]
      end
  | InStore nr nc ch spikes n w k f2 ids q_ids q_ch =>
      if negb (export_regime nr nc ch spikes n w f2 && (zlen ids =? zlen spikes) && nodupb ids &&
               forallb (fun x => 0 <=? x) ids && forallb (fun x => memZ x ids) q_ids &&
               chans_ok_b nc q_ch && (1 <=? zlen q_ch))
      then [3] else
      match o with
      | ObsWaves shape arr =>
          flag 1 (match model_export nr nc ch spikes n w k f2 with
                  | Some f => match np_load f with
                              | Some stw => opt_waves_eqb
                                  (get_spike_waveforms 0 q_ids q_ch (mkstore ids (map sp_ch spikes) stw) n) arr
                              | None => false
                              end
                  | None => false
                  end) ++
          (* a channel queried twice is outside the claim (C03_store_masked, C03_ex_store_dup): only the
             shape is judged then, the values by equality with the model alone *)
          flag 24 (match mapM (fun x => pos_of x ids 0) q_ids with
                   | Some q_pos => (negb (distinct_real_b q_ch) ||
                                    store_spec_b (scaleZ f2) (gen_data nr nc) n spikes q_pos q_ch arr) &&
                                   zl_eqb shape [zlen q_ids; n; zlen q_ch]
                   | None => false
                   end)
      | _ => [1; 24]
      end
  | InModelRaw nr nc samples n q_ids q_ch =>
      if negb ((1 <=? nr) && (1 <=? nc) && (1 <=? n) && forallb (fun s => (0 <=? s) && (s <? nr)) samples &&
               chans_ok_b nc q_ch && (1 <=? zlen q_ch) &&
               forallb (fun x => (0 <=? x) && (x <? zlen samples)) q_ids) then [3] else
      match o, mapM (fun x => nth_error samples (Z.to_nat x)) q_ids with
      | ObsWaves shape w, Some ss =>
          flag 1 (opt_waves_eqb (extract_waveforms 0 (gen_data nr nc) ss n q_ch) w) ++
          flag 25 (extract_spec_b (gen_data nr nc) ss n q_ch w && zl_eqb shape [zlen q_ids; n; zlen q_ch])
      | _, _ => [1; 25]
      end
  | InModel nr nc samples n has_raw st q_ids q_ch =>
      let chans := route_chansZ nc q_ch in
      if negb ((1 <=? nr) && (2 <=? nc) && (2 <=? n) && (2 <=? zlen samples) && sortedZb samples &&
               forallb (fun s => (0 <=? s) && (s <? nr)) samples &&
               chans_ok_b nc chans && (1 <=? zlen chans) &&
               match st with Some ms => ms_regime nr nc samples n ms | None => true end) then [3] else
      match (match st with
             | Some ms => match model_store nr nc samples n ms with Some s => Some (Some s) | None => None end
             | None => Some None
             end) with
      | None => [3]                                   (* the model of the export fails inside the regime *)
      | Some mst =>
          let expected := model_get_waveforms 0 (if has_raw then Some (gen_data2 nr nc) else None) mst
                                              samples n nc q_ids q_ch in
          let claims := model_claims samples has_raw st q_ids in
          match o with
          | ObsWaves shape arr =>
              flag 1 (match expected with GwOut w => waves_eqb w arr | _ => false end) ++
              flag 25 (negb claims || model_spec_b nr nc samples n has_raw st q_ids q_ch shape arr)
          | ObsNone =>
              flag 1 (match expected with GwNone => true | _ => false end) ++ flag 25 (negb claims)
          | ObsCrash =>
              flag 1 (match expected with GwError => true | _ => false end) ++ flag 25 (negb claims)
          | _ => [1; 25]
          end
      end
  | InExportAny nr nc ch spikes n w k f2 =>
      if negb (export_any_regime nr nc ch spikes n w f2) then [3] else
      match chunks_of_input nr ch with
      | None => [3]
      | Some chunks =>
        match o with
        | ObsFile dt shape arr =>
            flag 1 (match model_export nr nc ch spikes n w k f2 with
                    | Some f => dtype_eqb (npy_descr f) dt && zl_eqb (npy_shape f) shape &&
                                opt_waves_eqb (np_load f) arr
                    | None => false
                    end) ++
            (* the model's file IS the by_chunk order (C03_iter_any_order); re-checked here so that a change of
               the model alone cannot go unnoticed *)
            flag 3 (match model_export nr nc ch spikes n w k f2 with
                    | Some f => opt_waves_eqb (np_load f)
                                  (scaled_windows 0 (scaleZ f2) (gen_data nr nc) n (by_chunk chunks spikes))
                    | None => false
                    end)
        | _ => [1]
        end
      end
  | InNpy shape d cs =>
      if negb (forallb (fun x => 0 <=? x) shape && (1 <=? zlen shape) && forallb arr_ok cs) then [3] else
      let claims := npy_claims shape d cs in
      match npy_file lay_tob lay_hdr shape d cs with
      | None => match o with ObsAssert => [] | _ => [1] end
      | Some file =>
          let expected := np_load_bytes lay_isz lay_fromb lay_parse file in
          match o with
          | ObsLoad dt sh flat =>
              flag 1 (match expected with
                      | Some (sh', d', els) => zl_eqb sh sh' && dtype_eqb dt d' &&
                                               (negb (all_dtype d cs) || zl_eqb flat els)
                      | None => false
                      end) ++
              flag 27 (negb claims ||
                       (zl_eqb sh shape && dtype_eqb dt d && zl_eqb flat (flat_map (@a_flat Z) cs)))
          | ObsUnloadable =>
              flag 1 (match expected with None => true | Some _ => false end) ++ flag 27 (negb claims)
          | _ => 1 :: flag 27 (negb claims)
          end
      end
  end
  end.

Definition check (c : case) : list Z := nodup Z.eq_dec (check_obs (cin c) (cobs c)).

Definition run (cases : list case) : list (Z * Z) :=
  flat_map (fun c => map (fun code => (cid c, code)) (check c)) cases.
