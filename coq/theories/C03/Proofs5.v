(* C03/Proofs5.v -- stage 3:
   (1) iter_waveforms on a spike vector that is NOT sorted: the batches are the spikes regrouped chunk by chunk
       (each chunk keeps the vector's order among its own spikes), a permutation of the spikes -- in spike order
       only when the vector is sorted (C03_iter).  The statement says "sorted"; this marks the boundary.
   (2) completeness of the comparator's boolean clauses (the converse of checker_sound): Window_Spec has a
       unique solution, so an observed array that meets the declarative clause makes the clause's checker true.
   (3) get_spike_waveforms fails exactly when one of its three assertions fails (what the dispatch of
       TemplateModel.get_waveforms relies on to fall back to the raw data). *)
From Coq Require Import ZArith List Lia Bool Permutation.
From PV Require Import Base.PySlice Base.NpSearch Base.NpList C16.Model C16.Spec C16.Proofs C03.Model C03.Spec C03.Proofs
                       C03.Proofs2 C03.Proofs3.
Import ListNotations.
Open Scope Z_scope.

(* ================= (1) any spike order ================= *)
(* the spikes as the chunked routes visit them *)
Definition by_chunk (chunks : list iv) (spikes : list spike) : list spike :=
  flat_map (fun ch => filter (in_range (lo ch) (hi ch)) spikes) chunks.

(* spikes_ok without the sortedness *)
Definition spikes_in (dur c nc : Z) (spikes : list spike) : Prop :=
  Forall (fun sp => 0 <= sp_s sp < dur /\ chans_ok c (sp_ch sp) /\ zlen (sp_ch sp) = nc) spikes.

Lemma filter_range_split_perm a b c (spikes : list spike) : a <= b <= c ->
  Permutation (filter (in_range a b) spikes ++ filter (in_range b c) spikes) (filter (in_range a c) spikes).
Proof.
  intros Habc. induction spikes as [|x r IH]; [apply perm_nil|].
  assert (Hx : forall p q, filter (in_range p q) (x :: r) =
                 if (p <=? sp_s x) && (sp_s x <? q) then x :: filter (in_range p q) r else filter (in_range p q) r)
    by reflexivity.
  rewrite !Hx. clear Hx.
  destruct ((a <=? sp_s x) && (sp_s x <? b)) eqn:E1; destruct ((b <=? sp_s x) && (sp_s x <? c)) eqn:E2;
    destruct ((a <=? sp_s x) && (sp_s x <? c)) eqn:E3; try lia.
  - cbn [app]. apply perm_skip. exact IH.
  - apply Permutation_sym, Permutation_cons_app, Permutation_sym. exact IH.
  - exact IH.
Qed.

Lemma by_chunk_linked (spikes : list spike) : forall chunks start stop,
  linked start (filter nonempty chunks) = Some stop ->
  Permutation (by_chunk chunks spikes) (filter (in_range start stop) spikes).
Proof.
  induction chunks as [|ch rest IH]; intros start stop Hl.
  - cbn [filter linked] in Hl. injection Hl as <-. cbn [by_chunk flat_map].
    rewrite filter_range_empty by lia. constructor.
  - unfold by_chunk. cbn [flat_map]. fold (by_chunk rest spikes). cbn [filter] in Hl. unfold nonempty at 1 in Hl.
    destruct (lo ch <? hi ch) eqn:Ene.
    + cbn [linked] in Hl. destruct ((lo ch =? start) && (lo ch <=? hi ch)) eqn:E; [|discriminate].
      pose proof (linked_mono _ _ _ Hl) as Hm. replace (lo ch) with start in * by lia.
      eapply Permutation_trans; [apply Permutation_app_head, (IH (hi ch) stop Hl)|].
      apply filter_range_split_perm. lia.
    + rewrite filter_range_empty by lia. cbn [app]. now apply IH.
Qed.

Lemma filter_all_in dur c nc spikes : spikes_in dur c nc spikes -> filter (in_range 0 dur) spikes = spikes.
Proof.
  induction 1 as [|x r Hx Hr IH]; [reflexivity|]. cbn [filter]. unfold in_range at 1.
  replace ((0 <=? sp_s x) && (sp_s x <? dur)) with true by lia. now rewrite IH.
Qed.

Section IterAny.
Context {A : Type}.
Variable zero : A.

(* over ANY list of chunks (tiling or not) and ANY spike vector inside the recording: every chunk yields the
   windows of the spikes it holds, in the vector's order; chunks without spikes yield nothing *)
Theorem iter_wave_by_chunk c (data : list (list A)) n nc spikes :
  rect c data -> 1 <= c -> 1 <= n -> spikes_in (zlen data) c nc spikes ->
  forall chunks, exists batches, iter_wave zero data n chunks spikes = Some batches /\
    concat batches = map (spike_window zero data n) (by_chunk chunks spikes) /\
    Forall (fun b => b <> []) batches.
Proof.
  intros Hr Hc Hn Hok. induction chunks as [|ch rest IH].
  - exists []. repeat split; constructor.
  - destruct IH as (bs & Hbs & Hcat & Hne). cbn [iter_wave].
    assert (Hfe : filter (fun sp => in_chunk ch (sp_s sp)) spikes = filter (in_range (lo ch) (hi ch)) spikes).
    { apply filter_ext_in'. intros sp _. rewrite in_chunk_spec. unfold in_range. now rewrite orb_false_r. }
    rewrite Hfe. unfold by_chunk. cbn [flat_map]. fold (by_chunk rest spikes).
    set (ss := filter (in_range (lo ch) (hi ch)) spikes) in *.
    assert (Hmap : mapM (fun sp => extract zero data (sp_s sp) n (sp_ch sp)) ss =
                   Some (map (spike_window zero data n) ss)).
    { apply mapM_Some_map. intros sp Hsp. unfold ss in Hsp. apply filter_In in Hsp as [Hsp _].
      unfold spikes_in in Hok. rewrite Forall_forall in Hok. destruct (Hok sp Hsp) as (H1 & H2 & _).
      unfold spike_window. now apply (extract_window zero c). }
    destruct ss as [|sp0 ss'] eqn:Ess.
    + exists bs. split; [exact Hbs|]. split; [exact Hcat|exact Hne].
    + rewrite Hmap, Hbs. eexists. split; [reflexivity|]. split.
      * cbn [concat]. rewrite Hcat, map_app. reflexivity.
      * constructor; [discriminate|exact Hne].
Qed.

(* over a tiling chunking every spike is extracted exactly once: the batches are a permutation of the windows *)
Theorem iter_wave_any_order c (data : list (list A)) n nc chunks spikes :
  rect c data -> 1 <= c -> 1 <= n -> spikes_in (zlen data) c nc spikes -> Tiles (zlen data) chunks ->
  exists batches, iter_wave zero data n chunks spikes = Some batches /\
    concat batches = map (spike_window zero data n) (by_chunk chunks spikes) /\
    Permutation (by_chunk chunks spikes) spikes /\
    Permutation (concat batches) (map (spike_window zero data n) spikes).
Proof.
  intros Hr Hc Hn Hok Ht. destruct (iter_wave_by_chunk c data n nc spikes Hr Hc Hn Hok chunks) as (bs & H1 & H2 & _).
  exists bs. split; [exact H1|]. split; [exact H2|].
  assert (Hp : Permutation (by_chunk chunks spikes) spikes).
  { pose proof (by_chunk_linked spikes chunks 0 (zlen data) Ht) as Hp.
    now rewrite (filter_all_in _ c nc spikes Hok) in Hp. }
  split; [exact Hp|]. rewrite H2. now apply Permutation_map.
Qed.
End IterAny.

(* ================= (2) completeness of the checker ================= *)
Lemma nth_error_ext' {X} (l1 l2 : list X) : (forall k, nth_error l1 k = nth_error l2 k) -> l1 = l2.
Proof.
  revert l2. induction l1 as [|x r IH]; intros [|y r2] H.
  - reflexivity.
  - specialize (H O). discriminate.
  - specialize (H O). discriminate.
  - pose proof (H O) as H0. cbn [nth_error] in H0. injection H0 as ->. f_equal. apply IH.
    intros k. exact (H (S k)).
Qed.

Section Unique.
Context {A : Type}.
Variable zero : A.

(* Window_Spec determines the window (at least one channel: with no channel it says nothing about the rows) *)
Lemma window_spec_unique (data : list (list A)) s n chans w1 w2 :
  0 <= n -> chans <> [] ->
  Window_Spec zero data s n chans w1 -> Window_Spec zero data s n chans w2 -> w1 = w2.
Proof.
  intros Hn Hne [L1 H1] [L2 H2]. destruct chans as [|ch0 chr] eqn:Ech; [congruence|]. rewrite <- Ech in *.
  assert (H0 : nth_error chans 0 = Some ch0) by (rewrite Ech; reflexivity).
  apply nth_error_ext'. intros k.
  destruct (Z_lt_dec (Z.of_nat k) n) as [Hk|Hk].
  - destruct (H1 (Z.of_nat k) O ch0 ltac:(lia) H0) as (r1 & Hr1 & Hl1 & _).
    destruct (H2 (Z.of_nat k) O ch0 ltac:(lia) H0) as (r2 & Hr2 & Hl2 & _).
    rewrite Nat2Z.id in Hr1, Hr2. rewrite Hr1, Hr2. f_equal.
    apply nth_error_ext'. intros j.
    destruct (nth_error chans j) as [ch|] eqn:Ej.
    + destruct (H1 (Z.of_nat k) j ch ltac:(lia) Ej) as (r1' & Hr1' & _ & Hv1).
      destruct (H2 (Z.of_nat k) j ch ltac:(lia) Ej) as (r2' & Hr2' & _ & Hv2).
      rewrite Nat2Z.id in Hr1', Hr2'. rewrite Hr1 in Hr1'. rewrite Hr2 in Hr2'.
      injection Hr1' as <-. injection Hr2' as <-. cbv zeta in Hv1, Hv2. now rewrite Hv1, Hv2.
    + apply nth_error_None in Ej.
      replace (nth_error r1 j) with (@None A) by (symmetry; apply nth_error_None; unfold zlen in *; lia).
      symmetry. apply nth_error_None. unfold zlen in *. lia.
  - replace (nth_error w1 k) with (@None (list A)) by (symmetry; apply nth_error_None; unfold zlen in *; lia).
    symmetry. apply nth_error_None. unfold zlen in *. lia.
Qed.

Lemma window_spec_is_window c (data : list (list A)) s n chans w :
  rect c data -> chans_ok c chans -> 0 <= n -> chans <> [] ->
  Window_Spec zero data s n chans w -> w = window zero data s n chans.
Proof.
  intros Hr Hok Hn Hne Hw. apply (window_spec_unique data s n chans); auto.
  now apply (window_meets_spec zero c).
Qed.
End Unique.

Lemma Forall2_eq_map {X Y} (f : X -> Y) l1 l2 : Forall2 (fun x y => y = f x) l1 l2 -> l2 = map f l1.
Proof. induction 1 as [|x y l1 l2 Hxy H IH]; [reflexivity|]. cbn [map]. now rewrite Hxy, IH. Qed.

Lemma waves_eqb_refl a : waves_eqb a a = true.
Proof. now apply waves_eqb_eq. Qed.

Section Complete.
Variable scale : Z -> Z.

Theorem checker_complete c (data : list (list Z)) samples n chans spikes q_pos q_ch nc shape
                         (obs : list (list (list Z))) :
  rect c data -> 0 <= n ->
  (Extract_Spec 0 data samples n chans obs -> chans_ok c chans -> chans <> [] ->
     extract_spec_b data samples n chans obs = true) /\
  (shape = [zlen spikes; n; nc] -> export_shape_b spikes n nc shape = true) /\
  (Export_Spec 0 scale data n spikes obs -> Forall (fun sp => chans_ok c (sp_ch sp) /\ sp_ch sp <> []) spikes ->
     export_spec_b scale data n spikes obs = true) /\
  (Store_Spec 0 scale data n spikes q_pos q_ch obs -> chans_ok c q_ch -> q_ch <> [] ->
     store_spec_b scale data n spikes q_pos q_ch obs = true).
Proof.
  intros Hr Hn. repeat split.
  - intros H Hok Hne. unfold extract_spec_b. apply waves_eqb_eq. unfold Extract_Spec in H.
    apply Forall2_eq_map. eapply Forall2_imp; [|exact H]. cbv beta. intros s w Hw.
    now apply (window_spec_is_window 0 c).
  - intros ->. unfold export_shape_b. now apply (list_eqb_eq Z.eqb Z.eqb_eq).
  - intros H Hok. unfold export_spec_b, scaled_windows. apply waves_eqb_eq. unfold Export_Spec in H.
    apply Forall2_eq_map. clear -H Hok Hr Hn. induction H as [|sp W l1 l2 HW H IH]; [constructor|].
    inversion Hok as [|? ? [Hc Hne] Hok']; subst. constructor; [|now apply IH].
    destruct HW as (w0 & Hw0 & ->). unfold spike_window.
    now rewrite (window_spec_is_window 0 c data (sp_s sp) n (sp_ch sp) w0).
  - intros H Hok Hne. unfold store_spec_b. unfold Store_Spec in H.
    assert (Hx : exists sps, mapM (fun p => nth_error spikes (Z.to_nat p)) q_pos = Some sps /\
                             obs = map (fun sp => masked_window 0 scale data n sp q_ch) sps).
    { clear -H Hok Hne Hr Hn. induction H as [|p W l1 l2 HW H IH].
      - exists []. split; reflexivity.
      - destruct IH as (sps & E1 & E2). destruct HW as (sp & w0 & Hp & Hw0 & ->).
        exists (sp :: sps). cbn [mapM map]. rewrite Hp, E1. split; [reflexivity|]. rewrite E2. f_equal.
        rewrite (window_spec_is_window 0 c data (sp_s sp) n q_ch w0) by assumption.
        symmetry. apply masked_window_as_mask. }
    destruct Hx as (sps & -> & ->). apply waves_eqb_refl.
Qed.
End Complete.

(* ================= (3) the look-up fails exactly when an assertion fails ================= *)
Section Total.
Context {A : Type}.
Variable zero : A.
Variable scale : A -> A.

Theorem store_total c (data : list (list A)) n spikes ids q_ids q_ch :
  Forall (fun sp => chans_ok c (sp_ch sp)) spikes ->
  Forall (fun x => 0 <= x) ids -> zlen ids = zlen spikes -> Forall (fun ch => -1 <= ch) q_ch ->
  let st := mkstore ids (map sp_ch spikes) (scaled_windows zero scale data n spikes) in
  (gsw_asserts q_ids q_ch st n = false -> get_spike_waveforms zero q_ids q_ch st n = None) /\
  (gsw_asserts q_ids q_ch st n = true ->
     exists out, get_spike_waveforms zero q_ids q_ch st n = Some out /\ zlen out = zlen q_ids) /\
  (gsw_asserts q_ids q_ch st n = true <->
     Forall (fun x => In x ids) q_ids /\ 1 <= n /\ q_ch <> []).
Proof.
  intros Hok Hids Hlen Hq st.
  assert (Hiff : gsw_asserts q_ids q_ch st n = true <-> Forall (fun x => In x ids) q_ids /\ 1 <= n /\ q_ch <> []).
  { unfold gsw_asserts, st. cbn [st_ids]. rewrite !andb_true_iff, forallb_forall, Forall_forall. split.
    - intros [[H1 H2] H3]. split; [intros x Hx; apply memZ_In; auto|]. split; [lia|].
      intros ->. cbn in H3. discriminate.
    - intros (H1 & H2 & H3). split; [split; [intros x Hx; apply memZ_In; auto|lia]|].
      destruct q_ch; [congruence|]. unfold zlen. cbn [length]. lia. }
  split; [|split; [|exact Hiff]].
  - unfold gsw_asserts, get_spike_waveforms. intros H.
    destruct (forallb (fun x => memZ x (st_ids st)) q_ids); [|reflexivity]. cbn [negb andb] in *.
    destruct (0 <? n); [|reflexivity]. cbn [negb andb] in *. now rewrite H.
  - intros H. apply Hiff in H as (H1 & H2 & H3).
    destruct (store_lookup zero scale c data n spikes ids q_ids q_ch H2 Hok Hids Hlen H1 H3 Hq) as (sps & Hf & Hg).
    eexists. split; [exact Hg|]. unfold zlen. rewrite map_length. f_equal. symmetry.
    clear -Hf. induction Hf; cbn [length]; congruence.
Qed.
End Total.

(* ================= (4) totality of the dispatch ================= *)
Section RouteTotal.
Context {A : Type}.
Variable zero : A.
Variable scale : A -> A.

(* With raw data, TemplateModel.get_waveforms ALWAYS answers with one entry per queried id -- from the store when
   it holds every queried id, from the raw data otherwise -- for every query inside spike_samples (negative ids
   wrap) on channels in {-1} u [0, c): no error exit is reachable.  (The data the store was exported from may be
   any recording [sdata].) *)
Theorem route_total c (data sdata : list (list A)) samples n nch spikes ids q_ids channel_ids :
  rect c data -> 1 <= c -> 1 <= n ->
  Forall (fun s => 0 <= s < zlen data) samples ->
  Forall (fun sp => chans_ok c (sp_ch sp)) spikes ->
  Forall (fun x => 0 <= x) ids -> zlen ids = zlen spikes ->
  Forall (fun i => - zlen samples <= i < zlen samples) q_ids ->
  chans_ok c (route_chans nch channel_ids) ->
  exists w,
    model_get_waveforms zero (Some data)
      (Some (mkstore ids (map sp_ch spikes) (scaled_windows zero scale sdata n spikes)))
      samples n nch q_ids channel_ids = GwOut w /\ zlen w = zlen q_ids.
Proof.
  intros Hr Hc Hn Hs Hok Hids Hlen Hq Hch.
  set (st := mkstore ids (map sp_ch spikes) (scaled_windows zero scale sdata n spikes)).
  assert (Hch' : Forall (fun ch => -1 <= ch) (route_chans nch channel_ids)).
  { unfold chans_ok in Hch. eapply Forall_impl; [|exact Hch]. cbv beta. intros; lia. }
  destruct (store_total zero scale c sdata n spikes ids q_ids (route_chans nch channel_ids) Hok Hids Hlen Hch')
    as (Hnone & Hsome & _). fold st in Hnone, Hsome.
  destruct (gsw_asserts q_ids (route_chans nch channel_ids) st n) eqn:E.
  - destruct (Hsome eq_refl) as (out & Hout & Hl). exists out. split; [|exact Hl].
    unfold model_get_waveforms. fold (route_chans nch channel_ids). fold st. now rewrite E, Hout.
  - destruct (route_fallback zero data st samples n nch q_ids channel_ids E) as [H1 _]. rewrite H1.
    destruct (route_raw zero c data samples n nch q_ids channel_ids Hr Hc Hn Hs Hq Hch) as (ss & HF & Hw).
    eexists. split; [exact Hw|]. unfold zlen. rewrite map_length. f_equal. symmetry.
    clear -HF. induction HF; cbn [length]; congruence.
Qed.
End RouteTotal.
