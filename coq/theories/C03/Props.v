(* C03/Props.v -- the property theorems, and nothing else.  Each is closed by [exact] of a lemma of
   Proofs*.v and followed by Print Assumptions.
   Common premises: [rect c data] = every row of the recording has c channels, 1 <= c;
   [chans_ok c chans] = channel entries in {-1} u [0, c); [A] = any sample type with a zero. *)
From Coq Require Import ZArith List Lia Bool.
From PV Require Import Base.PySlice Base.NpSearch Base.NpList C16.Model C16.Spec C03.Model C03.Spec C03.Proofs
                       C03.Proofs2 C03.Proofs3.
Import ListNotations.
Open Scope Z_scope.

(* Direct extraction returns exactly the zero-padded window, for every recording, every spike
   inside it (including 0, the last sample, closer than n//2 to either end, and recordings shorter
   than the window), every window length >= 1 (odd or even) and every channel list. *)
Theorem C03_extract : forall (A : Type) (zero : A) (c : Z) (data : list (list A)) (s n : Z) (chans : list Z),
  rect c data -> 1 <= c -> chans_ok c chans -> 0 <= s < zlen data -> 1 <= n ->
  extract zero data s n chans = Some (window zero data s n chans).
Proof. exact (@extract_window). Qed.
Print Assumptions C03_extract.

(* extract_waveforms: one window per spike, in the order given (no sortedness needed) *)
Theorem C03_extract_waveforms : forall (A : Type) (zero : A) (c : Z) (data : list (list A))
    (samples : list Z) (n : Z) (chans : list Z),
  rect c data -> 1 <= c -> chans_ok c chans -> 1 <= n ->
  Forall (fun s => 0 <= s < zlen data) samples ->
  extract_waveforms zero data samples n chans = Some (map (fun s => window zero data s n chans) samples).
Proof. exact (@extract_waveforms_windows). Qed.
Print Assumptions C03_extract_waveforms.

(* [window] is the statement of the property cell by cell, with no default value involved *)
Theorem C03_window_meaning : forall (A : Type) (zero : A) (c : Z) (data : list (list A)) (s n : Z) (chans : list Z),
  rect c data -> chans_ok c chans -> 0 <= n ->
  Window_Spec zero data s n chans (window zero data s n chans).
Proof. exact (@window_meets_spec). Qed.
Print Assumptions C03_window_meaning.

(* Chunk-by-chunk iteration: over ANY chunking whose non-empty intervals tile the recording in
   order, every spike of a sorted spike vector is extracted exactly once, in spike order, whatever
   its position relative to the chunk boundaries; no empty batch is yielded. *)
Theorem C03_iter : forall (A : Type) (zero : A) (c : Z) (data : list (list A)) (n nc : Z)
    (chunks : list iv) (spikes : list spike),
  rect c data -> 1 <= c -> 1 <= n -> spikes_ok (zlen data) c nc spikes -> Tiles (zlen data) chunks ->
  exists batches, iter_wave zero data n chunks spikes = Some batches /\
    concat batches = map (spike_window zero data n) spikes /\
    Forall (fun b => b <> []) batches.
Proof. exact (@iter_wave_windows). Qed.
Print Assumptions C03_iter.

(* ... in particular over the chunks of flat/array readers (any files, any chunk length) ... *)
Theorem C03_iter_flat : forall (A : Type) (zero : A) (c : Z) (data : list (list A)) (n nc : Z)
    (spikes : list spike) (sizes : list Z) (cs : Z),
  rect c data -> 1 <= c -> 1 <= n -> spikes_ok (zlen data) c nc spikes ->
  sizes <> [] -> (forall x, In x sizes -> 0 <= x) -> 1 <= cs -> zsum sizes = zlen data ->
  exists b batches, get_chunk_bounds sizes cs = Some b /\
    iter_wave zero data n (iter_base b) spikes = Some batches /\
    concat batches = map (spike_window zero data n) spikes.
Proof. exact (@iter_wave_flat). Qed.
Print Assumptions C03_iter_flat.

(* ... and over the look-behind batches of the compressed reader (any chunk bounds, batch size) *)
Theorem C03_iter_mtscomp : forall (A : Type) (zero : A) (c : Z) (data : list (list A)) (n nc : Z)
    (spikes : list spike) (cb : list Z) (bs : Z),
  rect c data -> 1 <= c -> 1 <= n -> spikes_ok (zlen data) c nc spikes ->
  (exists r cs, cb = 0 :: r /\ chainP cs 0 r) -> 2 <= zlen cb -> last cb 0 = zlen data -> 1 <= bs ->
  exists l batches, iter_mtscomp cb bs = Some l /\
    iter_wave zero data n l spikes = Some batches /\
    concat batches = map (spike_window zero data n) spikes.
Proof. exact (@iter_wave_mtscomp). Qed.
Print Assumptions C03_iter_mtscomp.

(* Export: the file is written (the size assertion holds), its payload has the declared dtype for
   every kind of unit factor (computed from the promotion table, not assumed), it loads as an array
   of the declared shape (n_spikes, n, nc), and what is loaded is window x factor, in spike order. *)
Theorem C03_export : forall (A : Type) (zero : A) (scale : A -> A) (c : Z) (data : list (list A))
    (n nc : Z) (chunks : list iv) (spikes : list spike) (k : fkind),
  rect c data -> 1 <= c -> 1 <= n -> 0 <= nc -> spikes_ok (zlen data) c nc spikes ->
  Tiles (zlen data) chunks ->
  exists f, export zero scale data n chunks spikes nc k = Some f /\
    npy_shape f = [zlen spikes; n; nc] /\ npy_pdtype f = npy_descr f /\
    np_load f = Some (scaled_windows zero scale data n spikes).
Proof. exact (@export_load). Qed.
Print Assumptions C03_export.

(* ---------------------------------------------------------------------------------------------------
   Stage 2: the spike-subset store, the TemplateModel.get_waveforms dispatch, the comparator's clauses
   --------------------------------------------------------------------------------------------------- *)

(* Look-up in the store built from an export: export -> np.load -> store (ids, channel table, loaded
   array) -> get_spike_waveforms.  For every queried id (ANY order, repetitions allowed) the answer is
   [lookup_window]: the spike's window ON THE QUERIED CHANNELS times the unit factor, with zeros in the
   columns whose channel is not stored for that spike -- and, NumPy's fancy assignment being what it is, in
   every column whose channel is queried again further right (only the LAST occurrence of a repeated
   channel receives data).  No hypothesis on the stored channel rows beyond entries in {-1} u [0, c): -1
   may stand anywhere in a row and a row may repeat a channel.  [refers ids spikes x sp]: sp is the stored
   spike at the last position of x in the id vector (the only one when ids are distinct). *)
Theorem C03_store : forall (A : Type) (zero : A) (scale : A -> A) (c : Z) (data : list (list A))
    (n nc : Z) (chunks : list iv) (spikes : list spike) (k : fkind) (ids q_ids q_ch : list Z),
  rect c data -> 1 <= c -> 1 <= n -> 0 <= nc -> spikes_ok (zlen data) c nc spikes -> Tiles (zlen data) chunks ->
  Forall (fun x => 0 <= x) ids -> zlen ids = zlen spikes ->
  Forall (fun x => In x ids) q_ids -> q_ch <> [] -> Forall (fun ch => -1 <= ch) q_ch ->
  exists f stw sps,
    export zero scale data n chunks spikes nc k = Some f /\ np_load f = Some stw /\
    Forall2 (refers ids spikes) q_ids sps /\
    get_spike_waveforms zero q_ids q_ch (mkstore ids (map sp_ch spikes) stw) n =
    Some (map (fun sp => lookup_window zero scale data n sp q_ch) sps).
Proof. exact (@export_store_lookup). Qed.
Print Assumptions C03_store.

(* ... which is the whole scaled window when the queried channels are distinct and all stored for the
   spike ... *)
Theorem C03_store_full : forall (A : Type) (zero : A) (scale : A -> A) (data : list (list A)) (n : Z)
    (sp : spike) (q_ch : list Z),
  NoDup q_ch -> (forall ch, In ch q_ch -> In ch (sp_ch sp)) ->
  lookup_window zero scale data n sp q_ch = map (map scale) (window zero data (sp_s sp) n q_ch).
Proof. exact (@lookup_window_full). Qed.
Print Assumptions C03_store_full.

(* ... and, in the comparator's regime (queried channels other than -1 pairwise distinct; 0 x factor = 0),
   the property's claim: the scaled window on the channels stored for the spike, zero on the others and on
   -1 (clause 24 judges phylib's output against [masked_window]).  The guard is needed: C03_ex_store_dup. *)
Theorem C03_store_masked : forall (A : Type) (zero : A) (scale : A -> A) (data : list (list A)) (n : Z)
    (sp : spike) (q_ch : list Z),
  scale zero = zero -> distinct_real q_ch ->
  lookup_window zero scale data n sp q_ch = masked_window zero scale data n sp q_ch.
Proof. exact (@lookup_window_masked). Qed.
Print Assumptions C03_store_masked.

(* The same in the form Spec(input, model input): the model's look-up satisfies the declarative clause
   Store_Spec (each answer = the stored-channel mask of a window that has the cell-by-cell meaning
   Window_Spec), at the positions [lpz ids x] = last occurrence of the queried id x in the id vector. *)
Theorem C03_store_spec : forall (A : Type) (zero : A) (scale : A -> A) (c : Z) (data : list (list A)) (n : Z)
    (spikes : list spike) (ids q_ids q_ch : list Z),
  rect c data -> 1 <= n -> Forall (fun sp => chans_ok c (sp_ch sp)) spikes ->
  Forall (fun x => 0 <= x) ids -> zlen ids = zlen spikes ->
  Forall (fun x => In x ids) q_ids -> q_ch <> [] -> chans_ok c q_ch -> distinct_real q_ch -> scale zero = zero ->
  exists out,
    get_spike_waveforms zero q_ids q_ch
      (mkstore ids (map sp_ch spikes) (scaled_windows zero scale data n spikes)) n = Some out /\
    Store_Spec zero scale data n spikes (map (lpz ids) q_ids) q_ch out.
Proof. exact (@store_meets_spec). Qed.
Print Assumptions C03_store_spec.

(* TemplateModel.get_waveforms (comparator clause 25).
   Raw data and no store: extract_waveforms on the model's traces at spike_samples[spike_ids] (NumPy indexing:
   negative ids wrap), i.e. one window per queried id in query order; channel_ids=None = all channels. *)
Theorem C03_route_model_raw : forall (A : Type) (zero : A) (c : Z) (data : list (list A)) (samples : list Z)
    (n nch : Z) (q_ids : list Z) (channel_ids : option (list Z)),
  rect c data -> 1 <= c -> 1 <= n ->
  Forall (fun s => 0 <= s < zlen data) samples ->
  Forall (fun i => - zlen samples <= i < zlen samples) q_ids ->
  chans_ok c (route_chans nch channel_ids) ->
  exists ss, Forall2 (fun i s => py_nth samples i = Some s) q_ids ss /\
    model_get_waveforms zero (Some data) None samples n nch q_ids channel_ids =
    GwOut (map (fun s => window zero data s n (route_chans nch channel_ids)) ss).
Proof. exact (@route_raw). Qed.
Print Assumptions C03_route_model_raw.

(* A store that holds every queried id: the store look-up of C03_store is returned, whether or not raw
   data exist ([traces] is arbitrary) -- the store takes precedence over the raw data. *)
Theorem C03_route_model_store : forall (A : Type) (zero : A) (scale : A -> A) (c : Z) (data : list (list A))
    (traces : option (list (list A))) (samples : list Z) (n nch : Z) (spikes : list spike)
    (ids q_ids q_ch : list Z),
  1 <= n -> Forall (fun sp => chans_ok c (sp_ch sp)) spikes ->
  Forall (fun x => 0 <= x) ids -> zlen ids = zlen spikes ->
  Forall (fun x => In x ids) q_ids -> q_ch <> [] -> Forall (fun ch => -1 <= ch) q_ch ->
  exists sps, Forall2 (refers ids spikes) q_ids sps /\
    model_get_waveforms zero traces
      (Some (mkstore ids (map sp_ch spikes) (scaled_windows zero scale data n spikes)))
      samples n nch q_ids (Some q_ch) =
    GwOut (map (fun sp => lookup_window zero scale data n sp q_ch) sps).
Proof. exact (@route_store). Qed.
Print Assumptions C03_route_model_store.

(* A store that misses a queried id (AssertionError inside get_spike_waveforms, caught): the raw route,
   which fails when there is no raw data; neither store nor raw data: None. *)
Theorem C03_route_model_fallback : forall (A : Type) (zero : A) (data : list (list A)) (st : store)
    (samples : list Z) (n nch : Z) (q_ids : list Z) (channel_ids : option (list Z)) (x : Z),
  In x q_ids -> ~ In x (st_ids st) ->
  model_get_waveforms zero (Some data) (Some st) samples n nch q_ids channel_ids =
  model_get_waveforms zero (Some data) None samples n nch q_ids channel_ids /\
  model_get_waveforms zero None (Some st) samples n nch q_ids channel_ids = GwError /\
  model_get_waveforms zero None None samples n nch q_ids channel_ids = GwNone.
Proof. exact (@route_fallback_missing). Qed.
Print Assumptions C03_route_model_fallback.

(* Both routes equal the window: a store exported with unit factor 1 over the model's own spikes (store id
   i = index into spike_samples), queried on distinct channels that are stored for every stored spike,
   returns exactly what the raw route returns, namely the windows at spike_samples[spike_ids]. *)
Theorem C03_route_model : forall (A : Type) (zero : A) (c : Z) (data : list (list A)) (samples : list Z)
    (n nch : Z) (spikes : list spike) (ids q_ids q_ch : list Z),
  rect c data -> 1 <= c -> 1 <= n ->
  Forall (fun s => 0 <= s < zlen data) samples ->
  Forall (fun sp => chans_ok c (sp_ch sp)) spikes ->
  Forall (fun x => 0 <= x) ids ->
  Forall2 (fun id sp => py_nth samples id = Some (sp_s sp)) ids spikes ->
  Forall (fun x => In x ids) q_ids -> q_ch <> [] -> chans_ok c q_ch -> NoDup q_ch ->
  (forall sp ch, In sp spikes -> In ch q_ch -> In ch (sp_ch sp)) ->
  exists ss, Forall2 (fun i s => py_nth samples i = Some s) q_ids ss /\
    model_get_waveforms zero (Some data)
      (Some (mkstore ids (map sp_ch spikes) (scaled_windows zero (fun a => a) data n spikes)))
      samples n nch q_ids (Some q_ch) = GwOut (map (fun s => window zero data s n q_ch) ss) /\
    model_get_waveforms zero (Some data) None samples n nch q_ids (Some q_ch) =
      GwOut (map (fun s => window zero data s n q_ch) ss).
Proof. exact (@route_agree). Qed.
Print Assumptions C03_route_model.

(* The boolean clauses the comparator evaluates on phylib's OUTPUT imply the declarative statements
   (cell by cell through Window_Spec, no default value): 21 = extract, 22 = shape, 23 = export, 24 = store. *)
Theorem C03_checker_sound : forall (scale : Z -> Z) (c : Z) (data : list (list Z)) (samples : list Z) (n : Z)
    (chans : list Z) (spikes : list spike) (q_pos q_ch : list Z) (nc : Z) (shape : list Z)
    (obs : list (list (list Z))),
  rect c data -> 0 <= n ->
  (extract_spec_b data samples n chans obs = true -> chans_ok c chans ->
     Extract_Spec 0 data samples n chans obs) /\
  (export_shape_b spikes n nc shape = true -> shape = [zlen spikes; n; nc]) /\
  (export_spec_b scale data n spikes obs = true -> Forall (fun sp => chans_ok c (sp_ch sp)) spikes ->
     Export_Spec 0 scale data n spikes obs) /\
  (store_spec_b scale data n spikes q_pos q_ch obs = true -> chans_ok c q_ch ->
     Store_Spec 0 scale data n spikes q_pos q_ch obs).
Proof. exact checker_sound. Qed.
Print Assumptions C03_checker_sound.

(* ---- non-vacuity: concrete, non-trivial instances ---- *)
Definition ex_data : list (list Z) := [[1; 2]; [11; 12]; [21; 22]].
(* recording shorter than the window, overflow on both sides, a -1 channel *)
Example C03_ex_extract : extract 0 ex_data 1 8 [1; -1] =
  Some [[0; 0]; [0; 0]; [0; 0]; [2; 0]; [12; 0]; [22; 0]; [0; 0]; [0; 0]].
Proof. vm_compute. reflexivity. Qed.
Example C03_ex_window : window 0 ex_data 1 8 [1; -1] =
  [[0; 0]; [0; 0]; [0; 0]; [2; 0]; [12; 0]; [22; 0]; [0; 0]; [0; 0]].
Proof. vm_compute. reflexivity. Qed.
(* two files (2 + 1 samples), chunk length 2: chunks [0,2) [2,3); a spike exactly on the bound *)
Example C03_ex_iter :
  iter_wave 0 ex_data 2 [mkiv 0 2; mkiv 2 3] [mkspike 0 [0; 1]; mkspike 2 [1; -1]] =
  Some [[[[0; 0]; [1; 2]]]; [[[12; 0]; [22; 0]]]].
Proof. vm_compute. reflexivity. Qed.
Example C03_ex_premises :
  spikes_ok_b 3 2 2 [mkspike 0 [0; 1]; mkspike 2 [1; -1]] = true /\ tiles_b 3 [mkiv 0 2; mkiv 2 3] = true.
Proof. vm_compute. split; reflexivity. Qed.
Example C03_ex_export :
  option_map (fun f => (npy_shape f, np_load f))
    (export 0 (fun v => v * 5) ex_data 2 [mkiv 0 2; mkiv 2 3] [mkspike 0 [0; 1]; mkspike 2 [1; -1]] 2 PyFloat) =
  Some ([2; 2; 2], Some [[[0; 0]; [5; 10]]; [[60; 0]; [110; 0]]]).
Proof. vm_compute. reflexivity. Qed.

(* ---- stage 2 ---- *)
Definition ex_chunks := [mkiv 0 2; mkiv 2 3].
(* two stored spikes; the first row has -1 in a NON-final position and does not store channel 0 *)
Definition ex_spikes := [mkspike 0 [-1; 1]; mkspike 2 [1; 0]].
Definition ex_store : option (store (A := Z)) :=
  match export 0 (fun v => v * 5) ex_data 2 ex_chunks ex_spikes 2 PyFloat with
  | Some f => option_map (mkstore [7; 3] (map sp_ch ex_spikes)) (np_load f)
  | None => None
  end.
Example C03_ex_store_premises : spikes_ok_b 3 2 2 ex_spikes = true /\ tiles_b 3 ex_chunks = true.
Proof. vm_compute. split; reflexivity. Qed.
(* ids queried in another order with a repetition; channels [1; -1; 0]: spike 0 (id 7) stores channel 1 only *)
Example C03_ex_store :
  option_map (fun st => get_spike_waveforms 0 [3; 7; 3] [1; -1; 0] st 2) ex_store =
  Some (Some [[[60; 0; 55]; [110; 0; 105]]; [[0; 0; 0]; [10; 0; 0]]; [[60; 0; 55]; [110; 0; 105]]]) /\
  map (fun sp => lookup_window 0 (fun v => v * 5) ex_data 2 sp [1; -1; 0]) [mkspike 2 [1; 0]; mkspike 0 [-1; 1]; mkspike 2 [1; 0]] =
  [[[60; 0; 55]; [110; 0; 105]]; [[0; 0; 0]; [10; 0; 0]]; [[60; 0; 55]; [110; 0; 105]]].
Proof. vm_compute. split; reflexivity. Qed.
(* why the comparator's regime wants distinct query channels: a channel queried twice gets the data only
   in its LAST column, the first is left at zero -- whereas the stored-channel mask would fill both *)
Example C03_ex_store_dup :
  option_map (fun st => get_spike_waveforms 0 [3] [1; 1] st 2) ex_store = Some (Some [[[0; 60]; [0; 110]]]) /\
  lookup_window 0 (fun v => v * 5) ex_data 2 (mkspike 2 [1; 0]) [1; 1] = [[0; 60]; [0; 110]] /\
  masked_window 0 (fun v => v * 5) ex_data 2 (mkspike 2 [1; 0]) [1; 1] = [[60; 60]; [110; 110]].
Proof. vm_compute. repeat split; reflexivity. Qed.
(* the dispatch: the store wins over the raw data; a missing id falls back to the raw data; neither: None *)
Example C03_ex_route :
  option_map (fun st => model_get_waveforms 0 (Some ex_data) (Some st) [0; 1; 2; 2] 2 2 [3] (Some [0])) ex_store =
    Some (GwOut [[[55]; [105]]]) /\
  model_get_waveforms 0 (Some ex_data) None [0; 1; 2; 2] 2 2 [3; -4] None = GwOut [[[11; 12]; [21; 22]]; [[0; 0]; [1; 2]]] /\
  option_map (fun st => model_get_waveforms 0 (Some ex_data) (Some st) [0; 1; 2; 2] 2 2 [3; 1] (Some [0])) ex_store =
    Some (GwOut [[[11]; [21]]; [[1]; [11]]]) /\
  option_map (fun st => model_get_waveforms 0 None (Some st) [0; 1; 2; 2] 2 2 [3; 1] (Some [0])) ex_store = Some GwError /\
  model_get_waveforms (A := Z) 0 None None [0; 1; 2; 2] 2 2 [3] (Some [0]) = GwNone.
Proof. vm_compute. repeat split; reflexivity. Qed.
(* the checker's clauses are live: true on the window, false on a shifted one *)
Example C03_ex_checker :
  extract_spec_b ex_data [1] 2 [1; -1] [[[2; 0]; [12; 0]]] = true /\
  extract_spec_b ex_data [1] 2 [1; -1] [[[12; 0]; [22; 0]]] = false /\
  store_spec_b (fun v => v * 5) ex_data 2 ex_spikes [1; 0] [1; -1; 0]
    [[[60; 0; 55]; [110; 0; 105]]; [[0; 0; 0]; [10; 0; 0]]] = true.
Proof. vm_compute. repeat split; reflexivity. Qed.

(* ---------------------------------------------------------------------------------------------------
   Stage 3: NpyWriter / np.load at the byte level, unsorted spike vectors, checker completeness,
   error exits of the look-up
   --------------------------------------------------------------------------------------------------- *)
From PV Require Import C03.ModelNpy C03.Proofs4 C03.Proofs5 C03.Proofs6 C03.Link.
From Coq Require Import Permutation.

(* NpyWriter + np.load, bytes.  Trusted (premises): the header is self-delimiting ([parse_hdr (hdr shape d ++
   rest) = (shape, d, rest)]), one element of dtype d takes [itemsize d >= 1] bytes, and decoding undoes
   encoding.  Then for ANY sequence of appended chunks of the declared dtype whose trailing dimensions pass
   append's assertion -- no chunk at all, empty chunks, any row counts -- the file is  header ++ the chunks'
   bytes in order,  and np.load of those bytes succeeds iff at least prod(shape) elements were appended, giving
   the FIRST prod(shape) of them under the declared shape. *)
Theorem C03_npy_writer : forall (A B : Type) (itemsize : dtype -> Z) (tobytes : dtype -> A -> list B)
    (frombytes : dtype -> list B -> option A) (hdr : list Z -> dtype -> list B)
    (parse_hdr : list B -> option (list Z * dtype * list B)),
  (forall shape d rest, parse_hdr (hdr shape d ++ rest) = Some (shape, d, rest)) ->
  (forall d a, zlen (tobytes d a) = itemsize d) -> (forall d, 1 <= itemsize d) ->
  (forall d a, frombytes d (tobytes d a) = Some a) ->
  forall (shape : list Z) (d : dtype) (cs : list (ndarr A)),
  Forall (fun x => 0 <= x) shape ->
  Forall (fun c => append_ok shape c = true /\ a_dtype c = d) cs ->
  exists file, npy_file tobytes hdr shape d cs = Some file /\
    file = hdr shape d ++ flat_map (tobytes d) (flat_map (@a_flat A) cs) /\
    np_load_bytes itemsize frombytes parse_hdr file =
      if zprod shape <=? size_written cs
      then Some (shape, d, firstn (Z.to_nat (zprod shape)) (flat_map (@a_flat A) cs)) else None.
Proof. exact (@npy_writer_load). Qed.
Print Assumptions C03_npy_writer.

(* ... so the file parses back to EXACTLY what was appended, in order, iff the element count equals the
   declared shape -- export_waveforms' final assertion [prod(shape) == size_written]; with fewer elements
   np.load fails, with more it succeeds but the surplus is lost. *)
Theorem C03_npy_writer_iff : forall (A B : Type) (itemsize : dtype -> Z) (tobytes : dtype -> A -> list B)
    (frombytes : dtype -> list B -> option A) (hdr : list Z -> dtype -> list B)
    (parse_hdr : list B -> option (list Z * dtype * list B)),
  (forall shape d rest, parse_hdr (hdr shape d ++ rest) = Some (shape, d, rest)) ->
  (forall d a, zlen (tobytes d a) = itemsize d) -> (forall d, 1 <= itemsize d) ->
  (forall d a, frombytes d (tobytes d a) = Some a) ->
  forall (shape : list Z) (d : dtype) (cs : list (ndarr A)),
  Forall (fun x => 0 <= x) shape ->
  Forall (fun c => append_ok shape c = true /\ a_dtype c = d) cs ->
  exists file, npy_file tobytes hdr shape d cs = Some file /\
    (size_written cs < zprod shape -> np_load_bytes itemsize frombytes parse_hdr file = None) /\
    (zprod shape < size_written cs ->
       exists els, np_load_bytes itemsize frombytes parse_hdr file = Some (shape, d, els) /\
                   zlen els = zprod shape /\ els <> flat_map (@a_flat A) cs) /\
    (export_assert shape cs = true <->
       np_load_bytes itemsize frombytes parse_hdr file = Some (shape, d, flat_map (@a_flat A) cs)).
Proof. exact (@npy_writer_iff). Qed.
Print Assumptions C03_npy_writer_iff.

(* the repaired defect 7bdfb3a, at the byte level: chunks written in a NARROWER dtype than the declared one
   (int16 / float32 payload under the float64 header) with the right element count: np.load fails *)
Theorem C03_npy_dtype_mismatch : forall (A B : Type) (itemsize : dtype -> Z) (tobytes : dtype -> A -> list B)
    (frombytes : dtype -> list B -> option A) (hdr : list Z -> dtype -> list B)
    (parse_hdr : list B -> option (list Z * dtype * list B)),
  (forall shape d rest, parse_hdr (hdr shape d ++ rest) = Some (shape, d, rest)) ->
  (forall d a, zlen (tobytes d a) = itemsize d) -> (forall d, 1 <= itemsize d) ->
  forall (shape : list Z) (d d' : dtype) (cs : list (ndarr A)),
  Forall (fun x => 0 <= x) shape ->
  Forall (fun c => append_ok shape c = true /\ a_dtype c = d') cs ->
  itemsize d' < itemsize d -> export_assert shape cs = true -> 0 < zprod shape ->
  exists file, npy_file tobytes hdr shape d cs = Some file /\
    np_load_bytes itemsize frombytes parse_hdr file = None.
Proof. exact (@npy_dtype_mismatch). Qed.
Print Assumptions C03_npy_dtype_mismatch.

(* with [tobytes] injective and length-preserving per dtype (no decoder): the bytes determine the elements --
   two runs of the writer leaving the same file appended the same elements *)
Theorem C03_npy_file_unique : forall (A B : Type) (itemsize : dtype -> Z) (tobytes : dtype -> A -> list B)
    (hdr : list Z -> dtype -> list B),
  (forall d a, zlen (tobytes d a) = itemsize d) -> (forall d, 1 <= itemsize d) ->
  (forall d a b, tobytes d a = tobytes d b -> a = b) ->
  forall (shape : list Z) (d : dtype) (cs1 cs2 : list (ndarr A)) (file : list B),
  Forall (fun c => append_ok shape c = true /\ a_dtype c = d) cs1 ->
  Forall (fun c => append_ok shape c = true /\ a_dtype c = d) cs2 ->
  npy_file tobytes hdr shape d cs1 = Some file -> npy_file tobytes hdr shape d cs2 = Some file ->
  flat_map (@a_flat A) cs1 = flat_map (@a_flat A) cs2.
Proof. exact (@npy_file_unique). Qed.
Print Assumptions C03_npy_file_unique.

(* C03_export down to the bytes: the file is written, the final assertion holds, np.load of the BYTES gives
   (n_spikes, n, nc), float64 and -- regrouped in C order -- window x factor per spike in spike order; the
   abstract file of [export] has the same shape and the same elements. *)
Theorem C03_export_bytes : forall (A B : Type) (zero : A) (scale : A -> A) (itemsize : dtype -> Z)
    (tobytes : dtype -> A -> list B) (frombytes : dtype -> list B -> option A)
    (hdr : list Z -> dtype -> list B) (parse_hdr : list B -> option (list Z * dtype * list B)),
  (forall shape d rest, parse_hdr (hdr shape d ++ rest) = Some (shape, d, rest)) ->
  (forall d a, zlen (tobytes d a) = itemsize d) -> (forall d, 1 <= itemsize d) ->
  (forall d a, frombytes d (tobytes d a) = Some a) ->
  forall (c : Z) (data : list (list A)) (n nc : Z) (chunks : list iv) (spikes : list spike) (k : fkind),
  rect c data -> 1 <= c -> 1 <= n -> 0 <= nc -> spikes_ok (zlen data) c nc spikes ->
  Tiles (zlen data) chunks ->
  exists file els f,
    export_bytes zero scale tobytes hdr data n chunks spikes nc k = Some (file, true) /\
    np_load_bytes itemsize frombytes parse_hdr file = Some ([zlen spikes; n; nc], F64, els) /\
    reshape3 (zlen spikes) n nc els = scaled_windows zero scale data n spikes /\
    export zero scale data n chunks spikes nc k = Some f /\ npy_payload f = els /\
    npy_shape f = [zlen spikes; n; nc].
Proof. exact (@export_bytes_load). Qed.
Print Assumptions C03_export_bytes.

(* iter_waveforms on ANY spike vector inside the recording (sorted or not) over ANY list of chunks: each chunk
   yields the windows of the spikes it holds, in the vector's order ([by_chunk]); over a tiling chunking this
   is a permutation of the spikes: every spike exactly once -- but in CHUNK order, which is spike order only
   for a sorted vector (C03_iter).  The statement's "sorted" is needed for "in spike order": C03_ex_unsorted. *)
Theorem C03_iter_any_order : forall (A : Type) (zero : A) (c : Z) (data : list (list A)) (n nc : Z)
    (chunks : list iv) (spikes : list spike),
  rect c data -> 1 <= c -> 1 <= n -> spikes_in (zlen data) c nc spikes -> Tiles (zlen data) chunks ->
  exists batches, iter_wave zero data n chunks spikes = Some batches /\
    concat batches = map (spike_window zero data n) (by_chunk chunks spikes) /\
    Permutation (by_chunk chunks spikes) spikes /\
    Permutation (concat batches) (map (spike_window zero data n) spikes).
Proof. exact (@iter_wave_any_order). Qed.
Print Assumptions C03_iter_any_order.

(* Window_Spec has one solution (at least one channel), namely [window] *)
Theorem C03_window_unique : forall (A : Type) (zero : A) (c : Z) (data : list (list A)) (s n : Z)
    (chans : list Z) (w : list (list A)),
  rect c data -> chans_ok c chans -> 0 <= n -> chans <> [] ->
  Window_Spec zero data s n chans w -> w = window zero data s n chans.
Proof. exact (@window_spec_is_window). Qed.
Print Assumptions C03_window_unique.

(* completeness of the comparator's clauses (converse of C03_checker_sound): an observed array that satisfies
   the declarative clause makes the boolean clause true -- no correct output is ever flagged *)
Theorem C03_checker_complete : forall (scale : Z -> Z) (c : Z) (data : list (list Z)) (samples : list Z) (n : Z)
    (chans : list Z) (spikes : list spike) (q_pos q_ch : list Z) (nc : Z) (shape : list Z)
    (obs : list (list (list Z))),
  rect c data -> 0 <= n ->
  (Extract_Spec 0 data samples n chans obs -> chans_ok c chans -> chans <> [] ->
     extract_spec_b data samples n chans obs = true) /\
  (shape = [zlen spikes; n; nc] -> export_shape_b spikes n nc shape = true) /\
  (Export_Spec 0 scale data n spikes obs -> Forall (fun sp => chans_ok c (sp_ch sp) /\ sp_ch sp <> []) spikes ->
     export_spec_b scale data n spikes obs = true) /\
  (Store_Spec 0 scale data n spikes q_pos q_ch obs -> chans_ok c q_ch -> q_ch <> [] ->
     store_spec_b scale data n spikes q_pos q_ch obs = true).
Proof. exact checker_complete. Qed.
Print Assumptions C03_checker_complete.

(* error exits of the look-up: on a store built from an export, get_spike_waveforms fails EXACTLY when one of its
   three assertions fails (a queried id the store does not hold, n <= 0, no channel) -- the AssertionError that
   TemplateModel.get_waveforms catches to fall back to the raw data -- and otherwise returns one entry per
   queried id.  No other failure (IndexError, shape mismatch) exists on such a store. *)
Theorem C03_store_total : forall (A : Type) (zero : A) (scale : A -> A) (c : Z) (data : list (list A)) (n : Z)
    (spikes : list spike) (ids q_ids q_ch : list Z),
  Forall (fun sp => chans_ok c (sp_ch sp)) spikes ->
  Forall (fun x => 0 <= x) ids -> zlen ids = zlen spikes -> Forall (fun ch => -1 <= ch) q_ch ->
  let st := mkstore ids (map sp_ch spikes) (scaled_windows zero scale data n spikes) in
  (gsw_asserts q_ids q_ch st n = false -> get_spike_waveforms zero q_ids q_ch st n = None) /\
  (gsw_asserts q_ids q_ch st n = true ->
     exists out, get_spike_waveforms zero q_ids q_ch st n = Some out /\ zlen out = zlen q_ids) /\
  (gsw_asserts q_ids q_ch st n = true <->
     Forall (fun x => In x ids) q_ids /\ 1 <= n /\ q_ch <> []).
Proof. exact (@store_total). Qed.
Print Assumptions C03_store_total.

(* totality of the dispatch: with raw data, TemplateModel.get_waveforms always answers with one entry per
   queried id (store when it holds every queried id, raw data otherwise), for every query inside spike_samples
   (negative ids wrap) on channels in {-1} u [0, c): no error exit is reachable.  Without raw data the only
   error exit is a queried id that the store does not hold (C03_route_model_fallback). *)
Theorem C03_route_model_total : forall (A : Type) (zero : A) (scale : A -> A) (c : Z) (data sdata : list (list A))
    (samples : list Z) (n nch : Z) (spikes : list spike) (ids q_ids : list Z) (channel_ids : option (list Z)),
  rect c data -> 1 <= c -> 1 <= n ->
  Forall (fun s => 0 <= s < zlen data) samples ->
  Forall (fun sp => chans_ok c (sp_ch sp)) spikes ->
  Forall (fun x => 0 <= x) ids -> zlen ids = zlen spikes ->
  Forall (fun i => - zlen samples <= i < zlen samples) q_ids ->
  chans_ok c (route_chans nch channel_ids) ->
  exists w,
    model_get_waveforms zero (Some data)
      (Some (mkstore ids (map sp_ch spikes) (scaled_windows zero scale sdata n spikes)))
      samples n nch q_ids channel_ids = GwOut w /\ zlen w = zlen q_ids.
Proof. exact (@route_total). Qed.
Print Assumptions C03_route_model_total.

(* totality of _extract_waveform on a spike inside the recording: it fails exactly when some channel is not a
   valid NumPy column index (outside [-c, c): IndexError); the slice, the two paddings and the final shape
   assertion never fail, for any window length >= 1 and any position of the spike.  Channels in [-c, -2] are
   valid indices (they wrap) but outside the property's channel lists: the result then only has the right
   number of rows. *)
Theorem C03_extract_total : forall (A : Type) (zero : A) (c : Z) (data : list (list A)) (s n : Z) (chans : list Z),
  rect c data -> 1 <= c -> 0 <= s < zlen data -> 1 <= n ->
  (Forall (fun ch => - c <= ch < c) chans ->
     exists w, extract zero data s n chans = Some w /\ zlen w = n) /\
  (Exists (fun ch => ~ (- c <= ch < c)) chans -> extract zero data s n chans = None).
Proof. exact (@extract_total). Qed.
Print Assumptions C03_extract_total.

(* link to C01 (reader indexing): _extract_waveform on a reader over ANY number of files -- the rows taken by
   C01's line-by-line model of reader[max(0, t0):t1] (a stop beyond the end is clipped: C01_slice_clipped) -- is
   [extract] on the concatenation, hence the zero-padded window of the concatenated recording.  This turns the
   item "multi-file readers return slices of the concatenation", trusted in stages 1-2, into a theorem. *)
Theorem C03_extract_reader : forall (A : Type) (zero : A) (c : Z) (parts : list (list (list A))) (s n : Z)
    (chans : list Z),
  rect c (concat parts) -> 1 <= c -> chans_ok c chans -> 0 <= s < zlen (concat parts) -> 1 <= n ->
  extract_reader zero parts s n chans = extract zero (concat parts) s n chans /\
  extract_reader zero parts s n chans = Some (window zero (concat parts) s n chans).
Proof. exact (@extract_reader_both). Qed.
Print Assumptions C03_extract_reader.

(* ---- stage 3: non-vacuity ---- *)
(* the concrete byte layout of ModelNpy.v (lay_*: itemsize 2/4/8; an element = its value followed by zero bytes;
   the header = number of dimensions, the dimensions, a dtype code) meets the premises *)
Example C03_ex_bytes_premises :
  (forall shape d rest, lay_parse (lay_hdr shape d ++ rest) = Some (shape, d, rest)) /\
  (forall d a, zlen (lay_tob d a) = lay_isz d) /\ (forall d, 1 <= lay_isz d) /\
  (forall d a, lay_fromb d (lay_tob d a) = Some a) /\ (forall d a b, lay_tob d a = lay_tob d b -> a = b).
Proof.
  repeat split.
  - intros shape d rest. unfold lay_parse, lay_hdr. cbn [app]. unfold zlen. rewrite Nat2Z.id, <- app_assoc.
    rewrite skipn_app, Nat.sub_diag, skipn_all, firstn_app, Nat.sub_diag, firstn_all. cbn [app skipn firstn].
    rewrite app_nil_r. destruct d; reflexivity.
  - intros d a. destruct d; reflexivity.
  - intros d. destruct d; cbn; lia.
  - intros d a b H. injection H. auto.
Qed.
(* declared (2, 1, 2); appended: an empty chunk, one row, an empty chunk, one row -> loads, in order *)
Definition ex_row (v : Z) : ndarr Z := mkarr [1; 1; 2] F64 [v; v + 1].
Definition ex_empty : ndarr Z := mkarr [0; 1; 2] F64 [].
Example C03_ex_npy_exact :
  option_map (np_load_bytes lay_isz lay_fromb lay_parse) (npy_file lay_tob lay_hdr [2; 1; 2] F64 [ex_empty; ex_row 5; ex_empty; ex_row 7]) =
    Some (Some ([2; 1; 2], F64, [5; 6; 7; 8])) /\
  export_assert [2; 1; 2] [ex_empty; ex_row 5; ex_empty; ex_row 7] = true /\
  (* no chunk at all under a declared (0, 1, 2): loads as the empty array *)
  option_map (np_load_bytes lay_isz lay_fromb lay_parse) (npy_file lay_tob lay_hdr [0; 1; 2] F64 []) = Some (Some ([0; 1; 2], F64, [])).
Proof. vm_compute. repeat split; reflexivity. Qed.
(* one row short: np.load fails; one row too many: loads, the last row is lost, and the assertion is false;
   an int16 payload of the right element count under the float64 header: fails; a chunk with other trailing
   dimensions: append asserts *)
Example C03_ex_npy_otherwise :
  option_map (np_load_bytes lay_isz lay_fromb lay_parse) (npy_file lay_tob lay_hdr [2; 1; 2] F64 [ex_row 5]) = Some None /\
  option_map (np_load_bytes lay_isz lay_fromb lay_parse) (npy_file lay_tob lay_hdr [2; 1; 2] F64 [ex_row 5; ex_row 7; ex_row 9]) =
    Some (Some ([2; 1; 2], F64, [5; 6; 7; 8])) /\
  export_assert [2; 1; 2] [ex_row 5; ex_row 7; ex_row 9] = false /\
  option_map (np_load_bytes lay_isz lay_fromb lay_parse)
    (npy_file lay_tob lay_hdr [2; 1; 2] F64 [mkarr [2; 1; 2] I16 [5; 6; 7; 8]]) = Some None /\
  npy_file lay_tob lay_hdr [2; 1; 2] F64 [mkarr [1; 2; 1] F64 [5; 6]] = None.
Proof. vm_compute. repeat split; reflexivity. Qed.
(* the export of C03_ex_export at the byte level *)
Example C03_ex_export_bytes :
  option_map (fun p => (np_load_bytes lay_isz lay_fromb lay_parse (fst p), snd p))
    (export_bytes 0 (fun v => v * 5) lay_tob lay_hdr ex_data 2 [mkiv 0 2; mkiv 2 3] [mkspike 0 [0; 1]; mkspike 2 [1; -1]] 2 PyFloat) =
  Some (Some ([2; 2; 2], F64, [0; 0; 5; 10; 60; 0; 110; 0]), true).
Proof. vm_compute. reflexivity. Qed.
(* the boundary "sorted": the vector [2; 0] over the chunks [0,2) [2,3) comes out in CHUNK order (spike 0
   first), so the exported file is NOT in spike order -- with one chunk the vector's order is kept *)
Definition ex_unsorted := [mkspike 2 [1; -1]; mkspike 0 [0; 1]].
Example C03_ex_unsorted :
  iter_wave 0 ex_data 2 ex_chunks ex_unsorted = Some [[[[0; 0]; [1; 2]]]; [[[12; 0]; [22; 0]]]] /\
  by_chunk ex_chunks ex_unsorted = [mkspike 0 [0; 1]; mkspike 2 [1; -1]] /\
  map (spike_window 0 ex_data 2) ex_unsorted = [[[12; 0]; [22; 0]]; [[0; 0]; [1; 2]]] /\
  option_map (fun f => np_load f) (export 0 (fun v => v) ex_data 2 ex_chunks ex_unsorted 2 PyFloat) =
    Some (Some [[[0; 0]; [1; 2]]; [[12; 0]; [22; 0]]]) /\
  iter_wave 0 ex_data 2 [mkiv 0 3] ex_unsorted = Some [[[[12; 0]; [22; 0]]; [[0; 0]; [1; 2]]]].
Proof. vm_compute. repeat split; reflexivity. Qed.
(* completeness is live: the window meets Window_Spec's checker, and the error exits are as stated *)
Example C03_ex_total :
  option_map (fun st => (gsw_asserts [3; 9] [0] st 2, get_spike_waveforms 0 [3; 9] [0] st 2)) ex_store = Some (false, None) /\
  option_map (fun st => (gsw_asserts [3] [] st 2, get_spike_waveforms 0 [3] [] st 2)) ex_store = Some (false, None) /\
  option_map (fun st => (gsw_asserts [3] [0] st 0, get_spike_waveforms 0 [3] [0] st 0)) ex_store = Some (false, None) /\
  option_map (fun st => gsw_asserts [3; 7] [0] st 2) ex_store = Some true.
Proof. vm_compute. repeat split; reflexivity. Qed.
(* error exits of the extraction: channel 2 of a 2-channel recording, a window length 0; channel -2 wraps *)
Example C03_ex_extract_total :
  extract 0 ex_data 1 2 [0; 2] = None /\ extract 0 ex_data 1 0 [0] = None /\
  extract 0 ex_data 1 2 [-2; 1] = Some [[1; 2]; [11; 12]].
Proof. vm_compute. repeat split; reflexivity. Qed.
(* a recording in two files (2 + 1 samples); window 4 around the last sample: crosses the file bound and
   overflows the end (stop 4 > 3 samples, clipped by the reader) *)
Example C03_ex_extract_reader :
  extract_reader 0 [[[1; 2]; [11; 12]]; [[21; 22]]] 2 4 [1; -1] = Some [[2; 0]; [12; 0]; [22; 0]; [0; 0]] /\
  extract 0 ex_data 2 4 [1; -1] = Some [[2; 0]; [12; 0]; [22; 0]; [0; 0]].
Proof. vm_compute. split; reflexivity. Qed.
