(* C03/Props.v -- the property theorems, and nothing else.  Each is closed by [exact] of a lemma of
   Proofs*.v and followed by Print Assumptions.
   Common premises: [rect c data] = every row of the recording has c channels, 1 <= c;
   [chans_ok c chans] = channel entries in {-1} u [0, c); [A] = any sample type with a zero. *)
From Coq Require Import ZArith List Lia Bool.
From PV Require Import Base.PySlice Base.NpSearch Base.NpList C16.Model C16.Spec C03.Model C03.Spec C03.Proofs.
Import ListNotations.
Open Scope Z_scope.

(* Direct extraction returns exactly the zero-padded window, for every recording, every spike
   inside it (including 0, the last sample, closer than n//2 to either end, and recordings shorter
   than the window), every window length >= 1 (odd or even) and every channel list. *)
Theorem C03_extract : forall (A : Type) (zero : A) (c : Z) (data : list (list A)) (s n : Z) (chans : list Z),
  rect c data -> 1 <= c -> chans_ok c chans -> 0 <= s < zlen data -> 1 <= n ->
  extract zero data s n chans = Some (window zero data s n chans).
Proof. exact (@extract_window). Qed.
Print Assumptions C03_extract.

(* extract_waveforms: one window per spike, in the order given (no sortedness needed) *)
Theorem C03_extract_waveforms : forall (A : Type) (zero : A) (c : Z) (data : list (list A))
    (samples : list Z) (n : Z) (chans : list Z),
  rect c data -> 1 <= c -> chans_ok c chans -> 1 <= n ->
  Forall (fun s => 0 <= s < zlen data) samples ->
  extract_waveforms zero data samples n chans = Some (map (fun s => window zero data s n chans) samples).
Proof. exact (@extract_waveforms_windows). Qed.
Print Assumptions C03_extract_waveforms.

(* [window] is the statement of the property cell by cell, with no default value involved *)
Theorem C03_window_meaning : forall (A : Type) (zero : A) (c : Z) (data : list (list A)) (s n : Z) (chans : list Z),
  rect c data -> chans_ok c chans -> 0 <= n ->
  Window_Spec zero data s n chans (window zero data s n chans).
Proof. exact (@window_meets_spec). Qed.
Print Assumptions C03_window_meaning.

(* Chunk-by-chunk iteration: over ANY chunking whose non-empty intervals tile the recording in
   order, every spike of a sorted spike vector is extracted exactly once, in spike order, whatever
   its position relative to the chunk boundaries; no empty batch is yielded. *)
Theorem C03_iter : forall (A : Type) (zero : A) (c : Z) (data : list (list A)) (n nc : Z)
    (chunks : list iv) (spikes : list spike),
  rect c data -> 1 <= c -> 1 <= n -> spikes_ok (zlen data) c nc spikes -> Tiles (zlen data) chunks ->
  exists batches, iter_wave zero data n chunks spikes = Some batches /\
    concat batches = map (spike_window zero data n) spikes /\
    Forall (fun b => b <> []) batches.
Proof. exact (@iter_wave_windows). Qed.
Print Assumptions C03_iter.

(* ... in particular over the chunks of flat/array readers (any files, any chunk length) ... *)
Theorem C03_iter_flat : forall (A : Type) (zero : A) (c : Z) (data : list (list A)) (n nc : Z)
    (spikes : list spike) (sizes : list Z) (cs : Z),
  rect c data -> 1 <= c -> 1 <= n -> spikes_ok (zlen data) c nc spikes ->
  sizes <> [] -> (forall x, In x sizes -> 0 <= x) -> 1 <= cs -> zsum sizes = zlen data ->
  exists b batches, get_chunk_bounds sizes cs = Some b /\
    iter_wave zero data n (iter_base b) spikes = Some batches /\
    concat batches = map (spike_window zero data n) spikes.
Proof. exact (@iter_wave_flat). Qed.
Print Assumptions C03_iter_flat.

(* ... and over the look-behind batches of the compressed reader (any chunk bounds, batch size) *)
Theorem C03_iter_mtscomp : forall (A : Type) (zero : A) (c : Z) (data : list (list A)) (n nc : Z)
    (spikes : list spike) (cb : list Z) (bs : Z),
  rect c data -> 1 <= c -> 1 <= n -> spikes_ok (zlen data) c nc spikes ->
  (exists r cs, cb = 0 :: r /\ chainP cs 0 r) -> 2 <= zlen cb -> last cb 0 = zlen data -> 1 <= bs ->
  exists l batches, iter_mtscomp cb bs = Some l /\
    iter_wave zero data n l spikes = Some batches /\
    concat batches = map (spike_window zero data n) spikes.
Proof. exact (@iter_wave_mtscomp). Qed.
Print Assumptions C03_iter_mtscomp.

(* Export: the file is written (the size assertion holds), its payload has the declared dtype for
   every kind of unit factor (computed from the promotion table, not assumed), it loads as an array
   of the declared shape (n_spikes, n, nc), and what is loaded is window x factor, in spike order. *)
Theorem C03_export : forall (A : Type) (zero : A) (scale : A -> A) (c : Z) (data : list (list A))
    (n nc : Z) (chunks : list iv) (spikes : list spike) (k : fkind),
  rect c data -> 1 <= c -> 1 <= n -> 0 <= nc -> spikes_ok (zlen data) c nc spikes ->
  Tiles (zlen data) chunks ->
  exists f, export zero scale data n chunks spikes nc k = Some f /\
    npy_shape f = [zlen spikes; n; nc] /\ npy_pdtype f = npy_descr f /\
    np_load f = Some (scaled_windows zero scale data n spikes).
Proof. exact (@export_load). Qed.
Print Assumptions C03_export.

(* ---- non-vacuity: concrete, non-trivial instances ---- *)
Definition ex_data : list (list Z) := [[1; 2]; [11; 12]; [21; 22]].
(* recording shorter than the window, overflow on both sides, a -1 channel *)
Example C03_ex_extract : extract 0 ex_data 1 8 [1; -1] =
  Some [[0; 0]; [0; 0]; [0; 0]; [2; 0]; [12; 0]; [22; 0]; [0; 0]; [0; 0]].
Proof. vm_compute. reflexivity. Qed.
Example C03_ex_window : window 0 ex_data 1 8 [1; -1] =
  [[0; 0]; [0; 0]; [0; 0]; [2; 0]; [12; 0]; [22; 0]; [0; 0]; [0; 0]].
Proof. vm_compute. reflexivity. Qed.
(* two files (2 + 1 samples), chunk length 2: chunks [0,2) [2,3); a spike exactly on the bound *)
Example C03_ex_iter :
  iter_wave 0 ex_data 2 [mkiv 0 2; mkiv 2 3] [mkspike 0 [0; 1]; mkspike 2 [1; -1]] =
  Some [[[[0; 0]; [1; 2]]]; [[[12; 0]; [22; 0]]]].
Proof. vm_compute. reflexivity. Qed.
Example C03_ex_premises :
  spikes_ok_b 3 2 2 [mkspike 0 [0; 1]; mkspike 2 [1; -1]] = true /\ tiles_b 3 [mkiv 0 2; mkiv 2 3] = true.
Proof. vm_compute. split; reflexivity. Qed.
Example C03_ex_export :
  option_map (fun f => (npy_shape f, np_load f))
    (export 0 (fun v => v * 5) ex_data 2 [mkiv 0 2; mkiv 2 3] [mkspike 0 [0; 1]; mkspike 2 [1; -1]] 2 PyFloat) =
  Some ([2; 2; 2], Some [[[0; 0]; [5; 10]]; [[60; 0]; [110; 0]]]).
Proof. vm_compute. reflexivity. Qed.
