(* C02/Model.v -- executable model of the deferred-operation machinery of the raw-data readers.
   No proofs here.   phylib/io/traces.py:
     _apply_op (148-152), BaseEphysReader.__getitem__ (215-238, the 'cols' op), _append_op (240-245),
     _apply_ops (247-250), the operator dunders (252-298).

   Three layers:
   (1) expressions and their compilation into the list of deferred (operator, argument) pairs, exactly
       as the dunders append them (each dunder = one _append_op; reader[:, cols] = one 'cols' op);
   (2) _apply_ops / __getitem__ over an ABSTRACT element semantics: [sem c d a] is what NumPy's
       array-with-scalar operator [c] does to ONE element [a] of an array of dtype [d] (None = NumPy
       raises), [dsem c d] is the result dtype (None = NumPy raises whatever the values are).  Any
       functions are allowed, dtype-changing ones included.  The rows come from an abstract row reader
       [rows : item -> option (list (list A))] (C01's subject).  An array carries its dtype AND its
       column count, so that a block of 0 rows (an empty row selection) still has a shape and a dtype
       to be compared: _apply_ops runs on it like on any other block;
   (3) derivation histories: a functional store of readers (each reader = its own op list), and a
       HEAP-level model of _append_op in which op lists are mutable objects at locations: copy.copy
       aliases the parent's list, list(...) allocates a fresh one, append mutates in place.  The variant
       without the list(...) copy is also defined (h_append_op_alias) so that its failure can be shown. *)
From Coq Require Import ZArith List Lia Bool.
From PV Require Import Base.PySlice Base.NpSearch C01.Model.
Import ListNotations.
Open Scope Z_scope.

(* ---------------------------------------------------------------------------------------- *)
(* deferred operations                                                                        *)
(* ---------------------------------------------------------------------------------------- *)
(* the operator names the dunders pass to _append_op; _apply_op calls arr.__<name>__ *)
Inductive opname := NPos | NNeg | NAdd | NRadd | NSub | NRsub | NMul | NRmul | NTruediv | NRtruediv
                  | NFloordiv | NRfloordiv | NPow | NRpow.

(* scalar arguments: a Python int, or a finite Python float m * 2^e (m odd, or m = 0 and e = 0) *)
Inductive scalar := SInt (z : Z) | SFlt (m e : Z).

(* one entry of reader._ops other than 'cols': (name, arg); arg = None for the unary operators *)
Record code := mkcode { c_op : opname; c_arg : option scalar }.

Inductive op :=
| OMap (c : code)             (* (name, arg): an elementwise array-with-scalar operator *)
| OCols (sel : colsel).       (* ('cols', sel): arr[:, sel] *)

(* ---------------------------------------------------------------------------------------- *)
(* expressions over a reader, and what the dunders build                                      *)
(* ---------------------------------------------------------------------------------------- *)
Inductive unop := UPos | UNeg.
Inductive binop := BAdd | BSub | BMul | BTruediv | BFloordiv | BPow.

Inductive expr :=
| EBase                                          (* the reader itself *)
| EUn (u : unop) (e : expr)                      (* +e, -e *)
| EBinL (b : binop) (e : expr) (s : scalar)      (* e <b> s : e.__b__(s) *)
| EBinR (b : binop) (s : scalar) (e : expr)      (* s <b> e : e.__rb__(s) (int/float return NotImplemented) *)
| ECols (e : expr) (sel : colsel).               (* e[:, sel] *)

Definition un_name (u : unop) : opname := match u with UPos => NPos | UNeg => NNeg end.
Definition bin_name (b : binop) : opname :=
  match b with BAdd => NAdd | BSub => NSub | BMul => NMul | BTruediv => NTruediv
             | BFloordiv => NFloordiv | BPow => NPow end.
Definition rbin_name (b : binop) : opname :=
  match b with BAdd => NRadd | BSub => NRsub | BMul => NRmul | BTruediv => NRtruediv
             | BFloordiv => NRfloordiv | BPow => NRpow end.

(* __pos__/__neg__: _append_op(name) (arg defaults to None); binary dunders: _append_op(name, arg) *)
Definition un_code (u : unop) : code := mkcode (un_name u) None.
Definition bin_code (b : binop) (s : scalar) : code := mkcode (bin_name b) (Some s).
Definition rbin_code (b : binop) (s : scalar) : code := mkcode (rbin_name b) (Some s).

(* reader._ops of the reader an expression evaluates to, starting from a reader without ops:
   every dunder clones and appends ONE entry at the end *)
Fixpoint compile (e : expr) : list op :=
  match e with
  | EBase => []
  | EUn u e' => compile e' ++ [OMap (un_code u)]
  | EBinL b e' s => compile e' ++ [OMap (bin_code b s)]
  | EBinR b s e' => compile e' ++ [OMap (rbin_code b s)]
  | ECols e' sel => compile e' ++ [OCols sel]
  end.

(* the expression a reader denotes after one more derivation step with the deferred entry [o]
   (inverse reading of the dunders; an entry no dunder can produce denotes nothing) *)
Definition name_expr (n : opname) (a : option scalar) (e : expr) : option expr :=
  match n, a with
  | NPos, None => Some (EUn UPos e)
  | NNeg, None => Some (EUn UNeg e)
  | NAdd, Some s => Some (EBinL BAdd e s)
  | NRadd, Some s => Some (EBinR BAdd s e)
  | NSub, Some s => Some (EBinL BSub e s)
  | NRsub, Some s => Some (EBinR BSub s e)
  | NMul, Some s => Some (EBinL BMul e s)
  | NRmul, Some s => Some (EBinR BMul s e)
  | NTruediv, Some s => Some (EBinL BTruediv e s)
  | NRtruediv, Some s => Some (EBinR BTruediv s e)
  | NFloordiv, Some s => Some (EBinL BFloordiv e s)
  | NRfloordiv, Some s => Some (EBinR BFloordiv s e)
  | NPow, Some s => Some (EBinL BPow e s)
  | NRpow, Some s => Some (EBinR BPow s e)
  | _, _ => None
  end.
Definition op_expr (o : op) (e : expr) : option expr :=
  match o with
  | OMap c => name_expr (c_op c) (c_arg c) e
  | OCols sel => Some (ECols e sel)
  end.

(* ---------------------------------------------------------------------------------------- *)
(* arrays with a dtype, NumPy operators over an abstract element semantics                    *)
(* ---------------------------------------------------------------------------------------- *)
(* a 2-D ndarray: dtype, number of columns (shape[1]) and the rows (shape[0] = their number).  The column
   count is carried explicitly because a block of 0 rows still has a shape (0, c) -- an EMPTY row
   selection of a derived reader must come back with the dtype and the column count the deferred
   operations give it, exactly like a non-empty one. *)
Record arr (A D : Type) := mkarr { a_dt : D; a_nc : Z; a_rows : list (list A) }.
Arguments mkarr {A D} _ _ _.
Arguments a_dt {A D} _.
Arguments a_nc {A D} _.
Arguments a_rows {A D} _.

Section Sem.
Context {A D : Type}.
Variable sem : code -> D -> A -> option A.      (* one element; None: NumPy raises on this element *)
Variable dsem : code -> D -> option D.          (* result dtype; None: NumPy raises for this dtype *)
Notation array := (arr A D).

(* getattr(arr, '__name__')(arg) / ...(): elementwise, whatever the number of rows *)
Definition np_map (c : code) (x : array) : option array :=
  match dsem c (a_dt x) with
  | None => None
  | Some d => option_map (mkarr d (a_nc x)) (mapM (mapM (sem c (a_dt x))) (a_rows x))
  end.

(* arr[:, sel]: the selector is resolved against shape[1] (an out-of-range column raises whatever the
   number of rows, 0 included); the result has one column per resolved index; on rows of length
   shape[1] this is C01's select_cols (Proofs.v: np_cols_select_cols) *)
Definition np_cols (sel : colsel) (x : array) : option array :=
  bind (col_indices (a_nc x) sel) (fun idx =>
    option_map (mkarr (a_dt x) (zlen idx)) (mapM (fun row => gather row idx) (a_rows x))).

(* _apply_op *)
Definition apply_op (o : op) (x : array) : option array :=
  match o with
  | OMap c => np_map c x
  | OCols sel => np_cols sel x
  end.

(* _apply_ops: for op, arg in self._ops: arr = _apply_op(op, arg, arr) *)
Fixpoint apply_ops (ops : list op) (x : array) : option array :=
  match ops with
  | [] => Some x
  | o :: r => bind (apply_op o x) (apply_ops r)
  end.

(* np.atleast_2d(x[it]) of a 2-D array (dtype and column count kept; possibly 0 rows) *)
Definition index_arr (x : array) (it : item) : option array :=
  option_map (mkarr (a_dt x) (a_nc x)) (np_index (a_rows x) it).

(* ---- BaseEphysReader.__getitem__ of a reader whose _ops is [ops] ---- *)
Variable rows : item -> option (list (list A)).   (* the per-part reads + np.vstack (C01) *)
Variable d0 : D.                                  (* sample dtype of the recording *)
Variable c0 : Z.                                  (* n_channels: every part read is a (k, c0) block, k >= 0 *)

Inductive gres :=
| GRows (x : array)               (* a 2-D block *)
| GReader (ops : list op).        (* reader[:, cols]: a clone carrying one more op *)

(* the loop over _get_subitems, np.vstack, then self._apply_ops(out) -- unconditionally, also when the
   stacked block has 0 rows *)
Definition read_rows (ops : list op) (it : item) : option array :=
  bind (rows it) (fun R => apply_ops ops (mkarr d0 c0 R)).

(* item is a 2-tuple: self = self._append_op('cols', cols) first, then either return the clone
   (item[0] is exactly slice(None)) or read with the extended op list *)
Definition reader_getitem (ops : list op) (it : item) (cols : option colsel) : option gres :=
  match cols with
  | None => option_map GRows (read_rows ops it)
  | Some cs =>
      let ops' := ops ++ [OCols cs] in
      if is_whole it then Some (GReader ops') else option_map GRows (read_rows ops' it)
  end.

(* ---------------------------------------------------------------------------------------- *)
(* derivation histories                                                                       *)
(* ---------------------------------------------------------------------------------------- *)
(* readers are numbered in order of creation; reader 0 is the one returned by get_ephys_reader *)
Inductive cmd :=
| CDerive (p : nat) (o : op)                                 (* a dunder on reader p, or reader_p[:, sel] *)
| CRead (r : nat) (it : item) (cols : option colsel).        (* reader_r[it] / reader_r[it, cols] *)

Inductive out :=
| ODerived                  (* a new reader was returned and registered *)
| ORows (x : array)         (* a block *)
| OReader                   (* reader_r[:, cols] evaluated as a read: a reader came back (not registered) *)
| OErr.                     (* the read raised *)

Definition out_of (g : option gres) : out :=
  match g with Some (GRows x) => ORows x | Some (GReader _) => OReader | None => OErr end.

(* ---- (a) functional store: every reader owns its op list ---- *)
Definition fstep (st : list (list op)) (c : cmd) : option (list (list op) * out) :=
  match c with
  | CDerive p o =>
      match nth_error st p with
      | Some ops => Some (st ++ [ops ++ [o]], ODerived)
      | None => None
      end
  | CRead r it cols =>
      match nth_error st r with
      | Some ops => Some (st, out_of (reader_getitem ops it cols))
      | None => None
      end
  end.

Fixpoint frun (cmds : list cmd) (st : list (list op)) : option (list (list op) * list out) :=
  match cmds with
  | [] => Some (st, [])
  | c :: r =>
      match fstep st c with
      | None => None
      | Some (st', o) =>
          match frun r st' with
          | None => None
          | Some (st'', os) => Some (st'', o :: os)
          end
      end
  end.

(* ---- (b) heap: op lists are mutable objects at locations ---- *)
Fixpoint set_nth {X} (l : list X) (n : nat) (v : X) : list X :=
  match l, n with
  | [], _ => []
  | _ :: r, O => v :: r
  | x :: r, S k => x :: set_nth r k v
  end.

(* h_cells: the list objects; h_loc k: the location reader k's _ops attribute points to *)
Record heap := mkheap { h_cells : list (list op); h_loc : list nat }.
(* the heap while _append_op runs: cells, and where clone._ops points *)
Record clone := mkclone { cl_cells : list (list op); cl_ops : nat }.

(* clone = copy.copy(self): a shallow copy, clone._ops IS self._ops *)
Definition copy_copy (cells : list (list op)) (self_ops : nat) : clone := mkclone cells self_ops.
(* clone._ops = list(self._ops): a fresh list object with the same entries *)
Definition own_list (c : clone) (self_ops : nat) : option clone :=
  match nth_error (cl_cells c) self_ops with
  | Some l => Some (mkclone (cl_cells c ++ [l]) (length (cl_cells c)))
  | None => None
  end.
(* clone._ops.append((op, arg)): mutates the list object clone._ops points to *)
Definition append_in_place (c : clone) (o : op) : option clone :=
  match nth_error (cl_cells c) (cl_ops c) with
  | Some l => Some (mkclone (set_nth (cl_cells c) (cl_ops c) (l ++ [o])) (cl_ops c))
  | None => None
  end.

(* _append_op as written *)
Definition h_append_op (cells : list (list op)) (self_ops : nat) (o : op) : option clone :=
  bind (own_list (copy_copy cells self_ops) self_ops) (fun c => append_in_place c o).
(* _append_op without the list(...) line: parent and clone share one list object *)
Definition h_append_op_alias (cells : list (list op)) (self_ops : nat) (o : op) : option clone :=
  append_in_place (copy_copy cells self_ops) o.

Section HeapRun.
Variable ap : list (list op) -> nat -> op -> option clone.   (* which _append_op *)

Definition hstep (h : heap) (c : cmd) : option (heap * out) :=
  match c with
  | CDerive p o =>
      match nth_error (h_loc h) p with
      | None => None
      | Some l =>
          match ap (h_cells h) l o with
          | None => None
          | Some cl => Some (mkheap (cl_cells cl) (h_loc h ++ [cl_ops cl]), ODerived)
          end
      end
  | CRead r it cols =>
      match nth_error (h_loc h) r with
      | None => None
      | Some l =>
          match cols with
          | None =>
              match nth_error (h_cells h) l with
              | None => None
              | Some ops => Some (h, out_of (option_map GRows (read_rows ops it)))
              end
          | Some cs =>
              (* self = self._append_op('cols', cols): a temporary clone, dropped afterwards *)
              match ap (h_cells h) l (OCols cs) with
              | None => None
              | Some cl =>
                  match nth_error (cl_cells cl) (cl_ops cl) with
                  | None => None
                  | Some ops' =>
                      Some (mkheap (cl_cells cl) (h_loc h),
                            if is_whole it then OReader
                            else out_of (option_map GRows (read_rows ops' it)))
                  end
              end
          end
      end
  end.

Fixpoint hrun (cmds : list cmd) (h : heap) : option (heap * list out) :=
  match cmds with
  | [] => Some (h, [])
  | c :: r =>
      match hstep h c with
      | None => None
      | Some (h', o) =>
          match hrun r h' with
          | None => None
          | Some (h'', os) => Some (h'', o :: os)
          end
      end
  end.
End HeapRun.

(* BaseEphysReader.__init__: self._ops = [] *)
Definition heap0 : heap := mkheap [[]] [0%nat].
Definition store0 : list (list op) := [[]].
End Sem.

Arguments GRows {A D} _.
Arguments GReader {A D} _.
Arguments ODerived {A D}.
Arguments ORows {A D} _.
Arguments OReader {A D}.
Arguments OErr {A D}.
