(* C02/Proofs2.v -- the abstract row reader instantiated with C01's model of the multi-part reader
   (PV.C01.Model.getitem_rows) and C01's theorem getitem_rows_np: the premise [rows it = np_index M it]
   of the C02 theorems is discharged on the whole regime of C01 (valid_item). *)
From Coq Require Import ZArith List Lia Bool.
From PV Require Import Base.PySlice Base.NpSearch C01.Model C01.Spec C01.Proofs C02.Model C02.Spec C02.Proofs.
Import ListNotations.
Open Scope Z_scope.

Section Reader.
Context {A D : Type}.
Variable sem : code -> D -> A -> option A.
Variable dsem : code -> D -> option D.
Variable d0 : D.
Variable c0 : Z.
Variable parts : list (list (list A)).        (* the files of the recording *)

Lemma reader_commute (e : expr) (E : arr A D) (it : item) (cols : option colsel) :
  valid_item (zlen (concat parts)) it ->
  eval_eager sem dsem e (mkarr d0 c0 (concat parts)) = Some E ->
  reader_getitem sem dsem (getitem_rows parts) d0 c0 (compile e) it cols =
    match cols with
    | Some cs => if is_whole it then Some (GReader (compile (ECols e cs)))
                 else option_map GRows (then_index E it cols)
    | None => option_map GRows (then_index E it cols)
    end.
Proof.
  intros Hv He. apply (getitem_commute sem dsem (getitem_rows parts) d0 c0 (concat parts)); [|exact He].
  apply getitem_rows_np. exact Hv.
Qed.

Definition valid_cmd (n : Z) (c : cmd) : Prop :=
  match c with CDerive _ _ => True | CRead _ it _ => valid_item n it end.

Lemma reader_tree_commute (cmds : list cmd) h os ros :
  Forall (valid_cmd (zlen (concat parts))) cmds ->
  hrun sem dsem (getitem_rows parts) d0 c0 h_append_op cmds heap0 = Some (h, os) ->
  sruns sem dsem (mkarr d0 c0 (concat parts)) cmds [EBase] = Some ros ->
  Forall2 (@agrees A D) os ros.
Proof.
  intros Hv. apply hrun_tree_commute. intros r it cols Hin.
  apply getitem_rows_np. rewrite Forall_forall in Hv. exact (Hv _ Hin).
Qed.
End Reader.
