(* C02/Proofs.v -- lemmas and main proofs: row selection commutes with every deferred operation,
   hence lazy = eager (any element semantics); compile vs eval_eager; the functional store is
   independent; the heap model of _append_op refines it. *)
From Coq Require Import ZArith List Lia Bool.
From PV Require Import Base.PySlice Base.NpSearch C01.Model C02.Model C02.Spec.
Import ListNotations.
Open Scope Z_scope.

(* ---------------------------------------------------------------------------------------- *)
(* option / mapM algebra                                                                      *)
(* ---------------------------------------------------------------------------------------- *)
Lemma bind_some_r {X} (m : option X) : bind m Some = m.
Proof. destruct m; reflexivity. Qed.
Lemma bind_assoc {X Y Z} (m : option X) (f : X -> option Y) (g : Y -> option Z) :
  bind (bind m f) g = bind m (fun x => bind (f x) g).
Proof. destruct m; reflexivity. Qed.
Lemma bind_option_map {X Y Z} (m : option X) (f : X -> Y) (g : Y -> option Z) :
  bind (option_map f m) g = bind m (fun x => g (f x)).
Proof. destruct m; reflexivity. Qed.
Lemma option_map_bind {X Y Z} (m : option X) (f : X -> option Y) (g : Y -> Z) :
  option_map g (bind m f) = bind m (fun x => option_map g (f x)).
Proof. destruct m; reflexivity. Qed.
Lemma bind_ext {X Y} (m : option X) (f g : X -> option Y) :
  (forall x, f x = g x) -> bind m f = bind m g.
Proof. intros H. destruct m; [apply H|reflexivity]. Qed.

Lemma mapM_cons {X Y} (f : X -> option Y) x r :
  mapM f (x :: r) = match f x with
                    | None => None
                    | Some y => match mapM f r with None => None | Some ys => Some (y :: ys) end
                    end.
Proof. reflexivity. Qed.

Lemma mapM_length {X Y} (f : X -> option Y) l l' : mapM f l = Some l' -> length l' = length l.
Proof.
  revert l'; induction l as [|x r IH]; intros l' H.
  - injection H as <-. reflexivity.
  - rewrite mapM_cons in H. destruct (f x) as [y|]; [|discriminate].
    destruct (mapM f r) as [ys|] eqn:E; [|discriminate]. injection H as <-.
    cbn [length]. f_equal. apply IH. reflexivity.
Qed.

Lemma mapM_nth_error {X Y} (g : X -> option Y) M M' k :
  mapM g M = Some M' -> nth_error M' k = bind (nth_error M k) g.
Proof.
  revert M' k; induction M as [|x r IH]; intros M' k H.
  - injection H as <-. destruct k; reflexivity.
  - rewrite mapM_cons in H. destruct (g x) as [y|] eqn:Ey; [|discriminate].
    destruct (mapM g r) as [ys|] eqn:E; [|discriminate]. injection H as <-.
    destruct k as [|k]; cbn [nth_error bind]; [symmetry; exact Ey|]. apply IH. reflexivity.
Qed.

Lemma mapM_pick {X Y} (g : X -> option Y) M M' i :
  mapM g M = Some M' -> pick M' i = bind (pick M i) g.
Proof.
  intros H. unfold pick. destruct (i <? 0); [reflexivity|]. apply mapM_nth_error. exact H.
Qed.

Lemma gather_mapM {X Y} (g : X -> option Y) M M' idx :
  mapM g M = Some M' -> gather M' idx = bind (gather M idx) (mapM g).
Proof.
  intros H. unfold gather. induction idx as [|i r IH].
  - reflexivity.
  - rewrite !mapM_cons. rewrite (mapM_pick g M M' i H). rewrite IH.
    destruct (pick M i) as [x|]; cbn [bind]; [|reflexivity].
    destruct (mapM (pick M) r) as [xs|]; cbn [bind].
    + rewrite mapM_cons. reflexivity.
    + destruct (g x); reflexivity.
Qed.

Lemma zlen_mapM {X Y} (g : X -> option Y) M M' : mapM g M = Some M' -> zlen M' = zlen M.
Proof. intros H. unfold zlen. f_equal. eapply mapM_length. exact H. Qed.

(* row selection commutes with any per-row function applied to every row *)
Lemma np_index_mapM {X Y} (g : X -> option Y) M M' it :
  mapM g M = Some M' -> np_index M' it = bind (np_index M it) (mapM g).
Proof.
  intros H. unfold np_index. rewrite (zlen_mapM g M M' H).
  destruct (row_indices (zlen M) it) as [idx|]; cbn [bind]; [|reflexivity].
  apply gather_mapM. exact H.
Qed.

(* ---------------------------------------------------------------------------------------- *)
(* lazy = eager                                                                               *)
(* ---------------------------------------------------------------------------------------- *)
Section Commute.
Context {A D : Type}.
Variable sem : code -> D -> A -> option A.
Variable dsem : code -> D -> option D.
Notation array := (arr A D).
Notation apply_op := (apply_op sem dsem).
Notation apply_ops := (apply_ops sem dsem).
Notation eval_eager := (eval_eager sem dsem).

Lemma apply_op_index (o : op) (X X' : array) it :
  apply_op o X = Some X' -> index_arr X' it = bind (index_arr X it) (apply_op o).
Proof.
  destruct X as [dt nc rws]. destruct o as [c|sel]; cbn [Model.apply_op].
  - unfold np_map; cbn [a_dt a_nc a_rows]. destruct (dsem c dt) as [d|] eqn:Ed; [|discriminate].
    destruct (mapM (mapM (sem c dt)) rws) as [rws'|] eqn:Em; [|discriminate].
    cbn [option_map]. intros H; injection H as <-.
    unfold index_arr; cbn [a_dt a_nc a_rows]. rewrite (np_index_mapM _ _ _ it Em).
    rewrite bind_option_map.
    destruct (np_index rws it) as [R|]; cbn [bind option_map]; [|reflexivity].
    cbn [Model.apply_op]. unfold np_map; cbn [a_dt a_nc a_rows]. rewrite Ed. reflexivity.
  - unfold np_cols; cbn [a_dt a_nc a_rows].
    destruct (col_indices nc sel) as [idx|] eqn:Ei; [|discriminate]. cbn [bind].
    destruct (mapM (fun row => gather row idx) rws) as [rws'|] eqn:Em; [|discriminate].
    cbn [option_map]. intros H; injection H as <-.
    unfold index_arr; cbn [a_dt a_nc a_rows]. rewrite (np_index_mapM _ _ _ it Em).
    rewrite bind_option_map.
    destruct (np_index rws it) as [R|]; cbn [bind option_map]; [|reflexivity].
    cbn [Model.apply_op]. unfold np_cols; cbn [a_dt a_nc a_rows]. rewrite Ei. reflexivity.
Qed.

(* arr[:, sel] of an array whose rows all have shape[1] entries is C01's select_cols of the rows *)
Lemma np_cols_select_cols (sel : colsel) (X : array) :
  Forall (fun r => zlen r = a_nc X) (a_rows X) ->
  np_cols sel X =
  bind (col_indices (a_nc X) sel) (fun idx => option_map (mkarr (a_dt X) (zlen idx)) (select_cols sel (a_rows X))).
Proof.
  destruct X as [dt nc rws]; cbn [a_dt a_nc a_rows]. intros Hwf. unfold np_cols; cbn [a_dt a_nc a_rows].
  destruct (col_indices nc sel) as [idx|] eqn:Ei; [|reflexivity].
  cbn [bind]. f_equal. unfold select_cols.
  induction rws as [|r rs IH]; [reflexivity|].
  inversion Hwf as [|? ? Hr Hrs]; subst. rewrite !mapM_cons, (IH Hrs).
  unfold sel_row. rewrite Ei. reflexivity.
Qed.

Lemma apply_ops_index (ops : list op) : forall (X E : array) it,
  apply_ops ops X = Some E -> index_arr E it = bind (index_arr X it) (apply_ops ops).
Proof.
  induction ops as [|o r IH]; intros X E it H.
  - cbn [Model.apply_ops] in *. injection H as <-. symmetry. apply bind_some_r.
  - cbn [Model.apply_ops] in H. destruct (apply_op o X) as [X1|] eqn:E1; [|discriminate].
    cbn [bind] in H. rewrite (IH X1 E it H). rewrite (apply_op_index o X X1 it E1).
    rewrite bind_assoc. reflexivity.
Qed.

Lemma apply_ops_app (a b : list op) (X : array) :
  apply_ops (a ++ b) X = bind (apply_ops a X) (apply_ops b).
Proof.
  revert X; induction a as [|o r IH]; intros X; [reflexivity|].
  cbn [app Model.apply_ops]. destruct (apply_op o X) as [X1|]; cbn [bind]; [apply IH|reflexivity].
Qed.

Lemma apply_ops_one (o : op) (X : array) : apply_ops [o] X = apply_op o X.
Proof. cbn [Model.apply_ops]. apply bind_some_r. Qed.

(* the op list the dunders build denotes the expression *)
Lemma eval_eager_compile (e : expr) (M : array) : eval_eager e M = apply_ops (compile e) M.
Proof.
  induction e as [|u e IH|b e IH s|b s e IH|e IH sel]; cbn [Spec.eval_eager compile];
    [reflexivity| | | | ]; rewrite apply_ops_app, IH; apply bind_ext; intros x;
    rewrite apply_ops_one; reflexivity.
Qed.

Variable rows : item -> option (list (list A)).
Variable d0 : D.
Variable c0 : Z.
Notation read_rows := (read_rows sem dsem rows d0 c0).
Notation reader_getitem := (reader_getitem sem dsem rows d0 c0).

(* reading rows through any op list whose eager value on the whole recording M exists *)
Lemma read_rows_commute (M : list (list A)) (ops : list op) (E : array) it :
  rows it = np_index M it ->
  apply_ops ops (mkarr d0 c0 M) = Some E ->
  read_rows ops it = index_arr E it.
Proof.
  intros Hr He. rewrite (apply_ops_index ops _ E it He).
  unfold Model.read_rows, index_arr; cbn [a_dt a_nc a_rows]. rewrite Hr, bind_option_map. reflexivity.
Qed.

Lemma read_rows_snoc ops o it : read_rows (ops ++ [o]) it = bind (read_rows ops it) (apply_op o).
Proof.
  unfold Model.read_rows. rewrite bind_assoc. apply bind_ext; intros R.
  rewrite apply_ops_app. apply bind_ext; intros x. apply apply_ops_one.
Qed.

(* __getitem__ of a reader with op list [ops], in terms of the eager value E of the op list *)
Lemma getitem_ops_commute (M : list (list A)) (ops : list op) (E : array) it cols :
  rows it = np_index M it ->
  apply_ops ops (mkarr d0 c0 M) = Some E ->
  reader_getitem ops it cols =
    match cols with
    | Some cs => if is_whole it then Some (GReader (ops ++ [OCols cs]))
                 else option_map GRows (then_index E it cols)
    | None => option_map GRows (then_index E it cols)
    end.
Proof.
  intros Hr He. unfold Model.reader_getitem, then_index. destruct cols as [cs|].
  - destruct (is_whole it); [reflexivity|]. f_equal.
    rewrite read_rows_snoc, (read_rows_commute M ops E it Hr He). reflexivity.
  - f_equal. rewrite (read_rows_commute M ops E it Hr He). symmetry. apply bind_some_r.
Qed.

Lemma getitem_commute (M : list (list A)) (e : expr) (E : array) it cols :
  rows it = np_index M it ->
  eval_eager e (mkarr d0 c0 M) = Some E ->
  reader_getitem (compile e) it cols =
    match cols with
    | Some cs => if is_whole it then Some (GReader (compile (ECols e cs)))
                 else option_map GRows (then_index E it cols)
    | None => option_map GRows (then_index E it cols)
    end.
Proof.
  intros Hr He. rewrite eval_eager_compile in He. apply (getitem_ops_commute M); assumption.
Qed.

(* ---------------------------------------------------------------------------------------- *)
(* functional store: independence, and what the readers denote                                *)
(* ---------------------------------------------------------------------------------------- *)
Notation fstep := (fstep sem dsem rows d0 c0).
Notation frun := (frun sem dsem rows d0 c0).

Lemma fstep_keeps st c st' o k ops :
  fstep st c = Some (st', o) -> nth_error st k = Some ops -> nth_error st' k = Some ops.
Proof.
  destruct c as [p o1|r it cols]; cbn [Model.fstep].
  - destruct (nth_error st p) as [pops|]; [|discriminate]. intros H; injection H as <- <-. intros Hk.
    rewrite nth_error_app1; [exact Hk|]. apply nth_error_Some. congruence.
  - destruct (nth_error st r); [|discriminate]. intros H; injection H as <- <-. auto.
Qed.

Lemma frun_keeps cmds : forall st st' os k ops,
  frun cmds st = Some (st', os) -> nth_error st k = Some ops -> nth_error st' k = Some ops.
Proof.
  induction cmds as [|c r IH]; intros st st' os k ops H Hk; cbn [Model.frun] in H.
  - injection H as <- <-. exact Hk.
  - destruct (fstep st c) as [[st1 o]|] eqn:E1; [|discriminate].
    destruct (frun r st1) as [[st2 os2]|] eqn:E2; [|discriminate]. injection H as <- <-.
    eapply IH; [exact E2|]. eapply fstep_keeps; eassumption.
Qed.

(* a read is determined by the reader's own op list *)
Lemma fstep_read st r it cols ops :
  nth_error st r = Some ops ->
  fstep st (CRead r it cols) = Some (st, out_of (reader_getitem ops it cols)).
Proof. intros H. cbn [Model.fstep]. rewrite H. reflexivity. Qed.

Lemma frun_independent cmds st st' os k it cols o :
  frun cmds st = Some (st', os) ->
  fstep st (CRead k it cols) = Some (st, o) ->
  fstep st' (CRead k it cols) = Some (st', o).
Proof.
  intros Hrun Hread. cbn [Model.fstep] in Hread.
  destruct (nth_error st k) as [ops|] eqn:Ek; [|discriminate]. injection Hread as <-.
  apply fstep_read. eapply frun_keeps; eassumption.
Qed.


(* every read of a history is determined by the FINAL store: entries never change once created *)
Lemma frun_reads_final cmds : forall st st' os,
  frun cmds st = Some (st', os) ->
  forall r it cols o, In (CRead r it cols, o) (combine cmds os) ->
  exists ops, nth_error st' r = Some ops /\ o = out_of (reader_getitem ops it cols).
Proof.
  induction cmds as [|c rest IH]; intros st st' os H r it cols o Hin; cbn [Model.frun] in H.
  - injection H as <- <-. destruct Hin.
  - destruct (fstep st c) as [[st1 o1]|] eqn:E1; [|discriminate].
    destruct (frun rest st1) as [[st2 os2]|] eqn:E2; [|discriminate]. injection H as <- <-.
    cbn [combine In] in Hin. destruct Hin as [Hh|Ht].
    + injection Hh as -> ->. cbn [Model.fstep] in E1.
      destruct (nth_error st r) as [ops|] eqn:Er; [|discriminate]. injection E1 as <- <-.
      exists ops. split; [|reflexivity]. eapply frun_keeps; eassumption.
    + eapply IH; eassumption.
Qed.

(* the observation of any history on the functional store is Stable *)
Lemma frun_stable cmds st st' os : frun cmds st = Some (st', os) -> Stable (combine cmds os).
Proof.
  intros H c o c' o' Hin Hin' Hs. pose proof (same_read_eq _ _ Hs) as <-.
  destruct c as [p o1|r it cols]; [discriminate Hs|].
  destruct (frun_reads_final cmds st st' os H r it cols o Hin) as (ops & Hn & ->).
  destruct (frun_reads_final cmds st st' os H r it cols o' Hin') as (ops' & Hn' & ->).
  congruence.
Qed.

(* Den st est: reader k's op list is the compilation of the expression it denotes *)
Definition Den (st : list (list op)) (est : list expr) : Prop :=
  Forall2 (fun ops e => ops = compile e) st est.

Lemma compile_op_expr o e e' : op_expr o e = Some e' -> compile e' = compile e ++ [o].
Proof.
  destruct o as [[n a]|sel]; cbn [op_expr c_op c_arg].
  - destruct n, a as [s|]; cbn [name_expr]; intros H; try discriminate; injection H as <-; reflexivity.
  - intros H; injection H as <-. reflexivity.
Qed.

Lemma Forall2_nth_error {X Y} (R : X -> Y -> Prop) l l' k :
  Forall2 R l l' ->
  match nth_error l k, nth_error l' k with
  | Some x, Some y => R x y
  | None, None => True
  | _, _ => False
  end.
Proof.
  intros H; revert k; induction H as [|x y l l' Hxy H IH]; intros k.
  - destruct k; exact I.
  - destruct k as [|k]; cbn [nth_error]; [exact Hxy|apply IH].
Qed.

Lemma Forall2_snoc {X Y} (R : X -> Y -> Prop) l l' x y :
  Forall2 R l l' -> R x y -> Forall2 R (l ++ [x]) (l' ++ [y]).
Proof. intros H Hxy. apply Forall2_app; [exact H|constructor; [exact Hxy|constructor]]. Qed.

Variable M : list (list A).
Notation sout := (sout sem dsem (mkarr d0 c0 M)).

(* one step: the stores stay related, and the answer is the reference answer whenever the reference
   exists (i.e. whenever NumPy evaluates the reader's expression on the whole recording) *)
Lemma fstep_sstep st est c st' o est' :
  Den st est ->
  (forall r it cols, c = CRead r it cols -> rows it = np_index M it) ->
  fstep st c = Some (st', o) -> sstep est c = Some est' ->
  Den st' est' /\ (forall o', sout est c = Some o' -> o = o').
Proof.
  intros HD Hrows Hf Hs. destruct c as [p o1|r it cols]; cbn [Model.fstep sstep Spec.sout] in *.
  - pose proof (Forall2_nth_error _ _ _ p HD) as Hp.
    destruct (nth_error st p) as [ops|]; [|discriminate].
    destruct (nth_error est p) as [e|]; [|discriminate].
    destruct (op_expr o1 e) as [e'|] eqn:Eo; [|discriminate]. cbn [option_map] in Hs.
    injection Hf as <- <-. injection Hs as <-. split.
    + apply Forall2_snoc; [exact HD|]. rewrite (compile_op_expr _ _ _ Eo). subst ops. reflexivity.
    + intros o' H; injection H as <-. reflexivity.
  - pose proof (Forall2_nth_error _ _ _ r HD) as Hp.
    destruct (nth_error st r) as [ops|]; [|discriminate].
    destruct (nth_error est r) as [e|]; [|discriminate].
    injection Hf as <- <-. injection Hs as <-. split; [exact HD|]. subst ops.
    intros o' Ho. unfold returns_reader in Ho.
    destruct (eval_eager e (mkarr d0 c0 M)) as [E|] eqn:Ee.
    + rewrite (getitem_commute M e E it cols (Hrows r it cols eq_refl) Ee).
      destruct cols as [cs|].
      * destruct (is_whole it); [injection Ho as <-; reflexivity|].
        cbn [option_map] in Ho. injection Ho as <-. reflexivity.
      * cbn [option_map] in Ho. injection Ho as <-. reflexivity.
    + destruct cols as [cs|].
      * destruct (is_whole it) eqn:Ew; [|discriminate].
        injection Ho as <-. unfold Model.reader_getitem. rewrite Ew. reflexivity.
      * discriminate.
Qed.

(* whole histories *)
Lemma frun_sruns cmds : forall st est st' os ros,
  Den st est ->
  (forall r it cols, In (CRead r it cols) cmds -> rows it = np_index M it) ->
  frun cmds st = Some (st', os) -> sruns sem dsem (mkarr d0 c0 M) cmds est = Some ros ->
  Forall2 (@agrees A D) os ros.
Proof.
  induction cmds as [|c r IH]; intros st est st' os ros HD Hrows Hf Hs; cbn [Model.frun sruns] in *.
  - injection Hf as <- <-. injection Hs as <-. constructor.
  - destruct (fstep st c) as [[st1 o]|] eqn:E1; [|discriminate].
    destruct (frun r st1) as [[st2 os2]|] eqn:E2; [|discriminate]. injection Hf as <- <-.
    destruct (sstep est c) as [est1|] eqn:S1; [|discriminate].
    destruct (sruns sem dsem (mkarr d0 c0 M) r est1) as [ros1|] eqn:S2; [|discriminate].
    cbn [option_map] in Hs. injection Hs as <-.
    destruct (fstep_sstep st est c st1 o est1 HD) as [HD1 Ho]; try assumption.
    { intros r0 it cols ->. apply (Hrows r0 it cols). left. reflexivity. }
    constructor.
    + exact Ho.
    + eapply IH; [exact HD1| |exact E2|exact S2]. intros r0 it cols Hin. apply (Hrows r0 it cols). right. exact Hin.
Qed.
End Commute.

(* ---------------------------------------------------------------------------------------- *)
(* heap refinement                                                                            *)
(* ---------------------------------------------------------------------------------------- *)
Lemma set_nth_end {X} (l : list X) (x v : X) : set_nth (l ++ [x]) (length l) v = l ++ [v].
Proof. induction l as [|y r IH]; [reflexivity|]. cbn [app length set_nth]. f_equal. exact IH. Qed.

Lemma nth_error_end {X} (l : list X) (x : X) : nth_error (l ++ [x]) (length l) = Some x.
Proof. rewrite nth_error_app2 by lia. rewrite Nat.sub_diag. reflexivity. Qed.

Lemma nth_error_mono {X} (l l2 : list X) k x : nth_error l k = Some x -> nth_error (l ++ l2) k = Some x.
Proof. intros H. rewrite nth_error_app1; [exact H|]. apply nth_error_Some. congruence. Qed.

(* _append_op as written: allocates ONE new list object holding the parent's entries plus the new
   one, and touches no existing object *)
Lemma h_append_op_eq cells l ops o :
  nth_error cells l = Some ops ->
  h_append_op cells l o = Some (mkclone (cells ++ [ops ++ [o]]) (length cells)).
Proof.
  intros H. unfold h_append_op, copy_copy, own_list; cbn [cl_cells cl_ops]. rewrite H. cbn [bind].
  unfold append_in_place; cbn [cl_cells cl_ops]. rewrite nth_error_end, set_nth_end. reflexivity.
Qed.

Lemma h_append_op_none cells l o : nth_error cells l = None -> h_append_op cells l o = None.
Proof. intros H. unfold h_append_op, copy_copy, own_list; cbn [cl_cells cl_ops]. rewrite H. reflexivity. Qed.

Section Heap.
Context {A D : Type}.
Variable sem : code -> D -> A -> option A.
Variable dsem : code -> D -> option D.
Variable rows : item -> option (list (list A)).
Variable d0 : D.
Variable c0 : Z.
Notation fstep := (fstep sem dsem rows d0 c0).
Notation frun := (frun sem dsem rows d0 c0).
Notation hstep := (hstep sem dsem rows d0 c0 h_append_op).
Notation hrun := (hrun sem dsem rows d0 c0 h_append_op).

(* reader k's _ops attribute points to a list object holding exactly the functional store's entry *)
Definition Abs (h : heap) (st : list (list op)) : Prop :=
  Forall2 (fun l ops => nth_error (h_cells h) l = Some ops) (h_loc h) st.

Lemma Abs_grow cells locs st extra :
  Abs (mkheap cells locs) st -> Abs (mkheap (cells ++ extra) locs) st.
Proof.
  unfold Abs; cbn [h_cells h_loc]. intros H. induction H as [|l ops ls st' H1 H IH]; constructor.
  - apply nth_error_mono. exact H1.
  - exact IH.
Qed.

Lemma hstep_refines h st c :
  Abs h st ->
  match hstep h c, fstep st c with
  | Some (h', o), Some (st', o') => o = o' /\ Abs h' st'
  | None, None => True
  | _, _ => False
  end.
Proof.
  intros HA. destruct h as [cells locs]. destruct c as [p o1|r it cols]; cbn [Model.hstep Model.fstep h_cells h_loc].
  - pose proof (Forall2_nth_error _ _ _ p HA) as Hp; cbn [h_cells h_loc] in Hp.
    destruct (nth_error locs p) as [l|], (nth_error st p) as [ops|]; try exact I; try contradiction.
    rewrite (h_append_op_eq cells l ops o1 Hp); cbn [cl_cells cl_ops]. split; [reflexivity|].
    unfold Abs; cbn [h_cells h_loc]. apply Forall2_snoc.
    + apply (Abs_grow cells locs st [ops ++ [o1]] HA).
    + apply nth_error_end.
  - pose proof (Forall2_nth_error _ _ _ r HA) as Hp; cbn [h_cells h_loc] in Hp.
    destruct (nth_error locs r) as [l|], (nth_error st r) as [ops|]; try exact I; try contradiction.
    destruct cols as [cs|].
    + rewrite (h_append_op_eq cells l ops (OCols cs) Hp); cbn [cl_cells cl_ops].
      rewrite nth_error_end. split.
      * unfold reader_getitem. destruct (is_whole it); reflexivity.
      * apply (Abs_grow cells locs st _ HA).
    + rewrite Hp. split; [reflexivity|exact HA].
Qed.

Lemma hrun_refines cmds : forall h st, Abs h st ->
  match hrun cmds h, frun cmds st with
  | Some (h', os), Some (st', os') => os = os' /\ Abs h' st'
  | None, None => True
  | _, _ => False
  end.
Proof.
  induction cmds as [|c r IH]; intros h st HA; cbn [Model.hrun Model.frun].
  - split; [reflexivity|exact HA].
  - pose proof (hstep_refines h st c HA) as H1.
    destruct (hstep h c) as [[h1 o]|], (fstep st c) as [[st1 o']|]; try exact I; try contradiction.
    destruct H1 as [-> HA1]. specialize (IH h1 st1 HA1).
    destruct (hrun r h1) as [[h2 os]|], (frun r st1) as [[st2 os']|]; try exact I; try contradiction.
    destruct IH as [-> HA2]. split; [reflexivity|exact HA2].
Qed.

Lemma Abs0 : Abs heap0 store0.
Proof. constructor; [reflexivity|constructor]. Qed.

(* independence at heap level: whatever is derived or read in between, reading reader k again
   gives the same answer *)
Lemma hrun_independent cmds h st h' os k it cols h1 o :
  Abs h st ->
  hrun cmds h = Some (h', os) ->
  hstep h (CRead k it cols) = Some (h1, o) ->
  exists h2, hstep h' (CRead k it cols) = Some (h2, o).
Proof.
  intros HA Hrun Hread.
  pose proof (hrun_refines cmds h st HA) as Hr. rewrite Hrun in Hr.
  destruct (frun cmds st) as [[st' os']|] eqn:Ef; [|contradiction]. destruct Hr as [<- HA'].
  pose proof (hstep_refines h st (CRead k it cols) HA) as H1. rewrite Hread in H1.
  destruct (fstep st (CRead k it cols)) as [[st1 o1]|] eqn:E1; [|contradiction]. destruct H1 as [<- _].
  assert (st1 = st) as ->.
  { cbn [Model.fstep] in E1. destruct (nth_error st k); [|discriminate]. injection E1 as <- _. reflexivity. }
  pose proof (frun_independent sem dsem rows d0 c0 cmds st st' os k it cols o Ef E1) as E2.
  pose proof (hstep_refines h' st' (CRead k it cols) HA') as H2. rewrite E2 in H2.
  destruct (hstep h' (CRead k it cols)) as [[h2 o2]|]; [|contradiction]. destruct H2 as [-> _].
  exists h2. reflexivity.
Qed.

(* "is again a reader": deriving from an existing reader always succeeds, returns a reader, and
   registers exactly the parent's entries followed by the new one *)
Lemma hstep_derive_total h st p o ops :
  Abs h st -> nth_error st p = Some ops ->
  exists h', hstep h (CDerive p o) = Some (h', ODerived) /\ Abs h' (st ++ [ops ++ [o]]).
Proof.
  intros HA Hp. pose proof (hstep_refines h st (CDerive p o) HA) as H.
  cbn [Model.fstep] in H. rewrite Hp in H.
  destruct (hstep h (CDerive p o)) as [[h' o']|]; [|contradiction]. destruct H as [-> HA'].
  exists h'. split; [reflexivity|exact HA'].
Qed.

Lemma hrun_from0 cmds :
  (forall h os, hrun cmds heap0 = Some (h, os) -> exists st, frun cmds store0 = Some (st, os) /\ Abs h st) /\
  (hrun cmds heap0 = None -> frun cmds store0 = None).
Proof.
  pose proof (hrun_refines cmds heap0 store0 Abs0) as H. split.
  - intros h os E. rewrite E in H. destruct (frun cmds store0) as [[st os']|]; [|contradiction].
    destruct H as [-> HA]. exists st. split; [reflexivity|exact HA].
  - intros E. rewrite E in H. destruct (frun cmds store0) as [[st os']|]; [contradiction|reflexivity].
Qed.

Lemma hrun_independent0 cmds1 cmds2 h1 os1 h2 os2 k it cols h' o :
  hrun cmds1 heap0 = Some (h1, os1) ->
  hstep h1 (CRead k it cols) = Some (h', o) ->
  hrun cmds2 h1 = Some (h2, os2) ->
  exists h'', hstep h2 (CRead k it cols) = Some (h'', o).
Proof.
  intros H1 Hr H2. destruct (proj1 (hrun_from0 cmds1) h1 os1 H1) as (st1 & _ & HA1).
  eapply hrun_independent; eassumption.
Qed.

Lemma hrun_stable cmds h os : hrun cmds heap0 = Some (h, os) -> Stable (combine cmds os).
Proof.
  intros H. destruct (proj1 (hrun_from0 cmds) h os H) as (st & Hf & _).
  eapply frun_stable. exact Hf.
Qed.
End Heap.

(* every read of a history run on the heap model returns the expression its reader denotes, applied to
   the whole recording and then indexed *)
Lemma hrun_tree_commute {A D} (sem : code -> D -> A -> option A) (dsem : code -> D -> option D)
      (rows : item -> option (list (list A))) (d0 : D) (c0 : Z) (M : list (list A)) cmds h os ros :
  (forall r it cols, In (CRead r it cols) cmds -> rows it = np_index M it) ->
  hrun sem dsem rows d0 c0 h_append_op cmds heap0 = Some (h, os) ->
  sruns sem dsem (mkarr d0 c0 M) cmds [EBase] = Some ros ->
  Forall2 (@agrees A D) os ros.
Proof.
  intros Hrows Hh Hs.
  destruct (proj1 (hrun_from0 sem dsem rows d0 c0 cmds) h os Hh) as (st & Hf & _).
  eapply (frun_sruns sem dsem rows d0 c0 M cmds store0 [EBase]); try eassumption.
  constructor; [reflexivity|constructor].
Qed.
