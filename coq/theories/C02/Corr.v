(* C02/Corr.v -- comparator evaluated by vm_compute on generated case files.
   A case is a derivation history on one recording: commands CDerive (a dunder, or reader[:, cols]) and
   CRead (reader[item] / reader[item, cols]), together with
     - S0: the loaded recording and its dtype tag d0, split into parts of the given sizes.  Sample
       values are INTERNED by the harness: every distinct (bit pattern) occurring anywhere in the case
       is given a small index, written as a primitive-integer literal (Z numerals are slow to parse);
       the comparator only ever tests values for equality, and interning is injective per case;
     - tab: NumPy's own element semantics, TABULATED by the harness from eager evaluation on whole
       arrays: for every (operator, argument, input dtype) used, the result dtype and the list of
       (input bits, output bits) pairs seen;
     - exps: for every read, the block NumPy itself returns (expression applied to the loaded array,
       then indexed), used only to cross-check the Coq reference (code 3 if they differ).
   codes: 1  = observed answers differ from the model (heap model of _append_op + lazy evaluation over
               PV.C01.Model.getitem_rows, instantiated with the tabulated semantics)
          21 = C02_commute / C02_tree_commute: a read's VALUES or SHAPE (number of rows, and the column
               count, which is all that is left of the shape of an empty selection) are not those of the
               expression applied to the whole recording and then indexed (rows first, then columns)
          22 = the dtype of a read differs from the dtype of the eager result (0-row blocks included:
               C02_commute_empty)
          23 = C02_is_reader: an expression / reader[:, cols] did not return a reader (or a read did)
          24 = C02_independent: two reads of the same reader with the same index disagree
          3  = input outside the stated regime / reference inconsistent with NumPy (harness bug) *)
From Coq Require Import ZArith List Lia Bool Uint63.
From PV Require Export Base.PySlice Base.NpSearch C01.Model C02.Model C02.Spec.
From PV Require Import C01.Spec.
Import ListNotations.
Open Scope Z_scope.

(* ---- tabulated element semantics ---- *)
Definition opname_code (n : opname) : Z :=
  match n with NPos => 0 | NNeg => 1 | NAdd => 2 | NRadd => 3 | NSub => 4 | NRsub => 5 | NMul => 6
             | NRmul => 7 | NTruediv => 8 | NRtruediv => 9 | NFloordiv => 10 | NRfloordiv => 11
             | NPow => 12 | NRpow => 13 end.
Definition scalar_eqb (a b : scalar) : bool :=
  match a, b with SInt x, SInt y => x =? y | SFlt x e, SFlt y f => (x =? y) && (e =? f) | _, _ => false end.
Definition code_eqb (a b : code) : bool :=
  (opname_code (c_op a) =? opname_code (c_op b)) &&
  match c_arg a, c_arg b with None, None => true | Some x, Some y => scalar_eqb x y | _, _ => false end.

Record tpair := mktp { tp_in : Z; tp_out : Z }.
Record tentry := mkte { te_code : code; te_din : Z; te_dout : Z; te_pairs : list tpair }.

Fixpoint lookup_pair (a : Z) (l : list tpair) : option Z :=
  match l with [] => None | p :: r => if tp_in p =? a then Some (tp_out p) else lookup_pair a r end.
Fixpoint tsem (tab : list tentry) (c : code) (d : Z) (a : Z) : option Z :=
  match tab with
  | [] => None
  | e :: r => if code_eqb (te_code e) c && (te_din e =? d)
              then match lookup_pair a (te_pairs e) with Some b => Some b | None => tsem r c d a end
              else tsem r c d a
  end.
Fixpoint tdsem (tab : list tentry) (c : code) (d : Z) : option Z :=
  match tab with
  | [] => None
  | e :: r => if code_eqb (te_code e) c && (te_din e =? d) then Some (te_dout e) else tdsem r c d
  end.

(* ---- cases ---- *)
(* raw literals as written by the harness: interned values are primitive integers *)
(* RRows dt nc rows: dtype tag, shape[1], the rows (shape[0] = their number, possibly 0) *)
Inductive rout := RDerived | RRows (dt : Z) (nc : Z) (rows : list (list int)) | RReader | RErr.
(* re_pairs: in0; out0; in1; out1; ... *)
Record rentry := mkre { re_code : code; re_din : Z; re_dout : Z; re_pairs : list int }.

Definition zmat (m : list (list int)) : list (list Z) := map (map Uint63.to_Z) m.
Definition out_of_raw (r : rout) : @out Z Z :=
  match r with
  | RDerived => ODerived
  | RRows d nc rows => ORows (mkarr d nc (zmat rows))
  | RReader => OReader
  | RErr => OErr
  end.
Fixpoint pairs_of (l : list int) : list tpair :=
  match l with
  | a :: b :: r => mktp (Uint63.to_Z a) (Uint63.to_Z b) :: pairs_of r
  | _ => []
  end.
Definition entry_of_raw (e : rentry) : tentry := mkte (re_code e) (re_din e) (re_dout e) (pairs_of (re_pairs e)).

Inductive input :=
| InTree (sizes : list Z) (d0 : Z) (S0 : list (list int)) (tab : list rentry) (cmds : list cmd)
         (exps : list (option rout))
| InSkip.

Inductive observed :=
| ObsOuts (outs : list rout)
| ObsSkip
| ObsCrash.

Record case := { cid : Z; cin : input; cobs : observed }.

Definition flag (code : Z) (ok : bool) : list Z := if ok then [] else [code].

Fixpoint split_parts (sizes : list Z) (M : list (list Z)) : list (list (list Z)) :=
  match sizes with
  | [] => []
  | s :: r => firstn (Z.to_nat s) M :: split_parts r (skipn (Z.to_nat s) M)
  end.

Definition sizes_ok (sizes : list Z) : bool := (1 <=? zlen sizes) && forallb (fun s => 1 <=? s) sizes.

(* row indices of the reading: C01's regime or an empty slice the base reader answers (Spec.row_item_b) *)
Definition cmd_ok (sizes : list Z) (c : cmd) : bool :=
  match c with CDerive _ _ => true | CRead _ it _ => row_item_b sizes it end.

(* a block is well-formed when every row has shape[1] entries *)
Definition out_wf (o : @out Z Z) : bool :=
  match o with ORows x => forallb (fun r => zlen r =? a_nc x) (a_rows x) | _ => true end.

Fixpoint all2 {X Y} (f : X -> Y -> bool) (a : list X) (b : list Y) : bool :=
  match a, b with
  | [], [] => true
  | x :: a', y :: b' => f x y && all2 f a' b'
  | _, _ => false
  end.

(* the Coq reference is defined for every command, and for reads it is the block NumPy returned *)
Definition ref_ok (c : cmd) (r : option (@out Z Z)) (e : option (@out Z Z)) : bool :=
  match c, r, e with
  | CDerive _ _, Some ODerived, None => true
  | CRead _ _ _, Some OReader, None => true
  | CRead _ _ _, Some (ORows x), Some (ORows y) => zarr_eqb x y
  | _, _, _ => false
  end.

Definition is_read (c : cmd) : bool := match c with CRead _ _ _ => true | _ => false end.
Definition ref_out (r : option (@out Z Z)) : @out Z Z := match r with Some o => o | None => OErr end.

Definition check (c : case) : list Z :=
  match cin c, cobs c with
  | InSkip, ObsSkip => []
  | InSkip, _ => [3]
  | InTree sizes d0 S0r tabr cmds expsr, o =>
      let S0 := zmat S0r in
      let tab := map entry_of_raw tabr in
      let exps := map (option_map out_of_raw) expsr in
      let n := zsum sizes in
      let width := match S0 with [] => 0 | r :: _ => zlen r end in
      if negb (sizes_ok sizes && (zlen S0 =? n) && (1 <=? width) &&
               forallb (fun r => zlen r =? width) S0 && forallb (cmd_ok sizes) cmds) then [3] else
      match sruns (tsem tab) (tdsem tab) (mkarr d0 width S0) cmds [EBase] with
      | None => [3]
      | Some refs =>
          if negb ((zlen refs =? zlen exps) && (zlen refs =? zlen cmds) &&
                   all2 (fun ce r => ref_ok (fst ce) r (snd ce)) (combine cmds exps) refs) then [3] else
          match o with
          | ObsOuts outsr =>
              let outs := map out_of_raw outsr in
              if negb (zlen outs =? zlen cmds) then [1; 21; 23] else
              if negb (forallb out_wf outs) then [3] else
              let parts := split_parts sizes S0 in
              let m := hrun (tsem tab) (tdsem tab) (getitem_rows parts) d0 width h_append_op cmds heap0 in
              flag 1 (match m with Some (_, mo) => all2 out_eqb mo outs | None => false end) ++
              flag 21 (all2 (fun cr ob => negb (is_read (fst cr)) || out_vals_b (ref_out (snd cr)) ob)
                            (combine cmds refs) outs) ++
              flag 22 (all2 (fun r ob => out_dt_b (ref_out r) ob) refs outs) ++
              flag 23 (all2 kind_ok_b cmds outs) ++
              flag 24 (stable_b (combine cmds outs))
          | ObsCrash => [1; 21; 23]
          | ObsSkip => [3]
          end
      end
  end.

Definition run (cases : list case) : list (Z * Z) :=
  flat_map (fun c => map (fun code => (cid c, code)) (check c)) cases.
