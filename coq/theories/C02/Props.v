(* C02/Props.v -- the property theorems, and nothing else.  Each is closed by a lemma of Proofs.v and
   followed by Print Assumptions; non-vacuity Examples at the end.

   Vocabulary (Model.v / Spec.v).  [expr]: an expression over a reader built from unary +/-, the six
   binary operators against a scalar on either side, and e[:, cols].  [compile e]: the list of deferred
   (operator, argument) entries the dunders of BaseEphysReader append, one per operator.
   [sem c d a] / [dsem c d]: what NumPy's operator [c] does to ONE element [a] of an array of dtype [d],
   and the result dtype -- ARBITRARY functions (None = NumPy raises): every theorem holds for all of
   them.  [rows it]: what the reader without deferred operations loads for the row index [it] (the
   per-part reads and np.vstack, C01's subject), related to the whole recording M only by the premise
   [rows it = np_index M it], which is C01's theorem.  [reader_getitem ops it cols] is the model of
   BaseEphysReader.__getitem__ for a reader whose _ops is [ops]; [eval_eager e X] applies the expression
   to the whole array X; [index_arr E it] = np.atleast_2d(E[it]); [then_index E it cols] = rows first,
   then columns.  Histories: [hrun] runs commands on the HEAP model of _append_op (copy.copy aliases the
   parent's list, list(...) allocates a fresh one, append mutates in place), [frun] on the functional
   store of op lists, [sruns] gives the reference answers from the expressions the readers denote. *)
From Coq Require Import ZArith List Lia Bool.
From PV Require Import Base.PySlice Base.NpSearch C01.Model C02.Model C02.Spec C02.Proofs.
From PV Require Import C01.Spec C02.Proofs2 C02.Proofs3.
Import ListNotations.
Open Scope Z_scope.

(* lazy = eager: indexing the reader an expression evaluates to yields the values AND dtype of the
   expression applied to the whole recording and then indexed -- for every element semantics, every
   dtype semantics, every expression, every recording, every row index on which the base reader agrees
   with NumPy *)
Theorem C02_commute : forall (A D : Type) (sem : code -> D -> A -> option A) (dsem : code -> D -> option D)
    (rows : item -> option (list (list A))) (d0 : D) (c0 : Z) (M : list (list A)) (e : expr) (E : arr A D) (it : item),
  rows it = np_index M it ->
  eval_eager sem dsem e (mkarr d0 c0 M) = Some E ->
  reader_getitem sem dsem rows d0 c0 (compile e) it None = option_map GRows (index_arr E it).
Proof.
  intros A D sem dsem rows d0 c0 M e E it Hr He.
  rewrite (getitem_commute sem dsem rows d0 c0 M e E it None Hr He). unfold then_index.
  rewrite bind_some_r. reflexivity.
Qed.
Print Assumptions C02_commute.

(* reader[rows, cols] on a derived reader: rows first, then columns, of the eager value *)
Theorem C02_commute_cols : forall (A D : Type) (sem : code -> D -> A -> option A) (dsem : code -> D -> option D)
    (rows : item -> option (list (list A))) (d0 : D) (c0 : Z) (M : list (list A)) (e : expr) (E : arr A D)
    (it : item) (cs : colsel),
  rows it = np_index M it ->
  eval_eager sem dsem e (mkarr d0 c0 M) = Some E ->
  is_whole it = false ->
  reader_getitem sem dsem rows d0 c0 (compile e) it (Some cs) =
  option_map GRows (bind (index_arr E it) (np_cols cs)).
Proof.
  intros A D sem dsem rows d0 c0 M e E it cs Hr He Hw.
  rewrite (getitem_commute sem dsem rows d0 c0 M e E it (Some cs) Hr He). rewrite Hw. reflexivity.
Qed.
Print Assumptions C02_commute_cols.

(* exactly reader[:, cols] is again a reader, and it is the reader of the expression e[:, cols] *)
Theorem C02_cols_reader : forall (A D : Type) (sem : code -> D -> A -> option A) (dsem : code -> D -> option D)
    (rows : item -> option (list (list A))) (d0 : D) (c0 : Z) (e : expr) (cs : colsel),
  reader_getitem sem dsem rows d0 c0 (compile e) (ISlice None None None) (Some cs) =
  Some (GReader (compile (ECols e cs))).
Proof. reflexivity. Qed.
Print Assumptions C02_cols_reader.

(* what the dunders build denotes the expression: replaying the deferred entries on a whole array IS
   the expression applied to that array *)
Theorem C02_compile : forall (A D : Type) (sem : code -> D -> A -> option A) (dsem : code -> D -> option D)
    (e : expr) (X : arr A D),
  apply_ops sem dsem (compile e) X = eval_eager sem dsem e X.
Proof. intros. symmetry. apply eval_eager_compile. Qed.
Print Assumptions C02_compile.

(* "is again a reader": on the heap model, applying an operator / [:, cols] to any existing reader
   returns a reader whose entries are the parent's followed by the new one *)
Theorem C02_is_reader : forall (A D : Type) (sem : code -> D -> A -> option A) (dsem : code -> D -> option D)
    (rows : item -> option (list (list A))) (d0 : D) (c0 : Z) (h : heap) (st : list (list op)) (p : nat) (o : op)
    (ops : list op),
  Abs h st -> nth_error st p = Some ops ->
  exists h', hstep sem dsem rows d0 c0 h_append_op h (CDerive p o) = Some (h', ODerived) /\
             Abs h' (st ++ [ops ++ [o]]).
Proof. exact (@hstep_derive_total). Qed.
Print Assumptions C02_is_reader.

(* the heap model of _append_op refines the functional store: after ANY history from a fresh reader the
   answers are the same and every reader's _ops points to a list holding exactly its own entries *)
Theorem C02_heap_refines : forall (A D : Type) (sem : code -> D -> A -> option A) (dsem : code -> D -> option D)
    (rows : item -> option (list (list A))) (d0 : D) (c0 : Z) (cmds : list cmd),
  (forall h os, hrun sem dsem rows d0 c0 h_append_op cmds heap0 = Some (h, os) ->
     exists st, frun sem dsem rows d0 c0 cmds store0 = Some (st, os) /\ Abs h st) /\
  (hrun sem dsem rows d0 c0 h_append_op cmds heap0 = None -> frun sem dsem rows d0 c0 cmds store0 = None).
Proof. exact (@hrun_from0). Qed.
Print Assumptions C02_heap_refines.

(* independence, functional store: no command changes the entries of an existing reader, hence
   what reading it returns *)
Theorem C02_independent : forall (A D : Type) (sem : code -> D -> A -> option A) (dsem : code -> D -> option D)
    (rows : item -> option (list (list A))) (d0 : D) (c0 : Z) (cmds : list cmd) (st st' : list (list op))
    (os : list (@out A D)) (k : nat) (it : item) (cols : option colsel) (o : @out A D),
  frun sem dsem rows d0 c0 cmds st = Some (st', os) ->
  fstep sem dsem rows d0 c0 st (CRead k it cols) = Some (st, o) ->
  fstep sem dsem rows d0 c0 st' (CRead k it cols) = Some (st', o).
Proof. intros. eapply frun_independent; eassumption. Qed.
Print Assumptions C02_independent.

(* independence, heap model: after any history cmds1, whatever is derived or read afterwards (cmds2:
   children, siblings, grandchildren, reads with temporary 'cols' clones), reading reader k again with
   the same index returns the same answer *)
Theorem C02_independent_heap : forall (A D : Type) (sem : code -> D -> A -> option A) (dsem : code -> D -> option D)
    (rows : item -> option (list (list A))) (d0 : D) (c0 : Z) (cmds1 cmds2 : list cmd) (h1 h2 h' : heap)
    (os1 os2 : list (@out A D)) (k : nat) (it : item) (cols : option colsel) (o : @out A D),
  hrun sem dsem rows d0 c0 h_append_op cmds1 heap0 = Some (h1, os1) ->
  hstep sem dsem rows d0 c0 h_append_op h1 (CRead k it cols) = Some (h', o) ->
  hrun sem dsem rows d0 c0 h_append_op cmds2 h1 = Some (h2, os2) ->
  exists h'', hstep sem dsem rows d0 c0 h_append_op h2 (CRead k it cols) = Some (h'', o).
Proof. intros. eapply hrun_independent0; eassumption. Qed.
Print Assumptions C02_independent_heap.

(* the same, as a statement about the observed history (the relation the comparator's clause 24 decides):
   in ANY history run on the heap model, two reads of the same reader with the same index give the
   same answer, whatever happened in between *)
Theorem C02_history_stable : forall (A D : Type) (sem : code -> D -> A -> option A) (dsem : code -> D -> option D)
    (rows : item -> option (list (list A))) (d0 : D) (c0 : Z) (cmds : list cmd) (h : heap) (os : list (@out A D)),
  hrun sem dsem rows d0 c0 h_append_op cmds heap0 = Some (h, os) -> Stable (combine cmds os).
Proof. intros. eapply hrun_stable; eassumption. Qed.
Print Assumptions C02_history_stable.

(* derivation trees: every answer of a history run on the heap model is the reference answer -- the
   expression the reader denotes (by its derivation path) applied to the whole recording, then indexed --
   whenever that reference exists (NumPy does not raise on the whole recording) *)
Theorem C02_tree_commute : forall (A D : Type) (sem : code -> D -> A -> option A) (dsem : code -> D -> option D)
    (rows : item -> option (list (list A))) (d0 : D) (c0 : Z) (M : list (list A)) (cmds : list cmd) (h : heap)
    (os : list (@out A D)) (ros : list (option (@out A D))),
  (forall r it cols, In (CRead r it cols) cmds -> rows it = np_index M it) ->
  hrun sem dsem rows d0 c0 h_append_op cmds heap0 = Some (h, os) ->
  sruns sem dsem (mkarr d0 c0 M) cmds [EBase] = Some ros ->
  Forall2 (@agrees A D) os ros.
Proof. intros. eapply hrun_tree_commute; eassumption. Qed.
Print Assumptions C02_tree_commute.

(* ---- with C01: the abstract row reader instantiated by the model of the multi-file reader
   (PV.C01.Model.getitem_rows: bounds, _get_subitems, per-part reads, np.vstack) and C01's theorem
   C01_rows_numpy -- the premise on [rows] is discharged on the whole row-index reading of C02
   ([row_item sizes it]: C01's regime -- integers in [-n, n), unit-step slices selecting >= 1 row,
   non-empty increasing lists -- or an EMPTY unit-step slice the base reader answers, see
   C02_reader_empty_rows below), for every split into files ---- *)
Theorem C02_reader_commute : forall (A D : Type) (sem : code -> D -> A -> option A) (dsem : code -> D -> option D)
    (d0 : D) (c0 : Z) (parts : list (list (list A))) (e : expr) (E : arr A D) (it : item) (cols : option colsel),
  row_item (map zlen parts) it ->
  eval_eager sem dsem e (mkarr d0 c0 (concat parts)) = Some E ->
  reader_getitem sem dsem (getitem_rows parts) d0 c0 (compile e) it cols =
    match cols with
    | Some cs => if is_whole it then Some (GReader (compile (ECols e cs)))
                 else option_map GRows (then_index E it cols)
    | None => option_map GRows (then_index E it cols)
    end.
Proof. exact (@reader_commute_all). Qed.
Print Assumptions C02_reader_commute.

Theorem C02_reader_tree_commute : forall (A D : Type) (sem : code -> D -> A -> option A) (dsem : code -> D -> option D)
    (d0 : D) (c0 : Z) (parts : list (list (list A))) (cmds : list cmd) (h : heap) (os : list (@out A D))
    (ros : list (option (@out A D))),
  Forall (row_cmd (map zlen parts)) cmds ->
  hrun sem dsem (getitem_rows parts) d0 c0 h_append_op cmds heap0 = Some (h, os) ->
  sruns sem dsem (mkarr d0 c0 (concat parts)) cmds [EBase] = Some ros ->
  Forall2 (@agrees A D) os ros.
Proof. exact (@reader_tree_commute_all). Qed.
Print Assumptions C02_reader_tree_commute.

(* ---- EMPTY row selections (strengthening pass: an early return on an empty stacked block that skips
   _apply_ops gives (reader / 2)[5:5] the RAW dtype and reader[:, [0, 2]][5:5] all the columns) ---- *)
(* abstract row reader: where the base reader answers with a block of 0 rows, as NumPy does on the
   recording, every derived reader answers with the 0-row array that carries the dtype AND the column
   count of the eagerly evaluated expression *)
Theorem C02_commute_empty : forall (A D : Type) (sem : code -> D -> A -> option A) (dsem : code -> D -> option D)
    (rows : item -> option (list (list A))) (d0 : D) (c0 : Z) (M : list (list A)) (e : expr) (E : arr A D) (it : item),
  rows it = Some [] -> np_index M it = Some [] ->
  eval_eager sem dsem e (mkarr d0 c0 M) = Some E ->
  reader_getitem sem dsem rows d0 c0 (compile e) it None = Some (GRows (mkarr (a_dt E) (a_nc E) [])).
Proof. exact (@commute_empty). Qed.
Print Assumptions C02_commute_empty.

(* the empty slices of the reading (unit step, NumPy-normalised bounds 0 < e <= s < n, rows s and e - 1
   in the same file): C01's model of the multi-file reader returns a 0-row block, and so does NumPy on
   the concatenation *)
Theorem C02_reader_empty_rows : forall (A : Type) (parts : list (list (list A))) (it : item),
  empty_item (map zlen parts) it ->
  getitem_rows parts it = Some [] /\ np_index (concat parts) it = Some [].
Proof. exact (@getitem_rows_empty). Qed.
Print Assumptions C02_reader_empty_rows.

Theorem C02_reader_commute_empty : forall (A D : Type) (sem : code -> D -> A -> option A)
    (dsem : code -> D -> option D) (d0 : D) (c0 : Z) (parts : list (list (list A))) (e : expr) (E : arr A D)
    (it : item),
  empty_item (map zlen parts) it ->
  eval_eager sem dsem e (mkarr d0 c0 (concat parts)) = Some E ->
  reader_getitem sem dsem (getitem_rows parts) d0 c0 (compile e) it None =
  Some (GRows (mkarr (a_dt E) (a_nc E) [])).
Proof. exact (@reader_commute_empty). Qed.
Print Assumptions C02_reader_commute_empty.

(* arr[:, sel] as modelled (selector resolved against shape[1], also on 0 rows) is C01's column
   selection on every array whose rows have shape[1] entries *)
Theorem C02_cols_select_cols : forall (A D : Type) (sel : colsel) (X : arr A D),
  Forall (fun r => zlen r = a_nc X) (a_rows X) ->
  np_cols sel X =
  bind (col_indices (a_nc X) sel) (fun idx => option_map (mkarr (a_dt X) (zlen idx)) (select_cols sel (a_rows X))).
Proof. exact (@np_cols_select_cols). Qed.
Print Assumptions C02_cols_select_cols.

(* the carried column count is the real shape[1]: whatever __getitem__ returns -- through any deferred
   operations, any trailing column selector, 0 rows or more -- every row has exactly a_nc entries, given
   that the base reader hands out rows of c0 = n_channels entries *)
Theorem C02_shape_wf : forall (A D : Type) (sem : code -> D -> A -> option A) (dsem : code -> D -> option D)
    (rows : item -> option (list (list A))) (d0 : D) (c0 : Z) (ops : list op) (it : item) (cols : option colsel)
    (x : arr A D),
  (forall R, rows it = Some R -> Forall (fun r => zlen r = c0) R) ->
  reader_getitem sem dsem rows d0 c0 ops it cols = Some (GRows x) ->
  Forall (fun r => zlen r = a_nc x) (a_rows x).
Proof. exact (@reader_getitem_wf). Qed.
Print Assumptions C02_shape_wf.

(* the regime test of the comparator decides the reading *)
Theorem C02_row_item_b : forall (sizes : list Z) (it : item), row_item_b sizes it = true <-> row_item sizes it.
Proof. exact row_item_b_spec. Qed.
Print Assumptions C02_row_item_b.

(* ---- the list(...) copy in _append_op is what independence rests on: without it (parent and clone
   share one list object) a history exists in which re-reading the parent gives another answer ---- *)
Definition ex_sem (c : code) (d : Z) (a : Z) : option Z := Some (a + 10).
Definition ex_dsem (c : code) (d : Z) : option Z := Some d.
Definition ex_M : list (list Z) := [[1; 2; 3]; [4; 5; 6]; [7; 8; 9]].
Definition ex_rows (it : item) : option (list (list Z)) := np_index ex_M it.
Definition ex_add : op := OMap (bin_code BAdd (SInt 10)).
Definition ex_hist : list cmd := [CRead 0 (IInt 1) None; CDerive 0 ex_add; CRead 0 (IInt 1) None].

Theorem C02_alias_refuted :
  exists h os, hrun ex_sem ex_dsem ex_rows 0 3 h_append_op_alias ex_hist heap0 = Some (h, os) /\
               ~ Stable (combine ex_hist os).
Proof.
  eexists. eexists. split; [vm_compute; reflexivity|].
  intros HS.
  specialize (HS (CRead 0 (IInt 1) None) (ORows (mkarr 0 3 [[4; 5; 6]]))
                 (CRead 0 (IInt 1) None) (ORows (mkarr 0 3 [[14; 15; 16]]))).
  assert (H : ORows (mkarr 0 3 [[4; 5; 6]]) = ORows (mkarr 0 3 [[14; 15; 16]])).
  { apply HS; [left; reflexivity|right; right; left; reflexivity|reflexivity]. }
  discriminate H.
Qed.
Print Assumptions C02_alias_refuted.

(* the premise "NumPy evaluates the expression on the whole recording" cannot be dropped: an element the
   read does not touch may make the eager evaluation raise while the lazy read succeeds *)
Definition ex_sem2 (c : code) (d : Z) (a : Z) : option Z := if a =? 0 then None else Some (2 * a).
Theorem C02_eager_premise_needed :
  exists (e : expr) (it : item),
    eval_eager ex_sem2 ex_dsem e (mkarr 0 2 [[0; 1]; [2; 3]]) = None /\
    reader_getitem ex_sem2 ex_dsem (np_index [[0; 1]; [2; 3]]) 0 2 (compile e) it None =
      Some (GRows (mkarr 0 2 [[4; 6]])).
Proof. exists (EBinR BPow (SInt 2) EBase), (IInt 1). split; vm_compute; reflexivity. Qed.
Print Assumptions C02_eager_premise_needed.

(* the boolean checkers run on the implementation's answers imply the declarative statements *)
Theorem C02_checker_sound : forall (h : list (cmd * @out Z Z)), stable_b h = true -> Stable h.
Proof. exact stable_b_sound. Qed.
Print Assumptions C02_checker_sound.

Theorem C02_out_eqb : forall a b : @out Z Z, out_eqb a b = true <-> a = b.
Proof. exact out_eqb_eq. Qed.
Print Assumptions C02_out_eqb.

(* ---- non-vacuity: concrete, non-trivial instances ---- *)
(* (2 - R[:, [2, 0]]) * 3 evaluated lazily on rows 1: equals the eager value's rows *)
Definition ex_e : expr := EBinL BMul (EBinR BSub (SInt 2) (ECols EBase (CList [2; 0]))) (SInt 3).
Example C02_ex_compile :
  compile ex_e = [OCols (CList [2; 0]); OMap (rbin_code BSub (SInt 2)); OMap (bin_code BMul (SInt 3))].
Proof. reflexivity. Qed.
Example C02_ex_commute :
  exists E, eval_eager ex_sem ex_dsem ex_e (mkarr 0 3 ex_M) = Some E /\
            reader_getitem ex_sem ex_dsem ex_rows 0 3 (compile ex_e) (ISlice (Some 1) None None) None =
              option_map GRows (index_arr E (ISlice (Some 1) None None)) /\
            index_arr E (ISlice (Some 1) None None) = Some (mkarr 0 2 [[26; 24]; [29; 27]]).
Proof. eexists. split; [vm_compute; reflexivity|]. split; vm_compute; reflexivity. Qed.
Example C02_ex_cols :
  reader_getitem ex_sem ex_dsem ex_rows 0 3 (compile ex_e) (IInt (-1)) (Some (CSlice None None (Some (-1)))) =
  Some (GRows (mkarr 0 2 [[27; 29]])).
Proof. vm_compute. reflexivity. Qed.
(* a tree: parent, two siblings, a grandchild; the heap model answers = the reference answers *)
Definition ex_tree : list cmd :=
  [CDerive 0 ex_add; CDerive 0 (OCols (CList [2; 0])); CDerive 1 (OMap (un_code UNeg));
   CRead 0 (IInt 0) None; CRead 1 (IInt 0) None; CRead 2 (IInt 0) None; CRead 3 (IInt 0) None;
   CRead 1 (IInt 0) (Some (CList [1]))].
Example C02_ex_tree :
  option_map snd (hrun ex_sem ex_dsem ex_rows 0 3 h_append_op ex_tree heap0) =
  Some [ODerived; ODerived; ODerived; ORows (mkarr 0 3 [[1; 2; 3]]); ORows (mkarr 0 3 [[11; 12; 13]]);
        ORows (mkarr 0 2 [[3; 1]]); ORows (mkarr 0 3 [[21; 22; 23]]); ORows (mkarr 0 1 [[12]])] /\
  sruns ex_sem ex_dsem (mkarr 0 3 ex_M) ex_tree [EBase] =
  Some [Some ODerived; Some ODerived; Some ODerived; Some (ORows (mkarr 0 3 [[1; 2; 3]]));
        Some (ORows (mkarr 0 3 [[11; 12; 13]])); Some (ORows (mkarr 0 2 [[3; 1]]));
        Some (ORows (mkarr 0 3 [[21; 22; 23]])); Some (ORows (mkarr 0 1 [[12]]))].
Proof. split; vm_compute; reflexivity. Qed.
(* with the aliasing variant the same tree gives other answers: the siblings and the parent see each
   other's entries *)
Example C02_ex_tree_alias :
  option_map snd (hrun ex_sem ex_dsem ex_rows 0 3 h_append_op_alias ex_tree heap0) <>
  option_map snd (hrun ex_sem ex_dsem ex_rows 0 3 h_append_op ex_tree heap0).
Proof. vm_compute. discriminate. Qed.

(* three files of 1, 3 and 2 rows; (R[:, ::-1] + 10)[1:5] read across both file boundaries *)
Example C02_ex_reader :
  reader_getitem ex_sem ex_dsem (getitem_rows [[[1; 2]]; [[3; 4]; [5; 6]; [7; 8]]; [[9; 10]; [11; 12]]]) 0 2
                 (compile (EBinL BAdd (ECols EBase (CSlice None None (Some (-1)))) (SInt 10)))
                 (ISlice (Some 1) (Some 5) None) None =
  Some (GRows (mkarr 0 2 [[14; 13]; [16; 15]; [18; 17]; [20; 19]])).
Proof. vm_compute. reflexivity. Qed.

(* empty selections: three files of 1, 3 and 2 rows, dtype tag 6; the operator maps dtype 6 to 11.
   (R[:, [1]] <op> 2)[2:2] and [3:2] (rows 2 and 1..2 lie in the second file): the block has 0 rows, ONE
   column and dtype 11 -- not the raw (0, 2) block of dtype 6 *)
Definition ex_dsem3 (c : code) (d : Z) : option Z := Some 11.
Definition ex_parts : list (list (list Z)) := [[[1; 2]]; [[3; 4]; [5; 6]; [7; 8]]; [[9; 10]; [11; 12]]].
Definition ex_e3 : expr := EBinL BTruediv (ECols EBase (CList [1])) (SInt 2).
Example C02_ex_empty :
  empty_item (map zlen ex_parts) (ISlice (Some 2) (Some 2) None) /\
  empty_item (map zlen ex_parts) (ISlice (Some 3) (Some (-4)) (Some 1)) /\
  reader_getitem ex_sem ex_dsem3 (getitem_rows ex_parts) 6 2 (compile ex_e3) (ISlice (Some 2) (Some 2) None) None =
    Some (GRows (mkarr 11 1 [])) /\
  reader_getitem ex_sem ex_dsem3 (getitem_rows ex_parts) 6 2 (compile ex_e3) (ISlice (Some 3) (Some (-4)) (Some 1)) None =
    Some (GRows (mkarr 11 1 [])) /\
  option_map (fun E => (a_dt E, a_nc E)) (eval_eager ex_sem ex_dsem3 ex_e3 (mkarr 6 2 (concat ex_parts))) = Some (11, 1) /\
  (* on a file boundary the base reader itself raises (np.vstack of no block): outside the reading *)
  empty_item_b (map zlen ex_parts) (ISlice (Some 1) (Some 1) None) = false /\
  getitem_rows ex_parts (ISlice (Some 1) (Some 1) None) = None /\
  (* a column out of range raises on a block of 0 rows as well *)
  reader_getitem ex_sem ex_dsem3 (getitem_rows ex_parts) 6 2 (compile ex_e3) (ISlice (Some 2) (Some 2) None)
                 (Some (CList [1])) = None.
Proof. repeat split; try (vm_compute; reflexivity); vm_compute; intuition discriminate. Qed.
