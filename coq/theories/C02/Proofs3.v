(* C02/Proofs3.v -- EMPTY row selections.  (a) On the empty unit-step slices of the reading
   (PV.C02.Spec.empty_item: NumPy-normalised bounds 0 < e <= s < n, rows s and e - 1 in the same file)
   C01's model of the multi-file reader returns a block of 0 rows, as NumPy does on the concatenation:
   _get_subitems yields ONE sub-slice (chunk_start >= chunk_stop) of the file holding row s, the part
   read is a (0, c) block and np.vstack keeps it.  (b) Hence an empty selection of a DERIVED reader is
   the 0-row array carrying the dtype and the column count of the eagerly evaluated expression. *)
From Coq Require Import ZArith List Lia Bool.
From PV Require Import Base.PySlice Base.NpSearch C01.Model C01.Spec C01.Proofs1 C01.Proofs2 C01.Proofs3
  C01.Proofs C02.Model C02.Spec C02.Proofs C02.Proofs2.
Import ListNotations.
Open Scope Z_scope.

Section EmptyRows.
Context {A : Type}.
Notation row := (list A).
Implicit Types (parts : list (list row)).

Lemma np_index_empty_slice (M : list row) start stop step :
  unit_step step -> np_bound (zlen M) (zlen M) stop <= np_bound (zlen M) 0 start ->
  np_index M (ISlice start stop step) = Some [].
Proof.
  intros Hst Hle. rewrite np_index_slice by assumption. f_equal. apply slice_empty. exact Hle.
Qed.

Theorem getitem_rows_empty parts it :
  empty_item (map zlen parts) it ->
  getitem_rows parts it = Some [] /\ np_index (concat parts) it = Some [].
Proof.
  destruct it as [i|start stop step|l]; cbn [empty_item]; try contradiction.
  rewrite zsum_map_zlen. set (n := zlen (concat parts)).
  cbv zeta. intros (Hstep & Hbs & Hbe & He0 & Hes & Hsn & Hch).
  set (s := np_bound n 0 start) in *. set (e := np_bound n n stop) in *.
  split; [|apply np_index_empty_slice; [exact Hstep|fold n s e; exact Hes]].
  assert (Hn : 0 < n) by lia.
  unfold getitem_rows. cbn [get_subitems]. unfold get_subitems_slice.
  rewrite py_first_bounds, py_last_bounds. fold n.
  pose proof (norm_start n start Hn Hbs) as Es. fold s in Es.
  pose proof (norm_stop n stop Hn Hbe ltac:(fold e; lia)) as Ee. fold e in Ee.
  destruct (wrap_neg (or_default start 0) n) as [s'|]; [|discriminate]. cbn [option_map] in Es.
  destruct (wrap_neg (or_default stop n) n) as [e'|]; [|discriminate]. cbn [option_map] in Ee.
  injection Es as Es. injection Ee as Ee. rewrite Es, Ee.
  assert (Hst1 : or_default step 1 = 1) by (destruct Hstep as [->| ->]; reflexivity).
  rewrite Hst1. cbn [Z.eqb Pos.eqb negb].
  replace (negb ((0 <=? s) && (s <=? n))) with false by (symmetry; apply negb_false_iff; lia).
  replace (negb ((0 <=? e) && (e <=? n))) with false by (symmetry; apply negb_false_iff; lia).
  rewrite <- Hch.
  set (B := part_bounds (map zlen parts)) in *.
  pose proof (find_chunk_spec parts s ltac:(fold n; lia)) as Hf. cbv zeta in Hf. fold B in Hf.
  set (c := find_chunk B s) in *. destruct Hf as (Hc & Hcb).
  replace (Z.to_nat (c + 1 - c)) with 1%nat by lia. cbn [zrange].
  unfold B. rewrite slice_loop_ok; [|lia|intros c' [<-|[]]; exact Hc].
  cbn [map mapM]. rewrite get_part_in by exact Hc.
  rewrite np_index_empty_slice; [reflexivity|right; reflexivity|].
  pose proof (bnd_len 0 parts c Hc) as Hlen. rewrite Hlen.
  set (p := nth (Z.to_nat c) parts []) in *. pose proof (zlen_nonneg p) as Hp.
  unfold np_bound.
  replace (Z.max 0 (s - bnd 0 parts c) <? 0) with false by lia.
  replace (Z.min (zlen p) (e - bnd 0 parts c) <? 0) with false.
  - lia.
  - symmetry. apply Z.ltb_ge.
    (* row e - 1 lies in the same file: e - 1 >= bnd c *)
    pose proof (find_chunk_spec parts (e - 1) ltac:(fold n; lia)) as Hl. cbv zeta in Hl. fold B in Hl.
    rewrite <- Hch in Hl. fold c in Hl. lia.
Qed.
End EmptyRows.

Section EmptyDerived.
Context {A D : Type}.
Variable sem : code -> D -> A -> option A.
Variable dsem : code -> D -> option D.

(* abstract row reader: if the base reader answers an index with a block of 0 rows (as NumPy does on
   the recording), every reader derived from it answers with the 0-row array of the EAGER value's
   dtype and column count -- the deferred operations are applied to the empty block too *)
Lemma apply_op_nrows (o : op) (X X' : arr A D) :
  apply_op sem dsem o X = Some X' -> zlen (a_rows X') = zlen (a_rows X).
Proof.
  destruct X as [dt nc rws]. destruct o as [c|sel]; cbn [Model.apply_op].
  - unfold np_map; cbn [a_dt a_nc a_rows]. destruct (dsem c dt); [|discriminate].
    destruct (mapM (mapM (sem c dt)) rws) as [rws'|] eqn:Em; [|discriminate].
    intros H; injection H as <-. cbn [a_rows]. eapply zlen_mapM. exact Em.
  - unfold np_cols; cbn [a_dt a_nc a_rows]. destruct (col_indices nc sel) as [idx|]; [|discriminate]. cbn [bind].
    destruct (mapM (fun row => gather row idx) rws) as [rws'|] eqn:Em; [|discriminate].
    intros H; injection H as <-. cbn [a_rows]. eapply zlen_mapM. exact Em.
Qed.

Lemma apply_ops_nrows (ops : list op) : forall (X E : arr A D),
  apply_ops sem dsem ops X = Some E -> zlen (a_rows E) = zlen (a_rows X).
Proof.
  induction ops as [|o r IH]; intros X E H; cbn [Model.apply_ops] in H.
  - injection H as <-. reflexivity.
  - destruct (apply_op sem dsem o X) as [X1|] eqn:E1; [|discriminate]. cbn [bind] in H.
    rewrite (IH X1 E H). eapply apply_op_nrows. exact E1.
Qed.

(* an index that selects no row selects no row of any array with as many rows *)
Lemma np_index_empty_len {X Y} (M : list X) (M' : list Y) it :
  np_index M it = Some [] -> zlen M' = zlen M -> np_index M' it = Some [].
Proof.
  unfold np_index. intros H ->. destruct (row_indices (zlen M) it) as [idx|]; [|discriminate].
  cbn [bind] in *. destruct idx as [|i r]; [reflexivity|].
  unfold gather in H. rewrite mapM_cons in H. destruct (pick M i); [|discriminate].
  destruct (mapM (pick M) r); discriminate.
Qed.

Lemma commute_empty (rows : item -> option (list (list A))) (d0 : D) (c0 : Z) (M : list (list A))
      (e : expr) (E : arr A D) (it : item) :
  rows it = Some [] -> np_index M it = Some [] ->
  eval_eager sem dsem e (mkarr d0 c0 M) = Some E ->
  reader_getitem sem dsem rows d0 c0 (compile e) it None = Some (GRows (mkarr (a_dt E) (a_nc E) [])).
Proof.
  intros Hr Hn He.
  rewrite (getitem_commute sem dsem rows d0 c0 M e E it None (eq_trans Hr (eq_sym Hn)) He).
  unfold then_index, index_arr.
  rewrite (np_index_empty_len M (a_rows E) it Hn). { reflexivity. }
  rewrite eval_eager_compile in He. exact (apply_ops_nrows _ _ _ He).
Qed.

(* the same on C01's model of the multi-file reader, for every empty slice of the reading *)
Lemma reader_commute_empty (d0 : D) (c0 : Z) (parts : list (list (list A))) (e : expr) (E : arr A D) (it : item) :
  empty_item (map zlen parts) it ->
  eval_eager sem dsem e (mkarr d0 c0 (concat parts)) = Some E ->
  reader_getitem sem dsem (getitem_rows parts) d0 c0 (compile e) it None =
  Some (GRows (mkarr (a_dt E) (a_nc E) [])).
Proof.
  intros Hi He. destruct (getitem_rows_empty parts it Hi) as [Hr Hn].
  exact (commute_empty (getitem_rows parts) d0 c0 (concat parts) e E it Hr Hn He).
Qed.

(* the full row-index reading of C02 (C01's regime or an empty slice of the reading) *)
Lemma reader_commute_all (d0 : D) (c0 : Z) (parts : list (list (list A))) (e : expr) (E : arr A D)
      (it : item) (cols : option colsel) :
  row_item (map zlen parts) it ->
  eval_eager sem dsem e (mkarr d0 c0 (concat parts)) = Some E ->
  reader_getitem sem dsem (getitem_rows parts) d0 c0 (compile e) it cols =
    match cols with
    | Some cs => if is_whole it then Some (GReader (compile (ECols e cs)))
                 else option_map GRows (then_index E it cols)
    | None => option_map GRows (then_index E it cols)
    end.
Proof.
  intros [Hv|Hi] He.
  - apply reader_commute; [rewrite <- zsum_map_zlen; exact Hv|exact He].
  - apply (getitem_commute sem dsem (getitem_rows parts) d0 c0 (concat parts)); [|exact He].
    destruct (getitem_rows_empty parts it Hi) as [-> ->]. reflexivity.
Qed.

Definition row_cmd (sizes : list Z) (c : cmd) : Prop :=
  match c with CDerive _ _ => True | CRead _ it _ => row_item sizes it end.

Lemma reader_tree_commute_all (d0 : D) (c0 : Z) (parts : list (list (list A))) (cmds : list cmd) h os ros :
  Forall (row_cmd (map zlen parts)) cmds ->
  hrun sem dsem (getitem_rows parts) d0 c0 h_append_op cmds heap0 = Some (h, os) ->
  sruns sem dsem (mkarr d0 c0 (concat parts)) cmds [EBase] = Some ros ->
  Forall2 (@agrees A D) os ros.
Proof.
  intros Hv. apply hrun_tree_commute. intros r it cols Hin.
  rewrite Forall_forall in Hv. specialize (Hv _ Hin). cbn [row_cmd] in Hv. destruct Hv as [Hv|Hi].
  - apply getitem_rows_np. rewrite <- zsum_map_zlen. exact Hv.
  - destruct (getitem_rows_empty parts it Hi) as [-> ->]. reflexivity.
Qed.
End EmptyDerived.

(* ---------------------------------------------------------------------------------------- *)
(* the carried column count IS shape[1]: every row of every block has exactly a_nc entries    *)
(* ---------------------------------------------------------------------------------------- *)
Section Shape.
Context {A D : Type}.
Variable sem : code -> D -> A -> option A.
Variable dsem : code -> D -> option D.

Definition wf (X : arr A D) : Prop := Forall (fun r => zlen r = a_nc X) (a_rows X).

Lemma mapM_Forall_out {X Y} (f : X -> option Y) (Q : Y -> Prop) l out :
  (forall x y, In x l -> f x = Some y -> Q y) -> mapM f l = Some out -> Forall Q out.
Proof.
  revert out; induction l as [|x r IH]; intros out Hq H.
  - injection H as <-. constructor.
  - rewrite mapM_cons in H. destruct (f x) as [y|] eqn:Ey; [|discriminate].
    destruct (mapM f r) as [ys|] eqn:Er; [|discriminate]. injection H as <-. constructor.
    + apply (Hq x y); [left; reflexivity|exact Ey].
    + apply IH; [|reflexivity]. intros x' y' Hin. apply Hq. right. exact Hin.
Qed.

Lemma pick_In {X} (M : list X) i x : pick M i = Some x -> In x M.
Proof. unfold pick. destruct (i <? 0); [discriminate|]. apply nth_error_In. Qed.

Lemma np_index_Forall {X} (P : X -> Prop) (M R : list X) it :
  Forall P M -> np_index M it = Some R -> Forall P R.
Proof.
  intros HP. unfold np_index. destruct (row_indices (zlen M) it) as [idx|]; [|discriminate]. cbn [bind].
  unfold gather. apply mapM_Forall_out. intros i x _ Hp. rewrite Forall_forall in HP. apply HP.
  eapply pick_In. exact Hp.
Qed.

Lemma apply_op_wf (o : op) (X X' : arr A D) : wf X -> apply_op sem dsem o X = Some X' -> wf X'.
Proof.
  destruct X as [dt nc rws]. unfold wf; cbn [a_nc a_rows]. intros Hwf.
  destruct o as [c|sel]; cbn [Model.apply_op].
  - unfold np_map; cbn [a_dt a_nc a_rows]. destruct (dsem c dt); [|discriminate].
    destruct (mapM (mapM (sem c dt)) rws) as [rws'|] eqn:Em; [|discriminate].
    intros H; injection H as <-. cbn [a_nc a_rows].
    eapply mapM_Forall_out; [|exact Em]. intros r r' Hin Hr. cbv beta.
    rewrite (zlen_mapM _ _ _ Hr). rewrite Forall_forall in Hwf. exact (Hwf r Hin).
  - unfold np_cols; cbn [a_dt a_nc a_rows]. destruct (col_indices nc sel) as [idx|]; [|discriminate]. cbn [bind].
    destruct (mapM (fun row => gather row idx) rws) as [rws'|] eqn:Em; [|discriminate].
    intros H; injection H as <-. cbn [a_nc a_rows].
    eapply mapM_Forall_out; [|exact Em]. intros r r' _ Hr. cbv beta. unfold gather in Hr.
    eapply zlen_mapM. exact Hr.
Qed.

Lemma apply_ops_wf (ops : list op) : forall (X E : arr A D), wf X -> apply_ops sem dsem ops X = Some E -> wf E.
Proof.
  induction ops as [|o r IH]; intros X E Hwf H; cbn [Model.apply_ops] in H.
  - injection H as <-. exact Hwf.
  - destruct (apply_op sem dsem o X) as [X1|] eqn:E1; [|discriminate]. cbn [bind] in H.
    eapply IH; [|exact H]. eapply apply_op_wf; eassumption.
Qed.

Lemma index_arr_wf (X R : arr A D) it : wf X -> index_arr X it = Some R -> wf R.
Proof.
  unfold index_arr, wf. destruct (np_index (a_rows X) it) as [rws|] eqn:Ei; [|discriminate].
  intros Hwf H; injection H as <-. cbn [a_nc a_rows]. eapply np_index_Forall; eassumption.
Qed.

(* whatever a reader returns -- empty or not, through any deferred operations and any trailing column
   selector -- is a well-formed (k, a_nc) block, provided the base reader hands out rows of c0 entries *)
Lemma reader_getitem_wf (rows : item -> option (list (list A))) (d0 : D) (c0 : Z) ops it cols x :
  (forall R, rows it = Some R -> Forall (fun r => zlen r = c0) R) ->
  reader_getitem sem dsem rows d0 c0 ops it cols = Some (GRows x) -> wf x.
Proof.
  intros Hrows. unfold reader_getitem.
  assert (Hread : forall ops' y, read_rows sem dsem rows d0 c0 ops' it = Some y -> wf y).
  { intros ops' y. unfold read_rows. destruct (rows it) as [R|] eqn:Er; [|discriminate]. cbn [bind].
    apply apply_ops_wf. unfold wf; cbn [a_nc a_rows]. apply Hrows. reflexivity. }
  destruct cols as [cs|].
  - destruct (is_whole it); [discriminate|].
    destruct (read_rows sem dsem rows d0 c0 (ops ++ [OCols cs]) it) as [y|] eqn:E; [|discriminate].
    intros H; injection H as <-. eapply Hread. exact E.
  - destruct (read_rows sem dsem rows d0 c0 ops it) as [y|] eqn:E; [|discriminate].
    intros H; injection H as <-. eapply Hread. exact E.
Qed.
End Shape.
