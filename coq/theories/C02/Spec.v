(* C02/Spec.v -- the property, stated without reference to op lists or heaps: the value of an
   expression on the fully loaded array (recursion on the expression, NumPy's operators applied to the
   whole matrix), then rows, then columns; for derivation histories, the store of the EXPRESSIONS the
   readers denote.  Plus the boolean checkers used by Corr.v. *)
From Coq Require Import ZArith List Lia Bool.
From PV Require Import Base.PySlice Base.NpSearch C01.Model C01.Spec C02.Model.
Import ListNotations.
Open Scope Z_scope.

Section Spec.
Context {A D : Type}.
Variable sem : code -> D -> A -> option A.
Variable dsem : code -> D -> option D.
Notation array := (arr A D).

(* "applying the same expression to the fully loaded array" *)
Fixpoint eval_eager (e : expr) (M : array) : option array :=
  match e with
  | EBase => Some M
  | EUn u e' => bind (eval_eager e' M) (np_map sem dsem (un_code u))
  | EBinL b e' s => bind (eval_eager e' M) (np_map sem dsem (bin_code b s))
  | EBinR b s e' => bind (eval_eager e' M) (np_map sem dsem (rbin_code b s))
  | ECols e' sel => bind (eval_eager e' M) (np_cols sel)
  end.

(* "... and then indexing": np.atleast_2d(E[it]), then [:, cols] when a column selector is given *)
Definition then_index (E : array) (it : item) (cols : option colsel) : option array :=
  bind (index_arr E it) (fun R => match cols with None => Some R | Some cs => np_cols cs R end).

Definition eager_then_index (e : expr) (M : array) (it : item) (cols : option colsel) : option array :=
  bind (eval_eager e M) (fun E => then_index E it cols).

(* ---- derivation histories: what every reader denotes ---- *)
(* the reference semantics of a history: reader k denotes an expression; deriving from p with entry o
   adds the expression "o applied to what p denotes"; nothing else changes *)
Definition sstep (st : list expr) (c : cmd) : option (list expr) :=
  match c with
  | CDerive p o =>
      match nth_error st p with
      | Some e => option_map (fun e' => st ++ [e']) (op_expr o e)
      | None => None
      end
  | CRead r _ _ => match nth_error st r with Some _ => Some st | None => None end
  end.

(* the reference answer to a command in the store [st], on the recording M.  None: no reference (the
   reader does not exist, or NumPy raises when the expression is applied to the whole recording:
   such programs are outside the statement) *)
Definition returns_reader (it : item) (cols : option colsel) : bool :=
  match cols with Some _ => is_whole it | None => false end.

Definition sout (M : array) (st : list expr) (c : cmd) : option (@out A D) :=
  match c with
  | CDerive _ _ => Some ODerived
  | CRead r it cols =>
      match nth_error st r with
      | None => None
      | Some e =>
          if returns_reader it cols then Some OReader
          else option_map (fun E => out_of (option_map GRows (then_index E it cols))) (eval_eager e M)
      end
  end.
End Spec.

(* ---------------------------------------------------------------------------------------- *)
(* concrete observations: elements are bit patterns (Z), dtypes are tags (Z)                  *)
(* ---------------------------------------------------------------------------------------- *)
Notation zarr := (arr Z Z).

Fixpoint zl_eqb (a b : list Z) : bool :=
  match a, b with
  | [], [] => true
  | x :: a', y :: b' => (x =? y) && zl_eqb a' b'
  | _, _ => false
  end.
Fixpoint zm_eqb (a b : list (list Z)) : bool :=
  match a, b with
  | [], [] => true
  | x :: a', y :: b' => zl_eqb x y && zm_eqb a' b'
  | _, _ => false
  end.
Lemma zl_eqb_eq a b : zl_eqb a b = true <-> a = b.
Proof.
  revert b; induction a as [|x a IH]; intros [|y b]; cbn [zl_eqb]; split; try discriminate; try reflexivity.
  - rewrite andb_true_iff, IH. intros [H ->]. f_equal. lia.
  - intros H; injection H as -> ->. rewrite andb_true_iff, IH. split; [lia|reflexivity].
Qed.
Lemma zm_eqb_eq a b : zm_eqb a b = true <-> a = b.
Proof.
  revert b; induction a as [|x a IH]; intros [|y b]; cbn [zm_eqb]; split; try discriminate; try reflexivity.
  - rewrite andb_true_iff, IH, zl_eqb_eq. intros [-> ->]. reflexivity.
  - intros H; injection H as -> ->. rewrite andb_true_iff, IH, zl_eqb_eq. split; reflexivity.
Qed.

(* values and shape (the column count is compared explicitly: on a block of 0 rows it is the only thing
   left of the shape) / dtype of a block *)
Definition vals_eqb (x y : zarr) : bool := (a_nc x =? a_nc y) && zm_eqb (a_rows x) (a_rows y).
Definition dt_eqb (x y : zarr) : bool := a_dt x =? a_dt y.
Definition zarr_eqb (x y : zarr) : bool := dt_eqb x y && vals_eqb x y.

Lemma zarr_eqb_eq x y : zarr_eqb x y = true <-> x = y.
Proof.
  destruct x as [d c r], y as [d' c' r']. unfold zarr_eqb, dt_eqb, vals_eqb; cbn [a_dt a_nc a_rows].
  rewrite !andb_true_iff, zm_eqb_eq, !Z.eqb_eq.
  split; [intros [-> [-> ->]]; reflexivity|intros H; injection H as -> -> ->; repeat split; reflexivity].
Qed.

(* the observed answer to a read agrees with the reference answer: values / dtype / kind *)
Definition out_vals_b (ref obs : @out Z Z) : bool :=
  match ref, obs with
  | ORows x, ORows y => vals_eqb x y
  | ODerived, ODerived | OReader, OReader | OErr, OErr => true
  | _, _ => false
  end.
Definition out_dt_b (ref obs : @out Z Z) : bool :=
  match ref, obs with
  | ORows x, ORows y => dt_eqb x y
  | _, _ => true
  end.
Definition out_eqb (a b : @out Z Z) : bool := out_vals_b a b && out_dt_b a b.

Lemma out_eqb_eq a b : out_eqb a b = true <-> a = b.
Proof.
  unfold out_eqb. destruct a as [|x| |], b as [|y| |]; cbn [out_vals_b out_dt_b];
    try (split; [discriminate|intros H; discriminate H]); try (split; reflexivity).
  rewrite andb_comm. change (zarr_eqb x y = true <-> ORows x = ORows y). rewrite zarr_eqb_eq.
  split; [intros ->; reflexivity|intros H; injection H as ->; reflexivity].
Qed.

(* "is again a reader": the answer to a derivation (an operator, or exactly reader[:, cols]) must be a
   reader; any other indexing must not be one (a read that raises is judged by the value clause) *)
Definition kind_ok_b (c : cmd) (obs : @out Z Z) : bool :=
  match c, obs with
  | CDerive _ _, ODerived => true
  | CDerive _ _, _ => false
  | CRead _ it (Some _), OReader => is_whole it
  | CRead _ it (Some _), (ORows _ | OErr) => negb (is_whole it)
  | CRead _ _ None, (ORows _ | OErr) => true
  | CRead _ _ _, _ => false
  end.

(* ---- independence, as a relation on an observed history: two reads of the same reader with the
   same index give the same answer, whatever was derived in between ---- *)
Definition oitem_eqb (a b : option Z) : bool :=
  match a, b with None, None => true | Some x, Some y => x =? y | _, _ => false end.
Definition item_eqb (a b : item) : bool :=
  match a, b with
  | IInt i, IInt j => i =? j
  | ISlice a1 a2 a3, ISlice b1 b2 b3 => oitem_eqb a1 b1 && oitem_eqb a2 b2 && oitem_eqb a3 b3
  | IList l, IList m => zl_eqb l m
  | _, _ => false
  end.
Definition colsel_eqb (a b : colsel) : bool :=
  match a, b with
  | CSlice a1 a2 a3, CSlice b1 b2 b3 => oitem_eqb a1 b1 && oitem_eqb a2 b2 && oitem_eqb a3 b3
  | CList l, CList m => zl_eqb l m
  | _, _ => false
  end.
Definition ocols_eqb (a b : option colsel) : bool :=
  match a, b with None, None => true | Some x, Some y => colsel_eqb x y | _, _ => false end.
Definition same_read (a b : cmd) : bool :=
  match a, b with
  | CRead r it cols, CRead r' it' cols' => Nat.eqb r r' && item_eqb it it' && ocols_eqb cols cols'
  | _, _ => false
  end.

Lemma oitem_eqb_eq a b : oitem_eqb a b = true <-> a = b.
Proof.
  destruct a, b; cbn [oitem_eqb]; split; try discriminate; try reflexivity.
  - intros H; f_equal; lia.
  - intros H; injection H as ->; apply Z.eqb_refl.
Qed.
Lemma item_eqb_eq a b : item_eqb a b = true <-> a = b.
Proof.
  destruct a, b; cbn [item_eqb]; split; try discriminate; try reflexivity.
  - intros H; f_equal; lia.
  - intros H; injection H as ->; apply Z.eqb_refl.
  - rewrite !andb_true_iff, !oitem_eqb_eq. intros [[-> ->] ->]. reflexivity.
  - intros H; injection H as -> -> ->. rewrite !andb_true_iff, !oitem_eqb_eq. repeat split.
  - rewrite zl_eqb_eq. intros ->. reflexivity.
  - intros H; injection H as ->. apply zl_eqb_eq. reflexivity.
Qed.
Lemma colsel_eqb_eq a b : colsel_eqb a b = true <-> a = b.
Proof.
  destruct a, b; cbn [colsel_eqb]; split; try discriminate; try reflexivity.
  - rewrite !andb_true_iff, !oitem_eqb_eq. intros [[-> ->] ->]. reflexivity.
  - intros H; injection H as -> -> ->. rewrite !andb_true_iff, !oitem_eqb_eq. repeat split.
  - rewrite zl_eqb_eq. intros ->. reflexivity.
  - intros H; injection H as ->. apply zl_eqb_eq. reflexivity.
Qed.
Lemma same_read_eq a b : same_read a b = true -> a = b.
Proof.
  destruct a as [|r it cols], b as [|r' it' cols']; cbn [same_read]; try discriminate.
  rewrite !andb_true_iff, Nat.eqb_eq, item_eqb_eq. intros [[-> ->] H]. f_equal.
  destruct cols, cols'; cbn [ocols_eqb] in H; try discriminate; try reflexivity.
  f_equal. apply colsel_eqb_eq. exact H.
Qed.

(* Stable history: equal reads have equal answers *)
Definition Stable {A D : Type} (h : list (cmd * @out A D)) : Prop :=
  forall c o c' o', In (c, o) h -> In (c', o') h -> same_read c c' = true -> o = o'.

Fixpoint stable_b (h : list (cmd * @out Z Z)) : bool :=
  match h with
  | [] => true
  | (c, o) :: r => forallb (fun p => negb (same_read c (fst p)) || out_eqb o (snd p)) r && stable_b r
  end.

Lemma stable_b_sound h : stable_b h = true -> Stable h.
Proof.
  induction h as [|[c o] r IH]; intros Hb.
  - intros ? ? ? ? [].
  - cbn [stable_b] in Hb. apply andb_true_iff in Hb as [Hf Hr]. rewrite forallb_forall in Hf.
    specialize (IH Hr).
    assert (Hhead : forall c' o', In (c', o') r -> same_read c c' = true -> o = o').
    { intros c' o' Hin Hs. specialize (Hf (c', o') Hin). cbn [fst snd] in Hf.
      rewrite Hs in Hf. cbn [negb orb] in Hf. apply out_eqb_eq. exact Hf. }
    intros c1 o1 c2 o2 [H1|H1] [H2|H2] Hs.
    + injection H1 as <- <-. injection H2 as <- <-. reflexivity.
    + injection H1 as <- <-. eapply Hhead; eassumption.
    + injection H2 as <- <-. symmetry. eapply Hhead; [exact H1|].
      pose proof (same_read_eq _ _ Hs) as ->. exact Hs.
    + eapply IH; eassumption.
Qed.

(* the reference answers along a history (None where there is no reference, see sout) *)
Section SpecRun.
Context {A D : Type}.
Variable sem : code -> D -> A -> option A.
Variable dsem : code -> D -> option D.
Fixpoint sruns (M : arr A D) (cmds : list cmd) (est : list expr) : option (list (option (@out A D))) :=
  match cmds with
  | [] => Some []
  | c :: r =>
      match sstep est c with
      | None => None
      | Some est' => option_map (cons (sout sem dsem M est c)) (sruns M r est')
      end
  end.
(* an observed answer agrees with the reference when there is one *)
Definition agrees (o : @out A D) (ro : option (@out A D)) : Prop := forall o', ro = Some o' -> o = o'.
End SpecRun.

(* ---------------------------------------------------------------------------------------- *)
(* "followed by every row index": the row indices of the statement                            *)
(* ---------------------------------------------------------------------------------------- *)
(* C01's regime (PV.C01.Spec.valid_item: integers, unit-step slices selecting >= 1 row, non-empty
   increasing lists) PLUS the empty selections the reader without deferred operations answers like
   NumPy (a (0, c) block): unit-step slices with bounds in {None} u [-n, n] whose NumPy-normalised
   bounds satisfy 0 < e <= s < n, with row s and row e - 1 in the same file.  [sizes]: the numbers of
   rows of the files.  Outside: stop = 0 (phylib reads it as None -- DESIGN §8 C01), and the empty
   selections on which the base reader itself raises (np.vstack of no block: start = n, stop = -n,
   s and e - 1 in different files, an empty index list) -- there a derived reader raises exactly like
   its base (model clause), and NumPy's answer is not claimed. *)
Definition empty_item (sizes : list Z) (it : item) : Prop :=
  match it with
  | ISlice start stop step =>
      let n := zsum sizes in
      let s := np_bound n 0 start in let e := np_bound n n stop in
      unit_step step /\ bound_ok n start /\ bound_ok n stop /\ 0 < e /\ e <= s /\ s < n /\
      find_chunk (part_bounds sizes) s = find_chunk (part_bounds sizes) (e - 1)
  | _ => False
  end.

Definition empty_item_b (sizes : list Z) (it : item) : bool :=
  match it with
  | ISlice start stop step =>
      let n := zsum sizes in
      let s := np_bound n 0 start in let e := np_bound n n stop in
      unit_step_b step && bound_ok_b n start && bound_ok_b n stop && (0 <? e) && (e <=? s) && (s <? n) &&
      (find_chunk (part_bounds sizes) s =? find_chunk (part_bounds sizes) (e - 1))
  | _ => false
  end.

Lemma empty_item_b_spec sizes it : empty_item_b sizes it = true <-> empty_item sizes it.
Proof.
  destruct it as [i|start stop step|l]; cbn [empty_item_b empty_item]; [split; [discriminate|tauto]| |split; [discriminate|tauto]].
  cbv zeta. rewrite !andb_true_iff.
  assert (Hs : unit_step_b step = true <-> unit_step step).
  { unfold unit_step_b, unit_step. destruct step as [s|].
    - split; [intros H; right; f_equal; lia|intros [H|H]; [discriminate|injection H as ->; reflexivity]].
    - split; [now left|reflexivity]. }
  assert (Hb : forall x, bound_ok_b (zsum sizes) x = true <-> bound_ok (zsum sizes) x).
  { intros [v|]; cbn [bound_ok_b bound_ok]; [rewrite andb_true_iff; lia|tauto]. }
  rewrite Hs, !Hb, !Z.ltb_lt, Z.leb_le, Z.eqb_eq. tauto.
Qed.

(* the row indices of C02's statement on a recording stored in files of [sizes] rows *)
Definition row_item (sizes : list Z) (it : item) : Prop := valid_item (zsum sizes) it \/ empty_item sizes it.
Definition row_item_b (sizes : list Z) (it : item) : bool := valid_item_b (zsum sizes) it || empty_item_b sizes it.
Lemma row_item_b_spec sizes it : row_item_b sizes it = true <-> row_item sizes it.
Proof. unfold row_item_b, row_item. rewrite orb_true_iff, valid_item_b_spec, empty_item_b_spec. tauto. Qed.
