(* C11/Model.v -- executable model of the spike side of phylib/io/merge.py (Merger), no proofs.

   Mirrors, line by line:
     _concat                         concatenation of the per-probe arrays
     _load_multiple_spike_times      spike_order = np.argsort(concat times, kind='stable'); times[spike_order]
     _load_multiple_spike_arrays     assert len(concat) == len(spike_order); concat[spike_order]   (same order reused)
     write_spike_data                amplitudes (and the not-yet-shifted templates, overwritten later)
     write_spike_clusters            (as repaired on branch fix-c11b) running offsets: coffset += max(spike_clusters) + 1,
                                     toffset += n_tmp where n_tmp = number of rows of the probe's templates.npy (an INPUT,
                                     p_ntmpl; np.max(spike_templates) is no longer evaluated), in-place shift of each
                                     probe's ids, cluster_probes = concat (i * ones(n_clu)), the final assert.
                                     Nothing in the code compares n_tmp with the probe's spike_templates: when a spike
                                     names a template >= n_tmp the merge goes through and the shifted id falls into the
                                     next probe's range (modelled as is; Props.C11_template_count_needed)
     write_cluster_data              per TSV file: dictionary id + offset -> value over the probes that have the file
                                     (later probe overwrites), field name of the last probe that has it, rows sorted by id,
                                     file written only when the dictionary is not empty
   Where NumPy/Python raises (no probe, a probe without spikes: np.max of an empty array, unequal total lengths,
   the final assert) the model returns None.  dtypes are not modelled (ids and times are Z). *)
From Coq Require Import ZArith List Bool.
From PV Require Import Base.NpSort.
Import ListNotations.
Open Scope Z_scope.

Section Model.
Context {A V F : Type}.   (* amplitude values, metadata values, metadata field names *)

Record metatab := mkmeta { mt_field : F; mt_rows : list (Z * V) }.   (* one two-column TSV file: header field, rows *)

Record probe := mkprobe {
  p_times : list Z; p_amps : list A; p_tmpl : list Z; p_clu : list Z;
  p_ntmpl : Z;                       (* templates.npy.shape[0]: the number of templates of the probe *)
  p_meta : list (option metatab)     (* one entry per name in write_cluster_data's list; None = file absent *)
}.

Record merged := mkmerged {
  m_times : list Z; m_amps : list A; m_tmpl : list Z; m_clu : list Z;
  m_cprobes : list Z;                 (* cluster_probes.npy *)
  m_coffs : list Z; m_toffs : list Z; (* self.cluster_offsets, self.template_offsets *)
  m_meta : list (option metatab)      (* per file name: None = not written *)
}.

(* arr[order] : IndexError -> None *)
Fixpoint take {X} (l : list X) (order : list nat) : option (list X) :=
  match order with
  | [] => Some []
  | i :: r => match nth_error l i, take l r with
              | Some x, Some y => Some (x :: y)
              | _, _ => None
              end
  end.

Definition concat_times (ps : list probe) : list Z := concat (map p_times ps).
Definition spike_order (ps : list probe) : list nat := stable_argsort (concat_times ps).

(* _load_multiple_spike_arrays *)
Definition load_spike_arrays {X} (arrs : list (list X)) (order : list nat) : option (list X) :=
  let c := concat arrs in
  if Nat.eqb (length c) (length order) then take c order else None.

(* np.max: ValueError on an empty array *)
Definition zmax_opt (l : list Z) : option Z :=
  match l with [] => None | x :: r => Some (fold_left Z.max r x) end.

Record shifted := mkshift { sh_coff : Z; sh_toff : Z; sh_sc : list Z; sh_st : list Z; sh_cp : list Z }.

(* the loop of write_spike_clusters *)
Fixpoint sc_loop (i coff toff : Z) (ps : list probe) : option (list shifted) :=
  match ps with
  | [] => Some []
  | p :: r =>
    match zmax_opt (p_clu p) with
    | Some mc =>
        let n_clu := mc + 1 in
        let n_tmp := p_ntmpl p in                      (* zip(..., n_templates_l) *)
        if n_clu <? 0 then None (* np.ones(negative) *) else
        match sc_loop (i + 1) (coff + n_clu) (toff + n_tmp) r with
        | Some rest => Some (mkshift coff toff (map (Z.add coff) (p_clu p)) (map (Z.add toff) (p_tmpl p))
                                     (repeat i (Z.to_nat n_clu)) :: rest)
        | None => None
        end
    | None => None
    end
  end.

(* Python dict keyed by int, read back with sorted(): association list kept sorted by key, assignment overwrites *)
Fixpoint dict_set (k : Z) (v : V) (d : list (Z * V)) : list (Z * V) :=
  match d with
  | [] => [(k, v)]
  | (k0, v0) :: r => if k <? k0 then (k, v) :: d
                     else if k =? k0 then (k, v) :: r
                     else (k0, v0) :: dict_set k v r
  end.
Fixpoint dict_get (d : list (Z * V)) (k : Z) : option V :=
  match d with
  | [] => None
  | (k0, v0) :: r => if k =? k0 then Some v0 else dict_get r k
  end.
(* _read_tsv_simple: rows -> dict *)
Definition read_rows (rows : list (Z * V)) : list (Z * V) :=
  fold_left (fun d kv => dict_set (fst kv) (snd kv) d) rows [].

Record mstate := mkms { ms_field : option F; ms_dict : list (Z * V) }.

(* inner loop of write_cluster_data for the file number f *)
Definition meta_step (f : nat) (st : mstate) (po : probe * Z) : mstate :=
  match nth f (p_meta (fst po)) None with
  | None => st                                           (* ValueError caught: continue *)
  | Some mt => mkms (Some (mt_field mt))
                    (fold_left (fun d kv => dict_set (fst kv + snd po) (snd kv) d) (read_rows (mt_rows mt)) (ms_dict st))
  end.
Definition meta_file (f : nat) (ps : list probe) (coffs : list Z) : option metatab :=
  let st := fold_left (meta_step f) (combine ps coffs) (mkms None []) in
  match ms_dict st, ms_field st with
  | _ :: _, Some fld => Some (mkmeta fld (ms_dict st))
  | _, _ => None                                          (* `if metadata:` *)
  end.

Definition n_meta_files : nat := 3.

Definition merge (ps : list probe) : option merged :=
  match ps with [] => None (* assert subdirs *) | _ :: _ =>
  let order := spike_order ps in
  match take (concat_times ps) order,
        load_spike_arrays (map p_amps ps) order,
        load_spike_arrays (map p_tmpl ps) order,          (* write_spike_data: same assert, result overwritten *)
        sc_loop 0 0 0 ps with
  | Some times, Some amps, Some _, Some sh =>
      match load_spike_arrays (map sh_sc sh) order, load_spike_arrays (map sh_st sh) order with
      | Some clu, Some tmpl =>
          let cp := concat (map sh_cp sh) in
          match zmax_opt clu with
          | Some mx =>
              if mx + 1 =? Z.of_nat (length cp) then
                let coffs := map sh_coff sh in
                Some (mkmerged times amps tmpl clu cp coffs (map sh_toff sh)
                               (map (fun f => meta_file f ps coffs) (seq 0 n_meta_files)))
              else None
          | None => None
          end
      | _, _ => None
      end
  | _, _, _, _ => None
  end end.

End Model.

Arguments metatab : clear implicits.
Arguments probe : clear implicits.
Arguments merged : clear implicits.
