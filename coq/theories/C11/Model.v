(* C11/Model.v -- executable model of the spike side of phylib/io/merge.py (Merger), no proofs.

   Mirrors, line by line:
     _concat                         concatenation of the per-probe arrays
     _load_multiple_spike_times      spike_order = np.argsort(concat times, kind='stable'); times[spike_order]
     _load_multiple_spike_arrays     assert len(concat) == len(spike_order); concat[spike_order]   (same order reused)
     write_spike_data                amplitudes (and the not-yet-shifted templates, overwritten later)
     write_spike_clusters            (as repaired on branches fix-c11b, fix-c11c) running offsets: coffset += n_clu where
                                     n_clu = max(max(spike_clusters), the ids listed in the probe's cluster_*.tsv files) + 1
                                     (fix-c11c: a cluster without spikes that has a metadata row keeps an id of its own),
                                     toffset += n_tmp where n_tmp = number of rows of the probe's templates.npy (an INPUT,
                                     p_ntmpl; np.max(spike_templates) is no longer evaluated), shift of each
                                     probe's ids, cluster_probes = concat (i * ones(n_clu)), the final assert
                                     int(max(spike_clusters)) + 1 <= len(cluster_probes).
                                     Nothing in the code compares n_tmp with the probe's spike_templates: when a spike
                                     names a template >= n_tmp the merge goes through and the shifted id falls into the
                                     next probe's range (modelled as is; Props.C11_template_count_needed)
     write_cluster_data              per TSV file: dictionary id + offset -> value over the probes that have the file
                                     (later probe overwrites), field name of the last probe that has it, rows sorted by id,
                                     file written only when the dictionary is not empty
   Where NumPy/Python raises (no probe, a probe without spikes: np.max of an empty array, unequal total lengths,
   the final assert) the model returns None.
   [merge] computes on Z.  [merge_dt] (end of the file) is the same merge with NumPy's fixed-width integer arithmetic:
   the dtype of the merged times / cluster ids / template ids chosen by _int_dtype (fix-c11c), .astype() and `+ offset`
   wrapping modulo 2^bits, OverflowError when the Python-int offset is out of the dtype's bounds. *)
From Coq Require Import ZArith List Bool.
From PV Require Import Base.NpSort Base.NpSearch.
Import ListNotations.
Open Scope Z_scope.

Section Model.
Context {A V F : Type}.   (* amplitude values, metadata values, metadata field names *)

Record metatab := mkmeta { mt_field : F; mt_rows : list (Z * V) }.   (* one two-column TSV file: header field, rows *)

Record probe := mkprobe {
  p_times : list Z; p_amps : list A; p_tmpl : list Z; p_clu : list Z;
  p_ntmpl : Z;                       (* templates.npy.shape[0]: the number of templates of the probe *)
  p_meta : list (option metatab)     (* one entry per name in write_cluster_data's list; None = file absent *)
}.

Record merged := mkmerged {
  m_times : list Z; m_amps : list A; m_tmpl : list Z; m_clu : list Z;
  m_cprobes : list Z;                 (* cluster_probes.npy *)
  m_coffs : list Z; m_toffs : list Z; (* self.cluster_offsets, self.template_offsets *)
  m_meta : list (option metatab)      (* per file name: None = not written *)
}.

(* arr[order] : IndexError -> None *)
Fixpoint take {X} (l : list X) (order : list nat) : option (list X) :=
  match order with
  | [] => Some []
  | i :: r => match nth_error l i, take l r with
              | Some x, Some y => Some (x :: y)
              | _, _ => None
              end
  end.

Definition n_meta_files : nat := 3.

(* the cluster ids listed in the probe's cluster_*.tsv files: Merger._metadata_cluster_ids (keys of the dictionaries) *)
Definition meta_ids (p : probe) : list Z :=
  flat_map (fun f => match nth f (p_meta p) None with Some mt => map fst (mt_rows mt) | None => [] end)
           (seq 0 n_meta_files).

Definition concat_times (ps : list probe) : list Z := concat (map p_times ps).
Definition spike_order (ps : list probe) : list nat := stable_argsort (concat_times ps).

(* _load_multiple_spike_arrays *)
Definition load_spike_arrays {X} (arrs : list (list X)) (order : list nat) : option (list X) :=
  let c := concat arrs in
  if Nat.eqb (length c) (length order) then take c order else None.

(* np.max: ValueError on an empty array *)
Definition zmax_opt (l : list Z) : option Z :=
  match l with [] => None | x :: r => Some (fold_left Z.max r x) end.

Record shifted := mkshift { sh_coff : Z; sh_toff : Z; sh_sc : list Z; sh_st : list Z; sh_cp : list Z }.

(* n_clusters_l: max([int(np.max(sc))] + self._metadata_cluster_ids(subdir)) + 1 *)
Definition n_clu_of (p : probe) : option Z :=
  match zmax_opt (p_clu p) with
  | Some mc => Some (fold_left Z.max (meta_ids p) mc + 1)
  | None => None
  end.

(* the loop of write_spike_clusters *)
Fixpoint sc_loop (i coff toff : Z) (ps : list probe) : option (list shifted) :=
  match ps with
  | [] => Some []
  | p :: r =>
    match n_clu_of p with
    | Some n_clu =>
        let n_tmp := p_ntmpl p in                      (* zip(..., n_templates_l) *)
        if n_clu <? 0 then None (* np.ones(negative) *) else
        match sc_loop (i + 1) (coff + n_clu) (toff + n_tmp) r with
        | Some rest => Some (mkshift coff toff (map (Z.add coff) (p_clu p)) (map (Z.add toff) (p_tmpl p))
                                     (repeat i (Z.to_nat n_clu)) :: rest)
        | None => None
        end
    | None => None
    end
  end.

(* Python dict keyed by int, read back with sorted(): association list kept sorted by key, assignment overwrites *)
Fixpoint dict_set (k : Z) (v : V) (d : list (Z * V)) : list (Z * V) :=
  match d with
  | [] => [(k, v)]
  | (k0, v0) :: r => if k <? k0 then (k, v) :: d
                     else if k =? k0 then (k, v) :: r
                     else (k0, v0) :: dict_set k v r
  end.
Fixpoint dict_get (d : list (Z * V)) (k : Z) : option V :=
  match d with
  | [] => None
  | (k0, v0) :: r => if k =? k0 then Some v0 else dict_get r k
  end.
(* _read_tsv_simple: rows -> dict *)
Definition read_rows (rows : list (Z * V)) : list (Z * V) :=
  fold_left (fun d kv => dict_set (fst kv) (snd kv) d) rows [].

Record mstate := mkms { ms_field : option F; ms_dict : list (Z * V) }.

(* inner loop of write_cluster_data for the file number f *)
Definition meta_step (f : nat) (st : mstate) (po : probe * Z) : mstate :=
  match nth f (p_meta (fst po)) None with
  | None => st                                           (* ValueError caught: continue *)
  | Some mt => mkms (Some (mt_field mt))
                    (fold_left (fun d kv => dict_set (fst kv + snd po) (snd kv) d) (read_rows (mt_rows mt)) (ms_dict st))
  end.
Definition meta_file (f : nat) (ps : list probe) (coffs : list Z) : option metatab :=
  let st := fold_left (meta_step f) (combine ps coffs) (mkms None []) in
  match ms_dict st, ms_field st with
  | _ :: _, Some fld => Some (mkmeta fld (ms_dict st))
  | _, _ => None                                          (* `if metadata:` *)
  end.

(* merge(), given the concatenated spike times as they are after _concat (ctimes) and the outcome of the loop of
   write_spike_clusters (sc) *)
Definition merge_core (ctimes : list Z) (sc : option (list shifted)) (ps : list probe) : option merged :=
  match ps with [] => None (* assert subdirs *) | _ :: _ =>
  let order := stable_argsort ctimes in
  match take ctimes order,
        load_spike_arrays (map p_amps ps) order,
        load_spike_arrays (map p_tmpl ps) order,          (* write_spike_data: same assert, result overwritten *)
        sc with
  | Some times, Some amps, Some _, Some sh =>
      match load_spike_arrays (map sh_sc sh) order, load_spike_arrays (map sh_st sh) order with
      | Some clu, Some tmpl =>
          let cp := concat (map sh_cp sh) in
          match zmax_opt clu with
          | Some mx =>
              if mx + 1 <=? Z.of_nat (length cp) then        (* the last probe may end with ids without spikes *)
                let coffs := map sh_coff sh in
                Some (mkmerged times amps tmpl clu cp coffs (map sh_toff sh)
                               (map (fun f => meta_file f ps coffs) (seq 0 n_meta_files)))
              else None
          | None => None
          end
      | _, _ => None
      end
  | _, _, _, _ => None
  end end.

Definition merge (ps : list probe) : option merged := merge_core (concat_times ps) (sc_loop 0 0 0 ps) ps.

End Model.

Arguments metatab : clear implicits.
Arguments probe : clear implicits.
Arguments merged : clear implicits.

(* ================= fixed-width integers: the dtypes of the id and time arrays =================
   NumPy integer dtypes as value ranges; .astype(d) between integer dtypes and array arithmetic in d are modular. *)
Inductive idt := U8 | U16 | U32 | U64 | I8 | I16 | I32 | I64.
Definition dt_bits (d : idt) : Z :=
  match d with U8 | I8 => 8 | U16 | I16 => 16 | U32 | I32 => 32 | U64 | I64 => 64 end.
Definition dt_signed (d : idt) : bool := match d with I8 | I16 | I32 | I64 => true | _ => false end.
Definition dt_min (d : idt) : Z := if dt_signed d then - 2 ^ (dt_bits d - 1) else 0.
Definition dt_max (d : idt) : Z := if dt_signed d then 2 ^ (dt_bits d - 1) - 1 else 2 ^ dt_bits d - 1.
Definition fits (d : idt) (v : Z) : bool := (dt_min d <=? v) && (v <=? dt_max d).
(* the value after a C cast to d / after an overflowing operation in d *)
Definition wrap (d : idt) (v : Z) : Z := dt_min d + (v - dt_min d) mod 2 ^ dt_bits d.

(* np.min_scalar_type(v) for a Python int v: the smallest unsigned type for v >= 0, the smallest signed one for v < 0;
   None = object dtype (does not fit 64 bits) *)
Definition min_scalar_type (v : Z) : option idt :=
  if 0 <=? v then
    if v <=? dt_max U8 then Some U8 else if v <=? dt_max U16 then Some U16 else
    if v <=? dt_max U32 then Some U32 else if v <=? dt_max U64 then Some U64 else None
  else
    if dt_min I8 <=? v then Some I8 else if dt_min I16 <=? v then Some I16 else
    if dt_min I32 <=? v then Some I32 else if dt_min I64 <=? v then Some I64 else None.

(* np.promote_types on integer dtypes; None = float64 (uint64 with a signed type) *)
Definition promote (a b : idt) : option idt :=
  match dt_signed a, dt_signed b with
  | false, false | true, true => Some (if dt_bits a <? dt_bits b then b else a)
  | true, false => if dt_bits b <? dt_bits a then Some a else
                   match b with U8 => Some I16 | U16 => Some I32 | U32 => Some I64 | _ => None end
  | false, true => if dt_bits a <? dt_bits b then Some b else
                   match a with U8 => Some I16 | U16 => Some I32 | U32 => Some I64 | _ => None end
  end.

(* phylib.io.merge._int_dtype(dtype, max_value): dtype itself when it holds max_value, else promoted with the smallest
   type of the same signedness that holds it (the smallest signed type holding v is the one holding -v - 1) *)
Definition int_dtype (d : idt) (mx : Z) : option idt :=
  if mx <=? dt_max d then Some d else
  match min_scalar_type (if dt_signed d then - mx - 1 else mx) with Some b => promote d b | None => None end.

(* arr.astype(d) + off with a Python int off: OverflowError when off is out of bounds for d, otherwise computed in d *)
Definition shift_dt (d : idt) (off : Z) (ids : list Z) : option (list Z) :=
  if fits d off then Some (map (fun c => wrap d (wrap d c + off)) ids) else None.

(* max(int(np.max(a)) for a in arrs): ValueError on an empty array *)
Fixpoint zmax_all (ls : list (list Z)) : option Z :=
  match ls with
  | [] => None
  | l :: r => match zmax_opt l, r with
              | Some m, [] => Some m
              | Some m, _ :: _ => match zmax_all r with Some m' => Some (Z.max m m') | None => None end
              | None, _ => None
              end
  end.

Section ModelDt.
Context {A V F : Type}.
Notation probe := (probe A V F).
Notation merged := (merged A V F).

(* sum(n_clusters_l) *)
Fixpoint total_clu (ps : list probe) : option Z :=
  match ps with
  | [] => Some 0
  | p :: r => match n_clu_of p, total_clu r with Some n, Some t => Some (n + t) | _, _ => None end
  end.

(* the loop of write_spike_clusters in the dtypes cd (clusters) and td (templates) *)
Fixpoint sc_loop_dt (cd td : idt) (i coff toff : Z) (ps : list probe) : option (list shifted) :=
  match ps with
  | [] => Some []
  | p :: r =>
    match n_clu_of p with
    | Some n_clu =>
        let n_tmp := p_ntmpl p in
        match shift_dt cd coff (p_clu p), shift_dt td toff (p_tmpl p) with
        | Some sc, Some st =>
            if n_clu <? 0 then None else
            match sc_loop_dt cd td (i + 1) (coff + n_clu) (toff + n_tmp) r with
            | Some rest => Some (mkshift coff toff sc st (repeat i (Z.to_nat n_clu)) :: rest)
            | None => None
            end
        | _, _ => None
        end
    | None => None
    end
  end.

(* merge() on arrays whose first probe stores times / cluster ids / template ids in the dtypes t0 / c0 / i0;
   returns the merged arrays and the dtypes of the merged spike_times, spike_clusters, spike_templates files *)
Definition merge_dt (t0 c0 i0 : idt) (ps : list probe) : option (merged * (idt * idt * idt)) :=
  match zmax_all (map (@p_times A V F) ps), total_clu ps with
  | Some tmax, Some nclu =>
      match int_dtype t0 tmax, int_dtype c0 (nclu - 1), int_dtype i0 (zsum (map (@p_ntmpl A V F) ps) - 1) with
      | Some td, Some cd, Some id =>
          match merge_core (map (wrap td) (concat_times ps)) (sc_loop_dt cd id 0 0 0 ps) ps with
          | Some m => Some (m, (td, cd, id))
          | None => None
          end
      | _, _, _ => None
      end
  | _, _ => None
  end.
End ModelDt.
