(* C11/Dtype.v -- the merge in NumPy's fixed-width integer arithmetic (Model.merge_dt) never wraps around:
   on well-formed input whose values are below 2^63 it succeeds, returns exactly the arrays of the Z-level Model.merge,
   every merged time / cluster id / template id lies within the dtype of its merged file, and a dtype is changed
   only when the first probe's dtype cannot hold the largest value. *)
From Coq Require Import ZArith List Bool Sorted Permutation Lia Arith ZifyBool.
From PV Require Import Base.NpSort Base.NpSearch C11.Model C11.Spec C11.Proofs C11.Proofs2 C11.Clauses.
Import ListNotations.
Open Scope Z_scope.

Lemma dt_range d : dt_max d - dt_min d + 1 = 2 ^ dt_bits d.
Proof. destruct d; reflexivity. Qed.
Lemma dt_min_le0 d : dt_min d <= 0. Proof. destruct d; vm_compute; congruence. Qed.
Lemma dt_max_ge d : 127 <= dt_max d. Proof. destruct d; vm_compute; congruence. Qed.
Lemma dt_max_lt d : dt_max d < 2 ^ 64. Proof. destruct d; vm_compute; congruence. Qed.

Lemma wrap_id d v : in_dt d v -> wrap d v = v.
Proof.
  unfold in_dt, wrap. intros H. rewrite Z.mod_small; [lia|]. pose proof (dt_range d). lia.
Qed.

Lemma promote_covers a b c : promote a b = Some c ->
  dt_min c <= dt_min a /\ dt_max a <= dt_max c /\ dt_min c <= dt_min b /\ dt_max b <= dt_max c.
Proof.
  destruct a, b; cbn; intros H; inversion H; subst; vm_compute; repeat split; congruence.
Qed.

Lemma min_scalar_nonneg v b : 0 <= v -> min_scalar_type v = Some b -> v <= dt_max b /\ dt_signed b = false.
Proof.
  intros Hv. unfold min_scalar_type. replace (0 <=? v) with true by lia.
  destruct (v <=? dt_max U8) eqn:E1; [intros H; injection H as <-; split; [lia|reflexivity]|].
  destruct (v <=? dt_max U16) eqn:E2; [intros H; injection H as <-; split; [lia|reflexivity]|].
  destruct (v <=? dt_max U32) eqn:E3; [intros H; injection H as <-; split; [lia|reflexivity]|].
  destruct (v <=? dt_max U64) eqn:E4; [intros H; injection H as <-; split; [lia|reflexivity]|discriminate].
Qed.
Lemma min_scalar_neg v b : v < 0 -> min_scalar_type v = Some b -> dt_min b <= v /\ dt_signed b = true.
Proof.
  intros Hv. unfold min_scalar_type. replace (0 <=? v) with false by lia.
  destruct (dt_min I8 <=? v) eqn:E1; [intros H; injection H as <-; split; [lia|reflexivity]|].
  destruct (dt_min I16 <=? v) eqn:E2; [intros H; injection H as <-; split; [lia|reflexivity]|].
  destruct (dt_min I32 <=? v) eqn:E3; [intros H; injection H as <-; split; [lia|reflexivity]|].
  destruct (dt_min I64 <=? v) eqn:E4; [intros H; injection H as <-; split; [lia|reflexivity]|discriminate].
Qed.
Lemma signed_min_max b : dt_signed b = true -> dt_max b = - dt_min b - 1.
Proof. destruct b; try discriminate; reflexivity. Qed.

(* _int_dtype: the result holds max_value and every value of the given dtype; the dtype is kept when it suffices *)
Lemma int_dtype_holds d mx d' : int_dtype d mx = Some d' ->
  mx <= dt_max d' /\ dt_min d' <= dt_min d /\ dt_max d <= dt_max d' /\ (mx <= dt_max d -> d' = d).
Proof.
  unfold int_dtype. destruct (mx <=? dt_max d) eqn:E.
  - intros H; injection H as <-. repeat split; lia.
  - pose proof (dt_max_ge d) as G. destruct (dt_signed d) eqn:Sd.
    + destruct (min_scalar_type (- mx - 1)) as [b|] eqn:Eb; [|discriminate]. intros H.
      destruct (min_scalar_neg (- mx - 1) b ltac:(lia) Eb) as [Hb Sb]. pose proof (signed_min_max b Sb).
      destruct (promote_covers _ _ _ H) as (P1 & P2 & P3 & P4). repeat split; lia.
    + destruct (min_scalar_type mx) as [b|] eqn:Eb; [|discriminate]. intros H.
      destruct (min_scalar_nonneg mx b ltac:(lia) Eb) as [Hb Sb].
      destruct (promote_covers _ _ _ H) as (P1 & P2 & P3 & P4). repeat split; lia.
Qed.

Lemma int_dtype_some d mx : mx < 2 ^ 63 -> exists d', int_dtype d mx = Some d'.
Proof.
  intros H. unfold int_dtype. destruct (mx <=? dt_max d) eqn:E; [eauto|]. pose proof (dt_max_ge d) as G.
  destruct (dt_signed d) eqn:Sd.
  - assert (Hs : exists b, min_scalar_type (- mx - 1) = Some b /\ dt_signed b = true).
    { unfold min_scalar_type. replace (0 <=? - mx - 1) with false by lia.
      destruct (dt_min I8 <=? - mx - 1); [eauto|]. destruct (dt_min I16 <=? - mx - 1); [eauto|].
      destruct (dt_min I32 <=? - mx - 1); [eauto|]. replace (dt_min I64 <=? - mx - 1) with true; [eauto|].
      symmetry. apply Z.leb_le. change (dt_min I64) with (- 2 ^ 63). lia. }
    destruct Hs as (b & -> & Sb). destruct d, b; try discriminate; cbn; eauto.
  - assert (Hs : exists b, min_scalar_type mx = Some b /\ dt_signed b = false).
    { unfold min_scalar_type. replace (0 <=? mx) with true by lia.
      destruct (mx <=? dt_max U8); [eauto|]. destruct (mx <=? dt_max U16); [eauto|].
      destruct (mx <=? dt_max U32); [eauto|]. replace (mx <=? dt_max U64) with true; [eauto|].
      symmetry. apply Z.leb_le. change (dt_max U64) with (2 ^ 64 - 1). lia. }
    destruct Hs as (b & -> & Sb). destruct d, b; try discriminate; cbn; eauto.
Qed.

Lemma shift_dt_id d off ids : in_dt d off -> (forall c, In c ids -> in_dt d c /\ in_dt d (c + off)) ->
  shift_dt d off ids = Some (map (Z.add off) ids).
Proof.
  intros Ho H. unfold shift_dt. rewrite (proj2 (fits_iff d off) Ho). f_equal. apply map_ext_in. intros c Hc.
  destruct (H c Hc) as [H1 H2]. rewrite (wrap_id d c H1), (wrap_id d _ H2). lia.
Qed.

Lemma zmax_all_spec ls m : zmax_all ls = Some m -> forall l x, In l ls -> In x l -> x <= m.
Proof.
  revert m; induction ls as [|l0 r IH]; intros m H l x Hl Hx; [contradiction|]. cbn [zmax_all] in H.
  destruct (zmax_opt l0) as [m0|] eqn:E0; [|discriminate]. apply zmax_opt_iff in E0 as [_ B0].
  destruct r as [|l1 r'].
  - injection H as <-. destruct Hl as [<-|[]]. now apply B0.
  - destruct (zmax_all (l1 :: r')) as [m'|] eqn:E'; [|discriminate]. injection H as <-.
    destruct Hl as [<-|Hl]; [specialize (B0 x Hx); lia|]. specialize (IH m' eq_refl l x Hl Hx). lia.
Qed.
Lemma zmax_all_in ls m : zmax_all ls = Some m -> exists l, In l ls /\ In m l.
Proof.
  revert m; induction ls as [|l0 r IH]; intros m H; [discriminate|]. cbn [zmax_all] in H.
  destruct (zmax_opt l0) as [m0|] eqn:E0; [|discriminate]. apply zmax_opt_iff in E0 as [I0 _].
  destruct r as [|l1 r'].
  - injection H as <-. exists l0. split; [now left|exact I0].
  - destruct (zmax_all (l1 :: r')) as [m'|] eqn:E'; [|discriminate]. injection H as <-.
    destruct (Z.max_spec m0 m') as [[_ ->]|[_ ->]].
    + destruct (IH m' eq_refl) as (l & Hl & Hm). exists l. split; [now right|exact Hm].
    + exists l0. split; [now left|exact I0].
Qed.
Lemma zmax_all_some ls : ls <> [] -> (forall l, In l ls -> l <> []) -> exists m, zmax_all ls = Some m.
Proof.
  induction ls as [|l0 r IH]; intros Hne H; [contradiction|]. cbn [zmax_all].
  destruct (zmax_opt l0) as [m0|] eqn:E0.
  - destruct r as [|l1 r']; [eauto|]. destruct IH as (m' & ->); [discriminate|intros l Hl; apply H; now right|eauto].
  - apply zmax_opt_none in E0. exfalso. exact (H l0 (or_introl eq_refl) E0).
Qed.

Section NoWrap.
Context {A V F : Type}.
Notation probe := (probe A V F).
Notation merged := (merged A V F).

Lemma total_clu_spec (ps : list probe) : Forall wf_probe ps -> total_clu ps = Some (coff_spec ps (length ps)).
Proof.
  induction 1 as [|p r Hp Hr IH]; [reflexivity|]. cbn [total_clu length].
  destruct (wf_probe_ne p Hp) as [Nc _]. pose proof Hp as (_ & _ & _ & _ & Pc & _).
  rewrite (n_clu_of_spec p Nc Pc), IH, !coff_goff, goff_S. reflexivity.
Qed.

(* the loop of write_spike_clusters in fixed-width arithmetic = the loop on Z, when the running totals fit *)
Lemma sc_loop_dt_eq cd td (ps : list probe) : Forall wf_probe ps -> forall i coff toff,
  0 <= coff -> 0 <= toff ->
  coff + coff_spec ps (length ps) - 1 <= dt_max cd -> toff + toff_spec ps (length ps) - 1 <= dt_max td ->
  sc_loop_dt cd td i coff toff ps = sc_loop i coff toff ps.
Proof.
  induction 1 as [|p r Hp Hr IH]; intros i coff toff Hc Ht Bc Bt; [reflexivity|].
  destruct (wf_probe_ne p Hp) as [Nc _]. pose proof Hp as (_ & _ & _ & _ & Pc & Pt & Nt).
  cbn [sc_loop_dt sc_loop]. rewrite (n_clu_of_spec p Nc Pc).
  cbn [length] in Bc, Bt. rewrite coff_goff, goff_S, <- coff_goff in Bc. rewrite toff_S in Bt.
  pose proof (n_ids_pos (clu_ids p)) as N1. pose proof (wf_ntmpl p Hp) as N2. pose proof (zmaxl_nonneg (p_tmpl p)) as N3.
  assert (R1 : 0 <= coff_spec r (length r)).
  { rewrite coff_goff. pose proof (goff_mono (@clu_ids A V F) r 0 (length r) (Nat.le_0_l _)) as G. rewrite goff_0 in G. exact G. }
  assert (R2 : 0 <= toff_spec r (length r)).
  { pose proof (toff_mono r (wf_ntmpl_nonneg r Hr) 0 (length r) (Nat.le_0_l _)) as G. rewrite toff_0 in G. exact G. }
  pose proof (dt_min_le0 cd) as M1. pose proof (dt_min_le0 td) as M2.
  rewrite shift_dt_id, shift_dt_id.
  - rewrite IH by lia. reflexivity.
  - unfold in_dt. lia.
  - intros c Hc'. specialize (Pt c Hc'). specialize (Nt c Hc'). unfold in_dt. lia.
  - unfold in_dt. lia.
  - intros c Hc'. specialize (Pc c Hc'). pose proof (clu_ids_ge p c Hc'). unfold in_dt, n_ids in *. lia.
Qed.

(* merged ids lie in 0 .. total - 1 *)
Lemma merged_id_bounds (ps : list probe) m : wf ps -> merge ps = Some m ->
  (forall c, In c (m_clu m) -> 0 <= c <= coff_spec ps (length ps) - 1) /\
  (forall c, In c (m_tmpl m) -> 0 <= c <= toff_spec ps (length ps) - 1) /\
  (forall t, In t (m_times m) <-> In t (concat_times ps)).
Proof.
  intros Hwf Hm. destruct (merge_spec ps Hwf) as (m' & Hm' & (E1 & _ & E3 & E4) & _). rewrite Hm in Hm'. injection Hm' as <-.
  pose proof (proj2 Hwf) as W. pose proof (wf_all ps W) as Hlen.
  pose proof (sorted_tagged_perm (tagged_concat ps)) as P.
  assert (G : forall s, In s (sorted_tagged (tagged_concat ps)) -> exists q, nth_error ps (t_probe s) = Some q /\
             In (t_clu s) (p_clu q) /\ In (t_tmpl s) (p_tmpl q) /\ wf_probe q /\ (t_probe s < length ps)%nat).
  { intros s Hs. apply (Permutation_in _ P) in Hs. destruct (tagged_from_in 0 ps s Hlen Hs) as (q & Hq & Hc & Ht & _).
    rewrite Nat.sub_0_r in Hq. exists q. split; [exact Hq|]. split; [exact Hc|]. split; [exact Ht|]. split.
    - rewrite Forall_forall in W. apply W. eapply nth_error_In; exact Hq.
    - apply nth_error_Some. congruence. }
  split; [|split].
  - intros c Hc. rewrite E3 in Hc. apply in_map_iff in Hc as (s & <- & Hs). destruct (G s Hs) as (q & Hq & Hc & _ & Wq & L).
    pose proof Wq as (_ & _ & _ & _ & Pc & _). specialize (Pc _ Hc). pose proof (clu_ids_ge q _ Hc).
    pose proof (goff_step (@clu_ids A V F) _ _ _ Hq) as St. pose proof (goff_mono (@clu_ids A V F) ps (S (t_probe s)) (length ps) ltac:(lia)).
    pose proof (goff_mono (@clu_ids A V F) ps 0 (t_probe s) (Nat.le_0_l _)) as G0. rewrite goff_0 in G0.
    rewrite !coff_goff. unfold n_ids in St. lia.
  - intros c Hc. rewrite E4 in Hc. apply in_map_iff in Hc as (s & <- & Hs). destruct (G s Hs) as (q & Hq & _ & Ht & Wq & L).
    pose proof Wq as (_ & _ & _ & _ & _ & Pt & Nt). specialize (Pt _ Ht). specialize (Nt _ Ht).
    pose proof (toff_step ps _ _ Hq) as St. pose proof (toff_mono ps (wf_ntmpl_nonneg ps W) (S (t_probe s)) (length ps) ltac:(lia)).
    pose proof (toff_mono ps (wf_ntmpl_nonneg ps W) 0 (t_probe s) (Nat.le_0_l _)) as G0. rewrite toff_0 in G0. lia.
  - intros t. rewrite E1. destruct (tagged_from_proj 0 ps Hlen) as (T1 & _). unfold concat_times. rewrite <- T1.
    fold (tagged_concat ps). split; intros H; apply in_map_iff in H as (s & <- & Hs); apply in_map.
    + now apply (Permutation_in _ P). + now apply (Permutation_in _ (Permutation_sym P)).
Qed.

Theorem thm_no_wrap (ps : list probe) (t0 c0 i0 : idt) : wf ps ->
  (forall t, In t (concat_times ps) -> dt_min t0 <= t < 2 ^ 63) ->
  coff_spec ps (length ps) <= 2 ^ 63 -> toff_spec ps (length ps) <= 2 ^ 63 ->
  exists m td cd id,
    merge_dt t0 c0 i0 ps = Some (m, (td, cd, id)) /\ merge ps = Some m /\
    c_width ps (td, cd, id) = true /\
    (forall t, In t (m_times m) -> in_dt td t) /\ (forall c, In c (m_clu m) -> in_dt cd c) /\
    (forall c, In c (m_tmpl m) -> in_dt id c) /\
    ((forall t, In t (concat_times ps) -> t <= dt_max t0) -> td = t0) /\
    (coff_spec ps (length ps) - 1 <= dt_max c0 -> cd = c0) /\ (toff_spec ps (length ps) - 1 <= dt_max i0 -> id = i0).
Proof.
  intros Hwf Ht Hc Hi. pose proof (proj2 Hwf) as W. destruct (merge_spec ps Hwf) as (m & Hm & _).
  destruct (merged_id_bounds ps m Hwf Hm) as (B1 & B2 & B3).
  assert (Hne : forall l, In l (map (@p_times A V F) ps) -> l <> []).
  { intros l Hl. apply in_map_iff in Hl as (p & <- & Hp). rewrite Forall_forall in W. apply (W p Hp). }
  destruct (zmax_all_some (map (@p_times A V F) ps)) as (tmax & Etm); [destruct ps; [now destruct Hwf|discriminate]|exact Hne|].
  destruct (zmax_all_in _ _ Etm) as (l & Hl & Hin).
  assert (Htm : In tmax (concat_times ps)) by (unfold concat_times; apply in_concat; eauto).
  assert (Hub : forall t, In t (concat_times ps) -> t <= tmax).
  { intros t H. unfold concat_times in H. apply in_concat in H as (l' & Hl' & Hx). exact (zmax_all_spec _ _ Etm l' t Hl' Hx). }
  destruct (int_dtype_some t0 tmax) as (td & Etd); [apply Ht, Htm|].
  destruct (int_dtype_some c0 (coff_spec ps (length ps) - 1)) as (cd & Ecd); [lia|].
  destruct (int_dtype_some i0 (toff_spec ps (length ps) - 1)) as (id & Eid); [lia|].
  destruct (int_dtype_holds _ _ _ Etd) as (T1 & T2 & T3 & T4).
  destruct (int_dtype_holds _ _ _ Ecd) as (C1 & C2 & C3 & C4).
  destruct (int_dtype_holds _ _ _ Eid) as (I1 & I2 & I3 & I4).
  assert (Tin : forall t, In t (concat_times ps) -> in_dt td t).
  { intros t H. specialize (Hub t H). destruct (Ht t H). unfold in_dt. lia. }
  exists m, td, cd, id.
  assert (Edt : merge_dt t0 c0 i0 ps = Some (m, (td, cd, id))).
  { unfold merge_dt. rewrite Etm, (total_clu_spec ps W). fold (toff_spec ps (length ps)).
    replace (zsum (map (@p_ntmpl A V F) ps)) with (toff_spec ps (length ps)) by (unfold toff_spec; now rewrite firstn_all).
    rewrite Etd, Ecd, Eid.
    replace (map (wrap td) (concat_times ps)) with (concat_times ps).
    2:{ symmetry. rewrite <- (map_id (concat_times ps)) at 2. apply map_ext_in. intros t H. apply wrap_id, Tin, H. }
    rewrite (sc_loop_dt_eq cd id ps W 0 0 0) by lia. fold (merge ps). rewrite Hm. reflexivity. }
  split; [exact Edt|]. split; [exact Hm|].
  assert (R1 : 1 <= coff_spec ps (length ps)).
  { destruct ps as [|p r]; [now destruct Hwf|]. cbn [length]. rewrite coff_goff, goff_S.
    pose proof (n_ids_pos (clu_ids p)). pose proof (goff_mono (@clu_ids A V F) r 0 (length r) (Nat.le_0_l _)) as G.
    rewrite goff_0 in G. lia. }
  assert (R2 : 1 <= toff_spec ps (length ps)).
  { destruct ps as [|p r]; [now destruct Hwf|]. cbn [length]. rewrite toff_S. inversion W; subst.
    pose proof (wf_ntmpl p H1). pose proof (zmaxl_nonneg (p_tmpl p)).
    pose proof (toff_mono r (wf_ntmpl_nonneg r H2) 0 (length r) (Nat.le_0_l _)) as G. rewrite toff_0 in G. lia. }
  pose proof (dt_min_le0 cd) as M1. pose proof (dt_min_le0 id) as M2.
  split; [|split; [|split; [|split; [|split; [|split]]]]].
  - apply c_width_iff. unfold C_width, in_dt. fold (concat_times ps). repeat split; try lia; apply (Tin t H).
  - intros t H. apply Tin, B3, H.
  - intros c H. specialize (B1 c H). unfold in_dt. lia.
  - intros c H. specialize (B2 c H). unfold in_dt. lia.
  - intros H. apply T4. apply H, Htm.
  - exact C4.
  - exact I4.
Qed.
End NoWrap.

(* ---- the arithmetic of the unrepaired code, for the record: each probe's ids were shifted IN PLACE in the probe's own
   dtype dk (`sc += coffset`: OverflowError when the offset is out of dk's bounds, otherwise modulo 2^bits), then the
   concatenation was cast to the FIRST probe's dtype d0 ---- *)
Definition old_shift (d0 dk : idt) (off : Z) (ids : list Z) : option (list Z) :=
  if fits dk off then Some (map (fun c => wrap d0 (wrap dk (c + off))) ids) else None.
