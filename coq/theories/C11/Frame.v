(* C11/Frame.v -- "the input directories are left byte-identical", on the model level.
   The file system is a map (directory, file name) -> content.  Merger.merge() READS the per-spike files, templates.npy
   (its row count) and the cluster_*.tsv files of every probe directory, and WRITES only into out_dir
   (Merger._save: np.save(self.out_dir / name, arr); _write_tsv_simple(self.out_dir / fn, ...)).
   merge_fs = read the probes, run PV.C11.Model.merge, write the merged files under out.  (The real code interleaves
   reads and writes; since every write goes to out, this is the same function of the initial file system whenever out is
   not one of the probe directories -- the hypothesis of C11_inputs_unchanged.  When out IS one of the inputs the real
   code overwrites that input's files: C11_frame_needs_distinct_out.) *)
From Coq Require Import ZArith List Bool Lia Arith.
From PV Require Import Base.NpSort Base.NpSearch C11.Model.
Import ListNotations.
Open Scope Z_scope.

Section Frame.
Context {A V F D : Type}.
Notation probe := (probe A V F).
Notation merged := (merged A V F).
Notation metatab := (metatab V F).
Variable deqb : D -> D -> bool.
Hypothesis deqb_iff : forall a b, deqb a b = true <-> a = b.

Inductive fname := FTimes | FAmps | FTmpl | FClu | FTemplates | FMeta (f : nat) | FCprobes.
Inductive content :=
| CInts (l : list Z)              (* spike_times / spike_templates / spike_clusters / cluster_probes .npy *)
| CAmps (l : list A)              (* amplitudes.npy *)
| CRows (n : Z)                   (* templates.npy, of which the spike side reads the number of rows *)
| CMeta (mt : metatab).           (* a cluster_*.tsv file *)
Definition fs := D -> fname -> option content.

Definition fname_eqb (a b : fname) : bool :=
  match a, b with
  | FTimes, FTimes | FAmps, FAmps | FTmpl, FTmpl | FClu, FClu | FTemplates, FTemplates | FCprobes, FCprobes => true
  | FMeta f, FMeta g => Nat.eqb f g
  | _, _ => false
  end.

Definition write (s : fs) (d : D) (n : fname) (c : content) : fs :=
  fun d' n' => if deqb d' d && fname_eqb n' n then Some c else s d' n'.
Fixpoint write_all (s : fs) (d : D) (l : list (fname * content)) : fs :=
  match l with [] => s | (n, c) :: r => write_all (write s d n c) d r end.

(* np.load of the files of one probe directory; a missing TSV file is skipped (ValueError caught) *)
Definition read_probe (s : fs) (d : D) : option probe :=
  match s d FTimes, s d FAmps, s d FTmpl, s d FClu, s d FTemplates with
  | Some (CInts ts), Some (CAmps am), Some (CInts tm), Some (CInts cl), Some (CRows n) =>
      Some (mkprobe ts am tm cl n
              (map (fun f => match s d (FMeta f) with Some (CMeta mt) => Some mt | _ => None end) (seq 0 n_meta_files)))
  | _, _, _, _, _ => None                                      (* FileNotFoundError *)
  end.
Fixpoint read_probes (s : fs) (dirs : list D) : option (list probe) :=
  match dirs with
  | [] => Some []
  | d :: r => match read_probe s d, read_probes s r with Some p, Some ps => Some (p :: ps) | _, _ => None end
  end.

(* the files merge() saves (spike side); a TSV file is written only when its merged table is not empty *)
Definition out_files (m : merged) : list (fname * content) :=
  [(FTimes, CInts (m_times m)); (FAmps, CAmps (m_amps m)); (FTmpl, CInts (m_tmpl m)); (FClu, CInts (m_clu m));
   (FCprobes, CInts (m_cprobes m))] ++
  flat_map (fun fo => match snd fo with Some mt => [(FMeta (fst fo), CMeta mt)] | None => [] end)
           (combine (seq 0 n_meta_files) (m_meta m)).

Definition merge_fs (s : fs) (dirs : list D) (out : D) : option fs :=
  match read_probes s dirs with
  | Some ps => match merge ps with Some m => Some (write_all s out (out_files m)) | None => None end
  | None => None
  end.

Lemma write_other s d n c d' n' : d' <> d -> write s d n c d' n' = s d' n'.
Proof.
  intros H. unfold write. destruct (deqb d' d) eqn:E; [apply deqb_iff in E; contradiction|reflexivity].
Qed.
Lemma write_all_other s d l d' n' : d' <> d -> write_all s d l d' n' = s d' n'.
Proof.
  intros H. revert s; induction l as [|[n c] r IH]; intros s; cbn [write_all]; [reflexivity|].
  rewrite IH. now apply write_other.
Qed.

(* THE frame property: whatever merge() does, a file outside out_dir is what it was *)
Theorem thm_frame s dirs out s' : merge_fs s dirs out = Some s' -> forall d n, d <> out -> s' d n = s d n.
Proof.
  unfold merge_fs. destruct (read_probes s dirs) as [ps|]; [|discriminate]. destruct (merge ps) as [m|]; [|discriminate].
  intros H d n Hd. assert (E : s' = write_all s out (out_files m)) by congruence. rewrite E. now apply write_all_other.
Qed.

(* the input directories are unchanged, file by file, when out_dir is not one of them *)
Theorem thm_inputs_unchanged s dirs out s' : ~ In out dirs -> merge_fs s dirs out = Some s' ->
  forall d n, In d dirs -> s' d n = s d n.
Proof.
  intros Hout H d n Hd. apply (thm_frame s dirs out s' H). intros ->. contradiction.
Qed.

(* merge() depends on nothing but the probe directories: two file systems that agree on them give the same merged files *)
Lemma read_probe_ext s1 s2 d : (forall n, s1 d n = s2 d n) -> read_probe s1 d = read_probe s2 d.
Proof.
  intros H. unfold read_probe. rewrite !H.
  destruct (s2 d FTimes) as [[]|], (s2 d FAmps) as [[]|], (s2 d FTmpl) as [[]|], (s2 d FClu) as [[]|],
    (s2 d FTemplates) as [[]|]; try reflexivity.
  do 2 f_equal. apply map_ext. intros f. now rewrite H.
Qed.
Lemma read_probes_ext s1 s2 dirs : (forall d n, In d dirs -> s1 d n = s2 d n) -> read_probes s1 dirs = read_probes s2 dirs.
Proof.
  induction dirs as [|d r IH]; intros H; cbn [read_probes]; [reflexivity|].
  rewrite (read_probe_ext s1 s2 d) by (intros n; apply H; now left). rewrite IH by (intros d' n Hd; apply H; now right).
  reflexivity.
Qed.

Lemma fname_eqb_iff a b : fname_eqb a b = true <-> a = b.
Proof.
  destruct a, b; cbn; try (split; [discriminate|discriminate]); try (split; reflexivity).
  rewrite Nat.eqb_eq. split; [now intros ->|now intros [= ->]].
Qed.

Lemma write_all_in s d l n : (exists c, In (n, c) l) -> forall s2, write_all s d l d n = write_all s2 d l d n.
Proof.
  revert s; induction l as [|[n0 c0] r IH]; intros s [c Hc] s2; [contradiction|]. cbn [write_all].
  destruct (existsb (fun nc => fname_eqb (fst nc) n) r) eqn:E.
  - apply existsb_exists in E as ([n1 c1] & H1 & E1). cbn [fst] in E1. apply fname_eqb_iff in E1 as ->.
    apply IH. eauto.
  - assert (N : forall nc, In nc r -> fst nc <> n).
    { intros nc Hnc En. assert (existsb (fun nc => fname_eqb (fst nc) n) r = true); [|congruence].
      apply existsb_exists. exists nc. split; [exact Hnc|]. now apply fname_eqb_iff. }
    destruct Hc as [Hc|Hc]; [|exfalso; exact (N _ Hc eq_refl)]. injection Hc as -> ->.
    assert (G : forall s0, (forall nc, In nc r -> fst nc <> n) -> write_all s0 d r d n = s0 d n).
    { clear. induction r as [|[n1 c1] r IH]; intros s0 H; cbn [write_all]; [reflexivity|].
      rewrite IH by (intros nc Hnc; apply H; now right). unfold write.
      destruct (fname_eqb n n1) eqn:E; [|now rewrite andb_false_r].
      apply fname_eqb_iff in E. exfalso. apply (H (n1, c1) (or_introl eq_refl)). now symmetry. }
    rewrite !G by exact N. unfold write. rewrite (proj2 (deqb_iff d d) eq_refl), (proj2 (fname_eqb_iff n n) eq_refl). reflexivity.
Qed.

Theorem thm_reads_only_inputs s1 s2 dirs out : (forall d n, In d dirs -> s1 d n = s2 d n) ->
  match merge_fs s1 dirs out, merge_fs s2 dirs out with
  | Some s1', Some s2' => exists ps m, read_probes s1 dirs = Some ps /\ read_probes s2 dirs = Some ps /\ merge ps = Some m /\
                                       forall n c, In (n, c) (out_files m) -> s1' out n = s2' out n
  | None, None => True
  | _, _ => False
  end.
Proof.
  intros H. unfold merge_fs. rewrite <- (read_probes_ext s1 s2 dirs H).
  destruct (read_probes s1 dirs) as [ps|]; [|exact I]. destruct (merge ps) as [m|] eqn:Em; [|exact I].
  exists ps, m. split; [reflexivity|]. split; [reflexivity|]. split; [exact Em|]. intros n c Hin. apply write_all_in. eauto.
Qed.

(* what is in out_dir afterwards: the five merged arrays of the model *)
Lemma write_all_app s d l1 l2 : write_all s d (l1 ++ l2) = write_all (write_all s d l1) d l2.
Proof. revert s; induction l1 as [|[n c] r IH]; intros s; cbn [app write_all]; [reflexivity|apply IH]. Qed.
Lemma write_all_skip s d l n : (forall nc, In nc l -> fst nc <> n) -> write_all s d l d n = s d n.
Proof.
  revert s; induction l as [|[n1 c1] r IH]; intros s H; cbn [write_all]; [reflexivity|].
  rewrite IH by (intros nc Hnc; apply H; now right). unfold write.
  destruct (fname_eqb n n1) eqn:E; [|now rewrite andb_false_r].
  apply fname_eqb_iff in E. exfalso. apply (H (n1, c1) (or_introl eq_refl)). now symmetry.
Qed.

Theorem thm_written s dirs out s' ps m : merge_fs s dirs out = Some s' -> read_probes s dirs = Some ps -> merge ps = Some m ->
  s' out FTimes = Some (CInts (m_times m)) /\ s' out FAmps = Some (CAmps (m_amps m)) /\
  s' out FTmpl = Some (CInts (m_tmpl m)) /\ s' out FClu = Some (CInts (m_clu m)) /\
  s' out FCprobes = Some (CInts (m_cprobes m)).
Proof.
  unfold merge_fs. intros H Hp Hm. rewrite Hp, Hm in H. assert (E : s' = write_all s out (out_files m)) by congruence.
  rewrite E. unfold out_files. rewrite write_all_app.
  assert (N : forall n, (forall f, n <> FMeta f) -> forall nc,
            In nc (flat_map (fun fo : nat * option metatab => match snd fo with Some mt => [(FMeta (fst fo), CMeta mt)] | None => [] end)
                            (combine (seq 0 n_meta_files) (m_meta m))) -> fst nc <> n).
  { intros n Hn nc Hin. apply in_flat_map in Hin as ([f o] & _ & Hin). cbn [fst snd] in Hin.
    destruct o; [|contradiction]. destruct Hin as [<-|[]]. cbn [fst]. intros Ef. exact (Hn f (eq_sym Ef)). }
  repeat split; (rewrite write_all_skip by (apply N; intros f; discriminate)); cbn [write_all]; unfold write;
    rewrite (proj2 (deqb_iff out out) eq_refl); reflexivity.
Qed.
End Frame.
