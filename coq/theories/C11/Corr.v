(* C11/Corr.v -- comparator for Merger.merge() (spike side).  codes:
   1  observed output differs from the model PV.C11.Model.merge (everything here is determined by the input)
   3  input outside the stated regime (harness bug)
   21 C11_permutation: the merged times are not the multiset of the input times / per-spike files of unequal length
   22 C11_sorted_stable: times not non-decreasing, or a probe's spikes not in their original (stable) order,
      or equal times of different probes not ordered by probe
   23 C11_payload: some spike does not carry its own time, amplitude and ids shifted by its probe's offsets, or the
      registered offsets are not the declarative ones (clusters: sums of largest id + 1; templates: sums of the
      numbers of rows of the earlier probes' templates.npy)
   24 C11_disjoint: cluster / template id intervals of different probes meet
   25 C11_cluster_probes: the per-cluster probe table does not point back to the probe
   26 C11_metadata: renumbered TSV tables
   27 the TemplateModel returned by merge() differs from the written files
   28 an input directory was modified
   29 C12_spike_template_rows (cross-property link, PV.C12.Link): for merged spike i, coming from probe k with
      original template t, row (merged spike_templates[i]) of the merged templates.npy is not template t of probe k
      on probe k's channel block with zeros elsewhere
   30 C11_no_wrap: an integer dtype of the merged spike_times / spike_clusters / spike_templates files cannot hold the
      largest input time / the largest merged cluster id / the largest merged template id (values wrapped around)
   The model is PV.C11.Model.merge_dt: merge with NumPy's fixed-width arithmetic in the dtypes _int_dtype chooses from the
   first probe's dtypes (equal to the Z-level merge by C11_no_wrap). *)
From Coq Require Import ZArith List Bool String.
From PV Require Export Base.Tok C11.Model C11.Spec.
From PV Require Import C11.Proofs.
From PV Require C12.Model C12.Spec C12.Link.
Import ListNotations.
Open Scope Z_scope.

Definition cprobe := probe tok string string.
Definition cobsrec := obs tok string string.
Definition cmeta := metatab string string.

Definition ctemplates := list (list (list tok)).      (* one templates.npy: [template][sample][channel] *)

(* the probes (spike side, with p_ntmpl = number of rows of the probe's templates.npy) and the content of each probe's
   templates.npy; observed: the spike side of the merged directory and the merged templates.npy (None: absent or not 3-D) *)
(* Ts = None: probes with very many templates, whose templates.npy content is not transcribed (clause 29 and the
   row-count regime check are skipped; p_ntmpl is trusted from the generator).
   dts: the integer dtypes in which the FIRST probe stores spike_times, spike_clusters, spike_templates;
   odts: the dtypes of the three merged files *)
Inductive input := InMerge (ps : list cprobe) (Ts : option (list ctemplates)) (dts : idt * idt * idt).
Inductive observed := ObsMerged (o : cobsrec) (T : option ctemplates) (odts : idt * idt * idt) | ObsCrash.
Record case := { cid : Z; cin : input; cobs : observed }.

Definition flag (code : Z) (ok : bool) : list Z := if ok then [] else [code].

(* run-length decoding of an observed array (cluster_probes.npy is transcribed as (value, count) runs) *)
Definition rle (l : list (Z * Z)) : list Z := flat_map (fun vn => repeat (fst vn) (Z.to_nat (snd vn))) l.

Definition idt_eqb (a b : idt) : bool :=
  match a, b with U8, U8 | U16, U16 | U32, U32 | U64, U64 | I8, I8 | I16, I16 | I32, I32 | I64, I64 => true | _, _ => false end.
Definition dts_eqb (a b : idt * idt * idt) : bool :=
  match a, b with (a1, a2, a3), (b1, b2, b3) => idt_eqb a1 b1 && idt_eqb a2 b2 && idt_eqb a3 b3 end.

Definition zl_eq := list_eqb Z.eqb.
Definition al_eq := list_eqb tok_eqb.
Definition kv_eqb (a b : Z * string) : bool := (fst a =? fst b) && String.eqb (snd a) (snd b).
Definition mt_eqb (a b : cmeta) : bool :=
  String.eqb (mt_field a) (mt_field b) && list_eqb kv_eqb (mt_rows a) (mt_rows b).
Definition omt_eqb (a b : option cmeta) : bool :=
  match a, b with Some x, Some y => mt_eqb x y | None, None => true | _, _ => false end.

Definition probe_ok (p : cprobe) : bool :=
  let n := List.length (p_times p) in
  Nat.eqb (List.length (p_amps p)) n && Nat.eqb (List.length (p_tmpl p)) n && Nat.eqb (List.length (p_clu p)) n &&
  forallb (fun c => 0 <=? c) (p_clu p) && forallb (fun c => 0 <=? c) (p_tmpl p) && (0 <=? p_ntmpl p) &&
  forallb (fun t => 0 <=? t) (p_times p) &&
  Nat.eqb (List.length (p_meta p)) n_meta_files &&
  forallb (fun om => match om with
                     | Some mt => forallb (fun kv => 0 <=? fst kv) (mt_rows mt)      (* any id >= 0, with or without spikes *)
                     | None => true end) (p_meta p).
(* at least two spikes in total: TemplateModel squeezes a one-spike dataset to 0-d arrays (C04's regime) *)
(* the templates.npy given for probe k has p_ntmpl rows, each a rectangular (samples x channels) array of the probe's width *)
Definition tmpl_ok (pT : cprobe * ctemplates) : bool :=
  let T := snd pT in
  (Z.of_nat (List.length T) =? p_ntmpl (fst pT)) &&
  forallb (fun tm => Nat.eqb (List.length tm) (C12.Model.tshape1 T) &&
                     forallb (fun r => Nat.eqb (List.length r) (C12.Model.tshape2 T)) tm) T.
Definition in_regime (ps : list cprobe) (Ts : option (list ctemplates)) : bool :=
  forallb probe_ok ps && Nat.leb 2 (List.length (List.concat (map (@p_times tok string string) ps))) &&
  match Ts with
  | Some Ts' => Nat.eqb (List.length Ts') (List.length ps) && forallb tmpl_ok (combine ps Ts')
  | None => true
  end.
(* the well-formedness guard of the template count: every spike names one of its probe's templates.  Inputs that violate
   it are only compared with the model (code 1): the statement does not hold for them (C11_template_count_needed) *)
Definition tmpl_guard (ps : list cprobe) : bool :=
  forallb (fun p => forallb (fun c => c <? p_ntmpl p) (p_tmpl p)) ps.

(* clause 29, judged on the OBSERVED merged spike_templates.npy and templates.npy against the input alone:
   M = the input spikes in (time, probe, index) order = the provenance of the merged spikes (clauses 21-23) *)
Definition c_link (ps : list cprobe) (Ts : option (list ctemplates)) (o : cobsrec) (T : option ctemplates) : bool :=
  match Ts, T with
  | None, _ => true                            (* template content not transcribed *)
  | Some Ts', Some T' => C12.Link.spike_rows_b tzero tok_eqb Ts' (sorted_tagged (tagged_concat ps)) (o_tmpl o) T'
  | Some _, None => false
  end.

Definition check (c : case) : list Z :=
  match cin c with InMerge ps Ts (t0, c0, i0) =>
  if negb (in_regime ps Ts) then [3] else
  match merge_dt t0 c0 i0 ps, cobs c with
  | None, ObsCrash => []                      (* no probe / a probe without spikes: np.max raises *)
  | None, ObsMerged _ _ _ => [1]
  | Some _, ObsCrash =>
      (* outside the guard the merged spike_templates may name rows that do not exist and load_model (C04's subject,
         called at the end of merge()) may raise: no verdict *)
      if tmpl_guard ps then [1; 21; 22; 23; 24; 25; 26; 27; 29; 30] else []
  | Some (m, mdts), ObsMerged o T odts =>
      let same := zl_eq (m_times m) (o_times o) && al_eq (m_amps m) (o_amps o) && zl_eq (m_tmpl m) (o_tmpl o) &&
                  zl_eq (m_clu m) (o_clu o) && zl_eq (m_cprobes m) (o_cprobes o) &&
                  zl_eq (m_coffs m) (o_coffs o) && zl_eq (m_toffs m) (o_toffs o) &&
                  list_eqb omt_eqb (m_meta m) (o_meta o) && dts_eqb mdts odts in
      let ret := match o_ret o with (t, a, tm, cl) =>
                   zl_eq t (o_times o) && al_eq a (o_amps o) && zl_eq tm (o_tmpl o) && zl_eq cl (o_clu o) end &&
                 list_eqb omt_eqb (o_ret_meta o) (o_meta o) in
      if negb (tmpl_guard ps) then flag 1 same ++ flag 27 ret ++ flag 28 (o_unchanged o) else
      flag 1 same ++
      flag 21 (c_perm ps o) ++
      flag 22 (c_sorted tok_eqb ps o) ++
      flag 23 (c_payload tok_eqb ps o) ++
      flag 24 (c_disjoint ps o) ++
      flag 25 (c_cprobes ps o) ++
      flag 26 (c_meta String.eqb String.eqb ps o) ++
      flag 27 ret ++
      flag 28 (o_unchanged o) ++
      flag 29 (c_link ps Ts o T) ++
      flag 30 (c_width ps odts)
  end end.

Definition run (cases : list case) : list (Z * Z) :=
  flat_map (fun c => map (fun code => (cid c, code)) (check c)) cases.
