(* C11/Corr.v -- comparator for Merger.merge() (spike side).  codes:
   1  observed output differs from the model PV.C11.Model.merge (everything here is determined by the input)
   3  input outside the stated regime (harness bug)
   21 C11_permutation: the merged times are not the multiset of the input times / per-spike files of unequal length
   22 C11_sorted_stable: times not non-decreasing, or a probe's spikes not in their original (stable) order,
      or equal times of different probes not ordered by probe
   23 C11_payload: some spike does not carry its own time, amplitude and ids shifted by its probe's offsets
   24 C11_disjoint: cluster / template id intervals of different probes meet
   25 C11_cluster_probes: the per-cluster probe table does not point back to the probe
   26 C11_metadata: renumbered TSV tables
   27 the TemplateModel returned by merge() differs from the written files
   28 an input directory was modified *)
From Coq Require Import ZArith List Bool String.
From PV Require Export Base.Tok C11.Model C11.Spec.
Import ListNotations.
Open Scope Z_scope.

Definition cprobe := probe tok string string.
Definition cobsrec := obs tok string string.
Definition cmeta := metatab string string.

Inductive input := InMerge (ps : list cprobe).
Inductive observed := ObsMerged (o : cobsrec) | ObsCrash.
Record case := { cid : Z; cin : input; cobs : observed }.

Definition flag (code : Z) (ok : bool) : list Z := if ok then [] else [code].

Definition zl_eq := list_eqb Z.eqb.
Definition al_eq := list_eqb tok_eqb.
Definition kv_eqb (a b : Z * string) : bool := (fst a =? fst b) && String.eqb (snd a) (snd b).
Definition mt_eqb (a b : cmeta) : bool :=
  String.eqb (mt_field a) (mt_field b) && list_eqb kv_eqb (mt_rows a) (mt_rows b).
Definition omt_eqb (a b : option cmeta) : bool :=
  match a, b with Some x, Some y => mt_eqb x y | None, None => true | _, _ => false end.

Definition probe_ok (p : cprobe) : bool :=
  let n := List.length (p_times p) in
  Nat.eqb (List.length (p_amps p)) n && Nat.eqb (List.length (p_tmpl p)) n && Nat.eqb (List.length (p_clu p)) n &&
  forallb (fun c => 0 <=? c) (p_clu p) && forallb (fun c => 0 <=? c) (p_tmpl p) &&
  Nat.eqb (List.length (p_meta p)) n_meta_files &&
  forallb (fun om => match om with
                     | Some mt => forallb (fun kv => (0 <=? fst kv) && (fst kv <=? zmaxl (p_clu p))) (mt_rows mt)
                     | None => true end) (p_meta p).
(* at least two spikes in total: TemplateModel squeezes a one-spike dataset to 0-d arrays (C04's regime) *)
Definition in_regime (ps : list cprobe) : bool :=
  forallb probe_ok ps && Nat.leb 2 (List.length (List.concat (map (@p_times tok string string) ps))).

Definition check (c : case) : list Z :=
  match cin c with InMerge ps =>
  if negb (in_regime ps) then [3] else
  match merge ps, cobs c with
  | None, ObsCrash => []                      (* no probe / a probe without spikes: np.max raises *)
  | None, ObsMerged _ => [1]
  | Some _, ObsCrash => [1; 21; 22; 23; 24; 25; 26; 27]
  | Some m, ObsMerged o =>
      let same := zl_eq (m_times m) (o_times o) && al_eq (m_amps m) (o_amps o) && zl_eq (m_tmpl m) (o_tmpl o) &&
                  zl_eq (m_clu m) (o_clu o) && zl_eq (m_cprobes m) (o_cprobes o) &&
                  zl_eq (m_coffs m) (o_coffs o) && zl_eq (m_toffs m) (o_toffs o) &&
                  list_eqb omt_eqb (m_meta m) (o_meta o) in
      let ret := match o_ret o with (t, a, tm, cl) =>
                   zl_eq t (o_times o) && al_eq a (o_amps o) && zl_eq tm (o_tmpl o) && zl_eq cl (o_clu o) end &&
                 list_eqb omt_eqb (o_ret_meta o) (o_meta o) in
      flag 1 same ++
      flag 21 (c_perm ps o) ++
      flag 22 (c_sorted tok_eqb ps o) ++
      flag 23 (c_payload tok_eqb ps o) ++
      flag 24 (c_disjoint ps o) ++
      flag 25 (c_cprobes ps o) ++
      flag 26 (c_meta String.eqb String.eqb ps o) ++
      flag 27 ret ++
      flag 28 (o_unchanged o)
  end end.

Definition run (cases : list case) : list (Z * Z) :=
  flat_map (fun c => map (fun code => (cid c, code)) (check c)) cases.
