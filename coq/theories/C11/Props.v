(* C11/Props.v -- the property theorems, and nothing else.  Each is closed by [exact] of a lemma of Proofs.v
   and followed by Print Assumptions.

   Vocabulary (Spec.v): [tagged_concat ps] = every input spike of every probe, probe after probe in file order, each
   tagged with (probe index, index within the probe) and carrying its time, amplitude, template id, cluster id;
   [p_ntmpl p] = the number of templates of probe p = number of rows of its templates.npy (an input of the merge);
   [wf ps] = at least one probe, every probe has >= 1 spike, its four per-spike arrays have equal length, ids >= 0,
   and every spike template id is < p_ntmpl (templates without spikes, trailing or not, are allowed);
   [clu_ids p] = the cluster ids probe p's directory names: those carried by its spikes and those listed in its
   cluster_*.tsv files (a cluster without spikes may have a metadata row);
   [coff_spec ps k] = sum over the probes before k of (largest of clu_ids + 1);
   [toff_spec ps k] = sum over the probes before k of p_ntmpl -- the row of the merged templates.npy where
   write_templates (C12) puts template 0 of probe k (linked in PV.C12.Props.C12_spike_template_rows);
   [lt3] = strictly increasing in (time, probe index, index within the probe), lexicographically. *)
From Coq Require Import ZArith List Bool Sorted Permutation Lia.
From PV Require Import Base.NpSort Base.NpSearch C11.Model C11.Spec C11.Proofs C11.Proofs2 C11.Proofs3.
From PV Require Import C11.Clauses C11.Complete C11.Dtype C11.Frame.
Import ListNotations.
Open Scope Z_scope.

(* What "the input spikes" are: s is in tagged_concat ps exactly when probe number t_probe s has, at index t_idx s of its
   four per-spike arrays, the time, amplitude, template id and cluster id that s carries. *)
Theorem C11_input_spikes : forall (A V F : Type) (ps : list (probe A V F)), Forall wf_len ps -> forall s,
  In s (tagged_concat ps) <->
  exists p, nth_error ps (t_probe s) = Some p /\
    nth_error (p_times p) (t_idx s) = Some (t_time s) /\ nth_error (p_amps p) (t_idx s) = Some (t_amp s) /\
    nth_error (p_tmpl p) (t_idx s) = Some (t_tmpl s) /\ nth_error (p_clu p) (t_idx s) = Some (t_clu s).
Proof. exact (@thm_input_spikes). Qed.
Print Assumptions C11_input_spikes.

(* The merge succeeds and its output spikes are, position by position (Payload), a permutation M of the input spikes:
   every (probe, index) tag occurs exactly once. *)
Theorem C11_permutation : forall (A V F : Type) (ps : list (probe A V F)), wf ps ->
  exists m M, merge ps = Some m /\ Payload ps m M /\ Permutation M (tagged_concat ps) /\
              NoDup (map tagpair (tagged_concat ps)) /\ NoDup (map tagpair M).
Proof. exact (@thm_permutation). Qed.
Print Assumptions C11_permutation.

(* M is strictly increasing in (time, probe, index): times non-decreasing, and the two corollaries below *)
Theorem C11_sorted_stable : forall (A V F : Type) (ps : list (probe A V F)), wf ps ->
  exists m M, merge ps = Some m /\ Payload ps m M /\ Permutation M (tagged_concat ps) /\
              StronglySorted (@lt3 A) M /\ StronglySorted Z.le (m_times m).
Proof. exact (@thm_sorted_stable). Qed.
Print Assumptions C11_sorted_stable.

(* two spikes of the same probe whose times are in order keep their original order in the merged output *)
Theorem C11_same_probe_order : forall (A : Type) (M : list (tagged A)), StronglySorted (@lt3 A) M ->
  forall j1 j2 s1 s2, nth_error M j1 = Some s1 -> nth_error M j2 = Some s2 ->
  t_probe s1 = t_probe s2 -> (t_idx s1 < t_idx s2)%nat -> t_time s1 <= t_time s2 -> (j1 < j2)%nat.
Proof. exact (@thm_same_probe_order). Qed.
Print Assumptions C11_same_probe_order.

(* simultaneous spikes of different probes are ordered by probe index *)
Theorem C11_ties_by_probe : forall (A : Type) (M : list (tagged A)), StronglySorted (@lt3 A) M ->
  forall j1 j2 s1 s2, nth_error M j1 = Some s1 -> nth_error M j2 = Some s2 ->
  t_time s1 = t_time s2 -> (t_probe s1 < t_probe s2)%nat -> (j1 < j2)%nat.
Proof. exact (@thm_ties_by_probe). Qed.
Print Assumptions C11_ties_by_probe.

(* "the original order kept within a probe", in full: for any provenance list M that is a permutation of the input and
   sorted by (time, probe, index) -- C11_sorted_stable provides it -- the spikes of probe k, read off M in merged order, are
   exactly probe k's spikes in their original order, whenever probe k's own times are non-decreasing *)
Theorem C11_probe_subsequence : forall (A V F : Type) (ps : list (probe A V F)) (M : list (tagged A)) k p,
  Permutation M (tagged_concat ps) -> StronglySorted (@lt3 A) M ->
  nth_error ps k = Some p -> StronglySorted Z.le (p_times p) ->
  filter (of_probe k) M = tag_probe k p.
Proof. exact (@thm_probe_subsequence). Qed.
Print Assumptions C11_probe_subsequence.

(* each merged spike carries its own time and amplitude; cluster id = original + cluster offset of its probe,
   template id = original + template offset of its probe (= number of templates of the earlier probes); the registered
   offsets are the declarative ones *)
Theorem C11_payload : forall (A V F : Type) (ps : list (probe A V F)), wf ps ->
  exists m M, merge ps = Some m /\ Permutation M (tagged_concat ps) /\
    m_times m = map (@t_time A) M /\ m_amps m = map (@t_amp A) M /\
    m_clu m = map (fun s => t_clu s + coff_spec ps (t_probe s)) M /\
    m_tmpl m = map (fun s => t_tmpl s + toff_spec ps (t_probe s)) M /\
    m_coffs m = map (coff_spec ps) (seq 0 (length ps)) /\ m_toffs m = map (toff_spec ps) (seq 0 (length ps)).
Proof. exact (@thm_payload). Qed.
Print Assumptions C11_payload.

(* the id intervals [offset_j, offset_j + max_j] and [offset_k, ...] of two probes j < k are disjoint (the first ends
   strictly below the start of the second) and contain the shifted ids of their probe; clusters and templates; the whole
   id range [coff_j, coff_j + n_ids (clu_ids pj)) of probe j (with or without spikes) ends at or below coff_k; for
   templates the whole row range [toff_j, toff_j + p_ntmpl_j) of probe j (spiking or not) ends at or below toff_k *)
Theorem C11_disjoint : forall (A V F : Type) (ps : list (probe A V F)), Forall wf_probe ps ->
  forall j k pj pk, (j < k)%nat -> nth_error ps j = Some pj -> nth_error ps k = Some pk ->
  (coff_spec ps j + zmaxl (p_clu pj) < coff_spec ps k /\
   coff_spec ps j + n_ids (clu_ids pj) <= coff_spec ps k /\
   (forall c, In c (p_clu pj) -> coff_spec ps j <= c + coff_spec ps j <= coff_spec ps j + zmaxl (p_clu pj)) /\
   (forall c, In c (p_clu pk) -> coff_spec ps k <= c + coff_spec ps k)) /\
  (toff_spec ps j + zmaxl (p_tmpl pj) < toff_spec ps k /\
   toff_spec ps j + p_ntmpl pj <= toff_spec ps k /\
   (forall c, In c (p_tmpl pj) -> toff_spec ps j <= c + toff_spec ps j <= toff_spec ps j + zmaxl (p_tmpl pj)) /\
   (forall c, In c (p_tmpl pk) -> toff_spec ps k <= c + toff_spec ps k)).
Proof. exact (@thm_disjoint). Qed.
Print Assumptions C11_disjoint.

(* ids of different probes never collide: two input spikes with the same merged cluster (template) id belong to the
   same probe and have the same original id *)
Theorem C11_no_collision : forall (A V F : Type) (ps : list (probe A V F)), Forall wf_probe ps -> forall s1 s2,
  In s1 (tagged_concat ps) -> In s2 (tagged_concat ps) ->
  (t_clu s1 + coff_spec ps (t_probe s1) = t_clu s2 + coff_spec ps (t_probe s2) ->
     t_probe s1 = t_probe s2 /\ t_clu s1 = t_clu s2) /\
  (t_tmpl s1 + toff_spec ps (t_probe s1) = t_tmpl s2 + toff_spec ps (t_probe s2) ->
     t_probe s1 = t_probe s2 /\ t_tmpl s1 = t_tmpl s2).
Proof. exact (@thm_no_collision). Qed.
Print Assumptions C11_no_collision.

(* cluster_probes has one entry per merged cluster id 0 .. total-1; entry (c + offset_k) is k for every id c in
   0 .. max_k of probe k (max_k over the ids of its spikes and of its metadata rows; used or not), and every entry
   arises that way (so c - offset is the original id) *)
Theorem C11_cluster_probes : forall (A V F : Type) (ps : list (probe A V F)), wf ps ->
  exists m, merge ps = Some m /\ Z.of_nat (length (m_cprobes m)) = coff_spec ps (length ps) /\
    (forall k p c, nth_error ps k = Some p -> 0 <= c <= zmaxl (clu_ids p) ->
                   nth_error (m_cprobes m) (Z.to_nat (c + coff_spec ps k)) = Some (Z.of_nat k)) /\
    (forall c k', nth_error (m_cprobes m) c = Some k' ->
       exists k p, k' = Z.of_nat k /\ nth_error ps k = Some p /\ 0 <= Z.of_nat c - coff_spec ps k <= zmaxl (clu_ids p)).
Proof. exact (@thm_cluster_probes). Qed.
Print Assumptions C11_cluster_probes.

(* error exits of the model (= where the real code raises): no probe directory; a probe without any spike (np.max of
   its empty spike_clusters.  The repaired code no longer evaluates np.max(spike_templates): an empty spike_templates is
   an error exit together with the equal lengths of the probe's per-spike arrays, wf_len) *)
Theorem C11_error_exits : forall (A V F : Type), merge (@nil (probe A V F)) = None /\
  forall (ps : list (probe A V F)) p, In p ps -> p_clu p = [] \/ (wf_len p /\ p_tmpl p = []) -> merge ps = None.
Proof. exact (@thm_error_exits). Qed.
Print Assumptions C11_error_exits.

(* ---- the boolean checkers that judge OBSERVED merges in Corr.v certify what their clause says ---- *)
Theorem C11_checker_perm_sound : forall (A V F : Type) (ps : list (probe A V F)) (o : obs A V F), c_perm ps o = true ->
  Permutation (o_times o) (concat (map (@p_times A V F) ps)) /\
  length (o_amps o) = length (o_times o) /\ length (o_tmpl o) = length (o_times o) /\
  length (o_clu o) = length (o_times o).
Proof. exact (@c_perm_sound). Qed.
Print Assumptions C11_checker_perm_sound.

Theorem C11_checker_sorted_sound : forall (A V F : Type) (aeqb : A -> A -> bool),
  (forall a b, aeqb a b = true -> a = b) -> forall (ps : list (probe A V F)) (o : obs A V F),
  c_sorted aeqb ps o = true ->
  StronglySorted Z.le (o_times o) /\
  forall k p, nth_error ps k = Some p -> sub_rows ps o k = sort_rows (rows_of p).
Proof. exact (@c_sorted_sound). Qed.
Print Assumptions C11_checker_sorted_sound.

Theorem C11_checker_payload_sound : forall (A V F : Type) (aeqb : A -> A -> bool),
  (forall a b, aeqb a b = true -> a = b) -> forall (ps : list (probe A V F)) (o : obs A V F),
  c_payload aeqb ps o = true ->
  o_coffs o = map (coff_spec ps) (seq 0 (length ps)) /\ o_toffs o = map (toff_spec ps) (seq 0 (length ps)) /\
  length (o_times o) = length (concat (map (@rows_of A V F) ps)) /\
  forall k p, nth_error ps k = Some p -> Permutation (sub_rows ps o k) (rows_of p).
Proof. exact (@c_payload_sound). Qed.
Print Assumptions C11_checker_payload_sound.

Theorem C11_checker_disjoint_sound : forall (A V F : Type) (ps : list (probe A V F)) (o : obs A V F),
  c_disjoint ps o = true ->
  forall j k pj pk cj ck tj tk, (j < k)%nat -> nth_error ps j = Some pj -> nth_error ps k = Some pk ->
  nth_error (o_coffs o) j = Some cj -> nth_error (o_coffs o) k = Some ck ->
  nth_error (o_toffs o) j = Some tj -> nth_error (o_toffs o) k = Some tk ->
  (cj + n_ids (clu_ids pj) <= ck \/ ck + n_ids (clu_ids pk) <= cj) /\
  (tj + p_ntmpl pj <= tk \/ tk + p_ntmpl pk <= tj).
Proof. exact (@c_disjoint_sound). Qed.
Print Assumptions C11_checker_disjoint_sound.

(* ---- non-vacuity: a concrete merge of three probes (ties inside and across probes, a one-spike probe, gaps,
        curated clusters, TSV in some; probe 0 has 4 templates of which the last has no spike, probe 2 has 3 of
        which only the first spikes) ---- *)
Definition ex_ps : list (probe Z Z Z) :=
  [ mkprobe [1; 3; 3; 7] [10; 20; 30; 40] [0; 2; 2; 1] [0; 4; 2; 1] 4 [Some (mkmeta 5 [(0, 100); (4, 101)]); None; None];
    mkprobe [0; 3; 9] [50; 60; 70] [1; 0; 1] [1; 0; 1] 2 [Some (mkmeta 5 [(1, 102)]); None; Some (mkmeta 6 [(0, 7)])];
    mkprobe [3] [80] [0] [3] 3 [None; None; None] ].
Example C11_ex_merge : merge ex_ps = Some (mkmerged
  [0; 1; 3; 3; 3; 3; 7; 9] [50; 10; 20; 30; 60; 80; 40; 70] [5; 0; 2; 2; 4; 6; 1; 5] [6; 0; 4; 2; 5; 10; 1; 6]
  [0; 0; 0; 0; 0; 1; 1; 2; 2; 2; 2] [0; 5; 7] [0; 4; 6]
  [Some (mkmeta 5 [(0, 100); (4, 101); (6, 102)]); None; Some (mkmeta 6 [(5, 7)])]).
Proof. vm_compute. reflexivity. Qed.
Example C11_ex_wf : wf ex_ps.
Proof.
  split; [discriminate|]. repeat constructor; cbn; try discriminate; intros c H;
    repeat (destruct H as [<-|H]; [lia|]); contradiction.
Qed.
Example C11_ex_offsets : map (coff_spec ex_ps) [0; 1; 2; 3]%nat = [0; 5; 7; 11] /\ map (toff_spec ex_ps) [0; 1; 2; 3]%nat = [0; 4; 6; 9].
Proof. vm_compute. split; reflexivity. Qed.

(* ---- renumbered per-cluster metadata ----
   For each of the three TSV names f, whenever the ids listed in the probes' files are not negative: the written table
   maps id + offset_k |-> the (last) value that probe k's file gives to id, for every probe that has the file -- also for
   an id that no spike of the probe carries -- and contains nothing else (Meta_spec); it is written iff some present file
   has a row, its rows are strictly increasing in id, and its header is the header of one of the present files.
   (Before fix-c11c this needed meta_in_range: ids within 0 .. largest SPIKE cluster id.) *)
Theorem C11_metadata : forall (A V F : Type) (ps : list (probe A V F)), wf ps ->
  exists m, merge ps = Some m /\ length (m_meta m) = n_meta_files /\
    forall f, (f < n_meta_files)%nat -> meta_nonneg f ps -> Meta_out f ps (nth f (m_meta m) None).
Proof. exact (@thm_metadata_merge). Qed.
Print Assumptions C11_metadata.

(* why the cluster count of a probe must cover the ids of its metadata rows (the defect repaired on fix-c11c).
   Probe 0 has one spike cluster, 0, and its file also lists id 1 (a cluster without spikes); probe 1 has cluster 0.
   The input violates meta_in_range.  With the offsets the unrepaired code registered -- [0; 1], counts from the spikes
   alone -- write_cluster_data's table gives merged id 1 (which is cluster 0 of probe 1) the value 200 of probe 1 and
   loses probe 0's row 101 (had probe 1 no file, id 1 would carry probe 0's 101 although cluster_probes[1] = 1): not
   Meta_spec.  The repaired merge registers [0; 2] and its table satisfies Meta_spec. *)
Definition ex_bad : list (probe Z Z Z) :=
  [ mkprobe [1] [10] [0] [0] 1 [Some (mkmeta 5 [(0, 100); (1, 101)]); None; None];
    mkprobe [2] [20] [0] [0] 1 [Some (mkmeta 5 [(0, 200)]); None; None] ].
Theorem C11_metadata_needs_range : wf ex_bad /\ ~ meta_in_range 0 ex_bad /\ meta_nonneg 0 ex_bad /\
  meta_file 0 ex_bad [0; 1] = Some (mkmeta 5 [(0, 100); (1, 200)]) /\
  ~ Meta_spec 0 ex_bad (meta_file 0 ex_bad [0; 1]) /\
  exists m, merge ex_bad = Some m /\ m_coffs m = [0; 2] /\ m_clu m = [0; 2] /\ m_cprobes m = [0; 0; 1] /\
            nth 0 (m_meta m) None = Some (mkmeta 5 [(0, 100); (1, 101); (2, 200)]) /\
            Meta_spec 0 ex_bad (nth 0 (m_meta m) None).
Proof.
  assert (W : wf ex_bad).
  { split; [discriminate|]. repeat constructor; cbn; try discriminate; intros c H;
      repeat (destruct H as [<-|H]; [lia|]); contradiction. }
  assert (N : meta_nonneg 0 ex_bad).
  { intros p mt kv Hp Hm Hkv. unfold meta_of in Hm. destruct Hp as [<-|[<-|[]]]; cbn in Hm; injection Hm as <-;
      cbn in Hkv; repeat (destruct Hkv as [<-|Hkv]; [cbn; lia|]); contradiction. }
  split; [exact W|]. split; [|split; [exact N|]]; [|split; [vm_compute; reflexivity|split]].
  - intros H. specialize (H (nth 0 ex_bad (mkprobe [] [] [] [] 0 [])) (mkmeta 5 [(0, 100); (1, 101)]) (1, 101)).
    cbn in H. assert (0 <= 1 <= 0) by (apply H; auto). lia.
  - intros [Hf _].
    specialize (Hf 0%nat (nth 0 ex_bad (mkprobe [] [] [] [] 0 [])) (mkmeta 5 [(0, 100); (1, 101)]) 1 101 eq_refl eq_refl eq_refl).
    vm_compute in Hf. discriminate.
  - destruct (thm_metadata_merge ex_bad W) as (m & Hm & _ & HM). exists m. split; [exact Hm|].
    destruct (HM 0%nat ltac:(unfold n_meta_files; lia) N) as [HS _].
    vm_compute in Hm. injection Hm as <-. do 4 (split; [reflexivity|]). exact HS.
Qed.
Print Assumptions C11_metadata_needs_range.

Example C11_ex_meta_in_range : forall f, (f < 3)%nat -> meta_in_range f ex_ps /\ meta_nonneg f ex_ps.
Proof.
  intros f Hf. assert (G : meta_in_range f ex_ps); [|split; [exact G|intros p mt kv Hp Hm Hkv; apply (G p mt kv Hp Hm Hkv)]].
  intros p mt kv Hp Hm Hkv. unfold meta_of in Hm.
  destruct Hp as [<-|[<-|[<-|[]]]]; destruct f as [|[|[|f]]]; try lia; cbn in Hm; try discriminate;
    injection Hm as <-; cbn in Hkv; repeat (destruct Hkv as [<-|Hkv]; [cbn; lia|]); contradiction.
Qed.

Example C11_ex_subsequence : filter (of_probe 1) (sorted_tagged (tagged_concat ex_ps)) = tag_probe 1 (nth 1 ex_ps (mkprobe [] [] [] [] 0 [])).
Proof. vm_compute. reflexivity. Qed.
Example C11_ex_error : merge (ex_ps ++ [mkprobe [] [] [] [] 0 [None; None; None]]) = None.
Proof. vm_compute. reflexivity. Qed.

(* ---- the guard on the template count is needed, and what the code does without it ----
   wf asks that every spike names one of the probe's templates (id < p_ntmpl).  Nothing in write_spike_clusters checks
   it: when probe 0's templates.npy has 1 row but one of its spikes names template 1, the merge goes through, the
   template offsets are still the cumulative counts [0; 1], and the shifted id 1 of that spike is also the merged id of
   template 0 of probe 1 -- two spikes of different probes share a merged template id. *)
Definition ex_short : list (probe Z Z Z) :=
  [ mkprobe [1; 2] [10; 20] [0; 1] [0; 1] 1 [None; None; None];
    mkprobe [3] [30] [0] [0] 1 [None; None; None] ].
Theorem C11_template_count_needed :
  (forall p, In p ex_short -> wf_len p /\ p_times p <> [] /\ (forall c, In c (p_clu p) -> 0 <= c) /\
                              (forall c, In c (p_tmpl p) -> 0 <= c)) /\
  ~ wf ex_short /\
  exists m, merge ex_short = Some m /\ m_toffs m = [0; 1] /\ m_tmpl m = [0; 1; 1] /\
    exists s1 s2, In s1 (tagged_concat ex_short) /\ In s2 (tagged_concat ex_short) /\ t_probe s1 <> t_probe s2 /\
      t_tmpl s1 + toff_spec ex_short (t_probe s1) = t_tmpl s2 + toff_spec ex_short (t_probe s2).
Proof.
  split; [|split].
  - intros p [<-|[<-|[]]]; (split; [unfold wf_len; cbn; auto|]); (split; [discriminate|]);
      split; intros c H; cbn in H; repeat (destruct H as [<-|H]; [lia|]); contradiction.
  - intros [_ H]. inversion H as [|? ? (_ & _ & _ & _ & _ & _ & N) _]; subst. specialize (N 1). cbn in N.
    assert (1 < 1) by (apply N; auto). lia.
  - eexists. split; [vm_compute; reflexivity|]. split; [reflexivity|]. split; [reflexivity|].
    exists (mktag 0 1 2 20 1 1), (mktag 1 0 3 30 0 0). cbn. repeat split; auto; discriminate.
Qed.
Print Assumptions C11_template_count_needed.

(* ======================================================================================================
   Stage 3.  (a) every boolean clause of the comparator is true EXACTLY when its declarative reading holds;
   (b) the output of the proven model satisfies every clause; (c) fixed-width integer arithmetic never wraps;
   (d) the input directories are not written to.
   ====================================================================================================== *)

(* ---- (a) clause 21 ---- *)
Theorem C11_checker_perm_iff : forall (A V F : Type) (ps : list (probe A V F)) (o : obs A V F),
  c_perm ps o = true <->
  (length (o_amps o) = length (o_times o) /\ length (o_tmpl o) = length (o_times o) /\
   length (o_clu o) = length (o_times o)) /\
  Permutation (o_times o) (concat (map (@p_times A V F) ps)).
Proof. exact (@c_perm_iff). Qed.
Print Assumptions C11_checker_perm_iff.

(* ---- clause 22: times non-decreasing; the merged rows attributed to probe k, shifted back, are probe k's rows in
   stable time order; consecutive merged spikes are attributed to probes, and at equal times the probe index does not
   decrease (TiesByProbe) ---- *)
Theorem C11_checker_sorted_iff : forall (A V F : Type) (aeqb : A -> A -> bool), (forall a b, aeqb a b = true <-> a = b) ->
  forall (ps : list (probe A V F)) (o : obs A V F),
  c_sorted aeqb ps o = true <->
  StronglySorted Z.le (o_times o) /\
  (forall k p, nth_error ps k = Some p -> sub_rows ps o k = sort_rows (rows_of p)) /\
  (forall i a b,
     nth_error (map (fun r => (r_time r, find_probe 0 ps (o_coffs o) (r_clu r))) (obs_rows o)) i = Some a ->
     nth_error (map (fun r => (r_time r, find_probe 0 ps (o_coffs o) (r_clu r))) (obs_rows o)) (S i) = Some b ->
     exists k1 k2, snd a = Some k1 /\ snd b = Some k2 /\ (fst a = fst b -> (k1 <= k2)%nat)).
Proof. exact (@c_sorted_iff). Qed.
Print Assumptions C11_checker_sorted_iff.

(* ---- clause 23 ---- *)
Theorem C11_checker_payload_iff : forall (A V F : Type) (aeqb : A -> A -> bool), (forall a b, aeqb a b = true <-> a = b) ->
  forall (ps : list (probe A V F)) (o : obs A V F),
  c_payload aeqb ps o = true <->
  (length (o_amps o) = length (o_times o) /\ length (o_tmpl o) = length (o_times o) /\
   length (o_clu o) = length (o_times o)) /\
  o_coffs o = map (coff_spec ps) (seq 0 (length ps)) /\ o_toffs o = map (toff_spec ps) (seq 0 (length ps)) /\
  length (o_times o) = length (concat (map (@rows_of A V F) ps)) /\
  forall k p, nth_error ps k = Some p -> Permutation (sub_rows ps o k) (rows_of p).
Proof. exact (@c_payload_iff). Qed.
Print Assumptions C11_checker_payload_iff.

(* ---- clause 24 ---- *)
Theorem C11_checker_disjoint_iff : forall (A V F : Type) (ps : list (probe A V F)) (o : obs A V F),
  c_disjoint ps o = true <->
  length (o_coffs o) = length ps /\ length (o_toffs o) = length ps /\
  forall j k pj pk, (j < k)%nat -> nth_error ps j = Some pj -> nth_error ps k = Some pk ->
    (forall cj ck, nth_error (o_coffs o) j = Some cj -> nth_error (o_coffs o) k = Some ck ->
                   cj + n_ids (clu_ids pj) <= ck \/ ck + n_ids (clu_ids pk) <= cj) /\
    (forall tj tk, nth_error (o_toffs o) j = Some tj -> nth_error (o_toffs o) k = Some tk ->
                   tj + p_ntmpl pj <= tk \/ tk + p_ntmpl pk <= tj).
Proof. exact (@c_disjoint_iff). Qed.
Print Assumptions C11_checker_disjoint_iff.

(* find_probe, by which clauses 22, 23, 25 attribute a merged cluster id to a probe: the FIRST probe whose registered id
   interval [off, off + n_ids) contains the id (the only one when clause 24 holds) *)
Theorem C11_find_probe : forall (A V F : Type) (ps : list (probe A V F)) offs c k,
  find_probe 0 ps offs c = Some k <->
  in_iv ps offs k c /\ forall j, (j < k)%nat -> ~ in_iv ps offs j c.
Proof.
  intros A V F ps offs c k. rewrite (find_probe_iff ps offs 0 c k), Nat.sub_0_r. split; [tauto|]. intros H. split; [lia|exact H].
Qed.
Print Assumptions C11_find_probe.

(* ---- clause 25 ---- *)
Theorem C11_checker_cprobes_iff : forall (A V F : Type) (ps : list (probe A V F)) (o : obs A V F),
  c_cprobes ps o = true <->
  (forall k p off c, nth_error ps k = Some p -> nth_error (o_coffs o) k = Some off -> In c (clu_ids p) ->
                     0 <= c + off /\ nth_error (o_cprobes o) (Z.to_nat (c + off)) = Some (Z.of_nat k)) /\
  (forall i k', nth_error (o_cprobes o) i = Some k' ->
                exists k, find_probe 0 ps (o_coffs o) (Z.of_nat i) = Some k /\ k' = Z.of_nat k).
Proof. exact (@c_cprobes_iff). Qed.
Print Assumptions C11_checker_cprobes_iff.

(* ---- clause 26: per TSV name, MetaClause (rows strictly increasing; every row of every present probe file is in the
   merged table at id + registered offset with the file's last value for that id; every merged row comes from a present
   file; written iff some present file has a row, header of one of them); with the declarative offsets MetaClause IS the
   conclusion Meta_out of C11_metadata ---- *)
Theorem C11_checker_meta_iff : forall (A V F : Type) (veqb : V -> V -> bool) (feqb : F -> F -> bool),
  (forall a b, veqb a b = true <-> a = b) -> (forall a b, feqb a b = true <-> a = b) ->
  forall (ps : list (probe A V F)) (o : obs A V F),
  (c_meta veqb feqb ps o = true <->
   length (o_meta o) = n_meta_files /\
   forall f, (f < n_meta_files)%nat -> MetaClause f ps (o_coffs o) (nth f (o_meta o) None)) /\
  (forall f out, MetaClause f ps (map (coff_spec ps) (seq 0 (length ps))) out <-> Meta_out f ps out).
Proof.
  intros A V F veqb feqb Hv Hf ps o. split; [exact (c_meta_iff veqb feqb Hv Hf ps o)|]. intros f out. apply meta_clause_decl.
Qed.
Print Assumptions C11_checker_meta_iff.

(* ---- clause 30 ---- *)
Theorem C11_checker_width_iff : forall (A V F : Type) (ps : list (probe A V F)) otd ocd oid,
  c_width ps (otd, ocd, oid) = true <->
  (forall t, In t (concat (map (@p_times A V F) ps)) -> dt_min otd <= t <= dt_max otd) /\
  (dt_min ocd <= 0 <= dt_max ocd) /\ (dt_min ocd <= coff_spec ps (length ps) - 1 <= dt_max ocd) /\
  (dt_min oid <= 0 <= dt_max oid) /\ (dt_min oid <= toff_spec ps (length ps) - 1 <= dt_max oid).
Proof. intros A V F ps otd ocd oid. exact (c_width_iff ps (otd, ocd, oid)). Qed.
Print Assumptions C11_checker_width_iff.

(* ---- (b) completeness against the model: on every well-formed input whose metadata ids are not negative, the output of
   the model, presented as an observation (obs_of: returned model = written arrays, inputs untouched), satisfies every
   clause 21-26: the comparator cannot reject a merge that equals the model ---- *)
Theorem C11_checker_complete : forall (A V F : Type) (aeqb : A -> A -> bool) (veqb : V -> V -> bool) (feqb : F -> F -> bool),
  (forall a b, aeqb a b = true <-> a = b) -> (forall a b, veqb a b = true <-> a = b) -> (forall a b, feqb a b = true <-> a = b) ->
  forall (ps : list (probe A V F)) m, wf ps -> merge ps = Some m ->
  (forall f, (f < n_meta_files)%nat -> meta_nonneg f ps) ->
  c_perm ps (obs_of m) = true /\ c_sorted aeqb ps (obs_of m) = true /\ c_payload aeqb ps (obs_of m) = true /\
  c_disjoint ps (obs_of m) = true /\ c_cprobes ps (obs_of m) = true /\ c_meta veqb feqb ps (obs_of m) = true.
Proof.
  intros A V F aeqb veqb feqb Ha Hv Hf ps m Hwf Hm Hnn. split; [exact (model_c_perm ps Hwf m Hm)|].
  split; [exact (model_c_sorted ps Hwf m Hm aeqb Ha)|]. split; [exact (model_c_payload ps Hwf m Hm aeqb Ha)|].
  split; [exact (model_c_disjoint ps Hwf m Hm)|]. split; [exact (model_c_cprobes ps Hwf m Hm Hnn)|].
  exact (model_c_meta ps Hwf m Hm Hnn veqb feqb Hv Hf).
Qed.
Print Assumptions C11_checker_complete.

Example C11_ex_clauses :
  match merge ex_ps with
  | Some m =>
      let o := obs_of m in
      (c_perm ex_ps o && c_sorted Z.eqb ex_ps o && c_payload Z.eqb ex_ps o && c_disjoint ex_ps o && c_cprobes ex_ps o &&
       c_meta Z.eqb Z.eqb ex_ps o = true) /\
      (* a spike of probe 1 relabelled into probe 0's cluster interval: payload and order clauses fail *)
      c_payload Z.eqb ex_ps (mkobs (o_times o) (o_amps o) (o_tmpl o) [4; 0; 4; 2; 5; 10; 1; 6] (o_cprobes o) (o_coffs o) (o_toffs o)
                                   (o_meta o) (o_ret o) (o_ret_meta o) true) = false /\
      (* one entry of cluster_probes changed *)
      c_cprobes ex_ps (mkobs (o_times o) (o_amps o) (o_tmpl o) (o_clu o) [0; 0; 0; 0; 1; 1; 1; 2; 2; 2; 2] (o_coffs o) (o_toffs o)
                             (o_meta o) (o_ret o) (o_ret_meta o) true) = false /\
      (* a metadata row kept at its unshifted id *)
      c_meta Z.eqb Z.eqb ex_ps (mkobs (o_times o) (o_amps o) (o_tmpl o) (o_clu o) (o_cprobes o) (o_coffs o) (o_toffs o)
                                      [Some (mkmeta 5 [(0, 100); (1, 102); (4, 101)]); None; Some (mkmeta 6 [(5, 7)])]
                                      (o_ret o) (o_ret_meta o) true) = false
  | None => False
  end.
Proof. vm_compute. repeat split; reflexivity. Qed.

(* ---- (c) integer dtypes.  merge_dt t0 c0 i0 = the merge computed with NumPy's fixed-width arithmetic, t0 / c0 / i0 being
   the dtypes in which the FIRST probe stores spike times / cluster ids / template ids.  On well-formed input whose times
   are representable in t0's sign (dt_min t0 <= t) and below 2^63, with fewer than 2^63 cluster ids and templates in total:
   it succeeds; its arrays are EXACTLY those of the Z-level merge (all theorems above apply to it); every merged value
   lies within the dtype of its merged file (clause 30); and a dtype differs from the first probe's only when that one
   cannot hold the largest value. ---- *)
Theorem C11_no_wrap : forall (A V F : Type) (ps : list (probe A V F)) (t0 c0 i0 : idt), wf ps ->
  (forall t, In t (concat_times ps) -> dt_min t0 <= t < 2 ^ 63) ->
  coff_spec ps (length ps) <= 2 ^ 63 -> toff_spec ps (length ps) <= 2 ^ 63 ->
  exists m td cd id,
    merge_dt t0 c0 i0 ps = Some (m, (td, cd, id)) /\ merge ps = Some m /\
    c_width ps (td, cd, id) = true /\
    (forall t, In t (m_times m) -> dt_min td <= t <= dt_max td) /\
    (forall c, In c (m_clu m) -> dt_min cd <= c <= dt_max cd) /\
    (forall c, In c (m_tmpl m) -> dt_min id <= c <= dt_max id) /\
    ((forall t, In t (concat_times ps) -> t <= dt_max t0) -> td = t0) /\
    (coff_spec ps (length ps) - 1 <= dt_max c0 -> cd = c0) /\ (toff_spec ps (length ps) - 1 <= dt_max i0 -> id = i0).
Proof. exact (@thm_no_wrap). Qed.
Print Assumptions C11_no_wrap.

(* phylib.io.merge._int_dtype: the chosen dtype holds the value and every value of the given dtype, is the given dtype when
   that suffices, and exists for every value below 2^63 *)
Theorem C11_int_dtype : forall d mx,
  (forall d', int_dtype d mx = Some d' ->
     mx <= dt_max d' /\ dt_min d' <= dt_min d /\ dt_max d <= dt_max d' /\ (mx <= dt_max d -> d' = d)) /\
  (mx < 2 ^ 63 -> exists d', int_dtype d mx = Some d').
Proof. intros d mx. split; [intros d'; apply int_dtype_holds|apply int_dtype_some]. Qed.
Print Assumptions C11_int_dtype.

(* the boundary, and what the unrepaired arithmetic did beyond it.  Two probes storing template ids as uint16: probe 0 has
   65531 templates (a spike of template 65530), probe 1 has 6 (a spike of template 5): 65537 templates in total.
   merge_dt promotes the merged spike_templates to uint32 and the ids are 0, 65530, 65531, 65536.  The unrepaired code
   shifted probe 1's ids in place in uint16 (old_shift): 5 + 65531 wraps to 0 -- the merged id of template 0 of probe 0.
   With 5 templates in probe 1 (65536 in total, largest id 65535) uint16 is kept. *)
Definition ex_u16 (n1 : Z) : list (probe Z Z Z) :=
  [ mkprobe [1; 2] [10; 20] [0; 65530] [0; 1] 65531 [None; None; None];
    mkprobe [3; 4] [30; 40] [0; n1 - 1] [0; 1] n1 [None; None; None] ].
Theorem C11_wrap_boundary :
  (exists m, merge_dt U64 U32 U16 (ex_u16 6) = Some (m, (U64, U32, U32)) /\ m_tmpl m = [0; 65530; 65531; 65536] /\
             m_toffs m = [0; 65531]) /\
  (exists m, merge_dt U64 U32 U16 (ex_u16 5) = Some (m, (U64, U32, U16)) /\ m_tmpl m = [0; 65530; 65531; 65535]) /\
  old_shift U16 U16 65531 [0; 5] = Some [65531; 0] /\
  (* cluster ids: a uint8 probe between two int32 probes wrapped silently in its own dtype *)
  old_shift I32 U8 11 [0; 250] = Some [11; 5] /\
  (* an offset out of the later probe's dtype raised OverflowError *)
  old_shift I32 U8 301 [0; 2] = None.
Proof.
  split; [eexists; split; [vm_compute; reflexivity|split; reflexivity]|].
  split; [eexists; split; [vm_compute; reflexivity|reflexivity]|]. repeat split; vm_compute; reflexivity.
Qed.
Print Assumptions C11_wrap_boundary.

Example C11_ex_no_wrap : exists m, merge_dt U64 U32 U32 ex_ps = Some (m, (U64, U32, U32)) /\ merge ex_ps = Some m.
Proof. eexists. split; vm_compute; reflexivity. Qed.

(* ---- (d) the input directories.  File system = (directory, file name) -> content; merge_fs reads the probe directories,
   runs the model and writes the merged files under out. ---- *)
Theorem C11_frame : forall (A V F D : Type) (deqb : D -> D -> bool), (forall a b, deqb a b = true <-> a = b) ->
  forall (s : @fs A V F D) dirs out s', merge_fs deqb s dirs out = Some s' -> forall d n, d <> out -> s' d n = s d n.
Proof. exact (@thm_frame). Qed.
Print Assumptions C11_frame.

Theorem C11_inputs_unchanged : forall (A V F D : Type) (deqb : D -> D -> bool), (forall a b, deqb a b = true <-> a = b) ->
  forall (s : @fs A V F D) dirs out s', ~ In out dirs -> merge_fs deqb s dirs out = Some s' ->
  forall d n, In d dirs -> s' d n = s d n.
Proof. exact (@thm_inputs_unchanged). Qed.
Print Assumptions C11_inputs_unchanged.

(* the merged files are a function of the probe directories alone, and they are the arrays of the model *)
Theorem C11_reads_only_inputs : forall (A V F D : Type) (deqb : D -> D -> bool), (forall a b, deqb a b = true <-> a = b) ->
  forall (s1 s2 : @fs A V F D) dirs out, (forall d n, In d dirs -> s1 d n = s2 d n) ->
  match merge_fs deqb s1 dirs out, merge_fs deqb s2 dirs out with
  | Some s1', Some s2' => exists ps m, read_probes s1 dirs = Some ps /\ read_probes s2 dirs = Some ps /\ merge ps = Some m /\
                                       forall n c, In (n, c) (out_files m) -> s1' out n = s2' out n
  | None, None => True
  | _, _ => False
  end.
Proof. exact (@thm_reads_only_inputs). Qed.
Print Assumptions C11_reads_only_inputs.

Theorem C11_written_files : forall (A V F D : Type) (deqb : D -> D -> bool), (forall a b, deqb a b = true <-> a = b) ->
  forall (s : @fs A V F D) dirs out s' ps m, merge_fs deqb s dirs out = Some s' -> read_probes s dirs = Some ps -> merge ps = Some m ->
  s' out FTimes = Some (CInts (m_times m)) /\ s' out FAmps = Some (CAmps (m_amps m)) /\
  s' out FTmpl = Some (CInts (m_tmpl m)) /\ s' out FClu = Some (CInts (m_clu m)) /\
  s' out FCprobes = Some (CInts (m_cprobes m)).
Proof. exact (@thm_written). Qed.
Print Assumptions C11_written_files.

(* non-vacuity, and why out must not be one of the inputs: directory 0 holds a probe whose two spikes are not in time
   order; merging [0] into directory 1 leaves directory 0 as it was and writes the sorted times to 1; merging [0] into 0
   itself replaces the input's spike_times *)
Definition ex_fs : @fs Z Z Z nat := fun d n =>
  match d, n with
  | O, FTimes => Some (CInts [2; 1]) | O, FAmps => Some (CAmps [10; 20]) | O, FTmpl => Some (CInts [0; 1])
  | O, FClu => Some (CInts [0; 1]) | O, FTemplates => Some (CRows 2)
  | _, _ => None
  end.
Theorem C11_frame_needs_distinct_out :
  (exists s', merge_fs Nat.eqb ex_fs [0%nat] 1%nat = Some s' /\ s' 0%nat FTimes = Some (CInts [2; 1]) /\
              s' 1%nat FTimes = Some (CInts [1; 2]) /\ s' 1%nat FClu = Some (CInts [1; 0])) /\
  (exists s', merge_fs Nat.eqb ex_fs [0%nat] 0%nat = Some s' /\ s' 0%nat FTimes = Some (CInts [1; 2]) /\
              s' 0%nat FTimes <> ex_fs 0%nat FTimes).
Proof.
  split; eexists; (split; [vm_compute; reflexivity|]); repeat split; try (vm_compute; reflexivity). vm_compute. discriminate.
Qed.
Print Assumptions C11_frame_needs_distinct_out.
