(* C11/Props.v -- the property theorems, and nothing else.  Each is closed by [exact] of a lemma of Proofs.v
   and followed by Print Assumptions.

   Vocabulary (Spec.v): [tagged_concat ps] = every input spike of every probe, probe after probe in file order, each
   tagged with (probe index, index within the probe) and carrying its time, amplitude, template id, cluster id;
   [p_ntmpl p] = the number of templates of probe p = number of rows of its templates.npy (an input of the merge);
   [wf ps] = at least one probe, every probe has >= 1 spike, its four per-spike arrays have equal length, ids >= 0,
   and every spike template id is < p_ntmpl (templates without spikes, trailing or not, are allowed);
   [clu_ids p] = the cluster ids probe p's directory names: those carried by its spikes and those listed in its
   cluster_*.tsv files (a cluster without spikes may have a metadata row);
   [coff_spec ps k] = sum over the probes before k of (largest of clu_ids + 1);
   [toff_spec ps k] = sum over the probes before k of p_ntmpl -- the row of the merged templates.npy where
   write_templates (C12) puts template 0 of probe k (linked in PV.C12.Props.C12_spike_template_rows);
   [lt3] = strictly increasing in (time, probe index, index within the probe), lexicographically. *)
From Coq Require Import ZArith List Bool Sorted Permutation Lia.
From PV Require Import Base.NpSort Base.NpSearch C11.Model C11.Spec C11.Proofs C11.Proofs2 C11.Proofs3.
Import ListNotations.
Open Scope Z_scope.

(* What "the input spikes" are: s is in tagged_concat ps exactly when probe number t_probe s has, at index t_idx s of its
   four per-spike arrays, the time, amplitude, template id and cluster id that s carries. *)
Theorem C11_input_spikes : forall (A V F : Type) (ps : list (probe A V F)), Forall wf_len ps -> forall s,
  In s (tagged_concat ps) <->
  exists p, nth_error ps (t_probe s) = Some p /\
    nth_error (p_times p) (t_idx s) = Some (t_time s) /\ nth_error (p_amps p) (t_idx s) = Some (t_amp s) /\
    nth_error (p_tmpl p) (t_idx s) = Some (t_tmpl s) /\ nth_error (p_clu p) (t_idx s) = Some (t_clu s).
Proof. exact (@thm_input_spikes). Qed.
Print Assumptions C11_input_spikes.

(* The merge succeeds and its output spikes are, position by position (Payload), a permutation M of the input spikes:
   every (probe, index) tag occurs exactly once. *)
Theorem C11_permutation : forall (A V F : Type) (ps : list (probe A V F)), wf ps ->
  exists m M, merge ps = Some m /\ Payload ps m M /\ Permutation M (tagged_concat ps) /\
              NoDup (map tagpair (tagged_concat ps)) /\ NoDup (map tagpair M).
Proof. exact (@thm_permutation). Qed.
Print Assumptions C11_permutation.

(* M is strictly increasing in (time, probe, index): times non-decreasing, and the two corollaries below *)
Theorem C11_sorted_stable : forall (A V F : Type) (ps : list (probe A V F)), wf ps ->
  exists m M, merge ps = Some m /\ Payload ps m M /\ Permutation M (tagged_concat ps) /\
              StronglySorted (@lt3 A) M /\ StronglySorted Z.le (m_times m).
Proof. exact (@thm_sorted_stable). Qed.
Print Assumptions C11_sorted_stable.

(* two spikes of the same probe whose times are in order keep their original order in the merged output *)
Theorem C11_same_probe_order : forall (A : Type) (M : list (tagged A)), StronglySorted (@lt3 A) M ->
  forall j1 j2 s1 s2, nth_error M j1 = Some s1 -> nth_error M j2 = Some s2 ->
  t_probe s1 = t_probe s2 -> (t_idx s1 < t_idx s2)%nat -> t_time s1 <= t_time s2 -> (j1 < j2)%nat.
Proof. exact (@thm_same_probe_order). Qed.
Print Assumptions C11_same_probe_order.

(* simultaneous spikes of different probes are ordered by probe index *)
Theorem C11_ties_by_probe : forall (A : Type) (M : list (tagged A)), StronglySorted (@lt3 A) M ->
  forall j1 j2 s1 s2, nth_error M j1 = Some s1 -> nth_error M j2 = Some s2 ->
  t_time s1 = t_time s2 -> (t_probe s1 < t_probe s2)%nat -> (j1 < j2)%nat.
Proof. exact (@thm_ties_by_probe). Qed.
Print Assumptions C11_ties_by_probe.

(* "the original order kept within a probe", in full: for any provenance list M that is a permutation of the input and
   sorted by (time, probe, index) -- C11_sorted_stable provides it -- the spikes of probe k, read off M in merged order, are
   exactly probe k's spikes in their original order, whenever probe k's own times are non-decreasing *)
Theorem C11_probe_subsequence : forall (A V F : Type) (ps : list (probe A V F)) (M : list (tagged A)) k p,
  Permutation M (tagged_concat ps) -> StronglySorted (@lt3 A) M ->
  nth_error ps k = Some p -> StronglySorted Z.le (p_times p) ->
  filter (of_probe k) M = tag_probe k p.
Proof. exact (@thm_probe_subsequence). Qed.
Print Assumptions C11_probe_subsequence.

(* each merged spike carries its own time and amplitude; cluster id = original + cluster offset of its probe,
   template id = original + template offset of its probe (= number of templates of the earlier probes); the registered
   offsets are the declarative ones *)
Theorem C11_payload : forall (A V F : Type) (ps : list (probe A V F)), wf ps ->
  exists m M, merge ps = Some m /\ Permutation M (tagged_concat ps) /\
    m_times m = map (@t_time A) M /\ m_amps m = map (@t_amp A) M /\
    m_clu m = map (fun s => t_clu s + coff_spec ps (t_probe s)) M /\
    m_tmpl m = map (fun s => t_tmpl s + toff_spec ps (t_probe s)) M /\
    m_coffs m = map (coff_spec ps) (seq 0 (length ps)) /\ m_toffs m = map (toff_spec ps) (seq 0 (length ps)).
Proof. exact (@thm_payload). Qed.
Print Assumptions C11_payload.

(* the id intervals [offset_j, offset_j + max_j] and [offset_k, ...] of two probes j < k are disjoint (the first ends
   strictly below the start of the second) and contain the shifted ids of their probe; clusters and templates; the whole
   id range [coff_j, coff_j + n_ids (clu_ids pj)) of probe j (with or without spikes) ends at or below coff_k; for
   templates the whole row range [toff_j, toff_j + p_ntmpl_j) of probe j (spiking or not) ends at or below toff_k *)
Theorem C11_disjoint : forall (A V F : Type) (ps : list (probe A V F)), Forall wf_probe ps ->
  forall j k pj pk, (j < k)%nat -> nth_error ps j = Some pj -> nth_error ps k = Some pk ->
  (coff_spec ps j + zmaxl (p_clu pj) < coff_spec ps k /\
   coff_spec ps j + n_ids (clu_ids pj) <= coff_spec ps k /\
   (forall c, In c (p_clu pj) -> coff_spec ps j <= c + coff_spec ps j <= coff_spec ps j + zmaxl (p_clu pj)) /\
   (forall c, In c (p_clu pk) -> coff_spec ps k <= c + coff_spec ps k)) /\
  (toff_spec ps j + zmaxl (p_tmpl pj) < toff_spec ps k /\
   toff_spec ps j + p_ntmpl pj <= toff_spec ps k /\
   (forall c, In c (p_tmpl pj) -> toff_spec ps j <= c + toff_spec ps j <= toff_spec ps j + zmaxl (p_tmpl pj)) /\
   (forall c, In c (p_tmpl pk) -> toff_spec ps k <= c + toff_spec ps k)).
Proof. exact (@thm_disjoint). Qed.
Print Assumptions C11_disjoint.

(* ids of different probes never collide: two input spikes with the same merged cluster (template) id belong to the
   same probe and have the same original id *)
Theorem C11_no_collision : forall (A V F : Type) (ps : list (probe A V F)), Forall wf_probe ps -> forall s1 s2,
  In s1 (tagged_concat ps) -> In s2 (tagged_concat ps) ->
  (t_clu s1 + coff_spec ps (t_probe s1) = t_clu s2 + coff_spec ps (t_probe s2) ->
     t_probe s1 = t_probe s2 /\ t_clu s1 = t_clu s2) /\
  (t_tmpl s1 + toff_spec ps (t_probe s1) = t_tmpl s2 + toff_spec ps (t_probe s2) ->
     t_probe s1 = t_probe s2 /\ t_tmpl s1 = t_tmpl s2).
Proof. exact (@thm_no_collision). Qed.
Print Assumptions C11_no_collision.

(* cluster_probes has one entry per merged cluster id 0 .. total-1; entry (c + offset_k) is k for every id c in
   0 .. max_k of probe k (max_k over the ids of its spikes and of its metadata rows; used or not), and every entry
   arises that way (so c - offset is the original id) *)
Theorem C11_cluster_probes : forall (A V F : Type) (ps : list (probe A V F)), wf ps ->
  exists m, merge ps = Some m /\ Z.of_nat (length (m_cprobes m)) = coff_spec ps (length ps) /\
    (forall k p c, nth_error ps k = Some p -> 0 <= c <= zmaxl (clu_ids p) ->
                   nth_error (m_cprobes m) (Z.to_nat (c + coff_spec ps k)) = Some (Z.of_nat k)) /\
    (forall c k', nth_error (m_cprobes m) c = Some k' ->
       exists k p, k' = Z.of_nat k /\ nth_error ps k = Some p /\ 0 <= Z.of_nat c - coff_spec ps k <= zmaxl (clu_ids p)).
Proof. exact (@thm_cluster_probes). Qed.
Print Assumptions C11_cluster_probes.

(* error exits of the model (= where the real code raises): no probe directory; a probe without any spike (np.max of
   its empty spike_clusters.  The repaired code no longer evaluates np.max(spike_templates): an empty spike_templates is
   an error exit together with the equal lengths of the probe's per-spike arrays, wf_len) *)
Theorem C11_error_exits : forall (A V F : Type), merge (@nil (probe A V F)) = None /\
  forall (ps : list (probe A V F)) p, In p ps -> p_clu p = [] \/ (wf_len p /\ p_tmpl p = []) -> merge ps = None.
Proof. exact (@thm_error_exits). Qed.
Print Assumptions C11_error_exits.

(* ---- the boolean checkers that judge OBSERVED merges in Corr.v certify what their clause says ---- *)
Theorem C11_checker_perm_sound : forall (A V F : Type) (ps : list (probe A V F)) (o : obs A V F), c_perm ps o = true ->
  Permutation (o_times o) (concat (map (@p_times A V F) ps)) /\
  length (o_amps o) = length (o_times o) /\ length (o_tmpl o) = length (o_times o) /\
  length (o_clu o) = length (o_times o).
Proof. exact (@c_perm_sound). Qed.
Print Assumptions C11_checker_perm_sound.

Theorem C11_checker_sorted_sound : forall (A V F : Type) (aeqb : A -> A -> bool),
  (forall a b, aeqb a b = true -> a = b) -> forall (ps : list (probe A V F)) (o : obs A V F),
  c_sorted aeqb ps o = true ->
  StronglySorted Z.le (o_times o) /\
  forall k p, nth_error ps k = Some p -> sub_rows ps o k = sort_rows (rows_of p).
Proof. exact (@c_sorted_sound). Qed.
Print Assumptions C11_checker_sorted_sound.

Theorem C11_checker_payload_sound : forall (A V F : Type) (aeqb : A -> A -> bool),
  (forall a b, aeqb a b = true -> a = b) -> forall (ps : list (probe A V F)) (o : obs A V F),
  c_payload aeqb ps o = true ->
  o_coffs o = map (coff_spec ps) (seq 0 (length ps)) /\ o_toffs o = map (toff_spec ps) (seq 0 (length ps)) /\
  length (o_times o) = length (concat (map (@rows_of A V F) ps)) /\
  forall k p, nth_error ps k = Some p -> Permutation (sub_rows ps o k) (rows_of p).
Proof. exact (@c_payload_sound). Qed.
Print Assumptions C11_checker_payload_sound.

Theorem C11_checker_disjoint_sound : forall (A V F : Type) (ps : list (probe A V F)) (o : obs A V F),
  c_disjoint ps o = true ->
  forall j k pj pk cj ck tj tk, (j < k)%nat -> nth_error ps j = Some pj -> nth_error ps k = Some pk ->
  nth_error (o_coffs o) j = Some cj -> nth_error (o_coffs o) k = Some ck ->
  nth_error (o_toffs o) j = Some tj -> nth_error (o_toffs o) k = Some tk ->
  (cj + n_ids (clu_ids pj) <= ck \/ ck + n_ids (clu_ids pk) <= cj) /\
  (tj + p_ntmpl pj <= tk \/ tk + p_ntmpl pk <= tj).
Proof. exact (@c_disjoint_sound). Qed.
Print Assumptions C11_checker_disjoint_sound.

(* ---- non-vacuity: a concrete merge of three probes (ties inside and across probes, a one-spike probe, gaps,
        curated clusters, TSV in some; probe 0 has 4 templates of which the last has no spike, probe 2 has 3 of
        which only the first spikes) ---- *)
Definition ex_ps : list (probe Z Z Z) :=
  [ mkprobe [1; 3; 3; 7] [10; 20; 30; 40] [0; 2; 2; 1] [0; 4; 2; 1] 4 [Some (mkmeta 5 [(0, 100); (4, 101)]); None; None];
    mkprobe [0; 3; 9] [50; 60; 70] [1; 0; 1] [1; 0; 1] 2 [Some (mkmeta 5 [(1, 102)]); None; Some (mkmeta 6 [(0, 7)])];
    mkprobe [3] [80] [0] [3] 3 [None; None; None] ].
Example C11_ex_merge : merge ex_ps = Some (mkmerged
  [0; 1; 3; 3; 3; 3; 7; 9] [50; 10; 20; 30; 60; 80; 40; 70] [5; 0; 2; 2; 4; 6; 1; 5] [6; 0; 4; 2; 5; 10; 1; 6]
  [0; 0; 0; 0; 0; 1; 1; 2; 2; 2; 2] [0; 5; 7] [0; 4; 6]
  [Some (mkmeta 5 [(0, 100); (4, 101); (6, 102)]); None; Some (mkmeta 6 [(5, 7)])]).
Proof. vm_compute. reflexivity. Qed.
Example C11_ex_wf : wf ex_ps.
Proof.
  split; [discriminate|]. repeat constructor; cbn; try discriminate; intros c H;
    repeat (destruct H as [<-|H]; [lia|]); contradiction.
Qed.
Example C11_ex_offsets : map (coff_spec ex_ps) [0; 1; 2; 3]%nat = [0; 5; 7; 11] /\ map (toff_spec ex_ps) [0; 1; 2; 3]%nat = [0; 4; 6; 9].
Proof. vm_compute. split; reflexivity. Qed.

(* ---- renumbered per-cluster metadata ----
   For each of the three TSV names f, whenever the ids listed in the probes' files are not negative: the written table
   maps id + offset_k |-> the (last) value that probe k's file gives to id, for every probe that has the file -- also for
   an id that no spike of the probe carries -- and contains nothing else (Meta_spec); it is written iff some present file
   has a row, its rows are strictly increasing in id, and its header is the header of one of the present files.
   (Before fix-c11c this needed meta_in_range: ids within 0 .. largest SPIKE cluster id.) *)
Theorem C11_metadata : forall (A V F : Type) (ps : list (probe A V F)), wf ps ->
  exists m, merge ps = Some m /\ length (m_meta m) = n_meta_files /\
    forall f, (f < n_meta_files)%nat -> meta_nonneg f ps -> Meta_out f ps (nth f (m_meta m) None).
Proof. exact (@thm_metadata_merge). Qed.
Print Assumptions C11_metadata.

(* why the cluster count of a probe must cover the ids of its metadata rows (the defect repaired on fix-c11c).
   Probe 0 has one spike cluster, 0, and its file also lists id 1 (a cluster without spikes); probe 1 has cluster 0.
   The input violates meta_in_range.  With the offsets the unrepaired code registered -- [0; 1], counts from the spikes
   alone -- write_cluster_data's table gives merged id 1 (which is cluster 0 of probe 1) the value 200 of probe 1 and
   loses probe 0's row 101 (had probe 1 no file, id 1 would carry probe 0's 101 although cluster_probes[1] = 1): not
   Meta_spec.  The repaired merge registers [0; 2] and its table satisfies Meta_spec. *)
Definition ex_bad : list (probe Z Z Z) :=
  [ mkprobe [1] [10] [0] [0] 1 [Some (mkmeta 5 [(0, 100); (1, 101)]); None; None];
    mkprobe [2] [20] [0] [0] 1 [Some (mkmeta 5 [(0, 200)]); None; None] ].
Theorem C11_metadata_needs_range : wf ex_bad /\ ~ meta_in_range 0 ex_bad /\ meta_nonneg 0 ex_bad /\
  meta_file 0 ex_bad [0; 1] = Some (mkmeta 5 [(0, 100); (1, 200)]) /\
  ~ Meta_spec 0 ex_bad (meta_file 0 ex_bad [0; 1]) /\
  exists m, merge ex_bad = Some m /\ m_coffs m = [0; 2] /\ m_clu m = [0; 2] /\ m_cprobes m = [0; 0; 1] /\
            nth 0 (m_meta m) None = Some (mkmeta 5 [(0, 100); (1, 101); (2, 200)]) /\
            Meta_spec 0 ex_bad (nth 0 (m_meta m) None).
Proof.
  assert (W : wf ex_bad).
  { split; [discriminate|]. repeat constructor; cbn; try discriminate; intros c H;
      repeat (destruct H as [<-|H]; [lia|]); contradiction. }
  assert (N : meta_nonneg 0 ex_bad).
  { intros p mt kv Hp Hm Hkv. unfold meta_of in Hm. destruct Hp as [<-|[<-|[]]]; cbn in Hm; injection Hm as <-;
      cbn in Hkv; repeat (destruct Hkv as [<-|Hkv]; [cbn; lia|]); contradiction. }
  split; [exact W|]. split; [|split; [exact N|]]; [|split; [vm_compute; reflexivity|split]].
  - intros H. specialize (H (nth 0 ex_bad (mkprobe [] [] [] [] 0 [])) (mkmeta 5 [(0, 100); (1, 101)]) (1, 101)).
    cbn in H. assert (0 <= 1 <= 0) by (apply H; auto). lia.
  - intros [Hf _].
    specialize (Hf 0%nat (nth 0 ex_bad (mkprobe [] [] [] [] 0 [])) (mkmeta 5 [(0, 100); (1, 101)]) 1 101 eq_refl eq_refl eq_refl).
    vm_compute in Hf. discriminate.
  - destruct (thm_metadata_merge ex_bad W) as (m & Hm & _ & HM). exists m. split; [exact Hm|].
    destruct (HM 0%nat ltac:(unfold n_meta_files; lia) N) as [HS _].
    vm_compute in Hm. injection Hm as <-. do 4 (split; [reflexivity|]). exact HS.
Qed.
Print Assumptions C11_metadata_needs_range.

Example C11_ex_meta_in_range : forall f, (f < 3)%nat -> meta_in_range f ex_ps /\ meta_nonneg f ex_ps.
Proof.
  intros f Hf. assert (G : meta_in_range f ex_ps); [|split; [exact G|intros p mt kv Hp Hm Hkv; apply (G p mt kv Hp Hm Hkv)]].
  intros p mt kv Hp Hm Hkv. unfold meta_of in Hm.
  destruct Hp as [<-|[<-|[<-|[]]]]; destruct f as [|[|[|f]]]; try lia; cbn in Hm; try discriminate;
    injection Hm as <-; cbn in Hkv; repeat (destruct Hkv as [<-|Hkv]; [cbn; lia|]); contradiction.
Qed.

Example C11_ex_subsequence : filter (of_probe 1) (sorted_tagged (tagged_concat ex_ps)) = tag_probe 1 (nth 1 ex_ps (mkprobe [] [] [] [] 0 [])).
Proof. vm_compute. reflexivity. Qed.
Example C11_ex_error : merge (ex_ps ++ [mkprobe [] [] [] [] 0 [None; None; None]]) = None.
Proof. vm_compute. reflexivity. Qed.

(* ---- the guard on the template count is needed, and what the code does without it ----
   wf asks that every spike names one of the probe's templates (id < p_ntmpl).  Nothing in write_spike_clusters checks
   it: when probe 0's templates.npy has 1 row but one of its spikes names template 1, the merge goes through, the
   template offsets are still the cumulative counts [0; 1], and the shifted id 1 of that spike is also the merged id of
   template 0 of probe 1 -- two spikes of different probes share a merged template id. *)
Definition ex_short : list (probe Z Z Z) :=
  [ mkprobe [1; 2] [10; 20] [0; 1] [0; 1] 1 [None; None; None];
    mkprobe [3] [30] [0] [0] 1 [None; None; None] ].
Theorem C11_template_count_needed :
  (forall p, In p ex_short -> wf_len p /\ p_times p <> [] /\ (forall c, In c (p_clu p) -> 0 <= c) /\
                              (forall c, In c (p_tmpl p) -> 0 <= c)) /\
  ~ wf ex_short /\
  exists m, merge ex_short = Some m /\ m_toffs m = [0; 1] /\ m_tmpl m = [0; 1; 1] /\
    exists s1 s2, In s1 (tagged_concat ex_short) /\ In s2 (tagged_concat ex_short) /\ t_probe s1 <> t_probe s2 /\
      t_tmpl s1 + toff_spec ex_short (t_probe s1) = t_tmpl s2 + toff_spec ex_short (t_probe s2).
Proof.
  split; [|split].
  - intros p [<-|[<-|[]]]; (split; [unfold wf_len; cbn; auto|]); (split; [discriminate|]);
      split; intros c H; cbn in H; repeat (destruct H as [<-|H]; [lia|]); contradiction.
  - intros [_ H]. inversion H as [|? ? (_ & _ & _ & _ & _ & _ & N) _]; subst. specialize (N 1). cbn in N.
    assert (1 < 1) by (apply N; auto). lia.
  - eexists. split; [vm_compute; reflexivity|]. split; [reflexivity|]. split; [reflexivity|].
    exists (mktag 0 1 2 20 1 1), (mktag 1 0 3 30 0 0). cbn. repeat split; auto; discriminate.
Qed.
Print Assumptions C11_template_count_needed.
