(* C11/Props.v -- the property theorems, and nothing else. *)
From Coq Require Import ZArith List Bool Sorted Permutation Lia.
From PV Require Import Base.NpSort Base.NpSearch C11.Model C11.Spec C11.Proofs.
Import ListNotations.
Open Scope Z_scope.

Theorem C11_dict_get_set : forall (V : Type) (d : list (Z * V)) k v k',
  dict_get (dict_set k v d) k' = if k' =? k then Some v else dict_get d k'.
Proof. exact (@dict_get_set). Qed.
Print Assumptions C11_dict_get_set.
