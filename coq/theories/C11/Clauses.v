(* C11/Clauses.v -- what each boolean clause of the comparator (Spec.v: c_perm ... c_meta, c_width) says, as a
   declarative proposition about the observed merge, with the proof that the boolean is true EXACTLY when the
   proposition holds (soundness and completeness of every clause). *)
From Coq Require Import ZArith List Bool Sorted Permutation Lia Arith.
From PV Require Import Base.NpSort Base.NpSearch C11.Model C11.Spec C11.Proofs C11.Proofs3.
Import ListNotations.
Open Scope Z_scope.

(* ---------------------------------------------------------------------------------------------
   generic: the list checkers decide what they are named after
   --------------------------------------------------------------------------------------------- *)
Lemma sorted_b_complete l : StronglySorted Z.le l -> sorted_b l = true.
Proof.
  induction l as [|x l IH]; intros H; [reflexivity|]. destruct l as [|y r]; [reflexivity|].
  apply StronglySorted_inv in H as [H1 H2]. cbn [sorted_b]. apply andb_true_iff. split; [|now apply IH].
  inversion H2; subst. lia.
Qed.
Lemma sorted_b_iff l : sorted_b l = true <-> StronglySorted Z.le l.
Proof. split; [apply sorted_b_sound|apply sorted_b_complete]. Qed.

Lemma strict_b_complete l : StronglySorted Z.lt l -> strict_b l = true.
Proof.
  induction l as [|x l IH]; intros H; [reflexivity|]. destruct l as [|y r]; [reflexivity|].
  apply StronglySorted_inv in H as [H1 H2]. cbn [strict_b]. apply andb_true_iff. split; [|now apply IH].
  inversion H2; subst. lia.
Qed.
Lemma strict_b_iff l : strict_b l = true <-> StronglySorted Z.lt l.
Proof. split; [apply strict_b_sound|apply strict_b_complete]. Qed.

Section Eqb.
Context {X : Type}.
Variable eqb : X -> X -> bool.
Hypothesis eqb_iff : forall a b, eqb a b = true <-> a = b.

Lemma list_eqb_iff l1 l2 : list_eqb eqb l1 l2 = true <-> l1 = l2.
Proof.
  revert l2; induction l1 as [|x l1 IH]; intros [|y l2]; cbn [list_eqb]; try (split; [discriminate|discriminate]).
  - split; reflexivity.
  - rewrite andb_true_iff, eqb_iff, IH. split; [intros [-> ->]; reflexivity|intros H; injection H; auto].
Qed.

Lemma remove_first_in x l : In x l -> exists l', remove_first eqb x l = Some l'.
Proof.
  induction l as [|y r IH]; intros H; [contradiction|]. cbn [remove_first].
  destruct (eqb x y) eqn:E; [eauto|]. destruct H as [->|H]; [rewrite (proj2 (eqb_iff x x) eq_refl) in E; discriminate|].
  destruct (IH H) as (l' & ->). cbn [option_map]. eauto.
Qed.

Lemma perm_b_complete a : forall b, Permutation a b -> perm_b eqb a b = true.
Proof.
  induction a as [|x a IH]; intros b P; cbn [perm_b].
  - apply Permutation_nil in P. now subst.
  - destruct (remove_first_in x b (Permutation_in x P (or_introl eq_refl))) as (b' & E). rewrite E.
    apply IH. pose proof (remove_first_perm eqb (fun u v => proj1 (eqb_iff u v)) _ _ _ E) as Pb.
    eapply Permutation_cons_inv. rewrite P. exact Pb.
Qed.
Lemma perm_b_iff a b : perm_b eqb a b = true <-> Permutation a b.
Proof. split; [apply perm_b_sound; intros u v; apply eqb_iff|apply perm_b_complete]. Qed.
End Eqb.

Lemma nth_error_combine {X Y} (l1 : list X) (l2 : list Y) i x y :
  nth_error (combine l1 l2) i = Some (x, y) <-> nth_error l1 i = Some x /\ nth_error l2 i = Some y.
Proof.
  revert l2 i; induction l1 as [|a l1 IH]; intros l2 i.
  - cbn [combine]. destruct i; cbn [nth_error]; split; [discriminate|intros [H _]; discriminate| discriminate|intros [H _]; discriminate].
  - destruct l2 as [|b l2]; cbn [combine].
    + destruct i; cbn [nth_error]; split; try discriminate; intros [_ H]; discriminate.
    + destruct i as [|i]; cbn [nth_error]; [|apply IH]. split; [intros H; injection H as -> ->; auto|intros [H1 H2]; congruence].
Qed.

Lemma nth_error_seq_combine {X} (l : list X) : forall a i k x,
  nth_error (combine (seq a (length l)) l) i = Some (k, x) <-> k = (a + i)%nat /\ nth_error l i = Some x.
Proof.
  induction l as [|y l IH]; intros a i k x; cbn [length seq combine].
  - destruct i; cbn [nth_error]; split; try discriminate; intros [_ H]; discriminate.
  - destruct i as [|i]; cbn [nth_error].
    + split; [intros H; injection H as <- <-; split; [lia|reflexivity]|intros [-> H]; injection H as ->; f_equal; f_equal; lia].
    + rewrite IH. split; intros [-> H]; (split; [lia|exact H]).
Qed.

Lemma nth_error_map_inv {X Y} (f : X -> Y) l i y : nth_error (map f l) i = Some y -> exists x, nth_error l i = Some x /\ f x = y.
Proof.
  revert i; induction l as [|a l IH]; intros [|i] H; cbn [map nth_error] in H; try discriminate.
  - injection H as <-. exists a. split; reflexivity.
  - now apply IH.
Qed.

Lemma forallb_nth {X} (f : X -> bool) l : forallb f l = true <-> forall i x, nth_error l i = Some x -> f x = true.
Proof.
  rewrite forallb_forall. split.
  - intros H i x Hi. apply H. eapply nth_error_In; exact Hi.
  - intros H x Hx. apply In_nth_error in Hx as (i & Hi). eapply H; exact Hi.
Qed.

(* forallb over the probes with their index *)
Lemma forallb_indexed {X} (f : nat * X -> bool) (l : list X) :
  forallb f (combine (seq 0 (length l)) l) = true <-> forall k x, nth_error l k = Some x -> f (k, x) = true.
Proof.
  rewrite forallb_nth. split.
  - intros H k x Hk. apply (H k (k, x)). apply nth_error_seq_combine. split; [reflexivity|exact Hk].
  - intros H i [k x] Hi. apply nth_error_seq_combine in Hi as [-> Hi]. apply H. exact Hi.
Qed.

Lemma ivs_disjoint_complete l :
  (forall i j a b, (i < j)%nat -> nth_error l i = Some a -> nth_error l j = Some b ->
                   fst a + snd a <= fst b \/ fst b + snd b <= fst a) -> ivs_disjoint l = true.
Proof.
  induction l as [|[a0 n0] r IH]; intros H; [reflexivity|]. cbn [ivs_disjoint]. apply andb_true_iff. split.
  - apply forallb_nth. intros j b Hj. specialize (H 0%nat (S j) (a0, n0) b ltac:(lia) eq_refl Hj). cbn [fst snd] in H.
    apply orb_true_iff. lia.
  - apply IH. intros i j a b Hlt Hi Hj. apply (H (S i) (S j) a b); [lia|exact Hi|exact Hj].
Qed.
Lemma ivs_disjoint_iff l : ivs_disjoint l = true <->
  forall i j a b, (i < j)%nat -> nth_error l i = Some a -> nth_error l j = Some b ->
                  fst a + snd a <= fst b \/ fst b + snd b <= fst a.
Proof. split; [apply ivs_disjoint_sound|apply ivs_disjoint_complete]. Qed.

(* ---------------------------------------------------------------------------------------------
   dictionaries with strictly increasing keys
   --------------------------------------------------------------------------------------------- *)
Section Dicts.
Context {V : Type}.

Lemma dict_get_in (d : list (Z * V)) k v : dict_get d k = Some v -> In (k, v) d.
Proof.
  induction d as [|[k0 v0] r IH]; cbn [dict_get]; [discriminate|]. destruct (k =? k0) eqn:E.
  - intros H; injection H as <-. left. f_equal. lia.
  - intros H. right. now apply IH.
Qed.
Lemma in_sorted_dict_get (d : list (Z * V)) k v : StronglySorted Z.lt (map fst d) -> In (k, v) d -> dict_get d k = Some v.
Proof.
  induction d as [|[k0 v0] r IH]; intros S H; [contradiction|]. cbn [map fst] in S. apply StronglySorted_inv in S as [Sr Hk].
  cbn [dict_get]. destruct H as [E|H].
  - injection E as -> ->. now rewrite Z.eqb_refl.
  - rewrite Forall_forall in Hk. specialize (Hk k (in_map fst _ _ H)). cbn [fst] in Hk.
    replace (k =? k0) with false by lia. now apply IH.
Qed.
Lemma find_last_some (rows : list (Z * V)) kv : In kv rows -> exists v, find_last rows (fst kv) = Some v.
Proof.
  induction rows as [|[k0 v0] r IH]; intros H; [contradiction|]. cbn [find_last].
  destruct (find_last r (fst kv)) as [w|] eqn:E; [eauto|]. destruct H as [<-|H].
  - cbn [fst]. rewrite Z.eqb_refl. eauto.
  - destruct (IH H) as (v & Hv). congruence.
Qed.
End Dicts.

(* =============================================================================================
   the clauses
   ============================================================================================= *)
Section Clauses.
Context {A V F : Type}.
Notation probe := (probe A V F).
Notation obs := (obs A V F).
Notation metatab := (metatab V F).
Variable aeqb : A -> A -> bool.
Variable veqb : V -> V -> bool.
Variable feqb : F -> F -> bool.
Hypothesis aeqb_iff : forall a b, aeqb a b = true <-> a = b.
Hypothesis veqb_iff : forall a b, veqb a b = true <-> a = b.
Hypothesis feqb_iff : forall a b, feqb a b = true <-> a = b.

Lemma row_eqb_iff (a b : row A) : row_eqb aeqb a b = true <-> a = b.
Proof.
  unfold row_eqb. rewrite !andb_true_iff, !Z.eqb_eq, aeqb_iff. destruct a, b; cbn. split.
  - intros (((-> & ->) & ->) & ->). reflexivity.
  - intros H; injection H; auto.
Qed.

Definition LensOk (o : obs) : Prop :=
  length (o_amps o) = length (o_times o) /\ length (o_tmpl o) = length (o_times o) /\ length (o_clu o) = length (o_times o).
Lemma lens_ok_iff o : lens_ok o = true <-> LensOk o.
Proof. unfold lens_ok, LensOk. rewrite !andb_true_iff, !Nat.eqb_eq. tauto. Qed.

(* ---- clause 21 ---- *)
Definition C_perm (ps : list probe) (o : obs) : Prop :=
  LensOk o /\ Permutation (o_times o) (concat (map (@p_times A V F) ps)).
Theorem c_perm_iff ps o : c_perm ps o = true <-> C_perm ps o.
Proof.
  unfold c_perm, C_perm. rewrite andb_true_iff, lens_ok_iff, (perm_b_iff Z.eqb Z.eqb_eq). tauto.
Qed.

(* ---- clause 22 ---- *)
(* consecutive merged spikes are both attributed to a probe, and at equal times the probe index does not decrease *)
Definition TiesByProbe (l : list (Z * option nat)) : Prop :=
  forall i a b, nth_error l i = Some a -> nth_error l (S i) = Some b ->
    exists k1 k2, snd a = Some k1 /\ snd b = Some k2 /\ (fst a = fst b -> (k1 <= k2)%nat).

Lemma ties_by_probe_iff l : ties_by_probe l = true <-> TiesByProbe l.
Proof.
  induction l as [|a l IH]; [split; [intros _ i a b H; destruct i; discriminate|reflexivity]|].
  destruct l as [|b l'].
  - split; [intros _ i x y H1 H2; destruct i as [|[|i]]; discriminate|intros _; destruct a as [t [k|]]; reflexivity].
  - destruct a as [t1 [k1|]], b as [t2 [k2|]]; cbn [ties_by_probe].
    + rewrite andb_true_iff, IH. split.
      * intros [H0 HT] i x y H1 H2. destruct i as [|i]; cbn [nth_error] in H1, H2.
        -- injection H1 as <-. injection H2 as <-. exists k1, k2. cbn [fst snd]. repeat split; try reflexivity.
           intros E. rewrite E, Z.eqb_refl in H0. now apply Nat.leb_le.
        -- exact (HT i x y H1 H2).
      * intros H. split.
        -- destruct (H 0%nat _ _ eq_refl eq_refl) as (j1 & j2 & E1 & E2 & Hle). cbn [fst snd] in *.
           injection E1 as <-. injection E2 as <-. destruct (t1 =? t2) eqn:E; [|reflexivity]. apply Nat.leb_le, Hle. lia.
        -- intros i x y H1 H2. exact (H (S i) x y H1 H2).
    + split; [discriminate|]. intros H. destruct (H 0%nat _ _ eq_refl eq_refl) as (j1 & j2 & _ & E2 & _). discriminate.
    + split; [discriminate|]. intros H. destruct (H 0%nat _ _ eq_refl eq_refl) as (j1 & j2 & E1 & _ & _). discriminate.
    + split; [discriminate|]. intros H. destruct (H 0%nat _ _ eq_refl eq_refl) as (j1 & j2 & E1 & _ & _). discriminate.
Qed.

Definition obs_rows (o : obs) : list (row A) := zip_rows (o_times o) (o_amps o) (o_tmpl o) (o_clu o).

Definition C_sorted (ps : list probe) (o : obs) : Prop :=
  StronglySorted Z.le (o_times o) /\
  (forall k p, nth_error ps k = Some p -> sub_rows ps o k = sort_rows (rows_of p)) /\
  TiesByProbe (map (fun r => (r_time r, find_probe 0 ps (o_coffs o) (r_clu r))) (obs_rows o)).
Theorem c_sorted_iff ps o : c_sorted aeqb ps o = true <-> C_sorted ps o.
Proof.
  unfold c_sorted, C_sorted. rewrite !andb_true_iff, sorted_b_iff, ties_by_probe_iff, forallb_indexed.
  cbn [fst snd]. split.
  - intros ((H1 & H2) & H3). split; [exact H1|]. split; [|exact H3].
    intros k p Hk. apply (list_eqb_iff _ row_eqb_iff). now apply H2.
  - intros (H1 & H2 & H3). split; [split; [exact H1|]|exact H3].
    intros k p Hk. apply (list_eqb_iff _ row_eqb_iff). now apply H2.
Qed.

(* ---- clause 23 ---- *)
Definition C_payload (ps : list probe) (o : obs) : Prop :=
  LensOk o /\
  o_coffs o = map (coff_spec ps) (seq 0 (length ps)) /\ o_toffs o = map (toff_spec ps) (seq 0 (length ps)) /\
  length (o_times o) = length (concat (map (@rows_of A V F) ps)) /\
  forall k p, nth_error ps k = Some p -> Permutation (sub_rows ps o k) (rows_of p).
Theorem c_payload_iff ps o : c_payload aeqb ps o = true <-> C_payload ps o.
Proof.
  unfold c_payload, C_payload. rewrite !andb_true_iff, lens_ok_iff, !Nat.eqb_eq, !(list_eqb_iff Z.eqb Z.eqb_eq), forallb_indexed.
  cbn [fst snd]. split.
  - intros ((((((H0 & _) & _) & H1) & H2) & H3) & H4). repeat split; try assumption; try apply H0.
    intros k p Hk. apply (perm_b_iff _ row_eqb_iff). now apply H4.
  - intros (H0 & H1 & H2 & H3 & H4). repeat split; try assumption; try apply H0.
    + rewrite H1, map_length, seq_length. reflexivity.
    + rewrite H2, map_length, seq_length. reflexivity.
    + intros k p Hk. apply (perm_b_iff _ row_eqb_iff). now apply H4.
Qed.

(* ---- clause 24 ---- *)
Definition C_disjoint (ps : list probe) (o : obs) : Prop :=
  length (o_coffs o) = length ps /\ length (o_toffs o) = length ps /\
  forall j k pj pk, (j < k)%nat -> nth_error ps j = Some pj -> nth_error ps k = Some pk ->
    (forall cj ck, nth_error (o_coffs o) j = Some cj -> nth_error (o_coffs o) k = Some ck ->
                   cj + n_ids (clu_ids pj) <= ck \/ ck + n_ids (clu_ids pk) <= cj) /\
    (forall tj tk, nth_error (o_toffs o) j = Some tj -> nth_error (o_toffs o) k = Some tk ->
                   tj + p_ntmpl pj <= tk \/ tk + p_ntmpl pk <= tj).
Theorem c_disjoint_iff ps o : c_disjoint ps o = true <-> C_disjoint ps o.
Proof.
  unfold c_disjoint, C_disjoint. rewrite !andb_true_iff, !Nat.eqb_eq, !ivs_disjoint_iff. split.
  - intros (((L1 & L2) & H1) & H2). split; [exact L1|]. split; [exact L2|].
    intros j k pj pk Hlt Hj Hk. split.
    + intros cj ck Cj Ck. apply (H1 j k (cj, n_ids (clu_ids pj)) (ck, n_ids (clu_ids pk)) Hlt);
        apply nth_error_combine; (split; [assumption|]);
        [exact (map_nth_error (fun p : probe => n_ids (clu_ids p)) j ps Hj)|
         exact (map_nth_error (fun p : probe => n_ids (clu_ids p)) k ps Hk)].
    + intros tj tk Tj Tk. apply (H2 j k (tj, p_ntmpl pj) (tk, p_ntmpl pk) Hlt);
        apply nth_error_combine; (split; [assumption|]);
        [exact (map_nth_error (@p_ntmpl A V F) j ps Hj)|exact (map_nth_error (@p_ntmpl A V F) k ps Hk)].
  - intros (L1 & L2 & H). split; [split; [split; assumption|]|].
    + intros i j [a na] [b nb] Hlt Hi Hj. apply nth_error_combine in Hi as [Ci Ni]. apply nth_error_combine in Hj as [Cj Nj].
      apply nth_error_map_inv in Ni as (pi & Pi & <-). apply nth_error_map_inv in Nj as (pj & Pj & <-).
      cbn [fst snd]. exact (proj1 (H i j pi pj Hlt Pi Pj) a b Ci Cj).
    + intros i j [a na] [b nb] Hlt Hi Hj. apply nth_error_combine in Hi as [Ci Ni]. apply nth_error_combine in Hj as [Cj Nj].
      apply nth_error_map_inv in Ni as (pi & Pi & <-). apply nth_error_map_inv in Nj as (pj & Pj & <-).
      cbn [fst snd]. exact (proj2 (H i j pi pj Hlt Pi Pj) a b Ci Cj).
Qed.
End Clauses.

(* ---------------------------------------------------------------------------------------------
   clause 25 (cluster_probes), find_probe, clause 26 (metadata), clause 30 (dtype widths)
   --------------------------------------------------------------------------------------------- *)
Section Clauses2.
Context {A V F : Type}.
Notation probe := (probe A V F).
Notation obs := (obs A V F).
Notation metatab := (metatab V F).
Variable veqb : V -> V -> bool.
Variable feqb : F -> F -> bool.
Hypothesis veqb_iff : forall a b, veqb a b = true <-> a = b.
Hypothesis feqb_iff : forall a b, feqb a b = true <-> a = b.

(* the id interval registered for probe number j *)
Definition in_iv (ps : list probe) (offs : list Z) (j : nat) (c : Z) : Prop :=
  exists p o, nth_error ps j = Some p /\ nth_error offs j = Some o /\ o <= c < o + n_ids (clu_ids p).

(* find_probe returns the FIRST probe whose registered interval contains c (the only one when clause 24 holds) *)
Lemma find_probe_iff (ps : list probe) : forall offs k0 c k,
  find_probe k0 ps offs c = Some k <->
  (k0 <= k)%nat /\ in_iv ps offs (k - k0) c /\ forall j, (j < k - k0)%nat -> ~ in_iv ps offs j c.
Proof.
  induction ps as [|p ps IH]; intros offs k0 c k.
  - cbn [find_probe]. split; [discriminate|]. intros (_ & (q & o & H & _) & _). destruct (k - k0)%nat; discriminate.
  - destruct offs as [|o offs]; cbn [find_probe].
    + split; [discriminate|]. intros (_ & (q & o & _ & H & _) & _). destruct (k - k0)%nat; discriminate.
    + destruct ((o <=? c) && (c <? o + n_ids (clu_ids p))) eqn:E.
      * split.
        -- intros H; injection H as <-. rewrite Nat.sub_diag. split; [lia|]. split; [|intros j Hj; lia].
           exists p, o. cbn [nth_error]. repeat split; lia.
        -- intros (Hk & _ & Hn). destruct (Nat.eq_dec k k0) as [->|Ne]; [reflexivity|exfalso].
           apply (Hn 0%nat); [lia|]. exists p, o. cbn [nth_error]. repeat split; lia.
      * rewrite IH. split.
        -- intros (Hk & (q & oq & Hq & Ho & Hc) & Hn). split; [lia|].
           replace (k - k0)%nat with (S (k - S k0)) by lia. split.
           ++ exists q, oq. cbn [nth_error]. auto.
           ++ intros [|j] Hj (q' & o' & Hq' & Ho' & Hc'); cbn [nth_error] in Hq', Ho'.
              ** injection Hq' as <-. injection Ho' as <-. lia.
              ** apply (Hn j); [lia|]. exists q', o'. auto.
        -- intros (Hk & (q & oq & Hq & Ho & Hc) & Hn). destruct (Nat.eq_dec k k0) as [->|Ne].
           ++ rewrite Nat.sub_diag in Hq, Ho. cbn [nth_error] in Hq, Ho. injection Hq as <-. injection Ho as <-. lia.
           ++ replace (k - k0)%nat with (S (k - S k0)) in * by lia. cbn [nth_error] in Hq, Ho. split; [lia|]. split.
              ** exists q, oq. auto.
              ** intros j Hj (q' & o' & Hq' & Ho' & Hc'). apply (Hn (S j)); [lia|]. exists q', o'. cbn [nth_error]. auto.
Qed.

Lemma cp_entries_ok_iff (fp : Z -> option nat) l : forall i0,
  cp_entries_ok fp i0 l = true <->
  forall j k', nth_error l j = Some k' -> exists k, fp (i0 + Z.of_nat j) = Some k /\ k' = Z.of_nat k.
Proof.
  induction l as [|x l IH]; intros i0; cbn [cp_entries_ok].
  - split; [intros _ j k' H; destruct j; discriminate|reflexivity].
  - rewrite andb_true_iff, IH. split.
    + intros [H0 H] [|j] k' Hj; cbn [nth_error] in Hj.
      * injection Hj as <-. rewrite Z.add_0_r. destruct (fp i0) as [k|]; [|discriminate]. exists k. split; [reflexivity|lia].
      * destruct (H j k' Hj) as (k & Hk & E). exists k. split; [|exact E]. rewrite <- Hk. f_equal. lia.
    + intros H. split.
      * destruct (H 0%nat x eq_refl) as (k & Hk & E). rewrite Z.add_0_r in Hk. rewrite Hk. lia.
      * intros j k' Hj. destruct (H (S j) k' Hj) as (k & Hk & E). exists k. split; [|exact E]. rewrite <- Hk. f_equal. lia.
Qed.

(* clause 25: every cluster id named by probe k (by a spike or by a metadata row), shifted by the registered offset,
   indexes an entry k of cluster_probes; and every entry i of cluster_probes is the probe whose registered id interval
   contains i *)
Definition C_cprobes (ps : list probe) (o : obs) : Prop :=
  (forall k p off c, nth_error ps k = Some p -> nth_error (o_coffs o) k = Some off -> In c (clu_ids p) ->
                     0 <= c + off /\ nth_error (o_cprobes o) (Z.to_nat (c + off)) = Some (Z.of_nat k)) /\
  (forall i k', nth_error (o_cprobes o) i = Some k' ->
                exists k, find_probe 0 ps (o_coffs o) (Z.of_nat i) = Some k /\ k' = Z.of_nat k).
Theorem c_cprobes_iff ps o : c_cprobes ps o = true <-> C_cprobes ps o.
Proof.
  unfold c_cprobes, C_cprobes. rewrite andb_true_iff, cp_entries_ok_iff, forallb_nth.
  assert (G : forall P Q R : Prop, (P <-> Q) -> (P /\ R <-> Q /\ R)) by tauto. apply G. clear G. split.
  - intros H k p off c Hk Ho Hc.
    specialize (H k ((k, p), off)). cbn [fst snd] in H.
    assert (Hi : nth_error (combine (combine (seq 0 (length ps)) ps) (o_coffs o)) k = Some (k, p, off)).
    { apply nth_error_combine. split; [|exact Ho]. apply nth_error_seq_combine. split; [reflexivity|exact Hk]. }
    specialize (H Hi). rewrite forallb_forall in H. specialize (H c Hc).
    destruct (nth_error (o_cprobes o) (Z.to_nat (c + off))) as [k'|]; [|discriminate].
    apply andb_true_iff in H as [H1 H2]. split; [lia|]. f_equal. lia.
  - intros H i [[k p] off] Hi. cbn [fst snd]. apply nth_error_combine in Hi as [Hi Ho].
    apply nth_error_seq_combine in Hi as [-> Hk]. cbn [Nat.add]. apply forallb_forall. intros c Hc.
    destruct (H i p off c Hk Ho Hc) as [H1 ->]. apply andb_true_iff. split; lia.
Qed.

(* ---- clause 26 ---- *)
(* probe files that exist for the TSV name number f, with the offset registered for their probe *)
Definition Present (f : nat) (ps : list probe) (coffs : list Z) (mt : metatab) (off : Z) : Prop :=
  exists k p, nth_error ps k = Some p /\ nth_error coffs k = Some off /\ meta_of f p = Some mt.

Definition present_list (f : nat) (ps : list probe) (coffs : list Z) : list (metatab * Z) :=
  flat_map (fun po => match meta_of f (fst po) with Some mt => [(mt, snd po)] | None => [] end) (combine ps coffs).
Lemma present_list_iff f ps coffs mt off : In (mt, off) (present_list f ps coffs) <-> Present f ps coffs mt off.
Proof.
  unfold present_list, Present. rewrite in_flat_map. split.
  - intros ([p o] & Hin & H). cbn [fst snd] in H. apply In_nth_error in Hin as (k & Hk).
    apply nth_error_combine in Hk as [Hp Ho]. destruct (meta_of f p) as [mt'|] eqn:E; [|contradiction].
    destruct H as [H|[]]. injection H as -> ->. exists k, p. auto.
  - intros (k & p & Hp & Ho & Hm). exists (p, off). split.
    + eapply nth_error_In. apply nth_error_combine. split; eassumption.
    + cbn [fst snd]. rewrite Hm. now left.
Qed.

Definition MetaClause (f : nat) (ps : list probe) (coffs : list Z) (out : option metatab) : Prop :=
  let rows := match out with Some mt => mt_rows mt | None => [] end in
  StronglySorted Z.lt (map fst rows) /\
  (forall mt off kv, Present f ps coffs mt off -> In kv (mt_rows mt) ->
     exists v, dict_get rows (fst kv + off) = Some v /\ find_last (mt_rows mt) (fst kv) = Some v) /\
  (forall cv, In cv rows -> exists mt off, Present f ps coffs mt off /\ find_last (mt_rows mt) (fst cv - off) = Some (snd cv)) /\
  match out with
  | Some mt => mt_rows mt <> [] /\ exists mt' off, Present f ps coffs mt' off /\ mt_field mt = mt_field mt'
  | None => forall mt off, Present f ps coffs mt off -> mt_rows mt = []
  end.

Theorem meta_clause_iff f ps coffs out : meta_clause veqb feqb f ps coffs out = true <-> MetaClause f ps coffs out.
Proof.
  unfold meta_clause, MetaClause. fold (present_list f ps coffs).
  set (rows := match out with Some mt => mt_rows mt | None => [] end).
  rewrite !andb_true_iff, strict_b_iff, !forallb_forall.
  assert (G : forall P1 P2 P3 P4 Q2 Q3 Q4 : Prop, (P2 <-> Q2) -> (P3 <-> Q3) -> (P4 <-> Q4) ->
              (((P1 /\ P2) /\ P3) /\ P4 <-> P1 /\ Q2 /\ Q3 /\ Q4)) by tauto.
  apply G; clear G.
  - split.
    + intros H mt off kv HP Hkv. apply present_list_iff in HP. specialize (H (mt, off) HP). cbn [fst snd] in H.
      rewrite forallb_forall in H. specialize (H kv Hkv).
      destruct (dict_get rows (fst kv + off)) as [v|]; [|discriminate].
      destruct (find_last (mt_rows mt) (fst kv)) as [v'|]; [|discriminate]. apply veqb_iff in H as ->. eauto.
    + intros H [mt off] HP. apply present_list_iff in HP. cbn [fst snd]. apply forallb_forall. intros kv Hkv.
      destruct (H mt off kv HP Hkv) as (v & -> & ->). now apply veqb_iff.
  - split.
    + intros H cv Hcv. specialize (H cv Hcv). apply existsb_exists in H as ([mt off] & HP & H). cbn [fst snd] in H.
      apply present_list_iff in HP. exists mt, off. split; [exact HP|].
      destruct (find_last (mt_rows mt) (fst cv - off)) as [v'|]; [|discriminate]. apply veqb_iff in H as ->. reflexivity.
    + intros H cv Hcv. destruct (H cv Hcv) as (mt & off & HP & E). apply existsb_exists. exists (mt, off).
      split; [now apply present_list_iff|]. cbn [fst snd]. rewrite E. now apply veqb_iff.
  - destruct out as [mt|].
    + rewrite andb_true_iff. unfold rows.
      assert (G : forall P1 P2 Q1 Q2 : Prop, (P1 <-> Q1) -> (P2 <-> Q2) -> (P1 /\ P2 <-> Q1 /\ Q2)) by tauto. apply G; clear G.
      * destruct (mt_rows mt); split; try discriminate; try reflexivity. intros H; now contradiction H.
      * rewrite existsb_exists. split.
        -- intros ([mt' off] & HP & H). cbn [fst] in H. apply feqb_iff in H. apply present_list_iff in HP. eauto.
        -- intros (mt' & off & HP & H). exists (mt', off). split; [now apply present_list_iff|]. cbn [fst]. now apply feqb_iff.
    + rewrite forallb_forall. split.
      * intros H mt off HP. apply present_list_iff in HP. specialize (H (mt, off) HP). cbn [fst] in H.
        destruct (mt_rows mt); [reflexivity|discriminate].
      * intros H [mt off] HP. apply present_list_iff in HP. cbn [fst]. rewrite (H mt off HP). reflexivity.
Qed.

Definition C_meta (ps : list probe) (o : obs) : Prop :=
  length (o_meta o) = n_meta_files /\
  forall f, (f < n_meta_files)%nat -> MetaClause f ps (o_coffs o) (nth f (o_meta o) None).
Theorem c_meta_iff ps o : c_meta veqb feqb ps o = true <-> C_meta ps o.
Proof.
  unfold c_meta, C_meta. rewrite andb_true_iff, Nat.eqb_eq, forallb_forall.
  assert (G : forall P Q R : Prop, (Q <-> R) -> (P /\ Q <-> P /\ R)) by tauto. apply G; clear G. split.
  - intros H f Hf. apply meta_clause_iff. apply H. apply in_seq. lia.
  - intros H f Hf. apply in_seq in Hf. apply meta_clause_iff. apply H. lia.
Qed.

(* with the declarative offsets, clause 26 is exactly the statement of C11_metadata (Meta_out = Meta_spec + written iff
   some present file has a row, rows strictly increasing, header of one of the present files) *)
Lemma present_decl f ps mt off :
  Present f ps (map (coff_spec ps) (seq 0 (length ps))) mt off <->
  exists k p, nth_error ps k = Some p /\ off = coff_spec ps k /\ meta_of f p = Some mt.
Proof.
  unfold Present. split; intros (k & p & Hp & Ho & Hm); exists k, p; (split; [exact Hp|]); (split; [|exact Hm]).
  - apply nth_error_map_inv in Ho as (j & Hj & <-). assert (k < length ps)%nat by (apply nth_error_Some; congruence).
    rewrite nth_error_nth' with (d := 0%nat) in Hj by (rewrite seq_length; lia). rewrite seq_nth in Hj by lia.
    injection Hj as <-. reflexivity.
  - subst off. assert (k < length ps)%nat by (apply nth_error_Some; congruence).
    rewrite (map_nth_error (coff_spec ps) k (seq 0 (length ps)) (d := k)); [reflexivity|].
    rewrite nth_error_nth' with (d := 0%nat) by (rewrite seq_length; lia). rewrite seq_nth by lia. reflexivity.
Qed.

Theorem meta_clause_decl f ps out :
  MetaClause f ps (map (coff_spec ps) (seq 0 (length ps))) out <-> Meta_out f ps out.
Proof.
  unfold MetaClause, Meta_out, Meta_spec.
  set (rows := match out with Some mt => mt_rows mt | None => [] end).
  assert (Hget : forall c, match out with Some mt => dict_get (mt_rows mt) c | None => None end = dict_get rows c)
    by (intros c; unfold rows; destruct out; reflexivity).
  split.
  - intros (S & H2 & H3 & H4). split; [split|].
    + intros k p mt id v Hk Hm Hv. rewrite Hget.
      destruct (H2 mt (coff_spec ps k) (id, v)) as (v' & G1 & G2).
      { apply present_decl. exists k, p. auto. } { now apply find_last_in. }
      cbn [fst] in G1, G2. congruence.
    + intros c v Hc. rewrite Hget in Hc. apply dict_get_in in Hc. destruct (H3 (c, v) Hc) as (mt & off & HP & E).
      apply present_decl in HP as (k & p & Hk & -> & Hm). exists k, p, mt. auto.
    + destruct out as [mt|].
      * destruct H4 as (Hne & mt' & off & HP & E). split; [exact Hne|]. split; [exact S|].
        apply present_decl in HP as (k & p & Hk & _ & Hm). exists p, mt'. split; [eapply nth_error_In; exact Hk|auto].
      * intros p mt' Hp Hm. apply In_nth_error in Hp as (k & Hk). apply (H4 mt' (coff_spec ps k)).
        apply present_decl. exists k, p. auto.
  - intros ((M1 & M2) & H4).
    assert (S : StronglySorted Z.lt (map fst rows)).
    { unfold rows. destruct out as [mt|]; [apply H4|constructor]. }
    split; [exact S|]. split; [|split].
    + intros mt off kv HP Hkv. apply present_decl in HP as (k & p & Hk & -> & Hm).
      destruct (find_last_some _ kv Hkv) as (v & Hv). exists v. split; [|exact Hv].
      rewrite <- Hget. exact (M1 k p mt (fst kv) v Hk Hm Hv).
    + intros [c v] Hcv. cbn [fst snd]. pose proof (in_sorted_dict_get rows c v S Hcv) as Hc. rewrite <- Hget in Hc.
      destruct (M2 c v Hc) as (k & p & mt & Hk & Hm & E). exists mt, (coff_spec ps k). split; [|exact E].
      apply present_decl. exists k, p. auto.
    + destruct out as [mt|].
      * destruct H4 as (Hne & _ & p & mt' & Hp & Hm & E). split; [exact Hne|]. apply In_nth_error in Hp as (k & Hk).
        exists mt', (coff_spec ps k). split; [|exact E]. apply present_decl. exists k, p. auto.
      * intros mt off HP. apply present_decl in HP as (k & p & Hk & _ & Hm). apply (H4 p mt); [eapply nth_error_In; exact Hk|exact Hm].
Qed.

(* ---- clause 30 ---- *)
Definition in_dt (d : idt) (v : Z) : Prop := dt_min d <= v <= dt_max d.
Lemma fits_iff d v : fits d v = true <-> in_dt d v.
Proof. unfold fits, in_dt. rewrite andb_true_iff, !Z.leb_le. tauto. Qed.

Definition C_width (ps : list probe) (odts : idt * idt * idt) : Prop :=
  match odts with (otd, ocd, oid) =>
    (forall t, In t (concat (map (@p_times A V F) ps)) -> in_dt otd t) /\
    in_dt ocd 0 /\ in_dt ocd (coff_spec ps (length ps) - 1) /\ in_dt oid 0 /\ in_dt oid (toff_spec ps (length ps) - 1)
  end.
Theorem c_width_iff ps odts : c_width ps odts = true <-> C_width ps odts.
Proof.
  unfold c_width, C_width. destruct odts as [[otd ocd] oid]. rewrite !andb_true_iff, forallb_forall, !fits_iff.
  assert (G : (forall t, In t (concat (map (@p_times A V F) ps)) -> fits otd t = true) <->
              (forall t, In t (concat (map (@p_times A V F) ps)) -> in_dt otd t)).
  { split; intros H t Ht; apply fits_iff; now apply H. }
  rewrite G. tauto.
Qed.
End Clauses2.
