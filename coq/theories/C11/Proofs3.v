(* C11/Proofs3.v -- soundness of the boolean checkers used by Corr.v on observed outputs *)
From Coq Require Import ZArith List Bool Sorted Permutation Lia Arith.
From PV Require Import Base.NpSort Base.NpSearch C11.Model C11.Spec.
Import ListNotations.
Open Scope Z_scope.

Lemma sorted_b_sound l : sorted_b l = true -> StronglySorted Z.le l.
Proof.
  induction l as [|x l IH]; intros H; [constructor|]. destruct l as [|y r]; [repeat constructor|].
  cbn [sorted_b] in H. apply andb_true_iff in H as [H1 H2]. specialize (IH H2).
  constructor; [exact IH|]. pose proof IH as IH'. apply StronglySorted_inv in IH' as [_ Hy]. constructor; [lia|].
  eapply Forall_impl; [|exact Hy]. cbn. intros; lia.
Qed.

Lemma strict_b_sound l : strict_b l = true -> StronglySorted Z.lt l.
Proof.
  induction l as [|x l IH]; intros H; [constructor|]. destruct l as [|y r]; [repeat constructor|].
  cbn [strict_b] in H. apply andb_true_iff in H as [H1 H2]. specialize (IH H2).
  constructor; [exact IH|]. pose proof IH as IH'. apply StronglySorted_inv in IH' as [_ Hy]. constructor; [lia|].
  eapply Forall_impl; [|exact Hy]. cbn. intros; lia.
Qed.

Section Perm.
Context {X : Type}.
Variable eqb : X -> X -> bool.
Hypothesis eqb_sound : forall a b, eqb a b = true -> a = b.

Lemma remove_first_perm x l l' : remove_first eqb x l = Some l' -> Permutation l (x :: l').
Proof.
  revert l'; induction l as [|y r IH]; intros l' H; cbn [remove_first] in H; [discriminate|].
  destruct (eqb x y) eqn:E.
  - injection H as <-. apply eqb_sound in E. subst. reflexivity.
  - destruct (remove_first eqb x r) as [r'|]; [|discriminate]. injection H as <-.
    rewrite (IH r' eq_refl). apply perm_swap.
Qed.

Lemma perm_b_sound a b : perm_b eqb a b = true -> Permutation a b.
Proof.
  revert b; induction a as [|x a IH]; intros b H; cbn [perm_b] in H.
  - destruct b; [constructor|discriminate].
  - destruct (remove_first eqb x b) as [b'|] eqn:E; [|discriminate].
    rewrite (remove_first_perm _ _ _ E). constructor. now apply IH.
Qed.
End Perm.

Lemma ivs_disjoint_sound l : ivs_disjoint l = true ->
  forall i j a b, (i < j)%nat -> nth_error l i = Some a -> nth_error l j = Some b ->
  fst a + snd a <= fst b \/ fst b + snd b <= fst a.
Proof.
  induction l as [|[a0 n0] r IH]; intros H i j a b Hlt Hi Hj; [destruct i; discriminate|].
  cbn [ivs_disjoint] in H. apply andb_true_iff in H as [H1 H2]. destruct j as [|j]; [lia|]. cbn [nth_error] in Hj.
  destruct i as [|i]; cbn [nth_error] in Hi.
  - injection Hi as <-. rewrite forallb_forall in H1. specialize (H1 b (nth_error_In _ _ Hj)).
    cbn [fst snd]. apply orb_true_iff in H1. lia.
  - apply (IH H2 i j); [lia|assumption|assumption].
Qed.

Section Clauses.
Context {A V F : Type}.
Notation probe := (probe A V F).
Notation obs := (obs A V F).

(* clause 21 certifies: the observed merged times are a permutation of all input times *)
Theorem c_perm_sound (ps : list probe) (o : obs) : c_perm ps o = true ->
  Permutation (o_times o) (concat (map (@p_times A V F) ps)) /\
  length (o_amps o) = length (o_times o) /\ length (o_tmpl o) = length (o_times o) /\
  length (o_clu o) = length (o_times o).
Proof.
  unfold c_perm, lens_ok. rewrite !andb_true_iff, !Nat.eqb_eq. intros (((H1 & H2) & H3) & H4).
  split; [|repeat split; assumption]. apply (perm_b_sound Z.eqb); [|exact H4]. intros a b. apply Z.eqb_eq.
Qed.

(* clause 24 certifies: with the registered offsets, the cluster id intervals [off_k, off_k + n_k) of two different
   probes do not meet, and neither do the template id intervals [toff_k, toff_k + number of templates of probe k) *)
Theorem c_disjoint_sound (ps : list probe) (o : obs) : c_disjoint ps o = true ->
  forall j k pj pk cj ck tj tk, (j < k)%nat -> nth_error ps j = Some pj -> nth_error ps k = Some pk ->
  nth_error (o_coffs o) j = Some cj -> nth_error (o_coffs o) k = Some ck ->
  nth_error (o_toffs o) j = Some tj -> nth_error (o_toffs o) k = Some tk ->
  (cj + n_ids (clu_ids pj) <= ck \/ ck + n_ids (clu_ids pk) <= cj) /\
  (tj + p_ntmpl pj <= tk \/ tk + p_ntmpl pk <= tj).
Proof.
  unfold c_disjoint. rewrite !andb_true_iff. intros (((_ & _) & H1) & H2) j k pj pk cj ck tj tk Hlt Hj Hk Cj Ck Tj Tk.
  assert (N : forall (X Y : Type) (l1 : list X) (l2 : list Y) i x y, nth_error l1 i = Some x -> nth_error l2 i = Some y ->
              nth_error (combine l1 l2) i = Some (x, y)).
  { induction l1 as [|a l1 IH]; intros l2 i x y Hx Hy; [destruct i; discriminate|].
    destruct l2 as [|b l2]; [destruct i; discriminate|]. destruct i as [|i]; cbn [nth_error combine] in *.
    - congruence. - now apply IH. }
  split.
  - apply (ivs_disjoint_sound _ H1 j k (cj, n_ids (clu_ids pj)) (ck, n_ids (clu_ids pk)) Hlt);
      apply N; try assumption; [exact (map_nth_error (fun p : probe => n_ids (clu_ids p)) j ps Hj)|
                                exact (map_nth_error (fun p : probe => n_ids (clu_ids p)) k ps Hk)].
  - apply (ivs_disjoint_sound _ H2 j k (tj, p_ntmpl pj) (tk, p_ntmpl pk) Hlt);
      apply N; try assumption; [exact (map_nth_error (@p_ntmpl A V F) j ps Hj)|
                                exact (map_nth_error (@p_ntmpl A V F) k ps Hk)].
Qed.

Lemma in_combine_seq {X} (l : list X) : forall a k x, nth_error l k = Some x -> In ((a + k)%nat, x) (combine (seq a (length l)) l).
Proof.
  induction l as [|y l IH]; intros a k x H; [destruct k; discriminate|]. cbn [length seq combine].
  destruct k as [|k]; cbn [nth_error] in H.
  - injection H as ->. left. f_equal. lia.
  - right. replace (a + S k)%nat with (S a + k)%nat by lia. now apply IH.
Qed.

Variable aeqb : A -> A -> bool.
Hypothesis aeqb_sound : forall a b, aeqb a b = true -> a = b.

Lemma row_eqb_sound (a b : row A) : row_eqb aeqb a b = true -> a = b.
Proof.
  unfold row_eqb. rewrite !andb_true_iff, !Z.eqb_eq. intros (((H1 & H2) & H3) & H4). apply aeqb_sound in H2.
  destruct a, b; cbn in *. congruence.
Qed.

Lemma list_eqb_sound {X} (eqb : X -> X -> bool) : (forall a b, eqb a b = true -> a = b) ->
  forall l1 l2, list_eqb eqb l1 l2 = true -> l1 = l2.
Proof.
  intros Hs. induction l1 as [|x l1 IH]; intros [|y l2] H; cbn [list_eqb] in H; try discriminate; [reflexivity|].
  apply andb_true_iff in H as [H1 H2]. f_equal; [now apply Hs|now apply IH].
Qed.

(* clause 23 certifies: the registered offsets are the declarative ones (clusters: sums of largest id + 1; templates:
   sums of the template counts); the merged rows attributed to probe k (by the registered offsets), shifted back, are
   a permutation of probe k's own (time, amplitude, template, cluster) rows; and no row is left over *)
Theorem c_payload_sound (ps : list probe) (o : obs) : c_payload aeqb ps o = true ->
  o_coffs o = map (coff_spec ps) (seq 0 (length ps)) /\ o_toffs o = map (toff_spec ps) (seq 0 (length ps)) /\
  length (o_times o) = length (concat (map (@rows_of A V F) ps)) /\
  forall k p, nth_error ps k = Some p -> Permutation (sub_rows ps o k) (rows_of p).
Proof.
  unfold c_payload. rewrite !andb_true_iff, !Nat.eqb_eq. intros ((((((_ & _) & _) & HC) & HT) & HL) & H).
  split; [apply (list_eqb_sound Z.eqb); [intros a b; apply Z.eqb_eq|exact HC]|].
  split; [apply (list_eqb_sound Z.eqb); [intros a b; apply Z.eqb_eq|exact HT]|]. split; [exact HL|].
  intros k p Hk. rewrite forallb_forall in H. specialize (H (k, p) (in_combine_seq ps 0 k p Hk)). cbn [fst snd] in H.
  apply (perm_b_sound (row_eqb aeqb) row_eqb_sound). exact H.
Qed.

(* clause 22 certifies: merged times non-decreasing, and the rows attributed to probe k appear exactly in the order of
   the stable time-sort of probe k's own rows (= its original order when its times are non-decreasing) *)
Theorem c_sorted_sound (ps : list probe) (o : obs) : c_sorted aeqb ps o = true ->
  StronglySorted Z.le (o_times o) /\
  forall k p, nth_error ps k = Some p -> sub_rows ps o k = sort_rows (rows_of p).
Proof.
  unfold c_sorted. rewrite !andb_true_iff. intros ((H1 & H2) & _). split; [now apply sorted_b_sound|].
  intros k p Hk. rewrite forallb_forall in H2. specialize (H2 (k, p) (in_combine_seq ps 0 k p Hk)). cbn [fst snd] in H2.
  apply (list_eqb_sound (row_eqb aeqb) row_eqb_sound). exact H2.
Qed.
End Clauses.
