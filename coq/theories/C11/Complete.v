(* C11/Complete.v -- completeness of the comparator against the proven model: on every well-formed input, the output of
   PV.C11.Model.merge, presented as an observation, satisfies EVERY boolean clause 21-26 (and 30 for merge_dt, in
   Dtype.v).  Together with Clauses.v (each clause = its declarative reading) this closes the loop
   spec_b  <->  declarative statement,  and  model output |= spec_b. *)
From Coq Require Import ZArith List Bool Sorted Permutation Lia Arith.
From PV Require Import Base.NpSort Base.NpSearch C11.Model C11.Spec C11.Proofs C11.Proofs2 C11.Proofs3 C11.Clauses.
Import ListNotations.
Open Scope Z_scope.

Lemma filter_map_comm {X Y} (f : X -> Y) (g : Y -> bool) l : filter g (map f l) = map f (filter (fun x => g (f x)) l).
Proof. induction l as [|x l IH]; cbn [map filter]; [reflexivity|]. destruct (g (f x)); cbn [map]; now rewrite IH. Qed.

Section Complete.
Context {A V F : Type}.
Notation probe := (probe A V F).
Notation merged := (merged A V F).
Notation tagged := (tagged A).
Notation obs := (obs A V F).

(* the model's output as an observation: the returned TemplateModel carries the written arrays, inputs untouched *)
Definition obs_of (m : merged) : obs :=
  mkobs (m_times m) (m_amps m) (m_tmpl m) (m_clu m) (m_cprobes m) (m_coffs m) (m_toffs m) (m_meta m)
        (m_times m, m_amps m, m_tmpl m, m_clu m) (m_meta m) true.

Definition row_of (s : tagged) : row A := mkrow (t_time s) (t_amp s) (t_tmpl s) (t_clu s).
Definition srow (ps : list probe) (s : tagged) : row A :=
  mkrow (t_time s) (t_amp s) (t_tmpl s + toff_spec ps (t_probe s)) (t_clu s + coff_spec ps (t_probe s)).

Lemma zip_rows_map {T} (f1 : T -> Z) (f2 : T -> A) (f3 f4 : T -> Z) (l : list T) :
  zip_rows (map f1 l) (map f2 l) (map f3 l) (map f4 l) = map (fun s => mkrow (f1 s) (f2 s) (f3 s) (f4 s)) l.
Proof. induction l as [|x l IH]; cbn [map zip_rows]; [reflexivity|]. now rewrite IH. Qed.

Lemma tag_spikes_rows k (ts : list Z) : forall i (am : list A) (tm cl : list Z),
  map row_of (tag_spikes k i ts am tm cl) = zip_rows ts am tm cl.
Proof.
  induction ts as [|t ts IH]; intros i [|a am] [|m tm] [|c cl]; cbn [tag_spikes zip_rows map]; try reflexivity.
  rewrite IH. reflexivity.
Qed.
Lemma tag_probe_rows k (p : probe) : map row_of (tag_probe k p) = rows_of p.
Proof. apply tag_spikes_rows. Qed.
Lemma tagged_from_rows (ps : list probe) : forall k, map row_of (tagged_from k ps) = concat (map (@rows_of A V F) ps).
Proof.
  induction ps as [|p r IH]; intros k; cbn [tagged_from map concat]; [reflexivity|].
  rewrite map_app, tag_probe_rows, IH. reflexivity.
Qed.

Lemma nth_seq_map {Y} (g : nat -> Y) n k : (k < n)%nat -> nth_error (map g (seq 0 n)) k = Some (g k).
Proof.
  intros H. rewrite (map_nth_error g k (seq 0 n) (d := k)); [reflexivity|].
  rewrite nth_error_nth' with (d := 0%nat) by (rewrite seq_length; lia). rewrite seq_nth by lia. reflexivity.
Qed.
Lemma nth_seq_map_inv {Y} (g : nat -> Y) n k y : nth_error (map g (seq 0 n)) k = Some y -> (k < n)%nat /\ y = g k.
Proof.
  intros H. assert (L : (k < n)%nat).
  { assert (nth_error (map g (seq 0 n)) k <> None) by congruence. apply nth_error_Some in H0.
    now rewrite map_length, seq_length in H0. }
  split; [exact L|]. rewrite (nth_seq_map g n k L) in H. congruence.
Qed.

(* the stable time-sort of tagged spikes, projected to rows, is the stable time-sort of the rows *)
Lemma insert_rows (x : tagged) (S : list (Z * tagged)) : (forall y, In y S -> fst y = t_time (snd y)) ->
  map row_of (map snd (insert (t_time x, x) S)) = ins_row (row_of x) (map row_of (map snd S)).
Proof.
  induction S as [|y r IH]; intros H; cbn [insert map ins_row]; [reflexivity|].
  cbn [fst]. rewrite (H y (or_introl eq_refl)). change (r_time (row_of x)) with (t_time x).
  change (r_time (row_of (snd y))) with (t_time (snd y)).
  destruct (t_time x <=? t_time (snd y)); cbn [map snd]; [reflexivity|].
  f_equal. apply IH. intros z Hz. apply H. now right.
Qed.
Lemma sorted_tagged_rows (l : list tagged) : map row_of (sorted_tagged l) = sort_rows (map row_of l).
Proof.
  induction l as [|x l IH]; [reflexivity|].
  unfold sorted_tagged. cbn [keyed map isort fold_right sort_rows]. fold (keyed l). fold (isort (keyed l)).
  fold (sort_rows (map row_of l)). rewrite <- IH. apply insert_rows. intros y Hy. apply (keyed_fst l y Hy).
Qed.

Variable ps : list probe.
Hypothesis Hwf : wf ps.
Let R := tagged_concat ps.
Let M := sorted_tagged R.
Let coffs := map (coff_spec ps) (seq 0 (length ps)).
Let toffs := map (toff_spec ps) (seq 0 (length ps)).

Lemma wfF : Forall wf_probe ps. Proof. exact (proj2 Hwf). Qed.

Lemma M_in s : In s M -> exists p, nth_error ps (t_probe s) = Some p /\ In (t_clu s) (p_clu p) /\ In (t_tmpl s) (p_tmpl p).
Proof.
  intros H. apply (Permutation_in _ (sorted_tagged_perm R)) in H.
  destruct (tagged_from_in 0 ps s (wf_all ps wfF) H) as (p & Hp & Hc & Ht & _). rewrite Nat.sub_0_r in Hp. eauto.
Qed.

(* a shifted id of probe k is attributed to probe k by the registered offsets *)
Lemma fp_model k p c : nth_error ps k = Some p -> 0 <= c <= zmaxl (clu_ids p) ->
  find_probe 0 ps coffs (c + coff_spec ps k) = Some k.
Proof.
  intros Hk Hc. apply find_probe_iff. rewrite Nat.sub_0_r. split; [lia|].
  assert (Lk : (k < length ps)%nat) by (apply nth_error_Some; congruence). split.
  - exists p, (coff_spec ps k). split; [exact Hk|]. split; [apply nth_seq_map; exact Lk|]. unfold n_ids. lia.
  - intros j Hj (pj & oj & Hpj & Hoj & Hcj). apply nth_seq_map_inv in Hoj as [_ ->].
    destruct (thm_disjoint ps wfF j k pj p Hj Hpj Hk) as ((_ & D & _) & _). lia.
Qed.

Lemma fp_spike s : In s M -> find_probe 0 ps coffs (t_clu s + coff_spec ps (t_probe s)) = Some (t_probe s).
Proof.
  intros H. destruct (M_in s H) as (p & Hp & Hc & _). apply (fp_model _ p); [exact Hp|].
  pose proof (clu_ids_ge p _ Hc). pose proof wfF as W. rewrite Forall_forall in W.
  destruct (W p (nth_error_In _ _ Hp)) as (_ & _ & _ & _ & Pc & _). specialize (Pc _ Hc). lia.
Qed.

Variable m : merged.
Hypothesis Hm : merge ps = Some m.

Lemma m_fields : Payload ps m M /\ m_coffs m = coffs /\ m_toffs m = toffs /\ m_cprobes m = cp_spec 0 ps /\
  m_meta m = map (fun f => meta_file f ps coffs) (seq 0 n_meta_files).
Proof. destruct (merge_spec ps Hwf) as (m' & Hm' & H). rewrite Hm in Hm'. injection Hm' as <-. exact H. Qed.

Lemma obs_rows_model : obs_rows (obs_of m) = map (srow ps) M.
Proof.
  destruct m_fields as ((E1 & E2 & E3 & E4) & _). unfold obs_rows, obs_of. cbn [o_times o_amps o_tmpl o_clu].
  rewrite E1, E2, E3, E4. apply zip_rows_map.
Qed.

Lemma sub_rows_model k p : nth_error ps k = Some p -> sub_rows ps (obs_of m) k = map row_of (filter (of_probe k) M).
Proof.
  intros Hk. assert (Lk : (k < length ps)%nat) by (apply nth_error_Some; congruence).
  destruct m_fields as (_ & C1 & C2 & _). unfold sub_rows. fold (obs_rows (obs_of m)). rewrite obs_rows_model.
  cbn [obs_of o_coffs o_toffs]. rewrite C1, C2, filter_map_comm, map_map.
  rewrite (filter_ext_in _ (of_probe k)).
  - apply map_ext_in. intros s Hs. apply filter_In in Hs as [_ Hs]. unfold of_probe in Hs. apply Nat.eqb_eq in Hs.
    unfold unshift, srow, row_of. cbn [r_time r_amp r_tmpl r_clu]. rewrite Hs.
    unfold coffs, toffs. rewrite !(nth_error_nth _ _ _ (nth_seq_map _ _ k Lk)). f_equal; lia.
  - intros s Hs. cbn [srow r_clu]. rewrite (fp_spike s Hs). unfold of_probe. apply Nat.eqb_sym.
Qed.

Lemma filter_probe_perm k p : nth_error ps k = Some p -> Permutation (filter (of_probe k) M) (tag_probe k p).
Proof.
  intros Hk. unfold M. rewrite (Perm_filter (of_probe k) _ _ (sorted_tagged_perm R)). unfold R, tagged_concat.
  pose proof (filter_tagged_from ps 0 k p Hk) as G. cbn [Nat.add] in G. rewrite G. reflexivity.
Qed.

Lemma M_sorted : StronglySorted (@lt3 A) M.
Proof. apply sorted_tagged_lt3, tagged_from_sorted. Qed.

(* ---- clause 21 ---- *)
Theorem model_c_perm : c_perm ps (obs_of m) = true.
Proof.
  apply c_perm_iff. destruct m_fields as ((E1 & E2 & E3 & E4) & _). unfold C_perm, LensOk, obs_of.
  cbn [o_times o_amps o_tmpl o_clu]. rewrite E1, E2, E3, E4, !map_length. repeat split.
  destruct (tagged_from_proj 0 ps (wf_all ps wfF)) as (T1 & _). fold (tagged_concat ps) in T1. rewrite <- T1.
  apply Permutation_map, sorted_tagged_perm.
Qed.

(* ---- clause 23 ---- *)
Variable aeqb : A -> A -> bool.
Hypothesis aeqb_iff : forall a b, aeqb a b = true <-> a = b.

Theorem model_c_payload : c_payload aeqb ps (obs_of m) = true.
Proof.
  apply (c_payload_iff aeqb aeqb_iff). destruct m_fields as ((E1 & E2 & E3 & E4) & C1 & C2 & _).
  unfold C_payload, LensOk. split; [|split; [exact C1|split; [exact C2|split]]].
  - unfold obs_of. cbn [o_times o_amps o_tmpl o_clu]. rewrite E1, E2, E3, E4, !map_length. auto.
  - unfold obs_of. cbn [o_times]. rewrite E1, map_length. unfold M. rewrite (Permutation_length (sorted_tagged_perm R)).
    unfold R, tagged_concat. rewrite <- (tagged_from_rows ps 0), map_length. reflexivity.
  - intros k p Hk. rewrite (sub_rows_model k p Hk), <- (tag_probe_rows k p). apply Permutation_map, filter_probe_perm, Hk.
Qed.

(* ---- clause 22 ---- *)
Theorem model_c_sorted : c_sorted aeqb ps (obs_of m) = true.
Proof.
  apply (c_sorted_iff aeqb aeqb_iff). destruct m_fields as ((E1 & _) & C1 & _). unfold C_sorted. split; [|split].
  - unfold obs_of. cbn [o_times]. rewrite E1. apply lt3_times_sorted, M_sorted.
  - intros k p Hk. rewrite (sub_rows_model k p Hk), <- (tag_probe_rows k p), <- sorted_tagged_rows. f_equal.
    apply (SSorted_perm_eq (@lt3 A) (@lt3_asym A)).
    + apply SSorted_filter, M_sorted.
    + apply sorted_tagged_lt3, tag_spikes_sorted.
    + rewrite (filter_probe_perm k p Hk). symmetry. apply sorted_tagged_perm.
  - rewrite obs_rows_model, map_map. cbn [obs_of o_coffs]. rewrite C1.
    intros i a b Ha Hb. apply nth_error_map_inv in Ha as (s1 & H1 & <-). apply nth_error_map_inv in Hb as (s2 & H2 & <-).
    cbn [srow r_time r_clu fst snd]. rewrite (fp_spike s1 (nth_error_In _ _ H1)), (fp_spike s2 (nth_error_In _ _ H2)).
    exists (t_probe s1), (t_probe s2). split; [reflexivity|]. split; [reflexivity|].
    pose proof (SSorted_nth _ _ M_sorted i (S i) s1 s2 ltac:(lia) H1 H2) as L. unfold lt3, taglt in L. lia.
Qed.

(* ---- clause 24 ---- *)
Theorem model_c_disjoint : c_disjoint ps (obs_of m) = true.
Proof.
  apply c_disjoint_iff. destruct m_fields as (_ & C1 & C2 & _). unfold C_disjoint, obs_of. cbn [o_coffs o_toffs].
  rewrite C1, C2. unfold coffs, toffs. rewrite !map_length, !seq_length. split; [reflexivity|]. split; [reflexivity|].
  intros j k pj pk Hlt Hj Hk. destruct (thm_disjoint ps wfF j k pj pk Hlt Hj Hk) as ((_ & D & _) & (_ & E & _)). split.
  - intros cj ck Cj Ck. apply nth_seq_map_inv in Cj as [_ ->]. apply nth_seq_map_inv in Ck as [_ ->]. left. exact D.
  - intros tj tk Tj Tk. apply nth_seq_map_inv in Tj as [_ ->]. apply nth_seq_map_inv in Tk as [_ ->]. left. exact E.
Qed.

(* ---- clauses 25, 26: ids listed in the metadata files are cluster ids, not negative ---- *)
Hypothesis Hnn : forall f, (f < n_meta_files)%nat -> meta_nonneg f ps.

Lemma clu_ids_nonneg p c : In p ps -> In c (clu_ids p) -> 0 <= c.
Proof.
  intros Hp Hc. unfold clu_ids in Hc. apply in_app_iff in Hc as [Hc|Hc].
  - pose proof wfF as W. rewrite Forall_forall in W. destruct (W p Hp) as (_ & _ & _ & _ & Pc & _). now apply Pc.
  - unfold meta_ids in Hc. apply in_flat_map in Hc as (f & Hf & Hc). apply in_seq in Hf.
    destruct (nth f (p_meta p) None) as [mt|] eqn:E; [|contradiction]. apply in_map_iff in Hc as (kv & <- & Hkv).
    apply (Hnn f ltac:(lia) p mt kv Hp E Hkv).
Qed.

Theorem model_c_cprobes : c_cprobes ps (obs_of m) = true.
Proof.
  apply c_cprobes_iff. destruct m_fields as (_ & C1 & _ & _ & _).
  destruct (thm_cluster_probes ps Hwf) as (m' & Hm' & _ & P1 & P2). rewrite Hm in Hm'. injection Hm' as <-.
  unfold C_cprobes, obs_of. cbn [o_coffs o_cprobes]. rewrite C1. split.
  - intros k p off c Hk Ho Hc. apply nth_seq_map_inv in Ho as [_ ->].
    pose proof (clu_ids_nonneg p c (nth_error_In _ _ Hk) Hc) as H0. pose proof (zmaxl_ge _ _ Hc) as H1.
    assert (0 <= coff_spec ps k).
    { rewrite coff_goff. pose proof (goff_mono (@clu_ids A V F) ps 0 k (Nat.le_0_l _)) as G. rewrite goff_0 in G. exact G. }
    split; [lia|]. apply (P1 k p c Hk). lia.
  - intros i k' Hi. destruct (P2 i k' Hi) as (k & p & -> & Hk & Hr). exists k. split; [|reflexivity].
    replace (Z.of_nat i) with ((Z.of_nat i - coff_spec ps k) + coff_spec ps k) by lia. apply (fp_model k p); [exact Hk|exact Hr].
Qed.

Variable veqb : V -> V -> bool.
Variable feqb : F -> F -> bool.
Hypothesis veqb_iff : forall a b, veqb a b = true <-> a = b.
Hypothesis feqb_iff : forall a b, feqb a b = true <-> a = b.

Theorem model_c_meta : c_meta veqb feqb ps (obs_of m) = true.
Proof.
  apply (c_meta_iff veqb feqb veqb_iff feqb_iff). destruct m_fields as (_ & C1 & _).
  destruct (thm_metadata_merge ps Hwf) as (m' & Hm' & L & HM). rewrite Hm in Hm'. injection Hm' as <-.
  unfold C_meta, obs_of. cbn [o_meta o_coffs]. split; [exact L|]. intros f Hf. rewrite C1. unfold coffs.
  apply meta_clause_decl. apply HM; [exact Hf|apply Hnn, Hf].
Qed.
End Complete.
