(* C11/Spec.v -- the property, declaratively (independent of argsort / running offsets / dictionaries),
   and boolean checkers that judge an OBSERVED merge against the INPUT probes only. *)
From Coq Require Import ZArith List Bool Sorted Permutation Lia.
From PV Require Import Base.NpSearch C11.Model.
Import ListNotations.
Open Scope Z_scope.

Section Spec.
Context {A V F : Type}.
Notation probe := (probe A V F).
Notation merged := (merged A V F).
Notation metatab := (metatab V F).

(* ---- the input spikes, each tagged with where it comes from ---- *)
Record tagged := mktag { t_probe : nat; t_idx : nat; t_time : Z; t_amp : A; t_tmpl : Z; t_clu : Z }.

Fixpoint tag_spikes (k i : nat) (ts : list Z) (am : list A) (tm cl : list Z) : list tagged :=
  match ts, am, tm, cl with
  | t :: ts', a :: am', m :: tm', c :: cl' => mktag k i t a m c :: tag_spikes k (S i) ts' am' tm' cl'
  | _, _, _, _ => []
  end.
Definition tag_probe (k : nat) (p : probe) : list tagged :=
  tag_spikes k 0 (p_times p) (p_amps p) (p_tmpl p) (p_clu p).
Fixpoint tagged_from (k : nat) (ps : list probe) : list tagged :=
  match ps with [] => [] | p :: r => tag_probe k p ++ tagged_from (S k) r end.
(* every spike of every probe, probe after probe, in file order *)
Definition tagged_concat (ps : list probe) : list tagged := tagged_from 0 ps.

(* well-formed input: the four per-spike arrays of a probe have the same length, every probe has a spike, ids >= 0,
   and every spike names one of the probe's templates: template id < number of rows of the probe's templates.npy
   (that is, p_ntmpl >= max spike template + 1; templates without spikes -- trailing or not -- are allowed) *)
Definition wf_probe (p : probe) : Prop :=
  length (p_amps p) = length (p_times p) /\ length (p_tmpl p) = length (p_times p) /\
  length (p_clu p) = length (p_times p) /\ p_times p <> [] /\
  (forall c, In c (p_clu p) -> 0 <= c) /\ (forall c, In c (p_tmpl p) -> 0 <= c) /\
  (forall c, In c (p_tmpl p) -> c < p_ntmpl p).
Definition wf (ps : list probe) : Prop := ps <> [] /\ Forall wf_probe ps.

(* ---- declarative offsets ----
   clusters: number of ids of a probe = largest cluster id + 1, over the ids carried by its spikes AND the ids listed in
   its cluster_*.tsv files (a cluster without spikes that has a metadata row is a cluster of the probe; cluster ids have
   no per-probe array to count);
   templates: number of templates of a probe = number of rows of its templates.npy (p_ntmpl) -- the SAME count by which
   write_templates / write_template_data (C12) advance the rows of the merged templates.npy;
   offset of probe k = sum over the earlier probes *)
Definition zmaxl (l : list Z) : Z := fold_right Z.max 0 l.      (* the largest element of a non-empty list of ids >= 0 *)
Definition n_ids (l : list Z) : Z := zmaxl l + 1.
Definition clu_ids (p : probe) : list Z := p_clu p ++ meta_ids p.     (* every cluster id the probe directory names *)
Definition coff_spec (ps : list probe) (k : nat) : Z := zsum (map (fun p => n_ids (clu_ids p)) (firstn k ps)).
Definition toff_spec (ps : list probe) (k : nat) : Z := zsum (map (@p_ntmpl A V F) (firstn k ps)).

(* ---- order: strictly increasing in (time, probe, index within the probe) ---- *)
Definition taglt (a b : tagged) : Prop :=
  (t_probe a < t_probe b)%nat \/ (t_probe a = t_probe b /\ (t_idx a < t_idx b)%nat).
Definition lt3 (a b : tagged) : Prop := t_time a < t_time b \/ (t_time a = t_time b /\ taglt a b).

(* ---- the merged arrays carry, position by position, the data of the provenance list M ---- *)
Definition Payload (ps : list probe) (m : merged) (M : list tagged) : Prop :=
  m_times m = map t_time M /\ m_amps m = map t_amp M /\
  m_clu m = map (fun s => t_clu s + coff_spec ps (t_probe s)) M /\
  m_tmpl m = map (fun s => t_tmpl s + toff_spec ps (t_probe s)) M.

(* id intervals of different probes do not meet *)
Definition Disjoint_ids (ids : probe -> list Z) (off : nat -> Z) (ps : list probe) : Prop :=
  forall j k pj pk, (j < k)%nat -> nth_error ps j = Some pj -> nth_error ps k = Some pk ->
    off j + zmaxl (ids pj) < off k /\
    (forall c, In c (ids pj) -> off j <= c + off j <= off j + zmaxl (ids pj)) /\
    (forall c, In c (ids pk) -> off k <= c + off k <= off k + zmaxl (ids pk)).

(* last row for an id wins (dictionary read) *)
Fixpoint find_last (rows : list (Z * V)) (k : Z) : option V :=
  match rows with
  | [] => None
  | (k0, v0) :: r => match find_last r k with Some v => Some v | None => if k =? k0 then Some v0 else None end
  end.

Definition meta_of (f : nat) (p : probe) : option metatab := nth f (p_meta p) None.

(* metadata ids of every probe lie among the probe's SPIKE cluster id range 0 .. max (no longer needed by C11_metadata:
   the cluster count of a probe covers the metadata ids; kept for C11_metadata_needs_range) *)
Definition meta_in_range (f : nat) (ps : list probe) : Prop :=
  forall p mt kv, In p ps -> meta_of f p = Some mt -> In kv (mt_rows mt) -> 0 <= fst kv <= zmaxl (p_clu p).
(* metadata ids are cluster ids: not negative *)
Definition meta_nonneg (f : nat) (ps : list probe) : Prop :=
  forall p mt kv, In p ps -> meta_of f p = Some mt -> In kv (mt_rows mt) -> 0 <= fst kv.

(* merged table: id + offset(probe) |-> value, exactly for the rows of the probes that have the file *)
Definition Meta_spec (f : nat) (ps : list probe) (out : option metatab) : Prop :=
  let get c := match out with Some mt => dict_get (mt_rows mt) c | None => None end in
  (forall k p mt id v, nth_error ps k = Some p -> meta_of f p = Some mt -> find_last (mt_rows mt) id = Some v ->
                       get (id + coff_spec ps k) = Some v) /\
  (forall c v, get c = Some v ->
     exists k p mt, nth_error ps k = Some p /\ meta_of f p = Some mt /\ find_last (mt_rows mt) (c - coff_spec ps k) = Some v).

(* ================= boolean checkers on observations ================= *)
Variable aeqb : A -> A -> bool.
Variable veqb : V -> V -> bool.
Variable feqb : F -> F -> bool.

Record row := mkrow { r_time : Z; r_amp : A; r_tmpl : Z; r_clu : Z }.
Definition row_eqb (a b : row) : bool :=
  (r_time a =? r_time b) && aeqb (r_amp a) (r_amp b) && (r_tmpl a =? r_tmpl b) && (r_clu a =? r_clu b).

Fixpoint zip_rows (ts : list Z) (am : list A) (tm cl : list Z) : list row :=
  match ts, am, tm, cl with
  | t :: ts', a :: am', m :: tm', c :: cl' => mkrow t a m c :: zip_rows ts' am' tm' cl'
  | _, _, _, _ => []
  end.
Definition rows_of (p : probe) : list row := zip_rows (p_times p) (p_amps p) (p_tmpl p) (p_clu p).

Fixpoint remove_first {X} (eqb : X -> X -> bool) (x : X) (l : list X) : option (list X) :=
  match l with
  | [] => None
  | y :: r => if eqb x y then Some r else option_map (cons y) (remove_first eqb x r)
  end.
Fixpoint perm_b {X} (eqb : X -> X -> bool) (a b : list X) : bool :=
  match a with
  | [] => match b with [] => true | _ => false end
  | x :: a' => match remove_first eqb x b with Some b' => perm_b eqb a' b' | None => false end
  end.
Fixpoint list_eqb {X} (eqb : X -> X -> bool) (a b : list X) : bool :=
  match a, b with
  | [], [] => true
  | x :: a', y :: b' => eqb x y && list_eqb eqb a' b'
  | _, _ => false
  end.
Fixpoint sorted_b (l : list Z) : bool :=
  match l with x :: ((y :: _) as r) => (x <=? y) && sorted_b r | _ => true end.
Fixpoint strict_b (l : list Z) : bool :=
  match l with x :: ((y :: _) as r) => (x <? y) && strict_b r | _ => true end.

(* what is observed of one merge *)
Record obs := mkobs {
  o_times : list Z; o_amps : list A; o_tmpl : list Z; o_clu : list Z;     (* the four written per-spike files *)
  o_cprobes : list Z; o_coffs : list Z; o_toffs : list Z;
  o_meta : list (option metatab);                                          (* written TSV files (raw rows) *)
  o_ret : list Z * list A * list Z * list Z;                               (* arrays of the returned TemplateModel *)
  o_ret_meta : list (option metatab);                                      (* its metadata dictionaries *)
  o_unchanged : bool                                                       (* input directories byte-identical *)
}.

(* probe of a merged cluster id: the one whose interval [off_k, off_k + n_ids_k) contains it *)
Fixpoint find_probe (k : nat) (ps : list probe) (offs : list Z) (c : Z) : option nat :=
  match ps, offs with
  | p :: ps', o :: offs' => if (o <=? c) && (c <? o + n_ids (clu_ids p)) then Some k else find_probe (S k) ps' offs' c
  | _, _ => None
  end.

Definition unshift (coffs toffs : list Z) (k : nat) (r : row) : row :=
  mkrow (r_time r) (r_amp r) (r_tmpl r - nth k toffs 0) (r_clu r - nth k coffs 0).

(* rows of the merged output attributed to probe k, ids shifted back, in merged order *)
Definition sub_rows (ps : list probe) (o : obs) (k : nat) : list row :=
  map (unshift (o_coffs o) (o_toffs o) k)
      (filter (fun r => match find_probe 0 ps (o_coffs o) (r_clu r) with Some k' => Nat.eqb k k' | None => false end)
              (zip_rows (o_times o) (o_amps o) (o_tmpl o) (o_clu o))).

Definition lens_ok (o : obs) : bool :=
  let n := length (o_times o) in
  Nat.eqb (length (o_amps o)) n && Nat.eqb (length (o_tmpl o)) n && Nat.eqb (length (o_clu o)) n.

(* clause 21: every input spike exactly once (as a multiset of times; the full rows are clause 23) *)
Definition c_perm (ps : list probe) (o : obs) : bool :=
  lens_ok o && perm_b Z.eqb (o_times o) (concat (map (@p_times A V F) ps)).

(* stable sort of a probe's own rows by time (identity when the probe's times are non-decreasing) *)
Fixpoint ins_row (x : row) (l : list row) : list row :=
  match l with [] => [x] | y :: r => if r_time x <=? r_time y then x :: l else y :: ins_row x r end.
Definition sort_rows (l : list row) : list row := fold_right ins_row [] l.

Fixpoint ties_by_probe (l : list (Z * option nat)) : bool :=
  match l with
  | (t1, Some k1) :: (((t2, Some k2) :: _) as r) => (if t1 =? t2 then Nat.leb k1 k2 else true) && ties_by_probe r
  | [_] | [] => true
  | _ => false
  end.

(* clause 22: non-decreasing times; the spikes of a probe keep their order; equal times ordered by probe *)
Definition c_sorted (ps : list probe) (o : obs) : bool :=
  sorted_b (o_times o) &&
  forallb (fun kp => list_eqb row_eqb (sub_rows ps o (fst kp)) (sort_rows (rows_of (snd kp))))
          (combine (seq 0 (length ps)) ps) &&
  ties_by_probe (map (fun r => (r_time r, find_probe 0 ps (o_coffs o) (r_clu r)))
                     (zip_rows (o_times o) (o_amps o) (o_tmpl o) (o_clu o))).

(* clause 23: each spike keeps its time and amplitude, ids shifted by the offsets of its probe; the registered offsets
   are the declarative ones: clusters = sum of (largest id named by the probe + 1), templates = sum of the template COUNTS (rows of the
   probes' templates.npy) of the earlier probes *)
Definition c_payload (ps : list probe) (o : obs) : bool :=
  lens_ok o && Nat.eqb (length (o_coffs o)) (length ps) && Nat.eqb (length (o_toffs o)) (length ps) &&
  list_eqb Z.eqb (o_coffs o) (map (coff_spec ps) (seq 0 (length ps))) &&
  list_eqb Z.eqb (o_toffs o) (map (toff_spec ps) (seq 0 (length ps))) &&
  Nat.eqb (length (o_times o)) (length (concat (map rows_of ps))) &&
  forallb (fun kp => perm_b row_eqb (sub_rows ps o (fst kp)) (rows_of (snd kp))) (combine (seq 0 (length ps)) ps).

(* clause 24: the id intervals [off_k, off_k + n_k) of different probes are pairwise disjoint
   (n_k = largest cluster id (spikes and metadata rows) + 1 for clusters, = the probe's template count for templates) *)
Fixpoint ivs_disjoint (l : list (Z * Z)) : bool :=
  match l with
  | [] => true
  | (a, n) :: r => forallb (fun bn => (a + n <=? fst bn) || (fst bn + snd bn <=? a)) r && ivs_disjoint r
  end.
Definition c_disjoint (ps : list probe) (o : obs) : bool :=
  Nat.eqb (length (o_coffs o)) (length ps) && Nat.eqb (length (o_toffs o)) (length ps) &&
  ivs_disjoint (combine (o_coffs o) (map (fun p => n_ids (clu_ids p)) ps)) &&
  ivs_disjoint (combine (o_toffs o) (map (@p_ntmpl A V F) ps)).

(* clause 25: cluster_probes[id + off_k] = k for every cluster id of probe k (carried by a spike or listed in a metadata
   file), and the table has no other entries *)
(* every entry i, i + 1, ... of the table is the probe whose id interval contains its index (the index runs in Z: a
   table has tens of thousands of entries) *)
Fixpoint cp_entries_ok (fp : Z -> option nat) (i : Z) (l : list Z) : bool :=
  match l with
  | [] => true
  | k' :: r => match fp i with Some k => k' =? Z.of_nat k | None => false end && cp_entries_ok fp (i + 1) r
  end.
Definition c_cprobes (ps : list probe) (o : obs) : bool :=
  forallb (fun kpo => let k := fst (fst kpo) in let p := snd (fst kpo) in let off := snd kpo in
             forallb (fun c => match nth_error (o_cprobes o) (Z.to_nat (c + off)) with
                               | Some k' => (0 <=? c + off) && (k' =? Z.of_nat k) | None => false end)
                     (clu_ids p))
          (combine (combine (seq 0 (length ps)) ps) (o_coffs o)) &&
  cp_entries_ok (find_probe 0 ps (o_coffs o)) 0 (o_cprobes o).

(* clause 26: renumbered metadata *)
Definition meta_clause (f : nat) (ps : list probe) (coffs : list Z) (out : option metatab) : bool :=
  let present := flat_map (fun po => match meta_of f (fst po) with Some mt => [(mt, snd po)] | None => [] end)
                          (combine ps coffs) in
  let rows := match out with Some mt => mt_rows mt | None => [] end in
  strict_b (map fst rows) &&
  forallb (fun mo => forallb (fun kv => match dict_get rows (fst kv + snd mo), find_last (mt_rows (fst mo)) (fst kv) with
                                        | Some v, Some v' => veqb v v' | _, _ => false end)
                             (mt_rows (fst mo))) present &&
  forallb (fun cv => existsb (fun mo => match find_last (mt_rows (fst mo)) (fst cv - snd mo) with
                                        | Some v' => veqb (snd cv) v' | None => false end) present) rows &&
  match out with
  | Some mt => match rows with [] => false | _ => true end && existsb (fun mo => feqb (mt_field mt) (mt_field (fst mo))) present
  | None => forallb (fun mo => match mt_rows (fst mo) with [] => true | _ => false end) present
  end.
Definition c_meta (ps : list probe) (o : obs) : bool :=
  Nat.eqb (length (o_meta o)) n_meta_files &&
  forallb (fun f => meta_clause f ps (o_coffs o) (nth f (o_meta o) None)) (seq 0 n_meta_files).

(* clause 30: the integer dtypes of the merged spike_times / spike_clusters / spike_templates files hold every merged
   value: the largest input time, the largest merged cluster id (total number of cluster ids - 1) and the largest merged
   template id (total number of templates - 1); nothing can have wrapped around *)
Definition c_width (ps : list probe) (odts : idt * idt * idt) : bool :=
  match odts with (otd, ocd, oid) =>
    forallb (fun t => fits otd t) (concat (map (@p_times A V F) ps)) &&
    fits ocd 0 && fits ocd (coff_spec ps (length ps) - 1) &&
    fits oid 0 && fits oid (toff_spec ps (length ps) - 1)
  end.

End Spec.

Arguments tagged : clear implicits.
Arguments row : clear implicits.
Arguments obs : clear implicits.
