(* C11/Proofs.v -- lemmas and main proofs *)
From Coq Require Import ZArith List Bool Sorted Permutation Lia Arith.
From PV Require Import Base.NpSort Base.NpSearch C11.Model C11.Spec.
Import ListNotations.
Open Scope Z_scope.

Section Dict.
Context {V : Type}.

(* dictionary assignment then read: the new value at k, everything else untouched (no sortedness needed) *)
Lemma dict_get_set (d : list (Z * V)) k v k' :
  dict_get (dict_set k v d) k' = if k' =? k then Some v else dict_get d k'.
Proof.
  induction d as [|[k0 v0] r IH]; cbn [dict_set dict_get]; [reflexivity|].
  destruct (k <? k0) eqn:E1; cbn [dict_get]; [reflexivity|].
  destruct (k =? k0) eqn:E2; cbn [dict_get].
  - destruct (k' =? k) eqn:E3; [reflexivity|]. replace (k' =? k0) with false by lia. reflexivity.
  - rewrite IH. destruct (k' =? k0) eqn:E3; [|reflexivity].
    replace (k' =? k) with false by lia. reflexivity.
Qed.
End Dict.

(* ---------------------------------------------------------------------------------------------
   A. reordering by the stable argsort of T  =  stable sort of the pairs (T, X), projected
   --------------------------------------------------------------------------------------------- *)
Section Reorder.
Context {X Y : Type}.
Variable g : X -> Y.
Definition onsnd (kv : Z * X) : Z * Y := (fst kv, g (snd kv)).

Lemma insert_map x l : insert (onsnd x) (map onsnd l) = map onsnd (insert x l).
Proof.
  induction l as [|y r IH]; cbn [insert map]; [reflexivity|].
  change (fst (onsnd x)) with (fst x). change (fst (onsnd y)) with (fst y).
  destruct (fst x <=? fst y); cbn [map]; [reflexivity|]. now rewrite IH.
Qed.

Lemma isort_map l : isort (map onsnd l) = map onsnd (isort l).
Proof.
  induction l as [|x l IH]; cbn [isort fold_right map]; [reflexivity|].
  fold (isort (map onsnd l)). fold (isort l). rewrite IH. apply insert_map.
Qed.

Lemma combine_map_r (T : list Z) (l : list X) : combine T (map g l) = map onsnd (combine T l).
Proof.
  revert l; induction T as [|t T IH]; intros [|x l]; cbn [combine map]; try reflexivity.
  now rewrite IH.
Qed.
End Reorder.

Lemma take_some {X} (order : list nat) (l Y : list X) :
  map (nth_error l) order = map Some Y -> take l order = Some Y.
Proof.
  revert Y; induction order as [|i r IH]; intros [|y Y] H; cbn [map] in H; try discriminate; cbn [take].
  - reflexivity.
  - injection H as H1 H2. rewrite H1, (IH Y H2). reflexivity.
Qed.

Lemma nth_error_seq {X} (l : list X) : map (nth_error l) (seq 0 (length l)) = map Some l.
Proof.
  induction l as [|x l IH]; [reflexivity|].
  cbn [length seq map nth_error]. f_equal. rewrite <- seq_shift, map_map. cbn [nth_error]. exact IH.
Qed.

Lemma take_argsort {X} (T : list Z) (l : list X) : length l = length T ->
  take l (stable_argsort T) = Some (map snd (isort (combine T l))).
Proof.
  intros HL. apply take_some. unfold stable_argsort.
  transitivity (map snd (map (onsnd (nth_error l)) (isort (combine T (seq 0 (length T)))))).
  { rewrite !map_map. reflexivity. }
  rewrite <- isort_map, <- combine_map_r, <- HL, nth_error_seq.
  rewrite combine_map_r, isort_map, !map_map. reflexivity.
Qed.

Lemma load_spike_arrays_spec {X} (T : list Z) (arrs : list (list X)) :
  length (concat arrs) = length T ->
  load_spike_arrays arrs (stable_argsort T) = Some (map snd (isort (combine T (concat arrs)))).
Proof.
  intros HL. unfold load_spike_arrays.
  assert (Hlen : length (stable_argsort T) = length T).
  { unfold stable_argsort. rewrite map_length. 
    rewrite (Permutation_length (isort_perm _)), combine_length, seq_length. apply Nat.min_id. }
  rewrite Hlen, HL, Nat.eqb_refl. now apply take_argsort.
Qed.

Lemma SSorted_app {X} (R : X -> X -> Prop) l1 l2 :
  StronglySorted R l1 -> StronglySorted R l2 -> (forall a b, In a l1 -> In b l2 -> R a b) ->
  StronglySorted R (l1 ++ l2).
Proof.
  induction l1 as [|x l1 IH]; intros H1 H2 H12; cbn [app]; [exact H2|].
  apply StronglySorted_inv in H1 as [H1 Hx]. constructor.
  - apply IH; [exact H1|exact H2|]. intros a b Ha Hb. apply H12; [now right|exact Hb].
  - apply Forall_app. split; [exact Hx|]. rewrite Forall_forall. intros b Hb. apply H12; [now left|exact Hb].
Qed.

Lemma combine_map_self {X} (f : X -> Z) (l : list X) : combine (map f l) l = map (fun x => (f x, x)) l.
Proof. induction l as [|x l IH]; cbn [map combine]; [reflexivity|]. now rewrite IH. Qed.

(* ---------------------------------------------------------------------------------------------
   B. the tagged input spikes
   --------------------------------------------------------------------------------------------- *)
Section Main.
Context {A V F : Type}.
Notation probe := (probe A V F).
Notation merged := (merged A V F).
Notation tagged := (tagged A).

Lemma tag_spikes_proj k i (ts : list Z) (am : list A) (tm cl : list Z) :
  length am = length ts -> length tm = length ts -> length cl = length ts ->
  map (@t_time A) (tag_spikes k i ts am tm cl) = ts /\ map (@t_amp A) (tag_spikes k i ts am tm cl) = am /\
  map (@t_tmpl A) (tag_spikes k i ts am tm cl) = tm /\ map (@t_clu A) (tag_spikes k i ts am tm cl) = cl.
Proof.
  revert i am tm cl; induction ts as [|t ts IH]; intros i [|a am] [|m tm] [|c cl] H1 H2 H3; try discriminate.
  - repeat split; reflexivity.
  - cbn [length] in *. destruct (IH (S i) am tm cl) as (E1 & E2 & E3 & E4); try lia.
    cbn [tag_spikes map t_time t_amp t_tmpl t_clu]. rewrite E1, E2, E3, E4. repeat split; reflexivity.
Qed.

Lemma tag_spikes_tags k i (ts : list Z) (am : list A) (tm cl : list Z) x :
  In x (tag_spikes k i ts am tm cl) -> t_probe x = k /\ (i <= t_idx x)%nat.
Proof.
  revert i am tm cl; induction ts as [|t ts IH]; intros i [|a am] [|m tm] [|c cl]; cbn [tag_spikes]; try contradiction.
  intros [<-|H]; [cbn; split; [reflexivity|lia]|]. destruct (IH _ _ _ _ H) as [E L]. split; [exact E|lia].
Qed.

Lemma tag_spikes_sorted k i (ts : list Z) (am : list A) (tm cl : list Z) :
  StronglySorted (@taglt A) (tag_spikes k i ts am tm cl).
Proof.
  revert i am tm cl; induction ts as [|t ts IH]; intros i [|a am] [|m tm] [|c cl]; cbn [tag_spikes]; try constructor.
  - apply IH.
  - rewrite Forall_forall. intros x Hx. destruct (tag_spikes_tags _ _ _ _ _ _ _ Hx) as [E L].
    right. cbn [t_probe t_idx]. split; [now symmetry|lia].
Qed.

Lemma tagged_from_probe k (ps : list probe) x : In x (tagged_from k ps) -> (k <= t_probe x < k + length ps)%nat.
Proof.
  revert k; induction ps as [|p r IH]; intros k; cbn [tagged_from]; [contradiction|].
  rewrite in_app_iff. intros [H|H].
  - destruct (tag_spikes_tags _ _ _ _ _ _ _ H) as [E _]. cbn [length]. lia.
  - specialize (IH _ H). cbn [length]. lia.
Qed.

Lemma tagged_from_sorted k (ps : list probe) : StronglySorted (@taglt A) (tagged_from k ps).
Proof.
  revert k; induction ps as [|p r IH]; intros k; cbn [tagged_from]; [constructor|].
  apply SSorted_app; [apply tag_spikes_sorted|apply IH|].
  intros a b Ha Hb. destruct (tag_spikes_tags _ _ _ _ _ _ _ Ha) as [E _]. pose proof (tagged_from_probe _ _ _ Hb).
  left. lia.
Qed.

Definition wf_len (p : probe) : Prop :=
  length (p_amps p) = length (p_times p) /\ length (p_tmpl p) = length (p_times p) /\ length (p_clu p) = length (p_times p).

Lemma tagged_from_proj k (ps : list probe) : Forall wf_len ps ->
  map (@t_time A) (tagged_from k ps) = concat (map (@p_times A V F) ps) /\
  map (@t_amp A) (tagged_from k ps) = concat (map (@p_amps A V F) ps) /\
  map (@t_tmpl A) (tagged_from k ps) = concat (map (@p_tmpl A V F) ps) /\
  map (@t_clu A) (tagged_from k ps) = concat (map (@p_clu A V F) ps).
Proof.
  revert k; induction ps as [|p r IH]; intros k H; cbn [tagged_from map concat]; [repeat split; reflexivity|].
  inversion H as [|? ? (H1 & H2 & H3) Hr]; subst.
  destruct (IH (S k) Hr) as (E1 & E2 & E3 & E4).
  destruct (tag_spikes_proj k 0 _ _ _ _ H1 H2 H3) as (G1 & G2 & G3 & G4).
  unfold tag_probe. rewrite !map_app, E1, E2, E3, E4, G1, G2, G3, G4. repeat split; reflexivity.
Qed.

(* ---------------------------------------------------------------------------------------------
   C. the stable sort of the tagged spikes by time is strictly increasing in (time, probe, index)
   --------------------------------------------------------------------------------------------- *)
Definition keyed (R : list tagged) : list (Z * tagged) := map (fun r => (t_time r, r)) R.
Definition sorted_tagged (R : list tagged) : list tagged := map snd (isort (keyed R)).

Lemma lt3_time_le (x : tagged) l y : StronglySorted (@lt3 A) (x :: l) -> In y l -> t_time x <= t_time y.
Proof.
  intros H Hy. apply StronglySorted_inv in H as [_ H]. rewrite Forall_forall in H.
  destruct (H y Hy) as [L|[E _]]; lia.
Qed.

Lemma insert_lt3 (kx : Z * tagged) (S : list (Z * tagged)) :
  (forall y, In y S -> fst y = t_time (snd y)) -> fst kx = t_time (snd kx) ->
  StronglySorted (@lt3 A) (map snd S) -> (forall y, In y S -> taglt (snd kx) (snd y)) ->
  StronglySorted (@lt3 A) (map snd (insert kx S)).
Proof.
  induction S as [|y r IH]; intros Hk Hx Hs Ht; cbn [insert map].
  - constructor; constructor.
  - destruct (fst kx <=? fst y) eqn:E.
    + cbn [map]. constructor; [exact Hs|]. rewrite Forall_forall. intros z Hz.
      change (snd y :: map snd r) with (map snd (y :: r)) in Hz. apply in_map_iff in Hz as (z' & <- & Hz').
      assert (T : t_time (snd kx) <= t_time (snd z')).
      { destruct Hz' as [<-|Hz']; [rewrite <- Hx, <- (Hk y (or_introl eq_refl)); lia|].
        pose proof (lt3_time_le (snd y) (map snd r) (snd z') Hs (in_map snd _ _ Hz')).
        rewrite <- Hx. rewrite (Hk y (or_introl eq_refl)) in E. lia. }
      destruct (Z.eq_dec (t_time (snd kx)) (t_time (snd z'))) as [Eq|Ne].
      * right. split; [exact Eq|]. apply Ht. exact Hz'.
      * left. lia.
    + cbn [map] in *. apply StronglySorted_inv in Hs as [Hs Hy]. constructor.
      * apply IH; [intros z Hz; apply Hk; now right|exact Hx|exact Hs|intros z Hz; apply Ht; now right].
      * rewrite Forall_forall in *. intros z Hz. apply in_map_iff in Hz as (z' & <- & Hz').
        apply (Permutation_in _ (insert_perm kx r)) in Hz'. destruct Hz' as [<-|Hz'].
        -- left. rewrite <- Hx, <- (Hk y (or_introl eq_refl)). lia.
        -- apply Hy. now apply in_map.
Qed.

Lemma keyed_fst (R : list tagged) y : In y (isort (keyed R)) -> fst y = t_time (snd y) /\ In (snd y) R.
Proof.
  intros H. apply (Permutation_in _ (isort_perm _)) in H. unfold keyed in H.
  apply in_map_iff in H as (r & <- & Hr). split; [reflexivity|exact Hr].
Qed.

Lemma sorted_tagged_lt3 (R : list tagged) : StronglySorted (@taglt A) R -> StronglySorted (@lt3 A) (sorted_tagged R).
Proof.
  induction R as [|x R IH]; intros H; [constructor|].
  apply StronglySorted_inv in H as [HR Hx]. specialize (IH HR). rewrite Forall_forall in Hx.
  unfold sorted_tagged. cbn [keyed map isort fold_right]. fold (keyed R). fold (isort (keyed R)).
  apply insert_lt3.
  - intros y Hy. apply (keyed_fst R y Hy).
  - reflexivity.
  - exact IH.
  - intros y Hy. cbn [snd]. apply Hx. apply (keyed_fst R y Hy).
Qed.

Lemma sorted_tagged_perm (R : list tagged) : Permutation (sorted_tagged R) R.
Proof.
  unfold sorted_tagged. rewrite (isort_perm (keyed R)). unfold keyed. rewrite map_map. cbn [snd].
  rewrite map_id. reflexivity.
Qed.
End Main.

(* ---------------------------------------------------------------------------------------------
   D. maxima and running offsets
   --------------------------------------------------------------------------------------------- *)
Lemma zmaxl_ge l x : In x l -> x <= zmaxl l.
Proof. induction l as [|y l IH]; [contradiction|]. cbn [zmaxl fold_right]. fold (zmaxl l). intros [->|H]; [lia|]. specialize (IH H). lia. Qed.
Lemma zmaxl_nonneg l : 0 <= zmaxl l.
Proof. induction l as [|y l IH]; cbn [zmaxl fold_right]; [lia|]. fold (zmaxl l). lia. Qed.
Lemma zmaxl_in l : l <> [] -> (forall x, In x l -> 0 <= x) -> In (zmaxl l) l.
Proof.
  induction l as [|y l IH]; intros Hn Hp; [contradiction|]. cbn [zmaxl fold_right]. fold (zmaxl l).
  destruct l as [|z l'].
  - left. cbn. specialize (Hp y (or_introl eq_refl)). lia.
  - assert (H : In (zmaxl (z :: l')) (z :: l')) by (apply IH; [discriminate|intros x Hx; apply Hp; now right]).
    destruct (Z.max_spec y (zmaxl (z :: l'))) as [[_ ->]|[_ ->]]; [now right|now left].
Qed.

Lemma fold_max_spec r x : let m := fold_left Z.max r x in In m (x :: r) /\ (forall y, In y (x :: r) -> y <= m).
Proof.
  revert x; induction r as [|z r IH]; intros x; cbn [fold_left].
  - split; [now left|]. intros y [->|[]]. lia.
  - destruct (IH (Z.max x z)) as [Hin Hle]. split.
    + destruct Hin as [E|Hin]; [|right; now right]. rewrite <- E.
      destruct (Z.max_spec x z) as [[_ ->]|[_ ->]]; [right; now left|now left].
    + intros y Hy. pose proof (Hle (Z.max x z) (or_introl eq_refl)) as H0.
      destruct Hy as [E|[E|Hy]]; [rewrite <- E; lia|rewrite <- E; lia|]. apply Hle. now right.
Qed.

(* np.max characterised: the result is a member and an upper bound *)
Lemma zmax_opt_iff l m : zmax_opt l = Some m <-> In m l /\ (forall y, In y l -> y <= m).
Proof.
  destruct l as [|x r]; cbn [zmax_opt].
  - split; [discriminate|intros [[] _]].
  - pose proof (fold_max_spec r x) as [Hin Hle]. cbn zeta in *. split.
    + intros H; injection H as <-. split; assumption.
    + intros [Hm Hb]. f_equal. specialize (Hle m Hm). specialize (Hb _ Hin). lia.
Qed.

Lemma zmax_opt_zmaxl l : l <> [] -> (forall x, In x l -> 0 <= x) -> zmax_opt l = Some (zmaxl l).
Proof. intros Hn Hp. apply zmax_opt_iff. split; [now apply zmaxl_in|apply zmaxl_ge]. Qed.

Lemma zmaxl_app a b : zmaxl (a ++ b) = Z.max (zmaxl a) (zmaxl b).
Proof.
  induction a as [|x a IH]; cbn [app zmaxl fold_right].
  - fold (zmaxl b). pose proof (zmaxl_nonneg b). lia.
  - fold (zmaxl (a ++ b)). fold (zmaxl a). rewrite IH. lia.
Qed.
Lemma fold_left_max l : forall m, 0 <= m -> fold_left Z.max l m = Z.max m (zmaxl l).
Proof.
  induction l as [|x l IH]; intros m Hm; cbn [fold_left zmaxl fold_right]; [lia|].
  fold (zmaxl l). rewrite IH by lia. lia.
Qed.

Section Offsets.
Context {A V F : Type}.
Notation probe := (probe A V F).
Notation merged := (merged A V F).
Notation tagged := (tagged A).

(* generic offset: ids = p_clu or p_tmpl *)
Definition goff (ids : probe -> list Z) (ps : list probe) (k : nat) : Z :=
  zsum (map (fun p => n_ids (ids p)) (firstn k ps)).
Lemma coff_goff ps k : coff_spec ps k = goff (@clu_ids A V F) ps k. Proof. reflexivity. Qed.

Lemma goff_0 ids ps : goff ids ps 0 = 0. Proof. reflexivity. Qed.
Lemma goff_S ids p r j : goff ids (p :: r) (S j) = n_ids (ids p) + goff ids r j. Proof. reflexivity. Qed.
Lemma n_ids_pos l : 1 <= n_ids l. Proof. unfold n_ids. pose proof (zmaxl_nonneg l). lia. Qed.

Lemma goff_step ids ps k (p : probe) : nth_error ps k = Some p -> goff ids ps (S k) = goff ids ps k + n_ids (ids p).
Proof.
  revert k; induction ps as [|q r IH]; intros [|k] H; cbn [nth_error] in H; try discriminate.
  - injection H as ->. rewrite goff_S, !goff_0. lia.
  - rewrite !goff_S, (IH k H). lia.
Qed.
Lemma goff_mono ids ps j k : (j <= k)%nat -> goff ids ps j <= goff ids ps k.
Proof.
  revert j k; induction ps as [|q r IH]; intros j k H.
  - unfold goff. rewrite !firstn_nil. lia.
  - destruct j as [|j]; destruct k as [|k]; try lia; rewrite ?goff_S, ?goff_0.
    + pose proof (IH 0%nat k (Nat.le_0_l _)). rewrite goff_0 in H0. pose proof (n_ids_pos (ids q)). lia.
    + specialize (IH j k). lia.
Qed.
Lemma goff_all ids ps k : (length ps <= k)%nat -> goff ids ps k = goff ids ps (length ps).
Proof. intros H. unfold goff. rewrite !firstn_all2; [reflexivity|lia|lia]. Qed.

(* template offsets: cumulative template COUNTS (p_ntmpl), not derived from the spike templates *)
Lemma toff_0 (ps : list probe) : toff_spec ps 0 = 0. Proof. reflexivity. Qed.
Lemma toff_S (p : probe) r j : toff_spec (p :: r) (S j) = p_ntmpl p + toff_spec r j. Proof. reflexivity. Qed.
Lemma toff_step ps k (p : probe) : nth_error ps k = Some p -> toff_spec ps (S k) = toff_spec ps k + p_ntmpl p.
Proof.
  revert k; induction ps as [|q r IH]; intros [|k] H; cbn [nth_error] in H; try discriminate.
  - injection H as ->. rewrite toff_S, !toff_0. lia.
  - rewrite !toff_S, (IH k H). lia.
Qed.
Lemma toff_mono (ps : list probe) : (forall p, In p ps -> 0 <= p_ntmpl p) ->
  forall j k, (j <= k)%nat -> toff_spec ps j <= toff_spec ps k.
Proof.
  induction ps as [|q r IH]; intros Hn j k H.
  - unfold toff_spec. rewrite !firstn_nil. lia.
  - assert (Hr : forall p, In p r -> 0 <= p_ntmpl p) by (intros p Hp; apply Hn; now right).
    pose proof (Hn q (or_introl eq_refl)) as Hq.
    destruct j as [|j]; destruct k as [|k]; try lia; rewrite ?toff_S, ?toff_0.
    + pose proof (IH Hr 0%nat k (Nat.le_0_l _)) as G. rewrite toff_0 in G. lia.
    + specialize (IH Hr j k). lia.
Qed.
(* a well-formed probe has at least one template: its spikes name templates in 0 .. p_ntmpl - 1 *)
Lemma wf_ntmpl (p : probe) : wf_probe p -> zmaxl (p_tmpl p) + 1 <= p_ntmpl p.
Proof.
  intros (H1 & H2 & H3 & Hn & _ & Pt & Nt).
  assert (Ne : p_tmpl p <> []).
  { intros E. rewrite E in H2. cbn [length] in H2. destruct (p_times p); [contradiction|discriminate]. }
  specialize (Nt _ (zmaxl_in _ Ne Pt)). lia.
Qed.
Lemma wf_ntmpl_nonneg (ps : list probe) : Forall wf_probe ps -> forall p, In p ps -> 0 <= p_ntmpl p.
Proof.
  intros H p Hp. rewrite Forall_forall in H. pose proof (wf_ntmpl p (H p Hp)). pose proof (zmaxl_nonneg (p_tmpl p)). lia.
Qed.

(* the cluster count of a probe, as the code computes it, is the declarative one *)
Lemma n_clu_of_spec (p : probe) : p_clu p <> [] -> (forall c, In c (p_clu p) -> 0 <= c) ->
  n_clu_of p = Some (n_ids (clu_ids p)).
Proof.
  intros Nc Pc. unfold n_clu_of. rewrite (zmax_opt_zmaxl _ Nc Pc). f_equal.
  rewrite fold_left_max by apply zmaxl_nonneg. unfold n_ids, clu_ids. rewrite zmaxl_app. reflexivity.
Qed.
Lemma zmaxl_clu_le (p : probe) : zmaxl (p_clu p) <= zmaxl (clu_ids p).
Proof. unfold clu_ids. rewrite zmaxl_app. lia. Qed.
Lemma clu_ids_ge (p : probe) c : In c (p_clu p) -> c <= zmaxl (clu_ids p).
Proof. intros H. apply zmaxl_ge. unfold clu_ids. apply in_app_iff. now left. Qed.

(* cluster_probes, declaratively *)
Fixpoint cp_spec (i : Z) (ps : list probe) : list Z :=
  match ps with [] => [] | p :: r => repeat i (Z.to_nat (n_ids (clu_ids p))) ++ cp_spec (i + 1) r end.

Lemma wf_probe_len (p : probe) : wf_probe p -> wf_len p.
Proof. intros (H1 & H2 & H3 & _). repeat split; assumption. Qed.
Lemma wf_probe_ne (p : probe) : wf_probe p -> p_clu p <> [] /\ p_tmpl p <> [].
Proof.
  intros (H1 & H2 & H3 & Hn & _). split; intros E; rewrite E in *; cbn [length] in *;
    destruct (p_times p); [contradiction|discriminate|contradiction|discriminate].
Qed.

Lemma map_seq_S {Y} (f : nat -> Y) n : map f (seq 0 (S n)) = f 0%nat :: map (fun j => f (S j)) (seq 0 n).
Proof. cbn [seq map]. f_equal. rewrite <- seq_shift, map_map. reflexivity. Qed.

Lemma sc_loop_spec (ps : list probe) : Forall wf_probe ps -> forall i coff toff,
  exists sh, sc_loop i coff toff ps = Some sh /\
    map sh_coff sh = map (fun j => coff + coff_spec ps j) (seq 0 (length ps)) /\
    map sh_toff sh = map (fun j => toff + toff_spec ps j) (seq 0 (length ps)) /\
    (forall k, concat (map sh_sc sh) =
               map (fun s => t_clu s + (coff + coff_spec ps (t_probe s - k))) (tagged_from k ps)) /\
    (forall k, concat (map sh_st sh) =
               map (fun s => t_tmpl s + (toff + toff_spec ps (t_probe s - k))) (tagged_from k ps)) /\
    concat (map sh_cp sh) = cp_spec i ps.
Proof.
  induction 1 as [|p r Hp Hr IH]; intros i coff toff.
  - exists []. cbn. repeat split; reflexivity.
  - destruct (wf_probe_ne p Hp) as [Nc Nt]. pose proof Hp as (L1 & L2 & L3 & _ & Pc & Pt & _).
    cbn [sc_loop]. rewrite (n_clu_of_spec _ Nc Pc).
    replace (n_ids (clu_ids p) <? 0) with false by (pose proof (n_ids_pos (clu_ids p)); lia).
    destruct (IH (i + 1) (coff + n_ids (clu_ids p)) (toff + p_ntmpl p)) as (sh & -> & E1 & E2 & E3 & E4 & E5).
    eexists. split; [reflexivity|]. cbn [map sh_coff sh_toff sh_sc sh_st sh_cp concat length].
    rewrite !map_seq_S, E1, E2, E5. rewrite coff_goff, toff_0, !goff_0.
    split; [f_equal; [lia|]; apply map_ext; intros j; rewrite !coff_goff, goff_S; lia|].
    split; [f_equal; [lia|]; apply map_ext; intros j; rewrite toff_S; lia|].
    split; [|split; [|reflexivity]].
    + intros k. cbn [tagged_from]. rewrite map_app, (E3 (S k)). f_equal.
      * destruct (tag_spikes_proj k 0 _ _ _ _ L1 L2 L3) as (_ & _ & _ & G). unfold tag_probe.
        rewrite <- G at 1. rewrite map_map. apply map_ext_in. intros s Hs.
        destruct (tag_spikes_tags _ _ _ _ _ _ _ Hs) as [-> _]. rewrite Nat.sub_diag, coff_goff, goff_0. lia.
      * apply map_ext_in. intros s Hs. pose proof (tagged_from_probe _ _ _ Hs).
        replace (t_probe s - k)%nat with (S (t_probe s - S k)) by lia. rewrite !coff_goff, goff_S. lia.
    + intros k. cbn [tagged_from]. rewrite map_app, (E4 (S k)). f_equal.
      * destruct (tag_spikes_proj k 0 _ _ _ _ L1 L2 L3) as (_ & _ & G & _). unfold tag_probe.
        rewrite <- G at 1. rewrite map_map. apply map_ext_in. intros s Hs.
        destruct (tag_spikes_tags _ _ _ _ _ _ _ Hs) as [-> _]. rewrite Nat.sub_diag, toff_0. lia.
      * apply map_ext_in. intros s Hs. pose proof (tagged_from_probe _ _ _ Hs).
        replace (t_probe s - k)%nat with (S (t_probe s - S k)) by lia. rewrite toff_S. lia.
Qed.
End Offsets.

(* ---------------------------------------------------------------------------------------------
   E. the master statement: merge succeeds on well-formed input and its arrays are the fields of the
      stable time-sort of the tagged spikes, ids shifted by the declarative offsets
   --------------------------------------------------------------------------------------------- *)
Section Master.
Context {A V F : Type}.
Notation probe := (probe A V F).
Notation merged := (merged A V F).
Notation tagged := (tagged A).

Lemma tagged_from_in k0 (ps : list probe) s : Forall wf_len ps -> In s (tagged_from k0 ps) ->
  exists p, nth_error ps (t_probe s - k0) = Some p /\ In (t_clu s) (p_clu p) /\ In (t_tmpl s) (p_tmpl p) /\
            In (t_time s) (p_times p).
Proof.
  intros H; revert k0; induction H as [|p r (L1 & L2 & L3) Hr IH]; intros k0; cbn [tagged_from]; [contradiction|].
  rewrite in_app_iff. intros [Hs|Hs].
  - destruct (tag_spikes_tags _ _ _ _ _ _ _ Hs) as [-> _]. rewrite Nat.sub_diag. exists p. split; [reflexivity|].
    destruct (tag_spikes_proj k0 0 _ _ _ _ L1 L2 L3) as (G1 & _ & G3 & G4).
    rewrite <- G4 at 1. rewrite <- G3 at 2. rewrite <- G1 at 3. unfold tag_probe in Hs. repeat split; now apply in_map.
  - pose proof (tagged_from_probe _ _ _ Hs). destruct (IH _ Hs) as (q & Hq & Hc).
    exists q. replace (t_probe s - k0)%nat with (S (t_probe s - S k0)) by lia. cbn [nth_error]. split; assumption.
Qed.

Lemma tagged_from_ex k0 (ps : list probe) k p c : Forall wf_len ps -> nth_error ps k = Some p -> In c (p_clu p) ->
  exists s, In s (tagged_from k0 ps) /\ t_probe s = (k0 + k)%nat /\ t_clu s = c.
Proof.
  intros H; revert k0 k; induction H as [|q r (L1 & L2 & L3) Hr IH]; intros k0 [|k] Hk Hc; cbn [nth_error] in Hk; try discriminate.
  - injection Hk as ->. destruct (tag_spikes_proj k0 0 _ _ _ _ L1 L2 L3) as (_ & _ & _ & G4).
    rewrite <- G4 in Hc. apply in_map_iff in Hc as (s & E & Hs). exists s. cbn [tagged_from]. split; [apply in_app_iff; now left|].
    destruct (tag_spikes_tags _ _ _ _ _ _ _ Hs) as [-> _]. split; [lia|exact E].
  - destruct (IH (S k0) k Hk Hc) as (s & Hs & E1 & E2). exists s. cbn [tagged_from].
    split; [apply in_app_iff; now right|]. split; [lia|exact E2].
Qed.

Lemma cp_spec_length i (ps : list probe) : Z.of_nat (length (cp_spec i ps)) = coff_spec ps (length ps).
Proof.
  revert i; induction ps as [|p r IH]; intros i; [reflexivity|].
  cbn [cp_spec length]. rewrite app_length, repeat_length, Nat2Z.inj_add, IH, !coff_goff, goff_S.
  pose proof (n_ids_pos (clu_ids p)). lia.
Qed.

Lemma reorder_field {Y} (g : tagged -> Y) (R : list tagged) :
  map snd (isort (combine (map (@t_time A) R) (map g R))) = map g (sorted_tagged R).
Proof.
  rewrite combine_map_r, combine_map_self, isort_map, map_map. unfold sorted_tagged, keyed.
  rewrite map_map. reflexivity.
Qed.

Definition wf_all (ps : list probe) : Forall wf_probe ps -> Forall wf_len ps.
Proof. intros H. eapply Forall_impl; [|exact H]. apply wf_probe_len. Qed.

Theorem merge_spec (ps : list probe) : wf ps ->
  exists m, merge ps = Some m /\ Payload ps m (sorted_tagged (tagged_concat ps)) /\
    m_coffs m = map (coff_spec ps) (seq 0 (length ps)) /\ m_toffs m = map (toff_spec ps) (seq 0 (length ps)) /\
    m_cprobes m = cp_spec 0 ps /\
    m_meta m = map (fun f => meta_file f ps (map (coff_spec ps) (seq 0 (length ps)))) (seq 0 n_meta_files).
Proof.
  intros [Hne Hwf]. destruct ps as [|p0 r0]; [contradiction|]. clear Hne. remember (p0 :: r0) as ps eqn:Eps.
  assert (Hm : forall (a b : option merged), match ps with [] => a | _ :: _ => b end = b) by (intros; rewrite Eps; reflexivity).
  pose proof (wf_all ps Hwf) as Hlen.
  destruct (tagged_from_proj 0 ps Hlen) as (T1 & T2 & T3 & T4). fold (tagged_concat ps) in *.
  set (R := tagged_concat ps) in *.
  destruct (sc_loop_spec ps Hwf 0 0 0) as (sh & Hsh & S1 & S2 & S3 & S4 & S5).
  specialize (S3 0%nat). specialize (S4 0%nat). fold (tagged_concat ps) in S3, S4. fold R in S3, S4.
  unfold merge, merge_core. rewrite Hm. clear Hm.
  unfold concat_times. rewrite <- T1.
  rewrite (take_argsort (map (@t_time A) R) (map (@t_time A) R) eq_refl), reorder_field.
  rewrite !load_spike_arrays_spec by (rewrite <- ?T2, <- ?T3, ?S3, ?S4, !map_length; reflexivity).
  rewrite Hsh. rewrite !load_spike_arrays_spec by (rewrite ?S3, ?S4, !map_length; reflexivity).
  rewrite <- T2, S3, S4, !reorder_field.
  set (M := sorted_tagged R).
  set (clu := map (fun s : tagged => t_clu s + (0 + coff_spec ps (t_probe s - 0))) M).
  (* the final assert: the largest merged cluster id is below the length of cluster_probes *)
  assert (Hmax : exists mx, zmax_opt clu = Some mx /\ mx + 1 <= coff_spec ps (length ps)).
  { assert (Hb : forall y, In y clu -> y + 1 <= coff_spec ps (length ps)).
    { intros y Hy. unfold clu in Hy. apply in_map_iff in Hy as (s & <- & Hs).
      apply (Permutation_in _ (sorted_tagged_perm R)) in Hs.
      destruct (tagged_from_in 0 ps s Hlen Hs) as (q & Hq & Hc & _). rewrite Nat.sub_0_r in *.
      pose proof (clu_ids_ge _ _ Hc). pose proof (goff_step (@clu_ids A V F) _ _ _ Hq) as G.
      assert (t_probe s < length ps)%nat by (apply nth_error_Some; congruence).
      pose proof (goff_mono (@clu_ids A V F) ps (S (t_probe s)) (length ps) ltac:(lia)).
      rewrite !coff_goff. unfold n_ids in G. lia. }
    destruct clu as [|c0 cl] eqn:Ec.
    - exfalso. unfold clu in Ec. apply map_eq_nil in Ec.
      assert (Hp0 : wf_probe p0) by (rewrite Eps in Hwf; now inversion Hwf).
      destruct (wf_probe_ne p0 Hp0) as [Nc _]. destruct (p_clu p0) as [|c0 cl0] eqn:E0; [contradiction|].
      destruct (tagged_from_ex 0 ps 0 p0 c0 Hlen) as (s & Hs & _); [rewrite Eps; reflexivity|rewrite E0; now left|].
      apply (Permutation_in _ (Permutation_sym (sorted_tagged_perm R))) in Hs. fold M in Hs. rewrite Ec in Hs. exact Hs.
    - destruct (zmax_opt (c0 :: cl)) as [mx|] eqn:Em; [|discriminate].
      exists mx. split; [reflexivity|]. apply zmax_opt_iff in Em as [Hin _]. apply Hb. exact Hin. }
  destruct Hmax as (mx & -> & Hle). rewrite S5. pose proof (cp_spec_length 0 ps) as HL.
  replace (mx + 1 <=? Z.of_nat (length (cp_spec 0 ps))) with true by lia.
  eexists. split; [reflexivity|]. cbn [m_times m_amps m_tmpl m_clu m_coffs m_toffs m_cprobes m_meta].
  assert (C1 : map sh_coff sh = map (coff_spec ps) (seq 0 (length ps))) by (rewrite S1; apply map_ext; intros; lia).
  assert (C2 : map sh_toff sh = map (toff_spec ps) (seq 0 (length ps))) by (rewrite S2; apply map_ext; intros; lia).
  rewrite C1, C2. split; [|repeat split; reflexivity].
  unfold Payload. cbn [m_times m_amps m_tmpl m_clu]. repeat split; try reflexivity.
  - unfold clu. apply map_ext. intros s. rewrite Nat.sub_0_r. lia.
  - apply map_ext. intros s. rewrite Nat.sub_0_r. lia.
Qed.
End Master.

(* ---------------------------------------------------------------------------------------------
   F. consequences: order by positions, disjoint id intervals, cluster_probes
   --------------------------------------------------------------------------------------------- *)
Lemma SSorted_nth {X} (R : X -> X -> Prop) l : StronglySorted R l ->
  forall j1 j2 x1 x2, (j1 < j2)%nat -> nth_error l j1 = Some x1 -> nth_error l j2 = Some x2 -> R x1 x2.
Proof.
  induction 1 as [|x l Hs IH Hx]; intros j1 j2 x1 x2 Hlt H1 H2; [destruct j1; discriminate|].
  destruct j2 as [|j2]; [lia|]. cbn [nth_error] in H2. destruct j1 as [|j1]; cbn [nth_error] in H1.
  - injection H1 as <-. rewrite Forall_forall in Hx. apply Hx. eapply nth_error_In; exact H2.
  - apply (IH j1 j2); [lia|assumption|assumption].
Qed.

Section Conseq.
Context {A V F : Type}.
Notation probe := (probe A V F).
Notation merged := (merged A V F).
Notation tagged := (tagged A).

Lemma lt3_irrefl (s : tagged) : ~ lt3 s s.
Proof. unfold lt3, taglt. lia. Qed.
Lemma lt3_asym (a b : tagged) : lt3 a b -> ~ lt3 b a.
Proof. unfold lt3, taglt. lia. Qed.

(* positions in a (time, probe, index)-sorted list are ordered exactly as lt3 orders the spikes *)
Lemma lt3_positions (M : list tagged) : StronglySorted (@lt3 A) M ->
  forall j1 j2 s1 s2, nth_error M j1 = Some s1 -> nth_error M j2 = Some s2 -> ((j1 < j2)%nat <-> lt3 s1 s2).
Proof.
  intros HS j1 j2 s1 s2 H1 H2. split.
  - intros Hlt. exact (SSorted_nth _ _ HS _ _ _ _ Hlt H1 H2).
  - intros L. destruct (lt_eq_lt_dec j1 j2) as [[Hlt|Heq]|Hgt]; [exact Hlt| |].
    + subst j2. rewrite H1 in H2. injection H2 as <-. now apply lt3_irrefl in L.
    + pose proof (SSorted_nth _ _ HS _ _ _ _ Hgt H2 H1) as L'. now apply lt3_asym in L.
Qed.

Lemma lt3_times_sorted (M : list tagged) : StronglySorted (@lt3 A) M -> StronglySorted Z.le (map (@t_time A) M).
Proof.
  induction 1 as [|x l Hs IH Hx]; cbn [map]; constructor; [exact IH|].
  rewrite Forall_forall in *. intros t Ht. apply in_map_iff in Ht as (y & <- & Hy).
  destruct (Hx y Hy) as [L|[E _]]; lia.
Qed.

Lemma taglt_irrefl (s : tagged) : ~ taglt s s.
Proof. unfold taglt. lia. Qed.
Lemma SSorted_NoDup_tags (R : list tagged) : StronglySorted (@taglt A) R ->
  NoDup (map (fun s => (t_probe s, t_idx s)) R).
Proof.
  induction 1 as [|x l Hs IH Hx]; cbn [map]; constructor; [|exact IH].
  intros Hin. apply in_map_iff in Hin as (y & E & Hy). rewrite Forall_forall in Hx. specialize (Hx y Hy).
  injection E as E1 E2. unfold taglt in Hx. lia.
Qed.

(* ids of an earlier probe, shifted, lie strictly below the shifted ids of a later probe *)
Lemma goff_disjoint (ids : probe -> list Z) (ps : list probe) j k pj pk :
  (j < k)%nat -> nth_error ps j = Some pj -> nth_error ps k = Some pk ->
  (forall c, In c (ids pk) -> 0 <= c) ->
  goff ids ps j + zmaxl (ids pj) < goff ids ps k /\
  (forall c, In c (ids pj) -> goff ids ps j + c <= goff ids ps j + zmaxl (ids pj)) /\
  (forall c, In c (ids pk) -> goff ids ps k <= goff ids ps k + c).
Proof.
  intros Hlt Hj Hk Hp. pose proof (goff_step ids ps j pj Hj) as G. pose proof (goff_mono ids ps (S j) k ltac:(lia)).
  unfold n_ids in G. split; [lia|]. split; intros c Hc; [pose proof (zmaxl_ge _ _ Hc); lia|specialize (Hp c Hc); lia].
Qed.

Lemma cp_spec_nth (ps : list probe) : forall i k p c, nth_error ps k = Some p ->
  coff_spec ps k <= c < coff_spec ps k + n_ids (clu_ids p) ->
  nth_error (cp_spec i ps) (Z.to_nat c) = Some (i + Z.of_nat k).
Proof.
  induction ps as [|q r IH]; intros i k p c Hk Hc; [destruct k; discriminate|].
  pose proof (n_ids_pos (clu_ids q)) as Hq. cbn [cp_spec]. destruct k as [|k]; cbn [nth_error] in Hk.
  - injection Hk as ->. rewrite coff_goff, goff_0 in Hc. rewrite nth_error_app1 by (rewrite repeat_length; lia).
    rewrite (nth_error_nth' _ i) by (rewrite repeat_length; lia). rewrite nth_repeat. f_equal. lia.
  - rewrite coff_goff, goff_S, <- coff_goff in Hc.
    assert (0 <= coff_spec r k).
    { rewrite coff_goff. pose proof (goff_mono (@clu_ids A V F) r 0 k (Nat.le_0_l _)) as G. rewrite goff_0 in G. exact G. }
    rewrite nth_error_app2 by (rewrite repeat_length; lia).
    rewrite repeat_length. replace (Z.to_nat c - Z.to_nat (n_ids (clu_ids q)))%nat with (Z.to_nat (c - n_ids (clu_ids q))) by lia.
    rewrite (IH (i + 1) k p (c - n_ids (clu_ids q)) Hk) by lia. f_equal. lia.
Qed.

Lemma cp_spec_inv (ps : list probe) : forall i c k', nth_error (cp_spec i ps) c = Some k' ->
  exists k p, k' = i + Z.of_nat k /\ nth_error ps k = Some p /\
              coff_spec ps k <= Z.of_nat c < coff_spec ps k + n_ids (clu_ids p).
Proof.
  induction ps as [|q r IH]; intros i c k' H; [destruct c; discriminate|].
  pose proof (n_ids_pos (clu_ids q)) as Hq. cbn [cp_spec] in H.
  destruct (lt_dec c (Z.to_nat (n_ids (clu_ids q)))) as [L|L].
  - rewrite nth_error_app1 in H by (rewrite repeat_length; lia).
    apply nth_error_In, repeat_spec in H. exists 0%nat, q. rewrite coff_goff, goff_0. cbn [nth_error].
    split; [lia|]. split; [reflexivity|lia].
  - rewrite nth_error_app2 in H by (rewrite repeat_length; lia). rewrite repeat_length in H.
    destruct (IH _ _ _ H) as (k & p & E & Hk & Hc). exists (S k), p. cbn [nth_error].
    rewrite coff_goff, goff_S, <- coff_goff. split; [lia|]. split; [exact Hk|lia].
Qed.
End Conseq.

(* ---------------------------------------------------------------------------------------------
   G. the statements of Props.v
   --------------------------------------------------------------------------------------------- *)
Section Final.
Context {A V F : Type}.
Notation probe := (probe A V F).
Notation merged := (merged A V F).
Notation tagged := (tagged A).

Definition tagpair (s : tagged) : nat * nat := (t_probe s, t_idx s).

Theorem thm_permutation (ps : list probe) : wf ps ->
  exists m M, merge ps = Some m /\ Payload ps m M /\ Permutation M (tagged_concat ps) /\
              NoDup (map tagpair (tagged_concat ps)) /\ NoDup (map tagpair M).
Proof.
  intros H. destruct (merge_spec ps H) as (m & Hm & HP & _). exists m, (sorted_tagged (tagged_concat ps)).
  pose proof (sorted_tagged_perm (tagged_concat ps)) as P.
  pose proof (SSorted_NoDup_tags _ (tagged_from_sorted 0 ps)) as N. fold (tagged_concat ps) in N.
  split; [exact Hm|]. split; [exact HP|]. split; [exact P|]. split; [exact N|].
  eapply Permutation_NoDup; [|exact N]. apply Permutation_map. now apply Permutation_sym.
Qed.

Theorem thm_sorted_stable (ps : list probe) : wf ps ->
  exists m M, merge ps = Some m /\ Payload ps m M /\ Permutation M (tagged_concat ps) /\
              StronglySorted (@lt3 A) M /\ StronglySorted Z.le (m_times m).
Proof.
  intros H. destruct (merge_spec ps H) as (m & Hm & HP & _). exists m, (sorted_tagged (tagged_concat ps)).
  pose proof (sorted_tagged_lt3 _ (tagged_from_sorted 0 ps)) as S. fold (tagged_concat ps) in S.
  split; [exact Hm|]. split; [exact HP|]. split; [apply sorted_tagged_perm|]. split; [exact S|].
  destruct HP as (-> & _). now apply lt3_times_sorted.
Qed.

Theorem thm_same_probe_order (M : list tagged) : StronglySorted (@lt3 A) M ->
  forall j1 j2 s1 s2, nth_error M j1 = Some s1 -> nth_error M j2 = Some s2 ->
  t_probe s1 = t_probe s2 -> (t_idx s1 < t_idx s2)%nat -> t_time s1 <= t_time s2 -> (j1 < j2)%nat.
Proof.
  intros HS j1 j2 s1 s2 H1 H2 Ep Ei Et. apply (lt3_positions M HS j1 j2 s1 s2 H1 H2).
  unfold lt3, taglt. lia.
Qed.

Theorem thm_ties_by_probe (M : list tagged) : StronglySorted (@lt3 A) M ->
  forall j1 j2 s1 s2, nth_error M j1 = Some s1 -> nth_error M j2 = Some s2 ->
  t_time s1 = t_time s2 -> (t_probe s1 < t_probe s2)%nat -> (j1 < j2)%nat.
Proof.
  intros HS j1 j2 s1 s2 H1 H2 Et Ep. apply (lt3_positions M HS j1 j2 s1 s2 H1 H2).
  unfold lt3, taglt. lia.
Qed.

Theorem thm_payload (ps : list probe) : wf ps ->
  exists m M, merge ps = Some m /\ Permutation M (tagged_concat ps) /\
    m_times m = map (@t_time A) M /\ m_amps m = map (@t_amp A) M /\
    m_clu m = map (fun s => t_clu s + coff_spec ps (t_probe s)) M /\
    m_tmpl m = map (fun s => t_tmpl s + toff_spec ps (t_probe s)) M /\
    m_coffs m = map (coff_spec ps) (seq 0 (length ps)) /\ m_toffs m = map (toff_spec ps) (seq 0 (length ps)).
Proof.
  intros H. destruct (merge_spec ps H) as (m & Hm & (P1 & P2 & P3 & P4) & C1 & C2 & _).
  exists m, (sorted_tagged (tagged_concat ps)). repeat split; try assumption. apply sorted_tagged_perm.
Qed.

Theorem thm_disjoint (ps : list probe) : Forall wf_probe ps ->
  forall j k pj pk, (j < k)%nat -> nth_error ps j = Some pj -> nth_error ps k = Some pk ->
  (coff_spec ps j + zmaxl (p_clu pj) < coff_spec ps k /\
   coff_spec ps j + n_ids (clu_ids pj) <= coff_spec ps k /\
   (forall c, In c (p_clu pj) -> coff_spec ps j <= c + coff_spec ps j <= coff_spec ps j + zmaxl (p_clu pj)) /\
   (forall c, In c (p_clu pk) -> coff_spec ps k <= c + coff_spec ps k)) /\
  (toff_spec ps j + zmaxl (p_tmpl pj) < toff_spec ps k /\
   toff_spec ps j + p_ntmpl pj <= toff_spec ps k /\
   (forall c, In c (p_tmpl pj) -> toff_spec ps j <= c + toff_spec ps j <= toff_spec ps j + zmaxl (p_tmpl pj)) /\
   (forall c, In c (p_tmpl pk) -> toff_spec ps k <= c + toff_spec ps k)).
Proof.
  intros Hwf j k pj pk Hlt Hj Hk. pose proof (wf_ntmpl_nonneg ps Hwf) as Hnn. rewrite Forall_forall in Hwf.
  pose proof (Hwf _ (nth_error_In _ _ Hj)) as (_ & _ & _ & _ & Pcj & Ptj & _).
  pose proof (Hwf _ (nth_error_In _ _ Hk)) as (_ & _ & _ & _ & Pck & Ptk & _).
  pose proof (wf_ntmpl pj (Hwf _ (nth_error_In _ _ Hj))) as Nj.
  pose proof (goff_step (@clu_ids A V F) ps j pj Hj) as Gc.
  pose proof (goff_mono (@clu_ids A V F) ps (S j) k ltac:(lia)) as Mc.
  pose proof (zmaxl_clu_le pj) as Lj. unfold n_ids in *.
  pose proof (toff_step ps j pj Hj) as G. pose proof (toff_mono ps Hnn (S j) k ltac:(lia)) as M.
  rewrite !coff_goff. split; [split; [lia|]; split; [lia|]; split; intros c Hc|].
  - specialize (Pcj c Hc). pose proof (zmaxl_ge _ _ Hc). lia.
  - specialize (Pck c Hc). lia.
  - split; [lia|]. split; [lia|]. split; intros c Hc.
    + specialize (Ptj c Hc). pose proof (zmaxl_ge _ _ Hc). lia.
    + specialize (Ptk c Hc). lia.
Qed.

(* merged ids never collide across probes: equal merged id => same probe and same original id *)
Theorem thm_no_collision (ps : list probe) : Forall wf_probe ps -> forall s1 s2,
  In s1 (tagged_concat ps) -> In s2 (tagged_concat ps) ->
  (t_clu s1 + coff_spec ps (t_probe s1) = t_clu s2 + coff_spec ps (t_probe s2) ->
     t_probe s1 = t_probe s2 /\ t_clu s1 = t_clu s2) /\
  (t_tmpl s1 + toff_spec ps (t_probe s1) = t_tmpl s2 + toff_spec ps (t_probe s2) ->
     t_probe s1 = t_probe s2 /\ t_tmpl s1 = t_tmpl s2).
Proof.
  intros Hwf s1 s2 H1 H2. pose proof (wf_all ps Hwf) as Hlen.
  destruct (tagged_from_in 0 ps s1 Hlen H1) as (p1 & N1 & C1 & T1 & _).
  destruct (tagged_from_in 0 ps s2 Hlen H2) as (p2 & N2 & C2 & T2 & _).
  rewrite Nat.sub_0_r in *.
  destruct (lt_eq_lt_dec (t_probe s1) (t_probe s2)) as [[L|E]|L].
  - destruct (thm_disjoint ps Hwf _ _ _ _ L N1 N2) as ((D1 & _ & D2 & D3) & (E1 & _ & E2 & E3)).
    specialize (D2 _ C1). specialize (D3 _ C2). specialize (E2 _ T1). specialize (E3 _ T2). split; intros; lia.
  - rewrite E. split; intros; split; try reflexivity; lia.
  - destruct (thm_disjoint ps Hwf _ _ _ _ L N2 N1) as ((D1 & _ & D2 & D3) & (E1 & _ & E2 & E3)).
    specialize (D2 _ C2). specialize (D3 _ C1). specialize (E2 _ T2). specialize (E3 _ T1). split; intros; lia.
Qed.

Theorem thm_cluster_probes (ps : list probe) : wf ps ->
  exists m, merge ps = Some m /\ Z.of_nat (length (m_cprobes m)) = coff_spec ps (length ps) /\
    (forall k p c, nth_error ps k = Some p -> 0 <= c <= zmaxl (clu_ids p) ->
                   nth_error (m_cprobes m) (Z.to_nat (c + coff_spec ps k)) = Some (Z.of_nat k)) /\
    (forall c k', nth_error (m_cprobes m) c = Some k' ->
       exists k p, k' = Z.of_nat k /\ nth_error ps k = Some p /\ 0 <= Z.of_nat c - coff_spec ps k <= zmaxl (clu_ids p)).
Proof.
  intros H. destruct (merge_spec ps H) as (m & Hm & _ & _ & _ & C & _). exists m. rewrite C.
  split; [exact Hm|]. split; [apply cp_spec_length|]. split.
  - intros k p c Hk Hc. rewrite (cp_spec_nth ps 0 k p (c + coff_spec ps k) Hk); [f_equal; lia|unfold n_ids; lia].
  - intros c k' Hc. destruct (cp_spec_inv ps 0 c k' Hc) as (k & p & E & Hk & Hr). exists k, p.
    split; [lia|]. split; [exact Hk|unfold n_ids in Hr; lia].
Qed.
End Final.

(* ---------------------------------------------------------------------------------------------
   H. metadata renumbering
   --------------------------------------------------------------------------------------------- *)
Section DictMore.
Context {V : Type}.

Lemma find_last_in (rows : list (Z * V)) k v : find_last rows k = Some v -> In (k, v) rows.
Proof.
  induction rows as [|[k0 v0] r IH]; cbn [find_last]; [discriminate|].
  destruct (find_last r k) as [w|] eqn:E.
  - intros H; injection H as <-. right. now apply IH.
  - destruct (k =? k0) eqn:E2; [|discriminate]. intros H; injection H as <-. left. f_equal. lia.
Qed.
Lemma find_last_none (rows : list (Z * V)) k : (forall kv, In kv rows -> fst kv <> k) -> find_last rows k = None.
Proof.
  induction rows as [|[k0 v0] r IH]; intros H; cbn [find_last]; [reflexivity|].
  rewrite IH by (intros kv Hkv; apply H; now right).
  specialize (H (k0, v0) (or_introl eq_refl)). cbn [fst] in H. replace (k =? k0) with false by lia. reflexivity.
Qed.

(* reading after a sequence of shifted assignments: the last assignment to the key, else the old content *)
Lemma get_fold_set (rows : list (Z * V)) off d c :
  dict_get (fold_left (fun d kv => dict_set (fst kv + off) (snd kv) d) rows d) c =
  match find_last rows (c - off) with Some v => Some v | None => dict_get d c end.
Proof.
  revert d; induction rows as [|[k0 v0] r IH]; intros d; cbn [fold_left find_last]; [reflexivity|].
  rewrite IH. cbn [fst snd]. destruct (find_last r (c - off)); [reflexivity|].
  rewrite dict_get_set. replace (c =? k0 + off) with (c - off =? k0) by lia.
  destruct (c - off =? k0); reflexivity.
Qed.

(* the dictionary is kept strictly sorted by key: what sorted(data) returns, no duplicate ids *)
Lemma dict_set_keys k v (d : list (Z * V)) x : In x (map fst (dict_set k v d)) -> x = k \/ In x (map fst d).
Proof.
  induction d as [|[k0 v0] r IH]; cbn [dict_set map fst In]; [intuition congruence|].
  destruct (k <? k0); [cbn [map fst In]; intuition congruence|].
  destruct (k =? k0) eqn:E; cbn [map fst In]; [intuition congruence|].
  intros [H|H]; [intuition congruence|]. destruct (IH H); intuition congruence.
Qed.
Lemma dict_set_sorted k v (d : list (Z * V)) :
  StronglySorted Z.lt (map fst d) -> StronglySorted Z.lt (map fst (dict_set k v d)).
Proof.
  induction d as [|[k0 v0] r IH]; intros H; cbn [dict_set map fst]; [repeat constructor|].
  cbn [map fst] in H. pose proof H as H'. apply StronglySorted_inv in H' as [Hr Hk].
  destruct (k <? k0) eqn:E1.
  - cbn [map fst]. constructor; [exact H|]. constructor; [lia|]. rewrite Forall_forall in *. intros x Hx. specialize (Hk x Hx). lia.
  - destruct (k =? k0) eqn:E2; cbn [map fst].
    + constructor; [exact Hr|]. rewrite Forall_forall in *. intros x Hx. specialize (Hk x Hx). lia.
    + constructor; [now apply IH|]. rewrite Forall_forall in *. intros x Hx.
      destruct (dict_set_keys _ _ _ _ Hx) as [->|Hx']; [lia|now apply Hk].
Qed.
Lemma fold_set_sorted (rows : list (Z * V)) off d :
  StronglySorted Z.lt (map fst d) ->
  StronglySorted Z.lt (map fst (fold_left (fun d kv => dict_set (fst kv + off) (snd kv) d) rows d)).
Proof. revert d; induction rows as [|kv r IH]; intros d H; cbn [fold_left]; [exact H|]. apply IH. now apply dict_set_sorted. Qed.

Lemma dict_get_none_lt (d : list (Z * V)) k : Forall (fun x => k < x) (map fst d) -> dict_get d k = None.
Proof.
  induction d as [|[k0 v0] r IH]; intros H; cbn [dict_get]; [reflexivity|]. cbn [map fst] in H.
  inversion H; subst. replace (k =? k0) with false by lia. now apply IH.
Qed.
Lemma find_last_sorted (d : list (Z * V)) k : StronglySorted Z.lt (map fst d) -> find_last d k = dict_get d k.
Proof.
  induction d as [|[k0 v0] r IH]; intros H; cbn [find_last dict_get]; [reflexivity|].
  cbn [map fst] in H. apply StronglySorted_inv in H as [Hr Hk]. rewrite (IH Hr).
  destruct (k =? k0) eqn:E.
  - rewrite dict_get_none_lt; [reflexivity|]. eapply Forall_impl; [|exact Hk]. intros; lia.
  - destruct (dict_get r k); reflexivity.
Qed.

Lemma get_fold_set0 (rows : list (Z * V)) d k :
  dict_get (fold_left (fun d kv => dict_set (fst kv) (snd kv) d) rows d) k =
  match find_last rows k with Some v => Some v | None => dict_get d k end.
Proof.
  revert d; induction rows as [|[k0 v0] r IH]; intros d; cbn [fold_left find_last]; [reflexivity|].
  rewrite IH. cbn [fst snd]. destruct (find_last r k); [reflexivity|].
  rewrite dict_get_set. destruct (k =? k0); reflexivity.
Qed.
Lemma read_rows_get (rows : list (Z * V)) k : dict_get (read_rows rows) k = find_last rows k.
Proof. unfold read_rows. rewrite get_fold_set0. cbn [dict_get]. destruct (find_last rows k); reflexivity. Qed.
Lemma read_rows_sorted (rows : list (Z * V)) : StronglySorted Z.lt (map fst (read_rows rows)).
Proof.
  unfold read_rows. assert (G : forall d, StronglySorted Z.lt (map fst d) ->
    StronglySorted Z.lt (map fst (fold_left (fun d kv => dict_set (fst kv) (snd kv) d) rows d))).
  { induction rows as [|kv r IH]; intros d H; cbn [fold_left]; [exact H|]. apply IH. now apply dict_set_sorted. }
  apply G. constructor.
Qed.
End DictMore.

Section Meta.
Context {A V F : Type}.
Notation probe := (probe A V F).
Notation metatab := (metatab V F).
Variable f : nat.

(* the value written last for the merged id c: the last probe (in order) whose file has a row for c - offset *)
Fixpoint last_hit (l : list (probe * Z)) (c : Z) : option V :=
  match l with
  | [] => None
  | (p, off) :: r =>
      match last_hit r c with
      | Some v => Some v
      | None => match meta_of f p with Some mt => find_last (mt_rows mt) (c - off) | None => None end
      end
  end.

Lemma meta_fold_get (l : list (probe * Z)) st c :
  dict_get (ms_dict (fold_left (meta_step f) l st)) c =
  match last_hit l c with Some v => Some v | None => dict_get (ms_dict st) c end.
Proof.
  revert st; induction l as [|[p off] r IH]; intros st; cbn [fold_left last_hit]; [reflexivity|].
  rewrite IH. destruct (last_hit r c); [reflexivity|].
  unfold meta_step, meta_of. cbn [fst snd]. destruct (nth f (p_meta p) None) as [mt|]; [|reflexivity].
  cbn [ms_dict]. rewrite get_fold_set, (find_last_sorted _ _ (read_rows_sorted _)), read_rows_get. reflexivity.
Qed.

Lemma meta_fold_inv (l : list (probe * Z)) st :
  (ms_field st = None -> ms_dict st = []) ->
  ms_field (fold_left (meta_step f) l st) = None -> ms_dict (fold_left (meta_step f) l st) = [].
Proof.
  revert st; induction l as [|[p off] r IH]; intros st H; cbn [fold_left]; [exact H|].
  apply IH. unfold meta_step. cbn [fst snd]. destruct (nth f (p_meta p) None); [cbn; discriminate|exact H].
Qed.

Lemma meta_fold_sorted (l : list (probe * Z)) st :
  StronglySorted Z.lt (map fst (ms_dict st)) -> StronglySorted Z.lt (map fst (ms_dict (fold_left (meta_step f) l st))).
Proof.
  revert st; induction l as [|[p off] r IH]; intros st H; cbn [fold_left]; [exact H|].
  apply IH. unfold meta_step. cbn [fst snd]. destruct (nth f (p_meta p) None); [|exact H].
  cbn [ms_dict]. now apply fold_set_sorted.
Qed.

Variable ps : list probe.
Definition pairs_from (k0 : nat) (ps' : list probe) : list (probe * Z) :=
  combine ps' (map (coff_spec ps) (seq k0 (length ps'))).

Lemma pairs_from_cons k0 p r : pairs_from k0 (p :: r) = (p, coff_spec ps k0) :: pairs_from (S k0) r.
Proof. reflexivity. Qed.

Hypothesis Hwf : Forall wf_probe ps.
Hypothesis Hf : (f < n_meta_files)%nat.
Hypothesis Hrange : meta_nonneg f ps.

(* a row of one of the probe's metadata files names one of the probe's cluster ids *)
Lemma meta_row_id (p : probe) mt kv : meta_of f p = Some mt -> In kv (mt_rows mt) -> fst kv <= zmaxl (clu_ids p).
Proof.
  intros Hm Hkv. apply zmaxl_ge. unfold clu_ids. apply in_app_iff. right. unfold meta_ids. apply in_flat_map.
  exists f. split; [apply in_seq; lia|]. unfold meta_of in Hm. rewrite Hm. now apply in_map.
Qed.

Lemma no_hit (r : list probe) : forall k1 c, (forall p, In p r -> In p ps) -> c < coff_spec ps k1 ->
  last_hit (pairs_from k1 r) c = None.
Proof.
  induction r as [|p r IH]; intros k1 c Hin Hc; [reflexivity|].
  rewrite pairs_from_cons. cbn [last_hit].
  rewrite IH; [|intros q Hq; apply Hin; now right|].
  - destruct (meta_of f p) as [mt|] eqn:E; [|reflexivity]. apply find_last_none. intros kv Hkv.
    pose proof (Hrange p mt kv (Hin p (or_introl eq_refl)) E Hkv). lia.
  - pose proof (goff_mono (@clu_ids A V F) ps k1 (S k1) ltac:(lia)). rewrite !coff_goff in *. lia.
Qed.

Lemma hit_forward (ps' : list probe) : forall k0,
  (forall j p, nth_error ps' j = Some p -> nth_error ps (k0 + j) = Some p) ->
  forall k p mt id v, nth_error ps' k = Some p -> meta_of f p = Some mt -> find_last (mt_rows mt) id = Some v ->
  last_hit (pairs_from k0 ps') (id + coff_spec ps (k0 + k)) = Some v.
Proof.
  induction ps' as [|q r IH]; intros k0 Hsub k p mt id v Hk Hm Hv; [destruct k; discriminate|].
  rewrite pairs_from_cons. cbn [last_hit]. destruct k as [|k]; cbn [nth_error] in Hk.
  - injection Hk as ->. rewrite Nat.add_0_r.
    pose proof (Hsub 0%nat p eq_refl) as Hp. rewrite Nat.add_0_r in Hp.
    pose proof (meta_row_id p mt (id, v) Hm (find_last_in _ _ _ Hv)) as Hr. cbn [fst] in Hr.
    rewrite no_hit.
    + rewrite Hm. replace (id + coff_spec ps k0 - coff_spec ps k0) with id by lia. exact Hv.
    + intros q Hq. apply In_nth_error in Hq as (j & Hj). eapply nth_error_In. apply (Hsub (S j)). exact Hj.
    + pose proof (goff_step (@clu_ids A V F) ps k0 p Hp) as G. rewrite !coff_goff. unfold n_ids in G. lia.
  - replace (k0 + S k)%nat with (S k0 + k)%nat by lia.
    assert (Hsub' : forall j p', nth_error r j = Some p' -> nth_error ps (S k0 + j) = Some p').
    { intros j p' Hj. replace (S k0 + j)%nat with (k0 + S j)%nat by lia. apply Hsub. exact Hj. }
    rewrite (IH (S k0) Hsub' k p mt id v Hk Hm Hv). reflexivity.
Qed.

Lemma hit_backward (ps' : list probe) : forall k0 c v, last_hit (pairs_from k0 ps') c = Some v ->
  exists k p mt, nth_error ps' k = Some p /\ meta_of f p = Some mt /\
                 find_last (mt_rows mt) (c - coff_spec ps (k0 + k)) = Some v.
Proof.
  induction ps' as [|q r IH]; intros k0 c v H; [discriminate|].
  rewrite pairs_from_cons in H. cbn [last_hit] in H. destruct (last_hit (pairs_from (S k0) r) c) as [w|] eqn:E.
  - injection H as ->. destruct (IH _ _ _ E) as (k & p & mt & Hk & Hm & Hv). exists (S k), p, mt.
    replace (k0 + S k)%nat with (S k0 + k)%nat by lia. cbn [nth_error]. repeat split; assumption.
  - destruct (meta_of f q) as [mt|] eqn:Em; [|discriminate]. exists 0%nat, q, mt. rewrite Nat.add_0_r.
    cbn [nth_error]. repeat split; assumption.
Qed.

Theorem thm_metadata :
  let out := meta_file f ps (map (coff_spec ps) (seq 0 (length ps))) in
  Meta_spec f ps out /\
  match out with Some mt => mt_rows mt <> [] /\ StronglySorted Z.lt (map fst (mt_rows mt)) /\
                            (exists p mt', In p ps /\ meta_of f p = Some mt' /\ mt_field mt = mt_field mt')
               | None => forall p mt', In p ps -> meta_of f p = Some mt' -> mt_rows mt' = [] end.
Proof.
  cbn zeta. unfold meta_file. fold (pairs_from 0 ps).
  set (st := fold_left (meta_step f) (pairs_from 0 ps) (mkms None [])).
  assert (Hget : forall c, dict_get (ms_dict st) c = last_hit (pairs_from 0 ps) c).
  { intros c. unfold st. rewrite meta_fold_get. cbn [ms_dict dict_get]. destruct (last_hit (pairs_from 0 ps) c); reflexivity. }
  assert (Hinv : ms_field st = None -> ms_dict st = []) by (apply meta_fold_inv; reflexivity).
  assert (Hsorted : StronglySorted Z.lt (map fst (ms_dict st))) by (apply meta_fold_sorted; constructor).
  assert (Hout : forall c, match (match ms_dict st, ms_field st with
                                  | _ :: _, Some fld => Some (mkmeta fld (ms_dict st)) | _, _ => None end) with
                           | Some mt => dict_get (mt_rows mt) c | None => None end = dict_get (ms_dict st) c).
  { intros c. destruct (ms_dict st) as [|x d] eqn:Ed; [reflexivity|].
    destruct (ms_field st) eqn:Ef; [reflexivity|]. specialize (Hinv eq_refl). discriminate. }
  split; [split|].
  - intros k p mt id v Hk Hm Hv. rewrite Hout, Hget.
    apply (hit_forward ps 0 (fun j p H => H) k p mt id v Hk Hm Hv).
  - intros c v Hc. rewrite Hout, Hget in Hc. destruct (hit_backward ps 0 c v Hc) as (k & p & mt & Hk & Hm & Hv).
    exists k, p, mt. repeat split; assumption.
  - destruct (ms_dict st) as [|x d] eqn:Ed.
    + (* nothing written: every present file has no rows *)
      intros p mt' Hp Hm. destruct (mt_rows mt') as [|[id v] rows'] eqn:Er; [reflexivity|exfalso].
      apply In_nth_error in Hp as (k & Hk).
      assert (Hv : exists w, find_last (mt_rows mt') id = Some w).
      { rewrite Er. cbn [find_last]. destruct (find_last rows' id); [eauto|]. rewrite Z.eqb_refl. eauto. }
      destruct Hv as (w & Hw).
      pose proof (hit_forward ps 0 (fun j p H => H) k p mt' id w Hk Hm Hw) as Hh.
      rewrite <- Hget in Hh. discriminate.
    + destruct (ms_field st) as [fld|] eqn:Ef; [|specialize (Hinv eq_refl); discriminate].
      cbn [mt_rows mt_field]. split; [discriminate|]. split; [exact Hsorted|].
      (* the field name is the header of one of the probes that have the file *)
      clear - Ef. unfold st in Ef.
      assert (G : forall l s0, ms_field (fold_left (meta_step f) l s0) = Some fld ->
                  ms_field s0 = Some fld \/
                  exists (p : probe) (mt' : metatab), In p (map fst l) /\ meta_of f p = Some mt' /\ fld = mt_field mt').
      { induction l as [|[p off] r IH]; intros s0 H; cbn [fold_left] in H; [now left|].
        destruct (IH _ H) as [H0|(p' & mt' & Hp' & Hm' & E)].
        - unfold meta_step in H0. cbn [fst snd] in H0. destruct (nth f (p_meta p) None) as [mt'|] eqn:Em.
          + cbn [ms_field] in H0. injection H0 as <-. right. exists p, mt'. cbn [map fst]. split; [now left|]. split; [exact Em|reflexivity].
          + now left.
        - right. exists p', mt'. cbn [map fst]. split; [now right|]. split; assumption. }
      destruct (G _ _ Ef) as [H0|(p & mt' & Hp & Hm & E)]; [discriminate|].
      exists p, mt'. split; [|split; assumption]. unfold pairs_from in Hp.
      apply in_map_iff in Hp as ([p' o] & <- & Hpo). cbn [fst]. eapply in_combine_l. exact Hpo.
Qed.
End Meta.

Section FinalMeta.
Context {A V F : Type}.
Notation probe := (probe A V F).

Definition Meta_out (f : nat) (ps : list probe) (out : option (metatab V F)) : Prop :=
  Meta_spec f ps out /\
  match out with
  | Some mt => mt_rows mt <> [] /\ StronglySorted Z.lt (map fst (mt_rows mt)) /\
               (exists p mt', In p ps /\ meta_of f p = Some mt' /\ mt_field mt = mt_field mt')
  | None => forall p mt', In p ps -> meta_of f p = Some mt' -> mt_rows mt' = []
  end.

Theorem thm_metadata_merge (ps : list probe) : wf ps ->
  exists m, merge ps = Some m /\ length (m_meta m) = n_meta_files /\
    forall f, (f < n_meta_files)%nat -> meta_nonneg f ps -> Meta_out f ps (nth f (m_meta m) None).
Proof.
  intros H. destruct (merge_spec ps H) as (m & Hm & _ & _ & _ & _ & E). exists m. split; [exact Hm|].
  rewrite E. split; [reflexivity|]. intros f Hf Hr.
  assert (G : nth f (map (fun f0 => meta_file f0 ps (map (coff_spec ps) (seq 0 (length ps)))) (seq 0 n_meta_files)) None
              = meta_file f ps (map (coff_spec ps) (seq 0 (length ps)))).
  { unfold n_meta_files in *. destruct f as [|[|[|f]]]; try reflexivity. lia. }
  rewrite G. exact (thm_metadata f ps Hf Hr).
Qed.
End FinalMeta.

(* ---------------------------------------------------------------------------------------------
   I. what the tagged list contains: exactly the entries of the input arrays, tagged by position
   --------------------------------------------------------------------------------------------- *)
Section Tags.
Context {A V F : Type}.
Notation probe := (probe A V F).
Notation tagged := (tagged A).

Definition is_entry (k i0 : nat) (ts : list Z) (am : list A) (tm cl : list Z) (s : tagged) : Prop :=
  t_probe s = k /\ (i0 <= t_idx s)%nat /\
  nth_error ts (t_idx s - i0) = Some (t_time s) /\ nth_error am (t_idx s - i0) = Some (t_amp s) /\
  nth_error tm (t_idx s - i0) = Some (t_tmpl s) /\ nth_error cl (t_idx s - i0) = Some (t_clu s).

Lemma tag_spikes_in k (ts : list Z) : forall i0 (am : list A) (tm cl : list Z) s,
  length am = length ts -> length tm = length ts -> length cl = length ts ->
  (In s (tag_spikes k i0 ts am tm cl) <-> is_entry k i0 ts am tm cl s).
Proof.
  induction ts as [|t ts IH]; intros i0 [|a am] [|m tm] [|c cl] s L1 L2 L3; try discriminate.
  - cbn [tag_spikes In]. split; [contradiction|]. intros (_ & _ & H & _). destruct (t_idx s - i0)%nat; discriminate.
  - cbn [length] in *. cbn [tag_spikes In]. rewrite (IH (S i0) am tm cl s) by lia. unfold is_entry. split.
    + intros [<-|(E & L & H1 & H2 & H3 & H4)].
      * cbn [t_probe t_idx t_time t_amp t_tmpl t_clu]. rewrite Nat.sub_diag. cbn [nth_error]. repeat split; try reflexivity; try lia.
      * replace (t_idx s - i0)%nat with (S (t_idx s - S i0)) by lia. cbn [nth_error]. repeat split; try assumption. lia.
    + intros (E & L & H1 & H2 & H3 & H4). destruct (Nat.eq_dec (t_idx s) i0) as [Ei|Ne].
      * left. rewrite Ei, Nat.sub_diag in *. cbn [nth_error] in *. destruct s; cbn in *. congruence.
      * right. replace (t_idx s - i0)%nat with (S (t_idx s - S i0)) in * by lia. cbn [nth_error] in *.
        repeat split; try assumption. lia.
Qed.

Definition is_input (ps : list probe) (k0 : nat) (s : tagged) : Prop :=
  exists p, (k0 <= t_probe s)%nat /\ nth_error ps (t_probe s - k0) = Some p /\
    nth_error (p_times p) (t_idx s) = Some (t_time s) /\ nth_error (p_amps p) (t_idx s) = Some (t_amp s) /\
    nth_error (p_tmpl p) (t_idx s) = Some (t_tmpl s) /\ nth_error (p_clu p) (t_idx s) = Some (t_clu s).

Lemma tagged_from_iff (ps : list probe) : Forall wf_len ps -> forall k0 s, In s (tagged_from k0 ps) <-> is_input ps k0 s.
Proof.
  induction 1 as [|p r (L1 & L2 & L3) Hr IH]; intros k0 s; cbn [tagged_from].
  - split; [contradiction|]. intros (p & _ & H & _). destruct (t_probe s - k0)%nat; discriminate.
  - rewrite in_app_iff. unfold tag_probe. rewrite (tag_spikes_in k0 _ 0 _ _ _ s L1 L2 L3), (IH (S k0) s).
    unfold is_entry, is_input. rewrite !Nat.sub_0_r. split.
    + intros [(E & _ & H)|(q & L & Hq & H)].
      * exists p. rewrite E, Nat.sub_diag. cbn [nth_error]. split; [lia|]. split; [reflexivity|exact H].
      * exists q. replace (t_probe s - k0)%nat with (S (t_probe s - S k0)) by lia. cbn [nth_error].
        split; [lia|]. split; [exact Hq|exact H].
    + intros (q & L & Hq & H). destruct (Nat.eq_dec (t_probe s) k0) as [E|Ne].
      * left. rewrite E, Nat.sub_diag in Hq. cbn [nth_error] in Hq. injection Hq as <-.
        split; [exact E|]. split; [lia|exact H].
      * right. exists q. replace (t_probe s - k0)%nat with (S (t_probe s - S k0)) in Hq by lia. cbn [nth_error] in Hq.
        split; [lia|]. split; [exact Hq|exact H].
Qed.

Theorem thm_input_spikes (ps : list probe) : Forall wf_len ps -> forall s,
  In s (tagged_concat ps) <->
  exists p, nth_error ps (t_probe s) = Some p /\
    nth_error (p_times p) (t_idx s) = Some (t_time s) /\ nth_error (p_amps p) (t_idx s) = Some (t_amp s) /\
    nth_error (p_tmpl p) (t_idx s) = Some (t_tmpl s) /\ nth_error (p_clu p) (t_idx s) = Some (t_clu s).
Proof.
  intros H s. unfold tagged_concat. rewrite (tagged_from_iff ps H 0 s). unfold is_input. rewrite Nat.sub_0_r.
  split; intros (p & Hp); exists p; [tauto|]. split; [lia|tauto].
Qed.
End Tags.
