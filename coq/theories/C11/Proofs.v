(* C11/Proofs.v -- lemmas and main proofs *)
From Coq Require Import ZArith List Bool Sorted Permutation Lia Arith.
From PV Require Import Base.NpSort Base.NpSearch C11.Model C11.Spec.
Import ListNotations.
Open Scope Z_scope.

Section Dict.
Context {V : Type}.

(* dictionary assignment then read: the new value at k, everything else untouched (no sortedness needed) *)
Lemma dict_get_set (d : list (Z * V)) k v k' :
  dict_get (dict_set k v d) k' = if k' =? k then Some v else dict_get d k'.
Proof.
  induction d as [|[k0 v0] r IH]; cbn [dict_set dict_get]; [reflexivity|].
  destruct (k <? k0) eqn:E1; cbn [dict_get]; [reflexivity|].
  destruct (k =? k0) eqn:E2; cbn [dict_get].
  - destruct (k' =? k) eqn:E3; [reflexivity|]. replace (k' =? k0) with false by lia. reflexivity.
  - rewrite IH. destruct (k' =? k0) eqn:E3; [|reflexivity].
    replace (k' =? k) with false by lia. reflexivity.
Qed.
End Dict.
