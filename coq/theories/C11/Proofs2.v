(* C11/Proofs2.v -- error exits; the spikes of one probe as a sub-sequence of the merged output *)
From Coq Require Import ZArith List Bool Sorted Permutation Lia Arith.
From PV Require Import Base.NpSort Base.NpSearch C11.Model C11.Spec C11.Proofs.
Import ListNotations.
Open Scope Z_scope.

Section ErrorExits.
Context {A V F : Type}.
Notation probe := (probe A V F).

Lemma zmax_opt_none l : zmax_opt l = None <-> l = [].
Proof. destruct l; cbn [zmax_opt]; split; congruence. Qed.

Lemma sc_loop_some (ps : list probe) : forall i c t sh, sc_loop i c t ps = Some sh ->
  Forall (fun p => p_clu p <> []) ps.
Proof.
  induction ps as [|p r IH]; intros i c t sh H; [constructor|]. cbn [sc_loop] in H.
  destruct (n_clu_of p) as [nc|] eqn:Ec; [|discriminate].
  destruct (nc <? 0); [discriminate|].
  destruct (sc_loop (i + 1) (c + nc) (t + p_ntmpl p) r) as [rest|] eqn:Er; [|discriminate].
  constructor; [|eapply IH; exact Er].
  intros E; unfold n_clu_of in Ec; rewrite E in Ec; discriminate.
Qed.

(* the error exits: no probe at all (assert subdirs); a probe without spikes (np.max of its empty spike_clusters; the
   repaired code no longer evaluates np.max(spike_templates), so an empty spike_templates alone is an error exit only
   together with the equal lengths of the probe's per-spike arrays) *)
Theorem thm_error_exits : merge (@nil probe) = None /\
  forall (ps : list probe) p, In p ps -> p_clu p = [] \/ (wf_len p /\ p_tmpl p = []) -> merge ps = None.
Proof.
  split; [reflexivity|]. intros ps p Hp He.
  assert (Hc : p_clu p = []).
  { destruct He as [E|[(_ & L2 & L3) E]]; [exact E|]. rewrite E in L2. cbn [length] in L2. rewrite <- L2 in L3.
    destruct (p_clu p); [reflexivity|discriminate]. }
  destruct (merge ps) as [m|] eqn:E; [exfalso|reflexivity].
  unfold merge, merge_core in E. destruct ps as [|p0 r0]; [discriminate|].
  destruct (take _ _); [|discriminate]. destruct (load_spike_arrays (map _ _) _); [|discriminate].
  destruct (load_spike_arrays (map _ _) _); [|discriminate].
  destruct (sc_loop 0 0 0 (p0 :: r0)) as [sh|] eqn:Es; [|discriminate].
  apply sc_loop_some in Es. rewrite Forall_forall in Es. exact (Es p Hp Hc).
Qed.
End ErrorExits.

(* two lists strictly sorted for an asymmetric relation that are permutations of each other are equal *)
Lemma SSorted_perm_eq {X} (R : X -> X -> Prop) : (forall a b, R a b -> ~ R b a) ->
  forall l1 l2, StronglySorted R l1 -> StronglySorted R l2 -> Permutation l1 l2 -> l1 = l2.
Proof.
  intros Hasym. induction l1 as [|x l1 IH]; intros l2 S1 S2 P.
  - apply Permutation_nil in P. now subst.
  - destruct l2 as [|y l2]; [apply Permutation_sym, Permutation_nil in P; discriminate|].
    apply StronglySorted_inv in S1 as [S1 Hx]. apply StronglySorted_inv in S2 as [S2 Hy].
    rewrite Forall_forall in Hx, Hy.
    assert (E : x = y).
    { pose proof (Permutation_in x P (or_introl eq_refl)) as [E|Hx2]; [now symmetry|].
      pose proof (Permutation_in y (Permutation_sym P) (or_introl eq_refl)) as [E|Hy1]; [exact E|].
      exfalso. exact (Hasym _ _ (Hx _ Hy1) (Hy _ Hx2)). }
    subst y. f_equal. apply IH; [exact S1|exact S2|]. eapply Permutation_cons_inv; exact P.
Qed.

Lemma SSorted_filter {X} (R : X -> X -> Prop) f l : StronglySorted R l -> StronglySorted R (filter f l).
Proof.
  induction 1 as [|x l S IH Hx]; cbn [filter]; [constructor|]. destruct (f x); [|exact IH].
  constructor; [exact IH|]. rewrite Forall_forall in *. intros y Hy. apply filter_In in Hy as [Hy _]. now apply Hx.
Qed.

Lemma Perm_filter {X} (f : X -> bool) l1 l2 : Permutation l1 l2 -> Permutation (filter f l1) (filter f l2).
Proof.
  induction 1 as [|x l1 l2 P IH|x y l|l1 l2 l3 P1 IH1 P2 IH2]; cbn [filter].
  - constructor.
  - destruct (f x); [now constructor|exact IH].
  - destruct (f x), (f y); try reflexivity. apply perm_swap.
  - now transitivity (filter f l2).
Qed.

Section SameProbe.
Context {A V F : Type}.
Notation probe := (probe A V F).
Notation tagged := (tagged A).

Definition of_probe (k : nat) (s : tagged) : bool := Nat.eqb (t_probe s) k.

Lemma filter_all {X} (f : X -> bool) l : (forall x, In x l -> f x = true) -> filter f l = l.
Proof.
  induction l as [|x l IH]; intros H; cbn [filter]; [reflexivity|].
  rewrite (H x (or_introl eq_refl)). f_equal. apply IH. intros y Hy. apply H. now right.
Qed.
Lemma filter_nothing {X} (f : X -> bool) l : (forall x, In x l -> f x = false) -> filter f l = [].
Proof.
  induction l as [|x l IH]; intros H; cbn [filter]; [reflexivity|].
  rewrite (H x (or_introl eq_refl)). apply IH. intros y Hy. apply H. now right.
Qed.

Lemma filter_tagged_from (ps : list probe) : forall k0 k p, nth_error ps k = Some p ->
  filter (of_probe (k0 + k)) (tagged_from k0 ps) = tag_probe (k0 + k) p.
Proof.
  induction ps as [|q r IH]; intros k0 k p Hk; [destruct k; discriminate|].
  cbn [tagged_from]. rewrite filter_app. destruct k as [|k]; cbn [nth_error] in Hk.
  - injection Hk as ->. rewrite Nat.add_0_r. rewrite filter_all, filter_nothing; [apply app_nil_r| |].
    + intros s Hs. pose proof (tagged_from_probe _ _ _ Hs). unfold of_probe. apply Nat.eqb_neq. lia.
    + intros s Hs. destruct (tag_spikes_tags _ _ _ _ _ _ _ Hs) as [E _]. unfold of_probe. now apply Nat.eqb_eq.
  - rewrite filter_nothing.
    + replace (k0 + S k)%nat with (S k0 + k)%nat by lia. cbn [app]. now apply IH.
    + intros s Hs. destruct (tag_spikes_tags _ _ _ _ _ _ _ Hs) as [E _]. unfold of_probe. apply Nat.eqb_neq. lia.
Qed.

Lemma tag_spikes_lt3 k (ts : list Z) : forall i (am : list A) (tm cl : list Z), StronglySorted Z.le ts ->
  StronglySorted (@lt3 A) (tag_spikes k i ts am tm cl).
Proof.
  induction ts as [|t ts IH]; intros i [|a am] [|m tm] [|c cl] H; cbn [tag_spikes]; try constructor.
  - apply IH. now apply StronglySorted_inv in H.
  - apply StronglySorted_inv in H as [_ Ht]. rewrite Forall_forall in *. intros s Hs.
    destruct (tag_spikes_tags _ _ _ _ _ _ _ Hs) as [E L].
    assert (Hin : In (t_time s) ts).
    { clear - Hs. revert i am tm cl Hs. induction ts as [|t' ts IH]; intros i [|a am] [|m tm] [|c cl]; cbn [tag_spikes];
        try contradiction. intros [<-|H]; [now left|right; eapply IH; exact H]. }
    specialize (Ht _ Hin). unfold lt3, taglt. cbn [t_time t_probe t_idx]. lia.
Qed.

(* the spikes of probe k, as they appear in the merged order M, are probe k's spikes in their original order *)
Theorem thm_probe_subsequence (ps : list probe) (M : list tagged) k p :
  Permutation M (tagged_concat ps) -> StronglySorted (@lt3 A) M ->
  nth_error ps k = Some p -> StronglySorted Z.le (p_times p) ->
  filter (of_probe k) M = tag_probe k p.
Proof.
  intros P S Hk Ht. apply (SSorted_perm_eq (@lt3 A) (@lt3_asym A)).
  - now apply SSorted_filter.
  - apply tag_spikes_lt3. exact Ht.
  - rewrite (Perm_filter (of_probe k) _ _ P). unfold tagged_concat.
    pose proof (filter_tagged_from ps 0 k p Hk) as G. cbn [Nat.add] in G. rewrite G. reflexivity.
Qed.
End SameProbe.
