(* C20/Props.v -- the property theorems, and nothing else.  Each is closed by [exact] of a lemma of
   Proofs.v and followed by Print Assumptions.

   Every theorem quantifies over EVERY world -- data-URL scripts of any length, checksum answers
   that may change from one request to the next, any prior file -- and over EVERY digest function
   [md5 : Z -> Z] (so none depends on a property of MD5). *)
From Coq Require Import ZArith List Bool Arith Lia.
From PV Require Import C20.Model C20.Spec C20.Proofs.
Import ListNotations.
Open Scope Z_scope.

(* -- first sentence of the statement ------------------------------------------------------------- *)

(* A call that returns normally has consulted the checksum URL at least once, and if the LAST answer
   it received published a checksum c, the file it leaves has MD5 c.  (Checksum answers may vary
   between requests; data script of any length.) *)
Theorem C20_sound : forall (md5 : Z -> Z) (w : world),
  returned (r_out (download md5 w)) = true ->
  exists k, n_sum (download md5 w) = S k /\
    forall c, wsum w k = Sum c -> exists b, r_file (download md5 w) = Some b /\ md5 b = c.
Proof. exact sound_last. Qed.
Print Assumptions C20_sound.

(* The statement's own quantifier: the checksum URL always answers c. *)
Theorem C20_sound_const : forall (md5 : Z -> Z) (w : world) (c : Z),
  ConstSums w -> w_rest w = Sum c ->
  returned (r_out (download md5 w)) = true ->
  exists b, r_file (download md5 w) = Some b /\ md5 b = c.
Proof. exact sound_const. Qed.
Print Assumptions C20_sound_const.

(* With a digest that separates the good body g from all other contents, the file IS the good body. *)
Theorem C20_sound_good_body : forall (md5 : Z -> Z) (w : world) (g : Z),
  (forall b, md5 b = md5 g -> b = g) ->
  ConstSums w -> w_rest w = Sum (md5 g) ->
  returned (r_out (download md5 w)) = true -> r_file (download md5 w) = Some g.
Proof. exact sound_good_body. Qed.
Print Assumptions C20_sound_good_body.

Definition ex_world : world :=   (* corrupt file on disk; corrupted first transfer, good retry *)
  {| w_data := [Body 1; Body 0; Body 2]; w_sums := []; w_rest := Sum 0; w_prior := Some 3 |}.
Example C20_sound_ex :
  download (fun b => b) ex_world =
    {| r_out := RetDone; r_file := Some 0; r_trace := [EvSum; EvData; EvSum; EvData; EvSum] |} /\
  returned (r_out (download (fun b => b) ex_world)) = true /\ ConstSums ex_world.
Proof. vm_compute. auto. Qed.

(* -- "a valid existing file is not downloaded again" --------------------------------------------- *)

(* Zero data GETs exactly when a file exists whose MD5 is the checksum published by the first
   answer; then the call returns the path, the file is untouched and one request was made. *)
Theorem C20_skip : forall (md5 : Z -> Z) (w : world),
  (n_data (download md5 w) = O <-> exists b, w_prior w = Some b /\ wsum w 0 = Sum (md5 b)) /\
  (forall b, w_prior w = Some b -> wsum w 0 = Sum (md5 b) ->
     download md5 w = {| r_out := RetSkip; r_file := Some b; r_trace := [EvSum] |}).
Proof. intros md5 w. exact (conj (skip_iff md5 w) (skip_result md5 w)). Qed.
Print Assumptions C20_skip.

Example C20_skip_ex :
  download (fun b => b + 7) {| w_data := [Body 1]; w_sums := [Sum 12]; w_rest := CNone; w_prior := Some 5 |} =
    {| r_out := RetSkip; r_file := Some 5; r_trace := [EvSum] |}.
Proof. vm_compute. reflexivity. Qed.

(* -- "a mismatch triggers exactly one retry" ----------------------------------------------------- *)

(* Never more than two data GETs; exactly two iff the call was not skipped, the first data GET was
   answered 200 with a body b1, and the checksum answer that verified it (index k0: 1 if a file
   existed, else 0) published a checksum that b1 does not have. *)
Theorem C20_one_retry : forall (md5 : Z -> Z) (w : world),
  (n_data (download md5 w) <= 2)%nat /\
  (n_data (download md5 w) = 2%nat <->
     n_data (download md5 w) <> O /\ exists b1, wdata w 0 = Body b1 /\ Mismatch md5 w b1 (k0 w)).
Proof. exact one_retry. Qed.
Print Assumptions C20_one_retry.

Example C20_one_retry_ex :
  n_data (download (fun b => b) ex_world) = 2%nat /\ wdata ex_world 0 = Body 1 /\
  wsum ex_world (k0 ex_world) = Sum 0 /\
  n_data (download (fun b => b) {| w_data := [Body 1; Body 1; Body 0]; w_sums := []; w_rest := Sum 0;
                                   w_prior := None |}) = 2%nat.
Proof. vm_compute. auto. Qed.

(* -- "a persistent mismatch or an HTTP error raises instead of returning" ------------------------ *)

(* The model ends in one of four ways; HTTPError exactly when some data GET that was made got an
   error status; RuntimeError exactly when two bodies were fetched and the second failed its
   verification as well. *)
Theorem C20_raises : forall (md5 : Z -> Z) (w : world),
  (r_out (download md5 w) = RetSkip \/ r_out (download md5 w) = RetDone \/
   r_out (download md5 w) = RaiseHttp \/ r_out (download md5 w) = RaiseMismatch) /\
  (r_out (download md5 w) = RaiseHttp <->
     exists i, (i < n_data (download md5 w))%nat /\ wdata w i = DErr) /\
  (r_out (download md5 w) = RaiseMismatch <->
     n_data (download md5 w) = 2%nat /\ exists b2, wdata w 1 = Body b2 /\ Mismatch md5 w b2 (S (k0 w))).
Proof.
  intros md5 w. exact (conj (outcome_model md5 w) (conj (raises_http md5 w) (raises_mismatch md5 w))).
Qed.
Print Assumptions C20_raises.

(* In the statement's words: the checksum URL always answers c, the existing file (if any) does not
   have MD5 c, and each of the first two answers of the data URL is an error status or a body
   without MD5 c (whatever follows): the call does not return. *)
Theorem C20_persistent_raises : forall (md5 : Z -> Z) (w : world) (c : Z),
  ConstSums w -> w_rest w = Sum c ->
  (forall b, w_prior w = Some b -> md5 b <> c) ->
  (forall i b, (i < 2)%nat -> wdata w i = Body b -> md5 b <> c) ->
  returned (r_out (download md5 w)) = false.
Proof. exact persistent_raises. Qed.
Print Assumptions C20_persistent_raises.

Example C20_raises_ex :
  r_out (download (fun b => b) {| w_data := [Body 1; Body 2; Body 0]; w_sums := []; w_rest := Sum 0;
                                  w_prior := None |}) = RaiseMismatch /\
  r_out (download (fun b => b) {| w_data := [Body 1; DErr; Body 0]; w_sums := []; w_rest := Sum 0;
                                  w_prior := Some 3 |}) = RaiseHttp /\
  r_file (download (fun b => b) {| w_data := [DErr; Body 0]; w_sums := []; w_rest := Sum 0;
                                   w_prior := Some 3 |}) = Some 3.
Proof. vm_compute. auto. Qed.

(* -- what is on disk, and what the server sees --------------------------------------------------- *)

(* The file afterwards holds the last body that was fetched with status 200, or what it held before
   if there was none (an HTTP error never damages the file). *)
Theorem C20_file_after : forall (md5 : Z -> Z) (w : world),
  r_file (download md5 w) = fetched w (n_data (download md5 w)).
Proof. exact file_after. Qed.
Print Assumptions C20_file_after.

(* The request sequence: a pre-check iff a file existed; each 200 answer is followed by exactly one
   checksum GET before anything else; an error answer is followed by nothing.  So every body that
   was written to disk was verified. *)
Theorem C20_requests : forall (md5 : Z -> Z) (w : world),
  r_trace (download md5 w) = trace_of w (n_data (download md5 w)).
Proof. exact trace_shape. Qed.
Print Assumptions C20_requests.

Example C20_requests_ex :
  trace_of ex_world 2 = [EvSum; EvData; EvSum; EvData; EvSum] /\ fetched ex_world 2 = Some 0.
Proof. vm_compute. auto. Qed.

(* -- the model meets the declarative specification the harness evaluates on phylib's output ------- *)

Theorem C20_model_meets_spec : forall (md5 : Z -> Z) (w : world), Spec md5 w (download md5 w).
Proof. exact model_meets_spec. Qed.
Print Assumptions C20_model_meets_spec.

(* the boolean checker run on an observation decides exactly the declarative clauses *)
Theorem C20_checker_iff : forall (md5 : Z -> Z) (w : world) (o : result),
  spec_b md5 w o = true <-> Spec md5 w o.
Proof. exact spec_b_iff. Qed.
Print Assumptions C20_checker_iff.

Example C20_checker_rejects :   (* "returned normally with the corrupt body on disk" is flagged *)
  spec_b (fun b => b) ex_world {| r_out := RetDone; r_file := Some 1; r_trace := [EvSum; EvData; EvSum] |} = false /\
  spec_b (fun b => b) ex_world (download (fun b => b) ex_world) = true.
Proof. vm_compute. auto. Qed.

(* -- stage 3: when the call DOES return; what happens when no checksum is available --------------- *)

(* The statement says when the call must NOT return.  The model also says exactly when it does: the
   outcome is "skipped" iff no data GET was made (C20_skip says when that is), and "downloaded" iff it
   was not skipped and either the first 200 body was not refuted by the checksum answer that verified
   it (unavailable, or the body's own checksum), or it was refuted and the second data GET brought a
   body that was not.  With C20_raises this determines the outcome in every world. *)
Theorem C20_returns_iff : forall (md5 : Z -> Z) (w : world),
  (returned (r_out (download md5 w)) = true <->
     r_out (download md5 w) = RetSkip \/ r_out (download md5 w) = RetDone) /\
  (r_out (download md5 w) = RetSkip <-> n_data (download md5 w) = O) /\
  (r_out (download md5 w) = RetDone <->
     n_data (download md5 w) <> O /\
     ((exists b1, wdata w 0 = Body b1 /\ Accepts md5 w b1 (k0 w)) \/
      (exists b1 b2, wdata w 0 = Body b1 /\ Mismatch md5 w b1 (k0 w) /\
                     wdata w 1 = Body b2 /\ Accepts md5 w b2 (S (k0 w))))).
Proof.
  intros md5 w. exact (conj (returned_iff md5 w) (conj (skip_out_iff md5 w) (done_iff md5 w))).
Qed.
Print Assumptions C20_returns_iff.

(* "not refuted" is the complement of "refuted" (so the two cases above and those of C20_raises are
   exhaustive and exclusive) *)
Theorem C20_accepts_iff : forall (md5 : Z -> Z) (w : world) (b : Z) (k : nat),
  Accepts md5 w b k <-> ~ Mismatch md5 w b k.
Proof. exact accepts_iff_not_mismatch. Qed.
Print Assumptions C20_accepts_iff.

(* In the statement's words (checksum URL always answers c, existing file -- if any -- without MD5 c):
   a good first transfer returns after one data GET; a corrupted first transfer followed by a good one
   returns after two ("exactly one retry" is enough); the file is the good body, every body written was
   verified.  The safety clauses alone would also be met by a download_file that always raises. *)
Theorem C20_good_transfer_returns : forall (md5 : Z -> Z) (w : world) (c : Z),
  ConstSums w -> w_rest w = Sum c -> (forall b, w_prior w = Some b -> md5 b <> c) ->
  (forall g, wdata w 0 = Body g -> md5 g = c ->
     download md5 w = {| r_out := RetDone; r_file := Some g; r_trace := trace_of w 1 |}) /\
  (forall b1 g, wdata w 0 = Body b1 -> md5 b1 <> c -> wdata w 1 = Body g -> md5 g = c ->
     download md5 w = {| r_out := RetDone; r_file := Some g; r_trace := trace_of w 2 |}).
Proof. exact good_transfer_returns. Qed.
Print Assumptions C20_good_transfer_returns.

(* The checksum is never available: exactly ONE data GET whatever was on disk -- an existing file whose
   validity cannot be established is downloaded again, not kept --; a 200 body is accepted as it is,
   an error status raises and leaves the file as it was. *)
Theorem C20_no_checksum : forall (md5 : Z -> Z) (w : world),
  ConstSums w -> w_rest w = CNone ->
  n_data (download md5 w) = 1%nat /\
  (forall b, wdata w 0 = Body b ->
     download md5 w = {| r_out := RetDone; r_file := Some b; r_trace := trace_of w 1 |}) /\
  (wdata w 0 = DErr -> r_out (download md5 w) = RaiseHttp /\ r_file (download md5 w) = w_prior w).
Proof. exact no_checksum. Qed.
Print Assumptions C20_no_checksum.

Definition nosum_world : world :=   (* a file exists, the checksum URL answers 404, the data URL answers 404 *)
  {| w_data := [DErr]; w_sums := []; w_rest := CNone; w_prior := Some 0 |}.
Example C20_stage3_ex :
  (* corrupted first transfer, good retry: returns with the good body after two data GETs *)
  download (fun b => b) {| w_data := [Body 1; Body 0]; w_sums := []; w_rest := Sum 0; w_prior := None |} =
    {| r_out := RetDone; r_file := Some 0; r_trace := [EvData; EvSum; EvData; EvSum] |} /\
  Accepts (fun b => b) ex_world 0 2 /\
  (* no checksum: the existing file is downloaded again, the 404 raises and the file stays *)
  download (fun b => b) nosum_world = {| r_out := RaiseHttp; r_file := Some 0; r_trace := [EvSum; EvData] |} /\
  (* ... and what the STATEMENT says about that world: an implementation that keeps the existing file and
     returns without any data GET differs from the model but meets every clause (Sound: no checksum is
     available; Skip, OneRetry: no data GET; Raises: no data GET was made, so none was answered with an error).
     This is why such a change is reported as a model mismatch without a failing clause. *)
  spec_b (fun b => b) nosum_world {| r_out := RetSkip; r_file := Some 0; r_trace := [EvSum] |} = true /\
  spec_b (fun b => b) nosum_world (download (fun b => b) nosum_world) = true.
Proof. vm_compute. repeat split; auto. Qed.

(* -- bytes (layer B) ----------------------------------------------------------------------------- *)

(* _save_stream: for every chunking of the response body (empty chunks included) the file holds
   exactly the concatenation of the chunks and nothing of its previous content. *)
Theorem C20_save_stream : forall (byte : Type) (chunks : list (list byte)),
  save_stream byte chunks = concat chunks.
Proof. exact save_stream_concat. Qed.
Print Assumptions C20_save_stream.

(* _md5: for every positive block size the read loop ends and has fed the hash exactly the file's
   bytes -- for every hash whose update is a monoid action (update(a); update(b) = update(a+b),
   update(b'') = no-op), which is what hashlib documents.  The digest is independent of blocksize. *)
Theorem C20_md5_blocks : forall (byte hstate : Type) (upd : hstate -> list byte -> hstate),
  (forall m a b, upd (upd m a) b = upd m (a ++ b)) -> (forall m, upd m [] = m) ->
  forall (bs : nat) (content : list byte) (m : hstate), (0 < bs)%nat ->
  md5_file byte hstate upd bs content m = Some (upd m content).
Proof. exact md5_file_spec. Qed.
Print Assumptions C20_md5_blocks.

Example C20_bytes_ex :
  save_stream Z [[1; 2]; []; [3]; [4; 5]] = [1; 2; 3; 4; 5] /\
  md5_file Z (list Z) (fun m b => m ++ b) 2 [1; 2; 3; 4; 5] [] = Some [1; 2; 3; 4; 5] /\
  md5_file Z (list Z) (fun m b => m ++ b) 0 [1; 2; 3] [] = Some [].   (* blocksize 0 reads nothing *)
Proof. vm_compute. auto. Qed.

(* -- stage 5: "while the checksum is available" read off the server ------------------------------- *)

(* Availability is a fact about the server, not about what the call chose to ask: let k be the number
   of checksum GETs made before the LAST data GET (0 when there was none) -- the k-th checksum answer is
   what the server gives to the first checksum request after the file took its final content.  If the
   call returns normally and that answer publishes c, the file has MD5 c.  Every world (answers may
   vary), every digest function; and in the model that answer is the last one consulted. *)
Theorem C20_sound_final : forall (md5 : Z -> Z) (w : world),
  SoundFinal md5 w (download md5 w) /\
  (returned (r_out (download md5 w)) = true -> n_sum (download md5 w) = S (k_final (download md5 w))).
Proof. intros md5 w. exact (conj (sound_final md5 w) (k_final_last md5 w)). Qed.
Print Assumptions C20_sound_final.

Theorem C20_model_meets_spec5 : forall (md5 : Z -> Z) (w : world), Spec5 md5 w (download md5 w).
Proof. exact model_meets_spec5. Qed.
Print Assumptions C20_model_meets_spec5.

Theorem C20_checker5_iff : forall (md5 : Z -> Z) (w : world) (o : result),
  spec5_b md5 w o = true <-> Spec5 md5 w o.
Proof. exact spec5_b_iff. Qed.
Print Assumptions C20_checker5_iff.

Definition late_sum_world : world :=   (* corrupt file on disk; checksum file missing at the pre-check, published from then on *)
  {| w_data := [Body 1]; w_sums := [CNone]; w_rest := Sum 0; w_prior := Some 3 |}.
Example C20_sound_final_ex :
  (* the model: pre-check blind, the corrupted transfer is refuted by the second answer, the retry gets 404 *)
  download (fun b => b) late_sum_world =
    {| r_out := RaiseHttp; r_file := Some 1; r_trace := [EvSum; EvData; EvSum; EvData] |} /\
  (* an implementation that remembers the first "missing" and returns without asking again: every clause of
     Spec is met (the only answer SERVED says "unavailable"), SoundFinal is not (the server publishes MD5 0
     from the moment the body was written, the file holds body 1) *)
  spec_b (fun b => b) late_sum_world {| r_out := RetDone; r_file := Some 1; r_trace := [EvSum; EvData] |} = true /\
  k_final {| r_out := RetDone; r_file := Some 1; r_trace := [EvSum; EvData] |} = 1%nat /\
  sound_final_b (fun b => b) late_sum_world {| r_out := RetDone; r_file := Some 1; r_trace := [EvSum; EvData] |} = false /\
  spec5_b (fun b => b) late_sum_world (download (fun b => b) late_sum_world) = true /\
  (* no data GET: the first answer counts *)
  k_final {| r_out := RetSkip; r_file := Some 0; r_trace := [EvSum] |} = 0%nat.
Proof. vm_compute. repeat split; auto. Qed.
