(* C20/Model.v -- executable model of phylib/io/datasets.py: download_file, _check_md5_of_url,
   _check_md5, _md5, _download, _save_stream.  No proofs in this file.

   Two layers.

   (A) Control flow of download_file against a *scripted* server (the world): the i-th GET of the
       data URL is answered by the i-th entry of [w_data] (HTTP 404 once the script is exhausted), the
       k-th GET of URL+'.md5' by the k-th entry of [w_sums], then for ever by [w_rest].  File contents
       are tokens (Z); the digest function [md5 : Z -> Z] is a parameter of the model: every theorem
       holds for every digest function (injectivity is only needed to read "same MD5" as "same bytes").

   (B) Bytes: what _save_stream leaves on disk for an arbitrary chunking of the response body, and
       what _md5 feeds to the hash for an arbitrary block size (layer A's "the file is the body" and
       "the digest is the digest of the file" are justified there).

   datasets.py (pinned tree), abridged:

     def _check_md5(path, checksum):  return (_md5(path) == checksum) if checksum else None
     def _check_md5_of_url(output_path, url):
         try:     checksum = download_text_file(url + '.md5').split(' ')[0]
         except Exception: checksum = None
         finally:
             if checksum: return _check_md5(output_path, checksum)          # else: None
     def download_file(url, output_path):
         path = Path(output_path)
         if path.exists():
             checked = _check_md5_of_url(output_path, url)
             if checked is False:  ...log...
             elif checked is True: return output_path
         r = _download(url, stream=True)          # raises HTTPError on status != 200
         _save_stream(r, output_path)
         if _check_md5_of_url(output_path, url) is False:
             r = _download(url, stream=True)
             _save_stream(r, output_path)
             if _check_md5_of_url(output_path, url) is False:
                 raise RuntimeError(...)
         return
*)
From Coq Require Import ZArith List Bool.
Import ListNotations.
Open Scope Z_scope.

(* ---------------------------------------------------------------------------------------------- *)
(* (A) worlds                                                                                      *)

Inductive dresp := Body (b : Z) | DErr.          (* 200 with that body | any status <> 200 *)
Inductive cresp := Sum (c : Z) | CNone.          (* a checksum is published | unavailable (404, 5xx,
                                                    no answer, empty text): _check_md5_of_url -> None *)

Record world := {
  w_data  : list dresp;        (* answers of the data URL, in request order; then 404 *)
  w_sums  : list cresp;        (* answers of the checksum URL, in request order; then w_rest *)
  w_rest  : cresp;
  w_prior : option Z           (* target file before the call: None = absent *)
}.

Fixpoint data_at (l : list dresp) (i : nat) : dresp :=
  match l, i with
  | [], _ => DErr
  | x :: _, O => x
  | _ :: r, S j => data_at r j
  end.

Fixpoint sum_from (l : list cresp) (rest : cresp) (k : nat) : cresp :=
  match l, k with
  | [], _ => rest
  | x :: _, O => x
  | _ :: r, S j => sum_from r rest j
  end.

Definition wdata (w : world) (i : nat) : dresp := data_at (w_data w) i.
Definition wsum (w : world) (k : nat) : cresp := sum_from (w_sums w) (w_rest w) k.

Inductive outcome :=
| RetSkip          (* returned output_path: existing file valid, nothing downloaded *)
| RetDone          (* returned None after downloading *)
| RaiseHttp        (* requests.HTTPError from _download *)
| RaiseMismatch    (* RuntimeError("The checksum ... doesn't match ...") *)
| RetOther         (* observations only: returned something else / left stray files *)
| RaiseOther.      (* observations only: any other exception *)

Inductive ev := EvSum | EvData.                  (* GET url+'.md5' | GET url *)

Record result := { r_out : outcome; r_file : option Z; r_trace : list ev }.

(* interpreter state: requests made so far, the target file, the request log *)
Record state := { n_d : nat; n_s : nat; s_file : option Z; s_trace : list ev }.

Section Download.
  Variable md5 : Z -> Z.
  Variable w : world.

  (* _check_md5_of_url(output_path, url) when the file holds [f]: one GET of the checksum URL *)
  Definition check_md5_of_url (f : Z) (s : state) : option bool * state :=
    let s' := {| n_d := n_d s; n_s := S (n_s s); s_file := s_file s; s_trace := s_trace s ++ [EvSum] |} in
    match wsum w (n_s s) with
    | Sum c => (Some (md5 f =? c), s')
    | CNone => (None, s')
    end.

  (* r = _download(url, stream=True); _save_stream(r, output_path): None = HTTPError raised (the file
     is not opened, so it keeps its content); Some b = body b is now the file's content *)
  Definition fetch (s : state) : option Z * state :=
    match wdata w (n_d s) with
    | Body b => (Some b, {| n_d := S (n_d s); n_s := n_s s; s_file := Some b; s_trace := s_trace s ++ [EvData] |})
    | DErr => (None, {| n_d := S (n_d s); n_s := n_s s; s_file := s_file s; s_trace := s_trace s ++ [EvData] |})
    end.

  Definition finish (o : outcome) (s : state) : result :=
    {| r_out := o; r_file := s_file s; r_trace := s_trace s |}.

  Definition download : result :=
    let s0 := {| n_d := O; n_s := O; s_file := w_prior w; s_trace := [] |} in
    let (checked, s1) := match w_prior w with
                         | Some f => check_md5_of_url f s0
                         | None => (None, s0)
                         end in
    match checked with
    | Some true => finish RetSkip s1
    | _ =>
      match fetch s1 with
      | (None, s2) => finish RaiseHttp s2
      | (Some b1, s2) =>
        match check_md5_of_url b1 s2 with
        | (Some false, s3) =>
          match fetch s3 with
          | (None, s4) => finish RaiseHttp s4
          | (Some b2, s4) =>
            match check_md5_of_url b2 s4 with
            | (Some false, s5) => finish RaiseMismatch s5
            | (_, s5) => finish RetDone s5
            end
          end
        | (_, s3) => finish RetDone s3
        end
      end
    end.
End Download.

(* counters read off a request log *)
Definition ev_is_data (e : ev) : bool := match e with EvData => true | EvSum => false end.
Definition ev_is_sum (e : ev) : bool := match e with EvSum => true | EvData => false end.
Definition count_data (t : list ev) : nat := length (filter ev_is_data t).
Definition count_sum (t : list ev) : nat := length (filter ev_is_sum t).
Definition n_data (r : result) : nat := count_data (r_trace r).
Definition n_sum (r : result) : nat := count_sum (r_trace r).

Definition returned (o : outcome) : bool :=
  match o with RetSkip | RetDone | RetOther => true | _ => false end.

(* ---------------------------------------------------------------------------------------------- *)
(* (B) bytes                                                                                       *)

Section Bytes.
  Variable byte : Type.

  (* _save_stream: open(path,'wb') truncates; every non-empty chunk yielded by iter_content is
     written in order; the progress reporter does not touch the file *)
  Definition is_nil (c : list byte) : bool := match c with [] => true | _ => false end.
  Fixpoint save_stream_loop (chunks : list (list byte)) (file : list byte) : list byte :=
    match chunks with
    | [] => file
    | c :: r => if is_nil c then save_stream_loop r file            (* `if chunk:` *)
                else save_stream_loop r (file ++ c)                 (* f.write(chunk) *)
    end.
  Definition save_stream (chunks : list (list byte)) : list byte := save_stream_loop chunks [].

  (* _md5(path, blocksize): `while True: buf = f.read(blocksize); if not buf: break; m.update(buf)`.
     f.read(k) returns the next min k remaining bytes.  Fuel bounds the loop; None = exhausted. *)
  Variable hstate : Type.
  Variable h_update : hstate -> list byte -> hstate.

  Fixpoint md5_loop (fuel : nat) (blocksize : nat) (rest : list byte) (m : hstate) : option hstate :=
    match fuel with
    | O => None
    | S fuel' =>
      let buf := firstn blocksize rest in
      if is_nil buf then Some m
      else md5_loop fuel' blocksize (skipn blocksize rest) (h_update m buf)
    end.
  Definition md5_file (blocksize : nat) (content : list byte) (h_init : hstate) : option hstate :=
    md5_loop (S (length content)) blocksize content h_init.
End Bytes.
