(* C20/Spec.v -- the property as declarative clauses over (world, observation), independent of the
   algorithm, with boolean checkers (proved equivalent in Proofs.v: spec_b_iff).

   An observation is a [result]: how the call ended, the content of the target file afterwards and
   the sequence of GET requests the server saw.  The clauses are those of the statement:

     Sound     a call that returned normally while a checksum is published left a file with that MD5
     Skip      a valid existing file is returned untouched with zero data GETs
     OneRetry  never more than 2 data GETs; exactly 2 iff the first 200 body failed verification
     Raises    an HTTP error on a data GET that was made, or a second mismatch, does not return

   Skip, OneRetry and the persistent-mismatch half of Raises are stated for worlds whose checksum URL
   answers the same way every time (the property's quantifier: checksum file correct / wrong /
   unavailable); Sound and the HTTP-error half of Raises for every world.  In a world whose checksum
   answers vary, "the published checksum" is only taken to exist when every answer that was actually
   served is the same checksum (the reading that demands least of phylib); the model theorem
   C20_sound proves the stronger "last answer consulted" form. *)
From Coq Require Import ZArith List Bool Arith Lia.
From PV Require Import C20.Model.
Import ListNotations.
Open Scope Z_scope.

Definition cresp_eqb (a b : cresp) : bool :=
  match a, b with Sum x, Sum y => x =? y | CNone, CNone => true | _, _ => false end.
Definition outcome_eqb (a b : outcome) : bool :=
  match a, b with
  | RetSkip, RetSkip | RetDone, RetDone | RaiseHttp, RaiseHttp | RaiseMismatch, RaiseMismatch
  | RetOther, RetOther | RaiseOther, RaiseOther => true
  | _, _ => false
  end.
Definition optZ_eqb (a b : option Z) : bool :=
  match a, b with Some x, Some y => x =? y | None, None => true | _, _ => false end.
Definition dresp_is_err (d : dresp) : bool := match d with DErr => true | Body _ => false end.

Definition ConstSums (w : world) : Prop := w_sums w = [].
Definition const_b (w : world) : bool := match w_sums w with [] => true | _ => false end.

(* the checksum c is published, as far as ns served answers show *)
Definition Published (w : world) (ns : nat) (c : Z) : Prop :=
  (ConstSums w /\ w_rest w = Sum c) \/
  (~ ConstSums w /\ (1 <= ns)%nat /\ forall k, (k < ns)%nat -> wsum w k = Sum c).

Definition published (w : world) (ns : nat) : option Z :=
  if const_b w then match w_rest w with Sum c => Some c | CNone => None end
  else match ns, wsum w 0 with
       | S _, Sum c => if forallb (fun k => cresp_eqb (wsum w k) (Sum c)) (seq 0 ns) then Some c else None
       | _, _ => None
       end.

Section Spec.
  Variable md5 : Z -> Z.
  Variable w : world.
  Variable o : result.

  Definition Sound : Prop :=
    returned (r_out o) = true ->
    forall c, Published w (n_sum o) c -> exists b, r_file o = Some b /\ md5 b = c.

  (* constant-checksum worlds: w_rest is the checksum URL's behaviour *)
  Definition PriorValid : Prop := exists b, w_prior w = Some b /\ w_rest w = Sum (md5 b).
  Definition Fails (i : nat) : Prop := exists b c, wdata w i = Body b /\ w_rest w = Sum c /\ md5 b <> c.

  Definition Skip : Prop :=
    ConstSums w -> PriorValid -> r_out o = RetSkip /\ n_data o = O /\ r_file o = w_prior w.

  Definition OneRetry : Prop :=
    ConstSums w -> (n_data o <= 2)%nat /\ (n_data o = 2%nat <-> ~ PriorValid /\ Fails 0).

  Definition Raises : Prop :=
    ((exists i, (i < n_data o)%nat /\ wdata w i = DErr) -> returned (r_out o) = false) /\
    (ConstSums w -> ~ PriorValid -> Fails 0 -> Fails 1 -> returned (r_out o) = false).

  Definition Spec : Prop := Sound /\ Skip /\ OneRetry /\ Raises.

  (* boolean checkers *)
  Definition sound_b : bool :=
    if returned (r_out o) then
      match published w (n_sum o) with
      | Some c => match r_file o with Some b => md5 b =? c | None => false end
      | None => true
      end
    else true.

  Definition prior_valid_b : bool :=
    match w_prior w, w_rest w with Some b, Sum c => md5 b =? c | _, _ => false end.
  Definition fails_b (i : nat) : bool :=
    match wdata w i, w_rest w with Body b, Sum c => negb (md5 b =? c) | _, _ => false end.

  Definition skip_b : bool :=
    if const_b w && prior_valid_b
    then outcome_eqb (r_out o) RetSkip && (n_data o =? 0)%nat && optZ_eqb (r_file o) (w_prior w)
    else true.

  Definition retry_b : bool :=
    if const_b w
    then (n_data o <=? 2)%nat && Bool.eqb (n_data o =? 2)%nat (negb prior_valid_b && fails_b 0)
    else true.

  Definition raises_b : bool :=
    (if existsb (fun i => dresp_is_err (wdata w i)) (seq 0 (n_data o)) then negb (returned (r_out o)) else true) &&
    (if const_b w && negb prior_valid_b && fails_b 0 && fails_b 1 then negb (returned (r_out o)) else true).

  Definition spec_b : bool := sound_b && skip_b && retry_b && raises_b.
End Spec.

(* ---------------------------------------------------------------------------------------------- *)
(* Stage 5: "while the checksum is available" as a fact about the SERVER, not about what the call
   chose to ask.

   [Sound] above takes the published checksum of a varying world from the answers that were actually
   served; an implementation that does not ASK (a negative cache, a stale memo, a swallowed
   short-cut) has served answers that say "unavailable" although the server holds the checksum ready.
   [SoundFinal] reads availability off the world: let k be the number of checksum GETs the server saw
   before the LAST data GET (0 when no data GET was made) -- the k-th checksum answer is the one the
   server gives (or would give) to the first checksum request after the file took its final content.
   If the call returns normally and that answer publishes c, the file has MD5 c.  In a world whose
   checksum URL answers the same way every time this is [Sound]; the unchanged download_file meets it
   in every world, because it asks exactly once after each 200 body (theorem C20_sound_final). *)

Fixpoint sums_before_last_data (t : list ev) (seen : nat) (res : nat) : nat :=
  match t with
  | [] => res
  | EvSum :: r => sums_before_last_data r (S seen) res
  | EvData :: r => sums_before_last_data r seen seen
  end.
Definition k_final (o : result) : nat := sums_before_last_data (r_trace o) 0 0.

Section Spec5.
  Variable md5 : Z -> Z.
  Variable w : world.
  Variable o : result.

  Definition SoundFinal : Prop :=
    returned (r_out o) = true ->
    forall c, wsum w (k_final o) = Sum c -> exists b, r_file o = Some b /\ md5 b = c.

  Definition sound_final_b : bool :=
    if returned (r_out o) then
      match wsum w (k_final o) with
      | Sum c => match r_file o with Some b => md5 b =? c | None => false end
      | CNone => true
      end
    else true.

  Definition Spec5 : Prop := Spec md5 w o /\ SoundFinal.
  Definition spec5_b : bool := spec_b md5 w o && sound_final_b.
End Spec5.
