(* C20/Corr.v -- comparator evaluated by vm_compute on generated case files.
   codes: 1  = observed outcome / final file / GET sequence differs from the model [download]
          21 = clause Sound fails on the observation      (theorem C20_sound)
          22 = clause Skip fails on the observation       (theorem C20_skip)
          23 = clause OneRetry fails on the observation   (theorem C20_one_retry)
          24 = clause Raises fails on the observation     (theorem C20_raises)
          25 = clause SoundFinal fails on the observation (theorem C20_sound_final): returned normally,
               the checksum answer the server holds ready after the last data GET publishes a checksum,
               the file does not have it
          3  = input outside the stated regime (harness bug)
   File contents and digests are tokens; the digest of body token b is token b (the harness asserts
   that the byte strings it serves have pairwise distinct MD5s); -1 in an observation = "bytes that
   are none of the bodies". *)
From Coq Require Import ZArith List Bool Arith.
From PV Require Export C20.Model C20.Spec.
Import ListNotations.
Open Scope Z_scope.

Inductive input :=
| InDownload (data : list dresp) (sums : list cresp) (rest : cresp) (prior : option Z).

Inductive observed :=
| Obs (o : outcome) (file : option Z) (trace : list ev)
| ObsCrash.

Record case := { cid : Z; cin : input; cobs : observed }.

Definition tok_md5 (b : Z) : Z := b.

Definition ev_eqb (a b : ev) : bool :=
  match a, b with EvSum, EvSum | EvData, EvData => true | _, _ => false end.
Fixpoint list_eqb {A} (eqb : A -> A -> bool) (a b : list A) : bool :=
  match a, b with
  | [], [] => true
  | x :: a', y :: b' => eqb x y && list_eqb eqb a' b'
  | _, _ => false
  end.
Definition result_eqb (a b : result) : bool :=
  outcome_eqb (r_out a) (r_out b) && optZ_eqb (r_file a) (r_file b) && list_eqb ev_eqb (r_trace a) (r_trace b).

Definition flag (code : Z) (ok : bool) : list Z := if ok then [] else [code].

Definition dresp_ok (d : dresp) : bool := match d with Body b => 0 <=? b | DErr => true end.
Definition cresp_ok (c : cresp) : bool := match c with Sum x => 0 <=? x | CNone => true end.

Definition check (c : case) : list Z :=
  match cin c with
  | InDownload data sums rest prior =>
    let w := {| w_data := data; w_sums := sums; w_rest := rest; w_prior := prior |} in
    if negb (forallb dresp_ok data && forallb cresp_ok sums && cresp_ok rest &&
             match prior with Some b => 0 <=? b | None => true end) then [3] else
    match cobs c with
    | Obs o f t =>
      let ob := {| r_out := o; r_file := f; r_trace := t |} in
      flag 1 (result_eqb (download tok_md5 w) ob) ++
      flag 21 (sound_b tok_md5 w ob) ++
      flag 22 (skip_b tok_md5 w ob) ++
      flag 23 (retry_b tok_md5 w ob) ++
      flag 24 (raises_b tok_md5 w ob) ++
      flag 25 (sound_final_b tok_md5 w ob)
    | ObsCrash =>
      (* a crash / time-out of the worker: differs from the model; it defeats Skip when a valid file
         should simply have been returned *)
      1 :: (if const_b w && prior_valid_b tok_md5 w then [22] else [])
    end
  end.

Definition run (cases : list case) : list (Z * Z) :=
  flat_map (fun c => map (fun code => (cid c, code)) (check c)) cases.
