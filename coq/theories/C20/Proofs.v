(* C20/Proofs.v -- lemmas and proofs for C20.  The control flow of download_file is finite, so the
   theorems about layer (A) are proved by running the model symbolically along its (at most ten)
   paths, for an arbitrary world and an arbitrary digest function; the byte-level lemmas of layer (B)
   are inductions over the chunk list / the read loop. *)
From Coq Require Import ZArith List Bool Arith Lia.
From PV Require Import C20.Model C20.Spec.
Import ListNotations.
Open Scope Z_scope.

(* ---------------------------------------------------------------------------------------------- *)
(* vocabulary of the theorem statements                                                            *)

(* index of the checksum answer that verifies the first download: 1 when a file existed (the
   pre-check consumed answer 0), else 0 *)
Definition k0 (w : world) : nat := match w_prior w with Some _ => 1%nat | None => O end.

(* the k-th checksum answer publishes a checksum that body b does not have *)
Definition Mismatch (md5 : Z -> Z) (w : world) (b : Z) (k : nat) : Prop :=
  exists c, wsum w k = Sum c /\ md5 b <> c.

(* content of the target file after the first n data GETs: the last 200 body, else the prior file *)
Fixpoint fetched (w : world) (n : nat) : option Z :=
  match n with
  | O => w_prior w
  | S k => match wdata w k with Body b => Some b | DErr => fetched w k end
  end.

(* the request sequence when n data GETs are made: the pre-check if a file existed, then per data
   GET: the GET, followed by one checksum GET iff it was answered 200 *)
Definition trace_of (w : world) (n : nat) : list ev :=
  match w_prior w with Some _ => [EvSum] | None => [] end ++
  flat_map (fun i => match wdata w i with Body _ => [EvData; EvSum] | DErr => [EvData] end) (seq 0 n).

(* ---------------------------------------------------------------------------------------------- *)
(* symbolic execution                                                                              *)

Ltac dl_step :=
  match goal with
  | H : wsum ?w ?k = _ |- context [wsum ?w ?k] => rewrite H
  | H : wdata ?w ?k = _ |- context [wdata ?w ?k] => rewrite H
  | |- context [match wsum ?w ?k with _ => _ end] =>
      let c := fresh "c" in let E := fresh "Es" in destruct (wsum w k) as [c|] eqn:E
  | |- context [match wdata ?w ?k with _ => _ end] =>
      let b := fresh "b" in let E := fresh "Ed" in destruct (wdata w k) as [b|] eqn:E
  | |- context [if (?x =? ?y) then _ else _] => let E := fresh "Em" in destruct (x =? y) eqn:E
  | |- context [match (?x =? ?y) with _ => _ end] => let E := fresh "Em" in destruct (x =? y) eqn:E
  end.

Ltac zb :=
  repeat match goal with
  | H : (_ =? _) = true |- _ => apply Z.eqb_eq in H
  | H : (_ =? _) = false |- _ => apply Z.eqb_neq in H
  end.

Ltac inv :=
  repeat match goal with
  | H : exists _, _ |- _ => destruct H
  | H : _ /\ _ |- _ => destruct H
  | H : Mismatch _ _ _ _ |- _ => unfold Mismatch in H
  end.

(* run [download md5 w] along every path; each goal gets the path's equations as hypotheses *)
Ltac run_download w :=
  unfold download, check_md5_of_url, fetch, finish, n_data, n_sum, count_data, count_sum, k0, trace_of;
  let f := fresh "f" in let Hp := fresh "Hp" in
  destruct (w_prior w) as [f|] eqn:Hp; cbn;
  repeat (dl_step; cbn); zb.

Section Flow.
  Variable md5 : Z -> Z.
  Variable w : world.
  Let r := download md5 w.

  Lemma outcome_model : r_out r = RetSkip \/ r_out r = RetDone \/ r_out r = RaiseHttp \/ r_out r = RaiseMismatch.
  Proof. unfold r. run_download w; auto. Qed.

  (* a normal return has consulted the checksum URL at least once, and if the last answer it got
     published a checksum, the file left on disk has that MD5 *)
  Lemma sound_last : returned (r_out r) = true ->
    exists k, n_sum r = S k /\ forall c, wsum w k = Sum c -> exists b, r_file r = Some b /\ md5 b = c.
  Proof.
    unfold r. run_download w; intros Hr; try discriminate Hr;
      (eexists; split; [reflexivity|]; intros c' Hc; eexists; split; [reflexivity|]; congruence).
  Qed.

  (* zero data GETs exactly when the existing file has the checksum published by the first answer *)
  Lemma skip_iff : n_data r = O <-> exists b, w_prior w = Some b /\ wsum w 0 = Sum (md5 b).
  Proof.
    unfold r. run_download w; split; intros H; inv; try discriminate; try lia; try congruence;
      try (eexists; split; [reflexivity|congruence]).
  Qed.

  Lemma skip_result : forall b, w_prior w = Some b -> wsum w 0 = Sum (md5 b) ->
    r = {| r_out := RetSkip; r_file := Some b; r_trace := [EvSum] |}.
  Proof.
    intros b Hb Hs. unfold r, download, check_md5_of_url, finish. rewrite Hb. cbn. rewrite Hs.
    rewrite Z.eqb_refl. reflexivity.
  Qed.

  (* at most two data GETs; exactly two iff the call was not skipped and the first data GET was a 200
     whose body failed verification *)
  Lemma one_retry : (n_data r <= 2)%nat /\
    (n_data r = 2%nat <-> n_data r <> O /\ exists b1, wdata w 0 = Body b1 /\ Mismatch md5 w b1 (k0 w)).
  Proof.
    unfold r. run_download w; (split; [lia|]); split; intros H; inv; try discriminate; try lia; try congruence;
      try (split; [lia|]; eexists; split; [reflexivity|]; eexists; split; [eassumption|congruence]).
  Qed.

  (* HTTPError exactly when a data GET that was made was answered with an error status *)
  Lemma raises_http : r_out r = RaiseHttp <-> exists i, (i < n_data r)%nat /\ wdata w i = DErr.
  Proof.
    unfold r. run_download w; split; intros H; inv; try discriminate; try reflexivity; try lia;
      try (exists 0%nat; split; [lia|assumption]); try (exists 1%nat; split; [lia|assumption]);
      try (match goal with Hi : (?i < _)%nat |- _ =>
             destruct i as [|[|i]]; [congruence ..|lia] || (destruct i as [|i]; [congruence|lia]) end).
  Qed.

  (* RuntimeError exactly when two bodies were downloaded and the second failed verification too *)
  Lemma raises_mismatch : r_out r = RaiseMismatch <->
    n_data r = 2%nat /\ exists b2, wdata w 1 = Body b2 /\ Mismatch md5 w b2 (S (k0 w)).
  Proof.
    unfold r. run_download w; split; intros H; inv; try discriminate; try reflexivity; try lia; try congruence;
      try (split; [lia|]; eexists; split; [reflexivity|]; eexists; split; [eassumption|congruence]).
  Qed.

  (* the file afterwards is the last body that was fetched, or the prior file if none was *)
  Lemma file_after : r_file r = fetched w (n_data r).
  Proof. unfold r. run_download w; congruence. Qed.

  (* the request sequence: pre-check iff a file existed; every 200 is followed by exactly one
     checksum GET before anything else; an error status is followed by nothing *)
  Lemma trace_shape : r_trace r = trace_of w (n_data r).
  Proof. unfold r. run_download w; reflexivity. Qed.
End Flow.

(* ---------------------------------------------------------------------------------------------- *)
(* the boolean checkers decide the declarative clauses                                             *)

Lemma cresp_eqb_eq : forall a b, cresp_eqb a b = true <-> a = b.
Proof.
  intros [x|] [y|]; cbn; split; intros H; try discriminate; try reflexivity.
  - apply Z.eqb_eq in H. congruence.
  - injection H as ->. apply Z.eqb_refl.
Qed.

Lemma outcome_eqb_eq : forall a b, outcome_eqb a b = true <-> a = b.
Proof. intros [] []; cbn; split; intros H; try discriminate; reflexivity. Qed.

Lemma optZ_eqb_eq : forall a b, optZ_eqb a b = true <-> a = b.
Proof.
  intros [x|] [y|]; cbn; split; intros H; try discriminate; try reflexivity.
  - apply Z.eqb_eq in H. congruence.
  - injection H as ->. apply Z.eqb_refl.
Qed.

Lemma const_b_iff : forall w, const_b w = true <-> ConstSums w.
Proof. intros w. unfold const_b, ConstSums. destruct (w_sums w); split; intros H; try discriminate; reflexivity. Qed.

Lemma wsum_const : forall w k, ConstSums w -> wsum w k = w_rest w.
Proof. intros w k H. unfold wsum. rewrite H. destruct k; reflexivity. Qed.

Lemma published_iff : forall w ns c, published w ns = Some c <-> Published w ns c.
Proof.
  intros w ns c. unfold published, Published. destruct (const_b w) eqn:C.
  - apply const_b_iff in C. destruct (w_rest w) as [c0|]; split; intros H.
    + left. split; [exact C|congruence].
    + destruct H as [[_ H]|[H _]]; [congruence|contradiction].
    + discriminate.
    + destruct H as [[_ H]|[H _]]; [discriminate|contradiction].
  - assert (Hn : ~ ConstSums w) by (rewrite <- const_b_iff; congruence).
    destruct ns as [|n].
    + split; [discriminate|]. intros [[H _]|(_ & H & _)]; [contradiction|lia].
    + destruct (wsum w 0) as [c0|] eqn:E0.
      * destruct (forallb (fun k => cresp_eqb (wsum w k) (Sum c0)) (seq 0 (S n))) eqn:Ef.
        -- rewrite forallb_forall in Ef. split; intros H.
           ++ injection H as <-. right. split; [exact Hn|]. split; [lia|]. intros k Hk.
              apply cresp_eqb_eq, Ef, in_seq. lia.
           ++ destruct H as [[H _]|(_ & _ & H)]; [contradiction|].
              specialize (H O ltac:(lia)). congruence.
        -- split; [discriminate|]. intros [[H _]|(_ & _ & H)]; [contradiction|].
           assert (c0 = c) as -> by (specialize (H O ltac:(lia)); congruence).
           assert (Ht : forallb (fun k => cresp_eqb (wsum w k) (Sum c)) (seq 0 (S n)) = true).
           { apply forallb_forall. intros k Hk. apply in_seq in Hk. apply cresp_eqb_eq, H. lia. }
           congruence.
      * split; [discriminate|]. intros [[H _]|(_ & _ & H)]; [contradiction|].
        specialize (H O ltac:(lia)). congruence.
Qed.

Section Reflect.
  Variable md5 : Z -> Z.
  Variable w : world.
  Variable o : result.

  Lemma sound_b_iff : sound_b md5 w o = true <-> Sound md5 w o.
  Proof.
    unfold sound_b, Sound. destruct (returned (r_out o)); [|split; intros; [discriminate|reflexivity]].
    destruct (published w (n_sum o)) as [c|] eqn:P.
    - destruct (r_file o) as [b|]; split; intros H.
      + intros _ c' Hc. apply published_iff in Hc. exists b. split; [reflexivity|]. apply Z.eqb_eq in H. congruence.
      + apply published_iff in P. destruct (H eq_refl c P) as (b' & Hb & Hm). apply Z.eqb_eq. congruence.
      + discriminate.
      + apply published_iff in P. destruct (H eq_refl c P) as (b' & Hb & _). discriminate.
    - split; [|reflexivity]. intros _ _ c Hc. apply published_iff in Hc. congruence.
  Qed.

  Lemma prior_valid_b_iff : prior_valid_b md5 w = true <-> PriorValid md5 w.
  Proof.
    unfold prior_valid_b, PriorValid. destruct (w_prior w) as [b|]; [destruct (w_rest w) as [c|]|]; split; intros H.
    - apply Z.eqb_eq in H. exists b. split; [reflexivity|congruence].
    - destruct H as (b' & Hb & Hc). apply Z.eqb_eq. congruence.
    - discriminate.
    - destruct H as (b' & _ & Hc). discriminate.
    - discriminate.
    - destruct H as (b' & Hb & _). discriminate.
  Qed.

  Lemma fails_b_iff : forall i, fails_b md5 w i = true <-> Fails md5 w i.
  Proof.
    intros i. unfold fails_b, Fails. destruct (wdata w i) as [b|]; [destruct (w_rest w) as [c|]|]; split; intros H.
    - apply negb_true_iff, Z.eqb_neq in H. exists b, c. auto.
    - destruct H as (b' & c' & Hb & Hc & Hn). apply negb_true_iff, Z.eqb_neq. congruence.
    - discriminate.
    - destruct H as (b' & c' & _ & Hc & _). discriminate.
    - discriminate.
    - destruct H as (b' & c' & Hb & _). discriminate.
  Qed.

  Lemma skip_b_iff : skip_b md5 w o = true <-> Skip md5 w o.
  Proof.
    unfold skip_b, Skip. destruct (const_b w) eqn:C; cbn [andb].
    - destruct (prior_valid_b md5 w) eqn:V.
      + rewrite !andb_true_iff, outcome_eqb_eq, Nat.eqb_eq, optZ_eqb_eq. split; intros H.
        * intros _ _. tauto.
        * apply const_b_iff in C. apply prior_valid_b_iff in V. specialize (H C V). tauto.
      + split; [|reflexivity]. intros _ _ H. apply prior_valid_b_iff in H. congruence.
    - split; [|reflexivity]. intros _ H. apply const_b_iff in H. congruence.
  Qed.

  Lemma retry_b_iff : retry_b md5 w o = true <-> OneRetry md5 w o.
  Proof.
    unfold retry_b, OneRetry. destruct (const_b w) eqn:C.
    - apply const_b_iff in C.
      assert (E : (negb (prior_valid_b md5 w) && fails_b md5 w 0 = true) <-> (~ PriorValid md5 w /\ Fails md5 w 0)).
      { rewrite andb_true_iff, negb_true_iff, <- not_true_iff_false, prior_valid_b_iff, fails_b_iff. reflexivity. }
      rewrite andb_true_iff, Nat.leb_le, eqb_true_iff. split.
      + intros [H1 H2] _. split; [exact H1|]. rewrite <- E, <- H2, Nat.eqb_eq. reflexivity.
      + intros H. destruct (H C) as [H1 H2]. split; [exact H1|]. apply eq_true_iff_eq.
        rewrite Nat.eqb_eq, H2, E. reflexivity.
    - split; [|reflexivity]. intros _ H. apply const_b_iff in H. congruence.
  Qed.

  Lemma raises_b_iff : raises_b md5 w o = true <-> Raises md5 w o.
  Proof.
    unfold raises_b, Raises. rewrite andb_true_iff.
    assert (A : (if existsb (fun i => dresp_is_err (wdata w i)) (seq 0 (n_data o))
                 then negb (returned (r_out o)) else true) = true <->
                ((exists i, (i < n_data o)%nat /\ wdata w i = DErr) -> returned (r_out o) = false)).
    { destruct (existsb _ _) eqn:Ex.
      - apply existsb_exists in Ex. destruct Ex as (i & Hi & He). apply in_seq in Hi.
        rewrite negb_true_iff. split; [auto|]. intros H. apply H. exists i. split; [lia|].
        destruct (wdata w i); [discriminate|reflexivity].
      - split; [|reflexivity]. intros _ (i & Hi & He).
        assert (existsb (fun i => dresp_is_err (wdata w i)) (seq 0 (n_data o)) = true); [|congruence].
        apply existsb_exists. exists i. split; [apply in_seq; lia|]. rewrite He. reflexivity. }
    rewrite A. clear A.
    assert (B : (if const_b w && negb (prior_valid_b md5 w) && fails_b md5 w 0 && fails_b md5 w 1
                 then negb (returned (r_out o)) else true) = true <->
                (ConstSums w -> ~ PriorValid md5 w -> Fails md5 w 0 -> Fails md5 w 1 -> returned (r_out o) = false)).
    { destruct (const_b w && negb (prior_valid_b md5 w) && fails_b md5 w 0 && fails_b md5 w 1) eqn:G.
      - rewrite !andb_true_iff, negb_true_iff, <- not_true_iff_false, prior_valid_b_iff, !fails_b_iff, const_b_iff in G.
        rewrite negb_true_iff. tauto.
      - split; [|reflexivity]. intros _ H1 H2 H3 H4.
        assert (const_b w && negb (prior_valid_b md5 w) && fails_b md5 w 0 && fails_b md5 w 1 = true); [|congruence].
        rewrite !andb_true_iff, negb_true_iff, <- not_true_iff_false, prior_valid_b_iff, !fails_b_iff, const_b_iff. tauto. }
    rewrite B. reflexivity.
  Qed.

  Lemma spec_b_iff : spec_b md5 w o = true <-> Spec md5 w o.
  Proof.
    unfold spec_b, Spec. rewrite !andb_true_iff, sound_b_iff, skip_b_iff, retry_b_iff, raises_b_iff. tauto.
  Qed.
End Reflect.

(* ---------------------------------------------------------------------------------------------- *)
(* the model meets every clause, in every world, for every digest function                         *)

Section Meets.
  Variable md5 : Z -> Z.
  Variable w : world.
  Let r := download md5 w.

  Lemma model_sound : Sound md5 w r.
  Proof.
    intros Hr c Hp. destruct (sound_last md5 w Hr) as (k & Hk & H). fold r in Hk, H. apply H.
    destruct Hp as [[Hc Hs]|(_ & _ & Hs)].
    - rewrite wsum_const by exact Hc. exact Hs.
    - apply Hs. lia.
  Qed.

  Lemma prior_valid_const : ConstSums w ->
    (PriorValid md5 w <-> exists b, w_prior w = Some b /\ wsum w 0 = Sum (md5 b)).
  Proof. intros Hc. unfold PriorValid. rewrite wsum_const by exact Hc. reflexivity. Qed.

  Lemma model_skip : Skip md5 w r.
  Proof.
    intros Hc Hv. apply (prior_valid_const Hc) in Hv. destruct Hv as (b & Hb & Hs).
    unfold r. rewrite (skip_result md5 w b Hb Hs). cbn. rewrite Hb. auto.
  Qed.

  Lemma fails_const : forall b i k, ConstSums w -> wdata w i = Body b ->
    (Fails md5 w i <-> Mismatch md5 w b k).
  Proof.
    intros b i k Hc Hb. unfold Fails, Mismatch. rewrite wsum_const by exact Hc. split.
    - intros (b' & c & Hb' & Hr & Hn). exists c. split; [exact Hr|congruence].
    - intros (c & Hr & Hn). exists b, c. auto.
  Qed.

  Lemma model_retry : OneRetry md5 w r.
  Proof.
    intros Hc. destruct (one_retry md5 w) as [H1 H2]. fold r in H1, H2. split; [exact H1|].
    rewrite H2. unfold r at 1. rewrite skip_iff, <- (prior_valid_const Hc). split.
    - intros (Hv & b1 & Hb & Hm). split; [exact Hv|]. apply (fails_const b1 0 (k0 w) Hc Hb). exact Hm.
    - intros (Hv & Hf). split; [exact Hv|]. destruct Hf as (b1 & c & Hb & Hf). exists b1. split; [exact Hb|].
      apply (fails_const b1 0 (k0 w) Hc Hb). exists b1, c. exact (conj Hb Hf).
  Qed.

  Lemma model_raises : Raises md5 w r.
  Proof.
    split.
    - intros H. apply raises_http in H. fold r in H. rewrite H. reflexivity.
    - intros Hc Hv Hf0 Hf1.
      assert (H2 : n_data r = 2%nat).
      { apply model_retry; [exact Hc|]. split; assumption. }
      assert (Hm : r_out r = RaiseMismatch).
      { apply raises_mismatch. fold r. split; [exact H2|]. destruct Hf1 as (b2 & c & Hb & Hf).
        exists b2. split; [exact Hb|]. apply (fails_const b2 1 (S (k0 w)) Hc Hb). exists b2, c. exact (conj Hb Hf). }
      rewrite Hm. reflexivity.
  Qed.

  Lemma model_meets_spec : Spec md5 w r.
  Proof. exact (conj model_sound (conj model_skip (conj model_retry model_raises))). Qed.
End Meets.

(* in words of the statement, for a checksum URL that always answers with the checksum c:
   whatever the data URL does and whatever was on disk, a normal return leaves a file with MD5 c *)
Lemma sound_const : forall md5 w c, ConstSums w -> w_rest w = Sum c ->
  returned (r_out (download md5 w)) = true -> exists b, r_file (download md5 w) = Some b /\ md5 b = c.
Proof. intros md5 w c Hc Hr Hret. apply (model_sound md5 w Hret). left. auto. Qed.

(* ... and, with a digest function that separates the good body g from every other content, the
   file is g itself *)
Lemma sound_good_body : forall md5 w g, (forall b, md5 b = md5 g -> b = g) ->
  ConstSums w -> w_rest w = Sum (md5 g) ->
  returned (r_out (download md5 w)) = true -> r_file (download md5 w) = Some g.
Proof.
  intros md5 w g Hinj Hc Hr Hret. destruct (sound_const md5 w (md5 g) Hc Hr Hret) as (b & Hb & Hm).
  rewrite Hb. f_equal. apply Hinj, Hm.
Qed.

(* a persistent mismatch or an HTTP error raises: if the existing file (if any) is not valid and each
   of the first two answers of the data URL is an error status or a body without the published MD5,
   the call does not return *)
Lemma persistent_raises : forall md5 w c, ConstSums w -> w_rest w = Sum c ->
  (forall b, w_prior w = Some b -> md5 b <> c) ->
  (forall i b, (i < 2)%nat -> wdata w i = Body b -> md5 b <> c) ->
  returned (r_out (download md5 w)) = false.
Proof.
  intros md5 w c Hc Hr Hp Hd.
  assert (Hs : forall k, wsum w k = Sum c) by (intros k; rewrite wsum_const by exact Hc; exact Hr).
  assert (H0 := Hd 0%nat). assert (H1 := Hd 1%nat). assert (S0 := Hs 0%nat). assert (S1 := Hs 1%nat).
  assert (S2 := Hs 2%nat). clear Hd Hs.
  revert H0 H1 Hp S0 S1 S2. run_download w; intros; try reflexivity; exfalso.
  all: repeat match goal with
       | H : Sum _ = Sum _ |- _ => injection H as H; subst
       | H : Sum _ = CNone |- _ => discriminate H
       | H : CNone = Sum _ |- _ => discriminate H
       end.
  all: repeat match goal with
       | H : forall b, Some _ = Some b -> _ |- _ => specialize (H _ eq_refl)
       | H : forall b, (_ < 2)%nat -> Body _ = Body b -> _ |- _ => specialize (H _ ltac:(lia) eq_refl)
       end; congruence.
Qed.

(* ---------------------------------------------------------------------------------------------- *)
(* stage 3: when the call DOES return (the statement only says when it must not), and what it does
   when no checksum is available                                                                   *)

(* the k-th checksum answer does not refute body b: it is unavailable, or it is b's own checksum *)
Definition Accepts (md5 : Z -> Z) (w : world) (b : Z) (k : nat) : Prop :=
  wsum w k = CNone \/ wsum w k = Sum (md5 b).

Lemma accepts_iff_not_mismatch : forall md5 w b k, Accepts md5 w b k <-> ~ Mismatch md5 w b k.
Proof.
  intros md5 w b k. unfold Accepts, Mismatch. destruct (wsum w k) as [c|]; split; intros H.
  - intros (c' & Hc & Hn). destruct H as [H|H]; [discriminate|]. congruence.
  - right. destruct (Z.eq_dec (md5 b) c) as [->|Hne]; [reflexivity|]. exfalso. apply H. eauto.
  - intros (c' & Hc & _). discriminate.
  - left. reflexivity.
Qed.

Ltac acc :=
  repeat match goal with
  | H : Accepts _ _ _ _ |- _ => unfold Accepts in H; destruct H
  end.

Section Flow3.
  Variable md5 : Z -> Z.
  Variable w : world.
  Let r := download md5 w.

  (* the call ends with "downloaded" exactly when it was not skipped and either the first 200 body
     was not refuted, or it was refuted and the second data GET brought a body that was not *)
  Lemma done_iff : r_out r = RetDone <->
    n_data r <> O /\
    ((exists b1, wdata w 0 = Body b1 /\ Accepts md5 w b1 (k0 w)) \/
     (exists b1 b2, wdata w 0 = Body b1 /\ Mismatch md5 w b1 (k0 w) /\
                    wdata w 1 = Body b2 /\ Accepts md5 w b2 (S (k0 w)))).
  Proof.
    unfold r. run_download w; split; intros H; inv; try discriminate; try reflexivity; try lia.
    all: try (split; [lia|]).
    all: try (left; eexists; split; [reflexivity|]; unfold Accepts; cbn; first [left; assumption | right; congruence]).
    all: try (right; do 2 eexists; split; [reflexivity|]; split; [eexists; split; [eassumption|congruence]|];
              split; [reflexivity|]; unfold Accepts; cbn; first [left; assumption | right; congruence]).
    all: exfalso; repeat match goal with H : _ \/ _ |- _ => destruct H end; inv; acc; cbn in *; congruence.
  Qed.

  (* "skipped" is the outcome exactly when no data GET was made *)
  Lemma skip_out_iff : r_out r = RetSkip <-> n_data r = O.
  Proof. unfold r. run_download w; split; intros H; try discriminate; try reflexivity; try lia. Qed.

  Lemma returned_iff : returned (r_out r) = true <-> r_out r = RetSkip \/ r_out r = RetDone.
  Proof.
    destruct (outcome_model md5 w) as [H|[H|[H|H]]]; fold r in H; rewrite H; cbn; split; intros K; auto;
      try discriminate; destruct K; discriminate.
  Qed.

  (* no checksum is ever available: exactly one data GET whatever was on disk (an existing file cannot
     be established as valid and is downloaded again); a 200 body is accepted as it is, an error status
     raises and leaves the file alone *)
  Lemma no_checksum : ConstSums w -> w_rest w = CNone ->
    n_data r = 1%nat /\
    (forall b, wdata w 0 = Body b -> r = {| r_out := RetDone; r_file := Some b; r_trace := trace_of w 1 |}) /\
    (wdata w 0 = DErr -> r_out r = RaiseHttp /\ r_file r = w_prior w).
  Proof.
    intros Hc Hr.
    assert (Hs : forall k, wsum w k = CNone) by (intros k; rewrite wsum_const by exact Hc; exact Hr).
    assert (S0 := Hs 0%nat). assert (S1 := Hs 1%nat). clear Hs.
    revert S0 S1. unfold r. run_download w; intros; try discriminate; (split; [reflexivity|]); split; intros;
      try discriminate; try (split; reflexivity);
      repeat match goal with H : Body _ = Body _ |- _ => injection H as H; subst end; reflexivity.
  Qed.

  (* the checksum URL always answers c and the existing file (if any) does not have MD5 c: a good
     first transfer returns after one data GET, a corrupted first transfer followed by a good one
     returns after two; in both cases the file is the good body *)
  Lemma good_transfer_returns : forall c, ConstSums w -> w_rest w = Sum c ->
    (forall b, w_prior w = Some b -> md5 b <> c) ->
    (forall g, wdata w 0 = Body g -> md5 g = c ->
       r = {| r_out := RetDone; r_file := Some g; r_trace := trace_of w 1 |}) /\
    (forall b1 g, wdata w 0 = Body b1 -> md5 b1 <> c -> wdata w 1 = Body g -> md5 g = c ->
       r = {| r_out := RetDone; r_file := Some g; r_trace := trace_of w 2 |}).
  Proof.
    intros c Hc Hr Hp.
    assert (Hs : forall k, wsum w k = Sum c) by (intros k; rewrite wsum_const by exact Hc; exact Hr).
    assert (S0 := Hs 0%nat). assert (S1 := Hs 1%nat). assert (S2 := Hs 2%nat). clear Hs.
    revert Hp S0 S1 S2. unfold r. run_download w; intros; split; intros;
      repeat match goal with
      | H : Sum _ = Sum _ |- _ => injection H as H; subst
      | H : Body _ = Body _ |- _ => injection H as H; subst
      | H : forall b, Some _ = Some b -> _ |- _ => specialize (H _ eq_refl)
      end; try discriminate; try congruence; try reflexivity.
  Qed.
End Flow3.

(* ---------------------------------------------------------------------------------------------- *)
(* (B) bytes                                                                                       *)

Section BytesProofs.
  Variable byte : Type.

  Lemma save_stream_loop_app : forall (chunks : list (list byte)) (file : list byte),
    save_stream_loop byte chunks file = file ++ concat chunks.
  Proof.
    induction chunks as [|c r IH]; intros file; cbn [save_stream_loop concat].
    - rewrite app_nil_r. reflexivity.
    - destruct c as [|x c']; cbn [is_nil].
      + rewrite IH. reflexivity.
      + rewrite IH, <- app_assoc. reflexivity.
  Qed.

  (* whatever chunking iter_content produces (empty chunks included), the file ends up holding
     exactly the bytes of the response body, and nothing of what it held before *)
  Lemma save_stream_concat : forall chunks : list (list byte), save_stream byte chunks = concat chunks.
  Proof. intros chunks. unfold save_stream. rewrite save_stream_loop_app. reflexivity. Qed.

  Variable hstate : Type.
  Variable upd : hstate -> list byte -> hstate.
  Hypothesis upd_app : forall m a b, upd (upd m a) b = upd m (a ++ b).
  Hypothesis upd_nil : forall m, upd m [] = m.

  Lemma md5_loop_spec : forall fuel bs rest m, (0 < bs)%nat -> (length rest < fuel)%nat ->
    md5_loop byte hstate upd fuel bs rest m = Some (upd m rest).
  Proof.
    induction fuel as [|fuel IH]; intros bs rest m Hbs Hf; [lia|]. cbn [md5_loop].
    destruct rest as [|x rest'].
    - rewrite firstn_nil. cbn [is_nil]. rewrite upd_nil. reflexivity.
    - destruct bs as [|bs']; [lia|]. cbn [firstn is_nil].
      rewrite IH; [|lia|].
      + rewrite upd_app. change (x :: firstn bs' rest') with (firstn (S bs') (x :: rest')).
        rewrite firstn_skipn. reflexivity.
      + rewrite skipn_length. cbn [length] in *. lia.
  Qed.

  (* _md5 feeds the hash exactly the file's bytes, for every positive block size: the loop ends, and
     the digest does not depend on the block size *)
  Lemma md5_file_spec : forall bs content m, (0 < bs)%nat ->
    md5_file byte hstate upd bs content m = Some (upd m content).
  Proof. intros bs content m Hbs. unfold md5_file. apply md5_loop_spec; [exact Hbs|lia]. Qed.
End BytesProofs.

(* ---------------------------------------------------------------------------------------------- *)
(* stage 5: availability read off the server (Spec.SoundFinal)                                     *)

Section Flow5.
  Variable md5 : Z -> Z.
  Variable w : world.
  Let r := download md5 w.

  (* a normal return: if the checksum answer the server holds ready after the last data GET (the first
     answer, when no data GET was made) publishes c, the file has MD5 c *)
  Lemma sound_final : SoundFinal md5 w r.
  Proof.
    unfold SoundFinal, r, k_final. run_download w; intros Hr c' Hc; try discriminate Hr; cbn in Hc;
      (eexists; split; [reflexivity|]; congruence).
  Qed.

  (* the answer in question is the last one the model consulted *)
  Lemma k_final_last : returned (r_out r) = true -> n_sum r = S (k_final r).
  Proof. unfold r, k_final. run_download w; intros Hr; try discriminate Hr; reflexivity. Qed.

  Lemma model_meets_spec5 : Spec5 md5 w r.
  Proof. exact (conj (model_meets_spec md5 w) sound_final). Qed.
End Flow5.

Section Reflect5.
  Variable md5 : Z -> Z.
  Variable w : world.
  Variable o : result.

  Lemma sound_final_b_iff : sound_final_b md5 w o = true <-> SoundFinal md5 w o.
  Proof.
    unfold sound_final_b, SoundFinal. destruct (returned (r_out o)); [|split; intros; [discriminate|reflexivity]].
    destruct (wsum w (k_final o)) as [c|].
    - destruct (r_file o) as [b|]; split; intros H.
      + intros _ c' Hc. exists b. split; [reflexivity|]. apply Z.eqb_eq in H. congruence.
      + destruct (H eq_refl c eq_refl) as (b' & Hb & Hm). apply Z.eqb_eq. congruence.
      + discriminate.
      + destruct (H eq_refl c eq_refl) as (b' & Hb & _). discriminate.
    - split; [|reflexivity]. intros _ _ c Hc. discriminate.
  Qed.

  Lemma spec5_b_iff : spec5_b md5 w o = true <-> Spec5 md5 w o.
  Proof. unfold spec5_b, Spec5. rewrite andb_true_iff, spec_b_iff, sound_final_b_iff. reflexivity. Qed.
End Reflect5.
