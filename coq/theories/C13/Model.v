(* C13/Model.v -- executable model of EphysAlfCreator.convert (phylib/io/alf.py) on an abstract source
   directory that has already been loaded by TemplateModel (PV.C04.Model.load): WHICH files are written,
   with which first dimension / shape and dtype, the renames of _FILE_RENAMES (with the squeeze of (n,1)
   vectors), rename_with_label, compress_spikes_dtypes, the same-directory guard, the deletion of
   temp_wh.dat and the three subset files added to the source.

   The VALUES of waveforms / amplitudes / depths / peak channels / durations are property C14's business:
   they are supplied by an oracle (o_data, by un-labelled output name) and only their shapes and dtypes
   are determined here.  The spike-subset files (C03/C17's business) are whole-array oracles.  uuids are
   an oracle (count and distinctness are hypotheses of the theorem, checked on the observed file).

   Repaired behaviour modelled (DESIGN.md section 9 / notes/C13.md): n_clusters = n_templates when nothing was
   curated (fix-c08), get_amplitudes_true with minlength (fix-c09), integer nan_idx and the cluster-depth
   fallback of make_depths (fix-c13).  No proofs here. *)
From Coq Require Import ZArith List Bool String Ascii.
From PV Require Import Base.Tok Base.TokArith C04.Model.
Import ListNotations.
Open Scope string_scope.
Open Scope list_scope.
Open Scope Z_scope.

(* ---------- non-array files ---------- *)
Inductive text :=
| TUuids (ids : list Z)        (* clusters.uuids.csv: header line 'uuids' + one identifier per line *)
| TCopy (content : Z).         (* byte copy of a source file; content = opaque identity of its bytes *)
Definition texts := list (string * text).
Definition others := list (string * Z).      (* non-.npy files of the source directory: name, content identity *)

Inductive cerr :=
| CRefused        (* IOError: source and target directories are the same *)
| CNoAmps         (* TypeError in get_amplitudes_true: no amplitudes file *)
| CSparse         (* NotImplementedError / ValueError: sparse templates *)
| CMissing        (* FileNotFoundError: clusters.channels.npy not written because the source has one *)
| CStop           (* StopIteration in compress_spikes_dtypes: no spikes.templates / spikes.clusters file *)
| CRegime.        (* outside what the model describes *)
Inductive cres (A : Type) := COk (a : A) | CErr (e : cerr).
Arguments COk {A}. Arguments CErr {A}.

Record oracles := mkoracles {
  o_data : string -> list tok;       (* C14's values, indexed by the un-labelled output file name *)
  o_subset : string -> arr;          (* the three _phy_spikes_subset.* arrays written into the source *)
  o_uuids : nat -> list Z            (* uuid4() called n times *)
}.

Record conv_in := mkci {
  ci_m : loaded;            (* the TemplateModel of the source (PV.C04.Model.load of the directory) *)
  ci_src : files;           (* the .npy files of the source directory, after that load *)
  ci_others : others;       (* its other files *)
  ci_has_raw : bool;        (* model.traces is not None *)
  ci_same : bool;           (* out_path.resolve() == dir_path.resolve() *)
  ci_label : string
}.
Record conv_out := mkco {
  co_npy : files;           (* .npy files of the output directory *)
  co_txt : texts;           (* its other files *)
  co_src : files;           (* .npy files of the source directory afterwards *)
  co_others : others        (* other files of the source directory afterwards *)
}.

(* ---------- counts ---------- *)
Definition n_spikes (m : loaded) : Z := hd 0 (a_shape (l_times m)).
Definition n_templates (m : loaded) : Z := hd 0 (a_shape (l_tdata m)).
Definition n_wsamples (m : loaded) : Z := nth 1 (a_shape (l_tdata m)) 0.
Definition n_channels (m : loaded) : Z := hd 0 (a_shape (l_cmap m)).
Definition ids_of (a : arr) : list Z := map (fun t => match tok_Z t with Some z => z | None => 0 end) (a_data a).
Definition zmax (l : list Z) : Z := fold_right Z.max 0 l.
Definition is_none {A} (o : option A) : bool := match o with None => true | Some _ => false end.
(* _load_data: cluster waveforms are recomputed iff some spike changed cluster and the templates are dense *)
Definition curated (m : loaded) : bool :=
  negb (tl_eqb (a_data (l_sclusters m)) (a_data (l_stemplates m))) && is_none (l_tcols m).
(* sparse_clusters.data.shape[0] = n_clusters: max id + 1 when curated, n_templates otherwise *)
Definition n_clu (m : loaded) : Z := if curated m then zmax (ids_of (l_sclusters m)) + 1 else n_templates m.
(* ncw = min(n_closest_channels, n_channels) *)
Definition n_closest : Z := 12.
Definition ncw (m : loaded) : Z := Z.min n_closest (n_channels m).

Definition has {V} (k : string) (l : list (string * V)) : bool := match lookup k l with Some _ => true | None => false end.
(* np.save / open(..., 'w'): replace the file of that name or add it *)
Fixpoint fwrite {V} (k : string) (v : V) (l : list (string * V)) : list (string * V) :=
  match l with
  | [] => [(k, v)]
  | (k', v') :: r => if String.eqb k k' then (k, v) :: r else (k', v') :: fwrite k v r
  end.

(* ---------- the files convert() creates itself ---------- *)
Definition mk (o : oracles) (name : string) (d : dt) (shape : list Z) : string * arr :=
  (name, mkarr d shape (o_data o name)).

(* make_cluster_objects: the two files guarded by "not in the source directory"; clusters.amps (written here
   and written again, same length and dtype, by make_template_and_spikes_objects) *)
Definition made_cluster (o : oracles) (m : loaded) (src : files) : files :=
  (if has "clusters.channels.npy" src then [] else [mk o "clusters.channels.npy" DI64 [n_clu m]]) ++
  (if has "clusters.peakToTrough.npy" src then [] else [mk o "clusters.peakToTrough.npy" DF64 [n_clu m]]) ++
  [mk o "clusters.amps.npy" DF64 [n_clu m]].

(* make_channel_objects: rawInd[probe == p] = channel_map[probe == p] - offset; offset = max(channel_map[probe == p])
   (repaired, /repo 249be62 = fix-c14 d55d2ca: the previous probe's maximum IS the next offset, as Merger.write_channel_data
   shifts; it used to be accumulated with +=, wrong from the third probe on), probes visited in increasing order
   (np.unique).  Arithmetic in Z: the regime (Corr) excludes wrap-around. *)
Fixpoint usort_insert (x : Z) (l : list Z) : list Z :=
  match l with
  | [] => [x]
  | y :: r => if x <? y then x :: l else if x =? y then l else y :: usort_insert x r
  end.
Definition zunique (l : list Z) : list Z := fold_right usort_insert [] l.
Definition sel_max (probes cmap : list Z) (p : Z) : Z :=
  zmax (map snd (filter (fun pc => fst pc =? p) (combine probes cmap))).
(* offsets in force when each probe is visited *)
Fixpoint probe_offsets (ps : list Z) (probes cmap : list Z) (off : Z) : list (Z * Z) :=
  match ps with
  | [] => []
  | p :: r => (p, off) :: probe_offsets r probes cmap (sel_max probes cmap p)
  end.
Fixpoint zassoc (k : Z) (l : list (Z * Z)) : Z :=
  match l with [] => 0 | (k', v) :: r => if k =? k' then v else zassoc k r end.
Definition raw_ind (probes cmap : list Z) : list Z :=
  let offs := probe_offsets (zunique probes) probes cmap 0 in
  map (fun pc => snd pc - zassoc (fst pc) offs) (combine probes cmap).
Definition made_channel (m : loaded) : files :=
  [("channels.rawInd.npy",
    mkarr DI64 (a_shape (l_probes m)) (map tz (raw_ind (ids_of (l_probes m)) (ids_of (l_cmap m)))))].

(* make_template_and_spikes_objects *)
Definition made_spikes (o : oracles) (m : loaded) : files :=
  [("spikes.times.npy", l_times m);                      (* model.spike_times: seconds *)
   ("spikes.samples.npy", l_samples m);                  (* model.spike_samples: samples *)
   mk o "spikes.amps.npy" DF32 [n_spikes m];
   mk o "templates.amps.npy" DF64 [n_templates m];
   mk o "templates.waveforms.npy" DF32 [n_templates m; n_wsamples m; ncw m];
   mk o "templates.waveformsChannels.npy" DI32 [n_templates m; ncw m];
   mk o "clusters.waveforms.npy" DF32 [n_clu m; n_wsamples m; ncw m];
   mk o "clusters.waveformsChannels.npy" DI32 [n_clu m; ncw m]].

(* make_depths: clusters.depths keeps the dtype of the channel positions *)
Definition made_depths (o : oracles) (m : loaded) : files :=
  [mk o "spikes.depths.npy" DF32 [n_spikes m];
   mk o "clusters.depths.npy" (a_dt (l_pos m)) [n_clu m]].

Definition made (o : oracles) (m : loaded) (src : files) : files :=
  made_cluster o m src ++ made_channel m ++ made_spikes o m ++ made_depths o m.

(* save_spikes_subset_waveforms writes into the SOURCE directory when there is raw data *)
Definition SUBSET := ["_phy_spikes_subset.spikes.npy"; "_phy_spikes_subset.channels.npy"; "_phy_spikes_subset.waveforms.npy"].
Definition add_subset (o : oracles) (has_raw : bool) (src : files) : files :=
  if has_raw then fold_left (fun fs n => fwrite n (o_subset o n) fs) SUBSET src else src.

(* ---------- copy_files ---------- *)
Definition FILE_RENAMES : list (string * string * bool) := [
  ("params.py", "params.py", false);
  ("cluster_KSLabel.tsv", "cluster_KSLabel.tsv", false);
  ("spike_clusters.npy", "spikes.clusters.npy", true);
  ("spike_templates.npy", "spikes.templates.npy", true);
  ("channel_positions.npy", "channels.localCoordinates.npy", false);
  ("channel_probe.npy", "channels.probes.npy", true);
  ("channel_labels.npy", "channels.labels.npy", true);
  ("cluster_probes.npy", "clusters.probes.npy", true);
  ("cluster_shanks.npy", "clusters.shanks.npy", true);
  ("whitening_mat.npy", "_kilosort_whitening.matrix.npy", false);
  ("_phy_spikes_subset.channels.npy", "_phy_spikes_subset.channels.npy", false);
  ("_phy_spikes_subset.spikes.npy", "_phy_spikes_subset.spikes.npy", false);
  ("_phy_spikes_subset.waveforms.npy", "_phy_spikes_subset.waveforms.npy", false);
  ("drift_depths.um.npy", "drift_depths.um.npy", false);
  ("drift.times.npy", "drift.times.npy", false);
  ("drift.um.npy", "drift.um.npy", false)].
(* ks2 vectors saved as (n,1): np.save(f1, d.squeeze()) when the header says 2-d with last axis 1 *)
Definition copy_npy (sq : bool) (a : arr) : arr :=
  if sq then match a_shape a with [_; 1] => squeeze a | _ => a end else a.
Definition copied_npy (src : files) : files :=
  flat_map (fun e => match lookup (fst (fst e)) src with
                     | Some a => [(snd (fst e), copy_npy (snd e) a)]
                     | None => [] end) FILE_RENAMES.
Definition copied_txt (oth : others) : texts :=
  flat_map (fun e => match lookup (fst (fst e)) oth with
                     | Some c => [(snd (fst e), TCopy c)]
                     | None => [] end) FILE_RENAMES.

(* rm_files *)
Definition FILE_DELETES := ["temp_wh.dat"].
Definition rm_files (oth : others) : others := filter (fun kv => negb (str_in (fst kv) FILE_DELETES)) oth.

(* ---------- rename_with_label ---------- *)
(* split at the last '.' *)
Fixpoint rsplit_dot (s : string) : option (string * string) :=
  match s with
  | EmptyString => None
  | String c r =>
      match rsplit_dot r with
      | Some (st, ex) => Some (String c st, ex)
      | None => if Ascii.eqb c "."%char then Some (EmptyString, s) else None
      end
  end.
(* (name without Path.suffix, Path.suffix): the suffix starts at the last '.', unless that is the first
   or the last character of the name (then there is no suffix) *)
Definition split_ext (name : string) : string * string :=
  match rsplit_dot name with
  | Some (st, ex) => if String.eqb st "" || Nat.eqb (String.length ex) 1 then (name, "") else (st, ex)
  | None => (name, "")
  end.
Definition LABEL_PREFIXES := ["channels."; "clusters."; "spikes."; "templates."].    (* glob 'channels.*' ... *)
Definition labelled (name : string) : bool := existsb (fun p => starts_with p name) LABEL_PREFIXES.
(* f.with_suffix('.' + label + f.suffix) *)
Definition with_label (L name : string) : string :=
  let se := split_ext name in append (fst se) (append "." (append L (snd se))).
Definition relabel (L name : string) : string :=
  if String.eqb L "" then name else if labelled name then with_label L name else name.
Definition rename_with_label {V} (L : string) (fs : list (string * V)) : list (string * V) :=
  map (fun kv => (relabel L (fst kv), snd kv)) fs.

(* ---------- compress_spikes_dtypes ---------- *)
(* astype(np.uint16) of integer data: wraps modulo 2^16 *)
Definition to_u16 (a : arr) : arr :=
  mkarr DU16 (a_shape a) (map (fun t => match tok_Z t with Some z => tz (z mod 65536) | None => t end) (a_data a)).
(* fn = next(out_path.glob(pre + '*npy')); np.save(fn, np.load(fn).astype(np.uint16)) *)
Fixpoint compress_first (pre : string) (fs : files) : option files :=
  match fs with
  | [] => None
  | kv :: r => if glob1 pre "npy" (fst kv) then Some ((fst kv, to_u16 (snd kv)) :: r)
               else option_map (cons kv) (compress_first pre r)
  end.

(* ---------- convert ---------- *)
Definition out0_npy (o : oracles) (ci : conv_in) : files :=
  made o (ci_m ci) (ci_src ci) ++ copied_npy (add_subset o (ci_has_raw ci) (ci_src ci)).
Definition out0_txt (o : oracles) (ci : conv_in) : texts :=
  ("clusters.uuids.csv", TUuids (o_uuids o (Z.to_nat (n_clu (ci_m ci))))) :: copied_txt (rm_files (ci_others ci)).

Definition convert (o : oracles) (ci : conv_in) : cres conv_out :=
  if ci_same ci then CErr CRefused else
  let m := ci_m ci in
  if negb (is_none (l_tcols m)) then CErr CSparse else
  if is_none (l_amps m) then CErr CNoAmps else
  if has "clusters.channels.npy" (ci_src ci) then CErr CMissing else
  let npy1 := rename_with_label (ci_label ci) (out0_npy o ci) in
  match compress_first "spikes.templates." npy1 with
  | None => CErr CStop
  | Some npy2 =>
      match compress_first "spikes.clusters." npy2 with
      | None => CErr CStop
      | Some npy3 =>
          COk (mkco npy3 (rename_with_label (ci_label ci) (out0_txt o ci))
                    (add_subset o (ci_has_raw ci) (ci_src ci)) (rm_files (ci_others ci)))
      end
  end.
