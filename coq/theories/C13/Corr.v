(* C13/Corr.v -- comparator for the ALF export.  codes:
   1  observed output / source directory differs from the model on a determined observable (file set, dtypes,
      shapes, determined values, copies, deletions)          3  input outside the stated regime (harness bug)
   20 conversion of a well-formed dense dataset failed / crashed
   21 C13_rows      first dimensions of spikes.* / clusters.* / templates.* / channels.* (+ number of uuids)
   22 C13_units     spikes.samples = the source samples, spikes.times[i] = samples[i] / rate (one binary64 division)
   23 C13_label     label inserted before the extension of exactly the spikes/clusters/templates/channels files
   24 C13_uuids     one identifier per cluster, pairwise distinct
   25 C13_roundtrip loading the output gives the same times, samples, clusters, templates, positions, and channel map
                    (single probe; with several probes: the re-based rawInd)
   26 C13_guard     same directory (any spelling / symlink) must be refused and nothing written
   27 C13_frame     source files byte-identical, only temp_wh.dat deleted, only the three subset files added (iff raw data)
   28 C13_dtypes    spikes.clusters / spikes.templates stored as uint16 with unchanged values *)
From Coq Require Import ZArith List Bool String Ascii.
From PV Require Export Base.Tok Base.TokArith Base.FloatTok C04.Model C13.Model C13.Spec.
Import ListNotations.
Open Scope string_scope.
Open Scope list_scope.
Open Scope Z_scope.

Record inp := mkinp {
  i_src : files; i_others : others; i_rate : tok; i_ncd : option Z;
  i_has_raw : bool; i_same : bool; i_label : string }.
Record reloaded := mkrl {
  r_samples : arr; r_times : arr; r_sclusters : arr; r_stemplates : arr; r_cmap : arr; r_pos : arr }.
Record obsrec := mkobs {
  ob_npy : files;                  (* .npy files of the output directory after convert(), as np.load reads them *)
  ob_txt : texts;                  (* its other files: uuids as indices of distinct strings, copies as content ids *)
  ob_changed : list string;        (* pre-existing source files whose bytes changed *)
  ob_deleted : list string;        (* pre-existing source files that disappeared *)
  ob_new : files;                  (* new .npy files of the source directory *)
  ob_new_other : list string;      (* other new files of the source directory *)
  ob_rl : reloaded                 (* the TemplateModel of the output directory *)
}.
Inductive input := InConvert (i : inp).
Inductive observed := ObsConverted (o : obsrec) | ObsRefused (untouched : bool) | ObsCrash.
Record case := { cid : Z; cin : input; cobs : observed }.

Definition flag (code : Z) (ok : bool) : list Z := if ok then [] else [code].
Definition text_eqb (a b : text) : bool :=
  match a, b with
  | TUuids x, TUuids y => zl_eqb x y
  | TCopy x, TCopy y => x =? y
  | _, _ => false
  end.
(* same directory content: same number of files, distinct names, every file of a is in b with equal value *)
Definition dir_eqb {V} (eqb : V -> V -> bool) (a b : list (string * V)) : bool :=
  (List.length a =? List.length b)%nat && str_nodup (names a) && str_nodup (names b) &&
  forallb (fun kv => match lookup (fst kv) b with Some x => eqb (snd kv) x | None => false end) a.

Definition oracle_of (L : string) (o : obsrec) : oracles :=
  mkoracles
    (fun n0 => match lookup (relabel L n0) (ob_npy o) with Some a => a_data a | None => [] end)
    (fun n => match lookup n (ob_new o) with Some a => a | None => mkarr DBool [] [] end)
    (fun _ => match lookup (relabel L "clusters.uuids.csv") (ob_txt o) with Some (TUuids l) => l | _ => [] end).
Definition dummy_oracle : oracles := mkoracles (fun _ => []) (fun _ => mkarr DBool [] []) (fun _ => []).

Definition all_nonneg (l : list Z) : bool := forallb (fun z => 0 <=? z) l.
Definition int_toks (a : arr) : bool := forallb (fun t => match tok_Z t with Some _ => true | None => false end) (a_data a).
Definition single_probe (m : loaded) : bool :=
  match zunique (ids_of (l_probes m)) with [_] => true | _ => false end.

(* the stated regime: a loaded, dense, KS-named source directory with amplitudes, consistent shapes, no axis
   of length 1 (phylib squeezes every array), ids below 65536, raw indices that do not wrap *)
Definition in_regime (i : inp) (m : loaded) : bool :=
  forallb (fun p => Nat.leb (n_matches p (i_src i)) 1) all_patterns &&
  forallb (fun kv => arr_wf (snd kv)) (i_src i) && str_nodup (names (i_src i)) && str_nodup (names (i_others i)) &&
  match l_created m with [] => true | _ => false end &&
  has "spike_times.npy" (i_src i) && has "spike_clusters.npy" (i_src i) && has "spike_templates.npy" (i_src i) &&
  negb (is_none (l_amps m)) && is_none (l_tcols m) &&
  negb (has "clusters.channels.npy" (i_src i)) && negb (has "clusters.peakToTrough.npy" (i_src i)) &&
  src_wf m (i_src i) && ids_ok (l_sclusters m) && ids_ok (l_stemplates m) &&
  int_toks (l_cmap m) && int_toks (l_probes m) &&
  all_nonneg (raw_ind (ids_of (l_probes m)) (ids_of (l_cmap m))) &&
  (negb (i_has_raw i) || negb (existsb (fun n => has n (i_src i)) SUBSET)) &&
  (2 <=? n_spikes m) && (2 <=? n_templates m) && (2 <=? n_channels m) && (2 <=? n_wsamples m) &&
  forallb (fun kv => negb (ends_with ".npy" (fst kv))) (i_others i) &&
  forallb (fun kv => ends_with ".npy" (fst kv)) (i_src i).

Definition spec_rows (m : loaded) (L : string) (o : obsrec) : bool :=
  rows_b (n_spikes m) (n_clu m) (n_templates m) (n_channels m) (ob_npy o) &&
  match lookup (relabel L "clusters.uuids.csv") (ob_txt o) with
  | Some (TUuids l) => Z.of_nat (List.length l) =? n_clu m
  | _ => false end.

(* units, judged against the source file, not against the model of convert *)
Definition spec_units (i : inp) (L : string) (o : obsrec) : bool :=
  match lookup "spike_times.npy" (i_src i), lookup (relabel L "spikes.samples.npy") (ob_npy o),
        lookup (relabel L "spikes.times.npy") (ob_npy o) with
  | Some f, Some s, Some t =>
      arr_eqb s (read_full f) && dt_eqb (a_dt t) DF64 && zl_eqb (a_shape t) (a_shape s) &&
      (List.length (a_data s) =? List.length (a_data t))%nat &&
      forallb (fun st => match fdiv_tok (fst st) (i_rate i) with Some q => tok_eqb q (snd st) | None => false end)
              (combine (a_data s) (a_data t))
  | _, _, _ => false
  end.

Definition spec_uuids (m : loaded) (L : string) (o : obsrec) : bool :=
  match lookup (relabel L "clusters.uuids.csv") (ob_txt o) with
  | Some (TUuids l) => uuids_b (n_clu m) l
  | _ => false end.

Definition spec_roundtrip (m : loaded) (o : obsrec) : bool :=
  let r := ob_rl o in
  arr_eqb (r_times r) (l_times m) && arr_eqb (r_samples r) (l_samples m) &&
  arr_eqb (r_sclusters r) (l_sclusters m) && arr_veqb (r_stemplates r) (l_stemplates m) &&
  arr_eqb (r_pos r) (l_pos m) &&
  (if single_probe m then arr_veqb (r_cmap r) (l_cmap m)
   else arr_veqb (r_cmap r) (mkarr DI64 (a_shape (l_probes m)) (map tz (raw_ind (ids_of (l_probes m)) (ids_of (l_cmap m)))))).

Definition spec_frame (i : inp) (o : obsrec) : bool :=
  frame_b (has "temp_wh.dat" (i_others i)) (i_has_raw i) (ob_changed o) (ob_deleted o)
          (names (ob_new o) ++ ob_new_other o).

Definition spec_dtypes (i : inp) (L : string) (o : obsrec) : bool :=
  match lookup "spike_clusters.npy" (i_src i), lookup (relabel L "spikes.clusters.npy") (ob_npy o),
        lookup "spike_templates.npy" (i_src i), lookup (relabel L "spikes.templates.npy") (ob_npy o) with
  | Some c0, Some c, Some t0, Some t =>
      dt_eqb (a_dt c) DU16 && dt_eqb (a_dt t) DU16 && tl_eqb (a_data c) (a_data c0) && tl_eqb (a_data t) (a_data t0)
  | _, _, _, _ => false
  end.

Definition check (c : case) : list Z :=
  match cin c with InConvert i =>
  if negb (forallb (fun p => Nat.leb (n_matches p (i_src i)) 1) all_patterns) then [3] else
  match load fdiv_tok fmul_tok round_half_even_tok (fun a => a) (i_src i) (i_rate i) (i_ncd i) with
  | Err _ => [3]
  | Ok m =>
    if negb (in_regime i m) then [3] else
    let L := i_label i in
    let ci o := mkci m (i_src i) (i_others i) (i_has_raw i) (i_same i) L in
    if i_same i then
      match convert dummy_oracle (ci tt), cobs c with
      | CErr CRefused, ObsRefused true => []
      | CErr CRefused, _ => [1; 26]
      | _, _ => [3]
      end
    else
    match cobs c with
    | ObsRefused _ => [1; 20]
    | ObsCrash => [1; 20]
    | ObsConverted o =>
      let orc := oracle_of L o in
      match convert orc (ci tt) with
      | CErr _ => [3]
      | COk r =>
        (* the directory convert() leaves: what it wrote, plus what the read-back load creates when params.py
           was copied (whitening_mat_inv.npy, C04_frame) *)
        let reload := load fdiv_tok fmul_tok round_half_even_tok
                           (fun _ => match lookup "whitening_mat_inv.npy" (ob_npy o) with Some a => a | None => mkarr DF64 [] [] end)
                           (co_npy r) (i_rate i) (i_ncd i) in
        match reload with
        | Err _ => [1; 25]
        | Ok m2 =>
          let exp_npy := co_npy r ++ (if has "params.py" (co_txt r) then l_created m2 else []) in
          let g_out := dir_eqb arr_eqb exp_npy (ob_npy o) && dir_eqb text_eqb (co_txt r) (ob_txt o) &&
                       forallb (fun kv => arr_wf (snd kv)) (ob_npy o) in
          let g_src := dir_eqb arr_eqb (co_src r) (i_src i ++ ob_new o) &&
                       dir_eqb Z.eqb (co_others r)
                               (filter (fun kv => negb (str_in (fst kv) (ob_deleted o))) (i_others i)) &&
                       match ob_new_other o with [] => true | _ => false end in
          let g_rl := arr_eqb (r_samples (ob_rl o)) (l_samples m2) && arr_eqb (r_times (ob_rl o)) (l_times m2) &&
                      arr_eqb (r_sclusters (ob_rl o)) (l_sclusters m2) && arr_eqb (r_stemplates (ob_rl o)) (l_stemplates m2) &&
                      arr_eqb (r_cmap (ob_rl o)) (l_cmap m2) && arr_eqb (r_pos (ob_rl o)) (l_pos m2) in
          let s21 := spec_rows m L o in
          let s22 := spec_units i L o in
          let s23 := label_b L (names (ob_npy o) ++ names (ob_txt o)) in
          let s24 := spec_uuids m L o in
          let s25 := spec_roundtrip m o in
          let s27 := spec_frame i o in
          let s28 := spec_dtypes i L o in
          flag 1 (g_out && g_src && g_rl) ++ flag 21 s21 ++ flag 22 s22 ++ flag 23 s23 ++ flag 24 s24 ++
          flag 25 s25 ++ flag 27 s27 ++ flag 28 s28
        end
      end
    end
  end end.

Definition run (cases : list case) : list (Z * Z) :=
  flat_map (fun c => map (fun code => (cid c, code)) (check c)) cases.
