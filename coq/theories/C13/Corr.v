(* C13/Corr.v -- comparator for the ALF export.  codes:
   1  observed output / source directory differs from the model on a determined observable (file set, dtypes,
      shapes, determined values, copies, deletions)          3  input outside the stated regime (harness bug)
   20 conversion of a well-formed dense dataset failed / crashed
   21 C13_rows      first dimensions of spikes.* / clusters.* / templates.* / channels.* (+ number of uuids)
   22 C13_units     spikes.samples = the source samples, spikes.times[i] = samples[i] / rate (one binary64 division)
   23 C13_label     label inserted before the extension of exactly the spikes/clusters/templates/channels files: every
                    such observed name is <un-labelled table name with .<label> before its extension>
   24 C13_uuids     one identifier per cluster, pairwise distinct
   25 C13_roundtrip loading the output gives the same times, samples, clusters, templates, positions, and channel map
                    (single probe; with several probes: the re-based rawInd)
   26 C13_guard     same directory (any spelling / symlink) must be refused and nothing written
   27 C13_frame     source files byte-identical, only temp_wh.dat deleted, only the three subset files added (iff raw data);
                    when the source directory itself was named as the target: nothing changed, deleted or added at all
   28 C13_dtypes    spikes.clusters / spikes.templates stored as uint16 with unchanged values
   Inputs: InConvert (the stated regime: every clause is judged), InBeyond (ONE step outside the statement -- an id
   >= 65536, sparse templates: model equality only, code 1, never a clause), InCompress (compress_spikes_dtypes called
   on a bare directory: the model compress_first twice, and clause 28 when every id is below 65536). *)
From Coq Require Import ZArith List Bool String Ascii.
From PV Require Export Base.Tok Base.TokArith Base.FloatTok C04.Model C13.Model C13.Spec C13.Fast.
Import ListNotations.
Open Scope string_scope.
Open Scope list_scope.
Open Scope Z_scope.

Record inp := mkinp {
  i_src : files; i_others : others; i_rate : tok; i_ncd : option Z;
  i_has_raw : bool; i_same : bool; i_label : string }.
Record reloaded := mkrl {
  r_samples : arr; r_times : arr; r_sclusters : arr; r_stemplates : arr; r_cmap : arr; r_pos : arr }.
Record obsrec := mkobs {
  ob_npy : files;                  (* .npy files of the output directory after convert(), as np.load reads them *)
  ob_txt : texts;                  (* its other files: uuids as indices of distinct strings, copies as content ids *)
  ob_changed : list string;        (* pre-existing source files whose bytes changed *)
  ob_deleted : list string;        (* pre-existing source files that disappeared *)
  ob_new : files;                  (* new .npy files of the source directory *)
  ob_new_other : list string;      (* other new files of the source directory *)
  ob_rl : reloaded                 (* the TemplateModel of the output directory *)
}.
Inductive input :=
| InConvert (i : inp)
| InBeyond (i : inp)               (* outside the statement's regime: compared with the model only *)
| InCompress (fs : files).         (* compress_spikes_dtypes on a directory holding these .npy files *)
Inductive observed :=
| ObsConverted (o : obsrec)
| ObsRefused (untouched : bool)                            (* IOError "cannot be the same"; source + its parent untouched? *)
| ObsNotRefused (changed deleted new_names : list string)  (* the source directory was the target and convert() did NOT
                                                              refuse (it completed, or crashed later): what happened to
                                                              the pre-existing source files / which entries appeared *)
| ObsCrashed (changed deleted new_names : list string)     (* a fresh target, convert() raised: what happened to the source *)
| ObsCompressed (fs : files)       (* the directory after compress_spikes_dtypes *)
| ObsStop (fs : files)             (* StopIteration: a glob matched nothing; the directory as it was left *)
| ObsCrash.
Record case := { cid : Z; cin : input; cobs : observed }.

Definition flag (code : Z) (ok : bool) : list Z := if ok then [] else [code].
Definition text_eqb (a b : text) : bool :=
  match a, b with
  | TUuids x, TUuids y => zl_eqb x y
  | TCopy x, TCopy y => x =? y
  | _, _ => false
  end.
(* same directory content: same number of files, distinct names, every file of a is in b with equal value *)
Definition dir_eqb {V} (eqb : V -> V -> bool) (a b : list (string * V)) : bool :=
  (List.length a =? List.length b)%nat && str_nodup (names a) && str_nodup (names b) &&
  forallb (fun kv => match lookup (fst kv) b with Some x => eqb (snd kv) x | None => false end) a.

Definition oracle_of (L : string) (o : obsrec) : oracles :=
  mkoracles
    (fun n0 => match lookup (relabel L n0) (ob_npy o) with Some a => a_data a | None => [] end)
    (fun n => match lookup n (ob_new o) with Some a => a | None => mkarr DBool [] [] end)
    (fun _ => match lookup (relabel L "clusters.uuids.csv") (ob_txt o) with Some (TUuids l) => l | _ => [] end).
Definition dummy_oracle : oracles := mkoracles (fun _ => []) (fun _ => mkarr DBool [] []) (fun _ => []).

Definition all_nonneg (l : list Z) : bool := forallb (fun z => 0 <=? z) l.
Definition int_toks (a : arr) : bool := forallb (fun t => match tok_Z t with Some _ => true | None => false end) (a_data a).
Definition single_probe (m : loaded) : bool :=
  match zunique (ids_of (l_probes m)) with [_] => true | _ => false end.

(* the stated regime: a loaded, dense, KS-named source directory with amplitudes, consistent shapes, no axis
   of length 1 (phylib squeezes every array), ids below 65536, raw indices that do not wrap.  A function of the
   abstract INPUT alone (src = the source files as TemplateModel leaves them, m = the loader model applied to them). *)
Definition in_regime (i : inp) (src : files) (m : loaded) : bool :=
  forallb (fun p => Nat.leb (n_matches p src) 1) all_patterns &&
  forallb (fun kv => arr_wf (snd kv)) src && str_nodup (names src) && str_nodup (names (i_others i)) &&
  match l_created m with [] => true | _ => false end &&
  has "spike_times.npy" src && has "spike_clusters.npy" src && has "spike_templates.npy" src &&
  has "channel_positions.npy" src && negb (is_none (l_amps m)) && is_none (l_tcols m) &&
  negb (has "clusters.channels.npy" src) && negb (has "clusters.peakToTrough.npy" src) &&
  src_wf m src && ids_ok (l_sclusters m) && ids_ok (l_stemplates m) &&
  int_toks (l_cmap m) && int_toks (l_probes m) &&
  all_nonneg (raw_ind (ids_of (l_probes m)) (ids_of (l_cmap m))) &&
  (negb (i_has_raw i) || negb (existsb (fun n => has n src) SUBSET)) &&
  (2 <=? n_spikes m) && (2 <=? n_templates m) && (2 <=? n_channels m) && (2 <=? n_wsamples m) &&
  forallb (fun kv => negb (ends_with ".npy" (fst kv))) (i_others i) &&
  forallb (fun kv => ends_with ".npy" (fst kv)) src.

(* The source directory as TemplateModel leaves it.  The harness normally records the directory AFTER the source was
   loaded (then the load creates nothing more); when the implementation crashed before that snapshot could be taken
   the static file list is completed with what the loader model says the load creates (PV.C04: C04_frame). *)
Definition loadc (i : inp) (inv : arr -> arr) (src : files) : res loaded :=
  load fdiv_tok fmul_tok round_half_even_tok inv src (i_rate i) (i_ncd i).
Definition norm_src (i : inp) : option (files * loaded) :=
  match loadc i (fun a => a) (i_src i) with
  | Err _ => None
  | Ok m0 =>
      match l_created m0 with
      | [] => Some (i_src i, m0)
      | cr => let src := i_src i ++ cr in
              if negb (forallb (fun p => Nat.leb (n_matches p src) 1) all_patterns) then None else
              match loadc i (fun a => a) src with Ok m => Some (src, m) | Err _ => None end
      end
  end.

Definition spec_rows (m : loaded) (L : string) (o : obsrec) : bool :=
  rows_b (n_spikes m) (n_clu m) (n_templates m) (n_channels m) (ob_npy o) &&
  match lookup (relabel L "clusters.uuids.csv") (ob_txt o) with
  | Some (TUuids l) => Z.of_nat (List.length l) =? n_clu m
  | _ => false end.

(* units, judged against the source file, not against the model of convert *)
Definition spec_units (i : inp) (src : files) (L : string) (o : obsrec) : bool :=
  match lookup "spike_times.npy" src, lookup (relabel L "spikes.samples.npy") (ob_npy o),
        lookup (relabel L "spikes.times.npy") (ob_npy o) with
  | Some f, Some s, Some t =>
      arr_eqb s (read_full f) && dt_eqb (a_dt t) DF64 && zl_eqb (a_shape t) (a_shape s) &&
      (List.length (a_data s) =? List.length (a_data t))%nat &&
      forallb (fun st => match fdiv_tok (fst st) (i_rate i) with Some q => tok_eqb q (snd st) | None => false end)
              (combine (a_data s) (a_data t))
  | _, _, _ => false
  end.

Definition spec_uuids (m : loaded) (L : string) (o : obsrec) : bool :=
  match lookup (relabel L "clusters.uuids.csv") (ob_txt o) with
  | Some (TUuids l) => uuids_fast (n_clu m) l           (* = uuids_b (Fast.uuids_fast_eq), linear on 0 .. n-1 *)
  | _ => false end.

Definition spec_roundtrip (m : loaded) (o : obsrec) : bool :=
  let r := ob_rl o in
  arr_eqb (r_times r) (l_times m) && arr_eqb (r_samples r) (l_samples m) &&
  arr_eqb (r_sclusters r) (l_sclusters m) && arr_veqb (r_stemplates r) (l_stemplates m) &&
  arr_eqb (r_pos r) (l_pos m) &&
  (if single_probe m then arr_veqb (r_cmap r) (l_cmap m)
   else arr_veqb (r_cmap r) (mkarr DI64 (a_shape (l_probes m)) (map tz (raw_ind (ids_of (l_probes m)) (ids_of (l_cmap m)))))).

Definition spec_frame (i : inp) (o : obsrec) : bool :=
  frame_b (has "temp_wh.dat" (i_others i)) (i_has_raw i) (ob_changed o) (ob_deleted o)
          (names (ob_new o) ++ ob_new_other o).

Definition spec_dtypes (src : files) (L : string) (o : obsrec) : bool :=
  match lookup "spike_clusters.npy" src, lookup (relabel L "spikes.clusters.npy") (ob_npy o),
        lookup "spike_templates.npy" src, lookup (relabel L "spikes.templates.npy") (ob_npy o) with
  | Some c0, Some c, Some t0, Some t =>
      dt_eqb (a_dt c) DU16 && dt_eqb (a_dt t) DU16 && tl_eqb (a_data c) (a_data c0) && tl_eqb (a_data t) (a_data t0)
  | _, _, _, _ => false
  end.

(* label: has_label on every observed object file AND every observed object-file name is the labelled image of an
   un-labelled name of the table (both evaluated on the observed names only) *)
Definition spec_label (L : string) (o : obsrec) : bool :=
  let nms := names (ob_npy o) ++ names (ob_txt o) in label_b L nms && label_names_b L nms.

Definition nil_b {A} (l : list A) : bool := match l with [] => true | _ => false end.

(* the frame of the source when a conversion to a FRESH target raised part-way: nothing changed, nothing deleted but
   temp_wh.dat, nothing added but the subset files (and these only with raw data) *)
Definition frame_partial_b (has_raw : bool) (changed deleted new_names : list string) : bool :=
  nil_b changed && subset_of deleted FILE_DELETES && subset_of new_names (if has_raw then SUBSET else []).

(* everything compared with the model: output directory, source directory afterwards, the read-back *)
Definition model_eq (i : inp) (src : files) (ci : conv_in) (o : obsrec) : option (conv_out * option bool) :=
  match convert (oracle_of (ci_label ci) o) ci with
  | CErr _ => None
  | COk r =>
      (* the directory convert() leaves: what it wrote, plus what the read-back load creates when params.py
         was copied (whitening_mat_inv.npy, C04_frame) *)
      let reload := loadc i (fun _ => match lookup "whitening_mat_inv.npy" (ob_npy o) with Some a => a | None => mkarr DF64 [] [] end)
                          (co_npy r) in
      match reload with
      | Err _ => Some (r, None)               (* the loader model refuses the written directory *)
      | Ok m2 =>
          let exp_npy := co_npy r ++ (if has "params.py" (co_txt r) then l_created m2 else []) in
          let g_out := dir_eqb arr_eqb exp_npy (ob_npy o) && dir_eqb text_eqb (co_txt r) (ob_txt o) &&
                       forallb (fun kv => arr_wf (snd kv)) (ob_npy o) in
          let g_src := dir_eqb arr_eqb (co_src r) (src ++ ob_new o) &&
                       dir_eqb Z.eqb (co_others r)
                               (filter (fun kv => negb (str_in (fst kv) (ob_deleted o))) (i_others i)) &&
                       nil_b (ob_new_other o) in
          let g_rl := arr_eqb (r_samples (ob_rl o)) (l_samples m2) && arr_eqb (r_times (ob_rl o)) (l_times m2) &&
                      arr_eqb (r_sclusters (ob_rl o)) (l_sclusters m2) && arr_eqb (r_stemplates (ob_rl o)) (l_stemplates m2) &&
                      arr_eqb (r_cmap (ob_rl o)) (l_cmap m2) && arr_eqb (r_pos (ob_rl o)) (l_pos m2) in
          Some (r, Some (g_out && g_src && g_rl))
      end
  end.

(* clause 28 on a bare directory: every file the two globs select is uint16 afterwards with unchanged ids < 65536 *)
Definition compress_spec (fs out : files) : bool :=
  forallb (fun kv =>
             if glob1 "spikes.templates." "npy" (fst kv) || glob1 "spikes.clusters." "npy" (fst kv)
             then negb (ids_ok (snd kv)) ||
                  match lookup (fst kv) out with
                  | Some a => dt_eqb (a_dt a) DU16 && zl_eqb (a_shape a) (a_shape (snd kv)) && tl_eqb (a_data a) (a_data (snd kv))
                  | None => false end
             else true) fs.

(* Code 3 is decided from the abstract input alone (file list, rate, label, "same directory", raw data), BEFORE the
   observation is looked at: whatever the implementation does with an in-regime input is judged. *)
Definition check (c : case) : list Z :=
  match cin c with
  | InCompress fs =>
      if negb (str_nodup (names fs) && forallb (fun kv => arr_wf (snd kv) && int_toks (snd kv)) fs &&
               Nat.leb (List.length (filter (fun kv => glob1 "spikes.templates." "npy" (fst kv)) fs)) 1 &&
               Nat.leb (List.length (filter (fun kv => glob1 "spikes.clusters." "npy" (fst kv)) fs)) 1) then [3] else
      match compress_model fs, cobs c with
      | (None, lft), ObsStop out => flag 1 (dir_eqb arr_eqb lft out)
      | (Some exp, _), ObsCompressed out => flag 1 (dir_eqb arr_eqb exp out) ++ flag 28 (compress_spec fs out)
      | _, _ => [1; 20]
      end
  | InBeyond i =>
      if negb (forallb (fun p => Nat.leb (n_matches p (i_src i)) 1) all_patterns) then [3] else
      match norm_src i with
      | None => [3]
      | Some (src, m) =>
          if i_same i then [3] else
          let ci := mkci m src (i_others i) (i_has_raw i) false (i_label i) in
          match convert dummy_oracle ci, cobs c with
          | CErr _, ObsCrashed _ _ _ => []         (* the model's error exit: the implementation raised *)
          | CErr _, ObsCrash => []
          | COk _, ObsConverted o => match model_eq i src ci o with Some (_, Some true) => [] | _ => [1] end
          | _, _ => [1]
          end
      end
  | InConvert i =>
  if negb (forallb (fun p => Nat.leb (n_matches p (i_src i)) 1) all_patterns) then [3] else
  match norm_src i with
  | None => [3]
  | Some (src, m) =>
    if negb (in_regime i src m) then [3] else
    let L := i_label i in
    let ci := mkci m src (i_others i) (i_has_raw i) (i_same i) L in
    match convert dummy_oracle ci with
    | CErr CRefused =>
        (* the target IS the source directory (under whatever spelling): refused, nothing touched *)
        match cobs c with
        | ObsRefused true => []
        | ObsRefused false => [1; 26; 27]
        | ObsNotRefused ch de nw => [1; 26] ++ flag 27 (nil_b ch && nil_b de && nil_b nw)
        | _ => [1; 26]
        end
    | CErr _ => [3]                       (* the error exits of the model do not depend on the oracles *)
    | COk _ =>
    match cobs c with
    | ObsRefused _ => [1; 20]
    | ObsNotRefused _ _ _ => [1; 20]
    | ObsCrash => [1; 20]
    | ObsCrashed ch de nw => [1; 20] ++ flag 27 (frame_partial_b (i_has_raw i) ch de nw)
    | ObsCompressed _ | ObsStop _ => [1; 20]
    | ObsConverted o =>
      match model_eq i src ci o with
      | None => [1]
      | Some (_, None) => [1; 25]
      | Some (r, Some g) =>
          let s21 := spec_rows m L o in
          let s22 := spec_units i src L o in
          let s23 := spec_label L o in
          let s24 := spec_uuids m L o in
          let s25 := spec_roundtrip m o in
          let s27 := spec_frame i o in
          let s28 := spec_dtypes src L o in
          flag 1 g ++ flag 21 s21 ++ flag 22 s22 ++ flag 23 s23 ++ flag 24 s24 ++
          flag 25 s25 ++ flag 27 s27 ++ flag 28 s28
      end
    end
    end
  end end.

Definition run (cases : list case) : list (Z * Z) :=
  flat_map (fun c => map (fun code => (cid c, code)) (check c)) cases.
