(* C13/Proofs1.v -- structure of the output of convert: every output file is the re-labelled (and, for the two
   id vectors, uint16-compressed) image of a file that convert made or copied; guard, frame, uuids, rows. *)
From Coq Require Import ZArith List Bool String Ascii Lia.
From PV Require Import Base.Tok Base.TokArith C04.Model C04.Proofs C13.Model C13.Spec.
Import ListNotations.
Open Scope string_scope.
Open Scope list_scope.
Open Scope Z_scope.

(* ---------- small facts ---------- *)
Lemma zl_eqb_eq a b : zl_eqb a b = true <-> a = b.
Proof.
  revert b; induction a as [|x a IH]; intros [|y b]; cbn [zl_eqb]; split; try discriminate; try reflexivity.
  - rewrite andb_true_iff, Z.eqb_eq, IH. intros [-> ->]. reflexivity.
  - intros H; injection H as -> ->. rewrite Z.eqb_refl. cbn. now apply IH.
Qed.

Lemma lookup_In {V} k (l : list (string * V)) v : lookup k l = Some v -> In (k, v) l.
Proof.
  induction l as [|[k' v'] r IH]; cbn [lookup]; [discriminate|].
  destruct (String.eqb_spec k k') as [->|Hne].
  - intros H; injection H as ->. now left.
  - intros H. right. now apply IH.
Qed.

Lemma In_lookup_nodup {V} k (l : list (string * V)) v :
  NoDup (map fst l) -> In (k, v) l -> lookup k l = Some v.
Proof.
  induction l as [|[k' v'] r IH]; cbn [map fst lookup]; [intros _ []|].
  intros Hnd [H|H].
  - injection H as -> ->. now rewrite String.eqb_refl.
  - inversion Hnd as [|? ? Hn Hd]; subst. destruct (String.eqb_spec k k') as [->|Hne].
    + exfalso. apply Hn. apply in_map_iff. now exists (k', v).
    + now apply IH.
Qed.

Lemma Forall2_In_r {A B} (R : A -> B -> Prop) l l' y :
  Forall2 R l l' -> In y l' -> exists x, In x l /\ R x y.
Proof.
  induction 1 as [|a b l l' Hab HF IH]; [intros []|].
  intros [<-|Hy]; [exists a; split; [now left|exact Hab]|].
  destruct (IH Hy) as (x & Hx & Hr). exists x. split; [now right|exact Hr].
Qed.
Lemma Forall2_In_l {A B} (R : A -> B -> Prop) l l' x :
  Forall2 R l l' -> In x l -> exists y, In y l' /\ R x y.
Proof.
  induction 1 as [|a b l l' Hab HF IH]; [intros []|].
  intros [<-|Hx]; [exists b; split; [now left|exact Hab]|].
  destruct (IH Hx) as (y & Hy & Hr). exists y. split; [now right|exact Hr].
Qed.

(* ---------- compress_spikes_dtypes ---------- *)
Definition crel (pre : string) (kv kv' : string * arr) : Prop :=
  fst kv' = fst kv /\ (snd kv' = snd kv \/ (glob1 pre "npy" (fst kv) = true /\ snd kv' = to_u16 (snd kv))).

Lemma Forall2_crel_refl pre l : Forall2 (crel pre) l l.
Proof. induction l; constructor; [split; [reflexivity|now left]|assumption]. Qed.

Lemma compress_first_rel pre fs fs' : compress_first pre fs = Some fs' -> Forall2 (crel pre) fs fs'.
Proof.
  revert fs'; induction fs as [|kv r IH]; intros fs'; cbn [compress_first]; [discriminate|].
  destruct (glob1 pre "npy" (fst kv)) eqn:E.
  - intros H; injection H as <-. constructor; [|apply Forall2_crel_refl].
    split; [reflexivity|]. right. split; [exact E|reflexivity].
  - destruct (compress_first pre r) as [r'|]; cbn [option_map]; [|discriminate].
    intros H; injection H as <-. constructor; [split; [reflexivity|now left]|now apply IH].
Qed.

(* exactly the first matching file is converted, every other file is untouched *)
Lemma compress_first_spec pre fs fs' : compress_first pre fs = Some fs' ->
  exists a kv b, fs = a ++ kv :: b /\ fs' = a ++ (fst kv, to_u16 (snd kv)) :: b /\
                 glob1 pre "npy" (fst kv) = true /\ forall x, In x a -> glob1 pre "npy" (fst x) = false.
Proof.
  revert fs'; induction fs as [|kv r IH]; intros fs'; cbn [compress_first]; [discriminate|].
  destruct (glob1 pre "npy" (fst kv)) eqn:E.
  - intros H; injection H as <-. exists [], kv, r. repeat split; auto. intros x [].
  - destruct (compress_first pre r) as [r'|] eqn:Er; cbn [option_map]; [|discriminate].
    intros H; injection H as <-. destruct (IH r' eq_refl) as (a & kv0 & b & -> & -> & Hm & Hn).
    exists (kv :: a), kv0, b. repeat split; auto. intros x [<-|Hx]; auto.
Qed.

Lemma to_u16_shape a : a_shape (to_u16 a) = a_shape a.
Proof. reflexivity. Qed.

(* ---------- structure of a successful conversion ---------- *)
Lemma convert_ok o ci r : convert o ci = COk r ->
  ci_same ci = false /\ l_tcols (ci_m ci) = None /\ l_amps (ci_m ci) <> None /\
  has "clusters.channels.npy" (ci_src ci) = false /\
  (exists npy2,
     compress_first "spikes.templates." (rename_with_label (ci_label ci) (out0_npy o ci)) = Some npy2 /\
     compress_first "spikes.clusters." npy2 = Some (co_npy r)) /\
  co_txt r = rename_with_label (ci_label ci) (out0_txt o ci) /\
  co_src r = add_subset o (ci_has_raw ci) (ci_src ci) /\
  co_others r = rm_files (ci_others ci).
Proof.
  unfold convert. destruct (ci_same ci); [discriminate|].
  destruct (l_tcols (ci_m ci)) as [tc|]; cbn [is_none negb]; [discriminate|].
  destruct (l_amps (ci_m ci)) as [am|]; cbn [is_none]; [|discriminate].
  destruct (has "clusters.channels.npy" (ci_src ci)); [discriminate|].
  destruct (compress_first "spikes.templates." _) as [npy2|] eqn:E2; [|discriminate].
  destruct (compress_first "spikes.clusters." npy2) as [npy3|] eqn:E3; [|discriminate].
  intros H; injection H as <-. cbn [co_npy co_txt co_src co_others].
  repeat split; try discriminate. exists npy2. split; [reflexivity|exact E3].
Qed.

(* ---------- strings ---------- *)
Lemma starts_with_cons a p b s : starts_with (String a p) (String b s) = true -> a = b /\ starts_with p s = true.
Proof. cbn [starts_with]. rewrite andb_true_iff, Ascii.eqb_eq. tauto. Qed.

Ltac peel H1 H2 n :=
  repeat (destruct n as [|? n]; [discriminate|];
          apply starts_with_cons in H1 as [<- H1]; apply starts_with_cons in H2 as [?E H2]; try discriminate).

Lemma globs_excl n : glob1 "spikes.templates." "npy" n = true -> glob1 "spikes.clusters." "npy" n = true -> False.
Proof.
  unfold glob1. rewrite !andb_true_iff. intros [[H1 _] _] [[H2 _] _]. peel H1 H2 n.
Qed.

(* every output array is the image of a made / copied file: re-labelled name, same array or its uint16 cast *)
Definition image (n : string) (a0 a : arr) : Prop :=
  a = a0 \/ ((glob1 "spikes.templates." "npy" n = true \/ glob1 "spikes.clusters." "npy" n = true) /\ a = to_u16 a0).

Lemma out_entries o ci r : convert o ci = COk r ->
  (forall n a, In (n, a) (co_npy r) ->
     exists n0 a0, In (n0, a0) (out0_npy o ci) /\ n = relabel (ci_label ci) n0 /\ image n a0 a) /\
  (forall n0 a0, In (n0, a0) (out0_npy o ci) ->
     exists a, In (relabel (ci_label ci) n0, a) (co_npy r) /\ image (relabel (ci_label ci) n0) a0 a).
Proof.
  intros H. destruct (convert_ok _ _ _ H) as (_ & _ & _ & _ & (npy2 & E2 & E3) & _).
  apply compress_first_rel in E2, E3. split.
  - intros n a Hin. destruct (Forall2_In_r _ _ _ _ E3 Hin) as ([n2 a2] & Hin2 & Hn2 & Ha2).
    destruct (Forall2_In_r _ _ _ _ E2 Hin2) as ([n1 a1] & Hin1 & Hn1 & Ha1).
    cbn [fst snd] in *. subst n2 n. unfold rename_with_label in Hin1. apply in_map_iff in Hin1 as ([n0 a0] & Heq & Hin0).
    cbn [fst snd] in Heq. injection Heq as <- <-. exists n0, a0. split; [exact Hin0|]. split; [reflexivity|].
    unfold image. destruct Ha2 as [->|[G2 ->]]; destruct Ha1 as [->|[G1 ->]]; auto.
    exfalso. exact (globs_excl _ G1 G2).
  - intros n0 a0 Hin0.
    assert (Hin1 : In (relabel (ci_label ci) n0, a0) (rename_with_label (ci_label ci) (out0_npy o ci))).
    { unfold rename_with_label. apply in_map_iff. exists (n0, a0). split; [reflexivity|exact Hin0]. }
    destruct (Forall2_In_l _ _ _ _ E2 Hin1) as ([n2 a2] & Hin2 & Hn2 & Ha2).
    destruct (Forall2_In_l _ _ _ _ E3 Hin2) as ([n3 a3] & Hin3 & Hn3 & Ha3).
    cbn [fst snd] in *. subst n3 n2. exists a3. split; [exact Hin3|].
    unfold image. destruct Ha3 as [->|[G3 ->]]; destruct Ha2 as [->|[G2 ->]]; auto.
    exfalso. exact (globs_excl _ G2 G3).
Qed.

(* ---------- the names convert() can produce ---------- *)
Definition MADE_NAMES := [
  "clusters.channels.npy"; "clusters.peakToTrough.npy"; "clusters.amps.npy"; "channels.rawInd.npy";
  "spikes.times.npy"; "spikes.samples.npy"; "spikes.amps.npy"; "templates.amps.npy"; "templates.waveforms.npy";
  "templates.waveformsChannels.npy"; "clusters.waveforms.npy"; "clusters.waveformsChannels.npy";
  "spikes.depths.npy"; "clusters.depths.npy"].
Definition all_out_names : list string := MADE_NAMES ++ map (fun e => snd (fst e)) FILE_RENAMES.

Lemma existsb_str_In n l : existsb (String.eqb n) l = true -> In n l.
Proof. intros H. apply existsb_exists in H as (x & Hx & E). apply String.eqb_eq in E. now subst. Qed.

Ltac made_name H :=
  repeat (destruct H as [H|H]; [injection H as <- _; apply existsb_str_In; vm_compute; reflexivity|]); try contradiction.

Lemma names_made o m src n0 a0 : In (n0, a0) (made o m src) -> In n0 all_out_names.
Proof.
  unfold made, made_cluster, made_channel, made_spikes, made_depths, mk. intros H.
  destruct (has "clusters.channels.npy" src), (has "clusters.peakToTrough.npy" src);
    cbn [app In] in H; made_name H.
Qed.

Lemma copied_npy_In src n a : In (n, a) (copied_npy src) <->
  exists f0 sq a0, In (f0, n, sq) FILE_RENAMES /\ lookup f0 src = Some a0 /\ a = copy_npy sq a0.
Proof.
  unfold copied_npy. rewrite in_flat_map. split.
  - intros ([[f0 f1] sq] & He & Hin). cbn [fst snd] in Hin.
    destruct (lookup f0 src) as [a0|] eqn:El; [|contradiction].
    destruct Hin as [Hin|[]]. injection Hin as <- <-. exists f0, sq, a0. auto.
  - intros (f0 & sq & a0 & He & El & ->). exists (f0, n, sq). split; [exact He|].
    cbn [fst snd]. rewrite El. now left.
Qed.

Lemma names_out0 o ci n0 a0 : In (n0, a0) (out0_npy o ci) -> In n0 all_out_names.
Proof.
  unfold out0_npy. rewrite in_app_iff. intros [H|H]; [eapply names_made; exact H|].
  apply copied_npy_In in H as (f0 & sq & a1 & He & _ & _).
  unfold all_out_names. apply in_or_app. right. apply in_map_iff. exists (f0, n0, sq). split; [reflexivity|exact He].
Qed.

(* re-labelling never changes which of the four object prefixes a produced name has *)
Lemma relabel_empty n : relabel "" n = n.
Proof. reflexivity. Qed.

Lemma prefix_table c L' :
  forallb (fun n0 => forallb (fun p => Bool.eqb (starts_with p (relabel (String c L') n0)) (starts_with p n0)) LABEL_PREFIXES)
          all_out_names = true.
Proof. vm_compute. reflexivity. Qed.

Lemma prefix_relabel L n0 p : In n0 all_out_names -> In p LABEL_PREFIXES ->
  starts_with p (relabel L n0) = starts_with p n0.
Proof.
  intros Hn Hp. destruct L as [|c L']; [reflexivity|].
  pose proof (prefix_table c L') as T. rewrite forallb_forall in T. specialize (T _ Hn).
  rewrite forallb_forall in T. specialize (T _ Hp). now apply Bool.eqb_prop in T.
Qed.

(* ---------- shapes of a loaded model ---------- *)
Section Loaded.
Variable fdiv : tok -> tok -> option tok.
Variable fmul : tok -> tok -> option tok.
Variable fround : tok -> option Z.
Variable inv_oracle : arr -> arr.

Lemma ndim1_shape a : ndim a = 1%nat -> a_shape a = [hd 0 (a_shape a)].
Proof. unfold ndim. destruct (a_shape a) as [|x [|y r]]; cbn; intros H; try discriminate. reflexivity. Qed.

Lemma loaded_shapes fs rate ncd m kv :
  load fdiv fmul fround inv_oracle fs rate ncd = Ok m -> find_path P_times_ks fs = Some kv ->
  a_shape (l_times m) = [n_spikes m] /\ a_shape (l_samples m) = [n_spikes m] /\
  a_shape (l_sclusters m) = [n_spikes m] /\ a_shape (l_stemplates m) = [n_spikes m] /\
  a_shape (l_probes m) = [n_channels m] /\ a_shape (l_pos m) = [n_channels m; 2] /\
  (exists ncl, a_shape (l_tdata m) = [n_templates m; n_wsamples m; ncl]).
Proof.
  intros H Hk. pose proof (load_times_ks _ _ _ _ _ _ _ _ _ H Hk) as (_ & _ & Hsh & _).
  destruct (load_inv _ _ _ _ _ _ _ _ H) as (st & ns & sc & wmi & _ & Hct & Es & Et & _ & Hst & Hsc & Esc & _ & Hpos & _ & Hpr & Htm & _).
  apply check_times_ok in Hct as (_ & Hns & _ & Hnd). rewrite <- Et in Hnd, Hns.
  assert (Ht : a_shape (l_times m) = [n_spikes m]) by (unfold n_spikes; now apply ndim1_shape).
  assert (Hns' : ns = n_spikes m) by exact Hns.
  split; [exact Ht|]. split; [now rewrite <- Hsh|].
  split.
  { unfold load_sclusters in Hsc. apply rbind_ok in Hsc as (s0 & _ & Hsc).
    destruct (zl_eqb (a_shape (astype DI32 (read_full (fst s0)))) [ns]) eqn:E; [|discriminate].
    injection Hsc as <-. rewrite Esc. cbn [fst]. apply zl_eqb_eq in E. now rewrite E, Hns'. }
  split.
  { unfold load_stemplates in Hst. destruct (find_path P_stemplates fs) as [[k a]|]; [|discriminate].
    cbv zeta in Hst.
    match type of Hst with (if ?c then _ else _) = _ => destruct c eqn:E; [|discriminate] end.
    injection Hst as Hst. rewrite <- Hst. apply andb_true_iff in E as [_ E]. apply zl_eqb_eq in E. rewrite Hns' in E. exact E. }
  split.
  { unfold load_probes in Hpr. fold (n_channels m) in Hpr. destruct (find_path P_probes fs) as [[k a]|].
    - destruct (zl_eqb (a_shape (atleast_1d (read_full a))) [n_channels m]) eqn:E; [|discriminate].
      injection Hpr as <-. now apply zl_eqb_eq in E.
    - injection Hpr as <-. reflexivity. }
  split.
  { unfold load_pos in Hpos. fold (n_channels m) in Hpos. destruct (find_path P_pos fs) as [[k a]|]; [|discriminate].
    destruct (zl_eqb (a_shape (atleast_2d (read_full a))) [n_channels m; 2]) eqn:E; [|discriminate].
    injection Hpos as <-. now apply zl_eqb_eq in E. }
  { unfold load_templates in Htm. destruct (find_path P_templates fs) as [[k a]|]; [|discriminate].
    destruct (negb (dt_is_float (a_dt (atleast_3d (read_mmap a))))); [discriminate|].
    unfold zero_nan_templates in Htm. destruct (a_shape (atleast_3d (read_mmap a))) as [|nt [|nsw [|ncl [|? ?]]]]; try discriminate.
    injection Htm as Htm. unfold n_templates, n_wsamples. rewrite <- Htm. exists ncl. reflexivity. }
Qed.
End Loaded.

(* ---------- rows ---------- *)
Lemma sw_comparable p q n : starts_with p n = true -> starts_with q n = true ->
  starts_with p q = true \/ starts_with q p = true.
Proof.
  revert q n; induction p as [|a p IH]; intros q n; [left; reflexivity|].
  destruct q as [|b q]; [right; reflexivity|]. destruct n as [|c n]; [discriminate|].
  intros H1 H2. apply starts_with_cons in H1 as [-> H1]. apply starts_with_cons in H2 as [-> H2].
  cbn [starts_with]. rewrite Ascii.eqb_refl. cbn [andb]. eapply IH; eauto.
Qed.

Lemma sw_excl p q n : starts_with p n = true -> starts_with p q = false -> starts_with q p = false ->
  starts_with q n = false.
Proof.
  intros H1 H2 H3. destruct (starts_with q n) eqn:E; [|reflexivity].
  destruct (sw_comparable _ _ _ H1 E); congruence.
Qed.

Section Rows.
Variables ns nclu nt nc : Z.

Lemma row_eq n a n' a' :
  (forall p, In p LABEL_PREFIXES -> starts_with p n = starts_with p n') -> a_shape a = a_shape a' ->
  row_ok ns nclu nt nc (n, a) = row_ok ns nclu nt nc (n', a').
Proof.
  intros H Hs. unfold row_ok, first_dim. cbn [fst snd]. rewrite Hs.
  rewrite (H "spikes."), (H "clusters."), (H "templates."), (H "channels."); [reflexivity|..]; cbn; tauto.
Qed.

Lemma row_none n a : (forall p, In p LABEL_PREFIXES -> starts_with p n = false) -> row_ok ns nclu nt nc (n, a) = true.
Proof.
  intros H. unfold row_ok. cbn [fst snd].
  rewrite (H "spikes."), (H "clusters."), (H "templates."), (H "channels."); [reflexivity|..]; cbn; tauto.
Qed.

Lemma row_spikes n a : starts_with "spikes." n = true -> first_dim a = Some ns -> row_ok ns nclu nt nc (n, a) = true.
Proof.
  intros H Hd. unfold row_ok. cbn [fst snd]. rewrite H, Hd. cbn [negb orb oz_eqb]. rewrite Z.eqb_refl.
  rewrite (sw_excl _ "clusters." _ H), (sw_excl _ "templates." _ H), (sw_excl _ "channels." _ H); reflexivity.
Qed.
Lemma row_clusters n a : starts_with "clusters." n = true -> first_dim a = Some nclu -> row_ok ns nclu nt nc (n, a) = true.
Proof.
  intros H Hd. unfold row_ok. cbn [fst snd]. rewrite H, Hd. cbn [negb orb oz_eqb]. rewrite Z.eqb_refl.
  rewrite (sw_excl _ "spikes." _ H), (sw_excl _ "templates." _ H), (sw_excl _ "channels." _ H); reflexivity.
Qed.
Lemma row_templates n a : starts_with "templates." n = true -> first_dim a = Some nt -> row_ok ns nclu nt nc (n, a) = true.
Proof.
  intros H Hd. unfold row_ok. cbn [fst snd]. rewrite H, Hd. cbn [negb orb oz_eqb]. rewrite Z.eqb_refl.
  rewrite (sw_excl _ "spikes." _ H), (sw_excl _ "clusters." _ H), (sw_excl _ "channels." _ H); reflexivity.
Qed.
Lemma row_channels n a : starts_with "channels." n = true -> first_dim a = Some nc -> row_ok ns nclu nt nc (n, a) = true.
Proof.
  intros H Hd. unfold row_ok. cbn [fst snd]. rewrite H, Hd. cbn [negb orb oz_eqb]. rewrite Z.eqb_refl.
  rewrite (sw_excl _ "spikes." _ H), (sw_excl _ "clusters." _ H), (sw_excl _ "templates." _ H); reflexivity.
Qed.
End Rows.

Lemma lookup_fwrite {V} k k' (v : V) l :
  lookup k (fwrite k' v l) = if String.eqb k k' then Some v else lookup k l.
Proof.
  induction l as [|[k0 v0] r IH]; cbn [fwrite lookup].
  - destruct (String.eqb k k'); reflexivity.
  - destruct (String.eqb_spec k' k0) as [->|Hne]; cbn [lookup].
    + destruct (String.eqb k k0); reflexivity.
    + rewrite IH. destruct (String.eqb_spec k k0) as [->|Hne2]; [|reflexivity].
      destruct (String.eqb_spec k0 k') as [->|]; [congruence|reflexivity].
Qed.

(* names other than the three subset files are read from the unchanged source *)
Lemma lookup_add_subset o hr src k : str_in k SUBSET = false ->
  lookup k (add_subset o hr src) = lookup k src.
Proof.
  unfold add_subset, SUBSET, str_in. cbn [existsb]. rewrite !orb_false_iff. intros (E1 & E2 & E3 & _).
  destruct hr; [|reflexivity]. cbn [fold_left]. rewrite !lookup_fwrite, E1, E2, E3. reflexivity.
Qed.

Lemma vec_ok_copy n a : vec_ok n a = true -> first_dim (copy_npy true a) = Some n.
Proof.
  unfold vec_ok. rewrite orb_true_iff, andb_true_iff, negb_true_iff, !zl_eqb_eq, Z.eqb_neq.
  intros [H|[H Hn]]; unfold copy_npy; rewrite H; cbv iota beta.
  - unfold first_dim. now rewrite H.
  - unfold squeeze, first_dim. cbn [a_shape]. rewrite H. cbn [filter]. destruct (Z.eqb_spec n 1); [contradiction|].
    reflexivity.
Qed.

Lemma file_ok_lookup src name f a : file_ok src name f = true -> lookup name src = Some a -> f a = true.
Proof. unfold file_ok. intros H E. now rewrite E in H. Qed.

Lemma src_wf_inv m src : src_wf m src = true ->
  file_ok src "spike_clusters.npy" (vec_ok (n_spikes m)) = true /\
  file_ok src "spike_templates.npy" (vec_ok (n_spikes m)) = true /\
  file_ok src "channel_probe.npy" (vec_ok (n_channels m)) = true /\
  file_ok src "channel_labels.npy" (vec_ok (n_channels m)) = true /\
  file_ok src "cluster_probes.npy" (vec_ok (n_clu m)) = true /\
  file_ok src "cluster_shanks.npy" (vec_ok (n_clu m)) = true /\
  file_ok src "channel_positions.npy" (fun a => zl_eqb (a_shape a) [n_channels m; 2]) = true.
Proof. unfold src_wf. rewrite !andb_true_iff. tauto. Qed.

Ltac sw_true := vm_compute; reflexivity.
Ltac no_prefix := let pp := fresh "pp" in let Hpp := fresh "Hpp" in
  apply row_none; intros pp Hpp; cbn [LABEL_PREFIXES In] in Hpp;
  repeat (destruct Hpp as [<-|Hpp]; [vm_compute; reflexivity|]); contradiction.

Lemma rows_out0 o ci :
  a_shape (l_times (ci_m ci)) = [n_spikes (ci_m ci)] -> a_shape (l_samples (ci_m ci)) = [n_spikes (ci_m ci)] ->
  a_shape (l_probes (ci_m ci)) = [n_channels (ci_m ci)] ->
  src_wf (ci_m ci) (ci_src ci) = true ->
  forall n0 a0, In (n0, a0) (out0_npy o ci) ->
    row_ok (n_spikes (ci_m ci)) (n_clu (ci_m ci)) (n_templates (ci_m ci)) (n_channels (ci_m ci)) (n0, a0) = true.
Proof.
  set (m := ci_m ci). intros Ht Hs Hp Hwf n0 a0. unfold out0_npy. rewrite in_app_iff. intros [H|H].
  - unfold made, made_cluster, made_channel, made_spikes, made_depths, mk in H. fold m in H.
    destruct (has "clusters.channels.npy" (ci_src ci)), (has "clusters.peakToTrough.npy" (ci_src ci));
      cbn [app In] in H;
      repeat (destruct H as [H|H];
              [injection H as <- <-;
               first [ apply row_spikes; [sw_true|unfold first_dim; cbn [a_shape]; first [reflexivity|now rewrite Ht|now rewrite Hs]]
                     | apply row_clusters; [sw_true|reflexivity]
                     | apply row_templates; [sw_true|reflexivity]
                     | apply row_channels; [sw_true|unfold first_dim; cbn [a_shape]; now rewrite Hp] ]|]);
      contradiction.
  - apply copied_npy_In in H as (f0 & sq & a1 & He & El & ->).
    destruct (src_wf_inv _ _ Hwf) as (W1 & W2 & W3 & W4 & W5 & W6 & W7). fold m in W1, W2, W3, W4, W5, W6, W7.
    cbn [FILE_RENAMES In] in He.
    repeat (destruct He as [He|He];
            [injection He as <- <- <-;
             try (rewrite lookup_add_subset in El by reflexivity);
             first [ no_prefix
                   | apply row_spikes; [sw_true|apply vec_ok_copy; first [exact (file_ok_lookup _ _ _ _ W1 El)|exact (file_ok_lookup _ _ _ _ W2 El)]]
                   | apply row_clusters; [sw_true|apply vec_ok_copy; first [exact (file_ok_lookup _ _ _ _ W5 El)|exact (file_ok_lookup _ _ _ _ W6 El)]]
                   | apply row_channels; [sw_true|apply vec_ok_copy; first [exact (file_ok_lookup _ _ _ _ W3 El)|exact (file_ok_lookup _ _ _ _ W4 El)]]
                   | apply row_channels; [sw_true|
                       pose proof (file_ok_lookup _ _ _ _ W7 El) as E; apply zl_eqb_eq in E;
                       unfold copy_npy, first_dim; now rewrite E] ]|]).
    contradiction.
Qed.

Lemma image_shape n a0 a : image n a0 a -> a_shape a = a_shape a0.
Proof. intros [->|[_ ->]]; reflexivity. Qed.

(* ---------- C13_rows ---------- *)
Section Main.
Variable fdiv : tok -> tok -> option tok.
Variable fmul : tok -> tok -> option tok.
Variable fround : tok -> option Z.
Variable inv_oracle : arr -> arr.

Lemma rows_thm o ci r rate ncd kv :
  load fdiv fmul fround inv_oracle (ci_src ci) rate ncd = Ok (ci_m ci) ->
  find_path P_times_ks (ci_src ci) = Some kv ->
  src_wf (ci_m ci) (ci_src ci) = true ->
  convert o ci = COk r ->
  Rows_Spec (n_spikes (ci_m ci)) (n_clu (ci_m ci)) (n_templates (ci_m ci)) (n_channels (ci_m ci)) (co_npy r).
Proof.
  intros Hl Hk Hwf Hc. destruct (loaded_shapes _ _ _ _ _ _ _ _ _ Hl Hk) as (Ht & Hs & _ & _ & Hp & _).
  apply rows_b_spec. unfold rows_b. apply forallb_forall. intros [n a] Hin.
  destruct (out_entries _ _ _ Hc) as [Hback _]. destruct (Hback _ _ Hin) as (n0 & a0 & Hin0 & -> & Him).
  rewrite (row_eq _ _ _ _ _ a n0 a0).
  - now apply (rows_out0 o).
  - intros p Hp'. apply prefix_relabel; [eapply names_out0; exact Hin0|exact Hp'].
  - eapply image_shape; exact Him.
Qed.
End Main.

(* ---------- C13_guard ---------- *)
Lemma guard_thm o ci : ci_same ci = true -> convert o ci = CErr CRefused.
Proof. unfold convert. now intros ->. Qed.

(* ---------- C13_uuids ---------- *)
Lemma uuids_thm o ci r :
  (forall n, List.length (o_uuids o n) = n /\ NoDup (o_uuids o n)) ->
  convert o ci = COk r ->
  exists ids, In (relabel (ci_label ci) "clusters.uuids.csv", TUuids ids) (co_txt r) /\
              List.length ids = Z.to_nat (n_clu (ci_m ci)) /\ NoDup ids /\
              forall n ids', In (n, TUuids ids') (co_txt r) -> n = relabel (ci_label ci) "clusters.uuids.csv" /\ ids' = ids.
Proof.
  intros Ho Hc. destruct (convert_ok _ _ _ Hc) as (_ & _ & _ & _ & _ & Et & _).
  exists (o_uuids o (Z.to_nat (n_clu (ci_m ci)))). destruct (Ho (Z.to_nat (n_clu (ci_m ci)))) as [Hl Hn].
  rewrite Et. unfold rename_with_label, out0_txt. cbn [map fst snd]. split; [now left|]. split; [exact Hl|].
  split; [exact Hn|]. intros n ids' [H|H].
  - injection H as <- <-. split; reflexivity.
  - exfalso. apply in_map_iff in H as ([k t] & Heq & Hin). cbn [fst snd] in Heq. injection Heq as _ ->.
    unfold copied_txt in Hin. apply in_flat_map in Hin as (e & _ & Hin).
    destruct (lookup (fst (fst e)) (rm_files (ci_others ci))); [|contradiction].
    destruct Hin as [Hin|[]]. discriminate Hin.
Qed.

(* ---------- C13_frame ---------- *)
Lemma rm_files_spec oth k c : In (k, c) (rm_files oth) <-> In (k, c) oth /\ k <> "temp_wh.dat".
Proof.
  unfold rm_files. rewrite filter_In. cbn [fst FILE_DELETES str_in existsb]. rewrite orb_false_r, negb_true_iff.
  split; intros [H1 H2]; split; auto.
  - intros ->. now rewrite String.eqb_refl in H2.
  - now apply String.eqb_neq.
Qed.

Lemma frame_thm o ci r : convert o ci = COk r ->
  (forall k c, In (k, c) (co_others r) <-> In (k, c) (ci_others ci) /\ k <> "temp_wh.dat") /\
  (forall k, str_in k SUBSET = false -> lookup k (co_src r) = lookup k (ci_src ci)) /\
  (ci_has_raw ci = false -> co_src r = ci_src ci) /\
  (ci_has_raw ci = true -> forall k, In k SUBSET -> lookup k (co_src r) = Some (o_subset o k)).
Proof.
  intros Hc. destruct (convert_ok _ _ _ Hc) as (_ & _ & _ & _ & _ & _ & Es & Eo). rewrite Es, Eo.
  split; [intros k c; apply rm_files_spec|]. split; [intros k Hk; now apply lookup_add_subset|].
  split; [intros ->; reflexivity|]. intros -> k Hk. unfold add_subset, SUBSET in *. cbn [fold_left].
  rewrite !lookup_fwrite. cbn [In] in Hk.
  destruct Hk as [<-|[<-|[<-|[]]]]; vm_compute; reflexivity.
Qed.

(* ---------- the number of clusters ---------- *)
Lemma tl_eqb_eq a b : tl_eqb a b = true <-> a = b.
Proof.
  revert b; induction a as [|x a IH]; intros [|y b]; cbn [tl_eqb]; split; try discriminate; try reflexivity.
  - rewrite andb_true_iff, tok_eqb_eq, IH. intros [-> ->]. reflexivity.
  - intros H; injection H as -> ->. rewrite andb_true_iff. split; [now apply tok_eqb_eq|now apply IH].
Qed.

Lemma ids_ok_data a : ids_ok a = true -> a_data a = map tz (ids_of a).
Proof.
  unfold ids_ok, ids_of. rewrite map_map. induction (a_data a) as [|t l IH]; cbn [forallb map]; [reflexivity|].
  rewrite andb_true_iff. intros [Ht Hl]. f_equal; [|now apply IH].
  unfold id_ok in Ht. destruct (tok_Z t) as [z|]; [|discriminate].
  rewrite !andb_true_iff in Ht. destruct Ht as [_ Ht]. now apply tok_eqb_eq in Ht.
Qed.

Lemma ids_ok_range a : ids_ok a = true -> Forall (fun z => 0 <= z < 65536) (ids_of a).
Proof.
  unfold ids_ok, ids_of. induction (a_data a) as [|t l IH]; cbn [forallb map]; [constructor|].
  rewrite andb_true_iff. intros [Ht Hl]. constructor; [|now apply IH].
  unfold id_ok in Ht. destruct (tok_Z t) as [z|]; [|discriminate].
  rewrite !andb_true_iff in Ht. lia.
Qed.

Lemma zmax_ge l y : In y l -> y <= zmax l.
Proof. induction l as [|x l IH]; cbn [zmax fold_right In]; [tauto|]. fold (zmax l). intros [->|H]; [lia|]. specialize (IH H). lia. Qed.
Lemma zmax_in l : l <> [] -> Forall (fun z => 0 <= z) l -> In (zmax l) l.
Proof.
  induction l as [|x l IH]; [congruence|]. intros _ Hf. inversion Hf as [|? ? Hx Hl]; subst.
  cbn [zmax fold_right]. fold (zmax l). destruct l as [|y l'].
  - cbn [zmax fold_right]. left. lia.
  - destruct (Z.max_spec x (zmax (y :: l'))) as [[_ ->]|[_ ->]]; [right; apply IH; [discriminate|exact Hl]|now left].
Qed.

Lemma nclu_thm m :
  ids_ok (l_sclusters m) = true -> ids_ok (l_stemplates m) = true -> l_tcols m = None ->
  ids_of (l_sclusters m) <> [] ->
  NClu_Spec (ids_of (l_sclusters m)) (ids_of (l_stemplates m)) (n_templates m) (n_clu m).
Proof.
  intros H1 H2 Hd Hne. unfold NClu_Spec, n_clu, curated. rewrite Hd. cbn [is_none]. rewrite andb_true_r.
  destruct (tl_eqb (a_data (l_sclusters m)) (a_data (l_stemplates m))) eqn:E; cbn [negb].
  - apply tl_eqb_eq in E. split; [|reflexivity]. intros Hn. exfalso. apply Hn. unfold ids_of. now rewrite E.
  - split.
    + intros _. replace (zmax (ids_of (l_sclusters m)) + 1 - 1) with (zmax (ids_of (l_sclusters m))) by lia.
      split; [|intros y; apply zmax_ge]. apply zmax_in; [exact Hne|].
      eapply Forall_impl; [|apply ids_ok_range; exact H1]. cbv beta. intros; lia.
    + intros Heq. exfalso. rewrite (ids_ok_data _ H1), (ids_ok_data _ H2), Heq in E.
      assert (T : tl_eqb (map tz (ids_of (l_stemplates m))) (map tz (ids_of (l_stemplates m))) = true) by now apply tl_eqb_eq.
      congruence.
Qed.
