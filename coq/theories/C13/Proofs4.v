(* C13/Proofs4.v -- acceptance: PV.C04.Model.load ACCEPTS the directory convert() writes (no hypothesis on the
   read-back), so that C13_roundtrip needs no "the loader accepts it" premise. *)
From Coq Require Import ZArith List Bool String Ascii Lia.
From PV Require Import Base.Tok Base.TokArith C04.Model C04.Proofs C13.Model C13.Spec C13.Proofs1 C13.Proofs2 C13.Proofs3.
Import ListNotations.
Open Scope string_scope.
Open Scope list_scope.
Open Scope Z_scope.

(* ---------- more "which file can this pattern list select" tables (symbolic label) ---------- *)
Ltac only_tac := intros [|c L']; vm_compute; reflexivity.
Lemma only_amps : only P_amps "spikes.amps.npy". Proof. only_tac. Qed.
Lemma only_probes : only P_probes "channels.probes.npy". Proof. only_tac. Qed.
Lemma only_shanks : only P_shanks "". Proof. only_tac. Qed.
Lemma only_templates : only P_templates "templates.waveforms.npy". Proof. only_tac. Qed.
Lemma only_tcols : only P_tcols "templates.waveformsChannels.npy". Proof. only_tac. Qed.
Lemma only_wm : only P_wm "". Proof. only_tac. Qed.
Lemma only_wmi : only P_wmi "". Proof. only_tac. Qed.
Lemma only_similar : only P_similar "". Proof. only_tac. Qed.

(* positive: the labelled name IS matched by the loader's glob, for every label *)
Lemma pos_times L : glob1 "spikes.times" ".npy" (relabel L "spikes.times.npy") = true.
Proof.
  destruct L as [|c L']; [vm_compute; reflexivity|].
  change (relabel (String c L') "spikes.times.npy") with (append "spikes.times" (append (String "."%char (String c L')) ".npy")).
  apply glob1_app.
Qed.
Lemma pos_stemplates L : glob1 "spikes.templates" ".npy" (relabel L "spikes.templates.npy") = true.
Proof.
  destruct L as [|c L']; [vm_compute; reflexivity|].
  change (relabel (String c L') "spikes.templates.npy") with (append "spikes.templates" (append (String "."%char (String c L')) ".npy")).
  apply glob1_app.
Qed.
Lemma pos_rawind L : glob1 "channels.rawInd" ".npy" (relabel L "channels.rawInd.npy") = true.
Proof.
  destruct L as [|c L']; [vm_compute; reflexivity|].
  change (relabel (String c L') "channels.rawInd.npy") with (append "channels.rawInd" (append (String "."%char (String c L')) ".npy")).
  apply glob1_app.
Qed.
Lemma pos_coords L : glob1 "channels.localCoordinates" ".npy" (relabel L "channels.localCoordinates.npy") = true.
Proof.
  destruct L as [|c L']; [vm_compute; reflexivity|].
  change (relabel (String c L') "channels.localCoordinates.npy")
    with (append "channels.localCoordinates" (append (String "."%char (String c L')) ".npy")).
  apply glob1_app.
Qed.
(* templates.waveforms: the exact name without label, the glob "templates.waveforms.*.npy" with one *)
Lemma pos_templates L : existsb (fun p => pmatch p (relabel L "templates.waveforms.npy")) P_templates = true.
Proof.
  destruct L as [|c L']; [vm_compute; reflexivity|].
  unfold P_templates. cbn [existsb pmatch]. apply orb_true_iff. right. apply orb_true_iff. right. apply orb_true_iff. left.
  change (relabel (String c L') "templates.waveforms.npy") with (append "templates.waveforms." (append (String c L') ".npy")).
  apply glob1_app.
Qed.

(* ---------- finding a produced file in the output ---------- *)
Section Find.
Variables (o : oracles) (ci : conv_in) (r : conv_out).
Hypothesis Hc : convert o ci = COk r.

(* a match of a pattern list that can only select X is the (un-cast) file made/copied under the name X *)
Lemma found_plain ps X kv : only ps X -> find_path ps (co_npy r) = Some kv ->
  X <> "spikes.templates.npy" -> X <> "spikes.clusters.npy" ->
  exists a0, In (X, a0) (out0_npy o ci) /\ kv = (relabel (ci_label ci) X, a0).
Proof.
  intros Ho Hf H1 H2. destruct (find_in_out _ _ _ _ _ _ Ho Hc Hf) as (Hin & a0 & Hn & Hin0).
  exists a0. split; [exact Hin0|]. destruct kv as [n a]. cbn [fst] in Hn. subst n. f_equal.
  pose proof (out_plain _ _ _ _ _ Hc Hin0 H1 H2) as Hp.
  eapply In_unique; [apply (out_names_nodup _ _ _ Hc)|exact Hin|exact Hp].
Qed.

Lemma found_exact ps X p a0 : only ps X -> In p ps -> pmatch p (relabel (ci_label ci) X) = true ->
  X <> "spikes.templates.npy" -> X <> "spikes.clusters.npy" -> In (X, a0) (out0_npy o ci) ->
  find_path ps (co_npy r) = Some (relabel (ci_label ci) X, a0).
Proof.
  intros Ho Hp Hm H1 H2 Hin0. pose proof (out_plain _ _ _ _ _ Hc Hin0 H1 H2) as Hout.
  destruct (find_path ps (co_npy r)) as [kv|] eqn:E.
  - destruct (found_plain _ _ _ Ho E H1 H2) as (a1 & Hin1 & ->). f_equal. f_equal.
    eapply In_unique; [apply out0_names_nodup|exact Hin1|exact Hin0].
  - exfalso. eapply (find_some_if ps _ _ p); [exact Hout|exact Hp|exact Hm|exact E].
Qed.

(* the two uint16 id vectors *)
Lemma found_u16 ps X p a : only ps X -> In p ps -> pmatch p (relabel (ci_label ci) X) = true ->
  (forall a', In (relabel (ci_label ci) X, a') (co_npy r) <-> a' = a) ->
  find_path ps (co_npy r) = Some (relabel (ci_label ci) X, a).
Proof.
  intros Ho Hp Hm Hu. assert (Hout : In (relabel (ci_label ci) X, a) (co_npy r)) by now apply Hu.
  destruct (find_path ps (co_npy r)) as [kv|] eqn:E.
  - destruct (find_in_out _ _ _ _ _ _ Ho Hc E) as (Hin & a0 & Hn & _). destruct kv as [n a']. cbn [fst] in Hn. subst n.
    f_equal. f_equal. now apply Hu.
  - exfalso. eapply (find_some_if ps _ _ p); [exact Hout|exact Hp|exact Hm|exact E].
Qed.
End Find.

(* ---------- the made files by name ---------- *)
Lemma made_in2 o ci :
  In (mk o "spikes.amps.npy" DF32 [n_spikes (ci_m ci)]) (out0_npy o ci) /\
  In (mk o "templates.waveforms.npy" DF32 [n_templates (ci_m ci); n_wsamples (ci_m ci); ncw (ci_m ci)]) (out0_npy o ci) /\
  In (mk o "templates.waveformsChannels.npy" DI32 [n_templates (ci_m ci); ncw (ci_m ci)]) (out0_npy o ci).
Proof.
  unfold out0_npy, made, made_cluster, made_channel, made_spikes, made_depths.
  destruct (has "clusters.channels.npy" (ci_src ci)), (has "clusters.peakToTrough.npy" (ci_src ci));
    cbn [app In]; repeat split; repeat (first [left; reflexivity | right]).
Qed.

(* ---------- integer tokens ---------- *)
Lemma tok_Z_strip2 f m e : 0 <= e -> tok_Z (strip2 f m e) = Some (m * 2 ^ e).
Proof.
  revert m e. induction f as [|f IH]; intros m e He; cbn [strip2].
  - cbn [tok_Z]. destruct (0 <=? e) eqn:E; [reflexivity|]. apply Z.leb_gt in E. lia.
  - destruct (m =? 0) eqn:E0.
    + apply Z.eqb_eq in E0. subst m. reflexivity.
    + destruct (Z.even m) eqn:Ev.
      * rewrite IH by lia. f_equal. rewrite Z.pow_add_r, Z.pow_1_r by lia.
        apply Zeven_bool_iff in Ev. apply Zeven_div2 in Ev. rewrite Z.div2_div in Ev. lia.
      * cbn [tok_Z]. destruct (0 <=? e) eqn:E; [reflexivity|]. apply Z.leb_gt in E. lia.
Qed.
Lemma tok_Z_tz z : tok_Z (tz z) = Some z.
Proof. unfold tz, tnorm. rewrite tok_Z_strip2 by lia. f_equal. lia. Qed.
Lemma tz_finite z : is_finite (tz z) = true.
Proof. pose proof (tok_Z_tz z) as H. destruct (tz z); try discriminate H. reflexivity. Qed.

(* the offsets of the re-basing loop are sums of maxima, never negative *)
Lemma zmax_nonneg l : 0 <= zmax l.
Proof. unfold zmax. induction l as [|x l IH]; cbn [fold_right]; lia. Qed.
Lemma probe_offsets_nonneg ps probes cmap off p : 0 <= off -> 0 <= zassoc p (probe_offsets ps probes cmap off).
Proof.
  revert off. induction ps as [|q ps IH]; intros off Ho; cbn [probe_offsets zassoc]; [lia|].
  destruct (p =? q); [exact Ho|]. apply IH. unfold sel_max. apply zmax_nonneg.
Qed.
(* hence every re-based raw index is at most some channel-map entry *)
Lemma raw_ind_le probes cmap z : In z (raw_ind probes cmap) -> exists c, In c cmap /\ z <= c.
Proof.
  unfold raw_ind. intros H. apply in_map_iff in H as ([p c] & <- & Hin). cbn [fst snd].
  exists c. split; [eapply in_combine_r; exact Hin|].
  pose proof (probe_offsets_nonneg (zunique probes) probes cmap 0 p ltac:(lia)). lia.
Qed.

(* ---------- shapes under squeeze ---------- *)
Lemma squeeze_keep (l : list Z) : (forall d, In d l -> d <> 1) -> filter (fun d => negb (d =? 1)) l = l.
Proof. intros H. apply filter_all. intros x Hx. apply negb_true_iff, Z.eqb_neq. now apply H. Qed.
Lemma vec_ok_squeezed n a : vec_ok n a = true -> n <> 1 -> filter (fun d => negb (d =? 1)) (a_shape a) = [n].
Proof.
  unfold vec_ok. rewrite orb_true_iff, andb_true_iff, !zl_eqb_eq. intros [->|[-> _]] Hn; cbn [filter].
  - destruct (n =? 1) eqn:E; [apply Z.eqb_eq in E; contradiction|reflexivity].
  - destruct (n =? 1) eqn:E; [apply Z.eqb_eq in E; contradiction|reflexivity].
Qed.

Lemma load_attrs_none (fs : files) ns : (forall kv, In kv fs -> spike_attr_name (fst kv) = None) -> load_spike_attrs fs ns = Ok [].
Proof.
  unfold load_spike_attrs. induction fs as [|kv fs IH]; intros H; cbn [fold_right]; [reflexivity|].
  rewrite IH by (intros kv' Hin; apply H; now right). cbn [rbind]. now rewrite (H kv (or_introl eq_refl)).
Qed.
Lemma attr_table c L' : forallb (fun n0 => match spike_attr_name (relabel (String c L') n0) with None => true | Some _ => false end) all_out_names = true.
Proof. vm_compute. reflexivity. Qed.
Lemma attr_table0 : forallb (fun n0 => match spike_attr_name n0 with None => true | Some _ => false end) all_out_names = true.
Proof. vm_compute. reflexivity. Qed.
Lemma attr_none L n0 : In n0 all_out_names -> spike_attr_name (relabel L n0) = None.
Proof.
  intros H. destruct L as [|c L'].
  - pose proof attr_table0 as T. rewrite forallb_forall in T. specialize (T _ H). rewrite relabel_empty.
    destruct (spike_attr_name n0); [discriminate|reflexivity].
  - pose proof (attr_table c L') as T. rewrite forallb_forall in T. specialize (T _ H).
    destruct (spike_attr_name _); [discriminate|reflexivity].
Qed.

(* ---------- C13_accepts ---------- *)
Section Accept.
Variable fdiv : tok -> tok -> option tok.
Variable fmul : tok -> tok -> option tok.
Variable fround : tok -> option Z.
Variable inv_oracle : arr -> arr.
Variable inv_oracle2 : arr -> arr.
Notation load1 := (load fdiv fmul fround inv_oracle).
Notation load2 := (load fdiv fmul fround inv_oracle2).
Variables (o : oracles) (ci : conv_in) (r : conv_out) (rate : tok) (ncd : option Z) (kv : string * arr).
Notation m := (ci_m ci).
Notation L := (ci_label ci).
Notation fs := (co_npy r).
Hypothesis Hl : load1 (ci_src ci) rate ncd = Ok m.
Hypothesis Hk : find_path P_times_ks (ci_src ci) = Some kv.
Hypothesis Hwf : src_wf m (ci_src ci) = true.
Hypothesis Hpos : has "channel_positions.npy" (ci_src ci) = true.
Hypothesis Hns : n_spikes m <> 1.
Hypothesis Hnc : n_channels m <> 1.
Hypothesis Hnt : n_templates m <> 1.
Hypothesis Hnw : n_wsamples m <> 1.
Hypothesis Hc : convert o ci = COk r.

Let Shapes := loaded_shapes _ _ _ _ _ _ _ _ _ Hl Hk.

Lemma acc_samples rate2 : load_spike_samples fdiv fmul fround fs rate2 = Ok (l_samples m, l_times m).
Proof.
  destruct Shapes as (Sht & Shs & _).
  destruct (made_in o ci) as (Mt & Ms & _).
  unfold load_spike_samples. rewrite (find_none_out _ _ _ _ only_times_ks Hc).
  rewrite (found_exact o ci r Hc P_times_alf "spikes.times.npy" (PGlob "spikes.times" ".npy") _ only_times
             ltac:(now left) (pos_times L) ltac:(discriminate) ltac:(discriminate) Mt).
  rewrite (found_exact o ci r Hc P_samples_alf "spikes.samples.npy" (PGlob "spikes.samples" ".npy") _ only_samples
             ltac:(now left) (pos_samples L) ltac:(discriminate) ltac:(discriminate) Ms).
  destruct (load_times_sorted _ _ _ _ _ _ _ _ Hl) as (Hsorted & _ & _).
  destruct (load_times_ks _ _ _ _ _ _ _ _ _ Hl Hk) as (Es & _ & _ & _).
  f_equal. f_equal.
  - rewrite Es. apply read_full_idem.
  - apply read_full_id; [|now apply sorted_finite]. rewrite Sht. intros d [<-|[]]. exact Hns.
Qed.

Lemma acc_check : check_times (l_samples m) (l_times m) = Ok (n_spikes m).
Proof.
  destruct Shapes as (Sht & Shs & _). destruct (load_times_sorted _ _ _ _ _ _ _ _ Hl) as (Hsorted & _ & _).
  unfold check_times, ndim. rewrite Sht, Shs, Hsorted. reflexivity.
Qed.

Lemma acc_amps : exists v, load_amps fs (n_spikes m) = Ok v.
Proof.
  unfold load_amps. destruct (find_path P_amps fs) as [kva|] eqn:E; [|eexists; reflexivity].
  destruct (found_plain o ci r Hc _ _ _ only_amps E ltac:(discriminate) ltac:(discriminate)) as (a0 & Hin0 & ->).
  destruct (made_in2 o ci) as (Ma & _ & _).
  assert (a0 = snd (mk o "spikes.amps.npy" DF32 [n_spikes m])) by (eapply In_unique; [apply out0_names_nodup|exact Hin0|exact Ma]).
  subst a0. unfold mk, ndim. cbn [snd]. rewrite read_full_shape. cbn [a_shape].
  rewrite squeeze_keep by (intros d [<-|[]]; exact Hns). cbn [List.length Nat.eqb andb]. rewrite (proj2 (zl_eqb_eq _ _) eq_refl).
  eexists; reflexivity.
Qed.

(* the two id vectors of the source and their uint16 copies in the output *)
Lemma acc_ids : exists t1 c1,
  vec_ok (n_spikes m) t1 = true /\ vec_ok (n_spikes m) c1 = true /\
  find_path P_stemplates fs = Some (relabel L "spikes.templates.npy", to_u16 (copy_npy true t1)) /\
  find_path P_sclusters fs = Some (relabel L "spikes.clusters.npy", to_u16 (copy_npy true c1)).
Proof.
  destruct (dtypes_thm _ _ _ Hc) as (t1 & c1 & Lt & Lc & Dt & Dc).
  destruct (src_wf_inv _ _ Hwf) as (W1 & W2 & _).
  exists t1, c1. split; [exact (file_ok_lookup _ _ _ _ W2 Lt)|]. split; [exact (file_ok_lookup _ _ _ _ W1 Lc)|]. split.
  - apply (found_u16 o ci r Hc P_stemplates "spikes.templates.npy" (PGlob "spikes.templates" ".npy") _ only_stemplates
             ltac:(right; now left) (pos_stemplates L) Dt).
  - apply (found_u16 o ci r Hc P_sclusters "spikes.clusters.npy" (PGlob "spikes.clusters" ".npy") _ only_sclusters
             ltac:(right; now left) (pos_clusters L) Dc).
Qed.

Lemma u16_vec_shape a : vec_ok (n_spikes m) a = true ->
  a_shape (read_full (to_u16 (copy_npy true a))) = [n_spikes m].
Proof.
  intros V. rewrite read_full_shape, to_u16_shape, (vec_copy_shape _ _ V). now apply vec_ok_squeezed.
Qed.

Lemma acc_stemplates : exists v, load_stemplates fs (n_spikes m) = Ok v.
Proof.
  destruct acc_ids as (t1 & c1 & Vt & _ & Ft & _). unfold load_stemplates. rewrite Ft.
  rewrite read_full_dt. change (dt_is_float (a_dt (to_u16 (copy_npy true t1)))) with false. cbv iota zeta.
  rewrite read_full_dt. change (a_dt (to_u16 (copy_npy true t1))) with DU16.
  rewrite (u16_vec_shape _ Vt), (proj2 (zl_eqb_eq _ _) eq_refl). eexists; reflexivity.
Qed.

Lemma acc_sclusters : exists v, load_sclusters fs (n_spikes m) = Ok v.
Proof.
  destruct acc_ids as (t1 & c1 & _ & Vc & _ & Fc). unfold load_sclusters, sclusters_source. rewrite Fc. cbn [rbind fst snd].
  unfold astype. cbn [a_shape]. rewrite (u16_vec_shape _ Vc), (proj2 (zl_eqb_eq _ _) eq_refl). eexists; reflexivity.
Qed.

Lemma rawind_read : atleast_1d (read_full (rawind_arr m)) = rawind_arr m.
Proof.
  destruct Shapes as (_ & _ & _ & _ & Shp & _).
  rewrite read_full_id.
  - unfold rawind_arr, atleast_1d. cbn [a_shape]. now rewrite Shp.
  - unfold rawind_arr. cbn [a_shape]. rewrite Shp. intros d [<-|[]]. exact Hnc.
  - unfold rawind_arr. cbn [a_data]. apply Forall_forall. intros t Ht. apply in_map_iff in Ht as (z & <- & _). apply tz_finite.
Qed.

Lemma acc_cmap ncd2 :
  match ncd2 with
  | Some k => Forall (fun z => z <= k - 1) (raw_ind (ids_of (l_probes m)) (ids_of (l_cmap m)))
  | None => True end ->
  load_cmap fs ncd2 = Ok (rawind_arr m).
Proof.
  intros Hn. destruct Shapes as (_ & _ & _ & _ & Shp & _). destruct (made_in o ci) as (_ & _ & Mr).
  unfold load_cmap.
  rewrite (found_exact o ci r Hc P_cmap "channels.rawInd.npy" (PGlob "channels.rawInd" ".npy") _ only_cmap
             ltac:(right; now left) (pos_rawind L) ltac:(discriminate) ltac:(discriminate) Mr).
  rewrite rawind_read. unfold ndim, rawind_arr at 1 2. cbn [a_shape a_dt]. rewrite Shp. cbn [List.length Nat.eqb dt_in existsb dt_eqb dt_code Z.eqb orb andb negb].
  destruct ncd2 as [k|]; [|reflexivity].
  assert (E : forallb (fun t => match tok_Z t with Some z => z <=? k - 1 | None => false end) (a_data (rawind_arr m)) = true).
  { unfold rawind_arr. cbn [a_data]. apply forallb_forall. intros t Ht. apply in_map_iff in Ht as (z & <- & Hz).
    rewrite tok_Z_tz. apply Z.leb_le. rewrite Forall_forall in Hn. now apply Hn. }
  rewrite E. reflexivity.
Qed.

Lemma rawind_hd : hd 0 (a_shape (rawind_arr m)) = n_channels m.
Proof. destruct Shapes as (_ & _ & _ & _ & Shp & _). unfold rawind_arr. cbn [a_shape]. now rewrite Shp. Qed.

Lemma acc_pos : exists v, load_pos fs (n_channels m) = Ok v.
Proof.
  unfold has in Hpos. destruct (lookup "channel_positions.npy" (ci_src ci)) as [p1|] eqn:Lp; [|discriminate].
  destruct (src_wf_inv _ _ Hwf) as (_ & _ & _ & _ & _ & _ & W7).
  pose proof (file_ok_lookup _ _ _ _ W7 Lp) as Sp. cbv beta in Sp. apply zl_eqb_eq in Sp.
  assert (Hin0 : In ("channels.localCoordinates.npy", copy_npy false p1) (out0_npy o ci)).
  { apply (out0_copied_in o ci "channel_positions.npy" _ false p1); [cbn; tauto|]. now rewrite lookup_add_subset by reflexivity. }
  unfold load_pos.
  rewrite (found_exact o ci r Hc P_pos "channels.localCoordinates.npy" (PGlob "channels.localCoordinates" ".npy") _ only_pos
             ltac:(right; now left) (pos_coords L) ltac:(discriminate) ltac:(discriminate) Hin0).
  unfold copy_npy. assert (Hsq : a_shape (read_full p1) = [n_channels m; 2]).
  { rewrite read_full_shape, Sp. apply squeeze_keep. intros d [<-|[<-|[]]]; [exact Hnc|discriminate]. }
  unfold atleast_2d. rewrite Hsq. rewrite Hsq, (proj2 (zl_eqb_eq _ _) eq_refl). eexists; reflexivity.
Qed.

Lemma acc_shanks nc : load_shanks fs nc = Ok (zeros DI32 [nc]).
Proof. unfold load_shanks. now rewrite (find_none_out _ _ _ _ only_shanks Hc). Qed.

Lemma acc_probes : exists v, load_probes fs (n_channels m) = Ok v.
Proof.
  unfold load_probes. destruct (find_path P_probes fs) as [kvp|] eqn:E; [|eexists; reflexivity].
  destruct (found_plain o ci r Hc _ _ _ only_probes E ltac:(discriminate) ltac:(discriminate)) as (a0 & Hin0 & ->).
  destruct (out0_copied o ci "channel_probe.npy" _ true _ ltac:(cbn; tauto) Hin0) as (a1 & La & ->).
  rewrite lookup_add_subset in La by reflexivity.
  destruct (src_wf_inv _ _ Hwf) as (_ & _ & W3 & _). pose proof (file_ok_lookup _ _ _ _ W3 La) as V.
  assert (Hsq : a_shape (read_full (copy_npy true a1)) = [n_channels m])
    by (rewrite read_full_shape, (vec_copy_shape _ _ V); now apply vec_ok_squeezed).
  unfold atleast_1d. rewrite Hsq. rewrite Hsq, (proj2 (zl_eqb_eq _ _) eq_refl). eexists; reflexivity.
Qed.

Lemma ncw_ne1 : ncw m <> 1.
Proof. unfold ncw, n_closest. lia. Qed.

Lemma acc_templates : exists tm, load_templates fs = Ok tm /\ a_shape tm = [n_templates m; n_wsamples m; ncw m].
Proof.
  destruct (made_in2 o ci) as (_ & Mw & _). unfold load_templates.
  destruct (existsb_exists (fun p => pmatch p (relabel L "templates.waveforms.npy")) P_templates) as [Hex _].
  destruct (Hex (pos_templates L)) as (p & Hp & Hm).
  rewrite (found_exact o ci r Hc P_templates "templates.waveforms.npy" p _ only_templates Hp Hm ltac:(discriminate) ltac:(discriminate) Mw).
  assert (Hsq : a_shape (read_mmap (mkarr DF32 [n_templates m; n_wsamples m; ncw m] (o_data o "templates.waveforms.npy"))) =
                [n_templates m; n_wsamples m; ncw m]).
  { unfold read_mmap, squeeze. cbn [a_shape]. apply squeeze_keep. intros d [<-|[<-|[<-|[]]]]; [exact Hnt|exact Hnw|exact ncw_ne1]. }
  unfold atleast_3d. rewrite Hsq. unfold read_mmap at 1, squeeze at 1. cbn [a_dt dt_is_float negb].
  unfold zero_nan_templates. rewrite Hsq. eexists. split; reflexivity.
Qed.

Lemma acc_tcols : exists v, load_tcols fs (n_templates m) (ncw m) = Ok v.
Proof.
  unfold load_tcols. destruct (find_path P_tcols fs) as [kvt|] eqn:E; [|eexists; reflexivity].
  destruct (found_plain o ci r Hc _ _ _ only_tcols E ltac:(discriminate) ltac:(discriminate)) as (a0 & Hin0 & ->).
  destruct (made_in2 o ci) as (_ & _ & Mc).
  assert (a0 = snd (mk o "templates.waveformsChannels.npy" DI32 [n_templates m; ncw m]))
    by (eapply In_unique; [apply out0_names_nodup|exact Hin0|exact Mc]).
  subst a0. unfold mk. cbn [snd]. rewrite read_full_shape. cbn [a_shape].
  rewrite squeeze_keep by (intros d [<-|[<-|[]]]; [exact Hnt|exact ncw_ne1]). rewrite (proj2 (zl_eqb_eq _ _) eq_refl).
  eexists; reflexivity.
Qed.

Lemma acc_attrs ns : load_spike_attrs fs ns = Ok [].
Proof.
  apply load_attrs_none. intros [n a] Hin. cbn [fst]. destruct (out_entries _ _ _ Hc) as [Hb _].
  destruct (Hb _ _ Hin) as (n0 & a0 & Hin0 & -> & _). apply attr_none. eapply names_out0; exact Hin0.
Qed.

Theorem accepts_thm rate2 ncd2 :
  match ncd2 with
  | Some k => Forall (fun z => z <= k - 1) (raw_ind (ids_of (l_probes m)) (ids_of (l_cmap m)))
  | None => True end ->
  exists m2, load2 fs rate2 ncd2 = Ok m2.
Proof.
  intros Hn. unfold load.
  rewrite acc_samples. cbn [rbind fst snd]. rewrite acc_check. cbn [rbind].
  destruct acc_amps as (v1 & ->). cbn [rbind]. destruct acc_stemplates as (v2 & ->). cbn [rbind].
  destruct acc_sclusters as (v3 & ->). cbn [rbind]. rewrite (acc_cmap _ Hn). cbn [rbind]. rewrite rawind_hd.
  destruct acc_pos as (v4 & ->). cbn [rbind]. rewrite acc_shanks. cbn [rbind].
  destruct acc_probes as (v5 & ->). cbn [rbind]. destruct acc_templates as (tm & -> & Stm). cbn [rbind].
  rewrite Stm. cbn [hd nth]. destruct acc_tcols as (v6 & ->). cbn [rbind].
  unfold load_wm. rewrite (find_none_out _ _ _ _ only_wm Hc). cbn [rbind].
  unfold load_wmi. rewrite (find_none_out _ _ _ _ only_wmi Hc). cbn [rbind].
  unfold load_similar. rewrite (find_none_out _ _ _ _ only_similar Hc). cbn [rbind].
  rewrite acc_attrs. cbn [rbind]. eexists; reflexivity.
Qed.

(* the channel count of the source's own params.py always qualifies: the re-based indices never exceed the map *)
Lemma ncd_source_ok :
  match ncd with
  | Some k => Forall (fun z => z <= k - 1) (raw_ind (ids_of (l_probes m)) (ids_of (l_cmap m)))
  | None => True end.
Proof.
  destruct ncd as [k|] eqn:En; [|exact I]. apply Forall_forall. intros z Hz.
  destruct (raw_ind_le _ _ _ Hz) as (c & Hcin & Hle).
  destruct (load_inv _ _ _ _ _ _ _ _ Hl) as (st & ns & sc & wmi & _ & _ & _ & _ & _ & _ & _ & _ & Hcm & _).
  destruct (load_cmap_rule _ _ _ Hcm) as (a & _ & _ & _ & Hb).
  unfold ids_of in Hcin. apply in_map_iff in Hcin as (t & <- & Ht).
  destruct (Hb k eq_refl t Ht) as (z' & Ez & Hz'). rewrite Ez in Hle. lia.
Qed.
End Accept.
