(* C13/Spec.v -- the clauses of the property as declarative statements over (source, output directory),
   independent of how convert() builds the directory, with boolean checkers used by the comparator. *)
From Coq Require Import ZArith List Bool String Ascii Lia.
From PV Require Import Base.Tok Base.TokArith C04.Model C13.Model.
Import ListNotations.
Open Scope string_scope.
Open Scope list_scope.
Open Scope Z_scope.

Definition first_dim (a : arr) : option Z := match a_shape a with d :: _ => Some d | [] => None end.
Definition oz_eqb (a : option Z) (b : Z) : bool := match a with Some x => x =? b | None => false end.

(* ---- rows: every spikes.* / clusters.* / templates.* / channels.* array has the stated first dimension ---- *)
Definition Rows_Spec (ns nclu nt nc : Z) (out : files) : Prop :=
  forall name a, In (name, a) out ->
    (starts_with "spikes." name = true -> first_dim a = Some ns) /\
    (starts_with "clusters." name = true -> first_dim a = Some nclu) /\
    (starts_with "templates." name = true -> first_dim a = Some nt) /\
    (starts_with "channels." name = true -> first_dim a = Some nc).
Definition row_ok (ns nclu nt nc : Z) (kv : string * arr) : bool :=
  (negb (starts_with "spikes." (fst kv)) || oz_eqb (first_dim (snd kv)) ns) &&
  (negb (starts_with "clusters." (fst kv)) || oz_eqb (first_dim (snd kv)) nclu) &&
  (negb (starts_with "templates." (fst kv)) || oz_eqb (first_dim (snd kv)) nt) &&
  (negb (starts_with "channels." (fst kv)) || oz_eqb (first_dim (snd kv)) nc).
Definition rows_b (ns nclu nt nc : Z) (out : files) : bool := forallb (row_ok ns nclu nt nc) out.

(* ---- the number of clusters: one per id up to the highest when something was curated, one per template
        otherwise.  "Curated" = some spike's cluster differs from its template. ---- *)
Definition Is_max (l : list Z) (x : Z) : Prop := In x l /\ forall y, In y l -> y <= x.
Definition NClu_Spec (sclu stmpl : list Z) (nt n : Z) : Prop :=
  (sclu <> stmpl -> Is_max sclu (n - 1)) /\ (sclu = stmpl -> n = nt).

(* ---- identifiers: one per cluster, pairwise distinct ---- *)
Definition Uuids_Spec (n : Z) (ids : list Z) : Prop := Z.of_nat (List.length ids) = n /\ NoDup ids.
Fixpoint zmem (x : Z) (l : list Z) : bool := match l with [] => false | y :: r => (x =? y) || zmem x r end.
Fixpoint nodup_b (l : list Z) : bool := match l with [] => true | x :: r => negb (zmem x r) && nodup_b r end.
Definition uuids_b (n : Z) (ids : list Z) : bool := (Z.of_nat (List.length ids) =? n) && nodup_b ids.

(* ---- label: the name is <stem>.<label><suffix> where <stem><suffix> is the un-labelled name and
        <suffix> is the extension (from the last dot) ---- *)
Fixpoint has_dot (s : string) : bool :=
  match s with EmptyString => false | String c r => Ascii.eqb c "."%char || has_dot r end.
(* n is n0 with ".<label>" inserted before the extension: n0 = <stem>.<ext>, ext non-empty without dot, stem non-empty *)
Definition Label_Spec (L n0 n : string) : Prop :=
  exists st ex, n0 = append st (String "."%char ex) /\ has_dot ex = false /\ ex <> ""%string /\ st <> ""%string /\
                n = append st (append "." (append L (String "."%char ex))).
(* checker on an observed name: its stem (before the extension) ends with ".<label>" *)
Definition has_label (L name : string) : bool := ends_with (append "." L) (fst (split_ext name)).
Fixpoint str_nodup (l : list string) : bool :=
  match l with [] => true | x :: r => negb (existsb (String.eqb x) r) && str_nodup r end.
Definition names {V} (l : list (string * V)) : list string := map fst l.
Definition label_b (L : string) (nms : list string) : bool :=
  if String.eqb L "" then true else forallb (fun n => negb (labelled n) || has_label L n) nms.

(* The un-labelled names an export can hold (the files convert() makes, the targets of _FILE_RENAMES, the uuids
   table); Proofs2.OUT_TABLE_eq: this IS the table of C13_label_files / C13_label_names. *)
Definition OUT_TABLE : list string := [
  "clusters.channels.npy"; "clusters.peakToTrough.npy"; "clusters.amps.npy"; "channels.rawInd.npy";
  "spikes.times.npy"; "spikes.samples.npy"; "spikes.amps.npy"; "templates.amps.npy"; "templates.waveforms.npy";
  "templates.waveformsChannels.npy"; "clusters.waveforms.npy"; "clusters.waveformsChannels.npy";
  "spikes.depths.npy"; "clusters.depths.npy";
  "params.py"; "cluster_KSLabel.tsv"; "spikes.clusters.npy"; "spikes.templates.npy"; "channels.localCoordinates.npy";
  "channels.probes.npy"; "channels.labels.npy"; "clusters.probes.npy"; "clusters.shanks.npy";
  "_kilosort_whitening.matrix.npy"; "_phy_spikes_subset.channels.npy"; "_phy_spikes_subset.spikes.npy";
  "_phy_spikes_subset.waveforms.npy"; "drift_depths.um.npy"; "drift.times.npy"; "drift.um.npy";
  "clusters.uuids.csv"; "params.py"; "cluster_KSLabel.tsv"].
(* "Inserted into EVERY file": an observed spikes./clusters./templates./channels. name must be the labelled image
   of an un-labelled name of the table.  (has_label alone is fooled by a label that equals an attribute name:
   the un-labelled spikes.templates.npy "ends with .templates".) *)
Definition Label_Names_Spec (L : string) (nms : list string) : Prop :=
  forall n, In n nms -> labelled n = true -> exists n0, In n0 OUT_TABLE /\ n = relabel L n0.
Definition label_names_b (L : string) (nms : list string) : bool :=
  forallb (fun n => negb (labelled n) || existsb (fun n0 => String.eqb n (relabel L n0)) OUT_TABLE) nms.
Lemma label_names_b_spec L nms : label_names_b L nms = true <-> Label_Names_Spec L nms.
Proof.
  unfold label_names_b, Label_Names_Spec. rewrite forallb_forall. split.
  - intros H n Hin Hl. specialize (H _ Hin). rewrite Hl in H. cbn [negb orb] in H.
    apply existsb_exists in H as (n0 & H0 & E). apply String.eqb_eq in E. eauto.
  - intros H n Hin. destruct (labelled n) eqn:Hl; [|reflexivity]. cbn [negb orb].
    destruct (H _ Hin Hl) as (n0 & H0 & ->). apply existsb_exists. exists n0. split; [exact H0|apply String.eqb_refl].
Qed.

(* ---- frame of the source directory ---- *)
Definition subset_of (a b : list string) : bool := forallb (fun x => str_in x b) a.
Definition frame_b (had_temp has_raw : bool) (changed deleted new_names : list string) : bool :=
  match changed with [] => true | _ => false end &&
  subset_of deleted FILE_DELETES && (if had_temp then str_in "temp_wh.dat" deleted else true) &&
  subset_of new_names SUBSET &&
  (if has_raw then subset_of SUBSET new_names else match new_names with [] => true | _ => false end).

(* ---- soundness of the cheap checkers ---- *)
Lemma oz_eqb_eq a b : oz_eqb a b = true <-> a = Some b.
Proof.
  destruct a as [x|]; cbn [oz_eqb]; [rewrite Z.eqb_eq|]; split; intros H; try congruence; discriminate.
Qed.

Lemma rows_b_spec ns nclu nt nc out : rows_b ns nclu nt nc out = true <-> Rows_Spec ns nclu nt nc out.
Proof.
  unfold rows_b, Rows_Spec. rewrite forallb_forall. split.
  - intros H name a Hin. specialize (H _ Hin). unfold row_ok in H. cbn [fst snd] in H.
    rewrite !andb_true_iff, !orb_true_iff, !negb_true_iff, !oz_eqb_eq in H.
    destruct H as [[[H1 H2] H3] H4].
    repeat split; intros E; [destruct H1|destruct H2|destruct H3|destruct H4]; congruence.
  - intros H [name a] Hin. destruct (H _ _ Hin) as (H1 & H2 & H3 & H4). unfold row_ok. cbn [fst snd].
    rewrite !andb_true_iff, !orb_true_iff, !negb_true_iff, !oz_eqb_eq.
    repeat split.
    + destruct (starts_with "spikes." name); auto.
    + destruct (starts_with "clusters." name); auto.
    + destruct (starts_with "templates." name); auto.
    + destruct (starts_with "channels." name); auto.
Qed.

Lemma zmem_In x l : zmem x l = true <-> In x l.
Proof.
  induction l as [|y r IH]; cbn [zmem In]; [split; [discriminate|tauto]|].
  rewrite orb_true_iff, Z.eqb_eq, IH. split; intros [H|H]; auto.
Qed.
Lemma nodup_b_spec l : nodup_b l = true <-> NoDup l.
Proof.
  induction l as [|x r IH]; cbn [nodup_b]; [split; [constructor|reflexivity]|].
  rewrite andb_true_iff, negb_true_iff, IH. split.
  - intros [H1 H2]. constructor; [|exact H2]. intros Hin. apply zmem_In in Hin. congruence.
  - intros H. inversion H as [|? ? Hn Hd]; subst. split; [|exact Hd].
    destruct (zmem x r) eqn:E; [|reflexivity]. apply zmem_In in E. contradiction.
Qed.
Lemma uuids_b_spec n ids : uuids_b n ids = true <-> Uuids_Spec n ids.
Proof. unfold uuids_b, Uuids_Spec. now rewrite andb_true_iff, Z.eqb_eq, nodup_b_spec. Qed.

(* ---- well-formed source directory (the "mutually consistent shapes" of the statement): the vectors that
        convert() copies are stored as (n,) or (n,1) with the right n; positions are (n_channels, 2) ---- *)
(* (a (1,1) array is not an "(n,1) vector": numpy.squeeze would make it 0-dimensional) *)
Definition vec_ok (n : Z) (a : arr) : bool := zl_eqb (a_shape a) [n] || (zl_eqb (a_shape a) [n; 1] && negb (n =? 1)).
Definition file_ok (src : files) (name : string) (f : arr -> bool) : bool :=
  match lookup name src with Some a => f a | None => true end.
Definition src_wf (m : loaded) (src : files) : bool :=
  file_ok src "spike_clusters.npy" (vec_ok (n_spikes m)) &&
  file_ok src "spike_templates.npy" (vec_ok (n_spikes m)) &&
  file_ok src "channel_probe.npy" (vec_ok (n_channels m)) &&
  file_ok src "channel_labels.npy" (vec_ok (n_channels m)) &&
  file_ok src "cluster_probes.npy" (vec_ok (n_clu m)) &&
  file_ok src "cluster_shanks.npy" (vec_ok (n_clu m)) &&
  file_ok src "channel_positions.npy" (fun a => zl_eqb (a_shape a) [n_channels m; 2]).
(* cluster / template ids are canonical integer tokens below 65536 *)
Definition id_ok (t : tok) : bool :=
  match tok_Z t with Some z => (0 <=? z) && (z <? 65536) && tok_eqb t (tz z) | None => false end.
Definition ids_ok (a : arr) : bool := forallb id_ok (a_data a).
