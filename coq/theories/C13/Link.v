(* C13/Link.v -- stage 3: C13's model (WHICH files, names, shapes, dtypes) composed with C14's model (the VALUES).

   C13.Model.convert takes the values of the eleven "value files" (clusters.channels / peakToTrough / amps / depths /
   waveforms / waveformsChannels, templates.amps / waveforms / waveformsChannels, spikes.amps / depths) from the
   oracle o_data, indexed by the un-labelled file name.  C14.Model.export computes those values (exact rationals,
   QN = option Q, None = NaN; integers for the channel tables) from the arrays of the loaded TemplateModel.

   Here the oracle is INSTANTIATED with C14's export (link_oracles): each name is mapped to the C14 field that
   alf.py writes under that name, flattened in C order and rendered by an arbitrary rounding rnd : dt -> QN -> tok
   (the one thing neither model fixes: binary32 / binary64 rounding of the exact value).  Proved (compose_thm):
   whenever C14's exporter returns (its guards hold: C14_export_total) and C13's convert returns, every value file
   is in the output under its re-labelled name with C13's dtype and shape and EXACTLY C14's values as data, and the
   two agree on the number of entries (arr_wf: C14's tables have n_clu / n_templates / n_spikes rows,
   n_wsamples samples and min(12, n_channels) columns where C13 says so); channels.rawInd, which both models
   compute, coincides.  So export_all below is ONE model of the whole exporter: C13's theorems (rows, label, uuids,
   frame, round trip) hold of it because they hold for every oracle, C14's theorems hold of the values it writes.

   What ties the two inputs together is the relation Abs m x: x : C14.alf_in describes the same loaded model as
   m : C04.loaded (counts, per-template sample count, channel count, probe table, channel map); C14's inputs that
   `loaded` does not carry (cluster waveforms = C08's business, features) are unconstrained beyond their counts.
   C14's names are used qualified where both developments define one (raw_ind, curated, probe_offsets, zassoc). *)
From Coq Require Import ZArith QArith List Bool String Ascii Lia Arith Sorted.
From PV Require Import C09.Model C09.Proofs C09.Proofs2 C09.Proofs3 C14.Model C14.Spec C14.Proofs1 C14.Proofs10.
From PV Require Import Base.Tok Base.TokArith C04.Model C13.Model C13.Spec C13.Proofs1 C13.Proofs2 C13.Proofs4.
Import ListNotations.
Open Scope list_scope.
Open Scope Z_scope.
(* String is imported for the file names only: the list functions keep their short names *)
Local Notation length := List.length.
Local Notation concat := List.concat.

(* ---------- the oracle built from C14's export ---------- *)
Definition zt (n : nat) : tok := tz (Z.of_nat n).
Definition flat3 {A} (w : list (list (list A))) : list A := concat (concat w).

Section Link.
Variable argsort : list dkey -> list nat.       (* np.argsort, C14's oracle *)
Variable rnd : dt -> QN -> tok.                 (* rounding of the exact value into the file's dtype: ANY function *)

(* un-labelled file name -> the C14 field alf.py saves under that name, flat C order *)
Definition data_of (dpos : dt) (y : alf_out) (name : string) : list tok :=
  if String.eqb name "clusters.channels.npy" then map tz (y_cpeak y) else
  if String.eqb name "clusters.peakToTrough.npy" then map (rnd DF64) (y_p2t y) else
  if String.eqb name "clusters.amps.npy" then map (rnd DF64) (y_camps y) else
  if String.eqb name "spikes.amps.npy" then map (rnd DF32) (y_samps y) else
  if String.eqb name "templates.amps.npy" then map (rnd DF64) (y_tamps y) else
  if String.eqb name "templates.waveforms.npy" then map (rnd DF32) (flat3 (y_twave y)) else
  if String.eqb name "templates.waveformsChannels.npy" then map zt (concat (y_tchan y)) else
  if String.eqb name "clusters.waveforms.npy" then map (rnd DF32) (flat3 (y_cwave y)) else
  if String.eqb name "clusters.waveformsChannels.npy" then map zt (concat (y_cchan y)) else
  if String.eqb name "spikes.depths.npy" then map (rnd DF32) (y_sdepths y) else
  if String.eqb name "clusters.depths.npy" then map (rnd dpos) (y_cdepths y) else [].

Definition link_oracles (dpos : dt) (y : alf_out) (subset : string -> arr) (uuids : nat -> list Z) : oracles :=
  mkoracles (data_of dpos y) subset uuids.

(* the whole exporter: C14 computes the values, C13 places them *)
Definition export_all (x : alf_in) (factor rate : QN) (subset : string -> arr) (uuids : nat -> list Z)
           (ci : conv_in) : cres conv_out :=
  match export argsort x factor rate with
  | Some y => convert (link_oracles (a_dt (l_pos (ci_m ci))) y subset uuids) ci
  | None => CErr CRegime
  end.

(* the value files with C13's dtype and shape *)
Definition value_files (m : loaded) (src : files) : list (string * dt * list Z) :=
  [("clusters.channels.npy"%string, DI64, [n_clu m])] ++
  (if has "clusters.peakToTrough.npy" src then [] else [("clusters.peakToTrough.npy"%string, DF64, [n_clu m])]) ++
  [("clusters.amps.npy"%string, DF64, [n_clu m]);
   ("spikes.amps.npy"%string, DF32, [n_spikes m]);
   ("templates.amps.npy"%string, DF64, [n_templates m]);
   ("templates.waveforms.npy"%string, DF32, [n_templates m; n_wsamples m; ncw m]);
   ("templates.waveformsChannels.npy"%string, DI32, [n_templates m; ncw m]);
   ("clusters.waveforms.npy"%string, DF32, [n_clu m; n_wsamples m; ncw m]);
   ("clusters.waveformsChannels.npy"%string, DI32, [n_clu m; ncw m]);
   ("spikes.depths.npy"%string, DF32, [n_spikes m]);
   ("clusters.depths.npy"%string, a_dt (l_pos m), [n_clu m])].

(* x describes the loaded model m *)
Record Abs (m : loaded) (x : alf_in) : Prop := {
  abs_nt : x_nt x = n_templates m;
  abs_ncl : x_ncl x = n_clu m;
  abs_ns : zlen (x_st x) = n_spikes m;
  abs_nc : zlen (x_wmi x) = n_channels m;
  abs_tsw : Forall (fun t : mat => zlen t = n_wsamples m) (x_tdata x);
  abs_csw : Forall (fun t : mat => zlen t = n_wsamples m) (x_cdata x);
  abs_closest : x_nclosest x = n_closest;
  abs_probes : x_probes x = ids_of (l_probes m);
  abs_cmap : x_cmap x = ids_of (l_cmap m)
}.

(* shapes of C14's tables *)
Definition Shaped2 {A} (b c : nat) (w : list (list A)) : Prop := length w = b /\ Forall (fun r => length r = c) w.
Definition Shaped3 {A} (a b c : nat) (w : list (list (list A))) : Prop := length w = a /\ Forall (Shaped2 b c) w.

(* ---------- list facts ---------- *)
Lemma concat_uniform {A} (ls : list (list A)) k : Forall (fun l => length l = k) ls -> length (concat ls) = (length ls * k)%nat.
Proof. induction 1 as [|l r Hl _ IH]; cbn [concat length]; [reflexivity|]. rewrite app_length, IH, Hl. lia. Qed.
Lemma Forall_concat {A} (P : A -> Prop) (ls : list (list A)) : Forall (Forall P) ls -> Forall P (concat ls).
Proof. induction 1 as [|l r Hl _ IH]; cbn [concat]; [constructor|]. apply Forall_app. now split. Qed.
Lemma shaped2_flat {A} b c (w : list (list A)) : Shaped2 b c w -> length (concat w) = (b * c)%nat.
Proof. intros [H1 H2]. rewrite (concat_uniform _ c H2), H1. reflexivity. Qed.
Lemma shaped3_flat {A} a b c (w : list (list (list A))) : Shaped3 a b c w -> length (flat3 w) = (a * b * c)%nat.
Proof.
  intros [H1 H2]. unfold flat3. rewrite (concat_uniform (concat w) c).
  - rewrite (concat_uniform w b); [now rewrite H1|]. eapply Forall_impl; [|exact H2]. now intros l [Hl _].
  - apply Forall_concat. eapply Forall_impl; [|exact H2]. now intros l [_ Hl].
Qed.
Lemma map2_forall {A B C} (f : A -> B -> C) (P : A -> Prop) (Q : B -> Prop) (R : C -> Prop) :
  (forall a b, P a -> Q b -> R (f a b)) -> forall la lb, Forall P la -> Forall Q lb -> Forall R (map2 f la lb).
Proof.
  intros H la. induction la as [|a la IH]; intros lb Ha Hb; cbn [map2]; [constructor|].
  destruct lb as [|b lb]; [constructor|]. inversion Ha; inversion Hb; subst. constructor; auto.
Qed.
Lemma map2_len {A B C} (f : A -> B -> C) la lb n : length la = n -> length lb = n -> length (map2 f la lb) = n.
Proof. intros H1 H2. rewrite C09.Proofs.map2_length; congruence. Qed.
Lemma Forall_True {A} (l : list A) : Forall (fun _ => True) l.
Proof. induction l; constructor; auto. Qed.

(* ---------- C09 side: sizes of what get_amplitudes_true returns ---------- *)
Section Amp.
Variables (i : amp_in) (f : QN) (o : amp_out QN) (nsw : nat).
Hypothesis Ho : amplitudes_true_Q i f = Some o.
Hypothesis Hsw : Forall (fun t : mat => length t = nsw) (ai_data i).

Let W : WF i. Proof. apply wf_amp_WF. eapply amplitudes_true_some_wf. exact Ho. Qed.
Lemma amp_out_eq : o = mk_amp_out
    (map (fun z => q_mul (q_ofZ z) f) (spike_amps_Z i))
    (map2 (fun t k => map (map (fun w => q_mul (q_mul (q_ofZ w) k) f)) t) (templates_wfs i)
          (map2 (fun x a => q_div x (q_ofZ a)) (map2 (fun s c => q_div (q_ofZ s) (q_ofZ c)) (amp_sums i) (amp_counts i)) (amps_au i)))
    (map (fun x => q_mul x f) (map2 (fun s c => q_div (q_ofZ s) (q_ofZ c)) (amp_sums i) (amp_counts i))).
Proof.
  pose proof (amplitudes_true_some_wf _ _ _ Ho) as Hwf. revert Ho. unfold amplitudes_true_Q, amplitudes_true.
  rewrite Hwf. cbn [negb]. intros H. now injection H as <-.
Qed.
Lemma v_length : length (map2 (fun s c => q_div (q_ofZ s) (q_ofZ c)) (amp_sums i) (amp_counts i)) = length (ai_data i).
Proof. destruct (amp_sums_counts i W) as (H1 & H2 & _). now apply map2_len. Qed.
Lemma ao_tamps_length : length (ao_tamps o) = length (ai_data i).
Proof. rewrite amp_out_eq. cbn [ao_tamps]. rewrite map_length. apply v_length. Qed.
Lemma ao_spike_length : length (ao_spike o) = length (ai_spikes i).
Proof. rewrite amp_out_eq. cbn [ao_spike]. rewrite map_length. apply spike_amps_Z_length, W. Qed.
Lemma wfs_rows : Forall (fun t : mat => length t = nsw) (templates_wfs i).
Proof.
  unfold templates_wfs. apply Forall_forall. intros w Hw. apply in_map_iff in Hw as ([k t] & <- & Hin).
  apply in_combine_r in Hin. rewrite Forall_forall in Hsw. specialize (Hsw _ Hin). cbn [fst snd].
  destruct (_ <? _); [now rewrite matmul_length|]. unfold zeros_like. now rewrite map_length.
Qed.
Lemma ao_phys_length : length (ao_phys o) = length (ai_data i).
Proof.
  rewrite amp_out_eq. cbn [ao_phys]. apply map2_len; [apply templates_wfs_length|].
  apply map2_len; [apply v_length|apply amps_au_length].
Qed.
Lemma ao_phys_rows : Forall (fun w : list (list QN) => length w = nsw) (ao_phys o).
Proof.
  rewrite amp_out_eq. cbn [ao_phys].
  apply (map2_forall _ (fun t : mat => length t = nsw) (fun _ => True)); [|apply wfs_rows|apply Forall_True].
  intros t k Ht _. now rewrite map_length.
Qed.
End Amp.

(* ---------- C14 side ---------- *)
Hypothesis argsort_len : forall l, length (argsort l) = length l.     (* a permutation of the positions: Argsort_ok *)

Lemma take_cols_shape {A} (d : A) inds (T : list (list A)) b c :
  length T = b -> length inds = c -> Shaped2 b c (take_cols d inds T).
Proof.
  intros H1 H2. unfold take_cols, Shaped2. rewrite map_length. split; [exact H1|].
  apply Forall_forall. intros r Hr. apply in_map_iff in Hr as (row & <- & _). now rewrite map_length.
Qed.
Lemma ncw_le x : (ncw_of x <= length (x_wmi x))%nat.
Proof. unfold ncw_of. lia. Qed.
Lemma listed_length x p : length (listed argsort (x_pos x) (x_probes x) (length (x_wmi x)) (ncw_of x) p) = ncw_of x.
Proof.
  unfold listed. rewrite firstn_length, argsort_len. unfold dist_keys. rewrite map_length, seq_length.
  pose proof (ncw_le x). lia.
Qed.
Lemma inds_shape x data : Shaped2 (length data) (ncw_of x) (inds_of argsort x data).
Proof.
  unfold inds_of, Shaped2, peak_channels. rewrite !map_length. split; [reflexivity|].
  apply Forall_forall. intros r Hr. apply in_map_iff in Hr as (p & <- & _). apply listed_length.
Qed.
Lemma wave_shape x data (phys : list (list (list QN))) nsw :
  length phys = length data -> Forall (fun w => length w = nsw) phys ->
  Shaped3 (length data) nsw (ncw_of x) (map2 (take_cols None) (inds_of argsort x data) phys).
Proof.
  intros Hl Hr. destruct (inds_shape x data) as [Hi1 Hi2]. split; [now apply map2_len|].
  apply (map2_forall _ (fun r : list nat => length r = ncw_of x) (fun w : list (list QN) => length w = nsw)); auto.
  intros a b Ha Hb. now apply take_cols_shape.
Qed.

(* inversion of a successful export *)
Lemma export_inv x factor rate y : export argsort x factor rate = Some y ->
  wf_alf x = true /\
  exists amp_t amp_c dur dep,
    amplitudes_true_Q (t_amp_in x) factor = Some amp_t /\ amplitudes_true_Q (c_amp_in x) factor = Some amp_c /\
    waveform_durations_Q (length (x_wmi x)) (x_cdata x) rate = Some dur /\
    get_depths_Q NBATCH (x_depth_in x) = Some dep /\
    let cpk := peak_channels (length (x_wmi x)) (x_cdata x) in
    let nan := model_nan_idx (x_ncl x) (x_st x) (x_sc x) in
    let cdep := set_nan nan (map (fun c => q_ofZ (posy (x_pos x) c)) cpk) in
    y = mk_alf_out
          (map2 (take_cols None) (inds_of argsort x (x_tdata x)) (ao_phys amp_t)) (inds_of argsort x (x_tdata x))
          (map2 (take_cols None) (inds_of argsort x (x_cdata x)) (ao_phys amp_c)) (inds_of argsort x (x_cdata x))
          (ao_spike amp_t) (ao_tamps amp_t) (ao_tamps amp_c) (map Z.of_nat cpk) (set_nan nan dur) cdep
          (match dep with Some l => l | None => map (fun s => nth (Z.to_nat s) cdep None) (x_sc x) end)
          (C14.Model.raw_ind (x_probes x) (x_cmap x)).
Proof.
  unfold export, export_with. destruct (wf_alf x); cbn [negb]; [|discriminate].
  destruct (amplitudes_true_Q (t_amp_in x) factor) as [amp_t|]; [|discriminate].
  destruct (amplitudes_true_Q (c_amp_in x) factor) as [amp_c|]; [|discriminate].
  destruct (waveform_durations_Q _ _ rate) as [dur|]; [|discriminate].
  destruct (get_depths_Q NBATCH (x_depth_in x)) as [dep|]; [|discriminate].
  intros H. injection H as <-. split; [reflexivity|]. exists amp_t, amp_c, dur, dep. repeat split.
Qed.

Lemma wf_alf_parts x : wf_alf x = true ->
  zlen (x_tdata x) = x_nt x /\ zlen (x_cdata x) = x_ncl x /\ length (x_sc x) = length (x_st x).
Proof.
  unfold wf_alf. rewrite !andb_true_iff. intros H. decompose [and] H.
  repeat match goal with E : (_ =? _) = true |- _ => apply Z.eqb_eq in E | E : Nat.eqb _ _ = true |- _ => apply Nat.eqb_eq in E end.
  auto.
Qed.

Lemma durations_length nc data rate dur : waveform_durations_Q nc data rate = Some dur -> length dur = length data.
Proof.
  unfold waveform_durations_Q, waveform_durations. destruct (data_ok nc data); [|discriminate].
  intros H. injection H as <-. rewrite map_length. unfold durations_Z. rewrite map_length.
  apply map2_len; [apply seq_length|unfold peak_channels; apply map_length].
Qed.

Lemma depths_length i l : get_depths_Q NBATCH i = Some (Some l) -> length l = length (di_st i).
Proof.
  intros H. pose proof (get_depths_some_wf _ _ _ H) as Hwf.
  assert (Hst : length (di_st i) = Z.to_nat (di_nspikes i)).
  { unfold wf_depth in Hwf. rewrite !andb_true_iff in Hwf. destruct Hwf as [[_ E] _]. now apply Nat.eqb_eq in E. }
  destruct (di_feat i) as [[data cols]|] eqn:Hf.
  - destruct (Nat.eq_dec (length data) (Z.to_nat (di_nspikes i))) as [Hl|Hl].
    + rewrite (get_depths_pointwise NBATCH i data cols ltac:(unfold NBATCH; lia) Hwf Hf Hl) in H.
      injection H as <-. rewrite map_length, seq_length. lia.
    + exfalso. revert H. unfold get_depths_Q, get_depths. rewrite Hwf, Hf. cbn [negb].
      replace (Nat.eqb (length data) (Z.to_nat (di_nspikes i))) with false by (symmetry; now apply Nat.eqb_neq).
      cbn [negb]. discriminate.
  - exfalso. revert H. unfold get_depths_Q, get_depths. rewrite Hwf, Hf. cbn [negb]. discriminate.
Qed.

(* ---------- the sizes of everything C14 exports, in C13's counts ---------- *)
Section Sizes.
Variables (m : loaded) (x : alf_in) (factor rate : QN) (y : alf_out).
Hypothesis HA : Abs m x.
Hypothesis Hy : export argsort x factor rate = Some y.

Let nt := length (x_tdata x).
Let ncl := length (x_cdata x).
Let ns := length (x_st x).
Let nsw := Z.to_nat (n_wsamples m).
Let nw := ncw_of x.

Lemma sw_nat (data : list mat) : Forall (fun t : mat => zlen t = n_wsamples m) data -> Forall (fun t : mat => length t = nsw) data.
Proof. intros H. eapply Forall_impl; [|exact H]. intros t Ht. unfold nsw. rewrite <- Ht. unfold zlen. now rewrite Nat2Z.id. Qed.

Lemma sizes :
  length (y_cpeak y) = ncl /\ length (y_p2t y) = ncl /\ length (y_camps y) = ncl /\ length (y_cdepths y) = ncl /\
  length (y_samps y) = ns /\ length (y_sdepths y) = ns /\ length (y_tamps y) = nt /\
  Shaped3 nt nsw nw (y_twave y) /\ Shaped2 nt nw (y_tchan y) /\
  Shaped3 ncl nsw nw (y_cwave y) /\ Shaped2 ncl nw (y_cchan y).
Proof.
  destruct (export_inv _ _ _ _ Hy) as (Hwf & amp_t & amp_c & dur & dep & Ht & Hc & Hd & Hdep & Heq).
  cbv zeta in Heq. destruct (wf_alf_parts _ Hwf) as (_ & _ & Hsc).
  pose proof (sw_nat _ (abs_tsw _ _ HA)) as Hts. pose proof (sw_nat _ (abs_csw _ _ HA)) as Hcs.
  subst y. cbn [y_cpeak y_p2t y_camps y_cdepths y_samps y_sdepths y_tamps y_twave y_tchan y_cwave y_cchan].
  unfold ncl, nt, ns, nw. repeat match goal with |- _ /\ _ => split end.
  - unfold peak_channels. now rewrite !map_length.
  - rewrite set_nan_length. eapply durations_length; exact Hd.
  - apply (ao_tamps_length (c_amp_in x) factor amp_c Hc).
  - rewrite set_nan_length. unfold peak_channels. now rewrite !map_length.
  - apply (ao_spike_length (t_amp_in x) factor amp_t Ht).
  - destruct dep as [l|]; [apply (depths_length _ _ Hdep)|]. rewrite map_length. exact Hsc.
  - apply (ao_tamps_length (t_amp_in x) factor amp_t Ht).
  - apply (wave_shape x (x_tdata x)).
    + apply (ao_phys_length (t_amp_in x) factor amp_t Ht).
    + apply (ao_phys_rows (t_amp_in x) factor amp_t nsw Ht). exact Hts.
  - apply inds_shape.
  - apply (wave_shape x (x_cdata x)).
    + apply (ao_phys_length (c_amp_in x) factor amp_c Hc).
    + apply (ao_phys_rows (c_amp_in x) factor amp_c nsw Hc). exact Hcs.
  - apply inds_shape.
Qed.

(* C14's counts are C13's *)
Lemma counts :
  Z.of_nat nt = n_templates m /\ Z.of_nat ncl = n_clu m /\ Z.of_nat ns = n_spikes m /\
  Z.of_nat nw = ncw m /\ Z.of_nat nsw = n_wsamples m.
Proof.
  destruct (export_inv _ _ _ _ Hy) as (Hwf & amp_t & _ & _ & _ & Ht & _).
  destruct (wf_alf_parts _ Hwf) as (H1 & H2 & _). destruct HA as [A1 A2 A3 A4 A5 A6 A7 _ _].
  unfold zlen in *. repeat split; try lia.
  - unfold nw, ncw_of, ncw. rewrite A7, <- A4. unfold n_closest. lia.
  - (* at least one template (wf_amp), and it has n_wsamples samples *)
    pose proof (amplitudes_true_some_wf _ _ _ Ht) as Hwa. apply wf_amp_WF in Hwa. destruct Hwa as [_ _ _ _ _].
    unfold nsw. destruct (x_tdata x) as [|t r] eqn:E.
    + exfalso. pose proof (amplitudes_true_some_wf _ _ _ Ht) as Hwa. unfold wf_amp in Hwa. cbn [t_amp_in ai_data] in Hwa.
      rewrite E in Hwa. cbn [length Nat.leb] in Hwa. rewrite !andb_false_r in Hwa. cbn in Hwa. discriminate.
    + inversion A5 as [|? ? Ht0 _]. subst. lia.
Qed.
End Sizes.

(* ---------- rawInd: the file both models compute ---------- *)
Lemma usort_insert_spec x l : StronglySorted Z.lt l ->
  StronglySorted Z.lt (usort_insert x l) /\ forall y, In y (usort_insert x l) <-> y = x \/ In y l.
Proof.
  induction l as [|z r IH]; intros H; cbn [usort_insert].
  - split; [repeat constructor|]. intros y. cbn [In]. intuition.
  - apply StronglySorted_inv in H as [Hr Hz]. destruct (x <? z) eqn:E1.
    + apply Z.ltb_lt in E1. split.
      * constructor; [constructor; assumption|]. constructor; [exact E1|].
        rewrite Forall_forall in *. intros y Hy. specialize (Hz y Hy). lia.
      * intros y. cbn [In]. intuition.
    + apply Z.ltb_ge in E1. destruct (x =? z) eqn:E2.
      * apply Z.eqb_eq in E2. subst z. split; [now constructor|]. intros y. cbn [In]. intuition.
      * apply Z.eqb_neq in E2. destruct (IH Hr) as [I1 I2]. split.
        -- constructor; [exact I1|]. rewrite Forall_forall in *. intros y Hy. apply I2 in Hy as [->|Hy]; [lia|now apply Hz].
        -- intros y. cbn [In]. rewrite I2. intuition.
Qed.
Lemma zunique_spec l : StronglySorted Z.lt (zunique l) /\ forall y, In y (zunique l) <-> In y l.
Proof.
  induction l as [|x r [I1 I2]]; cbn [zunique fold_right]; [split; [constructor|tauto]|].
  destruct (usort_insert_spec x _ I1) as [J1 J2]. split; [exact J1|].
  intros y. fold (zunique r). rewrite J2, I2. cbn [In]. intuition.
Qed.
Lemma sorted_lt_unique (a : list Z) : forall b, StronglySorted Z.lt a -> StronglySorted Z.lt b ->
  (forall y, In y a <-> In y b) -> a = b.
Proof.
  induction a as [|x a IH]; intros b Ha Hb H.
  - destruct b as [|y b]; [reflexivity|]. exfalso. apply (H y). now left.
  - destruct b as [|y b]; [exfalso; apply (H x); now left|].
    apply StronglySorted_inv in Ha as [Ha Hx]. apply StronglySorted_inv in Hb as [Hb Hy].
    rewrite Forall_forall in Hx, Hy.
    assert (x = y).
    { destruct (proj1 (H x) (or_introl eq_refl)) as [E|E]; [now symmetry|].
      destruct (proj2 (H y) (or_introl eq_refl)) as [E'|E']; [exact E'|].
      specialize (Hx _ E'). specialize (Hy _ E). lia. }
    subst y. f_equal. apply IH; auto. intros z. split; intros Hz.
    + destruct (proj1 (H z) (or_intror Hz)) as [->|E]; [|exact E]. specialize (Hx _ Hz). lia.
    + destruct (proj2 (H z) (or_intror Hz)) as [->|E]; [|exact E]. specialize (Hy _ Hz). lia.
Qed.
Lemma zunique_np_unique l : zunique l = np_unique l.
Proof.
  destruct (zunique_spec l) as [A1 A2]. destruct (C09.Proofs3.np_unique_spec l) as [B1 B2].
  apply sorted_lt_unique; auto. intros y. now rewrite A2, B2.
Qed.
Lemma zmax_lmax l : Forall (fun z => 0 <= z) l -> zmax l = lmax l.
Proof.
  intros H. destruct l as [|x r]; [reflexivity|].
  assert (N : x :: r <> []) by discriminate.
  pose proof (zmax_in _ N H) as H1. pose proof (lmax_in _ N) as H2.
  pose proof (lmax_ge _ _ H1). pose proof (zmax_ge _ _ H2). lia.
Qed.
Lemma zassoc_agree k l : C13.Model.zassoc k l = C14.Model.zassoc k l.
Proof. induction l as [|[k' v] r IH]; cbn [C13.Model.zassoc C14.Model.zassoc]; [reflexivity|]. now rewrite IH. Qed.
Lemma sel_max_agree probes cmap p : Forall (fun z => 0 <= z) cmap -> sel_max probes cmap p = lmax (sel probes cmap p).
Proof.
  intros H. unfold sel_max, sel. apply zmax_lmax. apply Forall_forall. intros z Hz.
  apply in_map_iff in Hz as ([a b] & <- & Hin). apply filter_In in Hin as [Hin _]. apply in_combine_r in Hin.
  rewrite Forall_forall in H. now apply H.
Qed.
Lemma probe_offsets_agree probes cmap : Forall (fun z => 0 <= z) cmap ->
  forall ps off, C13.Model.probe_offsets ps probes cmap off = C14.Model.probe_offsets ps probes cmap off.
Proof.
  intros H ps. induction ps as [|p r IH]; intros off; cbn [C13.Model.probe_offsets C14.Model.probe_offsets]; [reflexivity|].
  now rewrite IH, sel_max_agree.
Qed.
(* make_channel_objects: the two transcriptions of the re-basing loop agree on every non-negative channel map *)
Lemma raw_ind_agree probes cmap : Forall (fun z => 0 <= z) cmap ->
  C13.Model.raw_ind probes cmap = C14.Model.raw_ind probes cmap.
Proof.
  intros H. unfold C13.Model.raw_ind, C14.Model.raw_ind. rewrite zunique_np_unique, (probe_offsets_agree _ _ H).
  apply map_ext. intros pc. now rewrite zassoc_agree.
Qed.

(* The field abs_ncl of Abs (C14's n_clusters = C13's n_clu) is what C14's theorems assume of the loader
   (Loaded_ncl = C08_merge_map_loaded: curated => n_clusters = max(spike_clusters) + 1) plus "n_clusters = n_templates
   when nothing was curated" (_load_data's else branch): the two developments count the clusters alike. *)
Lemma map_tz_inj a b : map tz a = map tz b -> a = b.
Proof.
  revert b. induction a as [|x a IH]; intros [|y b] H; try discriminate; [reflexivity|].
  cbn [map] in H. injection H as H1 H2. f_equal; [|now apply IH].
  assert (E : tok_Z (tz x) = tok_Z (tz y)) by now rewrite H1. rewrite !tok_Z_tz in E. now injection E.
Qed.
Lemma abs_ncl_loaded m x :
  x_st x = ids_of (l_stemplates m) -> x_sc x = ids_of (l_sclusters m) ->
  ids_ok (l_sclusters m) = true -> ids_ok (l_stemplates m) = true -> l_tcols m = None ->
  Loaded_ncl x -> (x_sc x = x_st x -> x_ncl x = x_nt x) -> x_nt x = n_templates m ->
  x_ncl x = n_clu m.
Proof.
  intros Hst Hsc Oc Ot Htc HL Hun Hnt. unfold n_clu, C13.Model.curated. rewrite Htc. cbn [is_none]. rewrite andb_true_r.
  rewrite (ids_ok_data _ Oc), (ids_ok_data _ Ot).
  destruct (tl_eqb _ _) eqn:E; cbn [negb].
  - apply tl_eqb_eq, map_tz_inj in E. rewrite <- Hnt. apply Hun. congruence.
  - assert (N : x_sc x <> x_st x).
    { intros H. rewrite Hsc, Hst in H. rewrite H in E. assert (T : tl_eqb (map tz (ids_of (l_stemplates m))) (map tz (ids_of (l_stemplates m))) = true) by now apply tl_eqb_eq.
      congruence. }
    rewrite (HL N), Hsc. f_equal. symmetry. apply zmax_lmax.
    eapply Forall_impl; [|apply (ids_ok_range _ Oc)]. intros z Hz. cbn beta in Hz. lia.
Qed.

(* ---------- the composition ---------- *)
Lemma prodZ1 a : prodZ [a] = a. Proof. cbn. lia. Qed.
Lemma prodZ2 a b : prodZ [a; b] = a * b. Proof. cbn. lia. Qed.
Lemma prodZ3 a b c : prodZ [a; b; c] = a * b * c. Proof. cbn. lia. Qed.

Theorem compose_thm : forall x factor rate subset uuids ci y r,
  Abs (ci_m ci) x ->
  export argsort x factor rate = Some y ->
  convert (link_oracles (a_dt (l_pos (ci_m ci))) y subset uuids) ci = COk r ->
  (* every value file: C13's name / dtype / shape, C14's values, and as many of them as the shape says *)
  (forall n0 d sh, In (n0, d, sh) (value_files (ci_m ci) (ci_src ci)) ->
     exists a, lookup (relabel (ci_label ci) n0) (co_npy r) = Some a /\
               a_dt a = d /\ a_shape a = sh /\ a_data a = data_of (a_dt (l_pos (ci_m ci))) y n0 /\ arr_wf a = true) /\
  (* C14's tables have C13's dimensions *)
  (let m := ci_m ci in
   let N := Z.to_nat in
   length (y_cpeak y) = N (n_clu m) /\ length (y_p2t y) = N (n_clu m) /\ length (y_camps y) = N (n_clu m) /\
   length (y_cdepths y) = N (n_clu m) /\ length (y_samps y) = N (n_spikes m) /\ length (y_sdepths y) = N (n_spikes m) /\
   length (y_tamps y) = N (n_templates m) /\
   Shaped3 (N (n_templates m)) (N (n_wsamples m)) (N (ncw m)) (y_twave y) /\ Shaped2 (N (n_templates m)) (N (ncw m)) (y_tchan y) /\
   Shaped3 (N (n_clu m)) (N (n_wsamples m)) (N (ncw m)) (y_cwave y) /\ Shaped2 (N (n_clu m)) (N (ncw m)) (y_cchan y)) /\
  (* channels.rawInd, computed by both models, is the same file *)
  (Forall (fun z => 0 <= z) (x_cmap x) ->
   lookup (relabel (ci_label ci) "channels.rawInd.npy") (co_npy r) =
     Some (mkarr DI64 (a_shape (l_probes (ci_m ci))) (map tz (y_rawind y)))).
Proof.
  intros x factor rate subset uuids ci y r HA Hy Hc.
  set (m := ci_m ci) in *. set (o := link_oracles (a_dt (l_pos m)) y subset uuids) in *.
  pose proof (sizes m x factor rate y HA Hy) as S. pose proof (counts m x factor rate y HA Hy) as C.
  cbv zeta in S. destruct C as (Cnt & Cncl & Cns & Cnw & Cnsw).
  cbv zeta. rewrite <- Cnt, <- Cncl, <- Cns, <- Cnw, <- Cnsw. rewrite !Nat2Z.id.
  destruct S as (S1 & S2 & S3 & S4 & S5 & S6 & S7 & S8 & S9 & S10 & S11).
  pose proof (out_names_nodup _ _ _ Hc) as ND.
  destruct (convert_ok _ _ _ Hc) as (_ & _ & _ & Hnc & _).
  split; [|split].
  - intros n0 d sh Hin.
    assert (Hmade : In (n0, mkarr d sh (data_of (a_dt (l_pos m)) y n0)) (out0_npy o ci)).
    { unfold out0_npy, made, made_cluster, made_channel, made_spikes, made_depths, mk. fold m. rewrite Hnc.
      unfold value_files in Hin. fold m in Hin.
      destruct (has "clusters.peakToTrough.npy" (ci_src ci)); cbn [app In] in Hin |- *;
        repeat (destruct Hin as [Hin|Hin]; [injection Hin as <- <- <-; cbn [o_data o link_oracles]; tauto|]); destruct Hin. }
    assert (Hne : n0 <> "spikes.templates.npy"%string /\ n0 <> "spikes.clusters.npy"%string).
    { unfold value_files in Hin. destruct (has "clusters.peakToTrough.npy" (ci_src ci)); cbn [app In] in Hin;
        repeat (destruct Hin as [Hin|Hin]; [injection Hin as <- _ _; split; discriminate|]); destruct Hin. }
    destruct Hne as [Hn1 Hn2]. pose proof (out_plain _ _ _ _ _ Hc Hmade Hn1 Hn2) as Hout.
    eexists. split; [apply (In_lookup_nodup _ _ _ ND Hout)|]. cbn [a_dt a_shape a_data]. repeat split.
    (* arr_wf: one case per file *)
    unfold arr_wf. cbn [a_data a_shape]. apply andb_true_iff.
    unfold value_files in Hin. fold m in Hin. rewrite <- Cnt, <- Cncl, <- Cns, <- Cnw, <- Cnsw in Hin.
    destruct (has "clusters.peakToTrough.npy" (ci_src ci)); cbn [app In] in Hin;
      repeat (destruct Hin as [Hin|Hin];
              [injection Hin as <- <- <-; cbn [data_of String.eqb Ascii.eqb Bool.eqb];
               rewrite ?prodZ1, ?prodZ2, ?prodZ3, ?map_length, ?(shaped3_flat _ _ _ _ S8), ?(shaped3_flat _ _ _ _ S10),
                 ?(shaped2_flat _ _ _ S9), ?(shaped2_flat _ _ _ S11), ?S1, ?S2, ?S3, ?S4, ?S5, ?S6, ?S7, ?Nat2Z.inj_mul;
               split; [apply Z.eqb_eq; reflexivity|cbn [forallb]; rewrite ?andb_true_r, ?andb_true_iff; repeat split; apply Z.leb_le; lia]|]);
      destruct Hin.
  - repeat match goal with |- _ /\ _ => split end; assumption.
  - intros Hnn. destruct (made_in o ci) as (_ & _ & Hraw).
    assert (Hr1 : "channels.rawInd.npy"%string <> "spikes.templates.npy"%string) by discriminate.
    assert (Hr2 : "channels.rawInd.npy"%string <> "spikes.clusters.npy"%string) by discriminate.
    pose proof (out_plain _ _ _ _ _ Hc Hraw Hr1 Hr2) as Hout. rewrite (In_lookup_nodup _ _ _ ND Hout).
    unfold rawind_arr. fold m. do 3 f_equal.
    destruct (export_inv _ _ _ _ Hy) as (_ & amp_t & amp_c & dur & dep & _ & _ & _ & _ & Heq). cbv zeta in Heq.
    rewrite Heq. cbn [y_rawind]. rewrite <- (abs_probes _ _ HA), <- (abs_cmap _ _ HA). now apply raw_ind_agree.
Qed.
End Link.
