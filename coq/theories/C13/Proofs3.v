(* C13/Proofs3.v -- read-back: PV.C04.Model.load applied to the model of the written directory returns the
   source's spike times, samples, clusters, templates, positions and (re-based) channel map. *)
From Coq Require Import ZArith List Bool String Ascii Lia.
From PV Require Import Base.Tok Base.TokArith C04.Model C04.Proofs C13.Model C13.Spec C13.Proofs1 C13.Proofs2.
Import ListNotations.
Open Scope string_scope.
Open Scope list_scope.
Open Scope Z_scope.

(* ---------- which produced file a loader pattern list can select ---------- *)
Definition only_ok (ps : list pat) (X L n0 : string) : bool :=
  String.eqb n0 X || negb (existsb (fun p => pmatch p (relabel L n0)) ps).
Definition only (ps : list pat) (X : string) : Prop := forall L, forallb (only_ok ps X L) all_out_names = true.

Ltac only_tac := intros [|c L']; vm_compute; reflexivity.
Lemma only_times_ks : only P_times_ks "". Proof. only_tac. Qed.
Lemma only_times : only P_times_alf "spikes.times.npy". Proof. only_tac. Qed.
Lemma only_samples : only P_samples_alf "spikes.samples.npy". Proof. only_tac. Qed.
Lemma only_sclusters : only P_sclusters "spikes.clusters.npy". Proof. only_tac. Qed.
Lemma only_stemplates : only P_stemplates "spikes.templates.npy". Proof. only_tac. Qed.
Lemma only_cmap : only P_cmap "channels.rawInd.npy". Proof. only_tac. Qed.
Lemma only_pos : only P_pos "channels.localCoordinates.npy". Proof. only_tac. Qed.

Lemma match_in_out ps X o ci r kv p : only ps X -> convert o ci = COk r ->
  In kv (co_npy r) -> In p ps -> pmatch p (fst kv) = true ->
  exists a0, fst kv = relabel (ci_label ci) X /\ In (X, a0) (out0_npy o ci).
Proof.
  intros Ho Hc Hin Hp Hm. destruct kv as [n a]. destruct (out_entries _ _ _ Hc) as [Hb _].
  destruct (Hb _ _ Hin) as (n0 & a0 & Hin0 & -> & _). cbn [fst] in *.
  pose proof (Ho (ci_label ci)) as T. rewrite forallb_forall in T. specialize (T _ (names_out0 _ _ _ _ Hin0)).
  unfold only_ok in T. apply orb_true_iff in T as [T|T].
  - apply String.eqb_eq in T. subst n0. eauto.
  - exfalso. apply negb_true_iff in T.
    assert (existsb (fun p => pmatch p (relabel (ci_label ci) n0)) ps = true) by (apply existsb_exists; eauto).
    congruence.
Qed.

Lemma find_in_out ps X o ci r kv : only ps X -> convert o ci = COk r ->
  find_path ps (co_npy r) = Some kv ->
  In kv (co_npy r) /\ exists a0, fst kv = relabel (ci_label ci) X /\ In (X, a0) (out0_npy o ci).
Proof.
  intros Ho Hc Hf. destruct (find_path_spec _ _ _ Hf) as (pre & p & post & -> & Hm & Hin & _).
  split; [exact Hin|]. eapply match_in_out; eauto. apply in_or_app. right. now left.
Qed.

Lemma find_none_out ps o ci r : only ps "" -> convert o ci = COk r -> find_path ps (co_npy r) = None.
Proof.
  intros Ho Hc. apply find_path_none. intros p Hp kv Hin. destruct (pmatch p (fst kv)) eqn:E; [|reflexivity].
  exfalso. destruct (match_in_out _ _ _ _ _ _ _ Ho Hc Hin Hp E) as (a0 & _ & Hin0).
  pose proof (names_out0 _ _ _ _ Hin0) as Hn. revert Hn. clear. intros Hn.
  assert (existsb (String.eqb "") all_out_names = false) by (vm_compute; reflexivity).
  assert (existsb (String.eqb "") all_out_names = true) by (apply existsb_exists; exists ""; split; [exact Hn|reflexivity]).
  congruence.
Qed.

Lemma find_some_if ps fs kv p : In kv fs -> In p ps -> pmatch p (fst kv) = true -> find_path ps fs <> None.
Proof. intros Hin Hp Hm Hn. rewrite find_path_none in Hn. rewrite (Hn _ Hp _ Hin) in Hm. discriminate. Qed.

(* the two globs that must find their file for the read-back to use it *)
Lemma pos_samples L : glob1 "spikes.samples" ".npy" (relabel L "spikes.samples.npy") = true.
Proof.
  destruct L as [|c L']; [vm_compute; reflexivity|].
  change (relabel (String c L') "spikes.samples.npy") with (append "spikes.samples" (append (String "."%char (String c L')) ".npy")).
  apply glob1_app.
Qed.
Lemma pos_clusters L : glob1 "spikes.clusters" ".npy" (relabel L "spikes.clusters.npy") = true.
Proof.
  destruct L as [|c L']; [vm_compute; reflexivity|].
  change (relabel (String c L') "spikes.clusters.npy") with (append "spikes.clusters" (append (String "."%char (String c L')) ".npy")).
  apply glob1_app.
Qed.

(* ---------- squeeze / scrub on arrays that need neither ---------- *)
Lemma filter_all {A} (f : A -> bool) l : (forall x, In x l -> f x = true) -> filter f l = l.
Proof.
  induction l as [|x l IH]; cbn [filter]; [reflexivity|]. intros H. rewrite (H x) by now left.
  f_equal. apply IH. intros y Hy. apply H. now right.
Qed.
Lemma filter_idem {A} (f : A -> bool) l : filter f (filter f l) = filter f l.
Proof. apply filter_all. intros x Hx. now apply filter_In in Hx. Qed.
Lemma scrub_idem t : scrub (scrub t) = scrub t.
Proof. destruct t; reflexivity. Qed.
Lemma map_scrub_id l : Forall (fun t => is_finite t = true) l -> map scrub l = l.
Proof. induction 1 as [|t l Ht _ IH]; cbn [map]; [reflexivity|]. now rewrite IH, scrub_id. Qed.

Lemma read_full_id a : (forall d, In d (a_shape a) -> d <> 1) -> Forall (fun t => is_finite t = true) (a_data a) ->
  read_full a = a.
Proof.
  intros Hs Hf. destruct a as [d sh da]. unfold read_full, squeeze, scrub_arr. cbn [a_dt a_shape a_data] in *.
  rewrite map_scrub_id by exact Hf. f_equal. apply filter_all. intros x Hx. apply negb_true_iff, Z.eqb_neq. now apply Hs.
Qed.
Lemma read_full_idem a : read_full (read_full a) = read_full a.
Proof.
  unfold read_full, squeeze, scrub_arr. cbn [a_dt a_shape a_data]. rewrite filter_idem, map_map.
  f_equal. apply map_ext. intros t. apply scrub_idem.
Qed.

Lemma sorted_finite l : toks_sorted l = Some true -> Forall (fun t => is_finite t = true) l.
Proof.
  induction l as [|x r IH]; [constructor|]. cbn [toks_sorted]. destruct r as [|y r'].
  - destruct (is_finite x) eqn:E; [|discriminate]. intros _. constructor; [exact E|constructor].
  - destruct (tok_leb x y) as [b1|] eqn:E1; [|discriminate].
    destruct (toks_sorted (y :: r')) as [b2|] eqn:E2; [|discriminate].
    intros H. injection H as H. apply andb_true_iff in H as [_ ->]. constructor; [|now apply IH].
    destruct x; try discriminate E1. reflexivity.
Qed.

Lemma find1_exact k (fs : files) a : lookup k fs = Some a -> find1 (PExact k) fs = Some (k, a).
Proof.
  unfold find1. induction fs as [|[k' a'] r IH]; cbn [lookup find pmatch fst]; [discriminate|].
  destruct (String.eqb_spec k k') as [->|Hne]; [intros H; injection H as ->; reflexivity|exact IH].
Qed.

(* ---------- single probe: the raw indices are the channel map ---------- *)
Lemma usort_insert_same p l : l = [p] -> usort_insert p l = [p].
Proof. intros ->. cbn [usort_insert]. rewrite Z.ltb_irrefl, Z.eqb_refl. reflexivity. Qed.
Lemma zunique_const p l : l <> [] -> Forall (fun x => x = p) l -> zunique l = [p].
Proof.
  induction l as [|x l IH]; [congruence|]. intros _ Hf. inversion Hf as [|? ? -> Hl]; subst.
  unfold zunique. cbn [fold_right]. fold (zunique l). destruct l as [|y l'].
  - reflexivity.
  - rewrite IH; [|discriminate|exact Hl]. now apply usort_insert_same.
Qed.
Lemma raw_ind_single p probes cmap : probes <> [] -> Forall (fun x => x = p) probes ->
  List.length probes = List.length cmap -> raw_ind probes cmap = cmap.
Proof.
  intros Hne Hf Hlen. unfold raw_ind. rewrite (zunique_const p) by assumption. cbn [probe_offsets].
  revert cmap Hlen. clear Hne. induction Hf as [|x l -> _ IH]; intros [|c cm] Hlen; try discriminate; [reflexivity|].
  cbn [combine map fst snd zassoc]. rewrite Z.eqb_refl, Z.sub_0_r. f_equal. apply IH. now injection Hlen.
Qed.

(* ---------- C13_roundtrip ---------- *)
Section Roundtrip.
Variable fdiv : tok -> tok -> option tok.
Variable fmul : tok -> tok -> option tok.
Variable fround : tok -> option Z.
Variable inv_oracle : arr -> arr.
Variable inv_oracle2 : arr -> arr.
Notation load1 := (load fdiv fmul fround inv_oracle).
Notation load2 := (load fdiv fmul fround inv_oracle2).

Lemma cast_scrub_data a : ids_ok (mkarr DI32 [] (map scrub (a_data a))) = true ->
  map scrub (a_data (to_u16 a)) = map scrub (a_data a).
Proof.
  unfold ids_ok, to_u16. cbn [a_data]. induction (a_data a) as [|t l IH]; cbn [map forallb]; [reflexivity|].
  rewrite andb_true_iff. intros [Ht Hl]. f_equal; [|now apply IH].
  destruct (tok_Z t) as [z|] eqn:Ez; [|reflexivity].
  assert (Hfin : scrub t = t) by (destruct t; try discriminate Ez; reflexivity). rewrite Hfin in Ht.
  unfold id_ok in Ht. rewrite Ez in Ht. rewrite !andb_true_iff in Ht. destruct Ht as [[H0 H1] H2].
  apply tok_eqb_eq in H2. rewrite Z.mod_small by lia. now rewrite <- H2.
Qed.

Lemma vec_copy_shape n a : vec_ok n a = true ->
  filter (fun d => negb (d =? 1)) (a_shape (copy_npy true a)) = filter (fun d => negb (d =? 1)) (a_shape a).
Proof.
  unfold vec_ok. rewrite orb_true_iff, andb_true_iff, !zl_eqb_eq. intros [H|[H _]]; unfold copy_npy; rewrite H; cbv iota beta.
  - now rewrite H.
  - unfold squeeze. cbn [a_shape]. rewrite H. apply filter_idem.
Qed.

Theorem roundtrip_thm o ci r rate ncd kv rate2 ncd2 m2 :
  load1 (ci_src ci) rate ncd = Ok (ci_m ci) ->
  find_path P_times_ks (ci_src ci) = Some kv ->
  src_wf (ci_m ci) (ci_src ci) = true ->
  ids_ok (l_sclusters (ci_m ci)) = true -> ids_ok (l_stemplates (ci_m ci)) = true ->
  n_spikes (ci_m ci) <> 1 -> n_channels (ci_m ci) <> 1 ->
  convert o ci = COk r ->
  load2 (co_npy r) rate2 ncd2 = Ok m2 ->
  l_times m2 = l_times (ci_m ci) /\ l_samples m2 = l_samples (ci_m ci) /\
  l_sclusters m2 = l_sclusters (ci_m ci) /\
  (a_dt (l_stemplates m2) = DU16 /\ a_shape (l_stemplates m2) = a_shape (l_stemplates (ci_m ci)) /\
   a_data (l_stemplates m2) = a_data (l_stemplates (ci_m ci))) /\
  l_pos m2 = l_pos (ci_m ci) /\
  l_cmap m2 = rawind_arr (ci_m ci).
Proof.
  set (m := ci_m ci). intros Hl Hk Hwf Hic Hit Hns Hnc Hc Hl2.
  destruct (loaded_shapes _ _ _ _ _ _ _ _ _ Hl Hk) as (Sht & Shs & Shc & Shst & Shp & Shpos & _). fold m in Sht, Shs, Shc, Shst, Shp, Shpos.
  pose proof (out_names_nodup _ _ _ Hc) as Hnd.
  destruct (made_in o ci) as (Mt & Ms & Mr). fold m in Mt, Ms, Mr.
  pose proof (out_plain _ _ _ _ _ Hc Mt ltac:(discriminate) ltac:(discriminate)) as Ot.
  pose proof (out_plain _ _ _ _ _ Hc Ms ltac:(discriminate) ltac:(discriminate)) as Os.
  pose proof (out_plain _ _ _ _ _ Hc Mr ltac:(discriminate) ltac:(discriminate)) as Or.
  destruct (load_times_sorted _ _ _ _ _ _ _ _ Hl) as (Hsorted & _ & _). fold m in Hsorted.
  destruct (load_times_ks _ _ _ _ _ _ _ _ _ Hl Hk) as (Es & _ & _ & _). fold m in Es.
  (* times and samples *)
  pose proof (find_none_out _ _ _ _ only_times_ks Hc) as Hnoks.
  destruct (load_times_alf _ _ _ _ _ _ _ _ Hl2 Hnoks) as (kt & Hkt & Et & Hsm).
  destruct (find_in_out _ _ _ _ _ _ only_times Hc Hkt) as (Hint & a0 & Hnt & _).
  assert (Vt : snd kt = l_times m) by (destruct kt as [n a]; cbn [fst snd] in *; subst n; eapply In_unique; eauto).
  assert (T1 : l_times m2 = l_times m).
  { rewrite Et, Vt. apply read_full_id; [|now apply sorted_finite]. rewrite Sht. intros d [<-|[]]. exact Hns. }
  assert (T2 : l_samples m2 = l_samples m).
  { destruct (find_path P_samples_alf (co_npy r)) as [ks|] eqn:Eks.
    - destruct (find_in_out _ _ _ _ _ _ only_samples Hc Eks) as (Hins & a1 & Hnss & _).
      assert (Vs : snd ks = l_samples m) by (destruct ks as [n a]; cbn [fst snd] in *; subst n; eapply In_unique; eauto).
      rewrite Hsm, Vs, Es. apply read_full_idem.
    - exfalso. eapply (find_some_if P_samples_alf _ _ (PGlob "spikes.samples" ".npy")); [exact Os| |exact (pos_samples (ci_label ci))|exact Eks]. now left. }
  (* the other attributes *)
  pose proof (load_attributes _ _ _ _ _ _ _ _ Hl2) as A2. cbv zeta in A2.
  destruct A2 as (_ & (at2 & Sst2 & Est2) & (ac2 & Esc2 & Hsc2) & (acm & Scm & Ecm) & (apo & Spo & Epo) & _).
  pose proof (load_attributes _ _ _ _ _ _ _ _ Hl) as A1. cbv zeta in A1.
  destruct A1 as (_ & (at1 & Sst1 & Est1) & (ac1 & Esc1 & Hsc1) & _ & (apo1 & Spo1 & Epo1) & _). fold m in Est1, Esc1, Epo1.
  destruct (dtypes_thm _ _ _ Hc) as (t1 & c1 & Lt & Lc & Dt & Dc).
  destruct (src_wf_inv _ _ Hwf) as (W1 & W2 & _). fold m in W1, W2.
  pose proof (file_ok_lookup _ _ _ _ W1 Lc) as Vc. pose proof (file_ok_lookup _ _ _ _ W2 Lt) as Vtm.
  (* source side: the KS-named files feed the source model *)
  assert (Sc1 : src P_sclusters (ci_src ci) = Some c1).
  { unfold src, P_sclusters. cbn [find_path]. now rewrite (find1_exact _ _ _ Lc). }
  assert (St1 : src P_stemplates (ci_src ci) = Some t1).
  { unfold src, P_stemplates. cbn [find_path]. now rewrite (find1_exact _ _ _ Lt). }
  rewrite Sc1 in Hsc1. subst ac1. rewrite St1 in Sst1. injection Sst1 as <-.
  (* clusters *)
  assert (T3 : l_sclusters m2 = l_sclusters m).
  { unfold src in Hsc2. destruct (find_path P_sclusters (co_npy r)) as [kc|] eqn:Ekc; cbn [option_map] in Hsc2.
    - destruct (find_in_out _ _ _ _ _ _ only_sclusters Hc Ekc) as (Hinc & a1 & Hnc1 & _).
      assert (Vcl : snd kc = to_u16 (copy_npy true c1)) by (destruct kc as [n a]; cbn [fst snd] in *; subst n; now apply Dc).
      subst ac2. rewrite Esc2, Esc1, Vcl. unfold astype, read_full, squeeze, scrub_arr. cbn [a_dt a_shape a_data].
      f_equal.
      + rewrite to_u16_shape. apply (vec_copy_shape _ _ Vc).
      + assert (Hd : a_data (copy_npy true c1) = a_data c1) by (unfold copy_npy; destruct (a_shape c1) as [|? [|[|[?|?|]|?] [|? ?]]]; reflexivity).
        unfold to_u16 at 1. cbn [a_data]. rewrite Hd.
        change (map scrub (a_data (to_u16 c1)) = map scrub (a_data c1)). apply cast_scrub_data.
        rewrite Esc1 in Hic. exact Hic.
    - exfalso. destruct (out_u16 _ _ _ Hc) as (_ & a_c & _ & _ & _ & Hcl).
      eapply (find_some_if P_sclusters _ _ (PGlob "spikes.clusters" ".npy")); [exact Hcl| |exact (pos_clusters (ci_label ci))|exact Ekc]. right. now left. }
  (* templates *)
  assert (T4 : a_dt (l_stemplates m2) = DU16 /\ a_shape (l_stemplates m2) = a_shape (l_stemplates m) /\
               a_data (l_stemplates m2) = a_data (l_stemplates m)).
  { unfold src in Sst2. destruct (find_path P_stemplates (co_npy r)) as [ktm|] eqn:Ektm; cbn [option_map] in Sst2; [|discriminate].
    injection Sst2 as <-. destruct (find_in_out _ _ _ _ _ _ only_stemplates Hc Ektm) as (Hintm & a1 & Hntm & _).
    assert (Vtl : snd ktm = to_u16 (copy_npy true t1)) by (destruct ktm as [n a]; cbn [fst snd] in *; subst n; now apply Dt).
    rewrite Est2, Vtl. change (dt_is_float (a_dt (to_u16 (copy_npy true t1)))) with false. cbv iota.
    assert (Hd : a_data (copy_npy true t1) = a_data t1) by (unfold copy_npy; destruct (a_shape t1) as [|? [|[|[?|?|]|?] [|? ?]]]; reflexivity).
    assert (Hsrc : a_shape (l_stemplates m) = filter (fun d => negb (d =? 1)) (a_shape t1) /\
                   a_data (l_stemplates m) = map scrub (a_data t1))
      by (rewrite Est1; destruct (dt_is_float (a_dt t1)); split; reflexivity).
    destruct Hsrc as [Hs1 Hs2]. split; [reflexivity|]. split.
    - rewrite read_full_shape, to_u16_shape, Hs1. apply (vec_copy_shape _ _ Vtm).
    - rewrite read_full_data, Hs2.
      replace (a_data (to_u16 (copy_npy true t1))) with (a_data (to_u16 t1)) by (unfold to_u16; cbn [a_data]; now rewrite Hd).
      apply cast_scrub_data. unfold ids_ok in *. cbn [a_data]. now rewrite <- Hs2. }
  (* positions *)
  assert (T5 : l_pos m2 = l_pos m).
  { unfold src in Spo. destruct (find_path P_pos (co_npy r)) as [kp|] eqn:Ekp; cbn [option_map] in Spo; [|discriminate].
    injection Spo as <-. destruct (find_in_out _ _ _ _ _ _ only_pos Hc Ekp) as (Hinp & a1 & Hnp & Hin0).
    destruct (out0_copied o ci "channel_positions.npy" _ false _ ltac:(cbn; tauto) Hin0) as (p1 & Lp & ->).
    rewrite lookup_add_subset in Lp by reflexivity.
    pose proof (out_plain _ _ _ _ _ Hc Hin0 ltac:(discriminate) ltac:(discriminate)) as Op.
    assert (Vp : snd kp = p1) by (destruct kp as [n a]; cbn [fst snd] in *; subst n; eapply In_unique; eauto).
    assert (Sp1 : src P_pos (ci_src ci) = Some p1).
    { unfold src, P_pos. cbn [find_path]. now rewrite (find1_exact _ _ _ Lp). }
    rewrite Sp1 in Spo1. injection Spo1 as <-. now rewrite Epo, Epo1, Vp. }
  (* channel map *)
  assert (T6 : l_cmap m2 = rawind_arr m).
  { unfold src in Scm. destruct (find_path P_cmap (co_npy r)) as [kc|] eqn:Ekc; cbn [option_map] in Scm; [|discriminate].
    injection Scm as <-. destruct (find_in_out _ _ _ _ _ _ only_cmap Hc Ekc) as (Hinc & a1 & Hncm & _).
    assert (Vr : snd kc = rawind_arr m) by (destruct kc as [n a]; cbn [fst snd] in *; subst n; eapply In_unique; eauto).
    rewrite Ecm, Vr. rewrite read_full_id.
    - unfold rawind_arr, atleast_1d. cbn [a_shape]. now rewrite Shp.
    - unfold rawind_arr. cbn [a_shape]. rewrite Shp. intros d [<-|[]]. exact Hnc.
    - unfold rawind_arr. cbn [a_data]. apply Forall_forall. intros t Ht. apply in_map_iff in Ht as (z & <- & _).
      unfold tz, tnorm. destruct (Z.to_nat (Z.log2 (Z.abs z)) + 1)%nat; [reflexivity|].
      generalize (S n). intros f. generalize 0 at 1. revert z. induction f as [|f IH]; intros z e; cbn [strip2]; [reflexivity|].
      destruct (z =? 0); [reflexivity|]. destruct (Z.even z); [apply IH|reflexivity]. }
  repeat split; try assumption; apply T4.
Qed.
End Roundtrip.
