(* C13/Fast.v -- stage 3: what the comparator needs for tables of tens of thousands of rows (cluster ids near 65535):
   printers (run-length encoded data, the list 0 .. n-1) and a linear fast path of the uuid checker, proved equal to
   the checker of Spec.v (which is quadratic: 65536 identifiers = 2 * 10^9 comparisons). *)
From Coq Require Import ZArith List Bool String Lia.
From PV Require Import Base.Tok C04.Model C13.Model C13.Spec.
Import ListNotations.
Open Scope list_scope.
Open Scope Z_scope.

(* each block repeated n times *)
Definition rle (l : list (Z * list tok)) : list tok := flat_map (fun p => Z.iter (fst p) (app (snd p)) []) l.
(* 0 .. n-1 with a binary counter (Z.of_nat of a unary k costs k steps: map Z.of_nat (seq 0 n) is quadratic) *)
Fixpoint zrange_from (fuel : nat) (z : Z) : list Z := match fuel with O => [] | S f => z :: zrange_from f (z + 1) end.
Definition zrange (n : Z) : list Z := zrange_from (Z.to_nat n) 0.

(* distinct identifiers are observed as the indices of their first occurrence: 0, 1, 2, ... *)
Definition uuids_fast (n : Z) (ids : list Z) : bool :=
  (* `if`, not `||`: vm_compute is call-by-value, a disjunction would still run the quadratic test *)
  (Z.of_nat (List.length ids) =? n) && (if zl_eqb ids (zrange (Z.of_nat (List.length ids))) then true else nodup_b ids).

Lemma zl_eqb_true a : forall b, zl_eqb a b = true -> a = b.
Proof.
  induction a as [|x a IH]; intros [|y b]; cbn [zl_eqb]; try discriminate; [reflexivity|].
  rewrite andb_true_iff, Z.eqb_eq. intros [-> H]. f_equal. now apply IH.
Qed.
Lemma zrange_from_ge f : forall z x, In x (zrange_from f z) -> z <= x.
Proof. induction f as [|f IH]; intros z x; cbn [zrange_from In]; [tauto|]. intros [<-|H]; [lia|]. apply IH in H. lia. Qed.
Lemma zrange_nodup n : NoDup (zrange n).
Proof.
  unfold zrange. generalize 0. induction (Z.to_nat n) as [|f IH]; intros z; cbn [zrange_from]; constructor; [|apply IH].
  intros H. apply zrange_from_ge in H. lia.
Qed.
Lemma uuids_fast_eq n ids : uuids_fast n ids = uuids_b n ids.
Proof.
  unfold uuids_fast, uuids_b. f_equal. destruct (zl_eqb ids _) eqn:E; [|reflexivity].
  apply zl_eqb_true in E. symmetry. apply nodup_b_spec. rewrite E. apply zrange_nodup.
Qed.

(* compress_spikes_dtypes alone, on the .npy files of a directory: for attribute in ['templates', 'clusters'] -- the first
   file matching spikes.<attribute>.*npy is re-saved as uint16; StopIteration (None) when a glob matches nothing.  The
   second component is the directory as it is left: after a StopIteration on 'clusters' the templates file is
   already converted. *)
Definition compress_model (fs : files) : option files * files :=
  match compress_first "spikes.templates." fs with
  | None => (None, fs)
  | Some f2 => match compress_first "spikes.clusters." f2 with
               | None => (None, f2)
               | Some f3 => (Some f3, f3)
               end
  end.
