(* C13/Proofs5.v -- stage 3.
   (1) Totality / error exits of convert: which exit is taken is a function of the input alone (conv_pre), for every
       oracle; inside the five guards convert returns a value.
   (2) force: copy_files(force) with _copy_if_possible's "skip when the destination exists" transcribed; in a fresh
       output directory (holding only what convert() made itself) both values of force give the copy the model uses. *)
From Coq Require Import ZArith List Bool String Ascii Lia.
From PV Require Import Base.Tok Base.TokArith C04.Model C13.Model C13.Spec C13.Proofs1 C13.Proofs2 C13.Fast.
Import ListNotations.
Open Scope string_scope.
Open Scope list_scope.
Open Scope Z_scope.

(* ================= (1) totality ================= *)
(* the exit convert() takes, None = it converts; tested in the order of the code *)
Definition conv_pre (ci : conv_in) : option cerr :=
  if ci_same ci then Some CRefused else
  if negb (is_none (l_tcols (ci_m ci))) then Some CSparse else
  if is_none (l_amps (ci_m ci)) then Some CNoAmps else
  if has "clusters.channels.npy" (ci_src ci) then Some CMissing else
  if negb (has "spike_templates.npy" (ci_src ci) && has "spike_clusters.npy" (ci_src ci)) then Some CStop else None.

Lemma compress_first_some pre fs : (exists kv, In kv fs /\ glob1 pre "npy" (fst kv) = true) -> compress_first pre fs <> None.
Proof.
  induction fs as [|kv r IH]; intros (x & Hin & G); [destruct Hin|]. cbn [compress_first].
  destruct (glob1 pre "npy" (fst kv)) eqn:E; [discriminate|].
  destruct Hin as [->|Hin]; [congruence|]. destruct (compress_first pre r); [discriminate|].
  exfalso. apply IH; [|reflexivity]. now exists x.
Qed.
Lemma compress_first_none pre fs : (forall kv, In kv fs -> glob1 pre "npy" (fst kv) = false) -> compress_first pre fs = None.
Proof.
  induction fs as [|kv r IH]; intros H; [reflexivity|]. cbn [compress_first].
  rewrite (H kv (or_introl eq_refl)). rewrite IH; [reflexivity|]. intros x Hx. apply H. now right.
Qed.

Lemma pos_c_templates L : glob1 "spikes.templates." "npy" (relabel L "spikes.templates.npy") = true.
Proof.
  destruct L as [|c L']; [vm_compute; reflexivity|].
  assert (E : relabel (String c L') "spikes.templates.npy" = append "spikes.templates." (append (append (String c L') ".") "npy")).
  { change (relabel (String c L') "spikes.templates.npy") with (append "spikes.templates" (append (String "."%char (String c L')) ".npy")).
    rewrite append_assoc. reflexivity. }
  rewrite E. apply glob1_app.
Qed.
Lemma pos_c_clusters L : glob1 "spikes.clusters." "npy" (relabel L "spikes.clusters.npy") = true.
Proof.
  destruct L as [|c L']; [vm_compute; reflexivity|].
  assert (E : relabel (String c L') "spikes.clusters.npy" = append "spikes.clusters." (append (append (String c L') ".") "npy")).
  { change (relabel (String c L') "spikes.clusters.npy") with (append "spikes.clusters" (append (String "."%char (String c L')) ".npy")).
    rewrite append_assoc. reflexivity. }
  rewrite E. apply glob1_app.
Qed.

Lemma has_lookup {V} k (l : list (string * V)) : has k l = true <-> exists v, lookup k l = Some v.
Proof. unfold has. destruct (lookup k l); split; try discriminate; eauto. intros [v H]. discriminate. Qed.

(* spikes.templates.npy / spikes.clusters.npy are produced exactly when the source has the id vectors *)
Lemma out0_has_ids o ci f0 n : In (f0, n, true) FILE_RENAMES -> str_in f0 SUBSET = false ->
  ((exists a, In (n, a) (out0_npy o ci)) <-> has f0 (ci_src ci) = true).
Proof.
  intros He Hs. rewrite has_lookup. split.
  - intros (a & Hin). destruct (out0_copied _ _ _ _ _ _ He Hin) as (a1 & El & _).
    rewrite lookup_add_subset in El by exact Hs. eauto.
  - intros (a1 & El). exists (copy_npy true a1). eapply out0_copied_in; [exact He|]. now rewrite lookup_add_subset.
Qed.

Lemma renamed_in L (fs : files) n0 a0 : In (n0, a0) fs -> In (relabel L n0, a0) (rename_with_label L fs).
Proof. intros H. unfold rename_with_label. apply in_map_iff. now exists (n0, a0). Qed.

Theorem convert_total o ci :
  match conv_pre ci with
  | Some e => convert o ci = CErr e
  | None => exists r, convert o ci = COk r
  end.
Proof.
  unfold conv_pre, convert. destruct (ci_same ci); [reflexivity|].
  destruct (negb (is_none (l_tcols (ci_m ci)))); [reflexivity|].
  destruct (is_none (l_amps (ci_m ci))); [reflexivity|].
  destruct (has "clusters.channels.npy" (ci_src ci)); [reflexivity|].
  assert (Et : In ("spike_templates.npy", "spikes.templates.npy", true) FILE_RENAMES) by (cbn; tauto).
  assert (Ec : In ("spike_clusters.npy", "spikes.clusters.npy", true) FILE_RENAMES) by (cbn; tauto).
  pose proof (out0_has_ids o ci _ _ Et eq_refl) as Ht. pose proof (out0_has_ids o ci _ _ Ec eq_refl) as Hc.
  set (npy1 := rename_with_label (ci_label ci) (out0_npy o ci)).
  destruct (has "spike_templates.npy" (ci_src ci)) eqn:E1; cbn [andb negb].
  - destruct (proj2 Ht eq_refl) as (a_t & Hin_t).
    destruct (compress_first "spikes.templates." npy1) as [npy2|] eqn:C1.
    2:{ exfalso. revert C1. apply compress_first_some. exists (relabel (ci_label ci) "spikes.templates.npy", a_t).
        split; [now apply renamed_in|apply pos_c_templates]. }
    pose proof (compress_first_rel _ _ _ C1) as R. pose proof (crel_names _ _ _ R) as Hn.
    destruct (has "spike_clusters.npy" (ci_src ci)) eqn:E2; cbn [negb].
    + destruct (proj2 Hc eq_refl) as (a_c & Hin_c).
      destruct (compress_first "spikes.clusters." npy2) as [npy3|] eqn:C2; [eexists; reflexivity|].
      exfalso. revert C2. apply compress_first_some.
      destruct (Forall2_In_l _ _ _ _ R (renamed_in (ci_label ci) _ _ _ Hin_c)) as ([n2 a2] & Hin2 & Hn2 & _).
      cbn [fst snd] in Hn2. subst n2. exists (relabel (ci_label ci) "spikes.clusters.npy", a2). split; [exact Hin2|apply pos_c_clusters].
    + rewrite compress_first_none; [reflexivity|]. intros [n2 a2] Hin2.
      destruct (Forall2_In_r _ _ _ _ R Hin2) as ([n1 a1] & Hin1 & Hn1 & _). cbn [fst snd] in *. subst n2.
      unfold npy1, rename_with_label in Hin1. apply in_map_iff in Hin1 as ([n0 a0] & Heq & Hin0). cbn [fst snd] in Heq.
      injection Heq as <- <-. destruct (glob1 _ _ _) eqn:G; [|reflexivity]. exfalso.
      assert (n0 = "spikes.clusters.npy") by (eapply glob_clusters_only; [eapply names_out0; exact Hin0|exact G]). subst n0.
      assert (true = false) by (rewrite <- (proj1 Hc); eauto). discriminate.
  - rewrite compress_first_none; [reflexivity|]. intros [n1 a1] Hin1.
    unfold npy1, rename_with_label in Hin1. apply in_map_iff in Hin1 as ([n0 a0] & Heq & Hin0). cbn [fst snd] in Heq.
    injection Heq as <- <-. cbn [fst]. destruct (glob1 _ _ _) eqn:G; [|reflexivity]. exfalso.
    assert (n0 = "spikes.templates.npy") by (eapply glob_templates_only; [eapply names_out0; exact Hin0|exact G]). subst n0.
    assert (true = false) by (rewrite <- (proj1 Ht); eauto). discriminate.
Qed.

(* ================= (1b) compress_spikes_dtypes on a bare directory (the InCompress route of the comparator) ================= *)
(* what one file may become: itself, or -- when one of the two globs selects it -- its uint16 cast *)
Definition cimage (kv kv' : string * arr) : Prop :=
  fst kv' = fst kv /\
  (snd kv' = snd kv \/
   ((glob1 "spikes.templates." "npy" (fst kv) = true \/ glob1 "spikes.clusters." "npy" (fst kv) = true) /\ snd kv' = to_u16 (snd kv))).

Theorem compress_thm fs out : fst (compress_model fs) = Some out ->
  (* same names in the same order, every file itself or its cast; files no glob selects are untouched *)
  Forall2 cimage fs out /\
  (* exactly the FIRST match of each glob is cast *)
  (exists a t b, fs = a ++ t :: b /\ glob1 "spikes.templates." "npy" (fst t) = true /\
                 (forall x, In x a -> glob1 "spikes.templates." "npy" (fst x) = false) /\ In (fst t, to_u16 (snd t)) out) /\
  (exists c, In c fs /\ glob1 "spikes.clusters." "npy" (fst c) = true /\ In (fst c, to_u16 (snd c)) out).
Proof.
  unfold compress_model. destruct (compress_first "spikes.templates." fs) as [f2|] eqn:C1; [|discriminate].
  destruct (compress_first "spikes.clusters." f2) as [f3|] eqn:C2; [|discriminate]. cbn [fst]. intros H. injection H as <-.
  pose proof (compress_first_rel _ _ _ C1) as R1. pose proof (compress_first_rel _ _ _ C2) as R2.
  destruct (compress_first_spec _ _ _ C1) as (a & t & b & Ef & Ef2 & Gt & Ha).
  destruct (compress_first_spec _ _ _ C2) as (a' & c & b' & Ef2' & Ef3 & Gc & _).
  split; [|split].
  - clear -R1 R2. revert f2 f3 R1 R2. induction fs as [|kv r IH]; intros f2 f3 R1 R2.
    + inversion R1; subst. inversion R2; subst. constructor.
    + inversion R1 as [|? kv2 ? r2 H1 T1]; subst. inversion R2 as [|? kv3 ? r3 H2 T2]; subst. constructor; [|eapply IH; eauto].
      destruct H1 as [N1 V1], H2 as [N2 V2]. split; [congruence|].
      destruct V1 as [V1|[G1 V1]], V2 as [V2|[G2 V2]].
      * left. congruence.
      * right. rewrite N1 in G2. split; [now right|]. congruence.
      * right. split; [now left|]. congruence.
      * exfalso. rewrite N1 in G2. exact (globs_excl _ G1 G2).
  - exists a, t, b. repeat split; auto.
    assert (Hin2 : In (fst t, to_u16 (snd t)) f2) by (rewrite Ef2; apply in_or_app; right; now left).
    destruct (Forall2_In_l _ _ _ _ R2 Hin2) as ([n3 a3] & Hin3 & Hn3 & Ha3). cbn [fst snd] in *. subst n3.
    destruct Ha3 as [->|[G3 _]]; [exact Hin3|]. exfalso. exact (globs_excl _ Gt G3).
  - assert (Hc2 : In c f2) by (rewrite Ef2'; apply in_or_app; right; now left).
    destruct (Forall2_In_r _ _ _ _ R1 Hc2) as ([n1 a1] & Hin1 & Hn1 & Ha1). cbn [fst snd] in *.
    assert (Es : snd c = a1) by (destruct Ha1 as [E|[G1 _]]; [exact E|exfalso; rewrite Hn1 in Gc; exact (globs_excl _ G1 Gc)]).
    exists (n1, a1). cbn [fst snd]. subst n1 a1. split; [exact Hin1|]. split; [exact Gc|].
    rewrite Ef3. apply in_or_app. right. now left.
Qed.

(* ================= (2) force ================= *)
(* _copy_if_possible(f0, f1, force) followed by the squeeze branch of copy_files, on the .npy files of the output
   directory `out`: the copy is skipped when f1 exists and not force; the squeeze branch runs whenever f0 exists,
   squeeze is set and the header is 2-d with last axis 1 -- also after a skipped copy (np.save overwrites f1) *)
Definition is_n1 (a : arr) : bool := match a_shape a with [_; 1] => true | _ => false end.
Definition copy_step (force : bool) (src : files) (out : files) (e : string * string * bool) : files :=
  match lookup (fst (fst e)) src with
  | None => out                                            (* "Path does not exist, skipping" *)
  | Some a =>
      let n := snd (fst e) in
      let out1 := if has n out && negb force then out else fwrite n a out in       (* shutil.copy *)
      if snd e && is_n1 a then fwrite n (squeeze a) out1 else out1                  (* np.save(f1, d.squeeze()) *)
  end.
Definition copy_files_f (force : bool) (src out : files) : files := fold_left (copy_step force src) FILE_RENAMES out.

Lemma fwrite_new {V} k (v : V) l : has k l = false -> fwrite k v l = l ++ [(k, v)].
Proof.
  unfold has. induction l as [|[k' v'] r IH]; cbn [fwrite lookup app]; [reflexivity|].
  destruct (String.eqb k k'); [discriminate|]. intros H. now rewrite IH.
Qed.
Lemma fwrite_last {V} k (v v' : V) l : has k l = false -> fwrite k v' (l ++ [(k, v)]) = l ++ [(k, v')].
Proof.
  unfold has. induction l as [|[k' v0] r IH]; cbn [fwrite lookup app]; [now rewrite String.eqb_refl|].
  destruct (String.eqb k k'); [discriminate|]. intros H. now rewrite IH.
Qed.
Lemma has_app {V} k (a b : list (string * V)) : has k (a ++ b) = has k a || has k b.
Proof.
  unfold has. induction a as [|[k' v] r IH]; cbn [lookup app]; [now destruct (lookup k b)|].
  destruct (String.eqb k k'); [reflexivity|exact IH].
Qed.
Lemma copy_npy_n1 sq a : copy_npy sq a = if sq && is_n1 a then squeeze a else a.
Proof.
  unfold copy_npy, is_n1. destruct sq; [|reflexivity]. cbn [andb].
  destruct (a_shape a) as [|x [|y [|z r]]]; try reflexivity; destruct y as [|p|p]; try reflexivity; destruct p; reflexivity.
Qed.

(* one step on a directory that does not hold the destination yet: the entry is appended, whatever force *)
Lemma copy_step_new force src out e : has (snd (fst e)) out = false ->
  copy_step force src out e =
  out ++ match lookup (fst (fst e)) src with Some a => [(snd (fst e), copy_npy (snd e) a)] | None => [] end.
Proof.
  intros H. unfold copy_step. destruct (lookup (fst (fst e)) src) as [a|]; [|now rewrite app_nil_r].
  rewrite H. cbn [andb]. rewrite copy_npy_n1, (fwrite_new _ a _ H).
  destruct (snd e && is_n1 a); [now apply fwrite_last|reflexivity].
Qed.

Lemma copy_fold force src : forall (es : list (string * string * bool)) out,
  NoDup (map (fun e => snd (fst e)) es) -> (forall e, In e es -> has (snd (fst e)) out = false) ->
  fold_left (copy_step force src) es out =
  out ++ flat_map (fun e => match lookup (fst (fst e)) src with Some a => [(snd (fst e), copy_npy (snd e) a)] | None => [] end) es.
Proof.
  induction es as [|e es IH]; intros out Hnd Hout; cbn [fold_left flat_map]; [now rewrite app_nil_r|].
  inversion Hnd as [|? ? Hn Hd]; subst. rewrite (copy_step_new force src out e (Hout e (or_introl eq_refl))).
  rewrite IH; [now rewrite <- app_assoc|exact Hd|].
  intros e' He'. rewrite has_app, (Hout e' (or_intror He')). cbn [orb].
  destruct (lookup (fst (fst e)) src); [|reflexivity]. unfold has. cbn [lookup].
  destruct (String.eqb_spec (snd (fst e')) (snd (fst e))) as [E|]; [|reflexivity].
  exfalso. apply Hn. rewrite <- E. apply in_map_iff. now exists e'.
Qed.

(* In a fresh output directory -- it holds exactly the files convert() made itself -- copy_files(force) writes the same
   directory for force = False and force = True: the one the model uses (out0_npy). *)
Theorem force_fresh_thm force o ci :
  copy_files_f force (add_subset o (ci_has_raw ci) (ci_src ci)) (made o (ci_m ci) (ci_src ci)) = out0_npy o ci.
Proof.
  unfold copy_files_f, out0_npy, copied_npy. apply copy_fold.
  - apply str_nodup_NoDup. vm_compute. reflexivity.
  - intros e He. destruct (has (snd (fst e)) (made o (ci_m ci) (ci_src ci))) eqn:H; [|reflexivity]. exfalso.
    apply has_lookup in H as (a & Hl). apply lookup_In in Hl.
    pose proof (out0_names_nodup o ci) as Hnd. unfold out0_npy in Hnd.
    assert (Hmn : In (snd (fst e)) MADE_NAMES).
    { unfold made, made_cluster, made_channel, made_spikes, made_depths, mk in Hl.
      destruct (has "clusters.channels.npy" (ci_src ci)), (has "clusters.peakToTrough.npy" (ci_src ci));
        cbn [app In] in Hl;
        repeat (destruct Hl as [Hl|Hl]; [injection Hl as <- _; apply existsb_str_In; vm_compute; reflexivity|]); contradiction. }
    assert (Hcn : In (snd (fst e)) (map (fun e : string * string * bool => snd (fst e)) FILE_RENAMES)) by (apply in_map_iff; now exists e).
    assert (Hall : NoDup all_out_names) by (apply str_nodup_NoDup; vm_compute; reflexivity).
    unfold all_out_names in Hall. clear -Hmn Hcn Hall. induction MADE_NAMES as [|y l IH]; [contradiction|].
    cbn [app] in Hall. inversion Hall as [|? ? Hn Hd]; subst. destruct Hmn as [->|Hmn].
    + apply Hn. apply in_or_app. now right.
    + now apply IH.
Qed.

(* ... while on a directory that already holds a destination, force matters (outside the statement: "fresh") *)
Example force_matters :
  let src := [("channel_positions.npy", mkarr DF64 [2; 2] [TNum 1 0; TNum 0 0; TNum 0 0; TNum 1 0])] in
  let old := [("channels.localCoordinates.npy", mkarr DF64 [1] [TNum 7 0])] in
  copy_files_f false src old = old /\
  copy_files_f true src old = [("channels.localCoordinates.npy", mkarr DF64 [2; 2] [TNum 1 0; TNum 0 0; TNum 0 0; TNum 1 0])].
Proof. vm_compute. split; reflexivity. Qed.
