(* C13/Proofs2.v -- strings (suffix, label insertion), distinct output names, the determined output files
   (spikes.times / samples / clusters / templates, channels.rawInd / localCoordinates), units, dtypes. *)
From Coq Require Import ZArith List Bool String Ascii Lia.
From PV Require Import Base.Tok Base.TokArith C04.Model C04.Proofs C13.Model C13.Spec C13.Proofs1.
Import ListNotations.
Open Scope string_scope.
Open Scope list_scope.
Open Scope Z_scope.

(* ---------- strings ---------- *)
Lemma append_assoc a b c : append (append a b) c = append a (append b c).
Proof. induction a as [|x a IH]; cbn [append]; [reflexivity|now rewrite IH]. Qed.
Lemma append_nil_r a : append a "" = a.
Proof. induction a as [|x a IH]; cbn [append]; [reflexivity|now rewrite IH]. Qed.
Lemma length_append a b : String.length (append a b) = (String.length a + String.length b)%nat.
Proof. induction a as [|x a IH]; cbn [append String.length]; [reflexivity|now rewrite IH]. Qed.
Lemma starts_with_app p x : starts_with p (append p x) = true.
Proof. induction p as [|a p IH]; cbn [append starts_with]; [reflexivity|]. now rewrite Ascii.eqb_refl, IH. Qed.
Lemma rev_acc_app s acc : str_rev_acc s acc = append (str_rev_acc s "") acc.
Proof.
  revert acc; induction s as [|a s IH]; intros acc; cbn [str_rev_acc]; [reflexivity|].
  rewrite (IH (String a acc)), (IH (String a "")), append_assoc. reflexivity.
Qed.
Lemma rev_acc_append x s acc : str_rev_acc (append x s) acc = str_rev_acc s (str_rev_acc x acc).
Proof. revert acc; induction x as [|a x IH]; intros acc; cbn [append str_rev_acc]; [reflexivity|apply IH]. Qed.
Lemma ends_with_app s x : ends_with s (append x s) = true.
Proof.
  unfold ends_with, str_rev. rewrite rev_acc_append, (rev_acc_app s (str_rev_acc x "")). apply starts_with_app.
Qed.
Lemma glob1_app pre mid suf : glob1 pre suf (append pre (append mid suf)) = true.
Proof.
  unfold glob1. rewrite starts_with_app. rewrite <- append_assoc, ends_with_app. cbn [andb].
  rewrite !length_append. apply Nat.leb_le. lia.
Qed.

(* rsplit_dot splits at the last dot *)
Lemma rsplit_dot_none s : rsplit_dot s = None -> has_dot s = false.
Proof.
  induction s as [|c r IH]; cbn [rsplit_dot has_dot]; [reflexivity|].
  destruct (rsplit_dot r) as [[st ex]|]; [discriminate|].
  destruct (Ascii.eqb c "."); [discriminate|]. intros _. cbn [orb]. now apply IH.
Qed.
Lemma rsplit_dot_some s st ex : rsplit_dot s = Some (st, ex) ->
  s = append st ex /\ exists e, ex = String "."%char e /\ has_dot e = false.
Proof.
  revert st ex; induction s as [|c r IH]; intros st ex; cbn [rsplit_dot]; [discriminate|].
  destruct (rsplit_dot r) as [[st' ex']|] eqn:E.
  - intros H; injection H as <- <-. destruct (IH _ _ eq_refl) as (-> & e & -> & He).
    split; [reflexivity|]. exists e. auto.
  - destruct (Ascii.eqb_spec c "."%char) as [->|]; [|discriminate].
    intros H; injection H as <- <-. split; [reflexivity|]. exists r. split; [reflexivity|now apply rsplit_dot_none].
Qed.

(* with_label inserts ".<label>" before the extension *)
Lemma with_label_spec L n st e :
  n = append st (String "."%char e) -> has_dot e = false -> e <> "" -> st <> "" ->
  with_label L n = append st (append "." (append L (String "."%char e))).
Proof.
  intros -> He Hne Hst. unfold with_label, split_ext.
  assert (R : rsplit_dot (append st (String "."%char e)) = Some (st, String "."%char e)).
  { clear Hst. induction st as [|c st IH]; cbn [append rsplit_dot].
    - destruct (rsplit_dot e) as [[a b]|] eqn:E.
      + apply rsplit_dot_some in E as (-> & e' & -> & _). exfalso.
        clear -He. induction a as [|x a IH]; cbn [append has_dot] in He.
        * now rewrite Ascii.eqb_refl in He.
        * apply orb_false_iff in He as [_ He]. now apply IH.
      + now rewrite Ascii.eqb_refl.
    - now rewrite IH. }
  rewrite R. destruct st as [|c st]; [congruence|]. cbn [String.eqb orb].
  destruct e as [|x e]; [congruence|]. cbn [String.length Nat.eqb fst snd]. reflexivity.
Qed.

Lemma labelled_true n : labelled n = true -> exists p, In p LABEL_PREFIXES /\ starts_with p n = true.
Proof. unfold labelled. intros H. apply existsb_exists in H. exact H. Qed.

(* ---------- distinct names ---------- *)
Lemma str_nodup_NoDup l : str_nodup l = true -> NoDup l.
Proof.
  induction l as [|x r IH]; cbn [str_nodup]; [constructor|].
  rewrite andb_true_iff, negb_true_iff. intros [H1 H2]. constructor; [|now apply IH].
  intros Hin. assert (existsb (String.eqb x) r = true) by (apply existsb_exists; exists x; split; [exact Hin|apply String.eqb_refl]).
  congruence.
Qed.

Lemma NoDup_app_intro {A} (l1 l2 : list A) :
  NoDup l1 -> NoDup l2 -> (forall x, In x l1 -> In x l2 -> False) -> NoDup (l1 ++ l2).
Proof.
  induction l1 as [|x l1 IH]; cbn [app]; [auto|]. intros H1 H2 Hd. inversion H1 as [|? ? Hn Hd1]; subst.
  constructor.
  - rewrite in_app_iff. intros [H|H]; [contradiction|]. apply (Hd x); [now left|exact H].
  - apply IH; auto. intros y Hy1 Hy2. apply (Hd y); [now right|exact Hy2].
Qed.

Lemma NoDup_map_inj_in {A B} (f : A -> B) l :
  (forall x y, In x l -> In y l -> f x = f y -> x = y) -> NoDup l -> NoDup (map f l).
Proof.
  induction l as [|a l IH]; cbn [map]; [constructor|]. intros Hinj Hnd. inversion Hnd as [|? ? Hn Hd]; subst.
  constructor.
  - intros Hin. apply in_map_iff in Hin as (y & Hy & Hyl). apply Hn.
    rewrite (Hinj a y); [exact Hyl|now left|now right|now symmetry].
  - apply IH; [|exact Hd]. intros x y Hx Hy. apply Hinj; now right.
Qed.

Lemma copied_names_nodup (src : files) : NoDup (map fst (copied_npy src)).
Proof.
  unfold copied_npy.
  assert (G : forall l : list (string * string * bool), NoDup (map (fun e => snd (fst e)) l) ->
            NoDup (map fst (flat_map (fun e => match lookup (fst (fst e)) src with
                                               | Some a => [(snd (fst e), copy_npy (snd e) a)]
                                               | None => [] end) l)) /\
            forall n, In n (map fst (flat_map (fun e => match lookup (fst (fst e)) src with
                                               | Some a => [(snd (fst e), copy_npy (snd e) a)]
                                               | None => [] end) l)) -> In n (map (fun e => snd (fst e)) l)).
  { induction l as [|e l IH]; cbn [map flat_map]; [intros _; split; [constructor|tauto]|].
    intros Hnd. inversion Hnd as [|? ? Hn Hd]; subst. destruct (IH Hd) as [IH1 IH2].
    destruct (lookup (fst (fst e)) src); cbn [app map fst].
    - split; [constructor; [intros Hin; apply Hn; now apply IH2|exact IH1]|].
      intros n [<-|Hin]; [now left|right; now apply IH2].
    - split; [exact IH1|]. intros n Hin. right. now apply IH2. }
  apply G. apply str_nodup_NoDup. vm_compute. reflexivity.
Qed.

Lemma out0_names_nodup o ci : NoDup (map fst (out0_npy o ci)).
Proof.
  unfold out0_npy. rewrite map_app. apply NoDup_app_intro.
  - unfold made, made_cluster, made_channel, made_spikes, made_depths, mk.
    destruct (has "clusters.channels.npy" (ci_src ci)), (has "clusters.peakToTrough.npy" (ci_src ci));
      cbn [app map fst]; apply str_nodup_NoDup; vm_compute; reflexivity.
  - apply copied_names_nodup.
  - intros x H1 H2. apply in_map_iff in H1 as ([n a] & <- & H1). apply in_map_iff in H2 as ([n' a'] & Heq & H2).
    cbn [fst] in *. subst n'. apply copied_npy_In in H2 as (f0 & sq & a1 & He & _ & _).
    assert (Hm : In n MADE_NAMES).
    { unfold made, made_cluster, made_channel, made_spikes, made_depths, mk in H1.
      destruct (has "clusters.channels.npy" (ci_src ci)), (has "clusters.peakToTrough.npy" (ci_src ci));
        cbn [app In] in H1;
        repeat (destruct H1 as [H1|H1]; [injection H1 as <- _; apply existsb_str_In; vm_compute; reflexivity|]); contradiction. }
    assert (Hc : In n (map (fun e => snd (fst e)) FILE_RENAMES)) by (apply in_map_iff; exists (f0, n, sq); auto).
    assert (Hnd : NoDup all_out_names) by (apply str_nodup_NoDup; vm_compute; reflexivity).
    unfold all_out_names in Hnd. clear -Hm Hc Hnd. induction MADE_NAMES as [|y l IH]; [contradiction|].
    cbn [app] in Hnd. inversion Hnd as [|? ? Hn Hd]; subst. destruct Hm as [->|Hm].
    + apply Hn. apply in_or_app. now right.
    + now apply IH.
Qed.

(* relabel is injective on the names convert() can produce *)
Lemma inj_table c L' :
  forallb (fun n0 => forallb (fun n1 => String.eqb n0 n1 ||
             negb (String.eqb (relabel (String c L') n0) (relabel (String c L') n1))) all_out_names) all_out_names = true.
Proof. vm_compute. reflexivity. Qed.

Lemma relabel_inj L n0 n1 : In n0 all_out_names -> In n1 all_out_names -> relabel L n0 = relabel L n1 -> n0 = n1.
Proof.
  intros H0 H1 E. destruct L as [|c L']; [exact E|].
  pose proof (inj_table c L') as T. rewrite forallb_forall in T. specialize (T _ H0).
  rewrite forallb_forall in T. specialize (T _ H1). rewrite E, String.eqb_refl in T. cbn [negb] in T.
  rewrite orb_false_r in T. now apply String.eqb_eq.
Qed.

Lemma crel_names pre fs fs' : Forall2 (crel pre) fs fs' -> map fst fs' = map fst fs.
Proof. induction 1 as [|a b l l' [Hab _] HF IH]; cbn [map]; [reflexivity|]. now rewrite Hab, IH. Qed.

Lemma out_names_nodup o ci r : convert o ci = COk r -> NoDup (map fst (co_npy r)).
Proof.
  intros Hc. destruct (convert_ok _ _ _ Hc) as (_ & _ & _ & _ & (npy2 & E2 & E3) & _).
  apply compress_first_rel in E2, E3. rewrite (crel_names _ _ _ E3), (crel_names _ _ _ E2).
  unfold rename_with_label. rewrite map_map. cbn [fst].
  rewrite <- (map_map fst (relabel (ci_label ci))). apply NoDup_map_inj_in; [|apply out0_names_nodup].
  intros x y Hx Hy. apply relabel_inj.
  - apply in_map_iff in Hx as ([n a] & <- & Hx). eapply names_out0; exact Hx.
  - apply in_map_iff in Hy as ([n a] & <- & Hy). eapply names_out0; exact Hy.
Qed.

Lemma In_unique {V} (l : list (string * V)) k v v' : NoDup (map fst l) -> In (k, v) l -> In (k, v') l -> v = v'.
Proof.
  intros Hnd H1 H2. pose proof (In_lookup_nodup _ _ _ Hnd H1) as E1. pose proof (In_lookup_nodup _ _ _ Hnd H2) as E2.
  congruence.
Qed.

(* ---------- which produced file can match the compression globs ---------- *)
Definition compress_ok (L n0 : string) : bool :=
  (String.eqb n0 "spikes.templates.npy" || negb (glob1 "spikes.templates." "npy" (relabel L n0))) &&
  (String.eqb n0 "spikes.clusters.npy" || negb (glob1 "spikes.clusters." "npy" (relabel L n0))).
Lemma compress_table c L' : forallb (compress_ok (String c L')) all_out_names = true.
Proof. vm_compute. reflexivity. Qed.
Lemma compress_table0 : forallb (compress_ok "") all_out_names = true.
Proof. vm_compute. reflexivity. Qed.
Lemma compress_only L n0 : In n0 all_out_names -> compress_ok L n0 = true.
Proof.
  intros H. destruct L as [|c L'].
  - pose proof compress_table0 as T. rewrite forallb_forall in T. now apply T.
  - pose proof (compress_table c L') as T. rewrite forallb_forall in T. now apply T.
Qed.
Lemma glob_templates_only L n0 : In n0 all_out_names ->
  glob1 "spikes.templates." "npy" (relabel L n0) = true -> n0 = "spikes.templates.npy".
Proof.
  intros H G. pose proof (compress_only L _ H) as T. unfold compress_ok in T. rewrite G in T.
  cbn [negb] in T. rewrite orb_false_r in T. apply andb_true_iff in T as [T _]. now apply String.eqb_eq.
Qed.
Lemma glob_clusters_only L n0 : In n0 all_out_names ->
  glob1 "spikes.clusters." "npy" (relabel L n0) = true -> n0 = "spikes.clusters.npy".
Proof.
  intros H G. pose proof (compress_only L _ H) as T. unfold compress_ok in T. rewrite G in T.
  cbn [negb] in T. rewrite orb_false_r in T. apply andb_true_iff in T as [_ T]. now apply String.eqb_eq.
Qed.

(* a produced file other than the two id vectors reaches the output unchanged *)
Lemma out_plain o ci r n0 a0 : convert o ci = COk r -> In (n0, a0) (out0_npy o ci) ->
  n0 <> "spikes.templates.npy" -> n0 <> "spikes.clusters.npy" ->
  In (relabel (ci_label ci) n0, a0) (co_npy r).
Proof.
  intros Hc Hin H1 H2. destruct (out_entries _ _ _ Hc) as [_ Hfwd]. destruct (Hfwd _ _ Hin) as (a & Ha & Him).
  destruct Him as [->|[[G|G] _]]; [exact Ha| |]; exfalso.
  - apply H1. eapply glob_templates_only; [eapply names_out0; exact Hin|exact G].
  - apply H2. eapply glob_clusters_only; [eapply names_out0; exact Hin|exact G].
Qed.

(* the two id vectors reach the output cast to uint16 *)
Lemma out_u16 o ci r : convert o ci = COk r ->
  exists a_t a_c, In ("spikes.templates.npy", a_t) (out0_npy o ci) /\
                  In (relabel (ci_label ci) "spikes.templates.npy", to_u16 a_t) (co_npy r) /\
                  In ("spikes.clusters.npy", a_c) (out0_npy o ci) /\
                  In (relabel (ci_label ci) "spikes.clusters.npy", to_u16 a_c) (co_npy r).
Proof.
  intros Hc. destruct (convert_ok _ _ _ Hc) as (_ & _ & _ & _ & (npy2 & E2 & E3) & _).
  pose proof (compress_first_rel _ _ _ E2) as R2. pose proof (compress_first_rel _ _ _ E3) as R3.
  destruct (compress_first_spec _ _ _ E2) as (A & kv & B & Ef & En & G & _).
  destruct (compress_first_spec _ _ _ E3) as (A' & kv' & B' & Ef' & En' & G' & _).
  (* templates *)
  assert (Hkv : In kv (rename_with_label (ci_label ci) (out0_npy o ci))) by (rewrite Ef; apply in_or_app; right; now left).
  unfold rename_with_label in Hkv. apply in_map_iff in Hkv as ([n0 a0] & <- & Hin0). cbn [fst snd] in *.
  assert (n0 = "spikes.templates.npy") by (eapply glob_templates_only; [eapply names_out0; exact Hin0|exact G]). subst n0.
  assert (H2 : In (relabel (ci_label ci) "spikes.templates.npy", to_u16 a0) npy2) by (rewrite En; apply in_or_app; right; now left).
  destruct (Forall2_In_l _ _ _ _ R3 H2) as ([n3 a3] & Hin3 & Hn3 & Ha3). cbn [fst snd] in *. subst n3.
  assert (a3 = to_u16 a0) by (destruct Ha3 as [->|[G3 _]]; [reflexivity|exfalso; exact (globs_excl _ G G3)]). subst a3.
  (* clusters *)
  assert (Hkv' : In kv' npy2) by (rewrite Ef'; apply in_or_app; right; now left).
  destruct (Forall2_In_r _ _ _ _ R2 Hkv') as ([n1 a1] & Hin1 & Hn1 & Ha1). cbn [fst snd] in *.
  unfold rename_with_label in Hin1. apply in_map_iff in Hin1 as ([n0' a0'] & Heq & Hin0'). cbn [fst snd] in Heq.
  injection Heq as <- <-. rewrite Hn1 in G'.
  assert (n0' = "spikes.clusters.npy") by (eapply glob_clusters_only; [eapply names_out0; exact Hin0'|exact G']). subst n0'.
  assert (Hs : snd kv' = a0') by (destruct Ha1 as [->|[G1 _]]; [reflexivity|exfalso; exact (globs_excl _ G1 G')]).
  exists a0, a0'. repeat split; try assumption.
  rewrite En'. apply in_or_app. right. left. rewrite Hn1, Hs. reflexivity.
Qed.

(* ---------- values of the files convert() makes itself ---------- *)
Definition rawind_arr (m : loaded) : arr :=
  mkarr DI64 (a_shape (l_probes m)) (map tz (raw_ind (ids_of (l_probes m)) (ids_of (l_cmap m)))).

Lemma made_in o ci :
  In ("spikes.times.npy", l_times (ci_m ci)) (out0_npy o ci) /\
  In ("spikes.samples.npy", l_samples (ci_m ci)) (out0_npy o ci) /\
  In ("channels.rawInd.npy", rawind_arr (ci_m ci)) (out0_npy o ci).
Proof.
  unfold out0_npy, made, made_cluster, made_channel, made_spikes, made_depths, mk, rawind_arr.
  destruct (has "clusters.channels.npy" (ci_src ci)), (has "clusters.peakToTrough.npy" (ci_src ci));
    cbn [app In]; repeat split; repeat (first [left; reflexivity | right]).
Qed.

Lemma renames_functional f0 n sq f0' sq' :
  In (f0, n, sq) FILE_RENAMES -> In (f0', n, sq') FILE_RENAMES -> f0 = f0' /\ sq = sq'.
Proof.
  intros H H'.
  assert (Hnd : NoDup (map (fun e : string * string * bool => snd (fst e)) FILE_RENAMES)) by (apply str_nodup_NoDup; vm_compute; reflexivity).
  assert (G : forall (l : list (string * string * bool)) x y, NoDup (map (fun e => snd (fst e)) l) -> In x l -> In y l -> snd (fst x) = snd (fst y) -> x = y).
  { induction l as [|e l IH]; [intros ? ? _ []|]. cbn [map]. intros x y Hn Hx Hy E. inversion Hn as [|? ? Hni Hd]; subst.
    destruct Hx as [->|Hx], Hy as [->|Hy]; auto.
    - exfalso. apply Hni. rewrite E. apply in_map_iff. now exists y.
    - exfalso. apply Hni. rewrite <- E. apply in_map_iff. now exists x. }
  pose proof (G _ _ _ Hnd H H' eq_refl) as E. injection E as -> ->. auto.
Qed.

(* a copied file of the output, by its _FILE_RENAMES entry *)
Lemma out0_copied o ci f0 n sq a : In (f0, n, sq) FILE_RENAMES -> In (n, a) (out0_npy o ci) ->
  exists a1, lookup f0 (add_subset o (ci_has_raw ci) (ci_src ci)) = Some a1 /\ a = copy_npy sq a1.
Proof.
  intros He Hin.
  assert (Hc : In (n, a) (copied_npy (add_subset o (ci_has_raw ci) (ci_src ci)))).
  { unfold out0_npy in Hin. apply in_app_iff in Hin as [Hm|Hc]; [exfalso|exact Hc].
    pose proof (out0_names_nodup o ci) as Hnd. unfold out0_npy in Hnd. rewrite map_app in Hnd.
    (* n would be both a made name and a copied name of the constant table *)
    assert (Hmn : In n MADE_NAMES).
    { unfold made, made_cluster, made_channel, made_spikes, made_depths, mk in Hm.
      destruct (has "clusters.channels.npy" (ci_src ci)), (has "clusters.peakToTrough.npy" (ci_src ci));
        cbn [app In] in Hm;
        repeat (destruct Hm as [Hm|Hm]; [injection Hm as <- _; apply existsb_str_In; vm_compute; reflexivity|]); contradiction. }
    assert (Hcn : In n (map (fun e : string * string * bool => snd (fst e)) FILE_RENAMES)) by (apply in_map_iff; exists (f0, n, sq); auto).
    assert (Hall : NoDup all_out_names) by (apply str_nodup_NoDup; vm_compute; reflexivity).
    unfold all_out_names in Hall. clear -Hmn Hcn Hall. induction MADE_NAMES as [|y l IH]; [contradiction|].
    cbn [app] in Hall. inversion Hall as [|? ? Hn Hd]; subst. destruct Hmn as [->|Hmn].
    + apply Hn. apply in_or_app. now right.
    + now apply IH. }
  apply copied_npy_In in Hc as (f0' & sq' & a1 & He' & El & ->).
  destruct (renames_functional _ _ _ _ _ He He') as [-> ->]. exists a1. auto.
Qed.

Lemma out0_copied_in o ci f0 n sq a1 : In (f0, n, sq) FILE_RENAMES ->
  lookup f0 (add_subset o (ci_has_raw ci) (ci_src ci)) = Some a1 -> In (n, copy_npy sq a1) (out0_npy o ci).
Proof.
  intros He El. unfold out0_npy. apply in_or_app. right. apply copied_npy_In. exists f0, sq, a1. auto.
Qed.

(* ---------- C13_label ---------- *)
Definition ext_ok (n : string) : bool :=
  match rsplit_dot n with
  | Some (st, String _ e) => negb (String.eqb st "") && negb (String.eqb e "")
  | _ => false
  end.
Lemma ext_ok_spec n : ext_ok n = true ->
  exists st e, n = append st (String "."%char e) /\ has_dot e = false /\ e <> "" /\ st <> "".
Proof.
  unfold ext_ok. destruct (rsplit_dot n) as [[st ex]|] eqn:E; [|discriminate].
  apply rsplit_dot_some in E as (-> & e & -> & He). rewrite andb_true_iff, !negb_true_iff, !String.eqb_neq.
  intros [H1 H2]. exists st, e. auto.
Qed.
Definition TXT_NAMES := ["clusters.uuids.csv"; "params.py"; "cluster_KSLabel.tsv"].
Lemma ext_table : forallb (fun n0 => negb (labelled n0) || ext_ok n0) (all_out_names ++ TXT_NAMES) = true.
Proof. vm_compute. reflexivity. Qed.

Lemma relabel_spec L n0 : In n0 (all_out_names ++ TXT_NAMES) ->
  (L = "" \/ labelled n0 = false -> relabel L n0 = n0) /\
  (L <> "" -> labelled n0 = true -> Label_Spec L n0 (relabel L n0)).
Proof.
  intros Hin. split.
  - intros [->|H]; [reflexivity|]. unfold relabel. rewrite H. now destruct (String.eqb L "").
  - intros HL Hlab. unfold relabel. destruct (String.eqb_spec L "") as [->|_]; [congruence|]. rewrite Hlab.
    pose proof ext_table as T. rewrite forallb_forall in T. specialize (T _ Hin). rewrite Hlab in T. cbn [negb orb] in T.
    destruct (ext_ok_spec _ T) as (st & e & -> & He & Hne & Hst). exists st, e. repeat split; auto.
    now apply with_label_spec.
Qed.

Lemma txt_names o ci n t : In (n, t) (out0_txt o ci) -> In n (all_out_names ++ TXT_NAMES).
Proof.
  unfold out0_txt. intros [H|H].
  - injection H as <- _. apply in_or_app. right. now left.
  - unfold copied_txt in H. apply in_flat_map in H as ([[f0 f1] sq] & He & Hin). cbn [fst snd] in Hin.
    destruct (lookup f0 (rm_files (ci_others ci))) as [c|] eqn:El; [|contradiction]. destruct Hin as [Hin|[]].
    injection Hin as <- _. apply in_or_app. left. unfold all_out_names. apply in_or_app. right.
    apply in_map_iff. exists (f0, f1, sq). auto.
Qed.

Lemma label_thm o ci r : convert o ci = COk r ->
  (forall n a, In (n, a) (co_npy r) -> exists n0 a0, In (n0, a0) (out0_npy o ci) /\ n = relabel (ci_label ci) n0) /\
  (forall n0 a0, In (n0, a0) (out0_npy o ci) -> exists a, In (relabel (ci_label ci) n0, a) (co_npy r)) /\
  co_txt r = map (fun kv => (relabel (ci_label ci) (fst kv), snd kv)) (out0_txt o ci) /\
  (forall n0 a0, In (n0, a0) (out0_npy o ci) -> In n0 all_out_names).
Proof.
  intros Hc. destruct (out_entries _ _ _ Hc) as [H1 H2]. split; [|split; [|split]].
  - intros n a Hin. destruct (H1 _ _ Hin) as (n0 & a0 & Hin0 & -> & _). eauto.
  - intros n0 a0 Hin. destruct (H2 _ _ Hin) as (a & Ha & _). eauto.
  - now destruct (convert_ok _ _ _ Hc) as (_ & _ & _ & _ & _ & -> & _).
  - intros n0 a0. apply names_out0.
Qed.

(* ---------- C13_units ---------- *)
Section Units.
Variable fdiv : tok -> tok -> option tok.
Variable fmul : tok -> tok -> option tok.
Variable fround : tok -> option Z.
Variable inv_oracle : arr -> arr.

Lemma units_thm o ci r rate ncd kv :
  load fdiv fmul fround inv_oracle (ci_src ci) rate ncd = Ok (ci_m ci) ->
  find_path P_times_ks (ci_src ci) = Some kv ->
  convert o ci = COk r ->
  exists s t,
    (forall a, In (relabel (ci_label ci) "spikes.samples.npy", a) (co_npy r) <-> a = s) /\
    (forall a, In (relabel (ci_label ci) "spikes.times.npy", a) (co_npy r) <-> a = t) /\
    s = read_full (snd kv) /\ a_dt t = DF64 /\ a_shape t = a_shape s /\
    Forall2 (fun x y => fdiv x rate = Some y) (a_data s) (a_data t).
Proof.
  intros Hl Hk Hc. destruct (load_times_ks _ _ _ _ _ _ _ _ _ Hl Hk) as (Es & Ed & Esh & Ef).
  destruct (made_in o ci) as (Ht & Hs & _).
  pose proof (out_plain _ _ _ _ _ Hc Hs ltac:(discriminate) ltac:(discriminate)) as Os.
  pose proof (out_plain _ _ _ _ _ Hc Ht ltac:(discriminate) ltac:(discriminate)) as Ot.
  pose proof (out_names_nodup _ _ _ Hc) as Hnd.
  exists (l_samples (ci_m ci)), (l_times (ci_m ci)). repeat split; auto.
  - intros H. eapply In_unique; eauto.
  - intros ->. exact Os.
  - intros H. eapply In_unique; eauto.
  - intros ->. exact Ot.
Qed.
End Units.

(* ---------- C13_dtypes ---------- *)
Lemma to_u16_data a : Forall (fun t => id_ok t = true \/ tok_Z t = None) (a_data a) -> a_data (to_u16 a) = a_data a.
Proof.
  unfold to_u16. cbn [a_data]. induction (a_data a) as [|t l IH]; cbn [map]; [reflexivity|].
  intros H. inversion H as [|? ? Ht Hl]; subst. f_equal; [|now apply IH].
  destruct Ht as [Ht|Ht]; [|now rewrite Ht]. unfold id_ok in Ht. destruct (tok_Z t) as [z|]; [|discriminate].
  rewrite !andb_true_iff in Ht. destruct Ht as [[H0 H1] H2]. apply tok_eqb_eq in H2.
  rewrite Z.mod_small by lia. now symmetry.
Qed.

Lemma dtypes_thm o ci r : convert o ci = COk r ->
  exists t1 c1,
    lookup "spike_templates.npy" (ci_src ci) = Some t1 /\ lookup "spike_clusters.npy" (ci_src ci) = Some c1 /\
    (forall a, In (relabel (ci_label ci) "spikes.templates.npy", a) (co_npy r) <-> a = to_u16 (copy_npy true t1)) /\
    (forall a, In (relabel (ci_label ci) "spikes.clusters.npy", a) (co_npy r) <-> a = to_u16 (copy_npy true c1)).
Proof.
  intros Hc. destruct (out_u16 _ _ _ Hc) as (a_t & a_c & Ht0 & Ht & Hc0 & Hcl).
  pose proof (out_names_nodup _ _ _ Hc) as Hnd.
  destruct (out0_copied o ci "spike_templates.npy" _ true _ ltac:(cbn; tauto) Ht0) as (t1 & Et & ->).
  destruct (out0_copied o ci "spike_clusters.npy" _ true _ ltac:(cbn; tauto) Hc0) as (c1 & Ec & ->).
  rewrite lookup_add_subset in Et, Ec by reflexivity.
  exists t1, c1. repeat split; auto.
  - intros H. eapply In_unique; eauto.
  - intros ->. exact Ht.
  - intros H. eapply In_unique; eauto.
  - intros ->. exact Hcl.
Qed.

(* ---------- C13_label_every: no object file of the output is left without the label ---------- *)
Lemma OUT_TABLE_eq : OUT_TABLE = all_out_names ++ TXT_NAMES.
Proof. reflexivity. Qed.

Lemma labelled_table c L' :
  forallb (fun n0 => Bool.eqb (labelled (relabel (String c L') n0)) (labelled n0)) OUT_TABLE = true.
Proof. vm_compute. reflexivity. Qed.
Lemma labelled_relabel L n0 : In n0 OUT_TABLE -> labelled (relabel L n0) = labelled n0.
Proof.
  intros H. destruct L as [|c L']; [reflexivity|].
  pose proof (labelled_table c L') as T. rewrite forallb_forall in T. specialize (T _ H). now apply Bool.eqb_prop in T.
Qed.

Lemma label_names_thm o ci r : convert o ci = COk r ->
  Label_Names_Spec (ci_label ci) (names (co_npy r) ++ names (co_txt r)).
Proof.
  intros Hc n Hin _. destruct (label_thm _ _ _ Hc) as (H1 & _ & H3 & H4). rewrite OUT_TABLE_eq.
  unfold names in Hin. apply in_app_or in Hin as [Hin|Hin].
  - apply in_map_iff in Hin as ([n' a] & <- & Hin). cbn [fst]. destruct (H1 _ _ Hin) as (n0 & a0 & Hin0 & ->).
    exists n0. split; [|reflexivity]. apply in_or_app. left. eapply H4; exact Hin0.
  - rewrite H3, map_map in Hin. cbn [fst] in Hin. apply in_map_iff in Hin as ([n0 t] & <- & Hin). cbn [fst].
    exists n0. split; [|reflexivity]. eapply txt_names; exact Hin.
Qed.

Lemma label_every_thm o ci r : convert o ci = COk r -> ci_label ci <> "" ->
  forall n, In n (names (co_npy r) ++ names (co_txt r)) -> labelled n = true ->
  exists n0, In n0 OUT_TABLE /\ labelled n0 = true /\ Label_Spec (ci_label ci) n0 n.
Proof.
  intros Hc HL n Hin Hlab. destruct (label_names_thm _ _ _ Hc n Hin Hlab) as (n0 & H0 & ->).
  rewrite (labelled_relabel _ _ H0) in Hlab. exists n0. repeat split; auto.
  rewrite OUT_TABLE_eq in H0. now apply (proj2 (relabel_spec (ci_label ci) n0 H0)).
Qed.
