(* C13/Props.v -- property theorems only.  Every theorem holds for every oracle (the C14 values o_data, the
   spike-subset arrays o_subset, the uuid generator o_uuids under its count/distinctness hypothesis) and every
   correctly-rounded-operation / matrix-inverse oracle of the loader model PV.C04.Model.load. *)
From Coq Require Import ZArith QArith List Bool String Ascii Lia Permutation.
(* C09 / C14 first (needed by the composition theorems at the end), C13 last: unqualified names are C13's *)
From PV Require Import C09.Model C14.Model C14.Spec C14.Proofs6.
From PV Require Import Base.Tok Base.TokArith C04.Model C13.Model C13.Spec C13.Proofs1 C13.Proofs2 C13.Proofs3 C13.Proofs4.
From PV Require Import C13.Proofs5 C13.Fast C13.Link.
Import ListNotations.
Open Scope string_scope.
Open Scope list_scope.
Open Scope Z_scope.

(* Rows: after converting a loaded, well-formed (KS-named) source directory, every spikes.* array of the output has
   n_spikes rows, every clusters.* array n_clu rows, every templates.* array n_templates rows, every channels.*
   array n_channels rows -- whatever the label, the optional files and the oracle values. *)
Theorem C13_rows : forall fdiv fmul fround inv o ci r rate ncd kv,
  load fdiv fmul fround inv (ci_src ci) rate ncd = Ok (ci_m ci) ->
  find_path P_times_ks (ci_src ci) = Some kv ->
  src_wf (ci_m ci) (ci_src ci) = true ->
  convert o ci = COk r ->
  Rows_Spec (n_spikes (ci_m ci)) (n_clu (ci_m ci)) (n_templates (ci_m ci)) (n_channels (ci_m ci)) (co_npy r).
Proof. exact rows_thm. Qed.
Print Assumptions C13_rows.

(* n_clu is "one per id up to the highest" when some spike changed cluster, "one per template" otherwise *)
Theorem C13_nclu : forall m,
  ids_ok (l_sclusters m) = true -> ids_ok (l_stemplates m) = true -> l_tcols m = None ->
  ids_of (l_sclusters m) <> [] ->
  NClu_Spec (ids_of (l_sclusters m)) (ids_of (l_stemplates m)) (n_templates m) (n_clu m).
Proof. exact nclu_thm. Qed.
Print Assumptions C13_nclu.

(* the boolean row checker used on observed directories is exactly the declarative statement *)
Theorem C13_rows_checker : forall ns nclu nt nc out, rows_b ns nclu nt nc out = true <-> Rows_Spec ns nclu nt nc out.
Proof. exact rows_b_spec. Qed.
Print Assumptions C13_rows_checker.

(* one identifier per cluster, pairwise distinct, in exactly one (re-labelled) clusters.uuids file *)
Theorem C13_uuids : forall o ci r,
  (forall n, List.length (o_uuids o n) = n /\ NoDup (o_uuids o n)) ->
  convert o ci = COk r ->
  exists ids, In (relabel (ci_label ci) "clusters.uuids.csv", TUuids ids) (co_txt r) /\
              List.length ids = Z.to_nat (n_clu (ci_m ci)) /\ NoDup ids /\
              forall n ids', In (n, TUuids ids') (co_txt r) -> n = relabel (ci_label ci) "clusters.uuids.csv" /\ ids' = ids.
Proof. exact uuids_thm. Qed.
Print Assumptions C13_uuids.

Theorem C13_uuids_checker : forall n ids, uuids_b n ids = true <-> Uuids_Spec n ids.
Proof. exact uuids_b_spec. Qed.
Print Assumptions C13_uuids_checker.

(* same directory: refused, and the model produces no output at all *)
Theorem C13_guard : forall o ci, ci_same ci = true -> convert o ci = CErr CRefused.
Proof. exact guard_thm. Qed.
Print Assumptions C13_guard.

(* frame of the source directory: the non-array files are the old ones minus temp_wh.dat; every array file other
   than the three subset files is still there with its content and no other appears; without raw data nothing
   changes at all; with raw data the three subset files hold what save_spikes_subset_waveforms produced *)
Theorem C13_frame : forall o ci r, convert o ci = COk r ->
  (forall k c, In (k, c) (co_others r) <-> In (k, c) (ci_others ci) /\ k <> "temp_wh.dat") /\
  (forall k, str_in k SUBSET = false -> lookup k (co_src r) = lookup k (ci_src ci)) /\
  (ci_has_raw ci = false -> co_src r = ci_src ci) /\
  (ci_has_raw ci = true -> forall k, In k SUBSET -> lookup k (co_src r) = Some (o_subset o k)).
Proof. exact frame_thm. Qed.
Print Assumptions C13_frame.

(* Units: the output holds exactly one spikes.samples file = the source's sample numbers (spike_times.npy squeezed)
   and exactly one spikes.times file, float64, with times[i] = samples[i] / sample_rate (seconds) *)
Theorem C13_units : forall fdiv fmul fround inv o ci r rate ncd kv,
  load fdiv fmul fround inv (ci_src ci) rate ncd = Ok (ci_m ci) ->
  find_path P_times_ks (ci_src ci) = Some kv ->
  convert o ci = COk r ->
  exists s t,
    (forall a, In (relabel (ci_label ci) "spikes.samples.npy", a) (co_npy r) <-> a = s) /\
    (forall a, In (relabel (ci_label ci) "spikes.times.npy", a) (co_npy r) <-> a = t) /\
    s = read_full (snd kv) /\ a_dt t = DF64 /\ a_shape t = a_shape s /\
    Forall2 (fun x y => fdiv x rate = Some y) (a_data s) (a_data t).
Proof. exact units_thm. Qed.
Print Assumptions C13_units.

(* Label, files: the output arrays are exactly the re-labelled images of the files convert() made or copied
   (whose un-labelled names all belong to a fixed table), and likewise for the non-array files *)
Theorem C13_label_files : forall o ci r, convert o ci = COk r ->
  (forall n a, In (n, a) (co_npy r) -> exists n0 a0, In (n0, a0) (out0_npy o ci) /\ n = relabel (ci_label ci) n0) /\
  (forall n0 a0, In (n0, a0) (out0_npy o ci) -> exists a, In (relabel (ci_label ci) n0, a) (co_npy r)) /\
  co_txt r = map (fun kv => (relabel (ci_label ci) (fst kv), snd kv)) (out0_txt o ci) /\
  (forall n0 a0, In (n0, a0) (out0_npy o ci) -> In n0 all_out_names).
Proof. exact label_thm. Qed.
Print Assumptions C13_label_files.

(* Label, names: for every name convert() can produce, re-labelling is the identity when the label is empty or the
   name is not a spikes./clusters./templates./channels. name, and otherwise inserts ".<label>" before the
   extension (the part after the last dot) *)
Theorem C13_label_names : forall L n0, In n0 (all_out_names ++ TXT_NAMES) ->
  (L = "" \/ labelled n0 = false -> relabel L n0 = n0) /\
  (L <> "" -> labelled n0 = true -> Label_Spec L n0 (relabel L n0)).
Proof. exact relabel_spec. Qed.
Print Assumptions C13_label_names.

(* the general rule behind it (any name with an extension, any label) *)
Theorem C13_with_label : forall L n st e,
  n = append st (String "."%char e) -> has_dot e = false -> e <> "" -> st <> "" ->
  with_label L n = append st (append "." (append L (String "."%char e))).
Proof. exact with_label_spec. Qed.
Print Assumptions C13_with_label.

(* Label, every file: with a non-empty label -- ANY label, also one that equals an attribute or object name such as
   "templates" or "amps" -- every spikes./clusters./templates./channels. file of the output is a table name with
   ".<label>" inserted before its extension: none is left un-labelled *)
Theorem C13_label_every : forall o ci r, convert o ci = COk r -> ci_label ci <> "" ->
  forall n, In n (names (co_npy r) ++ names (co_txt r)) -> labelled n = true ->
  exists n0, In n0 OUT_TABLE /\ labelled n0 = true /\ Label_Spec (ci_label ci) n0 n.
Proof. exact label_every_thm. Qed.
Print Assumptions C13_label_every.

(* the checker applied to OBSERVED file names is that statement, and the model's output passes it for every label *)
Theorem C13_label_checker : forall L nms, label_names_b L nms = true <-> Label_Names_Spec L nms.
Proof. exact label_names_b_spec. Qed.
Print Assumptions C13_label_checker.

(* distinct names: no two output arrays share a name, so a re-labelled name identifies its file *)
Theorem C13_names_distinct : forall o ci r, convert o ci = COk r -> NoDup (map fst (co_npy r)).
Proof. exact out_names_nodup. Qed.
Print Assumptions C13_names_distinct.

(* Dtypes: spikes.templates / spikes.clusters are the source vectors ((n,1) squeezed) cast to uint16 ... *)
Theorem C13_dtypes : forall o ci r, convert o ci = COk r ->
  exists t1 c1,
    lookup "spike_templates.npy" (ci_src ci) = Some t1 /\ lookup "spike_clusters.npy" (ci_src ci) = Some c1 /\
    (forall a, In (relabel (ci_label ci) "spikes.templates.npy", a) (co_npy r) <-> a = to_u16 (copy_npy true t1)) /\
    (forall a, In (relabel (ci_label ci) "spikes.clusters.npy", a) (co_npy r) <-> a = to_u16 (copy_npy true c1)).
Proof. exact dtypes_thm. Qed.
Print Assumptions C13_dtypes.

(* ... and the cast leaves every id below 65536 unchanged *)
Theorem C13_u16_values : forall a,
  Forall (fun t => id_ok t = true \/ tok_Z t = None) (a_data a) ->
  a_dt (to_u16 a) = DU16 /\ a_shape (to_u16 a) = a_shape a /\ a_data (to_u16 a) = a_data a.
Proof. intros a H. split; [reflexivity|]. split; [reflexivity|]. now apply to_u16_data. Qed.
Print Assumptions C13_u16_values.

(* Round trip: whenever the loader model accepts the written directory (with any sample rate / channel count /
   inverse oracle), the loaded spike times, samples and clusters are the source's, the spike templates have the
   source's values (stored as uint16), the positions are the source's and the channel map is the exported rawInd *)
Theorem C13_roundtrip : forall fdiv fmul fround inv inv2 o ci r rate ncd kv rate2 ncd2 m2,
  load fdiv fmul fround inv (ci_src ci) rate ncd = Ok (ci_m ci) ->
  find_path P_times_ks (ci_src ci) = Some kv ->
  src_wf (ci_m ci) (ci_src ci) = true ->
  ids_ok (l_sclusters (ci_m ci)) = true -> ids_ok (l_stemplates (ci_m ci)) = true ->
  n_spikes (ci_m ci) <> 1 -> n_channels (ci_m ci) <> 1 ->
  convert o ci = COk r ->
  load fdiv fmul fround inv2 (co_npy r) rate2 ncd2 = Ok m2 ->
  l_times m2 = l_times (ci_m ci) /\ l_samples m2 = l_samples (ci_m ci) /\
  l_sclusters m2 = l_sclusters (ci_m ci) /\
  (a_dt (l_stemplates m2) = DU16 /\ a_shape (l_stemplates m2) = a_shape (l_stemplates (ci_m ci)) /\
   a_data (l_stemplates m2) = a_data (l_stemplates (ci_m ci))) /\
  l_pos m2 = l_pos (ci_m ci) /\
  l_cmap m2 = rawind_arr (ci_m ci).
Proof. exact roundtrip_thm. Qed.
Print Assumptions C13_roundtrip.

(* Acceptance: the loader model ACCEPTS the directory convert() writes -- for every label, every oracle (C14's values,
   subset arrays, uuids, matrix inverse), every sample rate, and every channel count n_channels_dat that is absent or
   at least the largest re-based raw index + 1.  Needs a KS-named source (channel_positions.npy) and no axis of
   length 1 (phylib squeezes every array it reads). *)
Theorem C13_accepts : forall fdiv fmul fround inv inv2 o ci r rate ncd kv rate2 ncd2,
  load fdiv fmul fround inv (ci_src ci) rate ncd = Ok (ci_m ci) ->
  find_path P_times_ks (ci_src ci) = Some kv ->
  src_wf (ci_m ci) (ci_src ci) = true ->
  has "channel_positions.npy" (ci_src ci) = true ->
  n_spikes (ci_m ci) <> 1 -> n_channels (ci_m ci) <> 1 -> n_templates (ci_m ci) <> 1 -> n_wsamples (ci_m ci) <> 1 ->
  convert o ci = COk r ->
  match ncd2 with
  | Some k => Forall (fun z => z <= k - 1) (raw_ind (ids_of (l_probes (ci_m ci))) (ids_of (l_cmap (ci_m ci))))
  | None => True end ->
  exists m2, load fdiv fmul fround inv2 (co_npy r) rate2 ncd2 = Ok m2.
Proof. intros. eapply accepts_thm; eauto. Qed.
Print Assumptions C13_accepts.

(* Round trip without any premise on the read-back: with the channel count of the source's own params.py (the file
   convert() copies) or none, and any sample rate, the written directory loads, and loads back to the source's spikes *)
Theorem C13_roundtrip_total : forall fdiv fmul fround inv inv2 o ci r rate ncd kv rate2 ncd2,
  load fdiv fmul fround inv (ci_src ci) rate ncd = Ok (ci_m ci) ->
  find_path P_times_ks (ci_src ci) = Some kv ->
  src_wf (ci_m ci) (ci_src ci) = true ->
  has "channel_positions.npy" (ci_src ci) = true ->
  ids_ok (l_sclusters (ci_m ci)) = true -> ids_ok (l_stemplates (ci_m ci)) = true ->
  n_spikes (ci_m ci) <> 1 -> n_channels (ci_m ci) <> 1 -> n_templates (ci_m ci) <> 1 -> n_wsamples (ci_m ci) <> 1 ->
  convert o ci = COk r ->
  ncd2 = ncd \/ ncd2 = None ->
  exists m2, load fdiv fmul fround inv2 (co_npy r) rate2 ncd2 = Ok m2 /\
    l_times m2 = l_times (ci_m ci) /\ l_samples m2 = l_samples (ci_m ci) /\
    l_sclusters m2 = l_sclusters (ci_m ci) /\
    (a_dt (l_stemplates m2) = DU16 /\ a_shape (l_stemplates m2) = a_shape (l_stemplates (ci_m ci)) /\
     a_data (l_stemplates m2) = a_data (l_stemplates (ci_m ci))) /\
    l_pos m2 = l_pos (ci_m ci) /\
    l_cmap m2 = rawind_arr (ci_m ci).
Proof.
  intros fdiv fmul fround inv inv2 o ci r rate ncd kv rate2 ncd2 Hl Hk Hwf Hpos Hic Hit Hns Hnc Hnt Hnw Hc Hn.
  assert (Hcond : match ncd2 with
                  | Some k => Forall (fun z => z <= k - 1) (raw_ind (ids_of (l_probes (ci_m ci))) (ids_of (l_cmap (ci_m ci))))
                  | None => True end).
  { destruct Hn as [->| ->]; [|exact I]. eapply ncd_source_ok; eauto. }
  destruct (accepts_thm fdiv fmul fround inv inv2 o ci r rate ncd kv Hl Hk Hwf Hpos Hns Hnc Hnt Hnw Hc rate2 ncd2 Hcond) as (m2 & Hm2).
  exists m2. split; [exact Hm2|]. eapply roundtrip_thm; eauto.
Qed.
Print Assumptions C13_roundtrip_total.

(* ... and the exported rawInd IS the source channel map when all channels are on one probe *)
Theorem C13_rawind_single_probe : forall p probes cmap, probes <> [] -> Forall (fun x => x = p) probes ->
  List.length probes = List.length cmap -> raw_ind probes cmap = cmap.
Proof. exact raw_ind_single. Qed.
Print Assumptions C13_rawind_single_probe.

(* ---- non-vacuity: a small curated KS directory with (n,1) vectors, a temp_wh.dat and raw data ---- *)
Definition ex_src : files := [
  ("amplitudes.npy", mkarr DF64 [3] [TNum 1 0; TNum 1 1; TNum 3 0]);
  ("channel_map.npy", mkarr DI32 [2] [TNum 1 0; TNum 0 0]);
  ("channel_positions.npy", mkarr DF64 [2; 2] [TNum 0 0; TNum 0 0; TNum 0 0; TNum 5 2]);
  ("spike_clusters.npy", mkarr DI32 [3] [TNum 0 0; TNum 1 1; TNum 1 0]);
  ("spike_templates.npy", mkarr DU32 [3; 1] [TNum 0 0; TNum 1 0; TNum 1 0]);
  ("spike_times.npy", mkarr DU64 [3; 1] [TNum 0 0; TNum 1 1; TNum 5 0]);
  ("templates.npy", mkarr DF32 [2; 2; 2] [TNum 1 0; TNum 1 1; TNum 3 0; TNum 1 2; TNum 1 0; TNum 0 0; TNum 5 0; TNum 1 0]);
  ("whitening_mat_inv.npy", mkarr DF64 [2; 2] [TNum 1 0; TNum 0 0; TNum 0 0; TNum 1 0])].
Definition ex_div (a b : tok) : option tok := tmul a (TNum 1 (-1)).     (* exact division by the rate 2 *)
Definition ex_round (t : tok) : option Z := tok_Z t.
Definition ex_o : oracles := mkoracles (fun _ => []) (fun _ => mkarr DF64 [0] []) (fun n => map Z.of_nat (seq 0 n)).
Definition ex_ci (m : loaded) (L : string) (same : bool) : conv_in :=
  mkci m ex_src [("params.py", 1); ("temp_wh.dat", 2)] true same L.

Example C13_ex_converts :
  match load ex_div tmul ex_round (fun a => a) ex_src (TNum 1 1) (Some 2) with
  | Ok m =>
      src_wf m ex_src = true /\ l_created m = [] /\ n_clu m = 3 /\ n_templates m = 2 /\
      (* the premises of C13_rows / C13_nclu / C13_units / C13_roundtrip hold on this instance *)
      ids_ok (l_sclusters m) = true /\ ids_ok (l_stemplates m) = true /\ l_tcols m = None /\
      ids_of (l_sclusters m) = [0; 2; 1] /\ ids_of (l_stemplates m) = [0; 1; 1] /\ n_spikes m = 3 /\ n_channels m = 2 /\
      find_path P_times_ks ex_src = Some ("spike_times.npy", mkarr DU64 [3; 1] [TNum 0 0; TNum 1 1; TNum 5 0]) /\
      (* ... and those of C13_accepts / C13_roundtrip_total (n_channels_dat = Some 2 bounds the raw indices) *)
      has "channel_positions.npy" ex_src = true /\ n_wsamples m = 2 /\
      raw_ind (ids_of (l_probes m)) (ids_of (l_cmap m)) = [1; 0] /\
      match convert ex_o (ex_ci m "probe00" false) with
      | COk r =>
          map fst (co_npy r) =
            ["clusters.channels.probe00.npy"; "clusters.peakToTrough.probe00.npy"; "clusters.amps.probe00.npy";
             "channels.rawInd.probe00.npy"; "spikes.times.probe00.npy"; "spikes.samples.probe00.npy";
             "spikes.amps.probe00.npy"; "templates.amps.probe00.npy"; "templates.waveforms.probe00.npy";
             "templates.waveformsChannels.probe00.npy"; "clusters.waveforms.probe00.npy";
             "clusters.waveformsChannels.probe00.npy"; "spikes.depths.probe00.npy"; "clusters.depths.probe00.npy";
             "spikes.clusters.probe00.npy"; "spikes.templates.probe00.npy"; "channels.localCoordinates.probe00.npy";
             "_phy_spikes_subset.channels.npy"; "_phy_spikes_subset.spikes.npy"; "_phy_spikes_subset.waveforms.npy"] /\
          co_txt r = [("clusters.uuids.probe00.csv", TUuids [0; 1; 2]); ("params.py", TCopy 1)] /\
          co_others r = [("params.py", 1)] /\
          lookup "spikes.times.probe00.npy" (co_npy r) = Some (mkarr DF64 [3] [TNum 0 0; TNum 1 0; TNum 5 (-1)]) /\
          lookup "spikes.templates.probe00.npy" (co_npy r) = Some (mkarr DU16 [3] [TNum 0 0; TNum 1 0; TNum 1 0]) /\
          lookup "channels.rawInd.probe00.npy" (co_npy r) = Some (mkarr DI64 [2] [TNum 1 0; TNum 0 0])
      | CErr _ => False
      end /\
      convert ex_o (ex_ci m "" true) = CErr CRefused /\
      (* read-back with another rate: same spikes *)
      match convert ex_o (ex_ci m "a.b" false) with
      | COk r => match load ex_div tmul ex_round (fun a => a) (co_npy r) (TNum 1 3) None with
                 | Ok m2 => l_times m2 = l_times m /\ l_samples m2 = l_samples m /\ l_sclusters m2 = l_sclusters m /\
                            a_data (l_stemplates m2) = a_data (l_stemplates m) /\ l_pos m2 = l_pos m /\
                            a_data (l_cmap m2) = a_data (l_cmap m) /\ l_created m2 = [("whitening_mat_inv.npy", eye 2)]
                 | Err _ => False end
      | CErr _ => False end
  | Err _ => False
  end.
Proof. vm_compute. repeat split. Qed.

(* the uuid oracle of the example satisfies the hypothesis of C13_uuids *)
Example C13_ex_uuid_oracle : forall n, List.length (o_uuids ex_o n) = n /\ NoDup (o_uuids ex_o n).
Proof.
  intros n. cbn [o_uuids ex_o]. split; [now rewrite map_length, seq_length|].
  assert (G : forall l : list nat, NoDup l -> NoDup (map Z.of_nat l)).
  { induction 1 as [|x l Hx _ IH]; cbn [map]; constructor; [|exact IH].
    intros Hin. apply in_map_iff in Hin as (y & Hy & Hyl). apply Nat2Z.inj in Hy. now subst. }
  apply G, seq_NoDup.
Qed.

(* label insertion, Path.suffix corner cases, the checkers on good and bad observations, the re-basing loop *)
Example C13_ex_label :
  relabel "probe00" "templates.waveforms.npy" = "templates.waveforms.probe00.npy" /\
  relabel "a.b" "clusters.uuids.csv" = "clusters.uuids.a.b.csv" /\
  relabel "probe00" "params.py" = "params.py" /\ relabel "probe00" "_phy_spikes_subset.spikes.npy" = "_phy_spikes_subset.spikes.npy" /\
  relabel "" "spikes.times.npy" = "spikes.times.npy" /\
  split_ext ".hidden" = (".hidden", "") /\ split_ext "x." = ("x.", "") /\ split_ext "a.b.c" = ("a.b", ".c") /\
  Label_Spec "probe00" "spikes.times.npy" (relabel "probe00" "spikes.times.npy") /\
  label_b "probe00" ["spikes.times.probe00.npy"; "params.py"] = true /\
  label_b "probe00" ["spikes.times.npy.probe00"] = false /\ label_b "probe00" ["channels.rawInd.npy"] = false /\
  (* a label equal to an attribute name: the un-labelled spikes.templates.npy "ends with .templates", only the
     table-based checker refuses it *)
  relabel "templates" "spikes.templates.npy" = "spikes.templates.templates.npy" /\
  label_b "templates" ["spikes.templates.npy"] = true /\ label_names_b "templates" ["spikes.templates.npy"] = false /\
  label_names_b "templates" ["spikes.templates.templates.npy"; "clusters.uuids.templates.csv"; "params.py"] = true /\
  label_names_b "amps" ["spikes.amps.amps.npy"; "clusters.amps.npy"] = false /\
  label_names_b "" ["spikes.amps.npy"] = true /\ label_names_b "x" ["spikes.nosuch.x.npy"] = false.
Proof.
  repeat split; try (vm_compute; reflexivity).
  exists "spikes.times", "npy". repeat split; try discriminate; reflexivity.
Qed.
Example C13_ex_checkers :
  rows_b 3 4 2 5 [("spikes.x.npy", mkarr DF32 [3; 7] []); ("clusters.y.npy", mkarr DI32 [4] []); ("other.npy", mkarr DI32 [9] [])] = true /\
  rows_b 3 4 2 5 [("channels.z.npy", mkarr DI32 [1; 5] [])] = false /\
  uuids_b 3 [0; 1; 2] = true /\ uuids_b 3 [0; 1; 1] = false /\ uuids_b 3 [0; 1] = false /\
  frame_b true true [] ["temp_wh.dat"] SUBSET = true /\ frame_b true true [] [] SUBSET = false /\
  frame_b false false [] [] [] = true /\ frame_b false false ["amplitudes.npy"] [] [] = false /\
  frame_b false true [] [] ["_phy_spikes_subset.spikes.npy"] = false.
Proof. vm_compute. repeat split. Qed.
Example C13_ex_rawind :
  raw_ind [0; 0; 1; 1] [1; 0; 3; 2] = [1; 0; 2; 1] /\            (* two probes: the second is re-based by max of the first *)
  raw_ind [2; 0; 2; 0] [5; 0; 4; 1] = [4; 0; 3; 1] /\            (* probes visited in increasing id order, channels interleaved *)
  raw_ind [1; 1; 1] [2; 0; 1] = [2; 0; 1] /\
  NClu_Spec [0; 2; 1] [0; 1; 1] 2 3 /\ NClu_Spec [0; 1; 1] [0; 1; 1] 2 2.
Proof.
  repeat split; try (vm_compute; reflexivity); try congruence; try (cbn; tauto); try (intros y Hy; cbn in Hy; lia);
    try (intros H; exfalso; now apply H).
Qed.

(* ================= stage 3 ================= *)

(* Totality / error exits: which exit convert() takes is decided by the input alone, in the order of the code -- same
   directory, sparse templates, no amplitudes, clusters.channels.npy already in the source, no id vectors to compress --
   for every oracle; inside these five guards it returns a value. *)
Theorem C13_convert_total : forall o ci,
  match conv_pre ci with
  | Some e => convert o ci = CErr e
  | None => exists r, convert o ci = COk r
  end.
Proof. exact convert_total. Qed.
Print Assumptions C13_convert_total.

(* force: copy_files(force) with _copy_if_possible's "skip when the destination exists and not force" and the squeeze
   branch transcribed (Proofs5.copy_step).  On a fresh output directory -- holding only what convert() made itself --
   force = True and force = False write the same directory, the one the model uses. *)
Theorem C13_force_fresh : forall force o ci,
  copy_files_f force (add_subset o (ci_has_raw ci) (ci_src ci)) (made o (ci_m ci) (ci_src ci)) = out0_npy o ci.
Proof. exact force_fresh_thm. Qed.
Print Assumptions C13_force_fresh.

(* compress_spikes_dtypes on a bare directory (the route the comparator's InCompress cases judge): when it returns, the
   directory has the same names, every file is itself or -- if one of the two globs selects it -- its uint16 cast, exactly
   the FIRST match of 'spikes.templates.*npy' is cast, and a match of 'spikes.clusters.*npy' is cast.  With
   C13_u16_values: ids below 65536 are unchanged. *)
Theorem C13_compress : forall fs out, fst (compress_model fs) = Some out ->
  Forall2 cimage fs out /\
  (exists a t b, fs = a ++ t :: b /\ glob1 "spikes.templates." "npy" (fst t) = true /\
                 (forall x, In x a -> glob1 "spikes.templates." "npy" (fst x) = false) /\ In (fst t, to_u16 (snd t)) out) /\
  (exists c, In c fs /\ glob1 "spikes.clusters." "npy" (fst c) = true /\ In (fst c, to_u16 (snd c)) out).
Proof. exact compress_thm. Qed.
Print Assumptions C13_compress.

(* the linear uuid checker the comparator runs on 65536 identifiers is the checker of C13_uuids_checker *)
Theorem C13_uuids_fast : forall n ids, uuids_fast n ids = uuids_b n ids.
Proof. exact uuids_fast_eq. Qed.
Print Assumptions C13_uuids_fast.

(* Composition with C14 (Link.v): C13's value oracle instantiated with C14's exporter.  For every argsort meeting
   NumPy's contract, every rounding rnd of the exact values, every label / subset / uuid oracle: if x (C14's input)
   describes the loaded model of ci (Abs) and both models return, then every value file is in the output under its
   re-labelled name with C13's dtype and shape and exactly C14's values, the number of values is what the shape says,
   C14's tables have C13's dimensions, and channels.rawInd -- computed by both -- is the same file. *)
Theorem C13_C14_compose : forall argsort rnd x factor rate subset uuids ci y r,
  Argsort_ok argsort ->
  Abs (ci_m ci) x ->
  export argsort x factor rate = Some y ->
  convert (link_oracles rnd (a_dt (l_pos (ci_m ci))) y subset uuids) ci = COk r ->
  (forall n0 d sh, In (n0, d, sh) (value_files (ci_m ci) (ci_src ci)) ->
     exists a, lookup (relabel (ci_label ci) n0) (co_npy r) = Some a /\
               a_dt a = d /\ a_shape a = sh /\ a_data a = data_of rnd (a_dt (l_pos (ci_m ci))) y n0 /\ arr_wf a = true) /\
  (let m := ci_m ci in
   let N := Z.to_nat in
   List.length (y_cpeak y) = N (n_clu m) /\ List.length (y_p2t y) = N (n_clu m) /\ List.length (y_camps y) = N (n_clu m) /\
   List.length (y_cdepths y) = N (n_clu m) /\ List.length (y_samps y) = N (n_spikes m) /\ List.length (y_sdepths y) = N (n_spikes m) /\
   List.length (y_tamps y) = N (n_templates m) /\
   Shaped3 (N (n_templates m)) (N (n_wsamples m)) (N (ncw m)) (y_twave y) /\ Shaped2 (N (n_templates m)) (N (ncw m)) (y_tchan y) /\
   Shaped3 (N (n_clu m)) (N (n_wsamples m)) (N (ncw m)) (y_cwave y) /\ Shaped2 (N (n_clu m)) (N (ncw m)) (y_cchan y)) /\
  (Forall (fun z => 0 <= z) (x_cmap x) ->
   lookup (relabel (ci_label ci) "channels.rawInd.npy") (co_npy r) =
     Some (mkarr DI64 (a_shape (l_probes (ci_m ci))) (map tz (y_rawind y)))).
Proof.
  intros argsort rnd x factor rate subset uuids ci y r Hs. apply compose_thm.
  intros l. destruct (Hs l) as [P _]. now rewrite (Permutation_length P), seq_length.
Qed.
Print Assumptions C13_C14_compose.

(* the two transcriptions of make_channel_objects' re-basing loop agree on every non-negative channel map *)
Theorem C13_C14_rawind : forall probes cmap, Forall (fun z => 0 <= z) cmap ->
  C13.Model.raw_ind probes cmap = C14.Model.raw_ind probes cmap.
Proof. exact raw_ind_agree. Qed.
Print Assumptions C13_C14_rawind.

(* the two developments count the clusters alike: C14's hypothesis on the loaded n_clusters (Loaded_ncl, i.e.
   C08_merge_map_loaded: curated => max id + 1) plus "n_templates when nothing was curated" is C13's n_clu *)
Theorem C13_C14_nclu : forall m x,
  x_st x = ids_of (l_stemplates m) -> x_sc x = ids_of (l_sclusters m) ->
  ids_ok (l_sclusters m) = true -> ids_ok (l_stemplates m) = true -> l_tcols m = None ->
  Loaded_ncl x -> (x_sc x = x_st x -> x_ncl x = x_nt x) -> x_nt x = n_templates m ->
  x_ncl x = n_clu m.
Proof. exact abs_ncl_loaded. Qed.
Print Assumptions C13_C14_nclu.

(* ---- non-vacuity of the composition: the curated directory of C13_ex_converts with C14's exporter behind it ---- *)
Definition ex_x (m : loaded) : alf_in := mk_alf_in
  [[[1; 2]; [3; 4]]; [[1; 0]; [5; 1]]]                          (* templates.npy of ex_src *)
  [[[1; 2]; [3; 4]]; [[1; 0]; [5; 1]]; [[1; 0]; [5; 1]]]        (* cluster waveforms of the ids 0, 1, 2 *)
  [[1; 0]; [0; 1]] [0; 1; 1] [0; 2; 1] [1; 2; 3] 2 3 (ids_of (l_probes m)) [[0; 0]; [0; 20]] (ids_of (l_cmap m)) None 3 12.
(* exact rendering of a dyadic rational (enough for the example; the theorem holds for every rnd) *)
Definition ex_rnd (_ : dt) (q : QN) : tok :=
  match q with
  | Some v => let r := Qred v in tnorm (TNum (Qnum r) (- Z.log2 (Zpos (Qden r))))
  | None => TNaN
  end.
Definition ex_subset (_ : string) : arr := mkarr DF64 [0] [].
Definition ex_uuids (n : nat) : list Z := map Z.of_nat (seq 0 n).

Example C13_ex_compose :
  match load ex_div tmul ex_round (fun a => a) ex_src (TNum 1 1) (Some 2) with
  | Ok m =>
      let ci := ex_ci m "probe00" false in
      Abs m (ex_x m) /\ Forall (fun z => 0 <= z) (x_cmap (ex_x m)) /\ Loaded_ncl (ex_x m) /\ conv_pre ci = None /\
      match export isort_arg (ex_x m) (Some 1%Q) (Some 2%Q) with
      | Some y =>
          match convert (link_oracles ex_rnd (a_dt (l_pos m)) y ex_subset ex_uuids) ci with
          | COk r =>
              export_all isort_arg ex_rnd (ex_x m) (Some 1%Q) (Some 2%Q) ex_subset ex_uuids ci = COk r /\
              lookup "templates.waveforms.probe00.npy" (co_npy r) =
                Some (mkarr DF32 [2; 2; 2] [TNum 1 0; TNum 1 1; TNum 3 0; TNum 1 2; TNum 5 (-1); TNum 0 0; TNum 25 (-1); TNum 5 (-1)]) /\
              lookup "clusters.waveformsChannels.probe00.npy" (co_npy r) =
                Some (mkarr DI32 [3; 2] [TNum 0 0; TNum 1 0; TNum 0 0; TNum 1 0; TNum 0 0; TNum 1 0]) /\
              lookup "clusters.amps.probe00.npy" (co_npy r) = Some (mkarr DF64 [3] [TNum 1 1; TNum 3 2; TNum 1 3]) /\
              lookup "clusters.peakToTrough.probe00.npy" (co_npy r) = Some (mkarr DF64 [3] [TNum 125 2; TNum 125 2; TNum 125 2]) /\
              lookup "spikes.amps.probe00.npy" (co_npy r) = Some (mkarr DF32 [3] [TNum 1 1; TNum 1 3; TNum 3 2]) /\
              lookup "channels.rawInd.probe00.npy" (co_npy r) = Some (mkarr DI64 [2] (map tz (y_rawind y))) /\
              forallb (fun kv => arr_wf (snd kv)) (co_npy r) = true
          | CErr _ => False
          end
      | None => False
      end
  | Err _ => False
  end.
Proof.
  vm_compute. split; [|split; [repeat constructor; discriminate|split; [reflexivity|repeat split]]].
  constructor; try reflexivity; repeat constructor.
Qed.

(* ---- the uint16 boundary, and one step beyond the statement ("ids below 65536") ---- *)
Definition ex_src_ids (c0 : Z) : files :=
  map (fun kv => if String.eqb (fst kv) "spike_clusters.npy" then (fst kv, mkarr DI32 [3] [tz c0; TNum 1 1; TNum 1 0]) else kv) ex_src.
(* no identifiers: ex_o's 65536 uuids (map Z.of_nat on unary numbers) would cost minutes and play no role here *)
Definition ex_o0 : oracles := mkoracles (fun _ => []) (fun _ => mkarr DF64 [0] []) (fun _ => []).
Definition ex_reloaded_clusters (c0 : Z) : option (list tok * list tok * Z) :=
  match load ex_div tmul ex_round (fun a => a) (ex_src_ids c0) (TNum 1 1) (Some 2) with
  | Ok m =>
      match convert ex_o0 (mkci m (ex_src_ids c0) [("params.py", 1)] false false "probe00") with
      | COk r =>
          match lookup "spikes.clusters.probe00.npy" (co_npy r), load ex_div tmul ex_round (fun a => a) (co_npy r) (TNum 1 1) (Some 2) with
          | Some a, Ok m2 => Some (a_data a, a_data (l_sclusters m2), n_clu m)
          | _, _ => None
          end
      | CErr _ => None
      end
  | Err _ => None
  end.
Example C13_ex_u16_boundary :
  (* 65534 and 65535 are kept by the cast, 65536 and 65537 wrap to 0 and 1, -1 to 65535 *)
  a_data (to_u16 (mkarr DI64 [5] (map tz [65534; 65535; 65536; 65537; -1]))) = map tz [65534; 65535; 0; 1; 65535] /\
  id_ok (tz 65535) = true /\ id_ok (tz 65536) = false /\
  (* cluster id 65535 (the largest id of the statement): 65536 clusters, the id is stored and read back unchanged *)
  ex_reloaded_clusters 65535 = Some (map tz [65535; 2; 1], map tz [65535; 2; 1], 65536) /\
  (* cluster id 65536 (outside the statement): 65537 clusters are written, but the spike is stored -- and read back -- as a
     spike of cluster 0: a silent merge with the source's cluster 0.  Recorded behaviour, not a claim. *)
  ex_reloaded_clusters 65536 = Some (map tz [0; 2; 1], map tz [0; 2; 1], 65537).
Proof. vm_compute. repeat split. Qed.

(* ---- sparse template storage (outside "dense-template dataset"): the export raises, nothing is produced ---- *)
Example C13_ex_sparse :
  let src := ex_src ++ [("template_ind.npy", mkarr DI32 [2; 2] [TNum 0 0; TNum 1 0; TNum 1 0; TNum 0 0])] in
  match load ex_div tmul ex_round (fun a => a) src (TNum 1 1) (Some 2) with
  | Ok m => l_tcols m <> None /\ conv_pre (mkci m src [] false false "") = Some CSparse /\
            convert ex_o (mkci m src [] false false "") = CErr CSparse
  | Err _ => False
  end.
Proof. vm_compute. repeat split. discriminate. Qed.

(* ---- the exits of C13_convert_total, one input each ---- *)
Example C13_ex_exits :
  match load ex_div tmul ex_round (fun a => a) ex_src (TNum 1 1) (Some 2) with
  | Ok m =>
      conv_pre (ex_ci m "" true) = Some CRefused /\ conv_pre (ex_ci m "x" false) = None /\
      conv_pre (mkci m (("clusters.channels.npy", mkarr DI64 [3] [TNum 0 0; TNum 0 0; TNum 0 0]) :: ex_src) [] false false "") = Some CMissing /\
      conv_pre (mkci m (filter (fun kv => negb (String.eqb (fst kv) "spike_clusters.npy")) ex_src) [] false false "") = Some CStop /\
      convert ex_o (mkci m (filter (fun kv => negb (String.eqb (fst kv) "spike_clusters.npy")) ex_src) [] false false "") = CErr CStop
  | Err _ => False
  end.
Proof. vm_compute. repeat split. Qed.

(* ---- the fast uuid checker and the printers of Fast.v ---- *)
Example C13_ex_fast :
  uuids_fast 4 (zrange 4) = true /\ uuids_fast 4 [0; 1; 1; 2] = false /\ uuids_fast 3 [2; 0; 1] = true /\ uuids_fast 3 (zrange 4) = false /\
  zrange 4 = [0; 1; 2; 3] /\ rle [(2, [TNaN; TNum 1 0]); (1, [TNum 0 0])] = [TNaN; TNum 1 0; TNaN; TNum 1 0; TNum 0 0] /\
  (* compress on a bare directory: first match only, decoy untouched; a missing clusters file = StopIteration AFTER the templates were cast *)
  compress_model [("spikes.templatesX.npy", mkarr DI32 [1] [tz 70000]); ("spikes.templates.a.npy", mkarr DI32 [2] [tz 65535; tz 65536]);
                  ("spikes.clusters.a.npy", mkarr DI64 [1] [tz (-1)])] =
    (Some [("spikes.templatesX.npy", mkarr DI32 [1] [tz 70000]); ("spikes.templates.a.npy", mkarr DU16 [2] [tz 65535; tz 0]);
           ("spikes.clusters.a.npy", mkarr DU16 [1] [tz 65535])],
     [("spikes.templatesX.npy", mkarr DI32 [1] [tz 70000]); ("spikes.templates.a.npy", mkarr DU16 [2] [tz 65535; tz 0]);
      ("spikes.clusters.a.npy", mkarr DU16 [1] [tz 65535])]) /\
  compress_model [("spikes.templates.npy", mkarr DI32 [1] [tz 3])] = (None, [("spikes.templates.npy", mkarr DU16 [1] [tz 3])]).
Proof. vm_compute. repeat split. Qed.
