(* C08/Proofs3.v -- the branch of _load_data and cluster_waveforms: identity, single-template and
   several-template clusters. *)
From Coq Require Import ZArith List Lia Bool Arith Sorted Permutation.
From PV Require Import Base.NpSearch Base.NpSort Base.Tok Base.TokArith C08.Model C08.Spec C08.Proofs C08.Proofs2.
Import ListNotations.
Open Scope Z_scope.

Lemma zlist_eqb_spec a b : zlist_eqb a b = true <-> a = b.
Proof.
  revert b. induction a as [|x a IH]; intros [|y b]; cbn [zlist_eqb]; split; try discriminate; try reflexivity.
  - rewrite andb_true_iff, Z.eqb_eq, IH. intros [-> ->]. reflexivity.
  - intros E. injection E as -> ->. rewrite Z.eqb_refl. cbn. now apply IH.
Qed.

(* ---------- identity branch ---------- *)
Lemma single_rows_all d :
  map (map (map rat_of)) (d_tmpl d) = map (single_rows d) (seq 0 (length (d_tmpl d))).
Proof.
  apply nth_error_ext. intros k. rewrite !nth_error_map. unfold single_rows.
  destruct (nth_error (d_tmpl d) k) as [tw|] eqn:E.
  - assert (H : (k < length (d_tmpl d))%nat) by (apply nth_error_Some; congruence).
    rewrite nth_error_seq_lt by exact H. cbn. now rewrite E.
  - apply nth_error_None in E. cbn. symmetry.
    assert (H : nth_error (seq 0 (length (d_tmpl d))) k = None) by (apply nth_error_None; rewrite seq_length; exact E).
    now rewrite H.
Qed.

Theorem load_identity d :
  d_sc d = d_st d -> d_sc d <> [] ->
  load d = Some (mkld false [] (setdiff_arange (length (d_tmpl d)) (d_st d))
                      (map (single_rows d) (seq 0 (length (d_tmpl d)))) (n_templates d)).
Proof.
  intros E Hne. unfold load. rewrite E, Nat.eqb_refl. cbn [negb].
  rewrite E in Hne. destruct (d_st d) as [|x r] eqn:Est; [congruence|].
  replace (zlist_eqb (x :: r) (x :: r)) with true by (symmetry; now apply zlist_eqb_spec).
  now rewrite single_rows_all.
Qed.

(* ---------- curated branch ---------- *)
Lemma load_curated d m :
  d_sc d <> d_st d -> load d = Some m ->
  l_curated m = true /\ merge_map (d_st d) (d_sc d) = Some (l_mm m) /\ l_nan m = nan_from 0 (l_mm m) /\
  cluster_waveforms d (l_mm m) = Some (l_data m) /\ length (d_st d) = length (d_sc d) /\
  (forall M, IsMax M (d_sc d) -> l_ncl m = M + 1).
Proof.
  intros Hne H. unfold load in H.
  destruct (Nat.eqb_spec (length (d_st d)) (length (d_sc d))) as [El|]; [|discriminate]. cbn [negb] in H.
  destruct (d_sc d) as [|x r] eqn:Esc; [discriminate|].
  destruct (zlist_eqb (x :: r) (d_st d)) eqn:Eq; [apply zlist_eqb_spec in Eq; congruence|].
  destruct (merge_map (d_st d) (x :: r)) as [mm|] eqn:Em; [|discriminate].
  destruct (cluster_waveforms d mm) as [data|] eqn:Ec; [|discriminate].
  injection H as <-. cbn. repeat split; auto.
  intros M HM. apply ismax_zmax in HM. now subst.
Qed.

Lemma merge_map_some_nonneg st sc mm : merge_map st sc = Some mm -> sc <> [] /\ forall c, In c sc -> 0 <= c.
Proof.
  intros H. split; [intros ->; discriminate|]. intros c Hc.
  destruct (Z.ltb_spec c 0) as [Hneg|]; [|assumption].
  rewrite (merge_map_negative st sc c Hc Hneg) in H. discriminate.
Qed.

Lemma nth_error_combine {A B} (a : list A) (b : list B) i x y :
  nth_error a i = Some x -> nth_error b i = Some y -> nth_error (combine a b) i = Some (x, y).
Proof.
  revert b i. induction a as [|x' a IH]; intros [|y' b] [|i] Ha Hb; try discriminate.
  - cbn in *. congruence.
  - cbn in *. now apply IH.
Qed.

Lemma nth_error_zrange n c : (c < n)%nat -> nth_error (zrange 0 n) c = Some (Z.of_nat c).
Proof.
  intros H. rewrite zrange_seq, nth_error_map, nth_error_seq_lt by exact H. reflexivity.
Qed.

(* the waveform row of cluster c is cw_row applied to its merge-map entry *)
Lemma cluster_row d mm data c l :
  cluster_waveforms d mm = Some data -> nth_error mm c = Some l ->
  exists row, cw_row d (Z.of_nat c) l = Some row /\ nth_error data c = Some row.
Proof.
  intros H Hl. unfold cluster_waveforms in H.
  assert (Hc : (c < length mm)%nat) by (apply nth_error_Some; congruence).
  pose proof (nth_error_combine _ _ _ _ _ (nth_error_zrange _ _ Hc) Hl) as Hk.
  destruct (omap_nth _ _ _ _ _ H Hk) as (y & Hy & Hn). exists y. split; assumption.
Qed.

Lemma sorted_singleton l t :
  StronglySorted Z.lt l -> (forall t', In t' l <-> t' = t) -> l = [t].
Proof.
  intros Hs H. destruct l as [|a r].
  - exfalso. now apply (H t).
  - assert (a = t) by (apply H; now left). subst a. f_equal.
    destruct r as [|b r]; [reflexivity|exfalso].
    assert (b = t) by (apply H; right; now left). subst b.
    inversion Hs as [|? ? _ Hf]; subst. inversion Hf; subst. lia.
Qed.

(* the curated branch delivers a merge map meeting its specification *)
Lemma load_merge_map d m :
  d_sc d <> d_st d -> load d = Some m -> MergeMap_Spec (d_st d) (d_sc d) (l_mm m) (l_nan m).
Proof.
  intros Hne H. destruct (load_curated d m Hne H) as (_ & Hm & Hn & _ & Hl & _).
  destruct (merge_map_some_nonneg _ _ _ Hm) as (Hne' & Hpos).
  destruct (merge_map_spec _ _ Hl Hne' Hpos) as (mm & E & S). rewrite Hn. rewrite Hm in E. injection E as <-. exact S.
Qed.

Theorem cluster_single d m c t :
  d_sc d <> d_st d -> load d = Some m ->
  In c (d_sc d) -> (forall t', PairIn (d_st d) (d_sc d) c t' -> t' = t) ->
  nth_error (l_data m) (Z.to_nat c) = Some (single_rows d (Z.to_nat t)).
Proof.
  intros Hne H Hin Hall.
  destruct (load_curated d m Hne H) as (_ & Hm & _ & Hcw & Hl & _).
  destruct (merge_map_some_nonneg _ _ _ Hm) as (Hne' & Hpos).
  pose proof (load_merge_map d m Hne H) as Hspec.
  destruct (d_sc d) as [|x r] eqn:Esc; [congruence|]. rewrite <- Esc in *.
  assert (HM : IsMax (zmax_ne x r) (d_sc d)).
  { rewrite Esc. split; [apply zmax_ne_in|]. intros y Hy. now apply zmax_ne_ub. }
  destruct (Hspec _ HM) as (_ & Hent & _).
  assert (Hc : 0 <= c <= zmax_ne x r) by (split; [now apply Hpos|apply HM; exact Hin]).
  destruct (Hent c Hc) as (l & Hl' & Hs & Hmem).
  (* the spike of c has template t *)
  assert (Hpt : PairIn (d_st d) (d_sc d) c t).
  { apply in_nth_error in Hin. destruct Hin as (i & Hi).
    destruct (nth_error (d_st d) i) as [t'|] eqn:Et.
    - assert (t' = t) by (apply Hall; exists i; tauto). subst. exists i. tauto.
    - apply nth_error_None in Et. assert (i < length (d_sc d))%nat by (apply nth_error_Some; congruence). lia. }
  assert (El : l = [t]).
  { apply sorted_singleton; [exact Hs|]. intros t'. rewrite Hmem. split; [apply Hall|now intros ->]. }
  subst l. destruct (cluster_row d _ _ _ _ Hcw Hl') as (row & Hrow & Hn). rewrite Hn. f_equal.
  unfold cw_row in Hrow. destruct (t <? 0); [discriminate|]. unfold single_rows.
  destruct (nth_error (d_tmpl d) (Z.to_nat t)); [|discriminate]. now injection Hrow as <-.
Qed.

Lemma chans_of_in_range d unw t :
  WF d -> forall ch, In ch (chans_of d unw t) -> 0 <= ch < Z.of_nat (n_channels d).
Proof.
  intros Hwf ch. unfold chans_of. destruct (get_template d t unw) as [tp|] eqn:E; [|intros []].
  now apply (chans_in_range d t unw tp).
Qed.

Theorem cluster_mean d m c t1 t2 :
  WF d -> d_sc d <> d_st d -> load d = Some m ->
  PairIn (d_st d) (d_sc d) c t1 -> PairIn (d_st d) (d_sc d) c t2 -> t1 <> t2 ->
  exists tb, Dominant d c tb /\ nth_error (l_data m) (Z.to_nat c) = Some (mean_rows d c tb).
Proof.
  intros Hwf Hne H H1 H2 Hd.
  destruct (load_curated d m Hne H) as (_ & Hm & _ & Hcw & Hl & _).
  destruct (merge_map_some_nonneg _ _ _ Hm) as (Hne' & Hpos).
  pose proof (load_merge_map d m Hne H) as Hspec.
  destruct (d_sc d) as [|x r] eqn:Esc; [congruence|]. rewrite <- Esc in *.
  assert (HM : IsMax (zmax_ne x r) (d_sc d)).
  { rewrite Esc. split; [apply zmax_ne_in|]. intros y Hy. now apply zmax_ne_ub. }
  destruct (Hspec _ HM) as (_ & Hent & _).
  assert (Hin : In c (d_sc d)) by (destruct H1 as (i & Hi & _); eapply nth_error_In; exact Hi).
  assert (Hc : 0 <= c <= zmax_ne x r) by (split; [now apply Hpos|apply HM; exact Hin]).
  destruct (Hent c Hc) as (l & Hl' & Hs & Hmem).
  apply Hmem in H1. apply Hmem in H2.
  destruct (cluster_row d _ _ _ _ Hcw Hl') as (row & Hrow & Hn). rewrite Z2Nat.id in Hrow by lia.
  assert (Hlong : exists a b rest, l = a :: b :: rest).
  { destruct l as [|a [|b rest]]; [destruct H1| |eauto].
    destruct H1 as [<-|[]]. destruct H2 as [<-|[]]. congruence. }
  destruct Hlong as (a & b & rest & ->). cbn [cw_row] in Hrow.
  destruct (mean_waveforms d c false) as [mwf|] eqn:Emw; [|discriminate].
  destruct (mean_waveforms_spec d c false mwf Hwf Emw) as (tb & Hdom & Hch & Hden & Hnum).
  exists tb. split; [exact Hdom|]. rewrite Hn. f_equal.
  rewrite Hnum, Hch, Hden in Hrow. unfold mean_num in Hrow. rewrite omap_map in Hrow.
  rewrite (omap_all_some _ (fun s => map (fun k => if memZ k (chans_of d false tb)
                                                   then mkrat (wnum d false c s k) (wden d c) else rat_of 0)
                                         (zrange 0 (n_channels d)))) in Hrow.
  - injection Hrow as <-. reflexivity.
  - intros s _. rewrite map_map.
    apply (scatter_const (fun k => mkrat (wnum d false c s k) (wden d c))). now apply chans_of_in_range.
Qed.

(* shape of the curated result: one waveform and one merge-map entry per id 0..max, n_clusters = their number *)
Lemma load_shape d m :
  d_sc d <> d_st d -> load d = Some m ->
  length (l_data m) = length (l_mm m) /\ l_ncl m = zlen (l_mm m).
Proof.
  intros Hne H. destruct (load_curated d m Hne H) as (_ & Hm & _ & Hcw & Hl & Hncl).
  destruct (merge_map_some_nonneg _ _ _ Hm) as (Hne' & Hpos).
  pose proof (load_merge_map d m Hne H) as Hspec.
  split.
  - unfold cluster_waveforms in Hcw. apply omap_length in Hcw. rewrite Hcw, combine_length, zrange_length. lia.
  - destruct (d_sc d) as [|x r] eqn:Esc; [congruence|]. rewrite <- Esc in *.
    assert (HM : IsMax (zmax_ne x r) (d_sc d)).
    { rewrite Esc. split; [apply zmax_ne_in|]. intros y Hy. now apply zmax_ne_ub. }
    destruct (Hspec _ HM) as (Hlen & _). rewrite (Hncl _ HM). lia.
Qed.

Lemma wf_b_sound d : wf_b d = true -> WF d.
Proof.
  unfold wf_b, WF. rewrite !andb_true_iff. intros ((((H1 & H2) & H3) & H4) & H5).
  apply Nat.eqb_eq in H1. apply Nat.eqb_eq in H4.
  rewrite forallb_forall in H2, H3, H5.
  split; [exact H1|]. split; [|split; [|split; [exact H4|]]].
  - intros t Ht. apply H2 in Ht. lia.
  - intros tw Htw. apply H3 in Htw. apply andb_true_iff in Htw. destruct Htw as (Ha & Hb).
    apply Nat.eqb_eq in Ha. split; [exact Ha|]. rewrite forallb_forall in Hb.
    intros row Hr. apply Hb in Hr. now apply Nat.eqb_eq in Hr.
  - intros r Hr. apply H5 in Hr. now apply Nat.eqb_eq in Hr.
Qed.

(* a dominant template is unique when no other template has as many of the cluster's spikes *)
Lemma dominant_b_spec d c tb : dominant_b d c tb = true <-> Dominant d c tb.
Proof.
  unfold dominant_b, Dominant. rewrite !andb_true_iff, forallb_forall, Nat.ltb_lt, Z.ltb_lt. split.
  - intros ((H1 & H2) & H3). repeat split; auto. intros t Ht. apply Z.leb_le, H3, in_seq. lia.
  - intros (H1 & H2 & H3). repeat split; auto. intros t Ht. apply Z.leb_le, H3. apply in_seq in Ht. lia.
Qed.

(* the table-driven evaluation used by the comparator is the closed form of the specification *)
Lemma wsum3_maps (f : nat -> Z) (g : nat -> list Z) (h : nat -> list (list Z)) (S : list nat) s k :
  wsum3 (map f S) (map g S) (map h S) s k =
  zsum (map (fun t => f t * (if memZ k (g t) then cell (h t) s k else 0)) S).
Proof. induction S as [|t S IH]; [reflexivity|]. cbn [map wsum3]. rewrite IH. reflexivity. Qed.

Lemma wnum_f_eq d unw c s k : wnum_f (tables_of d unw c) s k = wnum d unw c s k.
Proof. unfold wnum_f, tables_of, wnum, masked. cbn [tb_w tb_ch tb_tm]. apply wsum3_maps. Qed.

Lemma mean_rows_f_eq d c tb :
  mean_rows_f d c (tables_of d false c) (chans_of d false tb) = mean_rows d c tb.
Proof.
  unfold mean_rows_f, mean_rows. apply map_ext. intros s. apply map_ext. intros k.
  rewrite wnum_f_eq. unfold tables_of, wden. cbn [tb_w]. reflexivity.
Qed.
