(* C08/Proofs.v -- provenance: get_merge_map and nan_idx meet MergeMap_Spec. *)
From Coq Require Import ZArith List Lia Bool Arith Sorted Permutation.
From PV Require Import Base.NpSearch Base.NpSort Base.Tok Base.TokArith C08.Model C08.Spec.
Import ListNotations.
Open Scope Z_scope.

(* ---------- np.unique ---------- *)
Lemma ins_u_in x l z : In z (ins_u x l) <-> z = x \/ In z l.
Proof.
  induction l as [|y r IH]; cbn [ins_u].
  - cbn. intuition.
  - destruct (x <? y) eqn:E1; [cbn; intuition|].
    destruct (x =? y) eqn:E2.
    + apply Z.eqb_eq in E2. subst. cbn. intuition.
    + cbn [In]. rewrite IH. intuition.
Qed.

Lemma np_unique_in l z : In z (np_unique l) <-> In z l.
Proof.
  induction l as [|x r IH]; cbn [np_unique fold_right]; [reflexivity|].
  fold (np_unique r). rewrite ins_u_in, IH. cbn. intuition.
Qed.

Lemma ins_u_sorted x l : Sorted Z.lt l -> Sorted Z.lt (ins_u x l).
Proof.
  induction l as [|y r IH]; intros H; cbn [ins_u].
  - repeat constructor.
  - destruct (x <? y) eqn:E1.
    + constructor; [exact H|constructor; lia].
    + destruct (x =? y) eqn:E2; [exact H|].
      inversion H as [|? ? Hs Hh]; subst. constructor; [apply IH; exact Hs|].
      destruct r as [|z r']; cbn [ins_u].
      * constructor. lia.
      * inversion Hh; subst. destruct (x <? z); [constructor; lia|].
        destruct (x =? z); constructor; lia.
Qed.

Lemma np_unique_sorted l : StronglySorted Z.lt (np_unique l).
Proof.
  apply Sorted_StronglySorted; [intros a b c; lia|].
  induction l as [|x r IH]; cbn [np_unique fold_right]; [constructor|].
  apply ins_u_sorted. exact IH.
Qed.

Lemma sorted_filter (f : Z -> bool) l : StronglySorted Z.lt l -> StronglySorted Z.lt (filter f l).
Proof.
  induction 1 as [|x r Hs IH Hf]; cbn [filter]; [constructor|].
  destruct (f x); [|exact IH]. constructor; [exact IH|].
  rewrite Forall_forall in *. intros y Hy. apply filter_In in Hy. apply Hf. tauto.
Qed.

Lemma sorted_lt_NoDup l : StronglySorted Z.lt l -> NoDup l.
Proof.
  induction 1 as [|x r Hs IH Hf]; constructor; [|exact IH].
  intros Hin. rewrite Forall_forall in Hf. specialize (Hf x Hin). lia.
Qed.

Lemma memZ_In x l : memZ x l = true <-> In x l.
Proof.
  unfold memZ. rewrite existsb_exists. split.
  - intros (y & Hy & E). apply Z.eqb_eq in E. now subst.
  - intros H. exists x. split; [exact H|apply Z.eqb_refl].
Qed.

(* ---------- positions ---------- *)
Lemma in_combine_nth {A B} (l1 : list A) (l2 : list B) a b :
  In (a, b) (combine l1 l2) <-> exists i, nth_error l1 i = Some a /\ nth_error l2 i = Some b.
Proof.
  revert l2. induction l1 as [|x r IH]; intros l2.
  - cbn. split; [tauto|]. intros (i & H & _). destruct i; discriminate.
  - destruct l2 as [|y r2].
    + cbn. split; [tauto|]. intros (i & _ & H). destruct i; discriminate.
    + cbn [combine In]. rewrite IH. split.
      * intros [E|(i & H1 & H2)]; [injection E as -> ->; now exists O|now exists (S i)].
      * intros ([|i] & H1 & H2); cbn in H1, H2; [left; congruence|right; now exists i].
Qed.

Lemma sel_in a b key v :
  In v (sel a b key) <-> exists i, nth_error a i = Some key /\ nth_error b i = Some v.
Proof.
  unfold sel. rewrite in_map_iff. split.
  - intros ([k w] & E & Hin). cbn in E. subst w. apply filter_In in Hin. destruct Hin as [Hin Hk].
    cbn in Hk. apply Z.eqb_eq in Hk. subst k. now apply in_combine_nth.
  - intros Hi. exists (key, v). split; [reflexivity|]. apply filter_In. split.
    + now apply in_combine_nth.
    + cbn. apply Z.eqb_refl.
Qed.

Lemma in_nth_error {A} (l : list A) x : In x l <-> exists i, nth_error l i = Some x.
Proof.
  split; [apply In_nth_error|]. intros (i & H). eapply nth_error_In; exact H.
Qed.

(* ---------- np.max ---------- *)
Lemma zmax_ne_ub x r y : In y (x :: r) -> y <= zmax_ne x r.
Proof.
  unfold zmax_ne. induction r as [|z r IH]; cbn [fold_right In].
  - intros [->|[]]. lia.
  - intros [->|[->|H]]; [specialize (IH (or_introl eq_refl))|..|specialize (IH (or_intror H))]; lia.
Qed.
Lemma zmax_ne_in x r : In (zmax_ne x r) (x :: r).
Proof.
  unfold zmax_ne. induction r as [|z r IH]; cbn [fold_right]; [now left|].
  destruct (Z.max_spec z (fold_right Z.max x r)) as [[_ ->]|[_ ->]].
  - destruct IH as [E|H]; [left; exact E|right; right; exact H].
  - right; now left.
Qed.
Lemma ismax_zmax M x r : IsMax M (x :: r) -> M = zmax_ne x r.
Proof.
  intros [Hin Hub]. pose proof (zmax_ne_ub x r M Hin). pose proof (Hub _ (zmax_ne_in x r)). lia.
Qed.

(* ---------- the append loop ---------- *)
Lemma app_at_length inv n t : length (app_at inv n t) = length inv.
Proof. revert n. induction inv as [|l r IH]; intros [|n]; cbn [app_at length]; auto. Qed.

Lemma app_at_nth inv n t c :
  nth_error (app_at inv n t) c =
  if (c =? n)%nat then option_map (fun l => l ++ [t]) (nth_error inv c) else nth_error inv c.
Proof.
  revert n c. induction inv as [|l r IH]; intros n c.
  - cbn [app_at]. destruct c, n; cbn; try reflexivity. destruct (c =? n)%nat; reflexivity.
  - destruct n as [|n]; destruct c as [|c]; cbn [app_at nth_error]; try reflexivity.
    rewrite IH. reflexivity.
Qed.

Lemma fold_app_at (L : list Z) t inv c :
  NoDup L -> (forall n, In n L -> 0 <= n) ->
  nth_error (fold_left (fun inv n => app_at inv (Z.to_nat n) t) L inv) c =
  if memZ (Z.of_nat c) L then option_map (fun l => l ++ [t]) (nth_error inv c) else nth_error inv c.
Proof.
  revert inv. induction L as [|n L IH]; intros inv Hnd Hpos; [reflexivity|].
  cbn [fold_left]. inversion Hnd as [|? ? Hnot Hnd']; subst.
  rewrite IH; [|exact Hnd'|intros; apply Hpos; now right].
  rewrite app_at_nth. unfold memZ. cbn [existsb]. fold (memZ (Z.of_nat c) L).
  assert (Hn : 0 <= n) by (apply Hpos; now left).
  destruct (Nat.eqb_spec c (Z.to_nat n)) as [E|E].
  - assert (E' : Z.of_nat c = n) by lia. rewrite E'. rewrite Z.eqb_refl. cbn [orb].
    destruct (memZ n L) eqn:M; [apply memZ_In in M; contradiction|reflexivity].
  - destruct (Z.eqb_spec (Z.of_nat c) n) as [E'|E']; [exfalso; apply E; lia|]. reflexivity.
Qed.

Lemma sel_nonneg a b key : (forall v, In v b -> 0 <= v) -> forall v, In v (sel a b key) -> 0 <= v.
Proof.
  intros H v Hv. apply sel_in in Hv. destruct Hv as (i & _ & Hi). apply H. eapply nth_error_In; exact Hi.
Qed.

Definition has_pair (st sc : list Z) (c : nat) (t : Z) : bool := memZ (Z.of_nat c) (np_unique (sel st sc t)).

Lemma mm_fold st sc (U : list Z) inv c :
  (forall v, In v sc -> 0 <= v) ->
  nth_error (fold_left (mm_step st sc) U inv) c =
  option_map (fun l => l ++ filter (has_pair st sc c) U) (nth_error inv c).
Proof.
  intros Hpos. revert inv. induction U as [|t U IH]; intros inv.
  - cbn [fold_left filter]. destruct (nth_error inv c); cbn; [now rewrite app_nil_r|reflexivity].
  - cbn [fold_left filter]. rewrite IH. unfold mm_step.
    rewrite fold_app_at.
    + fold (has_pair st sc c t). destruct (has_pair st sc c t).
      * destruct (nth_error inv c); cbn [option_map]; [|reflexivity].
        now rewrite <- app_assoc.
      * reflexivity.
    + apply sorted_lt_NoDup, np_unique_sorted.
    + intros n Hn. apply (proj1 (np_unique_in _ _)) in Hn. eapply sel_nonneg; eauto.
Qed.

Lemma has_pair_spec st sc c t :
  has_pair st sc c t = true <-> PairIn st sc (Z.of_nat c) t.
Proof.
  unfold has_pair, PairIn. rewrite memZ_In, np_unique_in, sel_in. split; intros (i & A & B); exists i; tauto.
Qed.

Lemma nth_error_repeat {A} (x : A) n c : (c < n)%nat -> nth_error (repeat x n) c = Some x.
Proof. revert c. induction n as [|n IH]; intros [|c] H; cbn; try lia; [reflexivity|apply IH; lia]. Qed.

Lemma fold_mm_length st sc U inv : length (fold_left (mm_step st sc) U inv) = length inv.
Proof.
  revert inv. induction U as [|t U IH]; intros inv; [reflexivity|].
  cbn [fold_left]. rewrite IH. unfold mm_step.
  generalize (np_unique (sel st sc t)). intros L. revert inv. induction L as [|n L IHL]; intros inv; [reflexivity|].
  cbn [fold_left]. rewrite IHL. apply app_at_length.
Qed.

(* ---------- nan_idx ---------- *)
Lemma nan_from_in i m c :
  In c (nan_from i m) <-> exists k, c = i + Z.of_nat k /\ nth_error m k = Some [].
Proof.
  revert i. induction m as [|l r IH]; intros i; cbn [nan_from].
  - split; [intros []|]. intros (k & _ & H). destruct k; discriminate.
  - destruct l as [|y l'].
    + cbn [In]. rewrite IH. split.
      * intros [<-|(k & -> & H)]; [exists O; split; [lia|reflexivity]|exists (S k); split; [lia|exact H]].
      * intros ([|k] & -> & H); [left; lia|right; exists k; split; [lia|exact H]].
    + rewrite IH. split.
      * intros (k & -> & H). exists (S k). split; [lia|exact H].
      * intros ([|k] & -> & H); [discriminate|]. exists k. split; [lia|exact H].
Qed.

Lemma nan_from_sorted i m : StronglySorted Z.lt (nan_from i m).
Proof.
  revert i. induction m as [|l r IH]; intros i; cbn [nan_from]; [constructor|].
  destruct l; [|apply IH]. constructor; [apply IH|].
  apply Forall_forall. intros c Hc. apply nan_from_in in Hc. destruct Hc as (k & -> & _). lia.
Qed.

(* ---------- main theorem ---------- *)
Theorem merge_map_spec st sc :
  length st = length sc -> sc <> [] -> (forall c, In c sc -> 0 <= c) ->
  exists mm, merge_map st sc = Some mm /\ MergeMap_Spec st sc mm (nan_from 0 mm).
Proof.
  intros Hlen Hne Hpos. destruct sc as [|x r]; [congruence|]. clear Hne.
  unfold merge_map.
  replace (existsb (fun c => c <? 0) (x :: r)) with false.
  2:{ symmetry. apply not_true_is_false. intros H. apply existsb_exists in H. destruct H as (c & Hc & E).
      specialize (Hpos c Hc). lia. }
  set (sc := x :: r) in *. set (M := zmax_ne x r).
  eexists. split; [reflexivity|].
  set (mm := fold_left _ _ _).
  assert (HM0 : 0 <= M) by (pose proof (zmax_ne_in x r) as H; apply Hpos in H; exact H).
  assert (Hentry : forall c, (c < Z.to_nat (M + 1))%nat ->
            nth_error mm c = Some (filter (has_pair st sc c) (np_unique st))).
  { intros c Hc. unfold mm. rewrite mm_fold by exact Hpos. rewrite nth_error_repeat by exact Hc. reflexivity. }
  assert (Hlen_mm : length mm = Z.to_nat (M + 1)).
  { unfold mm. rewrite fold_mm_length. apply repeat_length. }
  intros M' HM'. apply ismax_zmax in HM'. fold M in HM'. subst M'.
  split; [unfold zlen; rewrite Hlen_mm; lia|].
  assert (Hmem : forall c, 0 <= c <= M -> forall t,
            In t (filter (has_pair st sc (Z.to_nat c)) (np_unique st)) <-> PairIn st sc c t).
  { intros c Hc t. rewrite filter_In, np_unique_in, has_pair_spec. rewrite Z2Nat.id by lia. split; [tauto|].
    intros H. split; [|exact H]. destruct H as (i & _ & Hi). eapply nth_error_In; exact Hi. }
  split; [|split].
  - intros c Hc. eexists. split; [apply Hentry; lia|]. split; [apply sorted_filter, np_unique_sorted|].
    apply Hmem. exact Hc.
  - apply nan_from_sorted.
  - intros c. rewrite nan_from_in. split.
    + intros (k & -> & Hk). rewrite Z.add_0_l.
      assert (Hk' : (k < Z.to_nat (M + 1))%nat).
      { rewrite <- Hlen_mm. apply nth_error_Some. congruence. }
      split; [lia|]. intros Hin. apply in_nth_error in Hin. destruct Hin as (i & Hi).
      assert (Hsti : exists t, nth_error st i = Some t).
      { destruct (nth_error st i) eqn:E; [eauto|]. apply nth_error_None in E.
        assert (i < length sc)%nat by (apply nth_error_Some; congruence). lia. }
      destruct Hsti as (t & Ht).
      rewrite Hentry in Hk by exact Hk'. injection Hk as Hk.
      assert (Hin : In t (filter (has_pair st sc k) (np_unique st))).
      { replace k with (Z.to_nat (Z.of_nat k)) by lia. apply Hmem; [lia|]. exists i. tauto. }
      rewrite Hk in Hin. exact Hin.
    + intros (Hc & Hnot). exists (Z.to_nat c). split; [lia|]. rewrite Hentry by lia.
      f_equal. destruct (filter _ _) as [|t l] eqn:E; [reflexivity|exfalso].
      assert (Hin : In t (filter (has_pair st sc (Z.to_nat c)) (np_unique st))) by (rewrite E; now left).
      apply Hmem in Hin; [|exact Hc]. destruct Hin as (i & Hi & _). apply Hnot. eapply nth_error_In; exact Hi.
Qed.

(* the guards are exact *)
Lemma merge_map_empty st : merge_map st [] = None.
Proof. reflexivity. Qed.
Lemma merge_map_negative st sc c : In c sc -> c < 0 -> merge_map st sc = None.
Proof.
  intros Hin Hc. destruct sc as [|x r]; [destruct Hin|]. unfold merge_map.
  replace (existsb (fun c => c <? 0) (x :: r)) with true; [reflexivity|].
  symmetry. apply existsb_exists. exists c. split; [exact Hin|lia].
Qed.
