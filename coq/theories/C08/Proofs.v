(* C08/Proofs.v -- lemmas and main proofs. *)
From Coq Require Import ZArith List Lia Bool Arith Sorted Permutation.
From PV Require Import Base.NpSearch Base.NpSort Base.Tok Base.TokArith C08.Model C08.Spec.
Import ListNotations.
Open Scope Z_scope.

Lemma ins_u_in x l z : In z (ins_u x l) <-> z = x \/ In z l.
Proof.
  induction l as [|y r IH]; cbn [ins_u].
  - cbn. intuition.
  - destruct (x <? y) eqn:E1; [cbn; intuition|].
    destruct (x =? y) eqn:E2.
    + apply Z.eqb_eq in E2. subst. cbn. intuition.
    + cbn [In]. rewrite IH. intuition.
Qed.

Lemma np_unique_in l z : In z (np_unique l) <-> In z l.
Proof.
  induction l as [|x r IH]; cbn [np_unique fold_right]; [reflexivity|].
  fold (np_unique r). rewrite ins_u_in, IH. cbn. intuition.
Qed.
