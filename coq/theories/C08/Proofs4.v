(* C08/Proofs4.v -- totality: on well-formed data whose templates all have a channel list (get_template
   succeeds: C05's subject), get_cluster_mean_waveforms succeeds on every cluster that has a spike and
   _load_data's cluster branch succeeds. *)
From Coq Require Import ZArith List Lia Bool Arith Sorted Permutation.
From PV Require Import Base.NpSearch Base.NpSort Base.Tok Base.TokArith C08.Model C08.Spec C08.Proofs C08.Proofs2 C08.Proofs3.
Import ListNotations.
Open Scope Z_scope.

Definition Templates_OK (d : dset) (unw : bool) : Prop :=
  forall t, (t < length (d_tmpl d))%nat -> get_template d t unw <> None.

Lemma omap_total {A B} (f : A -> option B) l :
  (forall x, In x l -> exists y, f x = Some y) -> exists r, omap f l = Some r.
Proof.
  induction l as [|x l IH]; intros H; [now exists []|].
  destruct (H x (or_introl eq_refl)) as (y & Hy). destruct IH as (r & Hr); [intros; apply H; now right|].
  exists (y :: r). cbn [omap]. rewrite Hy. cbn [obind]. rewrite Hr. reflexivity.
Qed.

Lemma omap_in_result {A B} (f : A -> option B) l r y :
  omap f l = Some r -> In y r -> exists x, In x l /\ f x = Some y.
Proof.
  revert r. induction l as [|x l IH]; intros r H Hy.
  - cbn in H. injection H as <-. destruct Hy.
  - apply omap_cons in H. destruct H as (y' & ys & Hy' & H & ->).
    destruct Hy as [<-|Hy]; [exists x; split; [now left|exact Hy']|].
    destruct (IH ys H Hy) as (x' & Hx & Hf). exists x'. split; [now right|exact Hf].
Qed.

Lemma cnt_pos d c t : 0 < cnt d c t <-> PairIn (d_st d) (d_sc d) c t.
Proof.
  unfold cnt, PairIn. split.
  - intros H. destruct (filter _ _) as [|[a b] l] eqn:E; [cbn in H; lia|].
    assert (Hin : In (a, b) (filter (fun p => (fst p =? c) && (snd p =? t)) (combine (d_sc d) (d_st d))))
      by (rewrite E; now left).
    apply filter_In in Hin. destruct Hin as (Hin & Hb). cbn in Hb. apply andb_true_iff in Hb.
    destruct Hb as (Ha%Z.eqb_eq & Hb%Z.eqb_eq). subst. now apply in_combine_nth.
  - intros Hp. apply in_combine_nth in Hp.
    assert (Hin : In (c, t) (filter (fun p => (fst p =? c) && (snd p =? t)) (combine (d_sc d) (d_st d)))).
    { apply filter_In. split; [exact Hp|]. cbn. now rewrite !Z.eqb_refl. }
    destruct (filter _ _); [destruct Hin|cbn [length]; lia].
Qed.

Lemma zsum_pos l x : (forall y, In y l -> 0 <= y) -> In x l -> 0 < x -> 0 < zsum l.
Proof.
  induction l as [|a l IH]; intros Hn Hin Hx; [destruct Hin|].
  unfold zsum in *. cbn [fold_right].
  assert (Hl : 0 <= fold_right Z.add 0 l).
  { clear IH Hin. induction l as [|b l IHl]; cbn; [lia|].
    pose proof (Hn b (or_intror (or_introl eq_refl))).
    assert (0 <= fold_right Z.add 0 l); [apply IHl; intros y [->|Hy]; apply Hn; [now left|right; now right]|lia]. }
  destruct Hin as [->|Hin]; [lia|].
  pose proof (Hn a (or_introl eq_refl)).
  assert (0 < fold_right Z.add 0 l) by (apply IH; [intros y Hy; apply Hn; now right|exact Hin|exact Hx]). lia.
Qed.

Lemma wden_pos d c : WF d -> In c (d_sc d) -> 0 < wden d c.
Proof.
  intros (Hl & Hst & _) Hin. apply in_nth_error in Hin. destruct Hin as (i & Hi).
  destruct (nth_error (d_st d) i) as [t|] eqn:Et.
  2:{ apply nth_error_None in Et. assert (i < length (d_sc d))%nat by (apply nth_error_Some; congruence). lia. }
  assert (Ht : 0 <= t < n_templates d) by (apply Hst; eapply nth_error_In; exact Et).
  unfold wden. apply (zsum_pos _ (cnt d c t)).
  - intros y Hy. apply in_map_iff in Hy. destruct Hy as (t' & <- & _). apply cnt_nonneg.
  - apply in_map_iff. exists (Z.to_nat t). split; [f_equal; lia|]. apply in_seq.
    unfold n_templates, zlen in Ht. lia.
  - apply cnt_pos. exists i. tauto.
Qed.

Theorem mean_waveforms_total d c unw :
  WF d -> Templates_OK d unw -> In c (d_sc d) -> exists m, mean_waveforms d c unw = Some m.
Proof.
  intros Hwf Hok Hin. pose proof Hwf as (Hl & Hst & _).
  assert (Hcnt : exists count, get_template_counts d c = Some count).
  { unfold get_template_counts, bincount.
    replace (existsb (fun v => v <? 0) (sel (d_sc d) (d_st d) c)) with false; [eauto|].
    symmetry. apply not_true_is_false. intros H. apply existsb_exists in H. destruct H as (v & Hv & E).
    apply sel_in_st, Hst in Hv. lia. }
  destruct Hcnt as (count & Ec). pose proof (counts_spec d c count Hwf Ec) as Hc.
  set (nt := length (d_tmpl d)) in *.
  assert (Hnt : (0 < nt)%nat).
  { pose proof (wden_pos d c Hwf Hin) as Hp. unfold wden in Hp. fold nt in Hp. destruct nt; [cbn in Hp; lia|lia]. }
  assert (Ha : exists best, argmax count = Some best).
  { rewrite Hc. destruct nt; [lia|]. cbn [seq map argmax]. eauto. }
  destruct Ha as (best & Ea).
  assert (Hb : (best < nt)%nat).
  { destruct (argmax_spec _ _ Ea) as (v & Hv & _).
    assert (H : (best < length count)%nat) by (apply nth_error_Some; congruence).
    rewrite Hc, map_length, seq_length in H. exact H. }
  destruct (get_template d best unw) as [tb|] eqn:Eb; [|exfalso; exact (Hok best Hb Eb)].
  unfold mean_waveforms. rewrite Ec, Ea, Eb.
  set (cf := fun t : nat => cnt d c (Z.of_nat t)) in *.
  assert (Hcomb : combine (seq 0 (length count)) count = map (fun t => (t, cf t)) (seq 0 nt)).
  { rewrite Hc, map_length, seq_length. apply combine_map_r. }
  rewrite Hcomb.
  set (pairs := filter (fun p : nat * Z => negb (snd p =? 0)) (map (fun t => (t, cf t)) (seq 0 nt))).
  assert (Hp : forall p, In p pairs -> (fst p < nt)%nat).
  { intros p Hp. apply filter_In in Hp. destruct Hp as (Hp & _). apply in_map_iff in Hp.
    destruct Hp as (t & <- & Ht). apply in_seq in Ht. cbn. lia. }
  destruct (omap_total (fun p : nat * Z => get_template d (fst p) unw) pairs) as (tpls & Et).
  { intros p Hin'. destruct (get_template d (fst p) unw) eqn:E; [eauto|]. exfalso. exact (Hok _ (Hp p Hin') E). }
  rewrite Et.
  pose proof (chans_in_range d best unw tb Hwf Eb) as HB.
  destruct (omap_total (fun b => omap (fun row => obind (scatter (repeat 0 (n_channels d)) (t_chans b) row)
                                                   (fun full => gather_cols full (t_chans tb))) (t_data b)) tpls)
    as (wfs & Ew).
  { intros tp Htp. destruct (omap_in_result _ _ _ _ Et Htp) as (p & _ & Hg).
    rewrite (wf_rows d unw (fst p) tp (t_chans tb) Hwf Hg HB). eauto. }
  rewrite Ew.
  assert (Hden : zsum (map snd pairs) = wden d c).
  { unfold pairs. rewrite zsum_snd_filter_nz, map_map. reflexivity. }
  rewrite Hden. pose proof (wden_pos d c Hwf Hin).
  replace (wden d c =? 0) with false by lia. eauto.
Qed.

Lemma cw_row_total d c l :
  WF d -> Templates_OK d false -> 0 <= c ->
  (forall t, In t l <-> PairIn (d_st d) (d_sc d) c t) ->
  exists row, cw_row d c l = Some row.
Proof.
  intros Hwf Hok Hc Hmem. pose proof Hwf as (Hl & Hst & _).
  destruct l as [|a [|b rest]].
  - cbn. eauto.
  - cbn [cw_row]. assert (Hp : PairIn (d_st d) (d_sc d) c a) by (apply Hmem; now left).
    destruct Hp as (i & _ & Hi). apply nth_error_In, Hst in Hi.
    replace (a <? 0) with false by lia.
    destruct (nth_error (d_tmpl d) (Z.to_nat a)) eqn:E; [eauto|].
    apply nth_error_None in E. unfold n_templates, zlen in Hi. lia.
  - assert (Hp : PairIn (d_st d) (d_sc d) c a) by (apply Hmem; now left).
    assert (Hin : In c (d_sc d)) by (destruct Hp as (i & Hi & _); eapply nth_error_In; exact Hi).
    destruct (mean_waveforms_total d c false Hwf Hok Hin) as (mwf & Emw).
    cbn [cw_row]. rewrite Emw.
    destruct (mean_waveforms_spec d c false mwf Hwf Emw) as (tb & _ & Hch & Hden & Hnum).
    rewrite Hnum, Hch. unfold mean_num. rewrite omap_map.
    eexists. apply omap_all_some with
      (g := fun s => map (fun k => if memZ k (chans_of d false tb)
                                   then mkrat (wnum d false c s k) (mw_den mwf) else rat_of 0)
                         (zrange 0 (n_channels d))).
    intros s _. rewrite map_map.
    apply (scatter_const (fun k => mkrat (wnum d false c s k) (mw_den mwf))). now apply chans_of_in_range.
Qed.

Theorem load_total d :
  WF d -> Templates_OK d false -> d_sc d <> [] -> (forall c, In c (d_sc d) -> 0 <= c) ->
  exists m, load d = Some m.
Proof.
  intros Hwf Hok Hne Hpos. pose proof Hwf as (Hl & _).
  unfold load. rewrite Hl, Nat.eqb_refl. cbn [negb].
  destruct (d_sc d) as [|x r] eqn:Esc; [congruence|]. rewrite <- Esc in *.
  destruct (zlist_eqb (d_sc d) (d_st d)); [eauto|].
  destruct (merge_map_spec (d_st d) (d_sc d) Hl Hne Hpos) as (mm & Em & Hspec). rewrite Em.
  assert (HM : IsMax (zmax_ne x r) (d_sc d)).
  { rewrite Esc. split; [apply zmax_ne_in|]. intros y Hy. now apply zmax_ne_ub. }
  destruct (Hspec _ HM) as (Hlen & Hent & _).
  destruct (omap_total (fun p : Z * list Z => cw_row d (fst p) (snd p)) (combine (zrange 0 (length mm)) mm))
    as (data & Ed).
  { intros [k l] Hin. apply in_combine_nth in Hin. destruct Hin as (i & Hk & Hi).
    assert (Hi' : (i < length mm)%nat) by (apply nth_error_Some; congruence).
    rewrite nth_error_zrange in Hk by exact Hi'. injection Hk as <-. cbn [fst snd].
    unfold zlen in Hlen.
    destruct (Hent (Z.of_nat i)) as (l' & Hl' & _ & Hmem); [lia|].
    rewrite Nat2Z.id in Hl'. assert (l' = l) by congruence. subst l'.
    apply cw_row_total; auto. lia. }
  unfold cluster_waveforms. rewrite Ed. eauto.
Qed.
