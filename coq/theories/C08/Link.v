(* C08/Link.v -- link to C05 (get_template).

   C08's theorems speak of "the channels of the dominant template" through C08/Model.get_template, a small model of
   what get_cluster_mean_waveforms uses of TemplateModel.get_template: dense storage, no explicit channel list, the
   class threshold 0 and n_closest_channels = 12, template_scaling absent (1), rows = samples.  C05 has the full,
   proved model of get_template (dense and sparse storage, explicit lists, any threshold, columns = channels) in
   which np.argsort is an ORACLE.  Here:

   link_get_template      on every well-shaped data set C08's get_template IS C05's get_template run under the stable
                          argsort oracle on the translated data set (to_c05) and request (req t unw), including where it
                          raises (None) -- the record translated back by of_c05 (channel ids as Z, rows = samples);
   link_every_oracle      for EVERY oracle that returns a sorting permutation C05's model returns a record with the same
                          best channel, and -- when no distance tie crosses the 12-neighbourhood boundary
                          (C05.Spec.nearest_determined; always when there are <= 12 channels) -- the same SET of
                          channels; the same record when moreover the listed amplitudes are pairwise distinct;
   link_dense_channels    hence C05's declarative clauses hold of C08's channel lists: the peak channel has the maximal
                          peak-to-peak amplitude and the channels are exactly (some set of the 12 nearest channels of
                          the peak) /\ (on its shank) /\ (amplitude >= 0 * peak), pairwise distinct.
   link_dominant_channels the same read on C08_mean_fn: the channels get_cluster_mean_waveforms returns are C05's
                          Dense_channels of a dominant template (GeoWF: pairwise distinct positions);
   link_main_template     the dominant template get_cluster_mean_waveforms takes (np.argmax of the bincount: lowest id
                          among the most frequent) IS C05's main_template (_get_template_from_spikes behind
                          get_cluster_channels): both functions list the channels of the same template.
   Not required by Props.v / Corr.v (this file depends on C05's files, as C07/Link.v depends on C06's and C08's); every
   theorem prints "Closed under the global context" when the file is compiled:
     cd /verif/coq && coqc -noglob -Q theories PV theories/C08/Link.v *)
From Coq Require Import ZArith List Lia Bool Arith Sorted Permutation.
From PV Require Import Base.NpSearch Base.NpSort Base.Tok Base.TokArith.
From PV Require C05.Model C05.Spec C05.Proofs C05.Proofs3 C05.Proofs7 C05.Props.
From PV Require Import C08.Model C08.Spec C08.Proofs C08.Proofs2 C08.Proofs5 C08.Proofs7.
Import ListNotations.
Open Scope Z_scope.

Module M5 := C05.Model.
Module S5 := C05.Spec.
Module P5 := C05.Proofs.

(* ---------- translation ---------- *)
(* rows (samples) x channels  ->  list of columns, and back *)
Definition cols_of (nc : nat) (x : list (list Z)) : list (list Z) :=
  map (fun k => map (fun row => nth k row 0) x) (seq 0 nc).
Definition rows_of (ns : nat) (cols : list (list Z)) : list (list Z) :=
  map (fun s => map (fun col => nth s col 0) cols) (seq 0 ns).

Definition positions (d : dset) : list M5.pos := zip_with M5.mkpos (d_px d) (d_py d).

Definition to_c05 (d : dset) : M5.dataset :=
  M5.mkds (map (cols_of (n_channels d)) (d_tmpl d)) None (d_wmi d) 1 (positions d) (d_shanks d)
          n_closest_channels (M5.mkthr amplitude_threshold 1).
Definition req (t : nat) (unw : bool) : M5.request := M5.mkreq t None None unw.
Definition of_c05 (ns : nat) (r : M5.trec) : tpl :=
  mktpl (map Z.of_nat (M5.t_channels r)) (rows_of ns (M5.t_template r)) (Z.of_nat (M5.t_best r)).

(* the shape part of GeoWF (no hypothesis on the positions being distinct) *)
Definition GeoShape (d : dset) : Prop :=
  length (d_py d) = n_channels d /\ length (d_shanks d) = n_channels d /\
  (1 <= n_channels d)%nat /\ (1 <= n_samples_wf d)%nat.
Lemma GeoWF_shape d : GeoWF d -> GeoShape d.
Proof. intros (A & B & C & D & _). repeat split; assumption. Qed.

(* ---------- generic list facts ---------- *)
Lemma nth_seq_map {A} (l : list A) (dflt : A) : l = map (fun k => nth k l dflt) (seq 0 (length l)).
Proof. rewrite <- (map_id l) at 1. apply (map_nth_seq (fun x => x) l dflt). Qed.

Lemma combine_map2 {A B C} (f : A -> B) (g : A -> C) l : combine (map f l) (map g l) = map (fun x => (f x, g x)) l.
Proof. induction l as [|x l IH]; [reflexivity|]. cbn. now rewrite IH. Qed.

Lemma filter_map_swap {A B} (p : B -> bool) (f : A -> B) l : filter p (map f l) = map f (filter (fun x => p (f x)) l).
Proof. induction l as [|x l IH]; [reflexivity|]. cbn. destruct (p (f x)); cbn; now rewrite IH. Qed.

(* combine l (zrange 0 (length l)) as a map over the positions *)
Lemma combine_zrange (l : list Z) :
  combine l (zrange 0 (length l)) = map (fun k => (nth k l 0, Z.of_nat k)) (seq 0 (length l)).
Proof.
  rewrite zrange_seq. rewrite (nth_seq_map l 0) at 1. rewrite combine_map2. apply map_ext. intros k. f_equal.
Qed.

(* map snd (filter (g . fst) (combine l (zrange 0 (length l)))) -- np.nonzero(g(l))[0] *)
Lemma nonzero_link (g : Z -> bool) (l : list Z) :
  map snd (filter (fun p => g (fst p)) (combine l (zrange 0 (length l)))) =
  map Z.of_nat (filter (fun c => g (nth c l 0)) (seq 0 (length l))).
Proof. rewrite combine_zrange, filter_map_swap, map_map. cbn [fst snd]. reflexivity. Qed.

Lemma memZ_of_nat x l : memZ (Z.of_nat x) (map Z.of_nat l) = M5.memb x l.
Proof.
  unfold memZ, M5.memb. induction l as [|y l IH]; [reflexivity|]. cbn [map existsb]. rewrite IH. f_equal.
  destruct (Nat.eqb_spec x y); [subst; apply Z.eqb_refl|apply Z.eqb_neq; lia].
Qed.

Lemma ins_u_of_nat x l : ins_u (Z.of_nat x) (map Z.of_nat l) = map Z.of_nat (M5.uinsert x l).
Proof.
  induction l as [|y l IH]; [reflexivity|]. cbn [map ins_u M5.uinsert].
  destruct (Nat.ltb_spec x y) as [H|H].
  - replace (Z.of_nat x <? Z.of_nat y) with true by lia. reflexivity.
  - replace (Z.of_nat x <? Z.of_nat y) with false by lia. destruct (Nat.eqb_spec x y) as [E|E].
    + subst. rewrite Z.eqb_refl. reflexivity.
    + replace (Z.of_nat x =? Z.of_nat y) with false by lia. cbn [map]. now rewrite IH.
Qed.

Lemma np_unique_of_nat l : np_unique (map Z.of_nat l) = map Z.of_nat (M5.usort l).
Proof.
  unfold np_unique, M5.usort. induction l as [|x l IH]; [reflexivity|]. cbn [map fold_right]. rewrite IH.
  apply ins_u_of_nat.
Qed.

Lemma intersect1d_of_nat a b :
  intersect1d (map Z.of_nat a) (map Z.of_nat b) = map Z.of_nat (M5.intersect1d a b).
Proof.
  unfold intersect1d, M5.intersect1d. rewrite np_unique_of_nat, filter_map_swap. f_equal.
  apply filter_ext. intros x. apply memZ_of_nat.
Qed.

(* strictly increasing lists of naturals *)
Lemma ssorted_tail x l : P5.ssorted (x :: l) -> P5.ssorted l.
Proof. intros H. inversion H; subst; [constructor|assumption]. Qed.
Lemma ssorted_cons x l : (forall y, In y l -> (x < y)%nat) -> P5.ssorted l -> P5.ssorted (x :: l).
Proof. intros Hx Hl. destruct l as [|y r]; constructor; [apply Hx; now left|exact Hl]. Qed.

Lemma ssorted_ext a b : P5.ssorted a -> P5.ssorted b -> (forall x, In x a <-> In x b) -> a = b.
Proof.
  revert b. induction a as [|x a IH]; intros b Ha Hb Hab.
  - destruct b as [|y b]; [reflexivity|]. exfalso. apply (proj2 (Hab y)). now left.
  - destruct b as [|y b].
    + exfalso. apply (proj1 (Hab x)). now left.
    + pose proof (P5.ssorted_lt _ _ Ha) as Hx. pose proof (P5.ssorted_lt _ _ Hb) as Hy.
      assert (x = y).
      { destruct (proj1 (Hab x) (or_introl eq_refl)) as [E|Hin]; [now symmetry|].
        destruct (proj2 (Hab y) (or_introl eq_refl)) as [E|Hin']; [exact E|].
        specialize (Hx _ Hin'). specialize (Hy _ Hin). lia. }
      subst y. f_equal. apply IH; [now apply ssorted_tail in Ha|now apply ssorted_tail in Hb|].
      intros z. split; intros Hz.
      * destruct (proj1 (Hab z) (or_intror Hz)) as [E|H']; [|exact H']. subst z. specialize (Hx _ Hz). lia.
      * destruct (proj2 (Hab z) (or_intror Hz)) as [E|H']; [|exact H']. subst z. specialize (Hy _ Hz). lia.
Qed.

Lemma ssorted_filter_seq (g : nat -> bool) s n : P5.ssorted (filter g (seq s n)).
Proof.
  revert s. induction n as [|n IH]; intros s; [constructor|]. cbn [seq filter].
  destruct (g s); [|apply IH]. apply ssorted_cons; [|apply IH].
  intros y Hy. apply filter_In in Hy. destruct Hy as (Hy & _). apply in_seq in Hy. lia.
Qed.

(* a strictly increasing list below n is the filter of range(n) by membership *)
Lemma filter_memb_seq l n :
  P5.ssorted l -> (forall x, In x l -> (x < n)%nat) -> filter (fun k => M5.memb k l) (seq 0 n) = l.
Proof.
  intros Hs Hl. apply ssorted_ext; [apply ssorted_filter_seq|exact Hs|].
  intros x. rewrite filter_In, P5.memb_In, in_seq. split; [tauto|]. intros H. split; [|exact H].
  specialize (Hl _ H). lia.
Qed.

(* the stable sort does not look at the payloads *)
Lemma insert_payload {V W} (g : V -> W) (x : Z * V) (l : list (Z * V)) :
  insert (fst x, g (snd x)) (map (fun p => (fst p, g (snd p))) l) = map (fun p => (fst p, g (snd p))) (insert x l).
Proof.
  induction l as [|y l IH]; [reflexivity|]. cbn [map insert fst].
  destruct (fst x <=? fst y); [reflexivity|]. cbn [map]. now rewrite IH.
Qed.
Lemma isort_payload {V W} (g : V -> W) (l : list (Z * V)) :
  isort (map (fun p => (fst p, g (snd p))) l) = map (fun p => (fst p, g (snd p))) (isort l).
Proof.
  unfold isort. induction l as [|x l IH]; [reflexivity|]. cbn [map fold_right]. rewrite IH. apply insert_payload.
Qed.

Lemma combine_map_r2 {A B C} (h : B -> C) (l : list A) (s : list B) :
  combine l (map h s) = map (fun p => (fst p, h (snd p))) (combine l s).
Proof. revert s. induction l as [|x l IH]; intros [|y s]; cbn; try reflexivity. now rewrite IH. Qed.

Lemma argmax_from_same l i bi bv : argmax_from l i bi bv = M5.argmax_from l i bi bv.
Proof. revert i bi bv. induction l as [|x l IH]; intros; cbn; [reflexivity|]. destruct (bv <? x); apply IH. Qed.

(* ---------- _unwhiten ---------- *)
Lemma zip_add_nth a b j : (j < length a)%nat -> (j < length b)%nat ->
  nth j (zip_with Z.add a b) 0 = nth j a 0 + nth j b 0.
Proof.
  revert b j. induction a as [|x a IH]; intros [|y b] [|j] Ha Hb; cbn [length] in *; try lia; cbn; [reflexivity|].
  apply IH; lia.
Qed.

Lemma vec_mat_cons n xk row mrow m :
  vec_mat n (xk :: row) (mrow :: m) = zip_with Z.add (map (Z.mul xk) mrow) (vec_mat n row m).
Proof. reflexivity. Qed.

Lemma vec_mat_nth n row m j : (forall r, In r m -> length r = n) -> (j < n)%nat ->
  nth j (vec_mat n row m) 0 = M5.dotZ row (map (fun r => nth j r 0) m).
Proof.
  intros Hm Hj. revert m Hm. induction row as [|xk row IH]; intros m Hm.
  - unfold vec_mat. cbn. apply nth_repeat.
  - destruct m as [|mrow m].
    + unfold vec_mat. cbn. apply nth_repeat.
    + rewrite vec_mat_cons. rewrite zip_add_nth.
      * rewrite (P5.nth_map_lt (Z.mul xk) mrow 0 0) by (rewrite (Hm mrow (or_introl eq_refl)); exact Hj).
        rewrite IH by (intros r Hr; apply Hm; now right). reflexivity.
      * rewrite map_length, (Hm mrow (or_introl eq_refl)). exact Hj.
      * rewrite vec_mat_length; [exact Hj|]. intros r Hr. apply Hm. now right.
Qed.

Lemma cols_of_length nc x : length (cols_of nc x) = nc.
Proof. unfold cols_of. now rewrite map_length, seq_length. Qed.

Lemma cols_of_nth nc x k : (k < nc)%nat -> nth k (cols_of nc x) [] = map (fun row => nth k row 0) x.
Proof.
  intros Hk. unfold cols_of. rewrite (P5.nth_map_lt _ (seq 0 nc) 0%nat []) by now rewrite seq_length.
  now rewrite seq_nth.
Qed.

Lemma n_samples_cols_of nc x : (1 <= nc)%nat -> M5.n_samples (cols_of nc x) = length x.
Proof. destruct nc as [|n]; [lia|]. intros _. unfold cols_of. cbn. apply map_length. Qed.

(* row s of the matrix whose columns are cols_of nc x *)
Lemma row_of_cols nc x s : (s < length x)%nat -> length (nth s x []) = nc ->
  map (fun col => nth s col 0) (cols_of nc x) = nth s x [].
Proof.
  intros Hs Hl. unfold cols_of. rewrite map_map. rewrite (nth_seq_map (nth s x []) 0) at 1. rewrite Hl.
  apply map_ext. intros k. now rewrite (P5.nth_map_lt _ x [] 0).
Qed.

Lemma unwhiten_link nc W x :
  (1 <= nc)%nat -> length W = nc -> (forall r, In r W -> length r = nc) -> (forall row, In row x -> length row = nc) ->
  unwhiten W x = Some (map (fun row => vec_mat nc row W) x) /\
  M5.unwhiten_dense W 1 (cols_of nc x) = Some (cols_of nc (map (fun row => vec_mat nc row W) x)).
Proof.
  intros Hnc HW HWr Hx. split.
  - unfold unwhiten. rewrite HW.
    assert (E1 : forallb (fun row => (length row =? nc)%nat) x = true)
      by (apply forallb_forall; intros row Hr; apply Nat.eqb_eq; now apply Hx).
    assert (E2 : forallb (fun r => (length r =? nc)%nat) W = true)
      by (apply forallb_forall; intros r Hr; apply Nat.eqb_eq; now apply HWr).
    rewrite E1, E2. reflexivity.
  - unfold M5.unwhiten_dense. rewrite cols_of_length, HW, Nat.eqb_refl. f_equal.
    set (C := cols_of nc x). unfold cols_of. subst C. apply map_ext_in. intros j Hj. apply in_seq in Hj.
    unfold M5.ucol. rewrite n_samples_cols_of by exact Hnc. rewrite map_map.
    rewrite (map_nth_seq (fun row => nth j (vec_mat nc row W) 0) x []).
    apply map_ext_in. intros s Hs. apply in_seq in Hs.
    rewrite row_of_cols; [|lia|apply Hx; apply nth_In; lia].
    rewrite Z.mul_1_r. rewrite vec_mat_nth; [|exact HWr|lia]. f_equal.
    unfold M5.wcol. rewrite <- HW. symmetry. apply (map_nth_seq (fun r => nth j r 0) W []).
Qed.

(* ---------- the per-channel amplitudes ---------- *)
Lemma fold_zip_cols (f : Z -> Z -> Z) nc r rs : length r = nc -> (forall e, In e rs -> length e = nc) ->
  fold_right (zip_with f) r rs = map (fun k => fold_right f (nth k r 0) (map (fun row => nth k row 0) rs)) (seq 0 nc).
Proof.
  intros Hr Hrs. induction rs as [|r1 rs IH]; cbn [fold_right map].
  - rewrite <- Hr. apply nth_seq_map.
  - rewrite IH by (intros e He; apply Hrs; now right).
    rewrite (nth_seq_map r1 0) at 1. rewrite (Hrs r1 (or_introl eq_refl)). apply zip_with_map.
Qed.

Lemma amp_link nc r rs : length r = nc -> (forall e, In e rs -> length e = nc) ->
  zip_with Z.sub (fold_right (zip_with Z.max) r rs) (fold_right (zip_with Z.min) r rs) = map M5.ptp (cols_of nc (r :: rs)).
Proof.
  intros Hr Hrs. rewrite (fold_zip_cols Z.max nc r rs Hr Hrs), (fold_zip_cols Z.min nc r rs Hr Hrs), zip_with_map.
  unfold cols_of. rewrite map_map. apply map_ext. intros k. reflexivity.
Qed.

(* ---------- get_closest_channels ---------- *)
Lemma dd_link px py x0 y0 :
  zip_with Z.add (map (fun x => (x - x0) * (x - x0)) px) (map (fun y => (y - y0) * (y - y0)) py) =
  map (fun p => M5.dist2 p (M5.mkpos x0 y0)) (zip_with M5.mkpos px py).
Proof. revert py. induction px as [|x px IH]; intros [|y py]; cbn; try reflexivity. now rewrite IH. Qed.

Lemma positions_length d : length (d_py d) = n_channels d -> length (positions d) = n_channels d.
Proof. intros H. unfold positions. rewrite zip_with_length, H. unfold n_channels. lia. Qed.

Lemma closest_link d b : length (d_py d) = n_channels d -> (b < n_channels d)%nat ->
  closest (d_px d) (d_py d) b =
  option_map (map Z.of_nat) (M5.closest stable_argsort (positions d) b n_closest_channels).
Proof.
  intros Hpy Hb. unfold closest, M5.closest, positions. rewrite nth_error_zip_with.
  destruct (nth_error (d_px d) b) as [x0|] eqn:Ex; [|apply nth_error_None in Ex; unfold n_channels in Hb; lia].
  destruct (nth_error (d_py d) b) as [y0|] eqn:Ey; [|apply nth_error_None in Ey; lia].
  rewrite dd_link. change (n_closest_channels =? 0) with false. cbn iota. rewrite firstn_map.
  destruct (firstn (Z.to_nat n_closest_channels) _) as [|o rest]; [reflexivity|]. cbn [map].
  destruct (Nat.eqb_spec o b) as [->|Hne].
  - rewrite Z.eqb_refl. reflexivity.
  - replace (Z.of_nat o =? Z.of_nat b) with false by lia. reflexivity.
Qed.

Lemma closest_head P b n out : M5.closest stable_argsort P b n = Some out -> M5.memb b out = true.
Proof.
  unfold M5.closest. destruct (nth_error P b); [|discriminate].
  destruct (if n =? 0 then _ else _) as [|x rest]; [discriminate|].
  destruct (Nat.eqb_spec x b) as [->|]; [|discriminate]. intros E. injection E as <-. cbn. now rewrite Nat.eqb_refl.
Qed.

(* ---------- _find_best_channels ---------- *)
Lemma ssorted_filter (f : nat -> bool) l : P5.ssorted l -> P5.ssorted (filter f l).
Proof.
  induction l as [|x l IH]; intros H; [constructor|]. cbn [filter].
  pose proof (ssorted_tail _ _ H) as Ht. destruct (f x); [|now apply IH].
  apply ssorted_cons; [|now apply IH]. intros y Hy. apply filter_In in Hy. destruct Hy as (Hy & _).
  exact (P5.ssorted_lt _ _ H _ Hy).
Qed.
Lemma intersect1d_ssorted a b : P5.ssorted (M5.intersect1d a b).
Proof. unfold M5.intersect1d. apply ssorted_filter, P5.usort_sorted. Qed.

Lemma combine_seq (l : list Z) : combine l (seq 0 (length l)) = map (fun k => (nth k l 0, k)) (seq 0 (length l)).
Proof.
  rewrite (nth_seq_map l 0) at 1. rewrite <- (map_id (seq 0 (length l))) at 2. rewrite combine_map2. reflexivity.
Qed.

(* channel_ids[np.argsort(amplitude[channel_ids])[::-1]]: the two models order the listed channels alike *)
Lemma order_link (amp : list Z) (ids : list nat) :
  map snd (rev (isort (map (fun k => (nth k amp 0, Z.of_nat k)) ids))) =
  map Z.of_nat (map (fun k => nth k ids 0%nat) (rev (stable_argsort (map (fun c => nth c amp 0) ids)))).
Proof.
  set (keys := map (fun c => nth c amp 0) ids).
  assert (Hlen : length keys = length ids) by (unfold keys; apply map_length).
  assert (E : map (fun k => (nth k amp 0, Z.of_nat k)) ids =
              map (fun p => (fst p, Z.of_nat (nth (snd p) ids 0%nat))) (combine keys (seq 0 (length keys)))).
  { rewrite combine_seq, map_map. cbn [fst snd]. rewrite Hlen.
    rewrite (map_nth_seq (fun k => (nth k amp 0, Z.of_nat k)) ids 0%nat).
    apply map_ext_in. intros k Hk. apply in_seq in Hk. f_equal.
    unfold keys. now rewrite (P5.nth_map_lt (fun c => nth c amp 0) ids 0%nat 0) by lia. }
  rewrite E, (isort_payload (fun v => Z.of_nat (nth v ids 0%nat))). unfold stable_argsort. rewrite <- !map_rev, !map_map. reflexivity.
Qed.

Definition best_pair (b : M5.best) : list Z * Z := (map Z.of_nat (M5.b_channels b), Z.of_nat (M5.b_best b)).

Lemma find_best_link d r rs :
  GeoShape d -> (forall row, In row (r :: rs) -> length row = n_channels d) ->
  find_best_channels d (r :: rs) =
    option_map best_pair
      (M5.find_best_channels stable_argsort (positions d) (d_shanks d) n_closest_channels
         (map M5.ptp (cols_of (n_channels d) (r :: rs))) (M5.mkthr amplitude_threshold 1)) /\
  forall b, M5.find_best_channels stable_argsort (positions d) (d_shanks d) n_closest_channels
              (map M5.ptp (cols_of (n_channels d) (r :: rs))) (M5.mkthr amplitude_threshold 1) = Some b ->
            forall c, In c (M5.b_channels b) -> (c < n_channels d)%nat.
Proof.
  intros (Hpy & Hsh & Hnc & Hns) Hrow.
  unfold find_best_channels. cbn [col_fold].
  rewrite (amp_link (n_channels d) r rs) by (intros; apply Hrow; cbn; auto).
  set (amp := map M5.ptp (cols_of (n_channels d) (r :: rs))).
  assert (Hla : length amp = n_channels d) by (unfold amp; now rewrite map_length, cols_of_length).
  unfold M5.find_best_channels.
  destruct amp as [|a0 arest] eqn:Eamp; [cbn in Hla; lia|]. rewrite <- Eamp in *.
  assert (Hne : amp <> []) by (rewrite Eamp; discriminate).
  destruct (P5.argmax_first_spec amp Hne) as (Hb & _).
  assert (Earg : argmax amp = Some (M5.argmax_first amp)).
  { rewrite Eamp. cbn [argmax M5.argmax_first]. now rewrite argmax_from_same. }
  rewrite Earg. set (bc := M5.argmax_first amp) in *.
  rewrite (nth_error_nth' amp 0 Hb).
  set (maxamp := nth bc amp 0).
  (* peak channels *)
  rewrite (nonzero_link (fun v => amplitude_threshold * maxamp <=? v) amp).
  cbn [M5.tp M5.tq].
  assert (Epk : filter (fun c => amplitude_threshold * maxamp <=? nth c amp 0) (seq 0 (length amp)) =
                filter (fun c => amplitude_threshold * maxamp <=? 1 * nth c amp 0) (seq 0 (length amp))).
  { apply filter_ext. intros c. now rewrite Z.mul_1_l. }
  rewrite Epk. set (peak := filter (fun c => amplitude_threshold * maxamp <=? 1 * nth c amp 0) (seq 0 (length amp))).
  (* closest *)
  rewrite (closest_link d bc Hpy) by lia.
  destruct (M5.closest stable_argsort (positions d) bc n_closest_channels) as [close|] eqn:Ecl;
    [|split; [reflexivity|discriminate]].
  cbn [option_map]. rewrite memZ_of_nat, (closest_head _ _ _ _ Ecl). cbn [negb].
  rewrite (nth_error_nth' (d_shanks d) 0) by lia.
  set (shank := nth bc (d_shanks d) 0).
  rewrite (nonzero_link (fun v => v =? shank) (d_shanks d)).
  set (on_shank := filter (fun c => nth c (d_shanks d) 0 =? shank) (seq 0 (length (d_shanks d)))).
  rewrite !intersect1d_of_nat.
  set (ids := M5.intersect1d peak (M5.intersect1d close on_shank)).
  assert (Hids : forall c, In c ids -> (c < n_channels d)%nat).
  { intros c Hc. apply P5.intersect1d_In in Hc. destruct Hc as (Hc & _). apply filter_In in Hc.
    destruct Hc as (Hc & _). apply in_seq in Hc. lia. }
  (* ordering by decreasing amplitude *)
  rewrite combine_zrange, filter_map_swap. cbn [snd].
  assert (Efl : filter (fun x => memZ (Z.of_nat x) (map Z.of_nat ids)) (seq 0 (length amp)) = ids).
  { transitivity (filter (fun k => M5.memb k ids) (seq 0 (length amp))).
    - apply filter_ext. intros x. apply memZ_of_nat.
    - apply filter_memb_seq; [apply intersect1d_ssorted|intros x Hx; rewrite Hla; now apply Hids]. }
  rewrite Efl, order_link.
  set (ids' := map (fun k => nth k ids 0%nat) (rev (stable_argsort (map (fun c => nth c amp 0) ids)))).
  rewrite memZ_of_nat.
  split.
  - destruct (M5.memb bc ids'); reflexivity.
  - destruct (M5.memb bc ids'); [|discriminate]. intros b E. injection E as <-. cbn [M5.b_channels].
    intros c Hc. apply in_map_iff in Hc. destruct Hc as (k & <- & _).
    destruct (Nat.lt_ge_cases k (length ids)) as [Hk|Hk].
    + apply Hids, nth_In, Hk.
    + rewrite nth_overflow by lia. lia.
Qed.

(* ---------- get_template ---------- *)
Lemma rows_of_gather ns nc x ids : length x = ns -> (forall row, In row x -> length row = nc) ->
  (forall c, In c ids -> (c < nc)%nat) ->
  rows_of ns (map (fun c => nth c (cols_of nc x) []) ids) = map (fun row => map (fun c => nth c row 0) ids) x.
Proof.
  intros Hx Hrow Hids. unfold rows_of. rewrite (map_nth_seq (fun row => map (fun c => nth c row 0) ids) x []), Hx.
  apply map_ext_in. intros s Hs. apply in_seq in Hs. rewrite map_map. apply map_ext_in. intros c Hc.
  rewrite cols_of_nth by now apply Hids. rewrite (P5.nth_map_lt (fun row => nth c row 0) x [] 0) by lia. reflexivity.
Qed.

(* the part after the (optional) unwhitening: x = the full template, rows = samples *)
Lemma dense_tail_link d x (r5 : M5.request) :
  GeoShape d -> length x = n_samples_wf d -> (forall row, In row x -> length row = n_channels d) ->
  M5.r_chans r5 = None -> M5.r_thr r5 = None ->
  match find_best_channels d x with
  | None => None
  | Some (chans, b) =>
      match omap (fun row => gather_cols row chans) x with
      | None => None
      | Some data => Some (mktpl chans data b)
      end
  end =
  option_map (of_c05 (n_samples_wf d))
    (let T := cols_of (n_channels d) x in
     let nc := length (M5.d_pos (to_c05 d)) in
     if negb (Nat.eqb (length T) nc && Nat.eqb (length (M5.d_shanks (to_c05 d))) nc) then None else
     let amp := map M5.ptp T in
     let t := match M5.r_thr r5 with Some t => t | None => M5.d_thr (to_c05 d) end in
     match M5.find_best_channels stable_argsort (M5.d_pos (to_c05 d)) (M5.d_shanks (to_c05 d)) (M5.d_nclosest (to_c05 d)) amp t with
     | None => None
     | Some b =>
         match (match M5.r_chans r5 with
                | None => Some (M5.b_channels b)
                | Some l => if forallb (M5.chan_ok nc) l then Some (map Z.to_nat l) else None
                end) with
         | None => None
         | Some ids =>
             let template := map (fun c => nth c T []) ids in
             Some (M5.mkrec template (map M5.ptp template) (M5.b_best b) ids)
         end
     end).
Proof.
  intros Hgeo Hx Hrow Hch Hth. pose proof Hgeo as (Hpy & Hsh & Hnc & Hns).
  cbn [to_c05 M5.d_pos M5.d_shanks M5.d_nclosest M5.d_thr]. cbv zeta.
  rewrite Hch, Hth, cols_of_length, (positions_length d Hpy), Hsh, Nat.eqb_refl. cbn [andb negb].
  destruct x as [|r rs]; [cbn in Hx; lia|].
  destruct (find_best_link d r rs Hgeo Hrow) as (E & Hrange). rewrite E.
  destruct (M5.find_best_channels _ _ _ _ _ _) as [b|]; [|reflexivity].
  cbn [option_map best_pair]. specialize (Hrange b eq_refl).
  rewrite (omap_all_some _ (fun row => map (fun c => nth c row 0) (M5.b_channels b))).
  - unfold of_c05. cbn [M5.t_channels M5.t_template M5.t_best]. rewrite (rows_of_gather _ _ _ _ Hx Hrow Hrange). reflexivity.
  - intros row Hr.
    rewrite (gather_map_ok (fun ch => nth (Z.to_nat ch) row 0)).
    + rewrite map_map. f_equal. apply map_ext. intros c. now rewrite Nat2Z.id.
    + intros ch Hc. apply in_map_iff in Hc. destruct Hc as (c & <- & Hc). split; [lia|].
      rewrite Nat2Z.id. apply nth_error_nth'. rewrite (Hrow row Hr). now apply Hrange.
Qed.

(* C08's get_template = C05's get_template under the stable oracle, on the translated data set and request *)
Theorem link_get_template d t unw :
  WF d -> GeoShape d ->
  get_template d t unw = option_map (of_c05 (n_samples_wf d)) (M5.get_template stable_argsort (to_c05 d) (req t unw)).
Proof.
  intros Hwf Hgeo. pose proof Hwf as (_ & _ & Ht & Hw & Hwr). pose proof Hgeo as (Hpy & Hsh & Hnc & Hns).
  unfold get_template, M5.get_template. change (M5.d_cols (to_c05 d)) with (@None (list (list Z))). cbv iota.
  unfold M5.get_template_dense, M5.dense_full.
  change (M5.d_templates (to_c05 d)) with (map (cols_of (n_channels d)) (d_tmpl d)).
  change (M5.r_tid (req t unw)) with t. change (M5.r_unwhiten (req t unw)) with unw.
  change (M5.d_wmi (to_c05 d)) with (d_wmi d). change (M5.d_scale (to_c05 d)) with 1.
  rewrite nth_error_map. destruct (nth_error (d_tmpl d) t) as [tw|] eqn:Etw; [|reflexivity].
  cbn [option_map]. destruct (Ht tw (nth_error_In _ _ Etw)) as (Hlen & Hrow).
  assert (Hwr' : forall r, In r (d_wmi d) -> length r = n_channels d) by exact Hwr.
  destruct unw.
  - destruct (unwhiten_link (n_channels d) (d_wmi d) tw Hnc Hw Hwr' Hrow) as (E1 & E2). rewrite E1, E2.
    apply (dense_tail_link d (map (fun row => vec_mat (n_channels d) row (d_wmi d)) tw) (req t true) Hgeo);
      [now rewrite map_length| |reflexivity|reflexivity].
    intros row Hr. apply in_map_iff in Hr. destruct Hr as (r0 & <- & _). now apply vec_mat_length.
  - apply (dense_tail_link d tw (req t false) Hgeo Hlen Hrow); reflexivity.
Qed.
Print Assumptions link_get_template.

(* ---------- consequences: C05's theorems read on C08's channel lists ---------- *)
Lemma positions_NoDup d : GeoWF d -> NoDup (positions d).
Proof.
  intros (_ & _ & _ & _ & Hd). apply NoDup_nth_error. intros i j Hi E. unfold positions in *.
  rewrite !nth_error_zip_with in E.
  assert (Hs : nth_error (zip_with M5.mkpos (d_px d) (d_py d)) i <> None) by now apply nth_error_Some.
  rewrite nth_error_zip_with in Hs.
  destruct (nth_error (d_px d) i) as [xi|] eqn:E1; [|congruence].
  destruct (nth_error (d_py d) i) as [yi|] eqn:E2; [|congruence].
  destruct (nth_error (d_px d) j) as [xj|] eqn:E3; [|discriminate].
  destruct (nth_error (d_py d) j) as [yj|] eqn:E4; [|discriminate].
  destruct (Nat.eq_dec i j) as [|Hne]; [assumption|]. exfalso.
  apply (Hd i j xi yi xj yj Hne E1 E2 E3 E4). injection E as -> ->. reflexivity.
Qed.

Lemma usort_same_In a b : M5.usort a = M5.usort b -> forall c, In c a <-> In c b.
Proof. intros E c. rewrite <- (P5.usort_In a), <- (P5.usort_In b), E. tauto. Qed.

(* with at most 12 channels the neighbourhood is always determined *)
Lemma nearest_determined_small d b : (n_channels d <= 12)%nat -> length (d_py d) = n_channels d ->
  S5.nearest_determined (positions d) b n_closest_channels = true.
Proof.
  intros H Hpy. unfold S5.nearest_determined. rewrite (positions_length d Hpy).
  change (n_closest_channels =? 0) with false. cbv iota. unfold n_closest_channels.
  replace (Z.min 12 (Z.of_nat (n_channels d))) with (Z.of_nat (n_channels d)) by lia. now rewrite Z.eqb_refl.
Qed.

Theorem link_every_oracle d t unw tp :
  WF d -> GeoWF d -> get_template d t unw = Some tp ->
  exists m, M5.get_template stable_argsort (to_c05 d) (req t unw) = Some m /\ tp = of_c05 (n_samples_wf d) m /\
    forall argsort, S5.Argsort_ok argsort ->
      exists m2, M5.get_template argsort (to_c05 d) (req t unw) = Some m2 /\ M5.t_best m2 = M5.t_best m /\
        (S5.nearest_determined (positions d) (M5.t_best m) n_closest_channels = true ->
           (forall c, In c (M5.t_channels m2) <-> In (Z.of_nat c) (t_chans tp)) /\
           (S5.nodupZ_b (M5.t_amplitude m) = true -> m2 = m)).
Proof.
  intros Hwf Hgeo H. rewrite (link_get_template d t unw Hwf (GeoWF_shape d Hgeo)) in H.
  destruct (M5.get_template stable_argsort (to_c05 d) (req t unw)) as [m|] eqn:Em; [|discriminate].
  injection H as <-. exists m. split; [reflexivity|]. split; [reflexivity|]. intros argsort Hok.
  destruct (C05.Props.C05_dense_tie_test_sufficient stable_argsort argsort (to_c05 d) (req t unw) m
              C05.Props.C05_argsort_oracle_exists Hok eq_refl (positions_NoDup d Hgeo) ltac:(cbn; unfold n_closest_channels; lia) Em)
    as (m2 & E2 & Hb & Hrest).
  exists m2. split; [exact E2|]. split; [exact Hb|]. cbn [req M5.r_chans] in Hrest. intros Hdet.
  destruct (Hrest Hdet) as (Hu & Heq). split; [|exact Heq].
  intros c. rewrite (usort_same_In _ _ Hu c). cbn [of_c05 t_chans]. rewrite in_map_iff. split.
  - intros Hc. now exists c.
  - intros (c' & E & Hc'). apply Nat2Z.inj in E. now subst.
Qed.
Print Assumptions link_every_oracle.

(* the full template C05's clauses refer to is C08's tmpl_of, as columns *)
Lemma dense_full_link d t unw tw : WF d -> GeoShape d -> nth_error (d_tmpl d) t = Some tw ->
  M5.dense_full (to_c05 d) (req t unw) = Some (cols_of (n_channels d) (tmpl_of d unw t)).
Proof.
  intros (_ & _ & Ht & Hw & Hwr) (_ & _ & Hnc & _) Etw. unfold M5.dense_full, tmpl_of.
  change (M5.d_templates (to_c05 d)) with (map (cols_of (n_channels d)) (d_tmpl d)).
  change (M5.r_tid (req t unw)) with t. change (M5.r_unwhiten (req t unw)) with unw.
  rewrite nth_error_map, Etw. cbn [option_map]. destruct unw; [|reflexivity].
  destruct (Ht tw (nth_error_In _ _ Etw)) as (_ & Hrow).
  destruct (unwhiten_link (n_channels d) (d_wmi d) tw Hnc Hw Hwr Hrow) as (E1 & E2). rewrite E1. exact E2.
Qed.

Definition thr0 : M5.thr := M5.mkthr amplitude_threshold 1.

Theorem link_dense_channels d t unw tp :
  WF d -> GeoShape d -> get_template d t unw = Some tp ->
  let T := cols_of (n_channels d) (tmpl_of d unw t) in
  exists b ids, t_best tp = Z.of_nat b /\ t_chans tp = map Z.of_nat ids /\ NoDup ids /\
    S5.Full_template (to_c05 d) (req t unw) T /\ S5.Peak T b /\
    S5.Dense_channels (positions d) (d_shanks d) n_closest_channels thr0 T b ids.
Proof.
  intros Hwf Hgeo H T. pose proof H as H0. rewrite (link_get_template d t unw Hwf Hgeo) in H.
  destruct (M5.get_template stable_argsort (to_c05 d) (req t unw)) as [m|] eqn:Em; [|discriminate].
  injection H as <-. exists (M5.t_best m), (M5.t_channels m). split; [reflexivity|]. split; [reflexivity|].
  assert (Hn : 0 <= M5.d_nclosest (to_c05 d)) by (cbn; unfold n_closest_channels; lia).
  destruct (C05.Props.C05_dense_channels stable_argsort C05.Props.C05_argsort_oracle_exists (to_c05 d) (req t unw) m
              eq_refl Hn eq_refl Em) as (T1 & HF1 & HP & HD).
  destruct (C05.Props.C05_sorted stable_argsort C05.Props.C05_argsort_oracle_exists (to_c05 d) (req t unw) m
              eq_refl Hn eq_refl Em) as (T2 & _ & (Hnd & _)).
  assert (HFT : S5.Full_template (to_c05 d) (req t unw) T).
  { destruct (nth_error (d_tmpl d) t) as [tw|] eqn:Etw.
    - apply P5.dense_full_spec. exact (dense_full_link d t unw tw Hwf Hgeo Etw).
    - unfold get_template in H0. rewrite Etw in H0. discriminate. }
  assert (T1 = T) by exact (C05.Props.C05_full_template_unique _ _ _ _ HF1 HFT). subst T1.
  split; [exact Hnd|]. split; [exact HFT|]. split; [exact HP|]. exact HD.
Qed.
Print Assumptions link_dense_channels.

(* ... and on the theorem about get_cluster_mean_waveforms: "the channels of the dominant template" of C08_mean_fn
   are C05's channels -- pairwise distinct, exactly (some set of the 12 nearest channels of a channel of maximal
   peak-to-peak amplitude of the dominant template) /\ (on that channel's shank) /\ (amplitude >= 0 * peak) *)
Theorem link_dominant_channels d c unw m :
  WF d -> GeoWF d -> mean_waveforms d c unw = Some m ->
  exists tb b ids, Dominant d c tb /\ mw_chans m = map Z.of_nat ids /\ NoDup ids /\
    let T := cols_of (n_channels d) (tmpl_of d unw tb) in
    S5.Full_template (to_c05 d) (req tb unw) T /\ S5.Peak T b /\
    S5.Dense_channels (positions d) (d_shanks d) n_closest_channels thr0 T b ids.
Proof.
  intros Hwf Hgeo H. destruct (mean_waveforms_spec d c unw m Hwf H) as (tb & Hdom & Hch & _).
  pose proof (templates_ok d unw Hwf Hgeo tb (proj1 Hdom)) as Hok.
  destruct (get_template d tb unw) as [tp|] eqn:Etp; [|congruence].
  destruct (link_dense_channels d tb unw tp Hwf (GeoWF_shape d Hgeo) Etp) as (b & ids & _ & Hc & Hnd & HF & HP & HD).
  exists tb, b, ids. split; [exact Hdom|]. split; [|split; [exact Hnd|split; [exact HF|split; [exact HP|exact HD]]]].
  rewrite Hch. unfold chans_of. now rewrite Etp.
Qed.
Print Assumptions link_dominant_channels.

(* ---------- non-vacuity: the data set of Props.v (3 channels, two shanks) ---------- *)
Definition ex_d : dset :=
  mkds [0; 0; 1; 1; 2; 2; 2] [0; 3; 3; 1; 1; 5; 5]
       [ [[1; 2; 3]; [4; 5; 6]]; [[7; 8; 9]; [1; 1; 1]]; [[0; 5; 0]; [0; -5; 0]] ]
       [0; 0; 0] [0; 20; 40] [0; 0; 1] [[1; 0; 0]; [0; 1; 0]; [0; 0; 1]].
Example link_ex :
  get_template ex_d 1 false = Some (mktpl [2] [[9]; [1]] 2) /\                     (* channel 2 is alone on shank 1 *)
  M5.get_template stable_argsort (to_c05 ex_d) (req 1 false) = Some (M5.mkrec [[9; 1]] [8] 2 [2]%nat) /\
  get_template ex_d 0 true = Some (mktpl [1; 0] [[2; 1]; [5; 4]] 0) /\             (* amplitude tie 3 = 3: stable order *)
  M5.get_template stable_argsort (to_c05 ex_d) (req 0 true) = Some (M5.mkrec [[2; 5]; [1; 4]] [3; 3] 0 [1; 0]%nat) /\
  S5.nearest_determined (positions ex_d) 2 n_closest_channels = true.
Proof. vm_compute. repeat split. Qed.

(* ---------- the template both functions take: get_cluster_mean_waveforms (C08) and get_cluster_channels (C05) ----------
   get_cluster_mean_waveforms takes np.argmax of the bincount of the cluster's templates; C05's
   _get_template_from_spikes takes np.argmax of the counts returned by np.unique.  Both are "the template with the most
   of the cluster's spikes, the smallest id among equally frequent ones" (C05.Spec.Main_template): the dominant template
   of C08_dominant_lowest is C05's main template, so (unwhiten=True) get_cluster_mean_waveforms(c).channel_ids and
   get_cluster_channels(c) are the channel list of the same get_template call. *)
Lemma count_link (a b : list Z) (c : Z) (t : nat) : (forall v, In v b -> 0 <= v) ->
  M5.count_nat t (S5.cluster_templates (map Z.to_nat b) a c) =
  Z.of_nat (length (filter (fun p => (fst p =? c) && (snd p =? Z.of_nat t)) (combine a b))).
Proof.
  unfold M5.count_nat, S5.cluster_templates. intros Hb. f_equal. revert b Hb.
  induction a as [|x a IH]; intros [|y b] Hb; cbn [map combine filter]; try reflexivity.
  cbn [fst snd]. assert (Hy : 0 <= y) by (apply Hb; now left).
  assert (IH' := IH b (fun v Hv => Hb v (or_intror Hv))).
  destruct (x =? c); cbn [andb map filter fst]; [|exact IH'].
  destruct (Nat.eqb_spec t (Z.to_nat y)) as [E|E].
  - replace (y =? Z.of_nat t) with true by lia. cbn [length]. now rewrite IH'.
  - replace (y =? Z.of_nat t) with false by lia. exact IH'.
Qed.

Lemma filter_eqb_nil (x : nat) l : ~ In x l -> filter (Nat.eqb x) l = [].
Proof.
  induction l as [|z l IH]; intros H; [reflexivity|]. cbn.
  destruct (Nat.eqb_spec x z) as [->|]; [exfalso; apply H; now left|]. apply IH. intros Hl. apply H. now right.
Qed.

Theorem link_main_template d c unw m :
  WF d -> mean_waveforms d c unw = Some m ->
  exists tb, M5.main_template (map Z.to_nat (d_st d)) (d_sc d) c = Some tb /\
             Dominant d c tb /\ mw_chans m = chans_of d unw tb.
Proof.
  intros Hwf H. destruct (mean_waveforms_lowest d c unw m Hwf H) as (tb & Hdom & Hch & Hlow).
  exists tb. split; [|split; assumption]. apply C05.Proofs7.main_template_complete.
  pose proof Hwf as (HL & Hr & _).
  assert (Hnn : forall v, In v (d_st d) -> 0 <= v) by (intros v Hv; apply Hr in Hv; lia).
  assert (Hc : forall t, M5.count_nat t (S5.cluster_templates (map Z.to_nat (d_st d)) (d_sc d) c) = cnt d c (Z.of_nat t))
    by (intros t; apply count_link; exact Hnn).
  destruct Hdom as (Hlt & Hpos & Hmax).
  assert (Hout : forall t, (length (d_tmpl d) <= t)%nat -> cnt d c (Z.of_nat t) = 0).
  { intros t Ht. unfold cnt.
    assert (E : forall l : list (Z * Z), (forall p, In p l -> snd p < Z.of_nat (length (d_tmpl d))) ->
                filter (fun p => (fst p =? c) && (snd p =? Z.of_nat t)) l = []).
    { induction l as [|p l IHl]; intros Hl; [reflexivity|]. cbn [filter].
      pose proof (Hl p (or_introl eq_refl)). replace (snd p =? Z.of_nat t) with false by lia.
      rewrite andb_false_r. apply IHl. intros q Hq. apply Hl. now right. }
    rewrite E; [reflexivity|]. intros [a b] Hp. apply in_combine_r in Hp. apply Hr in Hp. unfold n_templates, zlen in Hp.
    cbn [snd]. lia. }
  unfold S5.Main_template. cbv zeta. repeat split.
  - (* tb occurs among the cluster's templates: its count is positive *)
    destruct (in_dec Nat.eq_dec tb (S5.cluster_templates (map Z.to_nat (d_st d)) (d_sc d) c)) as [Hin|Hnin]; [exact Hin|].
    exfalso. specialize (Hc tb). unfold M5.count_nat in Hc.
    replace (filter (Nat.eqb tb) _) with (@nil nat) in Hc; [cbn in Hc; lia|].
    symmetry. now apply filter_eqb_nil.
  - intros t. rewrite !Hc. destruct (Nat.lt_ge_cases t (length (d_tmpl d))) as [Ht|Ht]; [now apply Hmax|].
    rewrite (Hout t Ht). lia.
  - intros t Et. rewrite !Hc in Et. destruct (Nat.le_gt_cases tb t) as [|Hgt]; [assumption|].
    specialize (Hlow t Hgt). lia.
Qed.
Print Assumptions link_main_template.
