(* C08/Proofs5.v -- get_template succeeds on every template of a well-formed data set with a well-formed
   geometry (pairwise distinct channel positions, one shank id per channel): Templates_OK is discharged. *)
From Coq Require Import ZArith List Lia Bool Arith Sorted Permutation.
From PV Require Import Base.NpSearch Base.NpSort Base.Tok Base.TokArith C08.Model C08.Spec C08.Proofs C08.Proofs2
                       C08.Proofs3 C08.Proofs4.
Import ListNotations.
Open Scope Z_scope.

Definition GeoWF (d : dset) : Prop :=
  length (d_py d) = n_channels d /\ length (d_shanks d) = n_channels d /\
  (1 <= n_channels d)%nat /\ (1 <= n_samples_wf d)%nat /\
  forall i j xi yi xj yj, i <> j ->
    nth_error (d_px d) i = Some xi -> nth_error (d_py d) i = Some yi ->
    nth_error (d_px d) j = Some xj -> nth_error (d_py d) j = Some yj -> (xi, yi) <> (xj, yj).

(* ---------- column folds ---------- *)
Lemma fold_zipf_length (f : Z -> Z -> Z) (n : nat) (init : list Z) (L : list (list Z)) :
  length init = n -> (forall e, In e L -> length e = n) ->
  length (fold_right (zip_with f) init L) = n.
Proof.
  intros Hi. induction L as [|e L IH]; intros H; [exact Hi|].
  cbn [fold_right]. rewrite zip_with_length, IH, (H e (or_introl eq_refl)); [lia|].
  intros e' He. apply H. now right.
Qed.

Lemma zip_min_max_le (e A B : list Z) :
  Forall2 Z.le B A -> Forall2 Z.le (zip_with Z.min e B) (zip_with Z.max e A).
Proof.
  intros H. revert e. induction H as [|b a B A Hba H IH]; intros [|x e]; cbn [zip_with]; constructor; [lia|apply IH].
Qed.

Lemma fold_min_le_max (r : list Z) (rs : list (list Z)) :
  Forall2 Z.le (fold_right (zip_with Z.min) r rs) (fold_right (zip_with Z.max) r rs).
Proof.
  induction rs as [|e rs IH]; cbn [fold_right].
  - induction r; constructor; [lia|assumption].
  - now apply zip_min_max_le.
Qed.

Lemma zip_sub_nonneg (mx mn : list Z) : Forall2 Z.le mn mx -> forall v, In v (zip_with Z.sub mx mn) -> 0 <= v.
Proof.
  intros H. induction H as [|b a B A Hba H IH]; intros v Hv; [destruct Hv|].
  cbn [zip_with] in Hv. destruct Hv as [<-|Hv]; [lia|now apply IH].
Qed.

(* ---------- the head of a stable sort ---------- *)
Lemma isort_head {V} (L : list (Z * V)) (k0 : Z) (v0 : V) :
  (forall e, In e L -> k0 <= fst e) -> filter (eqk k0) L = [(k0, v0)] ->
  exists T, isort L = (k0, v0) :: T.
Proof.
  intros Hmin Hf.
  assert (Hin : In (k0, v0) L).
  { assert (H : In (k0, v0) (filter (eqk k0) L)) by (rewrite Hf; now left). apply filter_In in H. tauto. }
  pose proof (isort_perm L) as Hp. pose proof (isort_sorted L) as Hs. pose proof (isort_stable k0 L) as Hst.
  destruct (isort L) as [|h T] eqn:E.
  - exfalso. apply Permutation_nil in Hp. subst. destruct Hin.
  - exists T. f_equal.
    assert (Hh : In h L) by (apply (Permutation_in _ Hp); now left).
    assert (Hk : fst h = k0).
    { pose proof (Hmin h Hh). assert (Hin' : In (k0, v0) (h :: T)) by (apply (Permutation_in _ (Permutation_sym Hp)); exact Hin).
      destruct Hin' as [->|Hin']; [reflexivity|]. pose proof (sortedk_ge _ _ _ Hs Hin'). cbn in *. lia. }
    rewrite Hf in Hst. cbn [filter] in Hst. unfold eqk at 1 in Hst. rewrite Hk, Z.eqb_refl in Hst. congruence.
Qed.

Lemma filter_zero_combine (dd : list Z) (a b : nat) :
  nth_error dd b = Some 0 -> (forall j v, j <> b -> nth_error dd j = Some v -> v <> 0) ->
  filter (eqk 0) (combine dd (seq a (length dd))) = [(0, (a + b)%nat)].
Proof.
  revert a b. induction dd as [|x dd IH]; intros a b Hb Hnz; [destruct b; discriminate|].
  cbn [length seq combine filter]. unfold eqk at 1. cbn [fst].
  destruct b as [|b].
  - cbn in Hb. injection Hb as ->. cbn [Z.eqb]. f_equal; [f_equal; lia|].
    clear IH. assert (H : forall j v, nth_error dd j = Some v -> v <> 0) by (intros j v Hj; apply (Hnz (S j)); [lia|exact Hj]).
    clear Hnz. revert H. generalize (S a). induction dd as [|y dd IHd]; intros n H; [reflexivity|].
    cbn [length seq combine filter]. unfold eqk at 1. cbn [fst].
    replace (y =? 0) with false by (symmetry; apply Z.eqb_neq; apply (H O); reflexivity).
    apply IHd. intros j v Hj. apply (H (S j)). exact Hj.
  - replace (x =? 0) with false by (symmetry; apply Z.eqb_neq; apply (Hnz O); [lia|reflexivity]).
    rewrite (IH (S a) b); [f_equal; f_equal; lia|exact Hb|].
    intros j v Hj. apply (Hnz (S j)). lia.
Qed.

Lemma nth_error_zip_with {A B C} (f : A -> B -> C) a b k :
  nth_error (zip_with f a b) k =
  match nth_error a k, nth_error b k with Some x, Some y => Some (f x y) | _, _ => None end.
Proof.
  revert b k. induction a as [|x a IH]; intros [|y b] [|k]; cbn; try reflexivity.
  - destruct (nth_error a k); reflexivity.
  - apply IH.
Qed.

Lemma closest_ok d b :
  GeoWF d -> (b < n_channels d)%nat ->
  exists rest, closest (d_px d) (d_py d) b = Some (Z.of_nat b :: rest).
Proof.
  intros (Hpy & _ & _ & _ & Hdist) Hb. unfold closest, n_channels in *.
  destruct (nth_error (d_px d) b) as [x0|] eqn:Ex; [|apply nth_error_None in Ex; lia].
  destruct (nth_error (d_py d) b) as [y0|] eqn:Ey; [|apply nth_error_None in Ey; lia].
  set (dd := zip_with Z.add _ _).
  assert (Hdd : forall j, nth_error dd j =
            match nth_error (d_px d) j, nth_error (d_py d) j with
            | Some x, Some y => Some ((x - x0) * (x - x0) + (y - y0) * (y - y0)) | _, _ => None end).
  { intros j. unfold dd. rewrite nth_error_zip_with, !nth_error_map.
    destruct (nth_error (d_px d) j), (nth_error (d_py d) j); reflexivity. }
  assert (Hb0 : nth_error dd b = Some 0) by (rewrite Hdd, Ex, Ey; f_equal; lia).
  assert (Hnz : forall j v, j <> b -> nth_error dd j = Some v -> v <> 0).
  { intros j v Hj Hv. rewrite Hdd in Hv.
    destruct (nth_error (d_px d) j) as [x|] eqn:Ejx; [|discriminate].
    destruct (nth_error (d_py d) j) as [y|] eqn:Ejy; [|discriminate]. injection Hv as <-.
    intros Hz. apply (Hdist j b x y x0 y0 Hj Ejx Ejy Ex Ey).
    pose proof (Z.square_nonneg (x - x0)). pose proof (Z.square_nonneg (y - y0)).
    assert (Hx0 : (x - x0) * (x - x0) = 0) by lia. assert (Hy0 : (y - y0) * (y - y0) = 0) by lia.
    apply Z.eq_mul_0 in Hx0. apply Z.eq_mul_0 in Hy0. f_equal; lia. }
  assert (Hpos : forall e, In e (combine dd (seq 0 (length dd))) -> 0 <= fst e).
  { intros [k i] He. apply in_combine_l in He. apply in_nth_error in He. destruct He as (j & Hj). rewrite Hdd in Hj.
    destruct (nth_error (d_px d) j) as [xj|]; [|discriminate]. destruct (nth_error (d_py d) j) as [yj|]; [|discriminate].
    injection Hj as <-. cbn [fst]. pose proof (Z.square_nonneg (xj - x0)). pose proof (Z.square_nonneg (yj - y0)). lia. }
  destruct (isort_head _ 0 b Hpos (filter_zero_combine dd 0 b Hb0 Hnz)) as (T & HT).
  unfold stable_argsort. rewrite HT. cbn [map snd].
  replace (n_closest_channels =? 0) with false by reflexivity.
  replace (Z.to_nat n_closest_channels) with 12%nat by reflexivity. cbn [firstn].
  rewrite Z.eqb_refl. eauto.
Qed.

(* ---------- _find_best_channels and get_template succeed ---------- *)
Lemma in_combine_index (amp : list Z) b v :
  nth_error amp b = Some v -> In (v, Z.of_nat b) (combine amp (zrange 0 (length amp))).
Proof.
  intros H. apply in_combine_nth. exists b. split; [exact H|]. apply nth_error_zrange.
  apply nth_error_Some. congruence.
Qed.

Lemma combine_zrange_snd (amp : list Z) p :
  In p (combine amp (zrange 0 (length amp))) -> 0 <= snd p < Z.of_nat (length amp).
Proof.
  destruct p as [v k]. intros H. apply in_combine_r in H. apply zrange_ge in H. cbn. lia.
Qed.

Lemma find_best_ok d x :
  GeoWF d -> x <> [] -> (forall row, In row x -> length row = n_channels d) ->
  exists chans b, find_best_channels d x = Some (chans, b) /\
                  forall ch, In ch chans -> 0 <= ch < Z.of_nat (n_channels d).
Proof.
  intros Hgeo Hne Hrow. pose proof Hgeo as (Hpy & Hsh & Hnc & _ & _).
  destruct x as [|r rs]; [congruence|]. unfold find_best_channels. cbn [col_fold].
  set (mx := fold_right (zip_with Z.max) r rs). set (mn := fold_right (zip_with Z.min) r rs).
  assert (Hlmx : length mx = n_channels d).
  { apply fold_zipf_length; [apply Hrow; now left|]. intros e He. apply Hrow. now right. }
  assert (Hlmn : length mn = n_channels d).
  { apply fold_zipf_length; [apply Hrow; now left|]. intros e He. apply Hrow. now right. }
  set (amp := zip_with Z.sub mx mn).
  assert (Hlamp : length amp = n_channels d) by (unfold amp; rewrite zip_with_length; lia).
  assert (Hamp0 : forall v, In v amp -> 0 <= v) by (apply zip_sub_nonneg, fold_min_le_max).
  destruct (argmax amp) as [b|] eqn:Ea.
  2:{ destruct amp; [cbn in Hlamp; lia|discriminate]. }
  destruct (argmax_spec _ _ Ea) as (v & Hv & Hub). rewrite Hv.
  assert (Hb : (b < n_channels d)%nat) by (rewrite <- Hlamp; apply nth_error_Some; congruence).
  destruct (closest_ok d b Hgeo Hb) as (rest & Hc). rewrite Hc.
  replace (memZ (Z.of_nat b) (Z.of_nat b :: rest)) with true by (unfold memZ; cbn [existsb]; now rewrite Z.eqb_refl).
  cbn [negb].
  destruct (nth_error (d_shanks d) b) as [shank|] eqn:Es; [|apply nth_error_None in Es; lia].
  set (chs := zrange 0 (length amp)).
  set (peak := map snd (filter _ (combine amp chs))).
  set (on_shank := map snd (filter _ (combine (d_shanks d) _))).
  set (ids := intersect1d peak _).
  set (ordered := map snd (rev (isort (filter (fun p => memZ (snd p) ids) (combine amp chs))))).
  assert (Hv0 : 0 <= v) by (apply Hamp0; eapply nth_error_In; exact Hv).
  assert (Hbi : In (Z.of_nat b) ids).
  { unfold ids, intersect1d. apply filter_In. split.
    - apply np_unique_in. unfold peak. apply in_map_iff. exists (v, Z.of_nat b). split; [reflexivity|].
      apply filter_In. split; [now apply in_combine_index|]. cbn [fst]. unfold amplitude_threshold. lia.
    - apply memZ_In. apply filter_In. split.
      + apply np_unique_in. now left.
      + apply memZ_In. unfold on_shank. apply in_map_iff. exists (shank, Z.of_nat b). split; [reflexivity|].
        apply filter_In. split; [now apply in_combine_index|]. cbn [fst]. apply Z.eqb_refl. }
  assert (Hbo : In (Z.of_nat b) ordered).
  { unfold ordered. apply in_map_iff. exists (v, Z.of_nat b). split; [reflexivity|].
    apply in_rev. rewrite rev_involutive. apply (Permutation_in _ (Permutation_sym (isort_perm _))).
    apply filter_In. split; [now apply in_combine_index|]. cbn [snd]. now apply memZ_In. }
  replace (memZ (Z.of_nat b) ordered) with true by (symmetry; now apply memZ_In).
  exists ordered, (Z.of_nat b). split; [reflexivity|].
  intros ch Hch. unfold ordered in Hch. apply in_map_iff in Hch. destruct Hch as (p & <- & Hp).
  apply in_rev in Hp. apply (Permutation_in _ (isort_perm _)) in Hp. apply filter_In in Hp. destruct Hp as (Hp & _).
  apply combine_zrange_snd in Hp. lia.
Qed.

Theorem templates_ok d unw : WF d -> GeoWF d -> Templates_OK d unw.
Proof.
  intros Hwf Hgeo t Ht. pose proof Hwf as (_ & _ & Htm & Hw & Hwr). pose proof Hgeo as (_ & _ & _ & Hns & _).
  destruct (nth_error (d_tmpl d) t) as [tw|] eqn:Etw; [|apply nth_error_None in Etw; lia].
  destruct (Htm tw (nth_error_In _ _ Etw)) as (Hlt & Hrows).
  assert (Hun : unw = true -> unwhiten (d_wmi d) tw <> None).
  { intros _. unfold unwhiten.
    replace (forallb (fun row => (length row =? length (d_wmi d))%nat) tw) with true.
    2:{ symmetry. apply forallb_forall. intros row Hr. apply Nat.eqb_eq. rewrite Hw. now apply Hrows. }
    replace (forallb (fun r => (length r =? length (d_wmi d))%nat) (d_wmi d)) with true; [discriminate|].
    symmetry. apply forallb_forall. intros r Hr. apply Nat.eqb_eq. rewrite Hw. now apply Hwr. }
  destruct (tmpl_of_shape d unw t tw Hwf Etw Hun) as (Hlen & Hrow).
  assert (Hne : tmpl_of d unw t <> []) by (intros E; rewrite E in Hlen; cbn in Hlen; lia).
  destruct (find_best_ok d (tmpl_of d unw t) Hgeo Hne Hrow) as (chans & b & Hf & Hr).
  assert (Hg : exists data, omap (fun row => gather_cols row chans) (tmpl_of d unw t) = Some data).
  { apply omap_total. intros row Hin. eexists. apply (gather_map_ok (fun k => nth (Z.to_nat k) row 0)).
    intros ch Hch. split; [apply Hr in Hch; lia|]. apply nth_error_nth'. rewrite (Hrow row Hin). apply Hr in Hch. lia. }
  destruct Hg as (data & Hg).
  unfold get_template. rewrite Etw. unfold tmpl_of in Hf, Hg. rewrite Etw in Hf, Hg.
  destruct unw.
  - destruct (unwhiten (d_wmi d) tw) as [x|] eqn:Eu; [|exfalso; now apply Hun].
    rewrite Hf, Hg. discriminate.
  - rewrite Hf, Hg. discriminate.
Qed.
