(* C08/Proofs6.v -- the boolean provenance checkers of the correspondence (clauses 21, 22) imply the
   declarative statement about the OBSERVED merge map and nan_idx. *)
From Coq Require Import ZArith List Lia Bool Arith Sorted Permutation.
From PV Require Import Base.NpSearch Base.NpSort Base.Tok Base.TokArith C08.Model C08.Spec C08.Proofs C08.Proofs2
                       C08.Proofs3.
Import ListNotations.
Open Scope Z_scope.

(* the observed merge_map.items(): keys exactly 0..max in order; every value strictly increasing and equal,
   as a set, to the templates of the key's spikes *)
Definition MM_Obs_Spec (st sc : list Z) (omm : list (Z * list Z)) : Prop :=
  forall M, IsMax M sc ->
    map fst omm = zrange 0 (Z.to_nat (M + 1)) /\
    forall c l, In (c, l) omm -> StronglySorted Z.lt l /\ forall t, In t l <-> PairIn st sc c t.
Definition Nan_Obs_Spec (sc : list Z) (onan : list Z) : Prop :=
  forall M, IsMax M sc ->
    StronglySorted Z.lt onan /\ forall c, In c onan <-> (0 <= c <= M /\ ~ In c sc).

Lemma sorted_lt_b_sound l : sorted_lt_b l = true -> StronglySorted Z.lt l.
Proof.
  intros H. apply Sorted_StronglySorted; [intros a b c; lia|].
  induction l as [|x r IH]; [constructor|]. cbn [sorted_lt_b] in H. destruct r as [|y r'].
  - repeat constructor.
  - apply andb_true_iff in H. destruct H as (H1 & H2). constructor; [now apply IH|constructor; lia].
Qed.

Lemma pair_b_spec st sc c t : pair_b st sc c t = true <-> PairIn st sc c t.
Proof.
  unfold pair_b, PairIn. rewrite existsb_exists. split.
  - intros ([a b] & Hin & Hb). cbn in Hb. apply andb_true_iff in Hb. destruct Hb as (Ha%Z.eqb_eq & Hb%Z.eqb_eq).
    subst. now apply in_combine_nth.
  - intros H. exists (c, t). split; [now apply in_combine_nth|]. cbn. now rewrite !Z.eqb_refl.
Qed.

Lemma mm_entry_b_sound st sc c l :
  mm_entry_b st sc c l = true -> StronglySorted Z.lt l /\ forall t, In t l <-> PairIn st sc c t.
Proof.
  unfold mm_entry_b. rewrite !andb_true_iff, !forallb_forall. intros ((H1 & H2) & H3).
  split; [now apply sorted_lt_b_sound|]. intros t. split.
  - intros Ht. apply pair_b_spec. now apply H2.
  - intros Hp. apply pair_b_spec in Hp. unfold pair_b in Hp. apply existsb_exists in Hp.
    destruct Hp as ([a b] & Hin & Hb). specialize (H3 _ Hin). cbn in Hb, H3.
    apply andb_true_iff in Hb. destruct Hb as (Ha & Hb%Z.eqb_eq). rewrite Ha in H3. cbn in H3. subst b.
    now apply memZ_In.
Qed.

Theorem mm_b_sound st sc omm : mm_b st sc omm = true -> MM_Obs_Spec st sc omm.
Proof.
  unfold mm_b. destruct sc as [|x r]; [discriminate|]. rewrite andb_true_iff, forallb_forall.
  intros (Hk & He) M HM. apply ismax_zmax in HM. subst M. apply zlist_eqb_spec in Hk. split; [exact Hk|].
  intros c l Hin. apply (mm_entry_b_sound st (x :: r) c l). exact (He _ Hin).
Qed.

Lemma zrange_sorted a n : StronglySorted Z.lt (zrange a n).
Proof.
  revert a. induction n as [|n IH]; intros a; cbn [zrange]; constructor; [apply IH|].
  apply Forall_forall. intros y Hy. apply zrange_ge in Hy. lia.
Qed.

Theorem nan_b_sound sc onan : nan_b sc onan = true -> Nan_Obs_Spec sc onan.
Proof.
  unfold nan_b. destruct sc as [|x r]; [discriminate|]. intros H M HM. apply ismax_zmax in HM. subst M.
  apply zlist_eqb_spec in H. subst onan.
  assert (H0 : 0 <= zmax_ne x r + 1 \/ zmax_ne x r + 1 < 0) by lia.
  split; [apply sorted_filter, zrange_sorted|]. intros c. rewrite filter_In. split.
  - intros (Hc & Hn). apply zrange_ge in Hc. split; [lia|]. intros Hin. apply memZ_In in Hin. rewrite Hin in Hn. discriminate.
  - intros (Hc & Hn). split; [apply zrange_in; lia|]. destruct (memZ c (x :: r)) eqn:E; [|reflexivity].
    apply memZ_In in E. contradiction.
Qed.
